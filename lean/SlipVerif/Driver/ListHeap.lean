import SlipVerif.Model.ListHeap
import SlipVerif.Driver.Util
--! namespace: heap
/- line protocol for C06:   heap run <token>*
   tokens alternate  S;<target>;<op>;<arg>;…   (one step: `(setq target (op args…))`, target `-` = none)
                and  O;<result>;<var>=<vals>;… (what the implementation showed after that step:
                                                 result and the contents of EVERY live variable)
   values: `l1.2.3` list (`l` = nil), `i5` atom, `e` condition, `x` not a flat integer list
   reply : ok <status>;<expected result>;<vars that may change>;<vars resynchronised>  per step
           status ok | err (the operation is rejected by the language: expected result `e`) |
                  circ (the operation would build a circular list: the history ends here) | fuel

   The driver follows the implementation: before each step the heap denotes exactly the values the
   implementation printed (`contents env v = observed v`); the step's expected result is the value
   level (B) of the model on these values, the may-change set is computed on the heap (A).  Where
   the implementation legitimately copied instead of sharing, the observed values differ from the
   heap's prediction for variables in the may-change set; those variables are re-allocated with the
   observed contents and stay entangled (same region) with everything the operation could reach, so
   that later sharing among them is never reported. -/
namespace SlipVerif.Driver.ListHeap
open SlipVerif.ListHeap SlipVerif.Driver

structure St where
  heap : Heap := []
  regs : List Nat := []          -- region of each cell (parallel to heap)
  env : List (String × Ref) := []
  nextReg : Nat := 0
  skipNext : Bool := false       -- the inner call of a nested application was rejected: the outer call does not run

def parseVals (s : String) : Option (List Val) :=
  if s.isEmpty then some [] else (s.splitOn ".").mapM (fun w => w.toInt?)

def showVals (vs : List Val) : String := ".".intercalate (vs.map toString)

def parsePred (s : String) : Option Pred :=
  match s.splitOn ":" with
  | ["even"] => some .even
  | ["odd"] => some .odd
  | ["eq", v] => v.toInt?.map .eq
  | ["lt", v] => v.toInt?.map .lt
  | ["gt", v] => v.toInt?.map .gt
  | [v] => v.toInt?.map .eq
  | _ => none

def parseFn : String → Option Fn
  | "inc" => some .inc
  | "dbl" => some .dbl
  | "neg" => some .neg
  | _ => none

/-- `pred[,key=f][,start=n][,end=n][,count=n][,fromend]` or `dups[,fromend]` -/
def parseSpec (s : String) : Option RemSpec :=
  match s.splitOn "," with
  | [] => none
  | hd :: opts => do
    let base : RemSpec ← if hd = "dups" then some { pred := .even, dups := true } else (parsePred hd).map (fun p => { pred := p })
    opts.foldlM (fun (sp : RemSpec) o =>
      match o.splitOn "=" with
      | ["fromend"] => some { sp with fromEnd := true }
      | ["key", f] => (parseFn f).map (fun k => { sp with key := some k })
      | ["start", n] => n.toNat?.map (fun k => { sp with start := k })
      | ["end", n] => n.toNat?.map (fun k => { sp with stop := some k })
      | ["count", n] => n.toNat?.map (fun k => { sp with count := some k })
      | _ => none) base

/-- `pred[,key=f]` -/
def parsePredKey (s : String) : Option (Pred × Option Fn) :=
  match s.splitOn "," with
  | [p] => (parsePred p).map (fun q => (q, none))
  | [p, k] => do
      let q ← parsePred p
      match k.splitOn "=" with
      | ["key", f] => (parseFn f).map (fun g => (q, some g))
      | _ => none
  | _ => none

/-- `asc|desc[,key=f]` -/
def parseSortOpts (s : String) : Option (Bool × Option Fn) :=
  match s.splitOn "," with
  | [d] => if d = "desc" then some (true, none) else if d = "asc" then some (false, none) else none
  | [d, k] => do
      let desc ← if d = "desc" then some true else if d = "asc" then some false else none
      match k.splitOn "=" with
      | ["key", f] => (parseFn f).map (fun g => (desc, some g))
      | _ => none
  | _ => none

def parseFn1 (s : String) : Option Fn1 :=
  match s.splitOn ":" with
  | ["copy"] => some .copy
  | ["dedup"] => some .dedup
  | ["subst", nw, old] => do some (.subst (← nw.toInt?) (← old.toInt?))
  | ["substif", nw, p] => do some (.substIf (← nw.toInt?) (← parsePred p))
  | _ => none

def parseFn2 : String → Option Fn2
  | "interleave" => some .interleave
  | "firstpair" => some .firstPair
  | "lastpair" => some .lastPair
  | "takemin" => some .takeMin
  | "union" => some .union
  | _ => none

/-- every variable of a history is let-bound to nil before the first step -/
def lookup (env : List (String × Ref)) (name : String) : Option Ref :=
  match env.find? (fun p => p.1 = name) with
  | some p => some p.2
  | none => some .nil

def assign (env : List (String × Ref)) (name : String) (r : Ref) : List (String × Ref) :=
  if env.any (fun p => p.1 = name) then env.map (fun p => if p.1 = name then (name, r) else p)
  else env ++ [(name, r)]

/-- how the result of the heap operation is turned into the step's result and variable updates -/
inductive Kind where
  | list                 -- result is the list
  | carOfArg             -- pop: result is the car of the argument, the variable becomes the op's result
  | pushVar              -- push: result is the list and the variable becomes it too
  | atom (v : Val)       -- setf: result is the stored value
  deriving Repr

structure Step where
  target : String
  op : Op
  kind : Kind
  place : Option String := none   -- variable reassigned by push / pop

def parseStep (h : Heap) (env : List (String × Ref)) (ws : List String) : Option Step :=
  let var := lookup env
  let holds (x : String) (v : Int) : Bool :=
    match (lookup env x).bind (fun r => contents h (stdFuel h) r) with
    | some vs => vs.contains v
    | none => false
  let elemAt (x : String) (n : Nat) : Int :=
    match (lookup env x).bind (fun r => contents h (stdFuel h) r) with
    | some vs => vs.getD n 0
    | none => 0
  let nat (s : String) := s.toNat?
  let int (s : String) := s.toInt?
  match ws with
  | [t, "lit", vs] => do some ⟨t, .lit (← parseVals vs), .list, none⟩
  | [t, "lit"] => some ⟨t, .lit [], .list, none⟩
  | [t, "alias", x] => do some ⟨t, .alias (← var x), .list, none⟩
  | [t, "cons", v, x] => do some ⟨t, .cons (← int v) (← var x), .list, none⟩
  | [t, "push", v, x] => do some ⟨t, .cons (← int v) (← var x), .pushVar, some x⟩
  | [t, "liststar", v, w, x] => do some ⟨t, .listStar (← int v) (← int w) (← var x), .list, none⟩
  | [t, "append", x, y] => do some ⟨t, .append (← var x) (← var y), .list, none⟩
  | [t, "cdr", x] => do some ⟨t, .nthcdr 1 (← var x), .list, none⟩
  | [t, "rest", x] => do some ⟨t, .nthcdr 1 (← var x), .list, none⟩
  | [t, "nthcdr", n, x] => do some ⟨t, .nthcdr (← nat n) (← var x), .list, none⟩
  | [t, "pop", x] => do some ⟨t, .nthcdr 1 (← var x), .carOfArg, some x⟩
  | [t, "last", n, x] => do some ⟨t, .last (← nat n) (← var x), .list, none⟩
  | [t, "member", pk, x] => do let (p, k) ← parsePredKey pk; some ⟨t, .member p k (← var x), .list, none⟩
  | [t, "liststar1", x] => do some ⟨t, .alias (← var x), .list, none⟩
  | [t, "liststar2", v, x] => do some ⟨t, .cons (← int v) (← var x), .list, none⟩
  | [t, "mapcar2", x, y] => do some ⟨t, .mapcar2 (← var x) (← var y), .list, none⟩
  | [t, "concat", x, y] => do some ⟨t, .concat (← var x) (← var y), .list, none⟩
  | [t, "fresh1", f, x] => do some ⟨t, .fresh1 (← parseFn1 f) (← var x), .list, none⟩
  | [t, "fresh2", f, x, y] => do some ⟨t, .fresh2 (← parseFn2 f) (← var x) (← var y), .list, none⟩
  | [t, "revappend", x, y] => do some ⟨t, .revappend (← var x) (← var y), .list, none⟩
  -- (apply (lambda (&rest p) p) x): the &rest list may share with the spread list (CLHS 3.4.1.3)
  | [t, "applyrest", x] => do some ⟨t, .alias (← var x), .list, none⟩
  -- adjoin / pushnew: the list itself when the item is present, a cons onto it otherwise
  | [t, "adjoin", v, x] => do
      let v' ← int v
      if holds x v' then some ⟨t, .alias (← var x), .list, none⟩ else some ⟨t, .cons v' (← var x), .list, none⟩
  | [t, "pushnew", v, x] => do
      let v' ← int v
      if holds x v' then some ⟨t, .alias (← var x), .pushVar, some x⟩ else some ⟨t, .cons v' (← var x), .pushVar, some x⟩
  | [t, "butlast", n, x] => do some ⟨t, .butlast (← nat n) (← var x), .list, none⟩
  | [t, "subseq", s, e, x] => do
      let e' ← if e = "-" then some none else (nat e).map some
      some ⟨t, .subseq (← nat s) e' (← var x), .list, none⟩
  | [t, "copylist", x] => do some ⟨t, .copyList (← var x), .list, none⟩
  | [t, "reverse", x] => do some ⟨t, .reverse (← var x), .list, none⟩
  | [t, "remove", sp, x] => do some ⟨t, .remove (← parseSpec sp) (← var x), .list, none⟩
  | [t, "mapcar", f, x] => do some ⟨t, .mapcar (← parseFn f) (← var x), .list, none⟩
  | [t, "rplaca", x, v] => do some ⟨t, .rplaca (← var x) (← int v), .list, none⟩
  | [t, "setcar", x, v] => do let v' ← int v; some ⟨t, .rplaca (← var x) v', .atom v', none⟩
  | [t, "setnth", n, x, v] => do let v' ← int v; some ⟨t, .setNth (← nat n) (← var x) v', .atom v', none⟩
  | [t, "setelt", n, x, v] => do let v' ← int v; some ⟨t, .setNth (← nat n) (← var x) v', .atom v', none⟩
  | [t, "rplacd", x, y] => do some ⟨t, .rplacd (← var x) (← var y), .list, none⟩
  | [t, "nconc", x, y] => do some ⟨t, .nconc (← var x) (← var y), .list, none⟩
  | [t, "add", x, vs] => do some ⟨t, .add (← var x) (← parseVals vs), .list, none⟩
  | [t, "nreverse", x] => do some ⟨t, .nreverse (← var x), .list, none⟩
  | [t, "sort", x] => do some ⟨t, .sort false none (← var x), .list, none⟩
  | [t, "sort", o, x] => do let (d, k) ← parseSortOpts o; some ⟨t, .sort d k (← var x), .list, none⟩
  | [t, "delete", sp, x] => do some ⟨t, .delete (← parseSpec sp) (← var x), .list, none⟩
  -- destructive functions that overwrite elements
  | [t, "fill", v, x] => do some ⟨t, .carmap (.fill (← int v)) (← var x), .list, none⟩
  | [t, "nsubst", nw, old, x] => do some ⟨t, .carmap (.subst (← int nw) (← int old)) (← var x), .list, none⟩
  | [t, "nsubstif", nw, p, x] => do some ⟨t, .carmap (.substIf (← int nw) (← parsePred p)) (← var x), .list, none⟩
  | [t, "mapinto", f, x] => do some ⟨t, .carmap (.mapInto (← parseFn f)) (← var x), .list, none⟩
  | [t, "replace", s, vs, x] => do some ⟨t, .carmap (.replaceAt (← nat s) (← parseVals vs)) (← var x), .list, none⟩
  -- (incf (nth n x) d): the result is the new element
  | [t, "incfnth", n, d, x] => do
      let n' ← nat n
      let d' ← int d
      some ⟨t, .carmap (.addNth n' d') (← var x), .atom ((elemAt x n') + d'), none⟩
  | [t, "nbutlast", n, x] => do some ⟨t, .nbutlast (← nat n) (← var x), .list, none⟩
  | _ => none

/-- observation token fields `name=vals` -/
def parseObs (ws : List String) : Option (List (String × List Val)) :=
  ws.mapM (fun w => match w.splitOn "=" with
    | [n, vs] => (parseVals vs).map (fun v => (n, v))
    | _ => none)

def valuesOf (h : Heap) (r : Ref) : Option (List Val) := contents h (stdFuel h) r

def chainList (h : Heap) (r : Ref) : List Nat :=
  match chainOf h r with
  | .ok as => as
  | .error _ => []

def names (xs : List String) : String := if xs.isEmpty then "-" else ",".intercalate xs

/-- one step; returns the new state, the reply token and whether the history ends here -/
def step (st : St) (s : Step) (obs : List (String × List Val)) : St × String × Bool :=
  let h := st.heap
  -- values of the list arguments as the heap (= the implementation) has them now
  let argVals := s.op.listArgs.map (fun r => valuesOf h r)
  match run h s.op with
  | .error .circular => (st, "circ;-;-;-", true)
  | .error .fuel => (st, "fuel;-;-;-", true)
  | .error _ =>
    -- a rejected inner call of a nested application: the whole form signals, the outer call never runs
    let st' := if s.target = "$tmp" then { st with env := assign st.env "$tmp" .nil, skipNext := true } else st
    (st', "err;e;-;-", false)
  | .ok (h1, res) =>
    -- expected result by the value level (B) on the current argument values
    let xs := (argVals.head?.bind id).getD []
    let ys := ((argVals.drop 1).head?.bind id).getD []
    let expected : String :=
      match s.kind, valueOf s.op xs ys with
      | _, .error _ => "e"
      | .list, .ok vs => "l" ++ showVals vs
      | .pushVar, .ok vs => "l" ++ showVals vs
      | .atom v, .ok _ => "i" ++ toString v
      | .carOfArg, .ok _ => match xs with
          | [] => "l"
          | v :: _ => "i" ++ toString v
    -- may-change set: variables with a cell in a region the operation's footprint touches
    let fp := footprint h s.op
    let regOf (rs : List Nat) (a : Nat) : Option Nat := rs[a]?
    let may := st.env.filter (fun p => mayChange st.regs h s.op p.2)
    let mayNames := may.map (·.1)
    -- variable updates
    let env1 := match s.kind with
      | .list => if s.target = "-" then st.env else assign st.env s.target res
      | .atom _ => st.env
      | .pushVar =>
          let e := match s.place with | some x => assign st.env x res | none => st.env
          if s.target = "-" then e else assign e s.target res
      | .carOfArg => match s.place with | some x => assign st.env x res | none => st.env
    let newReg := st.nextReg
    let regs1 := st.regs ++ List.replicate (h1.length - h.length) newReg
    -- resynchronise with what the implementation showed
    let diverged := env1.filter (fun p =>
      match obs.find? (fun o => o.1 = p.1) with
      | some o => valuesOf h1 p.2 != some o.2
      | none => false)
    if !s.op.destructive && diverged.isEmpty then
      ({ heap := h1, regs := regs1, env := env1, nextReg := newReg + 1 }, s!"ok;{expected};{names mayNames};-", false)
    else
      -- a destructive operation entangles everything it could reach: the argument lists, every
      -- variable sharing a cell with them (before or after) and the cells allocated by the step
      -- become one region (slip rewrites slots in place where the language relinks cells, so the
      -- lists involved may stay aliased in ways the cons model no longer shows)
      let involved := mayNames ++ diverged.map (·.1)
      let groupCells := fp
        ++ (st.env.filter (fun p => involved.contains p.1)).flatMap (fun p => chainList h p.2)
        ++ (env1.filter (fun p => involved.contains p.1)).flatMap (fun p => chainList h1 p.2)
        ++ (if s.op.destructive then List.range' h.length (h1.length - h.length) else [])
      let groupRegs := groupCells.filterMap (regOf regs1)
      let blob := newReg + 1
      let regs2 := mergeRegs regs1 groupRegs blob
      let (h2, regs3, env2) := diverged.foldl (fun (acc : Heap × List Nat × List (String × Ref)) p =>
        let (hh, rr, ee) := acc
        let vs := ((obs.find? (fun o => o.1 = p.1)).map (·.2)).getD []
        let (hh', r) := allocList hh vs .nil
        (hh', rr ++ List.replicate (hh'.length - hh.length) blob, assign ee p.1 r)) (h1, regs2, env1)
      ({ heap := h2, regs := regs3, env := env2, nextReg := newReg + 2 },
       s!"ok;{expected};{names mayNames};{names (diverged.map (·.1))}", false)

def loop (st : St) (toks : List String) (acc : List String) : String :=
  match toks with
  | [] => " ".intercalate ("ok" :: acc.reverse)
  | s :: o :: rest =>
    match s.splitOn ";", o.splitOn ";" with
    | "S" :: sw, "O" :: _ :: ow =>
      match parseStep st.heap st.env sw, parseObs ow with
      | some stp, some obs =>
        let (st', reply, stop) :=
          if st.skipNext then ({ st with skipNext := false }, "err;e;-;-", false) else step st stp obs
        if stop then " ".intercalate ("ok" :: (reply :: acc).reverse)
        else loop st' rest (reply :: acc)
      | none, _ => s!"bad-request step {s}"
      | _, none => s!"bad-request obs {o}"
    | _, _ => s!"bad-request tokens {s} {o}"
  | [t] => s!"bad-request dangling {t}"

def handle (entry : String) (args : List String) : String :=
  match entry with
  | "run" => loop {} args []
  | _ => "bad-request entry"

end SlipVerif.Driver.ListHeap
