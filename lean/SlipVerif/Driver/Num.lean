import SlipVerif.Model.Num
import SlipVerif.Driver.Util
--! namespace: num
/- line protocol for C05:  num <op> <operand>*   operands: q:<n>[/<d>] | b:<n> | r:<n> | o:<n> | d:<hexbits> | s:<hexbits> | l:<prec>:<n>[/<d>] -/
namespace SlipVerif.Driver.Num
open SlipVerif.Num SlipVerif.Driver

def parseOperand (s : String) : Option Rat :=
  match s.splitOn ":" with
  | ["q", v] => parseRat? v
  | ["b", v] => parseRat? v   -- an integer held in a bignum object (any magnitude): same value
  | ["r", v] => parseRat? v   -- an integer held in a ratio object with denominator 1: same value
  | ["o", v] => parseRat? v   -- an integer 0..255 held in an octet: same value
  | ["d", h] => (parseHexNat? h).bind ofBits64
  | ["s", h] => (parseHexNat? h).bind ofBits32
  | ["l", _prec, v] => parseRat? v   -- long-float: exact dyadic value, decoded by the harness
  | _ => none

def showVal (r : Rat) : String := s!"{typeOf r}:{showRat r}"
def showErr : Err → String
  | .divZero => "err division-by-zero"
  | .typeErr => "err type-error"
def okBool (b : Bool) : String := if b then "ok t" else "ok nil"

/-- the reply line of one call -/
def showOutcome : Outcome → String
  | .vals vs => " ".intercalate ("ok" :: vs.map showVal)
  | .bool b => okBool b
  | .err e => showErr e
  | .bad why => "bad-request " ++ why

/-- `$<i>`: the i-th kept value; anything else is a new operand -/
def parseArg (s : String) : Option Arg :=
  if s.startsWith "$" then (s.drop 1).toNat?.map Arg.ref
  else (parseOperand s).map Arg.lit

/-- split the words of a history at the `;` words -/
def splitCalls (ws : List String) : List (List String) :=
  let r := ws.foldl (fun (acc : List (List String) × List String) w =>
    if w = ";" then (acc.2.reverse :: acc.1, []) else (acc.1, w :: acc.2)) ([], [])
  (r.2.reverse :: r.1).reverse

def parseCall : List String → Option Call
  | [] => none
  | op :: args => (args.mapM parseArg).map (fun as => { op := op, args := as })

/-- `num hist <op> <arg>* ; <op> <arg>* ; …` — reply: the outcome of every call, then the final store:
    `ok <outcome> ; <outcome> ; … ;; <kept value>*` -/
def handleHist (ws : List String) : String :=
  match (splitCalls ws).mapM parseCall with
  | none => "bad-request history"
  | some calls =>
    let r := run [] calls
    if r.2.any (fun o => match o with | .bad _ => true | _ => false) then "bad-request history-call"
    else "ok " ++ " ; ".intercalate (r.2.map showOutcome) ++ " ;; " ++ " ".intercalate (r.1.map showVal)

def handle (op : String) (args : List String) : String :=
  if op = "hist" then handleHist args else
  match args.mapM parseOperand with
  | none => "bad-request operand"
  | some xs => showOutcome (apply op xs)

end SlipVerif.Driver.Num
