import SlipVerif.Model.Num
import SlipVerif.Driver.Util
--! namespace: num
/- line protocol for C05:  num <op> <operand>*   operands: q:<n>[/<d>] | b:<n> | r:<n> | d:<hexbits> | s:<hexbits> | l:<prec>:<n>[/<d>] -/
namespace SlipVerif.Driver.Num
open SlipVerif.Num SlipVerif.Driver

def parseOperand (s : String) : Option Rat :=
  match s.splitOn ":" with
  | ["q", v] => parseRat? v
  | ["b", v] => parseRat? v   -- an integer held in a bignum object (any magnitude): same value
  | ["r", v] => parseRat? v   -- an integer held in a ratio object with denominator 1: same value
  | ["d", h] => (parseHexNat? h).bind ofBits64
  | ["s", h] => (parseHexNat? h).bind ofBits32
  | ["l", _prec, v] => parseRat? v   -- long-float: exact dyadic value, decoded by the harness
  | _ => none

def showVal (r : Rat) : String := s!"{typeOf r}:{showRat r}"
def showErr : Err → String
  | .divZero => "err division-by-zero"
  | .typeErr => "err type-error"
def okRat (r : Rat) : String := "ok " ++ showVal r
def okBool (b : Bool) : String := if b then "ok t" else "ok nil"
def exRat : Except Err Rat → String
  | .ok r => okRat r
  | .error e => showErr e
def exQR : Except Err (Int × Rat) → String
  | .ok (q, r) => s!"ok {showVal (q : Rat)} {showVal r}"
  | .error e => showErr e
def ints (xs : List Rat) : Option (List Int) :=
  xs.mapM (fun r => if r.den = 1 then some r.num else none)

def handle (op : String) (args : List String) : String :=
  match args.mapM parseOperand with
  | none => "bad-request operand"
  | some xs =>
    match op, xs with
    | "+", xs => okRat (addAll xs)
    | "*", xs => okRat (mulAll xs)
    | "-", xs => exRat (subAll xs)
    | "/", xs => exRat (divAll xs)
    | "1+", [a] => okRat (add a 1)
    | "1-", [a] => okRat (sub a 1)
    | "incf", [a] => okRat (add a 1)
    | "incf", [a, b] => okRat (add a b)
    | "decf", [a] => okRat (sub a 1)
    | "decf", [a, b] => okRat (sub a b)
    | "abs", [a] => okRat (absR a)
    | "floor", [a] => exQR (floorDiv a 1)
    | "floor", [a, b] => exQR (floorDiv a b)
    | "ceiling", [a] => exQR (ceilDiv a 1)
    | "ceiling", [a, b] => exQR (ceilDiv a b)
    | "truncate", [a] => exQR (truncDiv a 1)
    | "truncate", [a, b] => exQR (truncDiv a b)
    | "round", [a] => exQR (roundDiv a 1)
    | "round", [a, b] => exQR (roundDiv a b)
    | "mod", [a, b] => exRat (modR a b)
    | "rem", [a, b] => exRat (remR a b)
    | "gcd", xs => match ints xs with
        | some is => okRat (gcdAll is)
        | none => showErr .typeErr
    | "lcm", xs => match ints xs with
        | some is => okRat (lcmAll is)
        | none => showErr .typeErr
    | "isqrt", [a] => if a.den = 1 then exRat ((isqrt a.num).map (fun i => (i : Rat))) else showErr .typeErr
    | "ash", [a, k] => if a.den = 1 ∧ k.den = 1 then okRat (ash a.num k.num) else showErr .typeErr
    | "expt", [b, n] => if n.den = 1 then exRat (expt b n.num) else "bad-request expt"
    | "logand", xs => match ints xs with
        | some is => okRat (landAll is)
        | none => showErr .typeErr
    | "logior", xs => match ints xs with
        | some is => okRat (lorAll is)
        | none => showErr .typeErr
    | "logxor", xs => match ints xs with
        | some is => okRat (lxorAll is)
        | none => showErr .typeErr
    | "lognot", [a] => if a.den = 1 then okRat (lnot a.num) else showErr .typeErr
    | "LessThan", [a, b] => okBool (lt a b)
    | "<", xs => okBool (chain lt xs)
    | "<=", xs => okBool (chain le xs)
    | ">", xs => okBool (chain gt xs)
    | ">=", xs => okBool (chain ge xs)
    | "=", xs => okBool (chain eq xs)
    | "/=", xs => okBool (allDiff xs)
    | "min", xs => exRat (minAll xs)
    | "max", xs => exRat (maxAll xs)
    | "zerop", [a] => okBool (zerop a)
    | "plusp", [a] => okBool (plusp a)
    | "minusp", [a] => okBool (minusp a)
    | "logcount", [a] => if a.den = 1 then okRat (logcount a.num) else showErr .typeErr
    | "integer-length", [a] => if a.den = 1 then okRat (integerLength a.num) else showErr .typeErr
    | "logbitp", [i, a] => if i.den = 1 ∧ a.den = 1 then
          (match logbitp i.num a.num with
           | .ok b => okBool b
           | .error e => showErr e)
        else showErr .typeErr
    | "evenp", [a] => if a.den = 1 then okBool (evenp a.num) else showErr .typeErr
    | "oddp", [a] => if a.den = 1 then okBool (oddp a.num) else showErr .typeErr
    | "signum", [a] => okRat (signum a)
    | "numerator", [a] => okRat (numerator a)
    | "denominator", [a] => okRat (denominator a)
    | "rational", [a] => okRat a
    | "value", [a] => okRat a
    | _, _ => "bad-request op"

end SlipVerif.Driver.Num
