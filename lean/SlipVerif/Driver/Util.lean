/- shared helpers for the line-protocol drivers (core only) -/
namespace SlipVerif.Driver

def parseInt? (s : String) : Option Int := s.toInt?

/-- "n" or "n/d" -/
def parseRat? (s : String) : Option Rat :=
  match s.splitOn "/" with
  | [n] => n.toInt?.map (fun i => (i : Rat))
  | [n, d] => do
      let n ← n.toInt?
      let d ← d.toNat?
      if d = 0 then none else some (mkRat n d)
  | _ => none

def showRat (r : Rat) : String :=
  if r.den = 1 then toString r.num else s!"{r.num}/{r.den}"

def hexDigit? (c : Char) : Option Nat :=
  if '0' ≤ c ∧ c ≤ '9' then some (c.toNat - '0'.toNat)
  else if 'a' ≤ c ∧ c ≤ 'f' then some (c.toNat - 'a'.toNat + 10)
  else if 'A' ≤ c ∧ c ≤ 'F' then some (c.toNat - 'A'.toNat + 10)
  else none

def parseHexNat? (s : String) : Option Nat :=
  if s.isEmpty then none else
  s.toList.foldlM (fun acc c => (hexDigit? c).map (fun d => acc * 16 + d)) 0

/-- hex-encoded bytes ("-" for empty) -/
def unhexBytes? (s : String) : Option (List UInt8) :=
  if s = "-" then some [] else
  let rec go : List Char → Option (List UInt8)
    | [] => some []
    | [_] => none
    | a :: b :: rest => do
        let x ← hexDigit? a
        let y ← hexDigit? b
        let r ← go rest
        some (UInt8.ofNat (x * 16 + y) :: r)
  go s.toList

def hexOfNat (n : Nat) : Char :=
  if n < 10 then Char.ofNat ('0'.toNat + n) else Char.ofNat ('a'.toNat + n - 10)

def hexBytes (bs : List UInt8) : String :=
  if bs.isEmpty then "-" else
  String.ofList (bs.flatMap (fun b => [hexOfNat (b.toNat / 16), hexOfNat (b.toNat % 16)]))

def unhexString? (s : String) : Option String := do
  let bs ← unhexBytes? s
  String.fromUTF8? (ByteArray.mk bs.toArray)

def hexString (s : String) : String := hexBytes s.toUTF8.toList

end SlipVerif.Driver
