import SlipVerif.Model.Lambda
import SlipVerif.Model.LambdaCase
import SlipVerif.Model.LambdaImpl
import SlipVerif.Driver.Util
--! namespace: ll
/- line protocol for C04 (no blanks inside a term):
     ll bind <lambda-list> <args>      -> ok <name-hex>=<term>*  | err badLL | err <BindErr> | err init
                                          (bindE: bind, then the &aux initial forms evaluated left to right)
     ll chain <lambda-list> <args> <step>*   step = - | <args>   (call-next-method without / with arguments)
                                       -> ok <result>;<result>;…  one per method of the chain (steps+1), format as ll hist
     ll arity <lambda-list>            -> ok <min> <max|inf>     | err badLL
     ll doc <name-hex>,<name-hex>,…|-  -> ok <min> <max|inf> <nodupmax|inf> | err badLL
     ll impl <lambda-list> <args>      -> ok <name-hex>=<term|unbound>* | err defLambda | err <ImplErr>
                                          (the code-level machine Model/LambdaImpl.lean over Gen/LambdaCall.lean:
                                           DefLambda on the raw list, then Lambda.Call; one entry per parameter)
     ll hist <op>*   op = d:<name-hex>:<lambda-list> | c:<name-hex>:<args>
                     -> ok <result>;<result>;…  one per call: undef | err badLL | err <BindErr> | ok/<name-hex>=<term>/…
   lambda lists are read by parseLLci (Model/LambdaCase.lean): markers in any case (&OPTIONAL, &Rest …)
   term: n | i:<dec> | y:<hex> (symbol) | k:<hex> (keyword) | s:<hex> (string) | (<term>,<term>,…) -/
namespace SlipVerif.Driver.Lambda
open SlipVerif.Lambda SlipVerif.Driver

/-- split at top-level commas (parentheses nest) -/
def splitTop (cs : List Char) : List (List Char) :=
  let rec go : List Char → Nat → List Char → List (List Char) → List (List Char)
    | [], _, cur, acc => (cur.reverse :: acc).reverse
    | c :: rest, depth, cur, acc =>
      if c = ',' ∧ depth = 0 then go rest depth [] (cur.reverse :: acc)
      else if c = '(' then go rest (depth + 1) (c :: cur) acc
      else if c = ')' then go rest (depth - 1) (c :: cur) acc
      else go rest depth (c :: cur) acc
  go cs 0 [] []

def parseTerm : Nat → List Char → Option Obj
  | 0, _ => none
  | fuel + 1, cs =>
    match cs with
    | ['n'] => some .nil
    | 'i' :: ':' :: r => (String.ofList r).toInt?.map Obj.int
    | 'y' :: ':' :: r => (unhexString? (String.ofList r)).map Obj.sym
    | 'k' :: ':' :: r => (unhexString? (String.ofList r)).map Obj.kw
    | 's' :: ':' :: r => (unhexString? (String.ofList r)).map Obj.str
    | '(' :: r =>
      match r.reverse with
      | ')' :: innerRev =>
        let inner := innerRev.reverse
        if inner.isEmpty then some .nil
        else ((splitTop inner).mapM (parseTerm fuel)).map Obj.ofList
      | _ => none
    | _ => none

def parseObj (s : String) : Option Obj := parseTerm (s.length + 1) s.toList

def showAtom : Obj → String
  | .nil => "n"
  | .int i => s!"i:{i}"
  | .sym n => "y:" ++ hexString n
  | .kw n => "k:" ++ hexString n
  | .str n => "s:" ++ hexString n
  | .cons _ _ => "?"

mutual
def showObj : Obj → String
  | .cons a d => "(" ++ showObj a ++ showTail d
  | o => showAtom o
def showTail : Obj → String
  | .nil => ")"
  | .cons a d => "," ++ showObj a ++ showTail d
  | o => "." ++ showAtom o ++ ")"
end

def showErr : BindErr → String
  | .tooFew => "tooFew" | .tooMany => "tooMany" | .oddKeys => "oddKeys"
  | .badKey => "badKey" | .unknownKey => "unknownKey"

def showMax : Option Nat → String
  | none => "inf"
  | some m => toString m

def parseOp (s : String) : Option (Except Unit Op) :=
  match s.splitOn ":" with
  | kind :: name :: rest =>
    match unhexString? name, parseObj (":".intercalate rest) with
    | some n, some o =>
      if kind = "d" then
        match parseLLci o with
        | .ok ll => some (.ok (.define n ll))
        | .error _ => some (.error ())
      else if kind = "c" then (o.toList?).map (fun as => .ok (.call n as))
      else none
    | _, _ => none
  | _ => none

def showResult : CallResult → String
  | .undefined => "undef"
  | .bound (.error e) => "err " ++ showErr e
  | .bound (.ok bs) => "ok" ++ String.join (bs.map (fun (n, v) => "/" ++ hexString n ++ "=" ++ showObj v))

def handleHist (args : List String) : String :=
  match args.mapM parseOp with
  | none => "bad-request op"
  | some ops =>
    match ops.mapM (fun o => match o with | .ok op => some op | .error _ => none) with
    | none => "err badLL"
    | some ops => "ok " ++ ";".intercalate ((runHist [] ops).map showResult)

def showImplErr : LambdaImpl.ImplErr → String
  | .tooFew => "tooFew" | .tooMany => "tooMany" | .missingValue => "missingValue"
  | .notKeyword => "notKeyword" | .fault => "fault" | .auxForm => "auxForm"

def handleImpl (l a : String) : String :=
  match parseObj l, parseObj a with
  | some lo, some ao =>
    match LambdaImpl.defLambda lo, ao.toList? with
    | .error _, _ => "err defLambda"
    | _, none => "bad-request args"
    | .ok doc, some as =>
      match LambdaImpl.call doc as with
      | .ok vars => "ok" ++ String.join ((LambdaImpl.observe doc vars).map (fun (n, v) =>
          " " ++ hexString n ++ "=" ++ (match v with | some o => showObj o | none => "unbound")))
      | .error e => "err " ++ showImplErr e
  | _, _ => "bad-request term"

def handle (entry : String) (args : List String) : String :=
  match entry, args with
  | "hist", ops => handleHist ops
  | "impl", [l, a] => handleImpl l a
  | "bind", [l, a] =>
    match parseObj l, parseObj a with
    | some lo, some ao =>
      match parseLLci lo, ao.toList? with
      | .error _, _ => "err badLL"
      | _, none => "bad-request args"
      | .ok ll, some as =>
        match bindE ll as with
        | .ok bs => "ok" ++ String.join (bs.map (fun (n, v) => " " ++ hexString n ++ "=" ++ showObj v))
        | .error (.bind e) => "err " ++ showErr e
        | .error (.init _) => "err init"
    | _, _ => "bad-request term"
  | "chain", l :: a :: steps =>
    match parseObj l, parseObj a with
    | some lo, some ao =>
      match parseLLci lo, ao.toList?, steps.mapM (fun s => if s = "-" then some none else (parseObj s).bind (fun o => o.toList?.map some)) with
      | .error _, _, _ => "err badLL"
      | _, none, _ => "bad-request args"
      | _, _, none => "bad-request step"
      | .ok ll, some as, some sts =>
        "ok " ++ ";".intercalate ((chainArgs sts as).map (fun v =>
          match bindE ll v with
          | .ok bs => "ok" ++ String.join (bs.map (fun (n, v) => "/" ++ hexString n ++ "=" ++ showObj v))
          | .error (.bind e) => "err " ++ showErr e
          | .error (.init _) => "err init"))
    | _, _ => "bad-request term"
  | "arity", [l] =>
    match parseObj l with
    | some lo =>
      match parseLLci lo with
      | .error _ => "err badLL"
      | .ok ll => s!"ok {(arity ll).1} {showMax (arity ll).2}"
    | none => "bad-request term"
  | "doc", [names] =>
    let ns := if names = "-" then some [] else (names.splitOn ",").mapM unhexString?
    match ns with
    | none => "bad-request names"
    | some ns =>
      match docLL ns with
      | .error _ => "err badLL"
      | .ok ll => s!"ok {(arity ll).1} {showMax (arity ll).2} {showMax (arityNoDup ll).2}"
  | _, _ => "bad-request entry"

end SlipVerif.Driver.Lambda
