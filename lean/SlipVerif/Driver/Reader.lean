import SlipVerif.Model.Reader
import SlipVerif.Model.ReaderGen
import SlipVerif.Driver.Util
--! namespace: read
/- line protocol for C02
     read all    <rbase> <fmt> <hextext>                 whole text (L1)
     read one    <rbase> <fmt> <hextext>                 first form and its end position (L1, one-form mode)
     read blocks <rbase> <fmt> <one:0|1> <hex,hex,…> <hexlast>   the block reader (L2); "-" = empty block list
     read mode   <rbase> <fmt> <hextext>                 lexer mode after the text (for signatures)
     read tablesok                                        the table obligation evaluated by the driver
   fmt: s | d | l          replies:  ok <pos> <n> <obj>*  |  err <class> <n> <obj>*  (objects finished before the error) -/
namespace SlipVerif.Driver.Reader
open SlipVerif.Reader SlipVerif.Driver

def markerTag : Marker → String
  | .quote => "q" | .sharpQuote => "fn" | .backquote => "bq" | .comma => "," | .commaAt => ",@"

def tyTag : FloatTy → String
  | .single => "single" | .double => "double" | .long => "long"

mutual
def render : Obj → String
  | .nil => "nil"
  | .tru => "t"
  | .int v => s!"i{v}"
  | .ratio n d => s!"r{n}/{d}"
  | .flo ty tok => s!"f{tyTag ty}:{hexBytes tok}"
  | .timeLike _ => "@"
  | .sym n =>
    -- a symbol spelled @<digit>… is compared as a class with slip's time literals (the harness
    -- renders both a Time and such a Symbol as "@")
    match n with
    | 64 :: d :: _ => if isDigit d then "@" else s!"y{hexBytes n}"
    | _ => s!"y{hexBytes n}"
  | .str bs => s!"s{hexBytes bs}"
  | .chr cp => s!"c{cp}"
  | .bits bs => "b" ++ String.ofList (bs.map (fun b => if b then '1' else '0'))
  | .list xs => "(l" ++ renderList xs ++ ")"
  | .tail x => "(. " ++ render x ++ ")"
  | .vec xs => "(v" ++ renderList xs ++ ")"
  | .arr dims elems => "(a[" ++ ",".intercalate (dims.map toString) ++ "]" ++ renderList elems ++ ")"
  | .cplx re im => "(c " ++ render re ++ " " ++ render im ++ ")"
  | .wrap m x => "(" ++ markerTag m ++ " " ++ render x ++ ")"
  | .mark m => "m:" ++ markerTag m
  | .opener _ => "open"
def renderList : List Obj → String
  | [] => ""
  | x :: xs => " " ++ render x ++ renderList xs
end

def errTag : Err → String
  | .parse => "parse"
  | .incomplete d => s!"partial:{d}"
  | .table => "table"
  | .unsupported => "unsupported"
  | .eof => "eof"

def showResult : Result → String
  | .ok code pos => s!"ok {pos} {code.length}" ++ renderList code
  | .err e code => s!"err {errTag e} {code.length}" ++ renderList code

def modeName : Mode → String
  | .plain .value => "value" | .plain .comment => "comment" | .plain .sharp => "sharp"
  | .plain .sharpNum => "sharpNum" | .plain .mustArray => "mustArray"
  | .plain .blockComment => "blockComment" | .plain .blockEnd => "blockEnd"
  | .tok .token => "token" | .tok .chr => "char" | .tok .int => "int" | .tok .bitVec => "bitVector"
  | .str .string => "string" | .str .symbol => "symbol" | .esc => "esc" | .rune => "rune" | .chrStart => "charStart"

def parseFmt : String → Option FloatTy
  | "s" => some .single | "d" => some .double | "l" => some .long | _ => none

def parseCfg (rbase fmt : String) (one : Bool) : Option Cfg := do
  let rb ← rbase.toNat?
  let ft ← parseFmt fmt
  if 2 ≤ rb ∧ rb ≤ 36 then some { rbase := rb, floatTy := ft, one := one } else none

def parseBlocks (s : String) : Option (List (List UInt8)) :=
  if s = "-" then some [] else (s.splitOn ",").mapM (fun h => unhexBytes? (if h = "" then "-" else h))

def handle (entry : String) (args : List String) : String :=
  match entry, args with
  | "all", [rb, fmt, hex] =>
    match parseCfg rb fmt false, unhexBytes? hex with
    | some cfg, some bs => showResult (readAll genTables cfg bs)
    | _, _ => "bad-request all"
  | "one", [rb, fmt, hex] =>
    match parseCfg rb fmt true, unhexBytes? hex with
    | some cfg, some bs =>
      match readOne genTables cfg bs with
      | .ok (o, pos) => s!"ok {pos} 1 {render o}"
      | .error e => s!"err {errTag e} 0"
    | _, _ => "bad-request one"
  | "blocks", [rb, fmt, one, blocks, last] =>
    match parseCfg rb fmt (one = "1"), parseBlocks blocks, unhexBytes? last with
    | some cfg, some bl, some la => showResult (readBlocks genTables cfg bl la)
    | _, _, _ => "bad-request blocks"
  | "mode", [rb, fmt, hex] =>
    match parseCfg rb fmt false, unhexBytes? hex with
    | some cfg, some bs =>
      let s := run1 genTables cfg init1 bs
      match s.core.halt with
      | some _ => "ok halted"
      | none => "ok " ++ modeName s.mode
    | _, _ => "bad-request mode"
  | "tablesok", [] => if tablesOK genTables then "ok t" else "ok nil"
  | _, _ => "bad-request entry"

end SlipVerif.Driver.Reader
