import SlipVerif.Model.Format
import SlipVerif.Driver.Util
--! namespace: fmt
/- line protocol for C15:
     fmt run <ctrl-hex> <arg>*               → ok <text-hex> | err <class>        (format nil ctrl args…)
     fmt stream <prefix-hex> <ctrl-hex> <arg>* → ok <stream-content-hex> | err …  (format stream ctrl args…)
     fmt princ <arg> | fmt prin1 <arg>       → ok <text-hex> | err <class>
     fmt runenv <base> <0|1> <ctrl-hex> <arg>* → the same as run under *print-base* / *print-radix*
     fmt rlist <ctrl-hex> <int>*             → ok <hex of the texts of (format nil ctrl n), one line per integer>
   arguments (prefix notation, one token each, lists announce their length):
     i:<decimal> | s:<hex> | y:<hex> (symbol, printed name) | c:<code> | n | L<k> followed by k arguments -/
namespace SlipVerif.Driver.Format
open SlipVerif.Format SlipVerif.Driver

def bytesOfHex? (h : String) : Option Txt := (unhexBytes? h).map (fun bs => bs.map (·.toNat))
def hexOfBytes (t : Txt) : String := hexBytes (t.map UInt8.ofNat)

/-- one argument from the token list -/
def parseArg : Nat → List String → Option (Arg × List String)
  | 0, _ => none
  | _, [] => none
  | f + 1, tok :: rest =>
    if tok = "n" then some (.nil, rest)
    else match tok.splitOn ":" with
      | ["i", v] => v.toInt?.map (fun n => (.int n, rest))
      | ["s", h] => (bytesOfHex? h).map (fun b => (.str b, rest))
      | ["y", h] => (bytesOfHex? h).map (fun b => (.sym b, rest))
      | ["c", v] => v.toNat?.map (fun n => (.chr n, rest))
      | _ =>
        if tok.startsWith "L" then
          match (tok.drop 1).toNat? with
          | none => none
          | some k => (parseArgs f k rest).map (fun (xs, r) => (Arg.ofList xs, r))
        else none
where
  parseArgs : Nat → Nat → List String → Option (List Arg × List String)
    | _, 0, toks => some ([], toks)
    | 0, _, _ => none
    | f + 1, k + 1, toks => do
      let (a, r) ← parseArg f toks
      let (as, r') ← parseArgs f k r
      pure (a :: as, r')

def parseAll : Nat → List String → Option (List Arg)
  | 0, _ => none
  | _, [] => some []
  | f + 1, toks => do
    let (a, r) ← parseArg (4 * toks.length + 4) toks
    let as ← parseAll f r
    pure (a :: as)

def reply : Except Err Txt → String
  | .ok t => "ok " ++ hexOfBytes t
  | .error e => "err " ++ e.name

def handle (entry : String) (args : List String) : String :=
  match entry, args with
  | "run", ctrl :: rest =>
    match bytesOfHex? ctrl, parseAll (rest.length + 1) rest with
    | some c, some as => reply (formatText c as)
    | _, _ => "bad-request operand"
  | "stream", pre :: ctrl :: rest =>
    match bytesOfHex? pre, bytesOfHex? ctrl, parseAll (rest.length + 1) rest with
    | some p, some c, some as =>
      (match format (.stream p) c as with
       | .ok r => (match r.stream, r.value with
                   | some t, none => "ok " ++ hexOfBytes t
                   | _, _ => "bad-request stream result")
       | .error e => "err " ++ e.name)
    | _, _, _ => "bad-request operand"
  | "runenv", base :: radix :: ctrl :: rest =>
    -- (let ((*print-base* base) (*print-radix* radix)) (format nil ctrl args…)) ; radix is 0 or 1
    match base.toNat?, bytesOfHex? ctrl, parseAll (rest.length + 1) rest with
    | some b, some c, some as => reply (formatTextEnv b (radix == "1") c as)
    | _, _, _ => "bad-request operand"
  | "rlist", ctrl :: rest =>
    -- one call (format nil ctrl n) per integer token; the texts joined by newlines, `!` for a rejected one
    match bytesOfHex? ctrl with
    | some c =>
      (match rest.mapM (fun t => t.toInt?) with
       | some ns => "ok " ++ hexOfBytes (ns.foldr (fun n acc =>
           (match formatText c [.int n] with | .ok t => t | .error _ => [33]) ++ 10 :: acc) [])
       | none => "bad-request operand")
    | none => "bad-request operand"
  | "princ", rest =>
    match parseAll (rest.length + 1) rest with
    | some [a] => reply (princ genTables a)
    | _ => "bad-request operand"
  | "prin1", rest =>
    match parseAll (rest.length + 1) rest with
    | some [a] => reply (prin1 genTables a)
    | _ => "bad-request operand"
  | _, _ => "bad-request entry"

end SlipVerif.Driver.Format
