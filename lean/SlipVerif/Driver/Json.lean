import SlipVerif.Model.JsonLisp
import SlipVerif.Model.JsonConfig
import SlipVerif.Model.JsonSen
import SlipVerif.Model.JsonWrite
import SlipVerif.Model.JsonAlias
import SlipVerif.Driver.Util
--! namespace: json
/- line protocol for C18 (arguments are space separated tokens):

   J    : n | T | F | i<dec> | d<float-token> | s<hex> | m<hex time token> | [ J* ] | { (k<hex> J)* }
   path : (k<hex> | x<int> | * | ..)* ;
   L    : n | t | i<dec> | o<nat> | f<tok> | d<tok> | s<hex> | y<hex> | m<tok> | ( L* ) | . L
   G    : n | T | F | i<bits>:<dec> | u<bits>:<dec> | f<tok> | d<tok> | s<hex> | m<tok> | [ G* ] | { (k<hex> G)* }

   json ops <J> <op>*        op = G path | N path | A path | H path | W path | S path J | M path J | R path
        reply: ok <result> ( | <result> )*     result = some J / none / <L> (N: toLisp of the node, nil when none) / list J* / T / F / ok J / err <class>
               (evaluation stops after the first err)
   json write c|i<n> <J>     reply: ok s<hex text>
   json parse s<hex text>    reply: ok <J> | err <class>
   json writesen c|i<n> <J>  reply: ok s<hex text>                      (the model's SEN writer)
   json parsesen s<hex text> reply: ok <J> | err <class>                (the model's SEN reader)
   json wopts <pretty T|F> <margin> (<kw> <val>)*   val = n | t | x<int> | s<hex> | o
                             reply: ok <mode> <pretty|sen|json> sen=<T|F> depth=<int> indent=<int> width=<int> sort=<T|F> color=<T|F> | err keyword
   json parsemany s<hex>     reply: ok <J> ( | <J> )* | err <class>      (several documents in one text)
   json scan T|F <J>         reply: ok <path> <J> ( | <path> <J> )*      (T = leaves only)
   json config (f<hex>|w<hex>)* ; <J>   reply: ok f<hex> w<hex> | <J>   (variables after the history of
                             settings; the document as a parse entry point holds it then: m<hex> = time token)
   json alias <aop>*         aop = new J | child b path | set b path J | rem b path | store b path b' | reset b J | trees
                                   | G b path | L b path | A b path | H b path | W b path      (b = bag handle, 0-based)
                             reply: ok <result> ( | <result> )*   new/child/set/rem/store/reset: ok | absent | outside | err <class>
                             (the heap is unchanged unless the answer is ok); trees: trees <J or -> (; <J or ->)* ;
                             reads as for ops (L = the Lisp value of the node)
   json native <J>           reply: ok <faithful T/F> <L> | ok <J> / err <class>
   json oflisp <L>           reply: ok <J> | err <class>
   json simple <G>           reply: ok <gfaithful T/F> <L> | <G> | <gbag T/F> ok <J> / err <class>   (SimpleObject, Simplify of it, ObjectToBag of it)
-/
namespace SlipVerif.Driver.Json
open SlipVerif.Json SlipVerif.Driver

/-! ### encoders -/

mutual
def encJ : J → List String
  | .null => ["n"]
  | .bool true => ["T"]
  | .bool false => ["F"]
  | .int i => [s!"i{i}"]
  | .flo t => ["d" ++ t]
  | .str s => ["s" ++ hexString s]
  | .time t => ["m" ++ hexString t]
  | .arr xs => "[" :: (encJL xs ++ ["]"])
  | .obj kvs => "{" :: (encJM kvs ++ ["}"])
def encJL : List J → List String
  | [] => []
  | x :: xs => encJ x ++ encJL xs
def encJM : Members → List String
  | [] => []
  | (k, v) :: kvs => ("k" ++ hexString k) :: (encJ v ++ encJM kvs)
end

mutual
def encL : L → List String
  | .nil => ["n"]
  | .t => ["t"]
  | .int i => [s!"i{i}"]
  | .oct n => [s!"o{n}"]
  | .sflo t => ["f" ++ t]
  | .dflo t => ["d" ++ t]
  | .str s => ["s" ++ hexString s]
  | .sym s => ["y" ++ hexString s]
  | .time t => ["m" ++ t]
  | .list xs => "(" :: (encLL xs ++ [")"])
  | .tail v => "." :: encL v
def encLL : List L → List String
  | [] => []
  | x :: xs => encL x ++ encLL xs
end

mutual
def encG : G → List String
  | .nil => ["n"]
  | .bool true => ["T"]
  | .bool false => ["F"]
  | .int w v => [s!"i{w}:{v}"]
  | .uint w v => [s!"u{w}:{v}"]
  | .f32 t => ["f" ++ t]
  | .f64 t => ["d" ++ t]
  | .str s => ["s" ++ hexString s]
  | .time t => ["m" ++ t]
  | .slice xs => "[" :: (encGL xs ++ ["]"])
  | .map kvs => "{" :: (encGM kvs ++ ["}"])
def encGL : List G → List String
  | [] => []
  | x :: xs => encG x ++ encGL xs
def encGM : List (String × G) → List String
  | [] => []
  | (k, v) :: kvs => ("k" ++ hexString k) :: (encG v ++ encGM kvs)
end

def join (ws : List String) : String := " ".intercalate ws

def encPath (p : Path) : List String :=
  p.map (fun s => match s with
    | .key k => "k" ++ hexString k
    | .idx i => s!"x{i}"
    | .wild => "*"
    | .desc => "..") ++ [";"]

/-! ### decoders (fuel = number of tokens + 1) -/

def tag (s : String) : Char := s.toList.headD ' '
def body (s : String) : String := String.ofList (s.toList.drop 1)

mutual
def decJ : Nat → List String → Option (J × List String)
  | 0, _ => none
  | _, [] => none
  | fuel + 1, w :: rest =>
    if w = "n" then some (.null, rest)
    else if w = "T" then some (.bool true, rest)
    else if w = "F" then some (.bool false, rest)
    else if w = "[" then (decJL fuel rest).map (fun r => (.arr r.1, r.2))
    else if w = "{" then (decJM fuel rest).map (fun r => (.obj r.1, r.2))
    else match tag w with
      | 'i' => (body w).toInt?.map (fun i => (.int i, rest))
      | 'd' => some (.flo (body w), rest)
      | 's' => (unhexString? (body w)).map (fun s => (.str s, rest))
      | 'm' => (unhexString? (body w)).map (fun s => (.time s, rest))
      | _ => none
def decJL : Nat → List String → Option (List J × List String)
  | 0, _ => none
  | _, [] => none
  | fuel + 1, w :: rest =>
    if w = "]" then some ([], rest)
    else do
      let (x, r) ← decJ fuel (w :: rest)
      let (xs, r') ← decJL fuel r
      some (x :: xs, r')
def decJM : Nat → List String → Option (Members × List String)
  | 0, _ => none
  | _, [] => none
  | fuel + 1, w :: rest =>
    if w = "}" then some ([], rest)
    else if tag w = 'k' then do
      let k ← unhexString? (body w)
      let (v, r) ← decJ fuel rest
      let (kvs, r') ← decJM fuel r
      some ((k, v) :: kvs, r')
    else none
end

mutual
def decL : Nat → List String → Option (L × List String)
  | 0, _ => none
  | _, [] => none
  | fuel + 1, w :: rest =>
    if w = "n" then some (.nil, rest)
    else if w = "t" then some (.t, rest)
    else if w = "(" then (decLL fuel rest).map (fun r => (.list r.1, r.2))
    else if w = "." then (decL fuel rest).map (fun r => (.tail r.1, r.2))
    else match tag w with
      | 'i' => (body w).toInt?.map (fun i => (.int i, rest))
      | 'o' => (body w).toNat?.map (fun n => (.oct n, rest))
      | 'f' => some (.sflo (body w), rest)
      | 'd' => some (.dflo (body w), rest)
      | 's' => (unhexString? (body w)).map (fun s => (.str s, rest))
      | 'y' => (unhexString? (body w)).map (fun s => (.sym s, rest))
      | 'm' => some (.time (body w), rest)
      | _ => none
def decLL : Nat → List String → Option (List L × List String)
  | 0, _ => none
  | _, [] => none
  | fuel + 1, w :: rest =>
    if w = ")" then some ([], rest)
    else do
      let (x, r) ← decL fuel (w :: rest)
      let (xs, r') ← decLL fuel r
      some (x :: xs, r')
end

def decWidth (s : String) : Option (Nat × String) :=
  match s.splitOn ":" with
  | [w, v] => w.toNat?.map (fun n => (n, v))
  | _ => none

mutual
def decG : Nat → List String → Option (G × List String)
  | 0, _ => none
  | _, [] => none
  | fuel + 1, w :: rest =>
    if w = "n" then some (.nil, rest)
    else if w = "T" then some (.bool true, rest)
    else if w = "F" then some (.bool false, rest)
    else if w = "[" then (decGL fuel rest).map (fun r => (.slice r.1, r.2))
    else if w = "{" then (decGM fuel rest).map (fun r => (.map r.1, r.2))
    else match tag w with
      | 'i' => do
          let (bits, v) ← decWidth (body w)
          let i ← v.toInt?
          some (.int bits i, rest)
      | 'u' => do
          let (bits, v) ← decWidth (body w)
          let n ← v.toNat?
          some (.uint bits n, rest)
      | 'f' => some (.f32 (body w), rest)
      | 'd' => some (.f64 (body w), rest)
      | 's' => (unhexString? (body w)).map (fun s => (.str s, rest))
      | 'm' => some (.time (body w), rest)
      | _ => none
def decGL : Nat → List String → Option (List G × List String)
  | 0, _ => none
  | _, [] => none
  | fuel + 1, w :: rest =>
    if w = "]" then some ([], rest)
    else do
      let (x, r) ← decG fuel (w :: rest)
      let (xs, r') ← decGL fuel r
      some (x :: xs, r')
def decGM : Nat → List String → Option (List (String × G) × List String)
  | 0, _ => none
  | _, [] => none
  | fuel + 1, w :: rest =>
    if w = "}" then some ([], rest)
    else if tag w = 'k' then do
      let k ← unhexString? (body w)
      let (v, r) ← decG fuel rest
      let (kvs, r') ← decGM fuel r
      some ((k, v) :: kvs, r')
    else none
end

def decPath : List String → Option (Path × List String)
  | [] => none
  | w :: rest =>
    if w = ";" then some ([], rest)
    else do
      let s ← (if w = "*" then some Step.wild
               else if w = ".." then some Step.desc
               else match tag w with
                 | 'k' => (unhexString? (body w)).map Step.key
                 | 'x' => (body w).toInt?.map Step.idx
                 | _ => none)
      let (p, r) ← decPath rest
      some (s :: p, r)

/-! ### entries -/

def showErr : Err → String
  | .emptyPath => "err empty-path"
  | .mismatch => "err mismatch"
  | .scalar => "err scalar"
  | .range => "err range"
  | .cannotCreate => "err cannot-create"
  | .badLast => "err bad-last"

def showPErr : PErr → String
  | .fuel => "err fuel"
  | .eof => "err eof"
  | .badChar => "err bad-char"
  | .badEscape => "err bad-escape"
  | .badNumber => "err bad-number"
  | .trailing => "err trailing"

def showLErr : LErr → String
  | .assocItem => "err assoc-item"
  | .assocKey => "err assoc-key"
  | .unsupported => "err unsupported"

def showBool (b : Bool) : String := if b then "T" else "F"

/-- run the operations; `acc` holds the results so far (reversed) -/
def runOps : Nat → J → List String → List String → Option (List String)
  | 0, _, _, _ => none
  | _, _, [], acc => some acc.reverse
  | fuel + 1, doc, op :: rest, acc => do
    let (p, r) ← decPath rest
    if op = "G" then
      let res := match get p doc with
        | some j => "some " ++ join (encJ j)
        | none => "none"
      runOps fuel doc r (res :: acc)
    else if op = "N" then
      let res := match get p doc with
        | some j => join (encL (toLisp j))
        | none => "n"
      runOps fuel doc r (res :: acc)
    else if op = "A" then
      runOps fuel doc r (join ("list" :: encJL (getAll p doc)) :: acc)
    else if op = "W" then
      let visited := walk (fun (s : List J) j => j :: s) p [] doc
      runOps fuel doc r (join ("list" :: encJL visited.reverse) :: acc)
    else if op = "H" then
      runOps fuel doc r (showBool (has p doc) :: acc)
    else if op = "S" then do
      let (v, r') ← decJ (r.length + 1) r
      match set v p doc with
      | .ok doc' => runOps fuel doc' r' (("ok " ++ join (encJ doc')) :: acc)
      | .error e => some ((showErr e) :: acc).reverse
    else if op = "M" then do
      let (v, r') ← decJ (r.length + 1) r
      -- bag-modify with a function that returns v: every selected node becomes v (nothing is added)
      if p.getLast? = some Step.desc then some (("err bad-last") :: acc).reverse
      else
        let doc' := modifyAt (fun _ => v) p doc
        runOps fuel doc' r' (("ok " ++ join (encJ doc')) :: acc)
    else if op = "R" then
      match remove p doc with
      | .ok doc' => runOps fuel doc' r (("ok " ++ join (encJ doc')) :: acc)
      | .error e => some ((showErr e) :: acc).reverse
    else none

def showAErr : AErr → String
  | .noBag => "err no-bag"
  | .dangling => "err dangling"
  | .absent => "absent"
  | .outside => "outside"
  | .path e => showErr e

/-- several bags on one tree (Model/JsonAlias.lean); `acc` holds the results so far (reversed) -/
def runAlias : Nat → Heap → List String → List String → Option (List String)
  | 0, _, _, _ => none
  | _, _, [], acc => some acc.reverse
  | fuel + 1, h, op :: rest, acc =>
    let step (r : Except AErr Heap) (rest : List String) : Option (List String) :=
      match r with
      | .ok h' => runAlias fuel h' rest ("ok" :: acc)
      | .error e => runAlias fuel h rest (showAErr e :: acc)
    if op = "new" then do
      let (j, r) ← decJ (rest.length + 1) rest
      runAlias fuel (h.newBag j) r ("ok" :: acc)
    else if op = "trees" then
      let ts := (List.range h.views.length).map (fun b => match h.bagTree b with
        | some j => join (encJ j)
        | none => "-")
      runAlias fuel h rest (("trees " ++ " ; ".intercalate ts) :: acc)
    else match rest with
    | [] => none
    | bs :: rest => do
      let b ← bs.toNat?
      if op = "reset" then do
        let (j, r) ← decJ (rest.length + 1) rest
        step (h.resetBag b j) r
      else do
        let (p, r) ← decPath rest
        if op = "child" then step (h.child b p) r
        else if op = "rem" then step (h.removeVia b p) r
        else if op = "set" then do
          let (v, r') ← decJ (r.length + 1) r
          step (h.setVia b p v) r'
        else if op = "store" then
          match r with
          | is :: r' => do
            let i ← is.toNat?
            step (h.storeBag b p i) r'
          | [] => none
        else
          match h.bagTree b with
          | none => runAlias fuel h r ("err dangling" :: acc)
          | some doc =>
            if op = "G" then
              let res := match get p doc with
                | some j => "some " ++ join (encJ j)
                | none => "none"
              runAlias fuel h r (res :: acc)
            else if op = "L" then
              let res := match get p doc with
                | some j => join (encL (toLisp j))
                | none => "n"
              runAlias fuel h r (res :: acc)
            else if op = "A" then runAlias fuel h r (join ("list" :: encJL (getAll p doc)) :: acc)
            else if op = "W" then
              let visited := walk (fun (s : List J) j => j :: s) p [] doc
              runAlias fuel h r (join ("list" :: encJL visited.reverse) :: acc)
            else if op = "H" then runAlias fuel h r (showBool (has p doc) :: acc)
            else none

def handle (entry : String) (args : List String) : String :=
  let n := args.length + 1
  match entry with
  | "ops" =>
    match decJ n args with
    | some (doc, rest) =>
      match runOps n doc rest [] with
      | some rs => "ok " ++ " | ".intercalate rs
      | none => "bad-request ops"
    | none => "bad-request doc"
  | "alias" =>
    match runAlias n {} args [] with
    | some rs => "ok " ++ " | ".intercalate rs
    | none => "bad-request alias"
  | "write" =>
    match args with
    | lay :: rest =>
      match decJ n rest with
      | some (doc, []) =>
        let layout := if lay = "c" then some Layout.compact
                      else if tag lay = 'i' then (body lay).toNat?.map Layout.indent else none
        match layout with
        | some l => "ok s" ++ hexString (write l doc)
        | none => "bad-request layout"
      | _ => "bad-request doc"
    | _ => "bad-request write"
  | "parse" =>
    match args with
    | [w] =>
      if tag w = 's' then
        match unhexString? (body w) with
        | some text =>
          match parse text with
          | .ok j => "ok " ++ join (encJ j)
          | .error e => showPErr e
        | none => "bad-request hex"
      else "bad-request text"
    | _ => "bad-request parse"
  | "writesen" =>
    match args with
    | lay :: rest =>
      match decJ n rest with
      | some (doc, []) =>
        let layout := if lay = "c" then some Layout.compact
                      else if tag lay = 'i' then (body lay).toNat?.map Layout.indent else none
        match layout with
        | some l => "ok s" ++ hexString (writeSen l doc)
        | none => "bad-request layout"
      | _ => "bad-request doc"
    | _ => "bad-request writesen"
  | "parsesen" =>
    match args with
    | [w] =>
      if tag w = 's' then
        match unhexString? (body w) with
        | some text =>
          match parseSen text with
          | .ok j => "ok " ++ join (encJ j)
          | .error e => showPErr e
        | none => "bad-request hex"
      else "bad-request text"
    | _ => "bad-request parsesen"
  | "wopts" =>
    match args with
    | p :: m :: rest =>
      match m.toInt? with
      | none => "bad-request margin"
      | some margin =>
        let rec kws : List String → Option (List (String × KwVal))
          | [] => some []
          | [_] => none
          | k :: v :: more => do
            let kv ← (if v = "n" then some KwVal.nil else if v = "t" then some KwVal.t else if v = "o" then some KwVal.other
                      else if tag v = 'x' then (body v).toInt?.map KwVal.fix
                      else if tag v = 's' then (unhexString? (body v)).map KwVal.str else none)
            let r ← kws more
            some ((k, kv) :: r)
        match kws rest with
        | none => "bad-request keywords"
        | some l =>
          match applyKws l (WOpts.init (p = "T") margin) with
          | none => "err keyword"
          | some w =>
            let wr := match writerOf w with
              | .pretty => "pretty"
              | .sen => "sen"
              | .json => "json"
            s!"ok {modeName w} {wr} sen={showBool w.sen} depth={w.maxDepth} indent={w.indent} width={w.width} sort={showBool w.sort} color={showBool w.color}"
    | _ => "bad-request wopts"
  | "parsemany" =>
    match args with
    | [w] =>
      if tag w = 's' then
        match unhexString? (body w) with
        | some text =>
          match parseMany text with
          | .ok js => "ok " ++ " | ".intercalate (js.map (fun j => join (encJ j)))
          | .error e => showPErr e
        | none => "bad-request hex"
      else "bad-request text"
    | _ => "bad-request parsemany"
  | "scan" =>
    match args with
    | leaves :: rest =>
      match decJ n rest with
      | some (doc, []) =>
        let items := if leaves = "T" then scanLeaves doc else scan doc
        "ok " ++ " | ".intercalate (items.map (fun pv => join (encPath pv.1) ++ " " ++ join (encJ pv.2)))
      | _ => "bad-request doc"
    | _ => "bad-request scan"
  | "config" =>
    -- json config (f<hex> | w<hex>)* ; <J>   : the history of settings, then a parse of the document
    let rec ops : List String → Option (List CfgOp × List String)
      | [] => none
      | w :: rest =>
        if w = ";" then some ([], rest)
        else do
          let v ← unhexString? (body w)
          let op ← (if tag w = 'f' then some (CfgOp.format v) else if tag w = 'w' then some (CfgOp.wrap v) else none)
          let (os, r) ← ops rest
          some (op :: os, r)
    match ops args with
    | some (os, rest) =>
      match decJ n rest with
      | some (doc, []) =>
        let c := runHistory os Cfg.init
        "ok f" ++ hexString c.format ++ " w" ++ hexString c.wrap ++ " | " ++ join (encJ (convertDoc c.conv doc))
      | _ => "bad-request doc"
    | none => "bad-request config"
  | "native" =>
    match decJ n args with
    | some (doc, []) =>
      let l := toLisp doc
      let back := match ofLisp l with
        | .ok j => "ok " ++ join (encJ j)
        | .error e => showLErr e
      "ok " ++ showBool (Faithful doc) ++ " " ++ join (encL l) ++ " | " ++ back
    | _ => "bad-request doc"
  | "oflisp" =>
    match decL n args with
    | some (l, []) =>
      match ofLisp l with
      | .ok j => "ok " ++ join (encJ j)
      | .error e => showLErr e
    | _ => "bad-request lisp"
  | "simple" =>
    match decG n args with
    | some (g, []) =>
      let l := simpleObject g
      let bagv := match ofLisp l with
        | .ok j => "ok " ++ join (encJ j)
        | .error e => showLErr e
      "ok " ++ showBool (GFaithful g) ++ " " ++ join (encL l) ++ " | " ++ join (encG (simplify l)) ++ " | " ++
        showBool (GBag g) ++ " " ++ bagv
    | _ => "bad-request go-value"
  | _ => "bad-request entry"

end SlipVerif.Driver.Json
