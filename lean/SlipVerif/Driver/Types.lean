import SlipVerif.Model.Types
import SlipVerif.Model.ClassReg
import SlipVerif.Driver.Util
--! namespace: type
/- line protocol for C16 (type predicates over the regenerated tables):

   type row <type-of>     -> ok <h1,h2,…>|<c1,c2,…>   Hierarchy() literal ("-" if none) | registered classes σ with (subtypep type-of σ)
   type classes           -> ok <name>:<p1,p2,…>;…    every registered class with its precedence (itself first)
   type coerce <target>   -> ok <r1,r2,…>             result types the modelled coerce may produce, "-" if the target is not modelled
   type cspec <spec> <type-of> <value|-> <length|->   -> ok accept | ok reject   coerce to a compound specifier, given what the
                                                       conversion to its head produced (type-of, exact value n/d, length)
   type specsub <base>[/<elem>] <base>[/<elem>]       -> ok t | ok nil            subtypep on (base elem) specifiers
   type classhist <op>*   -> ok <obs>*   history over user defined classes (Model/ClassReg.lean)
       op:  d<c>:<s>,<s>… define class c with direct superclasses | i<k>:<c> instance k of class c | t<k>:<σ> typep
            | s<σ>:<σ> subtypep | o<k> type-of         σ: u<c> user class | b standard-object | T t | a fixnum
       obs: - | t | n | u<c> | R:<why> (history outside the modelled fragment)
   spec: a:<name> | r:<head>:<lo>:<hi> | v:<elem|*>:<n|*> | z:<head>:<n|*>       bounds: * or n/d
-/
namespace SlipVerif.Driver.Types
open SlipVerif.Types SlipVerif.Gen.Hierarchies

def commas (xs : List String) : String := if xs.isEmpty then "-" else String.intercalate "," xs

def parseBound (s : String) : Option Bound :=
  if s = "*" then some .star else (parseRat? s).map .val

def parseOptNat (s : String) : Option (Option Nat) :=
  if s = "*" then some none else s.toNat?.map some

def parseSpec (s : String) : Option Spec :=
  match s.splitOn ":" with
  | ["a", n] => some (.atom n)
  | ["r", h, lo, hi] => do
      let l ← parseBound lo
      let u ← parseBound hi
      some (.range h l u)
  | ["v", e, n] => do
      let k ← parseOptNat n
      some (.vector (if e = "*" then none else some e) k)
  | ["z", h, n] => do
      let k ← parseOptNat n
      some (.sized h k)
  | _ => none

def parseTSpec (s : String) : Option TSpec :=
  match s.splitOn "/" with
  | [b] => some ⟨b, none⟩
  | [b, e] => some ⟨b, some e⟩
  | _ => none

def parseObs (ty v l : String) : Option Obs := do
  let val ← if v = "-" then some none else (parseRat? v).map some
  let len ← if l = "-" then some none else l.toNat?.map some
  some ⟨ty, val, len⟩

open SlipVerif.ClassReg in
def parseTy (s : String) : Option Ty :=
  match s.toList with
  | ['b'] => some .base
  | ['T'] => some .top
  | ['a'] => some .alien
  | 'u' :: r => (String.ofList r).toNat?.map .user
  | _ => none

open SlipVerif.ClassReg in
def parseClassOp (s : String) : Option Op :=
  match s.toList with
  | 'o' :: r => (String.ofList r).toNat?.map .tof
  | 'd' :: r =>
    match (String.ofList r).splitOn ":" with
    | [c, ss] => do
        let c ← c.toNat?
        let sup ← if ss = "" then some [] else (ss.splitOn ",").mapM (·.toNat?)
        some (.defc c sup)
    | _ => none
  | 'i' :: r =>
    match (String.ofList r).splitOn ":" with
    | [k, c] => do some (.inst (← k.toNat?) (← c.toNat?))
    | _ => none
  | 't' :: r =>
    match (String.ofList r).splitOn ":" with
    | [k, t] => do some (.typ (← k.toNat?) (← parseTy t))
    | _ => none
  | 's' :: r =>
    match (String.ofList r).splitOn ":" with
    | [a, b] => do some (.sub (← parseTy a) (← parseTy b))
    | _ => none
  | _ => none

open SlipVerif.ClassReg in
def showObs : SlipVerif.ClassReg.Obs → String
  | .done => "-"
  | .bool true => "t"
  | .bool false => "n"
  | .ty (.user c) => s!"u{c}"
  | .ty .base => "b"
  | .ty .top => "T"
  | .ty .alien => "a"
  | .rejected why => "R:" ++ why

def handle (entry : String) (args : List String) : String :=
  match entry, args with
  | "classhist", ops =>
    match ops.mapM parseClassOp with
    | some os => "ok " ++ String.intercalate " " ((SlipVerif.ClassReg.run {} os).map showObs)
    | none => "bad-request classhist"
  | "row", [ty] =>
    let h := match hierOf hierarchies ty with | some h => commas h | none => "-"
    let subs := (classNames classes).filter (fun σ => subtypep classes ty σ)
    s!"ok {h}|{commas subs}"
  | "classes", [] =>
    "ok " ++ String.intercalate ";" ((classNames classes).map (fun c => s!"{c}:{commas (precedence classes c)}"))
  | "coerce", [target] =>
    match coerceAllowed target with
    | some rs => "ok " ++ commas rs
    | none => "ok -"
  | "cspec", [sp, ty, v, l] =>
    match parseSpec sp, parseObs ty v l with
    | some s, some r => if (coerceSpec hierarchies s r).isSome then "ok accept" else "ok reject"
    | _, _ => "bad-request cspec"
  | "specsub", [a, b] =>
    match parseTSpec a, parseTSpec b with
    | some s, some t => if specSub classes s t then "ok t" else "ok nil"
    | _, _ => "bad-request specsub"
  | _, _ => "bad-request entry"

end SlipVerif.Driver.Types
