import SlipVerif.Model.Types
import SlipVerif.Driver.Util
--! namespace: type
/- line protocol for C16 (type predicates over the regenerated tables):

   type row <type-of>     -> ok <h1,h2,…>|<c1,c2,…>   Hierarchy() literal ("-" if none) | registered classes σ with (subtypep type-of σ)
   type classes           -> ok <name>:<p1,p2,…>;…    every registered class with its precedence (itself first)
   type coerce <target>   -> ok <r1,r2,…>             result types the modelled coerce may produce, "-" if the target is not modelled
-/
namespace SlipVerif.Driver.Types
open SlipVerif.Types SlipVerif.Gen.Hierarchies

def commas (xs : List String) : String := if xs.isEmpty then "-" else String.intercalate "," xs

def handle (entry : String) (args : List String) : String :=
  match entry, args with
  | "row", [ty] =>
    let h := match hierOf hierarchies ty with | some h => commas h | none => "-"
    let subs := (classNames classes).filter (fun σ => subtypep classes ty σ)
    s!"ok {h}|{commas subs}"
  | "classes", [] =>
    "ok " ++ String.intercalate ";" ((classNames classes).map (fun c => s!"{c}:{commas (precedence classes c)}"))
  | "coerce", [target] =>
    match coerceAllowed target with
    | some rs => "ok " ++ commas rs
    | none => "ok -"
  | _, _ => "bad-request entry"

end SlipVerif.Driver.Types
