import SlipVerif.Model.Equality
import SlipVerif.Model.HashTable
import SlipVerif.Driver.Util
--! namespace: eq
/- line protocol for C16 (equality and hash tables):

   eq matrix <obj>*                 -> ok <eq> <eql> <equal> <equalp> <oeq>   (N*N chars 0/1 each, row major)
   eq hist <key>* -- <op>*          -> ok <obs>*      one observation per op
       op:  p<i>,<v> store v under key i | g<i> lookup | r<i> remove | c clear | n count | m maphash
       obs: -        | v<val> or ~       | 1 or 0      | -       | <n>     | m<i>:<v>,… (sorted; i = first key index eql to the stored key)

   object syntax (one token, no blanks):
     N | n<id>:<f|b|r|s|d|l|S|D>:<num>/<den>; (S, D: negative zero) | c<id>:<cp>; | s<id>:<cp>.<cp>…; | y<cp>.<cp>…; | L<id>(<obj>*) | V<id>(<obj>*) | O<id>;
-/
namespace SlipVerif.Driver.Equality
open SlipVerif.Equality SlipVerif.HashTable

def parseNat : List Char → Option (Nat × List Char)
  | cs =>
    let ds := cs.takeWhile Char.isDigit
    if ds.isEmpty then none else
    some (ds.foldl (fun a c => a * 10 + (c.toNat - '0'.toNat)) 0, cs.dropWhile Char.isDigit)

def parseInt : List Char → Option (Int × List Char)
  | '-' :: cs => (parseNat cs).map (fun (n, r) => (-(n : Int), r))
  | cs => (parseNat cs).map (fun (n, r) => ((n : Int), r))

/-- code points separated by '.', terminated by ';' (possibly empty) -/
def parseCps : Nat → List Char → Option (List Nat × List Char)
  | 0, _ => none
  | _ + 1, ';' :: r => some ([], r)
  | f + 1, cs =>
    match parseNat cs with
    | some (n, '.' :: r) => (parseCps f r).map (fun (ns, r) => (n :: ns, r))
    | some (n, ';' :: r) => some ([n], r)
    | _ => none

def parseRep : Char → Option NumRep
  | 'f' => some .fixnum | 'b' => some .bignum | 'r' => some .ratio
  | 's' => some .single | 'd' => some .double | 'l' => some .long
  | 'S' => some .single | 'D' => some .double   -- negative zero (the value is 0)
  | _ => none

/-- a slip list: the token sits on the first cell -/
def mkList (id : Nat) : List Obj → Obj
  | [] => .nil
  | a :: rest => .cons id a (mkList 0 rest)

mutual
def parseObj : Nat → List Char → Option (Obj × List Char)
  | 0, _ => none
  | _ + 1, 'N' :: r => some (.nil, r)
  | _ + 1, 'n' :: r => do
      let (i, r) ← parseNat r
      match r with
      | ':' :: k :: ':' :: r => do
          let rep ← parseRep k
          let (n, r) ← parseInt r
          match r with
          | '/' :: r => do
              let (d, r) ← parseNat r
              match r with
              | ';' :: r => if d = 0 then none else some (.num i rep (mkRat n d), r)
              | _ => none
          | _ => none
      | _ => none
  | _ + 1, 'c' :: r => do
      let (i, r) ← parseNat r
      match r with
      | ':' :: r => do
          let (c, r) ← parseNat r
          match r with
          | ';' :: r => some (.chr i c, r)
          | _ => none
      | _ => none
  | f + 1, 's' :: r => do
      let (i, r) ← parseNat r
      match r with
      | ':' :: r => (parseCps f r).map (fun (s, r) => (.str i s, r))
      | _ => none
  | f + 1, 'y' :: r => (parseCps f r).map (fun (s, r) => (.sym s, r))
  | _ + 1, 'O' :: r => do
      let (i, r) ← parseNat r
      match r with
      | ';' :: r => some (.other i, r)
      | _ => none
  | f + 1, 'L' :: r => do
      let (i, r) ← parseNat r
      match r with
      | '(' :: r => (parseElems f r).map (fun (es, r) => (mkList i es, r))
      | _ => none
  | f + 1, 'V' :: r => do
      let (i, r) ← parseNat r
      match r with
      | '(' :: r => (parseElems f r).map (fun (es, r) => (.vec i (mkList 0 es), r))
      | _ => none
  | _ + 1, _ => none
def parseElems : Nat → List Char → Option (List Obj × List Char)
  | 0, _ => none
  | _ + 1, ')' :: r => some ([], r)
  | f + 1, cs => do
      let (o, r) ← parseObj f cs
      let (os, r) ← parseElems f r
      some (o :: os, r)
end

def parseObjStr (s : String) : Option Obj :=
  let cs := s.toList
  match parseObj (cs.length + 1) cs with
  | some (o, []) => some o
  | _ => none

def bit (b : Bool) : Char := if b then '1' else '0'

def matrix (p : Obj → Obj → Bool) (os : List Obj) : String :=
  String.ofList (os.flatMap (fun x => os.map (fun y => bit (p x y))))

inductive HOp where
  | put (i v : Nat) | get (i : Nat) | rem (i : Nat) | clr | cnt | map

def parseOp (s : String) : Option HOp :=
  match s.toList with
  | ['c'] => some .clr
  | ['n'] => some .cnt
  | ['m'] => some .map
  | 'g' :: r => match parseNat r with | some (i, []) => some (.get i) | _ => none
  | 'r' :: r => match parseNat r with | some (i, []) => some (.rem i) | _ => none
  | 'p' :: r => match parseNat r with
      | some (i, ',' :: r) => match parseNat r with | some (v, []) => some (.put i v) | _ => none
      | _ => none
  | _ => none

/-- index of the first key of the universe that is `eql` to `k` -/
def classOf (ks : List Obj) (k : Obj) : Nat := (ks.findIdx (fun k' => eql k' k))

def insertSorted (a : Nat × Nat) : List (Nat × Nat) → List (Nat × Nat)
  | [] => [a]
  | b :: l => if a.1 < b.1 ∨ (a.1 = b.1 ∧ a.2 ≤ b.2) then a :: b :: l else b :: insertSorted a l

def showMap (ks : List Obj) (t : Table Obj Nat) : String :=
  let es := (t.map (fun e => (classOf ks e.1, e.2))).foldr insertSorted []
  "m" ++ String.intercalate "," (es.map (fun e => s!"{e.1}:{e.2}"))

/-- run the history chronologically with the model's `step`; one observation per op -/
def runHist (ks : List Obj) : Table Obj Nat → List HOp → Option (List String)
  | _, [] => some []
  | t, op :: rest =>
    match op with
    | .put i v => do
        let k ← ks[i]?
        let obs ← runHist ks (step eql t (.put k v)) rest
        some ("-" :: obs)
    | .get i => do
        let k ← ks[i]?
        let obs ← runHist ks t rest
        some ((match get eql t k with | some v => s!"v{v}" | none => "~") :: obs)
    | .rem i => do
        let k ← ks[i]?
        let obs ← runHist ks (step eql t (.rem k)) rest
        some ((if (get eql t k).isSome then "1" else "0") :: obs)
    | .clr => do
        let obs ← runHist ks (step eql t .clr) rest
        some ("-" :: obs)
    | .cnt => do
        let obs ← runHist ks t rest
        some (toString (count t) :: obs)
    | .map => do
        let obs ← runHist ks t rest
        some (showMap ks t :: obs)

def splitAt (sep : String) : List String → List String × List String
  | [] => ([], [])
  | a :: l => if a = sep then ([], l) else let (x, y) := splitAt sep l; (a :: x, y)

def handle (entry : String) (args : List String) : String :=
  match entry with
  | "matrix" =>
    match args.mapM parseObjStr with
    | none => "bad-request object"
    | some os =>
      s!"ok {matrix eq os} {matrix eql os} {matrix equal os} {matrix equalp os} {matrix oeq os}"
  | "hist" =>
    let (ka, oa) := splitAt "--" args
    match ka.mapM parseObjStr, oa.mapM parseOp with
    | some ks, some ops =>
      match runHist ks [] ops with
      | some obs => "ok " ++ String.intercalate " " obs
      | none => "bad-request key-index"
    | _, _ => "bad-request hist"
  | _ => "bad-request entry"

end SlipVerif.Driver.Equality
