import SlipVerif.Model.History
import SlipVerif.Driver.Util
--! namespace: hist
/- line protocol for C20 (see harness/cmd/vh/c20.go)

   hist run <T|A> <limit> <hist0> <tmp0> <event>*     T = fixed model (tmp O_TRUNC), A = as found
       content : ~ (absent) | hex utf-8 ("-" empty)
       event   : A:<form> | C:<start>:<stop> | L:<n> | R:<limit> | X:<k>:<limit>:<A:..|C:..|L:..>
       form    : ~ (no lines) | <line>,<line>,…   line = hex utf-8 ("-" empty)
     reply: ok <ev>*   ev = mem=<forms>|omem=<forms>|load=<forms>|hist=<content>|tmp=<content>|lim=<n>|steps=<shape>|crash=<c0>;<c1>;…
       (omem = memory after the completed operation, also for an X event)
       forms = . (none) | <form>/<form>/…      ck = <fnv32 hist|~>:<fnv32 tmp|~>:<forms loaded | = (as previous k)>
       (for an X event mem/load/hist/tmp describe the world after the restart)
   hist decode <content>            -> ok <forms>          History.Load of arbitrary content
   hist storable <form>             -> ok t|nil
   hist stash <stash0> <event>*     event: A:<form> | C:<start>:<stop>
     reply: ok <ev>*   ev = mem=<forms>|load=<forms or !>|stash=<content>|steps=<shape>|crash=<fnv32|~>:<forms or ! or =>;…
   hist sdecode <content>           -> ok <forms> | err reader
   hist stashok <form>              -> ok t|nil
   hist cfg <S:<hexkey>:<hexval>>*  -> ok <hex of the config body after each setq>*
-/
namespace SlipVerif.Driver.History
open SlipVerif.History SlipVerif.Driver

def parseLine (s : String) : Option Line := (unhexString? s).map String.toList

def parseForm (s : String) : Option Form :=
  if s = "~" then some [] else (s.splitOn ",").mapM parseLine

def parseContent (s : String) : Option (Option Content) :=
  if s = "~" then some none else (unhexString? s).map (fun t => some t.toList)

def showLine (l : Line) : String := hexString (String.ofList l)
def showForm (f : Form) : String := if f.isEmpty then "~" else ",".intercalate (f.map showLine)
def showForms (fs : List Form) : String := if fs.isEmpty then "." else "/".intercalate (fs.map showForm)
def showContent : Option Content → String
  | none => "~"
  | some c => hexString (String.ofList c)

def fnv32 (c : Content) : UInt32 :=
  (String.ofList c).toUTF8.toList.foldl (fun h b => (h ^^^ b.toUInt32) * 16777619) 2166136261

def showFnv : Option Content → String
  | none => "~"
  | some c => toString (fnv32 c).toNat

def parseOp : List String → Option Op
  | ["A", f] => (parseForm f).map Op.add
  | ["C", a, b] => do
      let a ← a.toInt?
      let b ← b.toInt?
      some (Op.clear a b)
  | ["L", n] => n.toNat?.map Op.setLimit
  | _ => none

def parseEvent (s : String) : Option Event :=
  match s.splitOn ":" with
  | ["R", l] => l.toNat?.map Event.restart
  | "X" :: k :: l :: rest => do
      let k ← k.toNat?
      let l ← l.toNat?
      let o ← parseOp rest
      some (Event.crash o k l)
  | toks => (parseOp toks).map Event.op

def nameCode : Name → String
  | .hist => "h"
  | .tmp => "t"
  | .stash => "s"

def stepCode : Step → String
  | .openAppend n => "o" ++ nameCode n
  | .openTrunc n => "t" ++ nameCode n
  | .write n _ => "w" ++ nameCode n
  | .close n => "c" ++ nameCode n
  | .rename s d => "r" ++ nameCode s ++ nameCode d

def showSteps (steps : List Step) : String := if steps.isEmpty then "." else ".".intercalate (steps.map stepCode)

/-- the states a process death can leave: after 0, 1, …, all steps -/
def crashStates (fs : FS) (steps : List Step) : List FS :=
  (List.range (steps.length + 1)).map (fun k => crashAt k steps fs)

def showCrash (states : List FS) : String :=
  let rec go (prev : Option (List Form)) : List FS → List String
    | [] => []
    | fs :: rest =>
      let l := load fs
      let ls := if prev = some l then "=" else showForms l
      (showFnv fs.hist ++ ":" ++ showFnv fs.tmp ++ ":" ++ ls) :: go (some l) rest
  ";".intercalate (go none states)

def opOf : Event → Option Op
  | .op o => some o
  | .crash o _ _ => some o
  | .restart _ => none

def showEvent (cfg : Cfg) (w : World) (e : Event) : String × World :=
  let w' := w.apply cfg e
  let steps := match opOf e with
    | some o => (perform cfg w.mem o).2
    | none => []
  let omem := match opOf e with
    | some o => (perform cfg w.mem o).1.forms
    | none => w'.mem.forms
  (s!"mem={showForms w'.mem.forms}|omem={showForms omem}|load={showForms (load w'.fs)}|hist={showContent w'.fs.hist}|tmp={showContent w'.fs.tmp}|lim={w'.mem.limit}|steps={showSteps steps}|crash={showCrash (crashStates w.fs steps)}", w')

def runEvents (cfg : Cfg) : World → List Event → List String
  | _, [] => []
  | w, e :: es => let r := showEvent cfg w e; r.1 :: runEvents cfg r.2 es

/-! stash -/

def parseSOp (s : String) : Option SOp :=
  match s.splitOn ":" with
  | ["A", f] => (parseForm f).map SOp.add
  | ["C", a, b] => do
      let a ← a.toInt?
      let b ← b.toInt?
      some (SOp.clear a b)
  | _ => none

def showOptForms : Option (List Form) → String
  | none => "!"
  | some fs => showForms fs

def showSCrash (states : List FS) : String :=
  let rec go (prev : Option (Option (List Form))) : List FS → List String
    | [] => []
    | fs :: rest =>
      let l := loadStash fs
      let ls := if prev = some l then "=" else showOptForms l
      (showFnv fs.stash ++ ":" ++ ls) :: go (some l) rest
  ";".intercalate (go none states)

def runStash : List Form → FS → List SOp → List String
  | _, _, [] => []
  | forms, fs, o :: os =>
    let r := sperform forms o
    let fs' := runSteps fs r.2
    s!"mem={showForms r.1}|load={showOptForms (loadStash fs')}|stash={showContent fs'.stash}|steps={showSteps r.2}|crash={showSCrash (crashStates fs r.2)}"
      :: runStash r.1 fs' os

/-! settings -/

def parseSet (s : String) : Option (String × String) :=
  match s.splitOn ":" with
  | ["S", k, v] => do
      let k ← unhexString? k
      let v ← unhexString? v
      some (k, v)
  | _ => none

def runCfg : Settings → List (String × String) → List String
  | _, [] => []
  | m, kv :: rest => let m' := setVar m kv.1 kv.2; hexString (configBody m') :: runCfg m' rest

/-! settings, several directories in one process: `hist cfgw <ndirs> <event>*` with events
`B:<d>:<0|1>` ([ZeroMods;] SetConfigDir d), `S:<hexk>:<hexv>` (setq), `E:<d>:N` (config.lisp of d
removed), `E:<d>:F[,<hexk>=<hexv>]*` (replaced by the header and these setqs), `X` (process ends).
Reply: after each event the files of the directories `0 … ndirs-1` joined by `;`: `-` = none,
`+<hex of the body>`. -/

def parseKV (s : String) : Option (String × String) :=
  match s.splitOn "=" with
  | [k, v] => do
      let k ← unhexString? k
      let v ← unhexString? v
      some (k, v)
  | _ => none

def parseCfgEvent (s : String) : Option CfgEvent :=
  match s.splitOn ":" with
  | ["B", d, z] => do
      let d ← d.toNat?
      some (.start d (z == "1"))
  | ["S", k, v] => do
      let k ← unhexString? k
      let v ← unhexString? v
      some (.setq k v)
  | ["E", d, c] => do
      let d ← d.toNat?
      if c == "N" then some (.ext d none) else
      match c.splitOn "," with
      | "F" :: kvs => do
          let kvs ← kvs.mapM parseKV
          some (.ext d (some kvs))
      | _ => none
  | ["X"] => some .exit
  | _ => none

def showDisk (n : Nat) (p : CfgProc) : String :=
  ";".intercalate ((List.range n).map (fun d =>
    match p.disk d with
    | none => "-"
    | some m => "+" ++ hexString (configBody m)))

def runCfgW (n : Nat) : CfgProc → List CfgEvent → List String
  | _, [] => []
  | p, e :: rest => let p' := p.apply e; showDisk n p' :: runCfgW n p' rest

def okBool (b : Bool) : String := if b then "ok t" else "ok nil"

def handle (entry : String) (args : List String) : String :=
  match entry, args with
  | "run", c :: limit :: h0 :: t0 :: evs =>
    let cfg? : Option Cfg := if c = "T" then some fixed else if c = "A" then some asFound else none
    match cfg?, limit.toNat?, parseContent h0, parseContent t0, evs.mapM parseEvent with
    | some cfg, some limit, some h0, some t0, some evs =>
      let w := boot limit ⟨h0, t0, none⟩
      " ".intercalate ("ok" :: s!"mem={showForms w.mem.forms}" :: runEvents cfg w evs)
    | _, _, _, _, _ => "bad-request run-args"
  | "decode", [c] =>
    match parseContent c with
    | some (some c) => "ok " ++ showForms (decode c)
    | _ => "bad-request content"
  | "storable", [f] =>
    match parseForm f with
    | some f => okBool (storable f)
    | none => "bad-request form"
  | "stashok", [f] =>
    match parseForm f with
    | some f => okBool (stashOK f)
    | none => "bad-request form"
  | "stash", s0 :: ops =>
    match parseContent s0, ops.mapM parseSOp with
    | some s0, some ops =>
      let fs : FS := ⟨none, none, s0⟩
      match loadStash fs with
      | none => "err reader"
      | some forms => " ".intercalate ("ok" :: s!"mem={showForms forms}" :: runStash forms fs ops)
    | _, _ => "bad-request stash-args"
  | "sdecode", [c] =>
    match parseContent c with
    | some (some c) =>
      match decodeExpanded c with
      | some fs => "ok " ++ showForms fs
      | none => "err reader"
    | _ => "bad-request content"
  | "cfg", ops =>
    match ops.mapM parseSet with
    | some ops => " ".intercalate ("ok" :: runCfg [] ops)
    | none => "bad-request cfg-args"
  | "cfgw", n :: evs =>
    match n.toNat?, evs.mapM parseCfgEvent with
    | some n, some evs => " ".intercalate ("ok" :: runCfgW n CfgProc.init evs)
    | _, _ => "bad-request cfgw-args"
  | _, _ => "bad-request entry"

end SlipVerif.Driver.History
