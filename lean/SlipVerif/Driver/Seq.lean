import SlipVerif.Model.Seq
import SlipVerif.Driver.Util
--! namespace: seq
/- line protocol for C14:   seq <function> <field>=<value>*

   object   : n | t | i<dec> | y<hex-name> | c<codepoint> | (<obj>.<obj>)
   sequence : L[<obj>,…] (list) | V[<obj>,…] (vector) | S[<obj>,…] (string, characters only)
   function : car cdr char-code 1+ neg mod2 upcase evenp oddp plusp null consp eqto:<obj> ltthan:<int>
              eq eql equal < <= > >= = char= char< sameparity + - cons list max
   fields   : item new seq seq2 seqs(= s;s;…) start end start1 end1 start2 end2 key test testnot pred
              count fromend init rtype fn result
   reply    : ok <obj> | ok <sequence> | err bounds|type|arg | bad-request <why>
   An application outside a function's domain is a bad-request (the harness only generates
   well-typed calls). -/
namespace SlipVerif.Driver.Seq
open SlipVerif.Seq SlipVerif.Driver

/-! ### terms -/

def isObjDigit (c : Char) : Bool := c.isDigit || c == '-'
def isHexChar (c : Char) : Bool := (hexDigit? c).isSome

def parseObj : Nat → List Char → Option (Obj × List Char)
  | 0, _ => none
  | fuel + 1, cs =>
    match cs with
    | 'n' :: r => some (.nil, r)
    | 't' :: r => some (.t, r)
    | 'i' :: r =>
      let (d, r') := r.span isObjDigit
      (String.ofList d).toInt?.map (fun i => (.int i, r'))
    | 'c' :: r =>
      let (d, r') := r.span Char.isDigit
      (String.ofList d).toNat?.map (fun n => (.chr n, r'))
    | 'y' :: r =>
      let (h, r') := r.span isHexChar
      (unhexString? (String.ofList h)).map (fun s => (.sym s, r'))
    | '(' :: r =>
      match parseObj fuel r with
      | some (a, '.' :: r2) =>
        match parseObj fuel r2 with
        | some (d, ')' :: r4) => some (.cons a d, r4)
        | _ => none
      | _ => none
    | _ => none

def parseObjStr (s : String) : Option Obj :=
  match parseObj (s.length + 1) s.toList with
  | some (o, []) => some o
  | _ => none

def parseElems : Nat → List Char → Option (List Obj × List Char)
  | 0, _ => none
  | fuel + 1, cs =>
    match cs with
    | ']' :: r => some ([], r)
    | _ =>
      match parseObj (cs.length + 1) cs with
      | some (o, ',' :: r) => (parseElems fuel r).map (fun (os, r') => (o :: os, r'))
      | some (o, ']' :: r) => some ([o], r)
      | _ => none

def parseSeqChars (cs : List Char) : Option (Seq × List Char) :=
  let k : Option Kind := match cs with
    | 'L' :: '[' :: _ => some .list
    | 'V' :: '[' :: _ => some .vector
    | 'S' :: '[' :: _ => some .string
    | _ => none
  match k with
  | none => none
  | some k => (parseElems (cs.length + 1) (cs.drop 2)).map (fun (os, r) => (⟨k, os⟩, r))

def parseSeq (s : String) : Option Seq :=
  match parseSeqChars s.toList with
  | some (q, []) => some q
  | _ => none

def parseSeqs (s : String) : Option (List Seq) := (s.splitOn ";").mapM parseSeq

def showObj : Obj → String
  | .nil => "n"
  | .t => "t"
  | .int i => s!"i{i}"
  | .sym s => "y" ++ hexString s
  | .chr c => s!"c{c}"
  | .cons a d => "(" ++ showObj a ++ "." ++ showObj d ++ ")"

def showSeq (s : Seq) : String :=
  let tag := match s.kind with
    | .list => "L"
    | .vector => "V"
    | .string => "S"
  tag ++ "[" ++ ",".intercalate (s.elems.map showObj) ++ "]"

def parseFn (s : String) : Option Fn :=
  match s.splitOn ":" with
  | ["car"] => some .car
  | ["cdr"] => some .cdr
  | ["char-code"] => some .charCode
  | ["1+"] => some .succ
  | ["neg"] => some .neg
  | ["mod2"] => some .mod2
  | ["upcase"] => some .upcase
  | ["evenp"] => some .evenp
  | ["oddp"] => some .oddp
  | ["plusp"] => some .plusp
  | ["null"] => some .null
  | ["consp"] => some .consp
  | ["eqto", o] => (parseObjStr o).map .eqTo
  | ["ltthan", n] => n.toInt?.map .ltThan
  | ["eq"] => some .eq
  | ["eql"] => some .eql
  | ["equal"] => some .equal
  | ["<"] => some .lt
  | ["<="] => some .le
  | [">"] => some .gt
  | [">="] => some .ge
  | ["="] => some .numEq
  | ["char="] => some .charEq
  | ["char<"] => some .charLt
  | ["sameparity"] => some .sameParity
  | ["+"] => some .add
  | ["-"] => some .sub
  | ["cons"] => some .cons
  | ["list"] => some .list
  | ["max"] => some .max
  | _ => none

def parseKind (s : String) : Option Kind :=
  match s with
  | "list" => some .list
  | "vector" => some .vector
  | "string" => some .string
  | _ => none

/-! ### request fields -/

abbrev Fields := List (String × String)

def parseFields (args : List String) : Option Fields :=
  args.mapM (fun a =>
    match a.splitOn "=" with
    | k :: v :: rest => some (k, "=".intercalate (v :: rest))
    | _ => none)

def Fields.get (fs : Fields) (k : String) : Option String := (fs.find? (·.1 == k)).map (·.2)

/-- `R` = result of request processing: `Except String` where the error is the reply line -/
abbrev R := Except String

def need {α} (what : String) : Option α → R α
  | some a => .ok a
  | none => .error ("bad-request " ++ what)

def optField {α} (fs : Fields) (k : String) (parse : String → Option α) : R (Option α) :=
  match fs.get k with
  | none => .ok none
  | some v => (need k (parse v)).map some

def reqField {α} (fs : Fields) (k : String) (parse : String → Option α) : R α :=
  match fs.get k with
  | none => .error ("bad-request missing-" ++ k)
  | some v => need k (parse v)

def natField (fs : Fields) (k : String) : R (Option Nat) := optField fs k String.toNat?

def boolField (fs : Fields) (k : String) : R Bool :=
  match fs.get k with
  | none => .ok false
  | some "t" => .ok true
  | some "n" => .ok false
  | _ => .error ("bad-request " ++ k)

def illTyped {α} : R α := .error "bad-request ill-typed"

/-- every application the evaluation may perform must be inside the function's domain -/
def domKeys (key : Option Fn) (l : List Obj) : R (List Obj) :=
  match key with
  | none => .ok l
  | some k => match l.mapM (fun x => k.call [x]) with
    | some ks => .ok ks
    | none => illTyped

def domAll (xs : List (Option Obj)) : R Unit := if xs.all Option.isSome then .ok () else illTyped

structure KwIn where
  kw : Kw
  key : Option Fn
  test : Option Fn      -- the function given as :test or :test-not

/-- read start end key test testnot count fromend -/
def readKw (fs : Fields) (negateFn : Bool := false) : R KwIn := do
  let start ← natField fs "start"
  let stop ← natField fs "end"
  let key ← optField fs "key" parseFn
  let test ← optField fs "test" parseFn
  let testnot ← optField fs "testnot" parseFn
  let count ← optField fs "count" String.toInt?
  let fromEnd ← boolField fs "fromend"
  if test.isSome && testnot.isSome then .error "bad-request test-and-testnot" else
  let tf := match test, testnot with
    | some f, _ => some f
    | none, some f => some f
    | none, none => none
  let kw : Kw := {
    start := start.getD 0, stop := stop,
    key := Fn.app1 key,
    test := match tf with
      | some f => f.test2
      | none => fun a b => decide (a = b),
    negate := testnot.isSome != negateFn,
    count := count, fromEnd := fromEnd }
  pure ⟨kw, key, tf⟩

def okObj (o : Obj) : String := "ok " ++ showObj o
def okSeq (s : Seq) : String := "ok " ++ showSeq s

def showErr : Err → String
  | .bounds => "err bounds"
  | .type => "err type"
  | .arg => "err arg"

def exObj : Except Err Obj → String
  | .ok o => okObj o
  | .error e => showErr e

def exSeq : Except Err Seq → String
  | .ok s => okSeq s
  | .error e => showErr e

/-- the target (item or predicate) of a find-like call with its domain check over the sequence -/
def readTarget (fs : Fields) (mode : String) (k : KwIn) (elems : List Obj) : R Target := do
  let keys ← domKeys k.key elems
  if mode == "item" then
    let item ← reqField fs "item" parseObjStr
    match k.test with
    | some f => domAll (keys.map (fun y => f.call [item, y]))
    | none => pure ()
    pure (.item item)
  else
    let p ← reqField fs "pred" parseFn
    domAll (keys.map (fun y => p.call [y]))
    pure (.pred p.pred1)

/-- all pairs of keys must be comparable by the test -/
def domPairs (test : Option Fn) (ks1 ks2 : List Obj) : R Unit :=
  match test with
  | none => .ok ()
  | some f => domAll (ks1.flatMap (fun a => ks2.flatMap (fun b => [f.call [a, b], f.call [b, a]])))

def splitMode (name : String) : String × String :=
  if name.endsWith "-if-not" then ((name.dropEnd 7).toString, "ifnot")
  else if name.endsWith "-if" then ((name.dropEnd 3).toString, "if")
  else (name, "item")

def seqListOnly (s : Seq) : R (List Obj) :=
  if s.kind = .list then .ok s.elems else .error "bad-request list-only"

/-- n-ary function over argument tuples, with domain check on every tuple -/
def readTupleFn (fs : Fields) (seqs : List (List Obj)) : R (List Obj → Obj) := do
  let f ← reqField fs "fn" parseFn
  domAll ((tuples seqs).map f.call)
  pure f.app

def run (name : String) (fs : Fields) : R String := do
  let (base, mode) := splitMode name
  match base with
  | "find" | "position" | "count" | "remove" | "delete" | "substitute" | "nsubstitute" =>
    let s ← reqField fs "seq" parseSeq
    let k ← readKw fs (mode == "ifnot")
    let tg ← readTarget fs mode k s.elems
    match base with
    | "find" => pure (exObj (findS k.kw tg s))
    | "position" => pure (exObj (positionS k.kw tg s))
    | "count" => pure (exObj (countS k.kw tg s))
    | "remove" | "delete" => pure (exSeq (removeS k.kw tg s))
    | _ =>
      let new ← reqField fs "new" parseObjStr
      pure (exSeq (substituteS new k.kw tg s))
  | "member" | "assoc" | "rassoc" =>
    let s ← reqField fs "seq" parseSeq
    let l ← seqListOnly s
    let k ← readKw fs (mode == "ifnot")
    let proj : List Obj := match base with
      | "assoc" => l.filterMap (fun e => match e with
          | .cons a _ => some a
          | _ => none)
      | "rassoc" => l.filterMap (fun e => match e with
          | .cons _ d => some d
          | _ => none)
      | _ => l
    if base != "member" && !(l.all (fun e => e = .nil || !atomic e)) then illTyped else
    let tg ← readTarget fs mode k proj
    match base with
    | "member" => pure (okObj (Obj.ofList (member (k.kw.matcher tg) l)))
    | "assoc" => pure (okObj (optObj (assoc (k.kw.matcher tg) l)))
    | _ => pure (okObj (optObj (rassoc (k.kw.matcher tg) l)))
  | _ => runRest name fs
where
  runRest (name : String) (fs : Fields) : R String := do
  match name with
  | "remove-duplicates" | "delete-duplicates" =>
    let s ← reqField fs "seq" parseSeq
    let k ← readKw fs
    let keys ← domKeys k.key s.elems
    domPairs k.test keys keys
    pure (exSeq (removeDuplicatesS k.kw s))
  | "search" | "mismatch" =>
    let s1 ← reqField fs "seq" parseSeq
    let s2 ← reqField fs "seq2" parseSeq
    let k ← readKw fs
    let k1 ← domKeys k.key s1.elems
    let k2 ← domKeys k.key s2.elems
    domPairs k.test k1 k2
    let a1 ← natField fs "start1"
    let b1 ← natField fs "end1"
    let a2 ← natField fs "start2"
    let b2 ← natField fs "end2"
    if name == "search" then pure (exObj (searchS k.kw (a1.getD 0) b1 (a2.getD 0) b2 s1 s2))
    else pure (exObj (mismatchS k.kw (a1.getD 0) b1 (a2.getD 0) b2 s1 s2))
  | "subseq" =>
    let s ← reqField fs "seq" parseSeq
    let a ← natField fs "start"
    let b ← natField fs "end"
    pure (exSeq (subseqS (a.getD 0) b s))
  | "fill" =>
    let s ← reqField fs "seq" parseSeq
    let item ← reqField fs "item" parseObjStr
    let a ← natField fs "start"
    let b ← natField fs "end"
    pure (exSeq (fillS item (a.getD 0) b s))
  | "replace" =>
    let s1 ← reqField fs "seq" parseSeq
    let s2 ← reqField fs "seq2" parseSeq
    let a1 ← natField fs "start1"
    let b1 ← natField fs "end1"
    let a2 ← natField fs "start2"
    let b2 ← natField fs "end2"
    pure (exSeq (replaceS (a1.getD 0) b1 (a2.getD 0) b2 s1 s2))
  | "reverse" | "nreverse" =>
    let s ← reqField fs "seq" parseSeq
    pure (exSeq (reverseS s))
  | "sort" | "stable-sort" | "sort-check" =>
    let s ← reqField fs "seq" parseSeq
    let pred ← reqField fs "pred" parseFn
    let key ← optField fs "key" parseFn
    let keys ← domKeys key s.elems
    domPairs (some pred) keys keys
    if name == "sort-check" then
      let r ← reqField fs "result" parseSeq
      pure (okObj (ofBool (decide (r.kind = s.kind) && sortOk pred.test2 (Fn.app1 key) s.elems r.elems)))
    else pure (exSeq (stableSortS pred.test2 (Fn.app1 key) s))
  | "merge" =>
    let s1 ← reqField fs "seq" parseSeq
    let s2 ← reqField fs "seq2" parseSeq
    let rt ← reqField fs "rtype" parseKind
    let pred ← reqField fs "pred" parseFn
    let key ← optField fs "key" parseFn
    let k1 ← domKeys key s1.elems
    let k2 ← domKeys key s2.elems
    domPairs (some pred) k1 k2
    pure (exSeq (mergeS rt pred.test2 (Fn.app1 key) s1 s2))
  | "union" | "intersection" | "set-difference" | "subsetp" | "union-check" | "intersection-check"
  | "set-difference-check" =>
    let s1 ← reqField fs "seq" parseSeq
    let s2 ← reqField fs "seq2" parseSeq
    let l1 ← seqListOnly s1
    let l2 ← seqListOnly s2
    let k ← readKw fs
    let k1 ← domKeys k.key l1
    let k2 ← domKeys k.key l2
    domPairs k.test (k1 ++ k2) (k1 ++ k2)
    match name with
    | "union" => pure (okSeq ⟨.list, union k.kw.eqv l1 l2⟩)
    | "intersection" => pure (okSeq ⟨.list, intersection k.kw.eqv l1 l2⟩)
    | "set-difference" => pure (okSeq ⟨.list, setDifference k.kw.eqv l1 l2⟩)
    | "subsetp" => pure (okObj (ofBool (subsetp k.kw.eqv l1 l2)))
    | _ =>
      let r ← reqField fs "result" parseSeq
      let rl ← seqListOnly r
      match name with
      | "union-check" => pure (okObj (ofBool (unionOk k.kw.eqv l1 l2 rl)))
      | "intersection-check" => pure (okObj (ofBool (intersectionOk k.kw.eqv l1 l2 rl)))
      | _ => pure (okObj (ofBool (setDifferenceOk k.kw.eqv l1 l2 rl)))
  | "every" | "some" | "notany" | "notevery" | "mapcar" | "map" =>
    let ss ← reqField fs "seqs" parseSeqs
    let ls := ss.map Seq.toList
    let f ← readTupleFn fs ls
    match name with
    | "every" => pure (okObj (every f ls))
    | "some" => pure (okObj (some' f ls))
    | "notany" => pure (okObj (notany f ls))
    | "notevery" => pure (okObj (notevery f ls))
    | "mapcar" =>
      if ss.all (fun s => s.kind = .list) then pure (okSeq ⟨.list, mapcar f ls⟩)
      else .error "bad-request list-only"
    | _ =>
      match fs.get "rtype" with
      | some "nil" => pure (okObj .nil)
      | _ =>
        let rt ← reqField fs "rtype" parseKind
        pure (exSeq (mapS rt f ss))
  | "concatenate" =>
    let ss ← reqField fs "seqs" parseSeqs
    let rt ← reqField fs "rtype" parseKind
    pure (exSeq (concatenateS rt ss))
  | "reduce" =>
    let s ← reqField fs "seq" parseSeq
    let f ← reqField fs "fn" parseFn
    let key ← optField fs "key" parseFn
    let init ← optField fs "init" parseObjStr
    let fromEnd ← boolField fs "fromend"
    let a ← natField fs "start"
    let b ← natField fs "end"
    match bounds (a.getD 0) b s.elems.length with
    | .error e => pure (showErr e)
    | .ok (a', b') =>
      let ks ← domKeys key (mid a' b' s.elems)
      -- domain: run the fold with Option
      let step (acc : Option Obj) (x : Obj) (flip : Bool) : Option Obj :=
        acc.bind (fun v => if flip then f.call [x, v] else f.call [v, x])
      let res : Option Obj :=
        match fromEnd, init with
        | false, some z => ks.foldl (fun acc x => step acc x false) (some z)
        | true, some z => ks.reverse.foldl (fun acc x => step acc x true) (some z)
        | false, none => match ks with
          | [] => f.call []
          | x :: r => r.foldl (fun acc y => step acc y false) (some x)
        | true, none => match ks.reverse with
          | [] => f.call []
          | x :: r => r.foldl (fun acc y => step acc y true) (some x)
      match res with
      | none => illTyped
      | some _ => pure (exObj (reduceS (fun x y => f.app [x, y]) (f.app []) (Fn.app1 key) init fromEnd (a.getD 0) b s))
  | _ => .error "bad-request function"

def handle (entry : String) (args : List String) : String :=
  match parseFields args with
  | none => "bad-request fields"
  | some fs =>
    match run entry fs with
    | .ok s => s
    | .error s => s

end SlipVerif.Driver.Seq
