import SlipVerif.Model.Seq
import SlipVerif.Driver.Util
--! namespace: seq
/- line protocol for C14:   seq <function> <field>=<value>*

   object   : n | t | i<dec> | y<hex-name> | c<codepoint> | (<obj>.<obj>)
   sequence : L[<obj>,…] (list) | V[<obj>,…] (vector) | S[<obj>,…] (string, characters only)
              | O[<obj>,…] (octets, integers 0..255 only)
   function : car cdr char-code 1+ neg mod2 upcase evenp oddp plusp null consp eqto:<obj> ltthan:<int>
              eq eql equal < <= > >= = char= char< sameparity dir10 + - cons list max
              seqcount:<obj> seqfind:<obj> seqposition:<obj> seqremove:<obj> seqmember:<obj> seqdedup
              seqreverse seqlength seqsum seqsubsetp seqsearch seqsameset seqsamecount:<obj> seqshorter
              (user lambdas that call sequence functions on elements that are lists)
   fields   : item new seq seq2 seqs(= s;s;…) start end start1 end1 start2 end2 key test testnot pred
              count fromend init rtype fn result
              trace=t (every some notany notevery map mapcar reduce): the reply also lists the calls the
              user function observes, in order: `ok <value> |<arg>,<arg>/<arg>,<arg>/…`
              self=key|pred|fn|test|test1 [base=<function>] : that argument is the user function
              (lambda (x) (if (consp x) (funcall f x) (base x))) re-entering the call itself (`f`)
              on nested lists (two-argument form for test); base defaults to identity / equal
   reply    : ok <obj> | ok <sequence> | err bounds|type|arg | bad-request <why>
   An application outside a function's domain is a bad-request (the harness only generates
   well-typed calls). -/
namespace SlipVerif.Driver.Seq
open SlipVerif.Seq SlipVerif.Driver

/-! ### terms -/

def isObjDigit (c : Char) : Bool := c.isDigit || c == '-'
def isHexChar (c : Char) : Bool := (hexDigit? c).isSome

def parseObj : Nat → List Char → Option (Obj × List Char)
  | 0, _ => none
  | fuel + 1, cs =>
    match cs with
    | 'n' :: r => some (.nil, r)
    | 't' :: r => some (.t, r)
    | 'i' :: r =>
      let (d, r') := r.span isObjDigit
      (String.ofList d).toInt?.map (fun i => (.int i, r'))
    | 'c' :: r =>
      let (d, r') := r.span Char.isDigit
      (String.ofList d).toNat?.map (fun n => (.chr n, r'))
    | 'y' :: r =>
      let (h, r') := r.span isHexChar
      (unhexString? (String.ofList h)).map (fun s => (.sym s, r'))
    | '(' :: r =>
      match parseObj fuel r with
      | some (a, '.' :: r2) =>
        match parseObj fuel r2 with
        | some (d, ')' :: r4) => some (.cons a d, r4)
        | _ => none
      | _ => none
    | _ => none

def parseObjStr (s : String) : Option Obj :=
  match parseObj (s.length + 1) s.toList with
  | some (o, []) => some o
  | _ => none

def parseElems : Nat → List Char → Option (List Obj × List Char)
  | 0, _ => none
  | fuel + 1, cs =>
    match cs with
    | ']' :: r => some ([], r)
    | _ =>
      match parseObj (cs.length + 1) cs with
      | some (o, ',' :: r) => (parseElems fuel r).map (fun (os, r') => (o :: os, r'))
      | some (o, ']' :: r) => some ([o], r)
      | _ => none

def parseSeqChars (cs : List Char) : Option (Seq × List Char) :=
  let k : Option Kind := match cs with
    | 'L' :: '[' :: _ => some .list
    | 'V' :: '[' :: _ => some .vector
    | 'S' :: '[' :: _ => some .string
    | 'O' :: '[' :: _ => some .octets
    | _ => none
  match k with
  | none => none
  | some k => (parseElems (cs.length + 1) (cs.drop 2)).map (fun (os, r) => (⟨k, os⟩, r))

def parseSeq (s : String) : Option Seq :=
  match parseSeqChars s.toList with
  | some (q, []) => some q
  | _ => none

def parseSeqs (s : String) : Option (List Seq) := (s.splitOn ";").mapM parseSeq

def showObj : Obj → String
  | .nil => "n"
  | .t => "t"
  | .int i => s!"i{i}"
  | .sym s => "y" ++ hexString s
  | .chr c => s!"c{c}"
  | .cons a d => "(" ++ showObj a ++ "." ++ showObj d ++ ")"

def showSeq (s : Seq) : String :=
  let tag := match s.kind with
    | .list => "L"
    | .vector => "V"
    | .string => "S"
    | .octets => "O"
  tag ++ "[" ++ ",".intercalate (s.elems.map showObj) ++ "]"

def parseFn (s : String) : Option Fn :=
  match s.splitOn ":" with
  | ["car"] => some .car
  | ["cdr"] => some .cdr
  | ["char-code"] => some .charCode
  | ["1+"] => some .succ
  | ["neg"] => some .neg
  | ["mod2"] => some .mod2
  | ["upcase"] => some .upcase
  | ["evenp"] => some .evenp
  | ["oddp"] => some .oddp
  | ["plusp"] => some .plusp
  | ["null"] => some .null
  | ["consp"] => some .consp
  | ["eqto", o] => (parseObjStr o).map .eqTo
  | ["ltthan", n] => n.toInt?.map .ltThan
  | ["eq"] => some .eq
  | ["eql"] => some .eql
  | ["equal"] => some .equal
  | ["<"] => some .lt
  | ["<="] => some .le
  | [">"] => some .gt
  | [">="] => some .ge
  | ["="] => some .numEq
  | ["char="] => some .charEq
  | ["char<"] => some .charLt
  | ["sameparity"] => some .sameParity
  | ["dir10"] => some .dir10
  | ["+"] => some .add
  | ["-"] => some .sub
  | ["cons"] => some .cons
  | ["list"] => some .list
  | ["max"] => some .max
  | ["seqcount", o] => (parseObjStr o).map .seqCount
  | ["seqfind", o] => (parseObjStr o).map .seqFind
  | ["seqposition", o] => (parseObjStr o).map .seqPosition
  | ["seqremove", o] => (parseObjStr o).map .seqRemove
  | ["seqmember", o] => (parseObjStr o).map .seqMember
  | ["seqdedup"] => some .seqDedup
  | ["seqreverse"] => some .seqReverse
  | ["seqlength"] => some .seqLength
  | ["seqsum"] => some .seqSum
  | ["seqmin"] => some .seqMin
  | ["seqsubsetp"] => some .seqSubsetp
  | ["seqsearch"] => some .seqSearch
  | ["seqsameset"] => some .seqSameSet
  | ["seqsamecount", o] => (parseObjStr o).map .seqSameCount
  | ["seqshorter"] => some .seqShorter
  | _ => none

def parseKind (s : String) : Option Kind :=
  match s with
  | "list" => some .list
  | "vector" => some .vector
  | "string" => some .string
  | "octets" => some .octets
  | _ => none

/-! ### request fields -/

abbrev Fields := List (String × String)

def parseFields (args : List String) : Option Fields :=
  args.mapM (fun a =>
    match a.splitOn "=" with
    | k :: v :: rest => some (k, "=".intercalate (v :: rest))
    | _ => none)

def Fields.get (fs : Fields) (k : String) : Option String := (fs.find? (·.1 == k)).map (·.2)

/-- `R` = result of request processing: `Except String` where the error is the reply line -/
abbrev R := Except String

def need {α} (what : String) : Option α → R α
  | some a => .ok a
  | none => .error ("bad-request " ++ what)

def optField {α} (fs : Fields) (k : String) (parse : String → Option α) : R (Option α) :=
  match fs.get k with
  | none => .ok none
  | some v => (need k (parse v)).map some

def reqField {α} (fs : Fields) (k : String) (parse : String → Option α) : R α :=
  match fs.get k with
  | none => .error ("bad-request missing-" ++ k)
  | some v => need k (parse v)

def natField (fs : Fields) (k : String) : R (Option Nat) := optField fs k String.toNat?

def boolField (fs : Fields) (k : String) : R Bool :=
  match fs.get k with
  | none => .ok false
  | some "t" => .ok true
  | some "n" => .ok false
  | _ => .error ("bad-request " ++ k)

def illTyped {α} : R α := .error "bad-request ill-typed"

/-! functions with explicit domains: `none` = the application is outside the domain -/
abbrev F1 := Obj → Option Obj
abbrev F2 := Obj → Obj → Option Obj
abbrev FN := List Obj → Option Obj

def tot1 (f : F1) (x : Obj) : Obj :=
  match f x with
  | some v => v
  | none => .nil

def totKey (f : Option F1) (x : Obj) : Obj :=
  match f with
  | none => x
  | some f => tot1 f x

def tot2b (f : F2) (a b : Obj) : Bool :=
  match f a b with
  | some v => truthy v
  | none => false

def totN (f : FN) (xs : List Obj) : Obj :=
  match f xs with
  | some v => v
  | none => .nil

def fn1 (f : Fn) : F1 := fun x => f.call [x]
def fn2 (f : Fn) : F2 := fun a b => f.call [a, b]
def fnN (f : Fn) : FN := fun xs => f.call xs

/-- overrides: the user function of one role and the sequence(s), used when the call re-enters itself -/
structure Ov where
  key : Option F1 := none
  pred : Option F1 := none
  test : Option F2 := none
  fn : Option FN := none
  seq : Option Seq := none
  seq2 : Option Seq := none

/-- every application the evaluation may perform must be inside the function's domain -/
def domKeys (key : Option F1) (l : List Obj) : R (List Obj) :=
  match key with
  | none => .ok l
  | some k => match l.mapM k with
    | some ks => .ok ks
    | none => illTyped

def domAll (xs : List (Option Obj)) : R Unit := if xs.all Option.isSome then .ok () else illTyped

structure KwIn where
  kw : Kw
  key : Option F1
  test : Option F2      -- the function given as :test or :test-not

def getSeq (ov : Ov) (fs : Fields) : R Seq :=
  match ov.seq with
  | some s => .ok s
  | none => reqField fs "seq" parseSeq

def getSeq2 (ov : Ov) (fs : Fields) : R Seq :=
  match ov.seq2 with
  | some s => .ok s
  | none => reqField fs "seq2" parseSeq

def getKey (ov : Ov) (fs : Fields) : R (Option F1) :=
  match ov.key with
  | some k => .ok (some k)
  | none => do
    let k ← optField fs "key" parseFn
    pure (k.map fn1)

/-- read start end key test testnot count fromend -/
def readKw (ov : Ov) (fs : Fields) (negateFn : Bool := false) : R KwIn := do
  let start ← natField fs "start"
  let stop ← natField fs "end"
  let key ← getKey ov fs
  let test ← optField fs "test" parseFn
  let testnot ← optField fs "testnot" parseFn
  let count ← optField fs "count" String.toInt?
  let fromEnd ← boolField fs "fromend"
  if test.isSome && testnot.isSome then .error "bad-request test-and-testnot" else
  let tf : Option F2 := match ov.test, test, testnot with
    | some f, _, _ => some f
    | none, some f, _ => some (fn2 f)
    | none, none, some f => some (fn2 f)
    | none, none, none => none
  let kw : Kw := {
    start := start.getD 0, stop := stop,
    key := totKey key,
    test := match tf with
      | some f => tot2b f
      | none => fun a b => decide (a = b),
    negate := testnot.isSome != negateFn,
    count := count, fromEnd := fromEnd }
  pure ⟨kw, key, tf⟩

inductive Reply where
  | obj (o : Obj)
  | seq (s : Seq)
  | err (e : Err)
  | objT (o : Obj) (calls : List (List Obj))     -- with the calls the user function observed (trace=t)
  | seqT (s : Seq) (calls : List (List Obj))

def showErr : Err → String
  | .bounds => "err bounds"
  | .type => "err type"
  | .arg => "err arg"

def showCalls (calls : List (List Obj)) : String :=
  " |" ++ "/".intercalate (calls.map (fun c => ",".intercalate (c.map showObj)))

def Reply.show : Reply → String
  | .obj o => "ok " ++ showObj o
  | .seq s => "ok " ++ showSeq s
  | .err e => showErr e
  | .objT o calls => "ok " ++ showObj o ++ showCalls calls
  | .seqT s calls => "ok " ++ showSeq s ++ showCalls calls

/-- attach the observed calls when the request asks for them (`trace=t`) -/
def withTrace (traced : Bool) (calls : List (List Obj)) : Reply → Reply
  | .obj o => if traced then .objT o calls else .obj o
  | .seq s => if traced then .seqT s calls else .seq s
  | r => r

def exObj : Except Err Obj → Reply
  | .ok o => .obj o
  | .error e => .err e

def exSeq : Except Err Seq → Reply
  | .ok s => .seq s
  | .error e => .err e

/-- the value a nested call hands back to the user function that made it -/
def replyObj : R Reply → Option Obj
  | .ok (.obj o) => some o
  | .ok (.seq s) => some (Obj.ofList s.elems)
  | _ => none

/-- the target (item or predicate) of a find-like call with its domain check over the sequence -/
def readTarget (ov : Ov) (fs : Fields) (mode : String) (k : KwIn) (elems : List Obj) : R Target := do
  let keys ← domKeys k.key elems
  if mode == "item" then
    let item ← reqField fs "item" parseObjStr
    match k.test with
    | some f => domAll (keys.map (fun y => f item y))
    | none => pure ()
    pure (.item item)
  else
    let p : F1 ← match ov.pred with
      | some p => pure p
      | none => do
        let f ← reqField fs "pred" parseFn
        pure (fn1 f)
    domAll (keys.map p)
    pure (.pred (fun x => truthy (tot1 p x)))

/-- all pairs of keys must be comparable by the test -/
def domPairs (test : Option F2) (ks1 ks2 : List Obj) : R Unit :=
  match test with
  | none => .ok ()
  | some f => domAll (ks1.flatMap (fun a => ks2.flatMap (fun b => [f a b, f b a])))

def splitMode (name : String) : String × String :=
  if name.endsWith "-if-not" then ((name.dropEnd 7).toString, "ifnot")
  else if name.endsWith "-if" then ((name.dropEnd 3).toString, "if")
  else (name, "item")

def seqListOnly (s : Seq) : R (List Obj) :=
  if s.kind = .list then .ok s.elems else .error "bad-request list-only"

/-- n-ary function over argument tuples, with domain check on every tuple -/
def readTupleFn (ov : Ov) (fs : Fields) (seqs : List (List Obj)) : R (List Obj → Obj) := do
  let f : FN ← match ov.fn with
    | some f => pure f
    | none => do
      let f ← reqField fs "fn" parseFn
      pure (fnN f)
  domAll ((tuples seqs).map f)
  pure (totN f)

def run (ov : Ov) (name : String) (fs : Fields) : R Reply := do
  let (base, mode) := splitMode name
  match base with
  | "find" | "position" | "count" | "remove" | "delete" | "substitute" | "nsubstitute" =>
    let s ← getSeq ov fs
    let k ← readKw ov fs (mode == "ifnot")
    let tg ← readTarget ov fs mode k s.elems
    match base with
    | "find" => pure (exObj (findS k.kw tg s))
    | "position" => pure (exObj (positionS k.kw tg s))
    | "count" => pure (exObj (countS k.kw tg s))
    | "remove" | "delete" => pure (exSeq (removeS k.kw tg s))
    | _ =>
      let new ← reqField fs "new" parseObjStr
      pure (exSeq (substituteS new k.kw tg s))
  | "member" | "assoc" | "rassoc" =>
    let s ← getSeq ov fs
    let l ← seqListOnly s
    let k ← readKw ov fs (mode == "ifnot")
    let proj : List Obj := match base with
      | "assoc" => l.filterMap (fun e => match e with
          | .cons a _ => some a
          | _ => none)
      | "rassoc" => l.filterMap (fun e => match e with
          | .cons _ d => some d
          | _ => none)
      | _ => l
    if base != "member" && !(l.all (fun e => e = .nil || !atomic e)) then illTyped else
    let tg ← readTarget ov fs mode k proj
    match base with
    | "member" => pure (.obj (Obj.ofList (member (k.kw.matcher tg) l)))
    | "assoc" => pure (.obj (optObj (assoc (k.kw.matcher tg) l)))
    | _ => pure (.obj (optObj (rassoc (k.kw.matcher tg) l)))
  | _ => runRest ov name fs
where
  runRest (ov : Ov) (name : String) (fs : Fields) : R Reply := do
  match name with
  | "remove-duplicates" | "delete-duplicates" =>
    let s ← getSeq ov fs
    let k ← readKw ov fs
    let keys ← domKeys k.key s.elems
    domPairs k.test keys keys
    pure (exSeq (removeDuplicatesS k.kw s))
  | "search" | "mismatch" =>
    let s1 ← getSeq ov fs
    let s2 ← getSeq2 ov fs
    let k ← readKw ov fs
    let k1 ← domKeys k.key s1.elems
    let k2 ← domKeys k.key s2.elems
    domPairs k.test k1 k2
    let a1 ← natField fs "start1"
    let b1 ← natField fs "end1"
    let a2 ← natField fs "start2"
    let b2 ← natField fs "end2"
    if name == "search" then pure (exObj (searchS k.kw (a1.getD 0) b1 (a2.getD 0) b2 s1 s2))
    else pure (exObj (mismatchS k.kw (a1.getD 0) b1 (a2.getD 0) b2 s1 s2))
  | "subseq" =>
    let s ← getSeq ov fs
    let a ← natField fs "start"
    let b ← natField fs "end"
    pure (exSeq (subseqS (a.getD 0) b s))
  | "fill" =>
    let s ← getSeq ov fs
    let item ← reqField fs "item" parseObjStr
    let a ← natField fs "start"
    let b ← natField fs "end"
    pure (exSeq (fillS item (a.getD 0) b s))
  | "replace" =>
    let s1 ← getSeq ov fs
    let s2 ← getSeq2 ov fs
    let a1 ← natField fs "start1"
    let b1 ← natField fs "end1"
    let a2 ← natField fs "start2"
    let b2 ← natField fs "end2"
    pure (exSeq (replaceS (a1.getD 0) b1 (a2.getD 0) b2 s1 s2))
  | "reverse" | "nreverse" =>
    let s ← getSeq ov fs
    pure (exSeq (reverseS s))
  | "sort" | "stable-sort" | "sort-check" =>
    let s ← getSeq ov fs
    let pred ← reqField fs "pred" parseFn
    let key ← getKey ov fs
    let keys ← domKeys key s.elems
    domPairs (some (fn2 pred)) keys keys
    if name == "sort-check" then
      let r ← reqField fs "result" parseSeq
      pure (.obj (ofBool (decide (r.kind = s.kind) && sortOk pred.test2 (totKey key) s.elems r.elems)))
    else pure (exSeq (stableSortS pred.test2 (totKey key) s))
  | "merge" =>
    let s1 ← getSeq ov fs
    let s2 ← getSeq2 ov fs
    let rt ← reqField fs "rtype" parseKind
    let pred ← reqField fs "pred" parseFn
    let key ← getKey ov fs
    let k1 ← domKeys key s1.elems
    let k2 ← domKeys key s2.elems
    domPairs (some (fn2 pred)) k1 k2
    pure (exSeq (mergeS rt pred.test2 (totKey key) s1 s2))
  | "union" | "intersection" | "set-difference" | "subsetp" | "union-check" | "intersection-check"
  | "set-difference-check" =>
    let s1 ← getSeq ov fs
    let s2 ← getSeq2 ov fs
    let l1 ← seqListOnly s1
    let l2 ← seqListOnly s2
    let k ← readKw ov fs
    let k1 ← domKeys k.key l1
    let k2 ← domKeys k.key l2
    domPairs k.test (k1 ++ k2) (k1 ++ k2)
    match name with
    | "union" => pure (.seq ⟨.list, union k.kw.eqv l1 l2⟩)
    | "intersection" => pure (.seq ⟨.list, intersection k.kw.eqv l1 l2⟩)
    | "set-difference" => pure (.seq ⟨.list, setDifference k.kw.eqv l1 l2⟩)
    | "subsetp" => pure (.obj (ofBool (subsetp k.kw.eqv l1 l2)))
    | _ =>
      let r ← reqField fs "result" parseSeq
      let rl ← seqListOnly r
      match name with
      | "union-check" => pure (.obj (ofBool (unionOk k.kw.eqv l1 l2 rl && unionTight k.kw.eqv l1 l2 rl)))
      | "intersection-check" => pure (.obj (ofBool (intersectionOk k.kw.eqv l1 l2 rl)))
      | _ => pure (.obj (ofBool (setDifferenceOk k.kw.eqv l1 l2 rl)))
  | "every" | "some" | "notany" | "notevery" | "mapcar" | "map" =>
    let ss ← match ov.seq with
      | some s => pure [s]
      | none => reqField fs "seqs" parseSeqs
    let ls := ss.map Seq.toList
    let f ← readTupleFn ov fs ls
    let traced ← boolField fs "trace"
    match name with
    | "every" => pure (withTrace traced (everyTrace f ls) (.obj (every f ls)))
    | "some" => pure (withTrace traced (someTrace f ls) (.obj (some' f ls)))
    | "notany" => pure (withTrace traced (someTrace f ls) (.obj (notany f ls)))
    | "notevery" => pure (withTrace traced (everyTrace f ls) (.obj (notevery f ls)))
    | "mapcar" =>
      if ss.all (fun s => s.kind = .list) then pure (withTrace traced (mapTrace ls) (.seq ⟨.list, mapcar f ls⟩))
      else .error "bad-request list-only"
    | _ =>
      match fs.get "rtype" with
      | some "nil" => pure (withTrace traced (mapTrace ls) (.obj .nil))
      | _ =>
        let rt ← reqField fs "rtype" parseKind
        pure (withTrace traced (mapTrace ls) (exSeq (mapS rt f ss)))
  | "concatenate" =>
    let ss ← reqField fs "seqs" parseSeqs
    let rt ← reqField fs "rtype" parseKind
    pure (exSeq (concatenateS rt ss))
  | "reduce" =>
    let s ← getSeq ov fs
    let f ← reqField fs "fn" parseFn
    let key ← getKey ov fs
    let init ← optField fs "init" parseObjStr
    let fromEnd ← boolField fs "fromend"
    let a ← natField fs "start"
    let b ← natField fs "end"
    match bounds (a.getD 0) b s.elems.length with
    | .error e => pure (.err e)
    | .ok (a', b') =>
      let ks ← domKeys key (mid a' b' s.elems)
      -- domain: run the fold with Option
      let step (acc : Option Obj) (x : Obj) (flip : Bool) : Option Obj :=
        acc.bind (fun v => if flip then f.call [x, v] else f.call [v, x])
      let res : Option Obj :=
        match fromEnd, init with
        | false, some z => ks.foldl (fun acc x => step acc x false) (some z)
        | true, some z => ks.reverse.foldl (fun acc x => step acc x true) (some z)
        | false, none => match ks with
          | [] => f.call []
          | x :: r => r.foldl (fun acc y => step acc y false) (some x)
        | true, none => match ks.reverse with
          | [] => f.call []
          | x :: r => r.foldl (fun acc y => step acc y true) (some x)
      match res with
      | none => illTyped
      | some _ =>
        let traced ← boolField fs "trace"
        pure (withTrace traced (reduceTrace (fun x y => f.app [x, y]) init fromEnd ks)
          (exObj (reduceS (fun x y => f.app [x, y]) (f.app []) (totKey key) init fromEnd (a.getD 0) b s)))
  | _ => .error "bad-request function"

/-- nesting depth the recursion of a self-calling user function may reach (the harness generates
    data of depth ≤ 3) -/
def selfFuel : Nat := 6

/-- `self=<role>`: the user function of that role re-enters the call itself on nested lists -/
def runSelf (name : String) (fs : Fields) : R Reply :=
  match fs.get "self" with
  | none => run {} name fs
  | some role => do
    let base ← optField fs "base" parseFn
    -- the user function re-enters the call itself, not the relation checker applied to its result
    let inner := if name.endsWith "-check" then (name.dropEnd 6).toString else name
    match role with
    | "key" =>
      let b : F1 := match base with
        | some f => fn1 f
        | none => fun x => some x
      let F : F1 → List Obj → Option Obj := fun g l =>
        replyObj (run { key := some g, seq := some ⟨.list, l⟩ } inner fs)
      run { key := some (selfApply F b selfFuel) } name fs
    | "pred" =>
      let f ← need "base" base
      let F : F1 → List Obj → Option Obj := fun g l =>
        replyObj (run { pred := some g, seq := some ⟨.list, l⟩ } inner fs)
      run { pred := some (selfApply F (fn1 f) selfFuel) } name fs
    | "fn" =>
      let f ← need "base" base
      let one (g : F1) : FN := fun xs => match xs with
        | [x] => g x
        | _ => none
      let F : F1 → List Obj → Option Obj := fun g l =>
        replyObj (run { fn := some (one g), seq := some ⟨.list, l⟩ } inner fs)
      run { fn := some (one (selfApply F (fn1 f) selfFuel)) } name fs
    | "test" =>
      let b : F2 := match base with
        | some f => fn2 f
        | none => fn2 .equal
      let F : F2 → List Obj → List Obj → Option Obj := fun g la lb =>
        replyObj (run { test := some g, seq := some ⟨.list, la⟩, seq2 := some ⟨.list, lb⟩ } inner fs)
      run { test := some (selfApply2 F b selfFuel) } name fs
    | "test1" =>
      let F : F2 → List Obj → Option Obj := fun g l =>
        replyObj (run { test := some g, seq := some ⟨.list, l⟩ } inner fs)
      run { test := some (selfApplyT F selfFuel) } name fs
    | _ => .error "bad-request self"

def handle (entry : String) (args : List String) : String :=
  match parseFields args with
  | none => "bad-request fields"
  | some fs =>
    match runSelf entry fs with
    | .ok r => r.show
    | .error s => s

end SlipVerif.Driver.Seq
