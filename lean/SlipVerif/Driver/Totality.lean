import SlipVerif.Model.Totality
import SlipVerif.Model.ReaderStack
import SlipVerif.Gen.C09Reader
import SlipVerif.Gen.C09Sharp
import SlipVerif.Gen.C09Format
import SlipVerif.Driver.Util
--! namespace: tot
/- line protocol for C09:
     tot reader <hex bytes>            -> ok must-raise <pos> | ok may-pass <n states> | err fault <pos>
     tot format <hex control string>   -> ok none | ok raise | ok directive <byte> | ok finished | err <outcome>
                                          (the scanner is run on the text after the first `~`)
     tot group <digits> <commaint> <hex comma>  -> ok <hex expanded text>
     tot tables                        -> ok reader=<ReaderOK> format=<FormatOK>
     tot blocksize                     -> ok <readBlockSize of code.go>
     tot stack <ops>                   -> ok forms <n> | ok partial <depth> | ok raise unmatched|comma <op index> | err fault <op index>
                                          ops: ( list  [ vector  ) close  ' quote  F #'  ` backquote  , comma  @ comma-at
                                               v value (string, character …)  n token t/nil  a other token
     tot sharp <decimal digits> A|R    -> ok plain | ok raise | ok alloc <n> | ok radix <b> | err fault
     tot cursor <len> <ops>            -> ok done <indices joined by .|-> <pos> | ok raise <op index> | err fault <op index>
                                          ops (comma separated): a next argument, s<n> ~n*, b<n> ~n:*, g<n> ~n@*  (n a decimal integer)
     tot sharpconsts                   -> ok <SharpOK> guard=<n> maxRank=<n> radix=<lo>..<hi>
   The tables are the ones regenerated from the sources (Gen/C09Reader, Gen/C09Format). -/
namespace SlipVerif.Driver.Totality
open SlipVerif.Totality SlipVerif.Driver

def readerTables : ReaderTables :=
  { tables := SlipVerif.Gen.C09Reader.tables
    handled := SlipVerif.Gen.C09Reader.handled
    retry := SlipVerif.Gen.C09Reader.retry
    targets := SlipVerif.Gen.C09Reader.targets
    uncond := SlipVerif.Gen.C09Reader.uncond
    nextAssign := SlipVerif.Gen.C09Reader.nextAssign
    initial := SlipVerif.Gen.C09Reader.initial
    defaultRaises := SlipVerif.Gen.C09Reader.defaultRaises }

def formatTables : FormatTables :=
  { scanMap := SlipVerif.Gen.C09Format.dirScanMap
    directives := SlipVerif.Gen.C09Format.directives
    continues := SlipVerif.Gen.C09Format.continues
    params := SlipVerif.Gen.C09Format.params
    stepBack := SlipVerif.Gen.C09Format.stepBack
    quotes := SlipVerif.Gen.C09Format.quotes
    defaultRaises := SlipVerif.Gen.C09Format.defaultRaises }

def sharpConsts : SlipVerif.ReaderStack.SharpConsts :=
  { maxInt := SlipVerif.Gen.C09Sharp.maxInt
    guard := SlipVerif.Gen.C09Sharp.guard
    maxRank := SlipVerif.Gen.C09Sharp.maxRank
    radixLo := SlipVerif.Gen.C09Sharp.radixLo
    radixHi := SlipVerif.Gen.C09Sharp.radixHi }

def opOfChar? : Char → Option SlipVerif.ReaderStack.Op
  | '(' => some .openList
  | '[' => some .openVec
  | ')' => some .close
  | '\'' => some (.mark .quote)
  | 'F' => some (.mark .sharpQuote)
  | '`' => some (.mark .backquote)
  | ',' => some .comma
  | '@' => some .commaAt
  | 'v' => some .value
  | 'n' => some .tokenTN
  | 'a' => some .token
  | _ => none

def opsOf? : List Char → Option (List SlipVerif.ReaderStack.Op)
  | [] => some []
  | c :: cs =>
    match opOfChar? c, opsOf? cs with
    | some o, some os => some (o :: os)
    | _, _ => none

def digitsOf? : List Char → Option (List Nat)
  | [] => some []
  | c :: cs =>
    if '0' ≤ c ∧ c ≤ '9' then (digitsOf? cs).map (fun ds => (c.toNat - 48) :: ds) else none

def cursorGuards : SlipVerif.ReaderStack.CursorGuards :=
  { checksLow := SlipVerif.Gen.C09Format.argIndexLowChecked == SlipVerif.Gen.C09Format.argIndexSites
    checksHigh := SlipVerif.Gen.C09Format.argIndexHighChecked == SlipVerif.Gen.C09Format.argIndexSites }

def curOpOf? (t : String) : Option SlipVerif.ReaderStack.CurOp :=
  if t = "a" then some .next
  else match t.toList with
    | 's' :: r => (String.ofList r).toInt?.map (fun n => .move false false n)
    | 'b' :: r => (String.ofList r).toInt?.map (fun n => .move true false n)
    | 'g' :: r => (String.ofList r).toInt?.map (fun n => .move false true n)
    | _ => none

def curOpsOf? : List String → Option (List SlipVerif.ReaderStack.CurOp)
  | [] => some []
  | t :: ts =>
    match curOpOf? t, curOpsOf? ts with
    | some o, some os => some (o :: os)
    | _, _ => none

def afterTilde : List Nat → Option (List Nat)
  | [] => none
  | b :: rest => if b = 126 then some rest else afterTilde rest

def handle (entry : String) (args : List String) : String :=
  match entry, args with
  | "reader", [h] =>
    match unhexBytes? h with
    | none => "bad-request hex"
    | some bs =>
      match run readerTables (bs.map (·.toNat)) with
      | .mustRaise pos => s!"ok must-raise {pos}"
      | .mayPass sts => s!"ok may-pass {sts.length}"
      | .fault pos => s!"err fault {pos}"
  | "format", [h] =>
    match unhexBytes? h with
    | none => "bad-request hex"
    | some bs =>
      match afterTilde (bs.map (·.toNat)) with
      | none => "ok none"
      | some rest =>
        match scanDirective formatTables rest with
        | .directive b _ => s!"ok directive {b}"
        | .raise => "ok raise"
        | .finished => "ok finished"
        | .outOfFuel => "err out-of-fuel"
        | .indexFault => "err index-fault"
        | .unmodelled => "ok unmodelled"
  | "group", [digits, commaint, hcomma] =>
    match commaint.toNat?, unhexString? hcomma with
    | some c, some comma =>
      let out := digits.toList
      let signLen := match out with
        | '-' :: _ => 1
        | '+' :: _ => 1
        | _ => 0
      if c = 0 ∨ out.length < 1 + signLen then "bad-request group"
      else "ok " ++ hexString (String.ofList (groupText out signLen c comma.toList))
    | _, _ => "bad-request group"
  | "stack", [ops] =>
    match opsOf? (if ops = "-" then [] else ops.toList) with
    | none => "bad-request ops"
    | some os =>
      match SlipVerif.ReaderStack.run os with
      | .forms n => s!"ok forms {n}"
      | .partialDepth d => s!"ok partial {d}"
      | .raise .unmatched i => s!"ok raise unmatched {i}"
      | .raise .commaOutside i => s!"ok raise comma {i}"
      | .fault i => s!"err fault {i}"
  | "sharp", [digits, kind] =>
    match digitsOf? digits.toList, kind with
    | some ds, "A" | some ds, "R" =>
      if ds.isEmpty then "bad-request digits"
      else match SlipVerif.ReaderStack.sharpDispatch sharpConsts ds (kind == "A") with
        | .plain => "ok plain"
        | .raise => "ok raise"
        | .alloc n => s!"ok alloc {n}"
        | .radix b => s!"ok radix {b}"
        | .fault => "err fault"
    | _, _ => "bad-request sharp"
  | "cursor", [len, ops] =>
    match len.toNat?, curOpsOf? (ops.splitOn ",") with
    | some n, some os =>
      match SlipVerif.ReaderStack.runCursor cursorGuards n 0 0 [] os with
      | .done taken pos =>
        let t := if taken.isEmpty then "-" else ".".intercalate (taken.map toString)
        s!"ok done {t} {pos}"
      | .raise i => s!"ok raise {i}"
      | .fault i => s!"err fault {i}"
    | _, _ => "bad-request cursor"
  | "sharpconsts", [] =>
    s!"ok {SlipVerif.ReaderStack.SharpOK sharpConsts} guard={sharpConsts.guard} maxRank={sharpConsts.maxRank} radix={sharpConsts.radixLo}..{sharpConsts.radixHi}"
  | "blocksize", [] => s!"ok {SlipVerif.Gen.C09Reader.readBlockSize}"
  | "tables", [] => s!"ok reader={ReaderOK readerTables} format={FormatOK formatTables}"
  | _, _ => "bad-request entry"

end SlipVerif.Driver.Totality
