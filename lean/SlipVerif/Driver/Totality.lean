import SlipVerif.Model.Totality
import SlipVerif.Gen.C09Reader
import SlipVerif.Gen.C09Format
import SlipVerif.Driver.Util
--! namespace: tot
/- line protocol for C09:
     tot reader <hex bytes>            -> ok must-raise <pos> | ok may-pass <n states> | err fault <pos>
     tot format <hex control string>   -> ok none | ok raise | ok directive <byte> | ok finished | err <outcome>
                                          (the scanner is run on the text after the first `~`)
     tot group <digits> <commaint> <hex comma>  -> ok <hex expanded text>
     tot tables                        -> ok reader=<ReaderOK> format=<FormatOK>
     tot blocksize                     -> ok <readBlockSize of code.go>
   The tables are the ones regenerated from the sources (Gen/C09Reader, Gen/C09Format). -/
namespace SlipVerif.Driver.Totality
open SlipVerif.Totality SlipVerif.Driver

def readerTables : ReaderTables :=
  { tables := SlipVerif.Gen.C09Reader.tables
    handled := SlipVerif.Gen.C09Reader.handled
    retry := SlipVerif.Gen.C09Reader.retry
    targets := SlipVerif.Gen.C09Reader.targets
    uncond := SlipVerif.Gen.C09Reader.uncond
    nextAssign := SlipVerif.Gen.C09Reader.nextAssign
    initial := SlipVerif.Gen.C09Reader.initial
    defaultRaises := SlipVerif.Gen.C09Reader.defaultRaises }

def formatTables : FormatTables :=
  { scanMap := SlipVerif.Gen.C09Format.dirScanMap
    directives := SlipVerif.Gen.C09Format.directives
    continues := SlipVerif.Gen.C09Format.continues
    params := SlipVerif.Gen.C09Format.params
    stepBack := SlipVerif.Gen.C09Format.stepBack
    quotes := SlipVerif.Gen.C09Format.quotes
    defaultRaises := SlipVerif.Gen.C09Format.defaultRaises }

def afterTilde : List Nat → Option (List Nat)
  | [] => none
  | b :: rest => if b = 126 then some rest else afterTilde rest

def handle (entry : String) (args : List String) : String :=
  match entry, args with
  | "reader", [h] =>
    match unhexBytes? h with
    | none => "bad-request hex"
    | some bs =>
      match run readerTables (bs.map (·.toNat)) with
      | .mustRaise pos => s!"ok must-raise {pos}"
      | .mayPass sts => s!"ok may-pass {sts.length}"
      | .fault pos => s!"err fault {pos}"
  | "format", [h] =>
    match unhexBytes? h with
    | none => "bad-request hex"
    | some bs =>
      match afterTilde (bs.map (·.toNat)) with
      | none => "ok none"
      | some rest =>
        match scanDirective formatTables rest with
        | .directive b _ => s!"ok directive {b}"
        | .raise => "ok raise"
        | .finished => "ok finished"
        | .outOfFuel => "err out-of-fuel"
        | .indexFault => "err index-fault"
        | .unmodelled => "ok unmodelled"
  | "group", [digits, commaint, hcomma] =>
    match commaint.toNat?, unhexString? hcomma with
    | some c, some comma =>
      let out := digits.toList
      let signLen := match out with
        | '-' :: _ => 1
        | '+' :: _ => 1
        | _ => 0
      if c = 0 ∨ out.length < 1 + signLen then "bad-request group"
      else "ok " ++ hexString (String.ofList (groupText out signLen c comma.toList))
    | _, _ => "bad-request group"
  | "blocksize", [] => s!"ok {SlipVerif.Gen.C09Reader.readBlockSize}"
  | "tables", [] => s!"ok reader={ReaderOK readerTables} format={FormatOK formatTables}"
  | _, _ => "bad-request entry"

end SlipVerif.Driver.Totality
