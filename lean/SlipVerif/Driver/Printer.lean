import SlipVerif.Model.Printer
import SlipVerif.Model.PrinterPretty
import SlipVerif.Model.Wire6
import SlipVerif.Driver.Util
--! namespace: print
/- line protocol for C03:
     print flat <base>:<radix>:<case>:<readably>:<array> <term word>*   →  ok <hex utf-8 text>
     print pretty <cfg> <margin> <term word>*                            →  ok <hex utf-8 text>
     print frame <payload length>                                        →  ok <6 header characters>
     print read <read-base> <hex utf-8 text>                             →  ok <term word>* | err <class>
   term words:  n | t | i:<dec> | r:<num>/<den> | s:<hex> | y:<hex> | c:<codepoint>
              | f:<s|d|l>:<0|1 negative>:<decimal digits or ->:<exponent>
              | ( <term>* [. <term>] ) | v( <term>* ) | a:<rank> <term>          -/
namespace SlipVerif.Driver.Printer
open SlipVerif.Printer SlipVerif.Driver

def parseCfg (s : String) : Option PCfg :=
  match s.splitOn ":" with
  | [b, r, c, rd, a] => do
    let base ← b.toNat?
    let cs ← match c with
      | "d" => some Case.down | "u" => some Case.up | "c" => some Case.cap | "n" => some Case.none
      | _ => none
    if base < 2 ∨ 36 < base then none
    else some { base := base, radix := r == "1", case := cs, readably := rd == "1", array := a == "1" }
  | _ => none

def mkList (elems : List Obj) (tl : Obj) : Obj := mkDotted elems tl

mutual
  /-- one term from the front of the word list -/
  def parseTerm : Nat → List String → Option (Obj × List String)
    | 0, _ => none
    | _ + 1, [] => none
    | fuel + 1, w :: ws =>
      if w == "n" then some (.nil, ws)
      else if w == "t" then some (.t, ws)
      else if w == "(" then parseSeq fuel ws []
      else if w == "v(" then
        match parseSeq fuel ws [] with
        | some (l, rest) => some (.vec l, rest)
        | none => none
      else
        match w.splitOn ":" with
        | ["i", v] => v.toInt?.map (fun n => (.int n, ws))
        | ["r", v] =>
          match v.splitOn "/" with
          | [n, d] => do
            let n ← n.toInt?
            let d ← d.toNat?
            some (.ratio n d, ws)
          | _ => none
        | ["s", h] => (unhexString? h).map (fun s => (.str s.toList, ws))
        | ["y", h] => (unhexString? h).map (fun s => (.sym s.toList, ws))
        | ["c", v] => do
          let n ← v.toNat?
          if n.isValidChar then some (.chr (Char.ofNat n), ws) else none
        | ["f", k, ng, ds, e] => do
          let fmt ← match k with
            | "s" => some FFmt.single | "d" => some FFmt.double | "l" => some FFmt.long
            | _ => none
          let ex ← e.toInt?
          let digits := if ds == "-" then [] else ds.toList.map (fun c => c.toNat - 48)
          if digits.all (· < 10) then some (.flt fmt (ng == "1") digits ex, ws) else none
        | ["a", v] => do
          let rank ← v.toNat?
          let (contents, rest) ← parseTerm fuel ws
          some (.arr rank contents, rest)
        | _ => none
  /-- elements up to `)`, with an optional `. tail` -/
  def parseSeq : Nat → List String → List Obj → Option (Obj × List String)
    | 0, _, _ => none
    | _ + 1, [], _ => none
    | fuel + 1, w :: ws, acc =>
      if w == ")" then some (mkProper acc.reverse, ws)
      else if w == "." then
        match parseTerm fuel ws with
        | some (tl, ")" :: rest) => some (mkDotted acc.reverse tl, rest)
        | _ => none
      else
        match parseTerm fuel (w :: ws) with
        | some (o, rest) => parseSeq fuel rest (o :: acc)
        | none => none
end

def hexText (cs : List Char) : String := hexString (String.ofList cs)

def showFloat (f : FFmt) (neg : Bool) (ds : List Nat) (e : Int) : String :=
  let k := match f with
    | .single => "s" | .double => "d" | .long => "l"
  let digits := if ds.isEmpty then "-" else String.ofList (ds.map digitChar)
  s!"f:{k}:{if neg then "1" else "0"}:{digits}:{e}"

mutual
  def showTerm : Obj → List String
    | .nil => ["n"]
    | .t => ["t"]
    | .int n => [s!"i:{n}"]
    | .ratio n d => [s!"r:{n}/{d}"]
    | .str s => ["s:" ++ hexText s]
    | .chr c => [s!"c:{c.toNat}"]
    | .sym s => ["y:" ++ hexText s]
    | .flt f neg ds e => [showFloat f neg ds e]
    | .cons a d => "(" :: showTerm a ++ showTail d
    | .vec elems => "v(" :: showTail elems
    | .arr r c => s!"a:{r}" :: showTerm c
  def showTail : Obj → List String
    | .nil => [")"]
    | .cons a d => showTerm a ++ showTail d
    | .t => [".", "t", ")"]
    | .int n => [".", s!"i:{n}", ")"]
    | .ratio n d => [".", s!"r:{n}/{d}", ")"]
    | .str s => [".", "s:" ++ hexText s, ")"]
    | .chr c => [".", s!"c:{c.toNat}", ")"]
    | .sym s => [".", "y:" ++ hexText s, ")"]
    | .flt f neg ds e => [".", showFloat f neg ds e, ")"]
    | .vec elems => "." :: "v(" :: showTail elems ++ [")"]
    | .arr r c => "." :: s!"a:{r}" :: showTerm c ++ [")"]
end

def showErr : RErr → String
  | .eof => "eof" | .unexpected => "unexpected" | .closeParen => "close-paren" | .badEscape => "bad-escape"
  | .badChar => "bad-char" | .badNumber => "bad-number" | .float => "float" | .fuel => "fuel"

def handle (entry : String) (args : List String) : String :=
  match entry, args with
  | "flat", cfg :: term =>
    match parseCfg cfg, parseTerm (term.length + 1) term with
    | some cfg, some (o, []) => "ok " ++ hexText (printFlat cfg o)
    | none, _ => "bad-request config"
    | _, _ => "bad-request term"
  | "pretty", cfg :: m :: term =>
    match parseCfg cfg, m.toNat?, parseTerm (term.length + 1) term with
    | some cfg, some margin, some (o, []) => "ok " ++ hexText (printPretty cfg margin o)
    | none, _, _ => "bad-request config"
    | _, none, _ => "bad-request margin"
    | _, _, _ => "bad-request term"
  | "frame", [n] =>
    match n.toNat? with
    | some len => "ok " ++ String.ofList (SlipVerif.Wire6.frame (List.replicate len 0)).head
    | none => "bad-request frame"
  | "read", [rb, h] =>
    match rb.toNat?, unhexString? h with
    | some rbase, some text =>
      match readAll rbase text.toList with
      | .ok o => "ok " ++ " ".intercalate (showTerm o)
      | .error e => "err " ++ showErr e
    | _, _ => "bad-request read"
  | _, _ => "bad-request entry"

end SlipVerif.Driver.Printer
