import SlipVerif.Model.Num
import Mathlib.Tactic.Linarith
import Mathlib.Tactic.Ring
import Mathlib.Tactic.FieldSimp
import Mathlib.Data.Nat.Sqrt
import Mathlib.Data.Int.Bitwise
import Mathlib.Data.Rat.Floor
/-
  C05 — property theorems about SlipVerif.Model.Num (the model the correspondence harness runs
  against the implementation). Statements only concern the model; the tie to the code is the
  correspondence check (harness/cmd/vh/c05.go).
-/
namespace SlipVerif.Num

/-! ## canonical representation -/

/-- A value is reported as a fixnum exactly when it is an integer inside the int64 range. -/
theorem typeOf_fixnum_iff (r : Rat) :
    typeOf r = "fixnum" ↔ r.den = 1 ∧ minFix ≤ r.num ∧ r.num ≤ maxFix := by
  unfold typeOf isFix
  by_cases h : r.den = 1 <;> by_cases h1 : minFix ≤ r.num <;> by_cases h2 : r.num ≤ maxFix <;>
    simp [h, h1, h2]

theorem typeOf_ratio_iff (r : Rat) : typeOf r = "ratio" ↔ r.den ≠ 1 := by
  unfold typeOf
  by_cases h : r.den = 1
  · by_cases h1 : isFix r.num <;> simp [h, h1]
  · simp [h]

/-- the three representations partition the rationals -/
theorem typeOf_total (r : Rat) : typeOf r = "fixnum" ∨ typeOf r = "bignum" ∨ typeOf r = "ratio" := by
  unfold typeOf
  by_cases h : r.den = 1 <;> by_cases h1 : isFix r.num <;> simp [h, h1]

/-! ## the rounding divisions: `a = q*b + r` with the defining inequality on `a/b` -/

/-- every rounding division satisfies the remainder identity -/
theorem divBy_identity (rnd : Rat → Int) (a b : Rat) (q : Int) (r : Rat)
    (h : divBy rnd a b = .ok (q, r)) : a = (q : Rat) * b + r ∧ b ≠ 0 := by
  unfold divBy at h
  by_cases hb : b = 0
  · simp [hb] at h
  · simp only [hb, if_false] at h
    injection h with h
    injection h with h1 h2
    subst h1; subst h2
    exact ⟨by ring, hb⟩

/-- division by zero is rejected, never answered -/
theorem divBy_zero (rnd : Rat → Int) (a : Rat) : divBy rnd a 0 = .error .divZero := by
  simp [divBy]

theorem floor_spec (a b : Rat) (q : Int) (r : Rat) (h : floorDiv a b = .ok (q, r)) :
    (q : Rat) ≤ a / b ∧ a / b < (q : Rat) + 1 := by
  unfold floorDiv divBy at h
  by_cases hb : b = 0
  · simp [hb] at h
  · simp only [hb, if_false] at h
    injection h with h; injection h with h1 _
    subst h1
    refine ⟨Rat.floor_le _, ?_⟩
    have := Rat.lt_floor_add_one (a / b)
    push_cast at this; exact this

theorem ceiling_spec (a b : Rat) (q : Int) (r : Rat) (h : ceilDiv a b = .ok (q, r)) :
    (q : Rat) - 1 < a / b ∧ a / b ≤ (q : Rat) := by
  unfold ceilDiv divBy at h
  by_cases hb : b = 0
  · simp [hb] at h
  · simp only [hb, if_false] at h
    injection h with h; injection h with h1 _
    subst h1
    unfold ceil
    have h1 := Rat.floor_le (-(a / b))
    have h2 := Rat.lt_floor_add_one (-(a / b))
    push_cast at h2 ⊢
    constructor <;> linarith

/-- the remainder of `floor` has the sign of the divisor and is smaller in magnitude -/
theorem floor_remainder_range (a b : Rat) (q : Int) (r : Rat) (h : floorDiv a b = .ok (q, r)) :
    (0 < b → 0 ≤ r ∧ r < b) ∧ (b < 0 → b < r ∧ r ≤ 0) := by
  obtain ⟨hid, hb⟩ := divBy_identity _ a b q r h
  obtain ⟨h1, h2⟩ := floor_spec a b q r h
  constructor
  · intro hpos
    have e : a = a / b * b := by field_simp
    constructor
    · have : (q : Rat) * b ≤ a / b * b := mul_le_mul_of_nonneg_right h1 (le_of_lt hpos)
      linarith
    · have : a / b * b < ((q : Rat) + 1) * b := mul_lt_mul_of_pos_right h2 hpos
      linarith
  · intro hneg
    have e : a = a / b * b := by field_simp
    constructor
    · have : ((q : Rat) + 1) * b < a / b * b := mul_lt_mul_of_neg_right h2 hneg
      linarith
    · have : a / b * b ≤ (q : Rat) * b := mul_le_mul_of_nonpos_right h1 (le_of_lt hneg)
      linarith

theorem truncate_spec (a b : Rat) (q : Int) (r : Rat) (h : truncDiv a b = .ok (q, r)) :
    (0 ≤ a / b → (q : Rat) ≤ a / b ∧ a / b < (q : Rat) + 1) ∧
    (a / b < 0 → (q : Rat) - 1 < a / b ∧ a / b ≤ (q : Rat)) := by
  unfold truncDiv divBy at h
  by_cases hb : b = 0
  · simp [hb] at h
  · simp only [hb, if_false] at h
    injection h with h; injection h with h1 _
    subst h1
    unfold truncI
    constructor
    · intro hx
      simp only [hx, if_true]
      refine ⟨Rat.floor_le _, ?_⟩
      have := Rat.lt_floor_add_one (a / b)
      push_cast at this; exact this
    · intro hx
      have : ¬ (0 ≤ a / b) := not_le.mpr hx
      simp only [this, if_false]
      unfold ceil
      have h1 := Rat.floor_le (-(a / b))
      have h2 := Rat.lt_floor_add_one (-(a / b))
      push_cast at h2 ⊢
      constructor <;> linarith

/-- `round` is within one half of the exact quotient, and on a tie the quotient is even. -/
theorem round_spec (a b : Rat) (q : Int) (r : Rat) (h : roundDiv a b = .ok (q, r)) :
    (q : Rat) - 1/2 ≤ a / b ∧ a / b ≤ (q : Rat) + 1/2 ∧
    ((a / b = (q : Rat) - 1/2 ∨ a / b = (q : Rat) + 1/2) → q % 2 = 0) := by
  unfold roundDiv divBy at h
  by_cases hb : b = 0
  · simp [hb] at h
  · simp only [hb, if_false] at h
    injection h with h; injection h with h1 _
    subst h1
    have hf1 := Rat.floor_le (a / b)
    have hf2 := Rat.lt_floor_add_one (a / b)
    push_cast at hf2
    unfold roundI
    simp only
    by_cases c1 : a / b - ((a / b).floor : Rat) < 1 / 2
    · simp only [c1, if_true]
      refine ⟨by linarith, by linarith, ?_⟩
      rintro (e | e) <;> linarith
    · simp only [c1, if_false]
      by_cases c2 : 1 / 2 < a / b - ((a / b).floor : Rat)
      · simp only [c2, if_true]
        push_cast
        refine ⟨by linarith, by linarith, ?_⟩
        rintro (e | e) <;> linarith
      · simp only [c2, if_false]
        have hd : a / b - ((a / b).floor : Rat) = 1 / 2 := le_antisymm (not_lt.mp c2) (not_lt.mp c1)
        by_cases c3 : (a / b).floor % 2 = 0
        · rw [if_pos c3]
          exact ⟨by linarith, by linarith, fun _ => c3⟩
        · rw [if_neg c3]
          push_cast
          refine ⟨by linarith, by linarith, fun _ => ?_⟩
          omega

/-! ## integer functions -/

theorem abs_spec (a : Rat) : 0 ≤ absR a ∧ (absR a = a ∨ absR a = -a) := by
  unfold absR
  by_cases h : a < 0
  · rw [if_pos h]; exact ⟨by linarith, Or.inr rfl⟩
  · rw [if_neg h]; exact ⟨not_lt.mp h, Or.inl rfl⟩

theorem isqrt_spec (n : Int) (hn : 0 ≤ n) :
    ∃ r : Int, isqrt n = .ok r ∧ 0 ≤ r ∧ r * r ≤ n ∧ n < (r + 1) * (r + 1) := by
  refine ⟨(Nat.sqrt n.toNat : Int), ?_, by omega, ?_, ?_⟩
  · unfold isqrt; simp [not_lt.mpr hn]
  · have h := Nat.sqrt_le' n.toNat
    have : ((Nat.sqrt n.toNat ^ 2 : Nat) : Int) ≤ (n.toNat : Int) := by exact_mod_cast h
    rw [Int.toNat_of_nonneg hn] at this
    push_cast at this
    nlinarith [this]
  · have h := Nat.lt_succ_sqrt' n.toNat
    have : ((n.toNat : Nat) : Int) < ((Nat.succ (Nat.sqrt n.toNat) ^ 2 : Nat) : Int) := by exact_mod_cast h
    rw [Int.toNat_of_nonneg hn] at this
    push_cast at this
    nlinarith [this]

theorem isqrt_negative_rejected (n : Int) (hn : n < 0) : isqrt n = .error .typeErr := by
  unfold isqrt; simp [hn]

/-- `(ash n k)` is multiplication by `2^k` for `k ≥ 0` and the *floor* of the division by
    `2^(-k)` for `k < 0` (also for negative `n`). -/
theorem ash_spec (n k : Int) :
    (0 ≤ k → ash n k = n * 2 ^ k.toNat) ∧
    (k < 0 → ash n k = (((n : Rat) / (2 : Rat) ^ (-k).toNat)).floor) := by
  unfold ash
  constructor
  · intro h; simp [h]
  · intro h
    have : ¬ (0 ≤ k) := not_le.mpr h
    simp only [this, if_false]
    rw [Int.shiftRight_eq_div_pow]
    have h1 := Rat.floor_intCast_div_natCast n (2 ^ (-k).toNat)
    have h2 : ⌊(n : ℚ) / ((2 ^ (-k).toNat : ℕ) : ℚ)⌋ = ((n : ℚ) / ((2 ^ (-k).toNat : ℕ) : ℚ)).floor := rfl
    rw [h2] at h1
    push_cast at h1
    exact h1.symm

theorem gcd_spec (a b : Int) :
    0 ≤ gcdAll [a, b] ∧ gcdAll [a, b] ∣ a ∧ gcdAll [a, b] ∣ b ∧
    ∀ c : Int, c ∣ a → c ∣ b → c ∣ gcdAll [a, b] := by
  have e : gcdAll [a, b] = (Int.gcd a b : Int) := by
    simp [gcdAll, List.foldl, Int.gcd, Int.natAbs_abs]
  rw [e]
  exact ⟨by positivity, Int.gcd_dvd_left a b, Int.gcd_dvd_right a b, fun c h1 h2 => Int.dvd_coe_gcd h1 h2⟩

theorem lcm_spec (a b : Int) :
    0 ≤ lcmAll [a, b] ∧ a ∣ lcmAll [a, b] ∧ b ∣ lcmAll [a, b] ∧
    ∀ c : Int, a ∣ c → b ∣ c → lcmAll [a, b] ∣ c := by
  have e : lcmAll [a, b] = (Int.lcm a b : Int) := by
    simp [lcmAll, List.foldl, Int.lcm, Int.natAbs_abs]
  rw [e]
  exact ⟨by positivity, Int.dvd_lcm_left a b, Int.dvd_lcm_right a b, fun c h1 h2 => Int.coe_lcm_dvd h1 h2⟩

theorem expt_spec (b : Rat) (n : Int) :
    (0 ≤ n → expt b n = .ok (b ^ n.toNat)) ∧
    (n < 0 → b ≠ 0 → ∃ v, expt b n = .ok v ∧ v * b ^ (-n).toNat = 1) ∧
    (n < 0 → b = 0 → expt b n = .error .divZero) := by
  unfold expt
  refine ⟨fun h => by simp [h], fun h hb => ?_, fun h hb => ?_⟩
  · have : ¬ (0 ≤ n) := not_le.mpr h
    simp only [this, if_false, hb]
    refine ⟨_, rfl, ?_⟩
    have : b ^ (-n).toNat ≠ 0 := pow_ne_zero _ hb
    field_simp
  · have : ¬ (0 ≤ n) := not_le.mpr h
    simp [this, hb]

/-! ## bitwise operations: bit `i` of the result is the Boolean operation on bit `i` -/

theorem testBit_eq (a : Int) (i : Nat) : testBit a i = Int.testBit a i := by
  cases a <;> rfl

theorem land_eq (a b : Int) : land a b = Int.land a b := by
  cases a <;> cases b <;> rfl

theorem lor_eq (a b : Int) : lor a b = Int.lor a b := by
  cases a <;> cases b <;> rfl

theorem lxor_eq (a b : Int) : lxor a b = Int.xor a b := by
  cases a <;> cases b <;> rfl

theorem logand_testBit (a b : Int) (i : Nat) : testBit (land a b) i = (testBit a i && testBit b i) := by
  simp only [testBit_eq, land_eq]; exact Int.testBit_land a b i

theorem logior_testBit (a b : Int) (i : Nat) : testBit (lor a b) i = (testBit a i || testBit b i) := by
  simp only [testBit_eq, lor_eq]; exact Int.testBit_lor a b i

theorem logxor_testBit (a b : Int) (i : Nat) : testBit (lxor a b) i = (testBit a i ^^ testBit b i) := by
  simp only [testBit_eq, lxor_eq]; exact Int.testBit_lxor a b i

theorem lognot_testBit (a : Int) (i : Nat) : testBit (lnot a) i = !(testBit a i) := by
  have : lnot a = Int.lnot a := by
    unfold lnot
    cases a with
    | ofNat m => simp [Int.lnot]; omega
    | negSucc m => simp [Int.lnot]
  simp only [testBit_eq, this]; exact Int.testBit_lnot a i

/-! ## comparisons -/

/-- exactly one of `<`, `=`, `>` holds for any two exact values -/
theorem cmp_trichotomy (a b : Rat) :
    (lt a b = true ∧ eq a b = false ∧ gt a b = false) ∨
    (lt a b = false ∧ eq a b = true ∧ gt a b = false) ∨
    (lt a b = false ∧ eq a b = false ∧ gt a b = true) := by
  unfold lt eq gt
  rcases lt_trichotomy a b with h | h | h
  · left; simp [h, ne_of_lt h, not_lt.mpr (le_of_lt h)]
  · right; left; simp [h]
  · right; right; simp [h, ne_of_gt h, not_lt.mpr (le_of_lt h)]

theorem le_iff_lt_or_eq (a b : Rat) : le a b = (lt a b || eq a b) := by
  unfold le lt eq
  by_cases h : a ≤ b
  · rcases lt_or_eq_of_le h with h' | h' <;> simp [h, h']
  · have h1 : ¬ a < b := fun hh => h (le_of_lt hh)
    have h2 : ¬ a = b := fun hh => h (le_of_eq hh)
    simp [h, h1, h2]

theorem ge_iff_not_lt (a b : Rat) : ge a b = !lt a b := by
  unfold ge lt
  by_cases h : a < b
  · simp [h, not_le.mpr h]
  · simp [h, not_lt.mp h]

theorem zerop_plusp_minusp (a : Rat) :
    (zerop a = eq a 0) ∧ (plusp a = gt a 0) ∧ (minusp a = lt a 0) := by
  unfold zerop plusp minusp eq gt lt; exact ⟨rfl, rfl, rfl⟩

theorem min_spec (a b : Rat) : ∃ m, minAll [a, b] = .ok m ∧ m ≤ a ∧ m ≤ b ∧ (m = a ∨ m = b) := by
  unfold minAll
  simp only [List.foldl]
  by_cases h : b < a
  · exact ⟨b, by simp [h], le_of_lt h, le_refl _, Or.inr rfl⟩
  · exact ⟨a, by simp [h], le_refl _, not_lt.mp h, Or.inl rfl⟩

theorem max_spec (a b : Rat) : ∃ m, maxAll [a, b] = .ok m ∧ a ≤ m ∧ b ≤ m ∧ (m = a ∨ m = b) := by
  unfold maxAll
  simp only [List.foldl]
  by_cases h : a < b
  · exact ⟨b, by simp [h], le_of_lt h, le_refl _, Or.inr rfl⟩
  · exact ⟨a, by simp [h], le_refl _, not_lt.mp h, Or.inl rfl⟩

/-- `(< a b c …)` holds iff every adjacent pair is ordered -/
theorem chain_cons (rel : Rat → Rat → Bool) (a b : Rat) (rest : List Rat) :
    chain rel (a :: b :: rest) = (rel a b && chain rel (b :: rest)) := rfl

/-! ## Impl layer: when Go's int64 arithmetic is exact -/

namespace Impl

def inRange (a : Int) : Prop := -9223372036854775808 ≤ a ∧ a ≤ 9223372036854775807

theorem wrap64_id (a : Int) (h : inRange a) : wrap64 a = a := by
  unfold wrap64 inRange at *; omega

theorem wrap64_range (a : Int) : inRange (wrap64 a) := by
  unfold wrap64 inRange; omega

/-- the overflow test is exact: it accepts precisely the sums that fit -/
theorem addOk_iff (a b : Int) (ha : inRange a) (hb : inRange b) :
    addOk a b = true ↔ inRange (a + b) := by
  unfold addOk addFix wrap64 inRange at *
  constructor
  · intro h
    by_cases hb0 : b = 0
    · subst hb0; simp; omega
    · simp [hb0] at h
      omega
  · intro h
    by_cases hb0 : b = 0
    · simp [hb0]
    · simp [hb0]
      omega

/-- checked addition is exact for all operands -/
theorem addChecked_exact (a b : Int) (ha : inRange a) (hb : inRange b) : addChecked a b = a + b := by
  unfold addChecked
  by_cases h : addOk a b = true
  · simp only [h, if_true]
    have := (addOk_iff a b ha hb).mp h
    unfold addFix; exact wrap64_id _ this
  · simp [h]

/-- unchecked int64 addition is exact only inside the range … -/
theorem addFix_exact_iff (a b : Int) : addFix a b = a + b ↔ inRange (a + b) := by
  unfold addFix wrap64 inRange; omega

theorem subFix_exact_iff (a b : Int) : subFix a b = a - b ↔ inRange (a - b) := by
  unfold subFix wrap64 inRange; omega

theorem mulFix_exact_iff (a b : Int) : mulFix a b = a * b ↔ inRange (a * b) := by
  unfold mulFix wrap64 inRange; omega

/-- … and wraps outside it (witnesses replayed on the implementation by the harness sweep) -/
theorem addFix_wraps : addFix 9223372036854775807 1 = -9223372036854775808 := by decide
theorem negFix_wraps : negFix (-9223372036854775808) = -9223372036854775808 := by decide
theorem mulFix_wraps : mulFix 4611686018427387904 4 = 0 := by decide

/-- the fixnum branch of `floor`, computed from Go's truncating `/` and `%`, is floor division:
    remainder identity, and the remainder has the sign of the divisor -/
theorem floorFix_spec (a b : Int) (hb : b ≠ 0) :
    a = (floorFix a b).1 * b + (floorFix a b).2 ∧
    (0 < b → 0 ≤ (floorFix a b).2 ∧ (floorFix a b).2 < b) ∧
    (b < 0 → b < (floorFix a b).2 ∧ (floorFix a b).2 ≤ 0) := by
  have hid := Int.tmod_add_mul_tdiv a b
  have habs : (Int.tmod a b).natAbs < b.natAbs := by
    rw [Int.natAbs_tmod]; exact Nat.mod_lt _ (Int.natAbs_pos.mpr hb)
  have hs1 : 0 ≤ a → 0 ≤ Int.tmod a b := fun h => Int.tmod_nonneg b h
  have hs2 : a ≤ 0 → Int.tmod a b ≤ 0 := fun h => by
    have := Int.tmod_nonneg (a := -a) b (by omega)
    rw [Int.neg_tmod] at this; omega
  have hf : floorFix a b =
      if Int.tmod a b ≠ 0 ∧ ((Int.tmod a b < 0) ≠ (b < 0)) then (Int.tdiv a b - 1, Int.tmod a b + b)
      else (Int.tdiv a b, Int.tmod a b) := rfl
  rw [hf]
  generalize Int.tmod a b = r at *
  generalize Int.tdiv a b = q at *
  by_cases h1 : r ≠ 0 ∧ ((r < 0) ≠ (b < 0))
  · rw [if_pos h1]
    simp only
    refine ⟨by nlinarith, ?_, ?_⟩ <;> intro hbs <;> simp at h1 <;> omega
  · rw [if_neg h1]
    simp only
    refine ⟨by nlinarith, ?_, ?_⟩ <;> intro hbs <;> simp at h1 <;> omega

end Impl

/-! ## non-vacuity: concrete instances meeting the hypotheses above -/

example : floorDiv 7 (-2) = .ok (-4, -1) := by decide +kernel
example : roundDiv 5 2 = .ok (2, 1) := by decide +kernel
example : roundDiv 7 2 = .ok (4, -1) := by decide +kernel
example : truncDiv (-7) 2 = .ok (-3, -1) := by decide +kernel
example : ceilDiv 7 2 = .ok (4, -1) := by decide +kernel
example : isqrt 17 = .ok 4 := by decide +kernel
example : ash (-5) (-1) = -3 := by decide +kernel
example : land (-12) 10 = 0 := by decide +kernel
example : typeOf 9223372036854775808 = "bignum" := by decide +kernel
example : Impl.inRange 9223372036854775807 ∧ Impl.inRange 1 ∧ ¬ Impl.inRange (9223372036854775807 + 1) := by
  unfold Impl.inRange; omega

end SlipVerif.Num
