import SlipVerif.Model.Num
import SlipVerif.Lemmas.Num
import Mathlib.Tactic.Linarith
import Mathlib.Tactic.Ring
import Mathlib.Tactic.FieldSimp
import Mathlib.Data.Nat.Sqrt
import Mathlib.Data.Int.Bitwise
import Mathlib.Data.Rat.Floor
/-
  C05 — property theorems about SlipVerif.Model.Num (the model the correspondence harness runs
  against the implementation). Statements only concern the model; the tie to the code is the
  correspondence check (harness/cmd/vh/c05.go).
-/
namespace SlipVerif.Num

/-! ## canonical representation -/

/-- A value is reported as a fixnum exactly when it is an integer inside the int64 range. -/
theorem typeOf_fixnum_iff (r : Rat) :
    typeOf r = "fixnum" ↔ r.den = 1 ∧ minFix ≤ r.num ∧ r.num ≤ maxFix := by
  unfold typeOf isFix
  by_cases h : r.den = 1 <;> by_cases h1 : minFix ≤ r.num <;> by_cases h2 : r.num ≤ maxFix <;>
    simp [h, h1, h2]

theorem typeOf_ratio_iff (r : Rat) : typeOf r = "ratio" ↔ r.den ≠ 1 := by
  unfold typeOf
  by_cases h : r.den = 1
  · by_cases h1 : isFix r.num <;> simp [h, h1]
  · simp [h]

/-- the three representations partition the rationals -/
theorem typeOf_total (r : Rat) : typeOf r = "fixnum" ∨ typeOf r = "bignum" ∨ typeOf r = "ratio" := by
  unfold typeOf
  by_cases h : r.den = 1 <;> by_cases h1 : isFix r.num <;> simp [h, h1]

/-! ## the rounding divisions: `a = q*b + r` with the defining inequality on `a/b` -/

/-- every rounding division satisfies the remainder identity -/
theorem divBy_identity (rnd : Rat → Int) (a b : Rat) (q : Int) (r : Rat)
    (h : divBy rnd a b = .ok (q, r)) : a = (q : Rat) * b + r ∧ b ≠ 0 := by
  unfold divBy at h
  by_cases hb : b = 0
  · simp [hb] at h
  · simp only [hb, if_false] at h
    injection h with h
    injection h with h1 h2
    subst h1; subst h2
    exact ⟨by ring, hb⟩

/-- division by zero is rejected, never answered -/
theorem divBy_zero (rnd : Rat → Int) (a : Rat) : divBy rnd a 0 = .error .divZero := by
  simp [divBy]

theorem floor_spec (a b : Rat) (q : Int) (r : Rat) (h : floorDiv a b = .ok (q, r)) :
    (q : Rat) ≤ a / b ∧ a / b < (q : Rat) + 1 := by
  unfold floorDiv divBy at h
  by_cases hb : b = 0
  · simp [hb] at h
  · simp only [hb, if_false] at h
    injection h with h; injection h with h1 _
    subst h1
    refine ⟨Rat.floor_le _, ?_⟩
    have := Rat.lt_floor_add_one (a / b)
    push_cast at this; exact this

theorem ceiling_spec (a b : Rat) (q : Int) (r : Rat) (h : ceilDiv a b = .ok (q, r)) :
    (q : Rat) - 1 < a / b ∧ a / b ≤ (q : Rat) := by
  unfold ceilDiv divBy at h
  by_cases hb : b = 0
  · simp [hb] at h
  · simp only [hb, if_false] at h
    injection h with h; injection h with h1 _
    subst h1
    unfold ceil
    have h1 := Rat.floor_le (-(a / b))
    have h2 := Rat.lt_floor_add_one (-(a / b))
    push_cast at h2 ⊢
    constructor <;> linarith

/-- the remainder of `floor` has the sign of the divisor and is smaller in magnitude -/
theorem floor_remainder_range (a b : Rat) (q : Int) (r : Rat) (h : floorDiv a b = .ok (q, r)) :
    (0 < b → 0 ≤ r ∧ r < b) ∧ (b < 0 → b < r ∧ r ≤ 0) := by
  obtain ⟨hid, hb⟩ := divBy_identity _ a b q r h
  obtain ⟨h1, h2⟩ := floor_spec a b q r h
  constructor
  · intro hpos
    have e : a = a / b * b := by field_simp
    constructor
    · have : (q : Rat) * b ≤ a / b * b := mul_le_mul_of_nonneg_right h1 (le_of_lt hpos)
      linarith
    · have : a / b * b < ((q : Rat) + 1) * b := mul_lt_mul_of_pos_right h2 hpos
      linarith
  · intro hneg
    have e : a = a / b * b := by field_simp
    constructor
    · have : ((q : Rat) + 1) * b < a / b * b := mul_lt_mul_of_neg_right h2 hneg
      linarith
    · have : a / b * b ≤ (q : Rat) * b := mul_le_mul_of_nonpos_right h1 (le_of_lt hneg)
      linarith

theorem truncate_spec (a b : Rat) (q : Int) (r : Rat) (h : truncDiv a b = .ok (q, r)) :
    (0 ≤ a / b → (q : Rat) ≤ a / b ∧ a / b < (q : Rat) + 1) ∧
    (a / b < 0 → (q : Rat) - 1 < a / b ∧ a / b ≤ (q : Rat)) := by
  unfold truncDiv divBy at h
  by_cases hb : b = 0
  · simp [hb] at h
  · simp only [hb, if_false] at h
    injection h with h; injection h with h1 _
    subst h1
    unfold truncI
    constructor
    · intro hx
      simp only [hx, if_true]
      refine ⟨Rat.floor_le _, ?_⟩
      have := Rat.lt_floor_add_one (a / b)
      push_cast at this; exact this
    · intro hx
      have : ¬ (0 ≤ a / b) := not_le.mpr hx
      simp only [this, if_false]
      unfold ceil
      have h1 := Rat.floor_le (-(a / b))
      have h2 := Rat.lt_floor_add_one (-(a / b))
      push_cast at h2 ⊢
      constructor <;> linarith

/-- `round` is within one half of the exact quotient, and on a tie the quotient is even. -/
theorem round_spec (a b : Rat) (q : Int) (r : Rat) (h : roundDiv a b = .ok (q, r)) :
    (q : Rat) - 1/2 ≤ a / b ∧ a / b ≤ (q : Rat) + 1/2 ∧
    ((a / b = (q : Rat) - 1/2 ∨ a / b = (q : Rat) + 1/2) → q % 2 = 0) := by
  unfold roundDiv divBy at h
  by_cases hb : b = 0
  · simp [hb] at h
  · simp only [hb, if_false] at h
    injection h with h; injection h with h1 _
    subst h1
    have hf1 := Rat.floor_le (a / b)
    have hf2 := Rat.lt_floor_add_one (a / b)
    push_cast at hf2
    unfold roundI
    simp only
    by_cases c1 : a / b - ((a / b).floor : Rat) < 1 / 2
    · simp only [c1, if_true]
      refine ⟨by linarith, by linarith, ?_⟩
      rintro (e | e) <;> linarith
    · simp only [c1, if_false]
      by_cases c2 : 1 / 2 < a / b - ((a / b).floor : Rat)
      · simp only [c2, if_true]
        push_cast
        refine ⟨by linarith, by linarith, ?_⟩
        rintro (e | e) <;> linarith
      · simp only [c2, if_false]
        have hd : a / b - ((a / b).floor : Rat) = 1 / 2 := le_antisymm (not_lt.mp c2) (not_lt.mp c1)
        by_cases c3 : (a / b).floor % 2 = 0
        · rw [if_pos c3]
          exact ⟨by linarith, by linarith, fun _ => c3⟩
        · rw [if_neg c3]
          push_cast
          refine ⟨by linarith, by linarith, fun _ => ?_⟩
          omega

/-! ## integer functions -/

theorem abs_spec (a : Rat) : 0 ≤ absR a ∧ (absR a = a ∨ absR a = -a) := by
  unfold absR
  by_cases h : a < 0
  · rw [if_pos h]; exact ⟨by linarith, Or.inr rfl⟩
  · rw [if_neg h]; exact ⟨not_lt.mp h, Or.inl rfl⟩

theorem isqrt_spec (n : Int) (hn : 0 ≤ n) :
    ∃ r : Int, isqrt n = .ok r ∧ 0 ≤ r ∧ r * r ≤ n ∧ n < (r + 1) * (r + 1) := by
  refine ⟨(Nat.sqrt n.toNat : Int), ?_, by omega, ?_, ?_⟩
  · unfold isqrt; simp [not_lt.mpr hn]
  · have h := Nat.sqrt_le' n.toNat
    have : ((Nat.sqrt n.toNat ^ 2 : Nat) : Int) ≤ (n.toNat : Int) := by exact_mod_cast h
    rw [Int.toNat_of_nonneg hn] at this
    push_cast at this
    nlinarith [this]
  · have h := Nat.lt_succ_sqrt' n.toNat
    have : ((n.toNat : Nat) : Int) < ((Nat.succ (Nat.sqrt n.toNat) ^ 2 : Nat) : Int) := by exact_mod_cast h
    rw [Int.toNat_of_nonneg hn] at this
    push_cast at this
    nlinarith [this]

theorem isqrt_negative_rejected (n : Int) (hn : n < 0) : isqrt n = .error .typeErr := by
  unfold isqrt; simp [hn]

/-- `(ash n k)` is multiplication by `2^k` for `k ≥ 0` and the *floor* of the division by
    `2^(-k)` for `k < 0` (also for negative `n`). -/
theorem ash_spec (n k : Int) :
    (0 ≤ k → ash n k = n * 2 ^ k.toNat) ∧
    (k < 0 → ash n k = (((n : Rat) / (2 : Rat) ^ (-k).toNat)).floor) := by
  unfold ash
  constructor
  · intro h; simp [h]
  · intro h
    have : ¬ (0 ≤ k) := not_le.mpr h
    simp only [this, if_false]
    rw [Int.shiftRight_eq_div_pow]
    have h1 := Rat.floor_intCast_div_natCast n (2 ^ (-k).toNat)
    have h2 : ⌊(n : ℚ) / ((2 ^ (-k).toNat : ℕ) : ℚ)⌋ = ((n : ℚ) / ((2 ^ (-k).toNat : ℕ) : ℚ)).floor := rfl
    rw [h2] at h1
    push_cast at h1
    exact h1.symm

theorem gcd_spec (a b : Int) :
    0 ≤ gcdAll [a, b] ∧ gcdAll [a, b] ∣ a ∧ gcdAll [a, b] ∣ b ∧
    ∀ c : Int, c ∣ a → c ∣ b → c ∣ gcdAll [a, b] := by
  have e : gcdAll [a, b] = (Int.gcd a b : Int) := by
    simp [gcdAll, List.foldl, Int.gcd, Int.natAbs_abs]
  rw [e]
  exact ⟨by positivity, Int.gcd_dvd_left a b, Int.gcd_dvd_right a b, fun c h1 h2 => Int.dvd_coe_gcd h1 h2⟩

theorem lcm_spec (a b : Int) :
    0 ≤ lcmAll [a, b] ∧ a ∣ lcmAll [a, b] ∧ b ∣ lcmAll [a, b] ∧
    ∀ c : Int, a ∣ c → b ∣ c → lcmAll [a, b] ∣ c := by
  have e : lcmAll [a, b] = (Int.lcm a b : Int) := by
    simp [lcmAll, List.foldl, Int.lcm, Int.natAbs_abs]
  rw [e]
  exact ⟨by positivity, Int.dvd_lcm_left a b, Int.dvd_lcm_right a b, fun c h1 h2 => Int.coe_lcm_dvd h1 h2⟩

theorem expt_spec (b : Rat) (n : Int) :
    (0 ≤ n → expt b n = .ok (b ^ n.toNat)) ∧
    (n < 0 → b ≠ 0 → ∃ v, expt b n = .ok v ∧ v * b ^ (-n).toNat = 1) ∧
    (n < 0 → b = 0 → expt b n = .error .divZero) := by
  unfold expt
  refine ⟨fun h => by simp [h], fun h hb => ?_, fun h hb => ?_⟩
  · have : ¬ (0 ≤ n) := not_le.mpr h
    simp only [this, if_false, hb]
    refine ⟨_, rfl, ?_⟩
    have : b ^ (-n).toNat ≠ 0 := pow_ne_zero _ hb
    field_simp
  · have : ¬ (0 ≤ n) := not_le.mpr h
    simp [this, hb]

/-! ## bitwise operations: bit `i` of the result is the Boolean operation on bit `i` -/

theorem testBit_eq (a : Int) (i : Nat) : testBit a i = Int.testBit a i := by
  cases a <;> rfl

theorem land_eq (a b : Int) : land a b = Int.land a b := by
  cases a <;> cases b <;> rfl

theorem lor_eq (a b : Int) : lor a b = Int.lor a b := by
  cases a <;> cases b <;> rfl

theorem lxor_eq (a b : Int) : lxor a b = Int.xor a b := by
  cases a <;> cases b <;> rfl

theorem logand_testBit (a b : Int) (i : Nat) : testBit (land a b) i = (testBit a i && testBit b i) := by
  simp only [testBit_eq, land_eq]; exact Int.testBit_land a b i

theorem logior_testBit (a b : Int) (i : Nat) : testBit (lor a b) i = (testBit a i || testBit b i) := by
  simp only [testBit_eq, lor_eq]; exact Int.testBit_lor a b i

theorem logxor_testBit (a b : Int) (i : Nat) : testBit (lxor a b) i = (testBit a i ^^ testBit b i) := by
  simp only [testBit_eq, lxor_eq]; exact Int.testBit_lxor a b i

theorem lognot_testBit (a : Int) (i : Nat) : testBit (lnot a) i = !(testBit a i) := by
  have : lnot a = Int.lnot a := by
    unfold lnot
    cases a with
    | ofNat m => simp [Int.lnot]; omega
    | negSucc m => simp [Int.lnot]
  simp only [testBit_eq, this]; exact Int.testBit_lnot a i

/-! ## comparisons -/

/-- exactly one of `<`, `=`, `>` holds for any two exact values -/
theorem cmp_trichotomy (a b : Rat) :
    (lt a b = true ∧ eq a b = false ∧ gt a b = false) ∨
    (lt a b = false ∧ eq a b = true ∧ gt a b = false) ∨
    (lt a b = false ∧ eq a b = false ∧ gt a b = true) := by
  unfold lt eq gt
  rcases lt_trichotomy a b with h | h | h
  · left; simp [h, ne_of_lt h, not_lt.mpr (le_of_lt h)]
  · right; left; simp [h]
  · right; right; simp [h, ne_of_gt h, not_lt.mpr (le_of_lt h)]

theorem le_iff_lt_or_eq (a b : Rat) : le a b = (lt a b || eq a b) := by
  unfold le lt eq
  by_cases h : a ≤ b
  · rcases lt_or_eq_of_le h with h' | h' <;> simp [h, h']
  · have h1 : ¬ a < b := fun hh => h (le_of_lt hh)
    have h2 : ¬ a = b := fun hh => h (le_of_eq hh)
    simp [h, h1, h2]

theorem ge_iff_not_lt (a b : Rat) : ge a b = !lt a b := by
  unfold ge lt
  by_cases h : a < b
  · simp [h, not_le.mpr h]
  · simp [h, not_lt.mp h]

theorem zerop_plusp_minusp (a : Rat) :
    (zerop a = eq a 0) ∧ (plusp a = gt a 0) ∧ (minusp a = lt a 0) := by
  unfold zerop plusp minusp eq gt lt; exact ⟨rfl, rfl, rfl⟩

theorem min_spec (a b : Rat) : ∃ m, minAll [a, b] = .ok m ∧ m ≤ a ∧ m ≤ b ∧ (m = a ∨ m = b) := by
  unfold minAll
  simp only [List.foldl]
  by_cases h : b < a
  · exact ⟨b, by simp [h], le_of_lt h, le_refl _, Or.inr rfl⟩
  · exact ⟨a, by simp [h], le_refl _, not_lt.mp h, Or.inl rfl⟩

theorem max_spec (a b : Rat) : ∃ m, maxAll [a, b] = .ok m ∧ a ≤ m ∧ b ≤ m ∧ (m = a ∨ m = b) := by
  unfold maxAll
  simp only [List.foldl]
  by_cases h : a < b
  · exact ⟨b, by simp [h], le_of_lt h, le_refl _, Or.inr rfl⟩
  · exact ⟨a, by simp [h], le_refl _, not_lt.mp h, Or.inl rfl⟩

/-- `(< a b c …)` holds iff every adjacent pair is ordered -/
theorem chain_cons (rel : Rat → Rat → Bool) (a b : Rat) (rest : List Rat) :
    chain rel (a :: b :: rest) = (rel a b && chain rel (b :: rest)) := rfl

/-! ## remainder ranges of truncate, round and ceiling; mod and rem -/

/-- the remainder of `truncate` is smaller in magnitude than the divisor and has the sign of the
    dividend (or is zero) -/
theorem truncate_remainder_range (a b : Rat) (q : Int) (r : Rat) (h : truncDiv a b = .ok (q, r)) :
    |r| < |b| ∧ 0 ≤ r * a := by
  obtain ⟨hid, hb⟩ := divBy_identity _ a b q r h
  obtain ⟨h1, h2⟩ := truncate_spec a b q r h
  have e : a = a / b * b := by field_simp
  have hr : r = (a / b - q) * b := by linarith [e]
  have hbpos : 0 < |b| := abs_pos.mpr hb
  rcases le_or_gt 0 (a / b) with hx | hx
  · obtain ⟨l, u⟩ := h1 hx
    constructor
    · have hd : |a / b - q| < 1 := by rw [abs_lt]; constructor <;> linarith
      rw [hr, abs_mul]
      calc |a / b - ↑q| * |b| < 1 * |b| := mul_lt_mul_of_pos_right hd hbpos
        _ = |b| := one_mul _
    · generalize a / b = x at *
      have : r * a = ((x - q) * x) * (b * b) := by rw [hr, e]; ring
      rw [this]
      exact mul_nonneg (mul_nonneg (by linarith) hx) (mul_self_nonneg b)
  · obtain ⟨l, u⟩ := h2 hx
    constructor
    · have hd : |a / b - q| < 1 := by rw [abs_lt]; constructor <;> linarith
      rw [hr, abs_mul]
      calc |a / b - ↑q| * |b| < 1 * |b| := mul_lt_mul_of_pos_right hd hbpos
        _ = |b| := one_mul _
    · generalize a / b = x at *
      have : r * a = ((x - q) * x) * (b * b) := by rw [hr, e]; ring
      rw [this]
      exact mul_nonneg (mul_nonneg_of_nonpos_of_nonpos (by linarith) (le_of_lt hx)) (mul_self_nonneg b)

/-- the remainder of `round` is at most half the divisor in magnitude -/
theorem round_remainder_range (a b : Rat) (q : Int) (r : Rat) (h : roundDiv a b = .ok (q, r)) :
    |r| ≤ |b| / 2 := by
  obtain ⟨hid, hb⟩ := divBy_identity _ a b q r h
  obtain ⟨h1, h2, _⟩ := round_spec a b q r h
  have e : a = a / b * b := by field_simp
  have hr : r = (a / b - q) * b := by linarith [e]
  have hd : |a / b - q| ≤ 1 / 2 := by
    rw [abs_le]; constructor <;> linarith
  rw [hr, abs_mul]
  have := mul_le_mul_of_nonneg_right hd (abs_nonneg b)
  linarith

/-- the remainder of `ceiling` has the sign opposite to the divisor and is smaller in magnitude -/
theorem ceiling_remainder_range (a b : Rat) (q : Int) (r : Rat) (h : ceilDiv a b = .ok (q, r)) :
    (0 < b → -b < r ∧ r ≤ 0) ∧ (b < 0 → 0 ≤ r ∧ r < -b) := by
  obtain ⟨hid, hb⟩ := divBy_identity _ a b q r h
  obtain ⟨h1, h2⟩ := ceiling_spec a b q r h
  have e : a = a / b * b := by field_simp
  constructor
  · intro hpos
    constructor
    · have : ((q : Rat) - 1) * b < a / b * b := mul_lt_mul_of_pos_right h1 hpos
      linarith
    · have : a / b * b ≤ (q : Rat) * b := mul_le_mul_of_nonneg_right h2 (le_of_lt hpos)
      linarith
  · intro hneg
    constructor
    · have : (q : Rat) * b ≤ a / b * b := mul_le_mul_of_nonpos_right h2 (le_of_lt hneg)
      linarith
    · have : a / b * b < ((q : Rat) - 1) * b := mul_lt_mul_of_neg_right h1 hneg
      linarith

/-- `mod` is the floor remainder: it has the sign of the divisor, `rem` the truncate remainder -/
theorem mod_spec (a b m : Rat) (h : modR a b = .ok m) :
    (∃ q : Int, a = (q : Rat) * b + m) ∧ (0 < b → 0 ≤ m ∧ m < b) ∧ (b < 0 → b < m ∧ m ≤ 0) := by
  unfold modR at h
  cases hf : floorDiv a b with
  | error e => rw [hf] at h; simp [Except.map] at h
  | ok p =>
    obtain ⟨q, r⟩ := p
    rw [hf] at h
    simp [Except.map] at h
    subst h
    exact ⟨⟨q, (divBy_identity _ a b q r hf).1⟩, floor_remainder_range a b q r hf⟩

theorem rem_spec (a b m : Rat) (h : remR a b = .ok m) :
    (∃ q : Int, a = (q : Rat) * b + m) ∧ |m| < |b| ∧ 0 ≤ m * a := by
  unfold remR at h
  cases hf : truncDiv a b with
  | error e => rw [hf] at h; simp [Except.map] at h
  | ok p =>
    obtain ⟨q, r⟩ := p
    rw [hf] at h
    simp [Except.map] at h
    subst h
    exact ⟨⟨q, (divBy_identity _ a b q r hf).1⟩, truncate_remainder_range a b q r hf⟩

/-! ## n-ary operators, by induction over the argument list -/

/-- `(+ x₁ … xₙ)` is the sum (and `(+)` is 0) -/
theorem addAll_eq_sum (xs : List Rat) : addAll xs = xs.sum := by
  unfold addAll; rw [foldl_add_eq]; ring

/-- `(* x₁ … xₙ)` is the product (and `(*)` is 1) -/
theorem mulAll_eq_prod (xs : List Rat) : mulAll xs = xs.prod := by
  unfold mulAll; rw [foldl_mul_eq]; ring

/-- `(- a)` negates; `(- a x₁ … xₙ)`, n ≥ 1, subtracts the sum of the rest; `(-)` is rejected -/
theorem subAll_spec (a : Rat) (rest : List Rat) :
    subAll [] = .error .typeErr ∧ subAll [a] = .ok (-a) ∧
    (rest ≠ [] → subAll (a :: rest) = .ok (a - rest.sum)) := by
  refine ⟨rfl, rfl, fun h => ?_⟩
  cases rest with
  | nil => exact absurd rfl h
  | cons b rest => simp only [subAll, foldl_sub_eq]

/-- `(/ a x₁ … xₙ)`, n ≥ 1, with non-zero divisors divides by the product of the rest -/
theorem divAll_spec (a : Rat) (rest : List Rat) (hne : rest ≠ []) (hnz : ∀ x ∈ rest, x ≠ 0) :
    divAll (a :: rest) = .ok (a / rest.prod) := by
  cases rest with
  | nil => exact absurd rfl hne
  | cons b rest =>
    simp only [divAll]
    clear hne
    generalize hl : b :: rest = l at *
    clear hl
    induction l generalizing a with
    | nil => simp [List.foldlM, pure, Except.pure]
    | cons x xs ih =>
      have hx : x ≠ 0 := hnz x (by simp)
      simp only [List.foldlM, bind, Except.bind, div, hx, if_false]
      rw [ih (a / x) (fun y hy => hnz y (by simp [hy]))]
      simp only [List.prod_cons]
      congr 1
      field_simp

/-- a zero divisor anywhere is rejected, never answered -/
theorem divAll_zero (a : Rat) (pre post : List Rat) (hnz : ∀ x ∈ pre, x ≠ 0) :
    divAll (a :: (pre ++ 0 :: post)) = .error .divZero := by
  have key : ∀ (l : List Rat) (acc : Rat), (∀ x ∈ l, x ≠ 0) →
      (l ++ 0 :: post).foldlM div acc = (.error .divZero : Except Err Rat) := by
    intro l
    induction l with
    | nil => intro acc _; simp [bind, Except.bind, div]
    | cons x xs ih =>
      intro acc h
      have hx : x ≠ 0 := h x (by simp)
      simp only [List.cons_append, List.foldlM, bind, Except.bind, div, hx, if_false]
      exact ih _ (fun y hy => h y (by simp [hy]))
  cases pre with
  | nil => simp [divAll, bind, Except.bind, div]
  | cons p ps =>
    simp only [divAll, List.cons_append]
    exact key (p :: ps) a hnz

/-! ## n-ary gcd and lcm -/

/-- `(gcd x₁ … xₙ)` is non-negative, divides every argument, and every common divisor divides it -/
theorem gcdAll_spec (xs : List Int) :
    0 ≤ gcdAll xs ∧ (∀ x ∈ xs, gcdAll xs ∣ x) ∧ ∀ c : Int, (∀ x ∈ xs, c ∣ x) → c ∣ gcdAll xs := by
  obtain ⟨h1, _, h3, h4⟩ := foldl_gcd_spec xs 0
  refine ⟨?_, h3, fun c hc => h4 c (dvd_zero c) hc⟩
  cases xs with
  | nil => simp [gcdAll]
  | cons x xs => exact h1 (by simp)

/-- `(lcm x₁ … xₙ)` is non-negative, a multiple of every argument, and divides every common multiple -/
theorem lcmAll_spec (xs : List Int) :
    0 ≤ lcmAll xs ∧ (∀ x ∈ xs, x ∣ lcmAll xs) ∧ ∀ c : Int, (∀ x ∈ xs, x ∣ c) → lcmAll xs ∣ c := by
  obtain ⟨h1, _, h3, h4⟩ := foldl_lcm_spec xs 1
  refine ⟨?_, h3, fun c hc => h4 c (one_dvd c) hc⟩
  cases xs with
  | nil => simp [lcmAll]
  | cons x xs => exact h1 (by simp)

/-! ## comparison chains -/

/-- `(rel x₀ x₁ … xₙ)` holds iff every adjacent pair is in the relation -/
theorem chain_iff_adjacent (rel : Rat → Rat → Bool) (xs : List Rat) :
    chain rel xs = true ↔ ∀ (i : Nat) (h : i + 1 < xs.length), rel xs[i] xs[i + 1] = true := by
  induction xs with
  | nil => simp [chain]
  | cons a rest ih =>
    cases rest with
    | nil => simp [chain]
    | cons b rest =>
      rw [chain_cons, Bool.and_eq_true, ih]
      constructor
      · rintro ⟨h0, hrest⟩ i hi
        cases i with
        | zero => simpa using h0
        | succ j =>
          have := hrest j (by simp at hi ⊢; omega)
          simpa using this
      · intro hall
        refine ⟨by simpa using hall 0 (by simp), fun i hi => ?_⟩
        have := hall (i + 1) (by simp at hi ⊢; omega)
        simpa using this

/-- for the strict order the chain is the same as: every earlier argument is below every later one -/
theorem chain_lt_iff_pairwise (xs : List Rat) : chain lt xs = true ↔ xs.Pairwise (· < ·) := by
  induction xs with
  | nil => simp [chain]
  | cons a rest ih =>
    cases rest with
    | nil => simp [chain]
    | cons b rest =>
      rw [chain_cons, Bool.and_eq_true, ih]
      constructor
      · rintro ⟨h0, hp⟩
        have hab : a < b := by simpa [lt] using h0
        refine List.pairwise_cons.mpr ⟨fun x hx => ?_, hp⟩
        rcases List.mem_cons.mp hx with rfl | hx
        · exact hab
        · exact lt_trans hab ((List.pairwise_cons.mp hp).1 x hx)
      · intro hp
        obtain ⟨h0, hp'⟩ := List.pairwise_cons.mp hp
        exact ⟨by simpa [lt] using h0 b (by simp), hp'⟩

/-- `(/= x₁ … xₙ)` holds iff the arguments are pairwise different -/
theorem allDiff_iff_nodup (xs : List Rat) : allDiff xs = true ↔ xs.Nodup := by
  induction xs with
  | nil => simp [allDiff]
  | cons a rest ih =>
    rw [allDiff, Bool.and_eq_true, ih, List.nodup_cons, List.all_eq_true]
    constructor
    · rintro ⟨h1, h2⟩
      refine ⟨fun hmem => ?_, h2⟩
      have := h1 a hmem
      simp [eq] at this
    · rintro ⟨h1, h2⟩
      refine ⟨fun x hx => ?_, h2⟩
      have : a ≠ x := fun e => h1 (e ▸ hx)
      simp [eq, this]

/-! ## min and max over arbitrary argument lists -/

/-- `(min x₁ … xₙ)` is one of the arguments and a lower bound of all of them -/
theorem minAll_spec (a : Rat) (rest : List Rat) :
    ∃ m, minAll (a :: rest) = .ok m ∧ m ∈ a :: rest ∧ ∀ x ∈ a :: rest, m ≤ x := by
  obtain ⟨h1, h2, h3⟩ := foldl_min_spec rest a
  refine ⟨_, rfl, ?_, ?_⟩
  · rcases h1 with h | h
    · rw [h]; simp
    · exact List.mem_cons_of_mem _ h
  · intro x hx
    rcases List.mem_cons.mp hx with rfl | hx
    · exact h2
    · exact h3 x hx

/-- `(max x₁ … xₙ)` is one of the arguments and an upper bound of all of them -/
theorem maxAll_spec (a : Rat) (rest : List Rat) :
    ∃ m, maxAll (a :: rest) = .ok m ∧ m ∈ a :: rest ∧ ∀ x ∈ a :: rest, x ≤ m := by
  obtain ⟨h1, h2, h3⟩ := foldl_max_spec rest a
  refine ⟨_, rfl, ?_, ?_⟩
  · rcases h1 with h | h
    · rw [h]; simp
    · exact List.mem_cons_of_mem _ h
  · intro x hx
    rcases List.mem_cons.mp hx with rfl | hx
    · exact h2
    · exact h3 x hx

/-! ## IEEE-754 decoding -/

/-- binary64: the value decoded from sign `s`, biased exponent `ex` (finite) and mantissa `man` -/
theorem ofBits64_fields (s ex man : Nat) (hs : s < 2) (hex : ex < 2047) (hman : man < 2 ^ 52) :
    ofBits64 (s * 2 ^ 63 + ex * 2 ^ 52 + man) =
      some ((if s = 1 then -1 else 1) *
        (if ex = 0 then (man : Rat) * pow2 (-1074)
         else ((2 ^ 52 + man : Nat) : Rat) * pow2 ((ex : Int) - 1075))) := by
  have h1 : (s * 2 ^ 63 + ex * 2 ^ 52 + man) / 2 ^ 63 % 2 = s := by
    norm_num at hman ⊢; omega
  have h2 : (s * 2 ^ 63 + ex * 2 ^ 52 + man) / 2 ^ 52 % 2048 = ex := by
    norm_num at hman ⊢; omega
  have h3 : (s * 2 ^ 63 + ex * 2 ^ 52 + man) % 2 ^ 52 = man := by
    norm_num at hman ⊢; omega
  unfold ofBits64
  simp only [h1, h2, h3]
  have hne : ¬ ex = 2047 := by omega
  rw [if_neg hne]
  by_cases hs1 : s = 1 <;> by_cases hz : ex = 0 <;> simp [hs1, hz]

/-- binary64: exponent field 2047 (infinities and NaNs) has no rational value -/
theorem ofBits64_nonfinite (s man : Nat) (hs : s < 2) (hman : man < 2 ^ 52) :
    ofBits64 (s * 2 ^ 63 + 2047 * 2 ^ 52 + man) = none := by
  have h2 : (s * 2 ^ 63 + 2047 * 2 ^ 52 + man) / 2 ^ 52 % 2048 = 2047 := by
    norm_num at hman ⊢; omega
  unfold ofBits64
  simp only [h2, if_true]

/-- binary64: setting the sign bit negates the value -/
theorem ofBits64_sign (bits : Nat) (h : bits < 2 ^ 63) :
    ofBits64 (bits + 2 ^ 63) = (ofBits64 bits).map (fun x => -x) := by
  have a1 : (bits + 2 ^ 63) / 2 ^ 63 % 2 = 1 := by norm_num at h ⊢; omega
  have a2 : bits / 2 ^ 63 % 2 = 0 := by norm_num at h ⊢; omega
  have b1 : (bits + 2 ^ 63) / 2 ^ 52 % 2048 = bits / 2 ^ 52 % 2048 := by norm_num at h ⊢; omega
  have c1 : (bits + 2 ^ 63) % 2 ^ 52 = bits % 2 ^ 52 := by norm_num at h ⊢; omega
  unfold ofBits64
  simp only [a1, a2, b1, c1]
  by_cases hx : bits / 2 ^ 52 % 2048 = 2047
  · rw [if_pos hx, if_pos hx]; rfl
  · rw [if_neg hx, if_neg hx]
    simp

/-- binary32: the value decoded from sign, biased exponent (finite) and mantissa -/
theorem ofBits32_fields (s ex man : Nat) (hs : s < 2) (hex : ex < 255) (hman : man < 2 ^ 23) :
    ofBits32 (s * 2 ^ 31 + ex * 2 ^ 23 + man) =
      some ((if s = 1 then -1 else 1) *
        (if ex = 0 then (man : Rat) * pow2 (-149)
         else ((2 ^ 23 + man : Nat) : Rat) * pow2 ((ex : Int) - 150))) := by
  have h1 : (s * 2 ^ 31 + ex * 2 ^ 23 + man) / 2 ^ 31 % 2 = s := by
    norm_num at hman ⊢; omega
  have h2 : (s * 2 ^ 31 + ex * 2 ^ 23 + man) / 2 ^ 23 % 256 = ex := by
    norm_num at hman ⊢; omega
  have h3 : (s * 2 ^ 31 + ex * 2 ^ 23 + man) % 2 ^ 23 = man := by
    norm_num at hman ⊢; omega
  unfold ofBits32
  simp only [h1, h2, h3]
  have hne : ¬ ex = 255 := by omega
  rw [if_neg hne]
  by_cases hs1 : s = 1 <;> by_cases hz : ex = 0 <;> simp [hs1, hz]

/-- `pow2` is the power of two also for negative exponents -/
theorem pow2_spec (e : Int) : pow2 e = (2 : Rat) ^ e := by
  unfold pow2
  by_cases h : 0 ≤ e
  · rw [if_pos h]
    obtain ⟨n, rfl⟩ := Int.eq_ofNat_of_zero_le h
    simp
  · rw [if_neg h]
    obtain ⟨n, rfl⟩ := Int.exists_eq_neg_ofNat (le_of_lt (not_le.mp h))
    simp

/-- an integer below 2^53 in magnitude is a binary64 value: the double nearest to a fixnum grid
    point `m · 2^k` decodes to exactly that integer (normal numbers, `2^52 ≤ m < 2^53`, `k ≥ 0`) -/
theorem ofBits64_integer (m k : Nat) (hm1 : 2 ^ 52 ≤ m) (hm2 : m < 2 ^ 53) (hk : k + 1075 < 2047) :
    ofBits64 ((k + 1075) * 2 ^ 52 + (m - 2 ^ 52)) = some ((m : Rat) * 2 ^ k) := by
  have := ofBits64_fields 0 (k + 1075) (m - 2 ^ 52) (by omega) hk (by norm_num at hm1 hm2 ⊢; omega)
  simp only [Nat.zero_mul, Nat.zero_add] at this
  rw [this]
  have hne : ¬ (k + 1075 = 0) := by omega
  simp only [hne, if_false]
  have e1 : 2 ^ 52 + (m - 2 ^ 52) = m := by omega
  rw [e1, pow2_spec]
  simp



/-- binary32: `m · 2^k` with `2^23 ≤ m < 2^24` decodes to exactly that integer, so the single-floats
    from 2^24 on are `2^k` apart: `2^24 + 1` lies strictly between two adjacent single-floats (the
    float-coupled sweep of the harness compares exactly such integers with the floats around them) -/
theorem ofBits32_integer (m k : Nat) (hm1 : 2 ^ 23 ≤ m) (hm2 : m < 2 ^ 24) (hk : k + 150 < 255) :
    ofBits32 ((k + 150) * 2 ^ 23 + (m - 2 ^ 23)) = some ((m : Rat) * 2 ^ k) := by
  have := ofBits32_fields 0 (k + 150) (m - 2 ^ 23) (by omega) hk (by norm_num at hm1 hm2 ⊢; omega)
  simp only [Nat.zero_mul, Nat.zero_add] at this
  rw [this]
  have hne : ¬ (k + 150 = 0) := by omega
  simp only [hne, if_false]
  have e1 : 2 ^ 23 + (m - 2 ^ 23) = m := by omega
  rw [e1, pow2_spec]
  simp

/-! ## non-vacuity: concrete instances meeting the hypotheses above -/

example : floorDiv 7 (-2) = .ok (-4, -1) := by decide +kernel
example : roundDiv 5 2 = .ok (2, 1) := by decide +kernel
example : roundDiv 7 2 = .ok (4, -1) := by decide +kernel
example : truncDiv (-7) 2 = .ok (-3, -1) := by decide +kernel
example : ceilDiv 7 2 = .ok (4, -1) := by decide +kernel
example : isqrt 17 = .ok 4 := by decide +kernel
example : ash (-5) (-1) = -3 := by decide +kernel
example : land (-12) 10 = 0 := by decide +kernel
example : typeOf 9223372036854775808 = "bignum" := by decide +kernel

example : ofBits64 0x3FF0000000000000 = some 1 := by decide +kernel
example : ofBits64 0x43E0000000000000 = some 9223372036854775808 := by decide +kernel
example : ofBits64 0xC3E0000000000000 = some (-9223372036854775808) := by decide +kernel
example : ofBits64 0x3FE0000000000000 = some (1 / 2) := by decide +kernel
example : ofBits64 0x7FF0000000000000 = none := by decide +kernel
example : ofBits32 0x5F000000 = some 9223372036854775808 := by decide +kernel
example : ofBits32 0x3F800000 = some 1 := by decide +kernel
example : ofBits32 0x4B800000 = some 16777216 ∧ ofBits32 0x4B800001 = some 16777218 ∧ lt 16777216 16777217 = true ∧ lt 16777217 16777218 = true := by decide +kernel
example : truncDiv (-7) 2 = .ok (-3, -1) ∧ roundDiv 5 (-2) = .ok (-2, 1) ∧ ceilDiv 7 (-2) = .ok (-3, 1) := by decide +kernel
example : modR (-7) 2 = .ok 1 ∧ remR (-7) 2 = .ok (-1) ∧ modR (1/2) (1/3) = .ok (1/6) := by decide +kernel
example : gcdAll [12, -18, 30] = 6 ∧ lcmAll [4, -6, 10] = 60 := by decide +kernel
example : chain lt [1, 2, 3] = true ∧ chain lt [1, 3, 2] = false ∧ allDiff [1, 2, 1] = false := by decide +kernel
example : minAll [3, -1/2, 2] = .ok (-1/2) ∧ maxAll [3, -1/2, 7/2] = .ok (7/2) := by decide +kernel
example : subAll [10, 1, 2] = .ok 7 ∧ divAll [12, 2, 3] = .ok 2 ∧ divAll [1, 2, 0, 3] = .error .divZero := by decide +kernel

end SlipVerif.Num
