import SlipVerif.Gen.ConcCode
import SlipVerif.Model.Conc
import SlipVerif.Model.Close
/-
  C17 — obligations over the regenerated structural facts of the Go code (Gen/ConcCode.lean,
  extract/conccode.go). Each states a fact the abstract semantics of Model/Conc.lean takes for
  granted about the primitive it abstracts; a change of the code that falsifies one breaks this
  module (the check then searches a failing input: `--gen-broken`).
-/
namespace SlipVerif.GenC17
open SlipVerif.Gen.ConcCode SlipVerif.Conc

/-- `(range fn channel)` receives only with the closed check and never decides from the channel's
    length: it ends exactly when the channel is closed and empty and delivers nothing that was not
    pushed (a receive without the check delivers nil from a closed channel) -/
theorem range_receives_with_closed_check :
    rangeUnchecked = 0 ∧ 0 < rangeChecked ∧ rangeLenUses = 0 ∧ rangeNonBlocking = false := by decide

/-- the range step the code implements (receives without the closed check iff the code has such a
    receive) is the model's: the theorems of Theorems/C17Close.lean (`range_close_exactly_once`,
    `close_nothing_invented`) are about `Close.step cap false` -/
theorem range_step_is_the_models (cap : Option Nat) (st : Close.St) (a : Close.Act) :
    Close.step cap (decide (rangeUnchecked ≠ 0)) st a = Close.step cap false st a := by
  have : decide (rangeUnchecked ≠ 0) = false := by decide
  rw [this]

/-- `channel-pop` is one blocking receive and `channel-push` one blocking send (model: `pop` does
    not move on an empty queue, `push` does not move on a full one; nothing is dropped or invented) -/
theorem pop_and_push_block :
    popReceives = 1 ∧ popNonBlocking = false ∧ pushSends = 1 ∧ pushNonBlocking = false := by decide

/-- `with-mutex-lock` locks once and defers the unlock unconditionally -/
theorem with_mutex_lock_defers_unlock :
    wmlLockCalls = 1 ∧ wmlDeferredUnlock = true ∧ wmlPlainUnlocks = 0 := by decide

/-- what `with-mutex-lock` amounts to when the unlock is / is not deferred: without the defer the
    unlock is reached on the normal exit only -/
def compileLockAs (deferred : Bool) (m : Nat) (body : List Op × Bool) : List Op × Bool :=
  if deferred || !body.2 then (.lock m :: body.1 ++ [.unlock m], body.2) else (.lock m :: body.1, body.2)

/-- with the code's actual discipline this is the model's `compile` of `withLock` (the statement
    `compile_balanced` / `mutex_free_after_any_exit` are about) -/
theorem with_mutex_lock_is_the_models (m : Nat) (b : Stmt) :
    compileLockAs wmlDeferredUnlock m (compile b) = compile (.withLock m b) := by
  simp [compileLockAs, wmlDeferredUnlock, compile]

/-- `run` synchronizes the caller's scope chain before the new thread exists; synchronizing never
    replaces a mutex that may be in use and reaches every parent scope -/
theorem scopes_are_synchronized_before_sharing :
    runSyncBeforeGo = true ∧ setSyncGuarded = true ∧ syncAllGuarded = true ∧ syncAllAllParents = true := by
  decide

/-- generic dispatch: lookup, construction and caching of the effective method form one locked
    region (released on every exit); `defmethod` updates the tables under the same lock -/
theorem dispatch_cache_is_one_locked_region :
    findMethodLockCalls = 1 ∧ findMethodDeferredUnlock = true ∧ findMethodPlainUnlocks = 0 ∧
      addMethodWritesLocked = true := by decide

/-- a new global variable enters the package's table under the package lock -/
theorem package_variable_table_written_locked : pkgSetWriteLocked = true := by decide

/-- the printer keeps nothing between calls: no method of `Printer` writes a package level variable
    (pads, buffers or caches grown on demand would be shared by every routine that prints; the
    race on such a variable is only visible to the race detector of the thorough tier) -/
theorem printer_methods_write_no_shared_variable :
    0 < printerMethods ∧ printerSharedWrites = 0 := by decide

end SlipVerif.GenC17
