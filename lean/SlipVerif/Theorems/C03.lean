import SlipVerif.Lemmas.PrinterMain
import SlipVerif.Lemmas.PrinterPretty
import SlipVerif.Lemmas.PrinterPrettyRead
import SlipVerif.Lemmas.Wire6
/-
  C03 — printing then reading gives back an equal object of the same type; pretty printing changes
  only white space.

  Theorems about `SlipVerif.Printer` (Model/Printer.lean, Model/PrinterPretty.lean — the very
  definitions the `slipmodel` driver executes). `TablesOK` collects the decidable facts the proofs
  need from the byte tables regenerated from the repository (`needPipeMap`, `valueMode`,
  `tokenMode`, `charMode`, character names); it is proved by `decide` in `Theorems/GenC03.lean` on
  every run, which also instantiates the theorems below.

  The full statement of the property on the model:

    print_read_roundtrip:
      ∀ cfg margin x, x built from readable data (incl. floats of each format), cfg any point of the
      grid base 2..36 × radix × case × pretty × margin 1..200 × readably × array that is documented to
      keep output readable →
        readAll (printFlat cfg x) = x  ∧  readAll (printPretty cfg margin x) = x   (equal, same type)

  What is proved is `print_read_roundtrip_partial` (flat text) and `pretty_read_roundtrip` (pretty
  text, every margin) for the whole float-free universe, every readable configuration, no size or
  depth bound, together with `pretty_only_whitespace` (the pretty text is the flat token sequence
  with blank-only separators). Missing: floats (Lean's `Float` is opaque to the kernel; they are
  covered by the witness search on the implementation only).
-/
namespace SlipVerif.Theorems.C03
open SlipVerif.Printer

/-- int_roundtrip: for every base 2..36 and every integer, the digits the printer writes parse
    back to the integer. -/
theorem int_roundtrip (b : Nat) (hb : 2 ≤ b) (hb36 : b ≤ 36) (n : Int) :
    parseSigned b (intText b n) = some n :=
  parseSigned_intText b hb hb36 n

example : parseSigned 36 (intText 36 (-46655)) = some (-46655) := by decide
example : intText 2 5 = ['1', '0', '1'] ∧ intText 16 (-255) = ['-', 'f', 'f'] := by decide

/-- radix-prefixed round trip: with `*print-radix*` an integer printed in any base 2..36
    (`#b…`, `#o…`, `#x…`, `#NNr…`, or `…​.` for base 10) reads back under the standard read base;
    without it, the base-10 text does. -/
theorem radix_int_roundtrip (hT : TablesOK) (cfg : PCfg) (hb : 2 ≤ cfg.base) (hb36 : cfg.base ≤ 36)
    (hdom : cfg.radix = true ∨ cfg.base = 10) (n : Int) (rest : List Char) (hrest : termOrEnd rest = true)
    (fuel : Nat) :
    read1 10 (fuel + 1) (printInt cfg n ++ rest) = .ok (.int n, rest) :=
  read1_printInt hT cfg hb hb36 hdom n rest hrest fuel

example : printInt { base := 7, radix := true } (-10) = "#7r-13".toList := by decide
example : printInt { base := 10, radix := true } 42 = "42.".toList := by decide

/-- ratio round trip: a ratio in lowest terms, with or without the radix prefix. -/
theorem ratio_roundtrip (hT : TablesOK) (cfg : PCfg) (hb : 2 ≤ cfg.base) (hb36 : cfg.base ≤ 36)
    (hdom : cfg.radix = true ∨ cfg.base = 10) (num : Int) (den : Nat) (hden : 2 ≤ den)
    (hco : Nat.gcd num.natAbs den = 1) (rest : List Char) (hrest : termOrEnd rest = true) (fuel : Nat) :
    read1 10 (fuel + 1) (printRatio cfg num den ++ rest) = .ok (.ratio num den, rest) :=
  read1_printRatio hT cfg hb hb36 hdom num den hden hco rest hrest fuel

example : printRatio { base := 2, radix := true } 1 3 = "#b1/11".toList := by decide
example : (2 : Nat) ≤ 3 ∧ Nat.gcd (1 : Int).natAbs 3 = 1 := by decide

/-- string_roundtrip: escape then unescape is the identity for every string (every sequence of
    Unicode scalar values): the escaped text followed by the closing quote reads back as the string
    and leaves the rest of the input. -/
theorem string_roundtrip (s rest : List Char) (fuel : Nat) (acc : List Char) (h : s.length < fuel) :
    readDelimited '"' fuel (s.flatMap strEsc ++ '"' :: rest) acc = .ok (acc.reverse ++ s, rest) :=
  readDelimited_str s rest fuel acc h

/-- … and through the reader's entry point, for a readably printed string. -/
theorem string_read_roundtrip (cfg : PCfg) (hr : cfg.readably = true) (s rest : List Char) (fuel rbase : Nat) :
    read1 rbase (fuel + 1) (printStr cfg s ++ rest) = .ok (.str s, rest) :=
  read1_str cfg hr s rest fuel rbase

example : printStr {} ['a', '"', '\\', Char.ofNat 10, Char.ofNat 1] = "\"a\\\"\\\\\\n\\u0001\"".toList := by decide

/-- symbol_roundtrip, names that need bars (`needsBar`): the name between bars, with `|`, `\` and
    control characters escaped, reads back exactly. -/
theorem symbol_roundtrip_barred (name rest : List Char) (fuel rbase : Nat) :
    read1 rbase (fuel + 1) (('|' :: name.flatMap barEsc ++ ['|']) ++ rest) = .ok (.sym name, rest) :=
  read1_barred name rest fuel rbase

/-- symbol_roundtrip, names that need no bars: the name (in any `*print-case*`) is one token, is
    not taken for a number, `t` or `nil`, and reads back as the symbol with the printed name. -/
theorem symbol_roundtrip_bare (hT : TablesOK) (cs : Case) (base : Nat) (name : List Char)
    (hnb : needsBar base name = false)
    (hnt : name.map lowerC ≠ ['t']) (hnn : name.map lowerC ≠ ['n', 'i', 'l'])
    (rest : List Char) (hrest : termOrEnd rest = true) (fuel : Nat) :
    read1 10 (fuel + 1) (caseName cs name ++ rest) = .ok (.sym (caseName cs name), rest) :=
  read1_sym_bare hT cs base name hnb hnt hnn rest hrest fuel

/-- symbol_roundtrip, both cases, as the printer chooses; the name read is equal to the original
    under slip's case-folding symbol equality. -/
theorem symbol_roundtrip (hT : TablesOK) (cfg : PCfg) (name : List Char)
    (hnt : name.map lowerC ≠ ['t']) (hnn : name.map lowerC ≠ ['n', 'i', 'l'])
    (rest : List Char) (hrest : termOrEnd rest = true) (fuel : Nat) :
    read1 10 (fuel + 1) (printSym cfg name ++ rest) = .ok (.sym (caseName cfg.case name), rest) ∧
      symEq name (caseName cfg.case name) = true :=
  ⟨read1_printSym hT cfg name hnt hnn rest hrest fuel, by simp [symEq, lower_caseName]⟩

example : needsBar 10 "a b".toList = true ∧ needsBar 10 "123".toList = true ∧ needsBar 16 "ff".toList = true ∧
    needsBar 10 "ff".toList = false ∧ needsBar 10 "&rest".toList = false := by decide
example : "foo".toList.map lowerC ≠ ['t'] ∧ "foo".toList.map lowerC ≠ ['n', 'i', 'l'] := by decide

/-- char_roundtrip: every character except code 0 (names, `#\u00XX`, plain, any Unicode scalar)
    reads back from its printed form. -/
theorem char_roundtrip (hT : TablesOK) (c : Char) (hc : c.toNat ≠ 0) (rest : List Char)
    (hrest : termOrEnd rest = true) (fuel rbase : Nat) :
    read1 rbase (fuel + 1) (printChr c ++ rest) = .ok (.chr c, rest) :=
  read1_chr hT c hc rest hrest fuel rbase

example : ('('.toNat ≠ 0) ∧ termOrEnd [')'] = true := by decide

/-- tokens_roundtrip (structure): for every nesting of lists, dotted lists, vectors and arrays over
    well-formed leaves, the reader takes the printed text of an object (followed by anything that
    starts with a terminator) and gives back the object, and takes the printed rest of a list and
    gives back its elements. No bound on size or depth; the fuel needed is linear in the number of
    constructors. -/
theorem structure_roundtrip (hT : TablesOK) (cfg : PCfg) (hC : CfgOK cfg) (x : Obj) (hwf : WF x) :
    (∀ (rest : List Char) (fuel : Nat), termOrEnd rest = true → 3 * osize x + 4 ≤ fuel →
      read1 10 fuel (printFlat cfg x ++ rest) = .ok (recase cfg.case x, rest)) ∧
    (∀ (rest : List Char) (fuel : Nat) (acc : List Obj), 3 * osize x + 6 ≤ fuel →
      readElems 10 fuel (printTail cfg x ++ rest) acc = .ok (acc.reverse ++ tailElems (recase cfg.case x), rest)) :=
  ⟨(struct_roundtrip hT cfg hC x).1 hwf, (struct_roundtrip hT cfg hC x).2 hwf⟩

/-- print_read_roundtrip_partial: for every float-free object built from readable data (`WF`) and
    every configuration documented to keep output readable (`CfgOK`: base 2..36 with radix or base
    10, any case, readably, array), reading the flat printed text gives exactly one object, equal to
    the original (symbols up to case, as slip's equality) and of the same kind. -/
theorem print_read_roundtrip_partial (hT : TablesOK) (cfg : PCfg) (hC : CfgOK cfg) (x : Obj) (hwf : WF x) :
    ∃ y, readAll 10 (printFlat cfg x) = .ok y ∧ objEq x y = true := by
  refine ⟨recase cfg.case x, ?_, objEq_recase cfg.case x⟩
  have hlen := (size_le_length hT cfg hC x).1 hwf
  have h := (struct_roundtrip hT cfg hC x).1 hwf [] (3 * (printFlat cfg x).length + 4) rfl (by omega)
  rw [List.append_nil] at h
  unfold readAll
  rw [h]
  rfl

-- a non-trivial instance of the hypotheses
example : CfgOK { base := 16, radix := true, case := .cap, readably := true, array := true } :=
  ⟨by decide, by decide, Or.inl rfl, rfl, rfl⟩
example : WF (.cons (.sym "a b".toList) (.cons (.vec (.cons (.int (-255)) .nil)) (.ratio 1 3))) := by
  simp [WF, isList, dotSym]
  decide

/-- pretty_only_whitespace (token level): for every object, configuration, margin and starting
    column, the pretty text is the same sequence of token texts as the flat text, the pieces between
    them are blanks (spaces and newlines) only, and there is a non-empty one exactly where the flat
    text has its single space. -/
theorem pretty_only_whitespace (cfg : PCfg) (margin offset closes : Nat) (x : Obj) :
    (prettyPieces cfg margin offset closes x).filterMap Piece.tok? = (flatPieces cfg x).filterMap Piece.tok? ∧
    (∀ p ∈ prettyPieces cfg margin offset closes x, Piece.wsOnly p = true) ∧
    (prettyPieces cfg margin offset closes x).map Piece.isSep = (flatPieces cfg x).map Piece.isSep ∧
    renderPieces (flatPieces cfg x) = printFlat cfg x :=
  pretty_pieces_spec cfg margin offset closes x

/-- pretty_read_roundtrip (character level): for every float-free object built from readable data,
    every readable configuration and every right margin, reading the pretty text gives exactly one
    object, the same one the flat text gives, equal to the original: the reader skips the layout's
    blanks and newlines. -/
theorem pretty_read_roundtrip (hT : TablesOK) (cfg : PCfg) (hC : CfgOK cfg) (margin : Nat) (x : Obj) (hwf : WF x) :
    ∃ y, readAll 10 (printPretty cfg margin x) = .ok y ∧ readAll 10 (printFlat cfg x) = .ok y ∧ objEq x y = true := by
  refine ⟨recase cfg.case x, ?_, ?_, objEq_recase cfg.case x⟩
  · have hlen := (pretty_size_le_length hT cfg hC margin x).1 hwf 0 0
    have h := (pretty_struct_roundtrip hT cfg hC margin x).1 hwf 0 0 []
      (3 * (printPretty cfg margin x).length + 4) rfl (by unfold printPretty; omega)
    rw [List.append_nil] at h
    unfold readAll
    unfold printPretty at h ⊢
    rw [h]
    rfl
  · have hlen := (size_le_length hT cfg hC x).1 hwf
    have h := (struct_roundtrip hT cfg hC x).1 hwf [] (3 * (printFlat cfg x).length + 4) rfl (by omega)
    rw [List.append_nil] at h
    unfold readAll
    rw [h]
    rfl

example : printPretty { base := 10 } 14 (.cons (.sym "alpha".toList) (.cons (.sym "beta".toList) (.cons (.sym "gamma".toList) .nil))) =
    "(alpha beta\n       gamma)".toList := by decide

/-- wire_roundtrip: a payload of at most `maxMessageSize` (1 MiB) bytes framed with the 6-digit
    hexadecimal length header is given back unchanged by the reader of the wire, together with
    whatever follows it on the stream. -/
theorem wire_roundtrip (payload rest : List Nat) (h : payload.length ≤ SlipVerif.Wire6.maxMessageSize) :
    SlipVerif.Wire6.unframe (SlipVerif.Wire6.frame payload).head ((SlipVerif.Wire6.frame payload).body ++ rest) =
      some (payload, rest) := by
  unfold SlipVerif.Wire6.unframe SlipVerif.Wire6.frame
  have hm : SlipVerif.Wire6.maxMessageSize = 1048576 := rfl
  simp only [SlipVerif.Wire6.header_length, if_true,
    SlipVerif.Wire6.parseHex_header payload.length (by omega)]
  have : payload.length ≤ SlipVerif.Wire6.maxMessageSize ∧ payload.length ≤ (payload ++ rest).length := by
    constructor
    · exact h
    · simp
  simp [this]

example : SlipVerif.Wire6.header 255 = "0000FF".toList ∧ (255 : Nat) ≤ SlipVerif.Wire6.maxMessageSize := by decide

end SlipVerif.Theorems.C03
