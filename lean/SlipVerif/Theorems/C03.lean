import SlipVerif.Lemmas.PrinterMain
import SlipVerif.Lemmas.PrinterPretty
import SlipVerif.Lemmas.PrinterPrettyRead
import SlipVerif.Lemmas.PrinterReadBase
import SlipVerif.Lemmas.Wire6
import SlipVerif.Lemmas.PrinterReadBaseStruct
import SlipVerif.Lemmas.PrinterPrettyReadGen
/-
  C03 — printing then reading gives back an equal object of the same type; pretty printing changes
  only white space.

  Theorems about `SlipVerif.Printer` (Model/Printer.lean, Model/PrinterPretty.lean — the very
  definitions the `slipmodel` driver executes). `TablesOK` collects the decidable facts the proofs
  need from the byte tables regenerated from the repository (`needPipeMap`, `valueMode`,
  `tokenMode`, `charMode`, character names); it is proved by `decide` in `Theorems/GenC03.lean` on
  every run, which also instantiates the theorems below.

  The full statement of the property on the model:

    print_read_roundtrip:
      ∀ cfg margin x, x built from readable data (incl. floats of each format), cfg any point of the
      grid base 2..36 × radix × case × pretty × margin 1..200 × readably × array that is documented to
      keep output readable →
        readAll (printFlat cfg x) = x  ∧  readAll (printPretty cfg margin x) = x   (equal, same type)

  What is proved is `print_read_roundtrip` (flat text) and `pretty_read_roundtrip` (pretty text,
  every margin) for the whole universe, every readable configuration, no size or depth bound,
  together with `pretty_only_whitespace` (the pretty text is the flat token sequence with blank-only
  separators). Floats are in the universe at token level: a finite float of each format is the
  decimal (sign, shortest digits, exponent) that `strconv.AppendFloat(…, 'e', -1, bits)` /
  `big.Float.Append` write for it; `float_roundtrip` proves that the printed token (exponent marker
  `s` / `d` / `L`, signed two-digit exponent) reads back to the same format, sign, digits and
  exponent under the standard `*read-default-float-format*`. What the model cannot state is the
  shortest-round-trip contract between a binary value and that decimal (Lean's `Float` is opaque to
  the kernel): it is the explicit hypothesis of `float_codec_roundtrip`, and the harness checks that
  hypothesis on the implementation for boundary and random floats of each format under every
  `*read-default-float-format*`.
-/
namespace SlipVerif.Theorems.C03
open SlipVerif.Printer

/-- int_roundtrip: for every base 2..36 and every integer, the digits the printer writes parse
    back to the integer. -/
theorem int_roundtrip (b : Nat) (hb : 2 ≤ b) (hb36 : b ≤ 36) (n : Int) :
    parseSigned b (intText b n) = some n :=
  parseSigned_intText b hb hb36 n

example : parseSigned 36 (intText 36 (-46655)) = some (-46655) := by decide
example : intText 2 5 = ['1', '0', '1'] ∧ intText 16 (-255) = ['-', 'f', 'f'] := by decide

/-- radix-prefixed round trip: with `*print-radix*` an integer printed in any base 2..36
    (`#b…`, `#o…`, `#x…`, `#NNr…`, or `…​.` for base 10) reads back under the standard read base;
    without it, the base-10 text does. -/
theorem radix_int_roundtrip (hT : TablesOK) (cfg : PCfg) (hb : 2 ≤ cfg.base) (hb36 : cfg.base ≤ 36)
    (hdom : cfg.radix = true ∨ cfg.base = 10) (n : Int) (rest : List Char) (hrest : termOrEnd rest = true)
    (fuel : Nat) :
    read1 10 (fuel + 1) (printInt cfg n ++ rest) = .ok (.int n, rest) :=
  read1_printInt hT cfg hb hb36 hdom n rest hrest fuel

example : printInt { base := 7, radix := true } (-10) = "#7r-13".toList := by decide
example : printInt { base := 10, radix := true } 42 = "42.".toList := by decide

/-- int_readbase_roundtrip: without `*print-radix*` an integer printed in any base 2..36 reads back
    when `*read-base*` is bound to the print base — the same integer, hence (`typeOf` is a function of
    the value) a fixnum for a fixnum and a bignum for a bignum, however many digits the base needs —
    unless its digits spell the tokens `t` or `nil`. -/
theorem int_readbase_roundtrip (hT : TablesOK) (b : Nat) (hb : 2 ≤ b) (hb36 : b ≤ 36) (n : Int)
    (ht : intText b n ≠ ['t']) (hn : intText b n ≠ ['n', 'i', 'l'])
    (rest : List Char) (hrest : termOrEnd rest = true) (fuel : Nat) :
    ∃ y, read1 b (fuel + 1) (printInt { base := b, radix := false } n ++ rest) = .ok (y, rest) ∧
      y = .int n ∧ typeOf y = typeOf (.int n) := by
  refine ⟨.int n, ?_, rfl, rfl⟩
  have : printInt { base := b, radix := false } n = intText b n := by simp [printInt]
  rw [this]
  exact read1_int_readbase hT b hb hb36 n ht hn rest hrest fuel

/-- the exceptions of `int_readbase_roundtrip` exist only in the bases above 29 (`t`) and 23 (`nil`) -/
theorem int_readbase_exceptions (b : Nat) (hb : 2 ≤ b) (hb36 : b ≤ 36) (n : Int) :
    (intText b n = ['t'] → 29 < b) ∧ (intText b n = ['n', 'i', 'l'] → 23 < b) :=
  ⟨intText_t b hb hb36 n, intText_nil b hb hb36 n⟩

example : intText 2 524288 = "10000000000000000000".toList ∧ typeOf (.int 524288) = .fixnum := by decide
example : intText 30 29 = ['t'] ∧ intText 24 13701 = ['n', 'i', 'l'] := by decide

/-- ratio_readbase_roundtrip: without `*print-radix*` a ratio in lowest terms printed in any base 2..36
    reads back, with `*read-base*` bound to the print base, as the same ratio (a token with a slash never
    spells `t` or `nil`, so there is no exception as for integers). -/
theorem ratio_readbase_roundtrip (hT : TablesOK) (b : Nat) (hb : 2 ≤ b) (hb36 : b ≤ 36) (num : Int) (den : Nat)
    (hden : 2 ≤ den) (hco : Nat.gcd num.natAbs den = 1)
    (rest : List Char) (hrest : termOrEnd rest = true) (fuel : Nat) :
    ∃ y, read1 b (fuel + 1) (printRatio { base := b, radix := false } num den ++ rest) = .ok (y, rest) ∧
      y = .ratio num den ∧ typeOf y = .ratio :=
  ⟨_, read1_ratio_readbase hT b hb hb36 num den hden hco rest hrest fuel, rfl, rfl⟩

example : printRatio { base := 36, radix := false } (-71) 1295 = "-1z/zz".toList := by decide

/-- equal objects have the same type: the reader's result for a printed object has the type of the
    original, integers included (fixnum / bignum by value). -/
theorem equal_same_type (x y : Obj) (h : objEq x y = true) : typeOf x = typeOf y := by
  cases x <;> cases y <;> simp [objEq] at h <;> simp [typeOf]
  · rw [h]
  · rename_i f1 _ _ _ f2 _ _ _
    obtain ⟨⟨⟨hf, _⟩, _⟩, _⟩ := h
    subst hf
    cases f1 <;> rfl

/-- ratio round trip: a ratio in lowest terms, with or without the radix prefix. -/
theorem ratio_roundtrip (hT : TablesOK) (cfg : PCfg) (hb : 2 ≤ cfg.base) (hb36 : cfg.base ≤ 36)
    (hdom : cfg.radix = true ∨ cfg.base = 10) (num : Int) (den : Nat) (hden : 2 ≤ den)
    (hco : Nat.gcd num.natAbs den = 1) (rest : List Char) (hrest : termOrEnd rest = true) (fuel : Nat) :
    read1 10 (fuel + 1) (printRatio cfg num den ++ rest) = .ok (.ratio num den, rest) :=
  read1_printRatio hT cfg hb hb36 hdom num den hden hco rest hrest fuel

example : printRatio { base := 2, radix := true } 1 3 = "#b1/11".toList := by decide
example : (2 : Nat) ≤ 3 ∧ Nat.gcd (1 : Int).natAbs 3 = 1 := by decide

/-- string_roundtrip: escape then unescape is the identity for every string (every sequence of
    Unicode scalar values): the escaped text followed by the closing quote reads back as the string
    and leaves the rest of the input. -/
theorem string_roundtrip (s rest : List Char) (fuel : Nat) (acc : List Char) (h : s.length < fuel) :
    readDelimited '"' fuel (s.flatMap strEsc ++ '"' :: rest) acc = .ok (acc.reverse ++ s, rest) :=
  readDelimited_str s rest fuel acc h

/-- … and through the reader's entry point, for a readably printed string. -/
theorem string_read_roundtrip (cfg : PCfg) (hr : cfg.readably = true) (s rest : List Char) (fuel rbase : Nat) :
    read1 rbase (fuel + 1) (printStr cfg s ++ rest) = .ok (.str s, rest) :=
  read1_str cfg hr s rest fuel rbase

example : printStr {} ['a', '"', '\\', Char.ofNat 10, Char.ofNat 1] = "\"a\\\"\\\\\\n\\u0001\"".toList := by decide

/-- symbol_roundtrip, names that need bars (`needsBar`): the name between bars, with `|`, `\` and
    control characters escaped, reads back exactly. -/
theorem symbol_roundtrip_barred (name rest : List Char) (fuel rbase : Nat) :
    read1 rbase (fuel + 1) (('|' :: name.flatMap barEsc ++ ['|']) ++ rest) = .ok (.sym name, rest) :=
  read1_barred name rest fuel rbase

/-- symbol_roundtrip, names that need no bars: the name (in any `*print-case*`) is one token, is
    not taken for a number, `t` or `nil`, and reads back as the symbol with the printed name. -/
theorem symbol_roundtrip_bare (hT : TablesOK) (cs : Case) (base : Nat) (name : List Char)
    (hnb : needsBar base name = false)
    (hnt : name.map lowerC ≠ ['t']) (hnn : name.map lowerC ≠ ['n', 'i', 'l'])
    (rest : List Char) (hrest : termOrEnd rest = true) (fuel : Nat) :
    read1 10 (fuel + 1) (caseName cs name ++ rest) = .ok (.sym (caseName cs name), rest) :=
  read1_sym_bare hT cs base name hnb hnt hnn rest hrest fuel

/-- symbol_roundtrip, both cases, as the printer chooses; the name read is equal to the original
    under slip's case-folding symbol equality. -/
theorem symbol_roundtrip (hT : TablesOK) (cfg : PCfg) (name : List Char)
    (hnt : name.map lowerC ≠ ['t']) (hnn : name.map lowerC ≠ ['n', 'i', 'l'])
    (rest : List Char) (hrest : termOrEnd rest = true) (fuel : Nat) :
    read1 10 (fuel + 1) (printSym cfg name ++ rest) = .ok (.sym (caseName cfg.case name), rest) ∧
      symEq name (caseName cfg.case name) = true :=
  ⟨read1_printSym hT cfg name hnt hnn rest hrest fuel, by simp [symEq, lower_caseName]⟩

example : needsBar 10 "a b".toList = true ∧ needsBar 10 "123".toList = true ∧ needsBar 16 "ff".toList = true ∧
    needsBar 10 "ff".toList = false ∧ needsBar 10 "&rest".toList = false := by decide
example : "foo".toList.map lowerC ≠ ['t'] ∧ "foo".toList.map lowerC ≠ ['n', 'i', 'l'] := by decide

/-- char_roundtrip: every character except code 0 (names, `#\u00XX`, plain, any Unicode scalar)
    reads back from its printed form. -/
theorem char_roundtrip (hT : TablesOK) (c : Char) (hc : c.toNat ≠ 0) (rest : List Char)
    (hrest : termOrEnd rest = true) (fuel rbase : Nat) :
    read1 rbase (fuel + 1) (printChr c ++ rest) = .ok (.chr c, rest) :=
  read1_chr hT c hc rest hrest fuel rbase

example : ('('.toNat ≠ 0) ∧ termOrEnd [')'] = true := by decide

/-- tokens_roundtrip (structure): for every nesting of lists, dotted lists, vectors and arrays over
    well-formed leaves, the reader takes the printed text of an object (followed by anything that
    starts with a terminator) and gives back the object, and takes the printed rest of a list and
    gives back its elements. No bound on size or depth; the fuel needed is linear in the number of
    constructors. -/
theorem structure_roundtrip (hT : TablesOK) (cfg : PCfg) (hC : CfgOK cfg) (x : Obj) (hwf : WF x) :
    (∀ (rest : List Char) (fuel : Nat), termOrEnd rest = true → 3 * osize x + 4 ≤ fuel →
      read1 10 fuel (printFlat cfg x ++ rest) = .ok (recase cfg.case x, rest)) ∧
    (∀ (rest : List Char) (fuel : Nat) (acc : List Obj), 3 * osize x + 6 ≤ fuel →
      readElems 10 fuel (printTail cfg x ++ rest) acc = .ok (acc.reverse ++ tailElems (recase cfg.case x), rest)) :=
  ⟨(struct_roundtrip hT cfg hC x).1 hwf, (struct_roundtrip hT cfg hC x).2 hwf⟩

/-- float_roundtrip: a finite float of any format (single, double, long), given by the decimal the
    shortest formatting writes for it (`FloatWF`: digits without leading / trailing zero, zero has
    none), printed readably — whatever `*print-base*`, `*print-radix*`, `*print-case*` are — reads
    back as the same format, sign, digits and exponent. -/
theorem float_roundtrip (hT : TablesOK) (cfg : PCfg) (hr : cfg.readably = true) (f : FFmt) (neg : Bool)
    (ds : List Nat) (e : Int) (hwf : FloatWF ds e) (rest : List Char) (hrest : termOrEnd rest = true) (fuel : Nat) :
    read1 10 (fuel + 1) (printFloat cfg f neg ds e ++ rest) = .ok (.flt f neg ds e, rest) :=
  read1_printFloat hT cfg hr f neg ds e hwf rest hrest fuel

example : printFloat { base := 16, radix := true } .single true [1, 5] 0 = "-1.5s+00".toList ∧
    printFloat {} .double false [1] 21 = "1d+21".toList ∧ printFloat {} .long false [] 0 = "0L+00".toList ∧
    printFloat { readably := false } .double false [1, 2, 5] 2 = "125".toList ∧
    printFloat { readably := false } .double false [1, 2, 5] (-5) = "1.25e-05".toList := by decide
example : FloatWF [1, 5] 0 ∧ FloatWF [] 0 := by
  refine ⟨⟨by decide, by decide, by decide, by decide⟩, ⟨by decide, by decide, by decide, by decide⟩⟩

/-- float_codec_roundtrip: the round trip on binary values under the shortest-round-trip contract.
    `B` is the set of binary values of a format (IEEE single / double, `big.Float`), `toDec` the
    decimal the implementation's shortest formatting gives, `ofDec` its parser. HYPOTHESES (checked on
    the implementation by the harness, not provable here): the formatting gives a canonical decimal
    and parsing is a left inverse of formatting. Then reading the printed token and parsing its decimal
    gives back the binary value. -/
theorem float_codec_roundtrip {B : Type} (toDec : B → Bool × List Nat × Int) (ofDec : Bool × List Nat × Int → B)
    (hcanon : ∀ b, FloatWF (toDec b).2.1 (toDec b).2.2) (hinv : ∀ b, ofDec (toDec b) = b)
    (hT : TablesOK) (cfg : PCfg) (hr : cfg.readably = true) (f : FFmt) (b : B)
    (rest : List Char) (hrest : termOrEnd rest = true) (fuel : Nat) :
    ∃ neg ds e, read1 10 (fuel + 1) (printFloat cfg f (toDec b).1 (toDec b).2.1 (toDec b).2.2 ++ rest) =
        .ok (.flt f neg ds e, rest) ∧ ofDec (neg, ds, e) = b :=
  ⟨(toDec b).1, (toDec b).2.1, (toDec b).2.2,
    read1_printFloat hT cfg hr f _ _ _ (hcanon b) rest hrest fuel, hinv b⟩

-- the hypotheses are satisfiable: decimals themselves, with the identity codec restricted to canonical ones
example : ∃ (toDec : Unit → Bool × List Nat × Int) (ofDec : Bool × List Nat × Int → Unit),
    (∀ b, FloatWF (toDec b).2.1 (toDec b).2.2) ∧ (∀ b, ofDec (toDec b) = b) :=
  ⟨fun _ => (false, [1, 5], 0), fun _ => (), fun _ => by
    show FloatWF [1, 5] 0
    exact ⟨by decide, by decide, by decide, by decide⟩, fun _ => rfl⟩

/-- print_read_roundtrip: for every object built from readable data (`WF`: integers of any size,
    ratios, finite floats of each format, strings, characters, symbols and keywords, lists, dotted
    lists, vectors, multi-dimensional arrays, any nesting) and every configuration documented to keep
    output readable (`CfgOK`: base 2..36 with radix or base 10, any case, readably, array), reading
    the flat printed text gives exactly one object, equal to the original (symbols up to case, as
    slip's equality) and of the same type. -/
theorem print_read_roundtrip (hT : TablesOK) (cfg : PCfg) (hC : CfgOK cfg) (x : Obj) (hwf : WF x) :
    ∃ y, readAll 10 (printFlat cfg x) = .ok y ∧ objEq x y = true := by
  refine ⟨recase cfg.case x, ?_, objEq_recase cfg.case x⟩
  have hlen := (size_le_length hT cfg hC x).1 hwf
  have h := (struct_roundtrip hT cfg hC x).1 hwf [] (3 * (printFlat cfg x).length + 4) rfl (by omega)
  rw [List.append_nil] at h
  unfold readAll
  rw [h]
  rfl

/-- … and the object read back has the same `type-of` (fixnum / bignum by value, the float format) -/
theorem print_read_same_type (hT : TablesOK) (cfg : PCfg) (hC : CfgOK cfg) (x : Obj) (hwf : WF x) :
    ∃ y, readAll 10 (printFlat cfg x) = .ok y ∧ objEq x y = true ∧ typeOf y = typeOf x := by
  obtain ⟨y, h1, h2⟩ := print_read_roundtrip hT cfg hC x hwf
  exact ⟨y, h1, h2, (equal_same_type x y h2).symm⟩

/-- the configuration matters only through `*print-case*`: two readable configurations (any two
    bases with radix, …) print texts that read back to objects equal to each other -/
theorem print_read_config_independent (hT : TablesOK) (c1 c2 : PCfg) (h1 : CfgOK c1) (h2 : CfgOK c2) (x : Obj) (hwf : WF x) :
    ∃ y1 y2, readAll 10 (printFlat c1 x) = .ok y1 ∧ readAll 10 (printFlat c2 x) = .ok y2 ∧
      objEq x y1 = true ∧ objEq x y2 = true ∧ typeOf y1 = typeOf y2 := by
  obtain ⟨y1, r1, e1, t1⟩ := print_read_same_type hT c1 h1 x hwf
  obtain ⟨y2, r2, e2, t2⟩ := print_read_same_type hT c2 h2 x hwf
  exact ⟨y1, y2, r1, r2, e1, e2, by rw [t1, t2]⟩

/-- structure_roundtrip_readbase: the structural induction for text WITHOUT radix marks read with
    `*read-base*` bound to `*print-base*` (`CfgRB`: base 2..36, `*print-radix*` off, readably, array): any
    nesting of lists, dotted lists, vectors and arrays over well-formed leaves whose integer leaves do not
    spell `t` / `nil` in that base (`LeavesOK (NoSpell base)`, see `int_readbase_exceptions`) reads back —
    integers and ratios through the digit patterns of the base, symbols because the printer bars every name
    that is a number of base 10 or of the print base, floats because the exponent sign keeps the token out
    of the integer pattern of every base (also where `d`, `s`, `l`, `e` are digits). -/
theorem structure_roundtrip_readbase (hT : TablesOK) (cfg : PCfg) (hC : CfgRB cfg) (x : Obj) (hwf : WF x)
    (hns : LeavesOK (NoSpell cfg.base) x) :
    (∀ (rest : List Char) (fuel : Nat), termOrEnd rest = true → 3 * osize x + 4 ≤ fuel →
      read1 cfg.base fuel (printFlat cfg x ++ rest) = .ok (recase cfg.case x, rest)) ∧
    (∀ (rest : List Char) (fuel : Nat) (acc : List Obj), 3 * osize x + 6 ≤ fuel →
      readElems cfg.base fuel (printTail cfg x ++ rest) acc = .ok (acc.reverse ++ tailElems (recase cfg.case x), rest)) :=
  ⟨(struct_roundtrip_readbase hT cfg hC x).1 hwf hns, (struct_roundtrip_readbase hT cfg hC x).2 hwf hns⟩

/-- print_read_roundtrip_readbase: the composite round trip for the second readable family of the grid —
    `*print-radix*` off, any `*print-base*` 2..36, the text read with `*read-base*` = `*print-base*`: exactly
    one object, equal to the original, of the same type. -/
theorem print_read_roundtrip_readbase (hT : TablesOK) (cfg : PCfg) (hC : CfgRB cfg) (x : Obj) (hwf : WF x)
    (hns : LeavesOK (NoSpell cfg.base) x) :
    ∃ y, readAll cfg.base (printFlat cfg x) = .ok y ∧ objEq x y = true ∧ typeOf y = typeOf x := by
  refine ⟨recase cfg.case x, ?_, objEq_recase cfg.case x, (equal_same_type x _ (objEq_recase cfg.case x)).symm⟩
  have hlen := (size_le_length_arr hT cfg hC.array x).1 hwf
  have h := (struct_roundtrip_readbase hT cfg hC x).1 hwf hns [] (3 * (printFlat cfg x).length + 4) rfl (by omega)
  rw [List.append_nil] at h
  unfold readAll
  rw [h]
  rfl

example : CfgRB { base := 16, radix := false, case := .up, readably := true, array := true } :=
  ⟨by decide, by decide, rfl, rfl, rfl⟩
example : LeavesOK (NoSpell 16) (.cons (.int 255) (.cons (.sym "face".toList) (.ratio 10 17))) := by
  simp [LeavesOK, NoSpell]
  decide
example : printFlat { base := 16, radix := false } (.cons (.int 255) (.cons (.sym "face".toList) (.ratio 10 17))) =
    "(ff |face| . a/11)".toList := by decide
-- the side condition is needed: 29 in base 36 is the token t
example : ¬ LeavesOK (NoSpell 36) (.cons (.int 29) .nil) := by
  simp [LeavesOK, NoSpell]
  decide

-- a non-trivial instance of the hypotheses
example : CfgOK { base := 16, radix := true, case := .cap, readably := true, array := true } :=
  ⟨by decide, by decide, Or.inl rfl, rfl, rfl⟩
example : WF (.cons (.sym "a b".toList) (.cons (.vec (.cons (.int (-255)) .nil)) (.ratio 1 3))) := by
  simp [WF, isList, dotSym]
  decide
example : WF (.cons (.flt .single true [1, 5] 0) (.flt .long false [] 0)) := by
  simp [WF, dotSym, FloatWF]

/-- pretty_only_whitespace (token level): for every object, configuration, margin and starting
    column, the pretty text is the same sequence of token texts as the flat text, the pieces between
    them are blanks (spaces and newlines) only, and there is a non-empty one exactly where the flat
    text has its single space. -/
theorem pretty_only_whitespace (cfg : PCfg) (margin offset closes : Nat) (x : Obj) :
    (prettyPieces cfg margin offset closes x).filterMap Piece.tok? = (flatPieces cfg x).filterMap Piece.tok? ∧
    (∀ p ∈ prettyPieces cfg margin offset closes x, Piece.wsOnly p = true) ∧
    (prettyPieces cfg margin offset closes x).map Piece.isSep = (flatPieces cfg x).map Piece.isSep ∧
    renderPieces (flatPieces cfg x) = printFlat cfg x :=
  pretty_pieces_spec cfg margin offset closes x

/-- pretty_read_roundtrip (character level): for every float-free object built from readable data,
    every readable configuration and every right margin, reading the pretty text gives exactly one
    object, the same one the flat text gives, equal to the original: the reader skips the layout's
    blanks and newlines. -/
theorem pretty_read_roundtrip (hT : TablesOK) (cfg : PCfg) (hC : CfgOK cfg) (margin : Nat) (x : Obj) (hwf : WF x) :
    ∃ y, readAll 10 (printPretty cfg margin x) = .ok y ∧ readAll 10 (printFlat cfg x) = .ok y ∧ objEq x y = true := by
  refine ⟨recase cfg.case x, ?_, ?_, objEq_recase cfg.case x⟩
  · have hlen := (pretty_size_le_length hT cfg hC margin x).1 hwf 0 0
    have h := (pretty_struct_roundtrip hT cfg hC margin x).1 hwf 0 0 []
      (3 * (printPretty cfg margin x).length + 4) rfl (by unfold printPretty; omega)
    rw [List.append_nil] at h
    unfold readAll
    unfold printPretty at h ⊢
    rw [h]
    rfl
  · have hlen := (size_le_length hT cfg hC x).1 hwf
    have h := (struct_roundtrip hT cfg hC x).1 hwf [] (3 * (printFlat cfg x).length + 4) rfl (by omega)
    rw [List.append_nil] at h
    unfold readAll
    rw [h]
    rfl

/-- the layout is immaterial: any two right margins give texts that read back to the same object -/
theorem pretty_margin_independent (hT : TablesOK) (cfg : PCfg) (hC : CfgOK cfg) (m1 m2 : Nat) (x : Obj) (hwf : WF x) :
    readAll 10 (printPretty cfg m1 x) = readAll 10 (printPretty cfg m2 x) := by
  obtain ⟨y1, h1, f1, _⟩ := pretty_read_roundtrip hT cfg hC m1 x hwf
  obtain ⟨y2, h2, f2, _⟩ := pretty_read_roundtrip hT cfg hC m2 x hwf
  rw [h1, h2]
  rw [f1] at f2
  exact f2

/-- pretty_read_roundtrip_readbase: the same for text without radix marks read with `*read-base*` =
    `*print-base*` (any base 2..36, every margin): the pretty text and the flat text read back to the same
    object, equal to the original. -/
theorem pretty_read_roundtrip_readbase (hT : TablesOK) (cfg : PCfg) (hC : CfgRB cfg) (margin : Nat) (x : Obj) (hwf : WF x)
    (hns : LeavesOK (NoSpell cfg.base) x) :
    ∃ y, readAll cfg.base (printPretty cfg margin x) = .ok y ∧ readAll cfg.base (printFlat cfg x) = .ok y ∧
      objEq x y = true ∧ typeOf y = typeOf x := by
  refine ⟨recase cfg.case x, ?_, ?_, objEq_recase cfg.case x, (equal_same_type x _ (objEq_recase cfg.case x)).symm⟩
  · have hlen := (pretty_size_le_length_arr hT cfg hC.array margin x).1 hwf 0 0
    have h := (pretty_struct_roundtrip_gen hT (leafRead_readbase hT cfg hC) margin x).1 hwf hns 0 0 []
      (3 * (printPretty cfg margin x).length + 4) rfl (by unfold printPretty; omega)
    rw [List.append_nil] at h
    unfold readAll
    unfold printPretty at h ⊢
    rw [h]
    rfl
  · have hlen := (size_le_length_arr hT cfg hC.array x).1 hwf
    have h := (struct_roundtrip_readbase hT cfg hC x).1 hwf hns [] (3 * (printFlat cfg x).length + 4) rfl (by omega)
    rw [List.append_nil] at h
    unfold readAll
    rw [h]
    rfl

/-- … and any two right margins give texts that read back to the same object -/
theorem pretty_margin_independent_readbase (hT : TablesOK) (cfg : PCfg) (hC : CfgRB cfg) (m1 m2 : Nat) (x : Obj) (hwf : WF x)
    (hns : LeavesOK (NoSpell cfg.base) x) :
    readAll cfg.base (printPretty cfg m1 x) = readAll cfg.base (printPretty cfg m2 x) := by
  obtain ⟨y1, h1, f1, _⟩ := pretty_read_roundtrip_readbase hT cfg hC m1 x hwf hns
  obtain ⟨y2, h2, f2, _⟩ := pretty_read_roundtrip_readbase hT cfg hC m2 x hwf hns
  rw [h1, h2]
  rw [f1] at f2
  exact f2

example : printPretty { base := 16, radix := false } 9 (.cons (.int 255) (.cons (.sym "face".toList) (.cons (.ratio 10 17) .nil))) =
    "(ff\n |face|\n a/11)".toList := by decide

example : printPretty { base := 10 } 14 (.cons (.sym "alpha".toList) (.cons (.sym "beta".toList) (.cons (.sym "gamma".toList) .nil))) =
    "(alpha beta\n       gamma)".toList := by decide

/-- wire_roundtrip: a payload of at most `maxMessageSize` (1 MiB) bytes framed with the 6-digit
    hexadecimal length header is given back unchanged by the reader of the wire, together with
    whatever follows it on the stream. -/
theorem wire_roundtrip (payload rest : List Nat) (h : payload.length ≤ SlipVerif.Wire6.maxMessageSize) :
    SlipVerif.Wire6.unframe (SlipVerif.Wire6.frame payload).head ((SlipVerif.Wire6.frame payload).body ++ rest) =
      some (payload, rest) := by
  unfold SlipVerif.Wire6.unframe SlipVerif.Wire6.frame
  have hm : SlipVerif.Wire6.maxMessageSize = 1048576 := rfl
  simp only [SlipVerif.Wire6.header_length, if_true,
    SlipVerif.Wire6.parseHex_header payload.length (by omega)]
  have : payload.length ≤ SlipVerif.Wire6.maxMessageSize ∧ payload.length ≤ (payload ++ rest).length := by
    constructor
    · exact h
    · simp
  simp [this]

example : SlipVerif.Wire6.header 255 = "0000FF".toList ∧ (255 : Nat) ≤ SlipVerif.Wire6.maxMessageSize := by decide

/-- wire_stream_roundtrip: any number of messages (each at most 1 MiB of printed text, counted in bytes)
    written one after another on one connection are read back in order, and the stream is used up: the
    header of each message says exactly where the next one starts. -/
theorem wire_stream_roundtrip (msgs : List (List Nat)) (h : ∀ p ∈ msgs, p.length ≤ SlipVerif.Wire6.maxMessageSize) :
    SlipVerif.Wire6.readMessages msgs.length (SlipVerif.Wire6.writeAll msgs) = some msgs :=
  SlipVerif.Wire6.readMessages_writeAll msgs h

example : SlipVerif.Wire6.readMessages 2 (SlipVerif.Wire6.writeAll [[40, 195, 169, 41], [49]]) = some [[40, 195, 169, 41], [49]] := by decide
example : SlipVerif.Wire6.wireBytes [40, 195, 169, 41] = [48, 48, 48, 48, 48, 52, 40, 195, 169, 41] := by decide

end SlipVerif.Theorems.C03
