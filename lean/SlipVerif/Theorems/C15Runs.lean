import SlipVerif.Theorems.C15
import SlipVerif.Lemmas.FormatFuel
import SlipVerif.Lemmas.FormatKeeps
/-! C15 — the interpreter without fuel. `Lemmas/FormatFuel` proves that more fuel never changes a
    successful run; here the fuel is quantified away: `Runs` / `RunsItem` / `Loops` are the big-step
    relations "some fuel suffices", they are deterministic, they satisfy the usual compositional rules
    (empty sequence, item then rest, concatenation of two control strings' items, literal, `~^`, simple
    directive, `~( ~)`, one round of `~{`), and `formatText` computes them. The run theorems of
    `Theorems/C15.lean` that mention a fuel are restated on these relations. -/
namespace SlipVerif.Theorems.C15Runs
open SlipVerif.Format SlipVerif.Theorems.C15

/-- the items run from `st` to the result `r` (state and flow) with SOME fuel -/
def Runs (T : EnglishTables) (is : List Item) (st : St) (r : St × Flow) : Prop := ∃ f, runItems T f is st = .ok r
def RunsItem (T : EnglishTables) (it : Item) (st : St) (r : St × Flow) : Prop := ∃ f, runItem T f it st = .ok r
/-- the loop of ~{ / ~@{ ends in state `r` with some fuel -/
def Loops (T : EnglishTables) (body : List Item) (hasMax : Bool) (max : Nat) (once : Bool) (st r : St) : Prop :=
  ∃ f, iterLoop T f body hasMax max once st = .ok r

/-- more fuel never changes a successful run -/
theorem fuel_monotone (T : EnglishTables) (is : List Item) (st : St) (r : St × Flow) (f g : Nat) (hfg : f ≤ g)
    (h : runItems T f is st = .ok r) : runItems T g is st = .ok r :=
  runItems_mono T is st hfg r h

example (T : EnglishTables) : runItems T 2 [.lit 65] ⟨[], 0, []⟩ = .ok (⟨[], 0, [65]⟩, .cont) := by
  simp [runItems, runItem, St.emit, bind, Except.bind]

/-- the outcome does not depend on the fuel: two successful runs agree -/
theorem runs_deterministic (T : EnglishTables) (is : List Item) (st : St) (r1 r2 : St × Flow)
    (h1 : Runs T is st r1) (h2 : Runs T is st r2) : r1 = r2 := by
  obtain ⟨f1, h1⟩ := h1
  obtain ⟨f2, h2⟩ := h2
  have a := runItems_mono T is st (Nat.le_max_left f1 f2) r1 h1
  have b := runItems_mono T is st (Nat.le_max_right f1 f2) r2 h2
  rw [a] at b
  injection b

theorem runsItem_deterministic (T : EnglishTables) (it : Item) (st : St) (r1 r2 : St × Flow)
    (h1 : RunsItem T it st r1) (h2 : RunsItem T it st r2) : r1 = r2 := by
  obtain ⟨f1, h1⟩ := h1
  obtain ⟨f2, h2⟩ := h2
  have a := runItem_mono T it st (Nat.le_max_left f1 f2) r1 h1
  have b := runItem_mono T it st (Nat.le_max_right f1 f2) r2 h2
  rw [a] at b
  injection b

/-- the empty control string does nothing -/
theorem runs_nil (T : EnglishTables) (st : St) (r : St × Flow) : Runs T [] st r ↔ r = (st, .cont) := by
  constructor
  · rintro ⟨f, h⟩
    cases f with
    | zero => simp [runItems] at h
    | succ f => simp [runItems] at h; exact h.symm
  · rintro rfl
    exact ⟨1, by simp [runItems]⟩

/-- item then rest: the rest runs from the state the item leaves, unless the item stopped the sequence -/
theorem runs_cons (T : EnglishTables) (it : Item) (rest : List Item) (st : St) (r : St × Flow) :
    Runs T (it :: rest) st r ↔
      ∃ st1 fl, RunsItem T it st (st1, fl) ∧ ((fl = .stop ∧ r = (st1, .stop)) ∨ (fl = .cont ∧ Runs T rest st1 r)) := by
  constructor
  · rintro ⟨f, h⟩
    cases f with
    | zero => simp [runItems] at h
    | succ f =>
      simp only [runItems, bind, Except.bind] at h
      cases hi : runItem T f it st with
      | error e => simp [hi] at h
      | ok x =>
        obtain ⟨st1, fl⟩ := x
        simp only [hi] at h
        refine ⟨st1, fl, ⟨f, hi⟩, ?_⟩
        cases fl with
        | cont => right; exact ⟨rfl, f, h⟩
        | stop =>
          left
          simp only [pure, Except.pure] at h
          injection h with h
          exact ⟨rfl, h.symm⟩
  · rintro ⟨st1, fl, ⟨f1, h1⟩, hrest⟩
    rcases hrest with ⟨rfl, rfl⟩ | ⟨rfl, f2, h2⟩
    · refine ⟨f1 + 1, ?_⟩
      simp [runItems, h1, bind, Except.bind, pure, Except.pure]
    · refine ⟨max f1 f2 + 1, ?_⟩
      have a := runItem_mono T it st (Nat.le_max_left f1 f2) _ h1
      have b := runItems_mono T rest st1 (Nat.le_max_right f1 f2) _ h2
      simp [runItems, a, b, bind, Except.bind]

/-- COMPOSITION: the items of two control strings one after the other run like the first, then — from the
    state it leaves (arguments consumed, output so far) — the second; a stop raised in the first skips the second -/
theorem runs_append (T : EnglishTables) (xs ys : List Item) (st : St) (r : St × Flow) :
    Runs T (xs ++ ys) st r ↔
      ∃ st1 fl, Runs T xs st (st1, fl) ∧ ((fl = .stop ∧ r = (st1, .stop)) ∨ (fl = .cont ∧ Runs T ys st1 r)) := by
  induction xs generalizing st with
  | nil =>
    simp only [List.nil_append, runs_nil]
    constructor
    · intro h; exact ⟨st, .cont, rfl, Or.inr ⟨rfl, h⟩⟩
    · rintro ⟨st1, fl, h1, h2⟩
      injection h1 with ha hb
      subst ha; subst hb
      rcases h2 with ⟨h, _⟩ | ⟨_, h⟩
      · cases h
      · exact h
  | cons x xs ih =>
    simp only [List.cons_append, runs_cons]
    constructor
    · rintro ⟨st1, fl, hx, h⟩
      rcases h with ⟨rfl, rfl⟩ | ⟨rfl, h⟩
      · exact ⟨st1, .stop, ⟨st1, .stop, hx, Or.inl ⟨rfl, rfl⟩⟩, Or.inl ⟨rfl, rfl⟩⟩
      · obtain ⟨st2, fl2, h2, h3⟩ := (ih st1).mp h
        exact ⟨st2, fl2, ⟨st1, .cont, hx, Or.inr ⟨rfl, h2⟩⟩, h3⟩
    · rintro ⟨st2, fl2, ⟨st1, fl, hx, h⟩, h3⟩
      rcases h with ⟨rfl, h⟩ | ⟨rfl, h⟩
      · injection h with ha hb
        subst ha; subst hb
        rcases h3 with ⟨_, rfl⟩ | ⟨h, _⟩
        · exact ⟨st2, .stop, hx, Or.inl ⟨rfl, rfl⟩⟩
        · cases h
      · exact ⟨st1, .cont, hx, Or.inr ⟨rfl, (ih st1).mpr ⟨st2, fl2, h, h3⟩⟩⟩

/-- a literal character is appended to the output -/
theorem runsItem_lit (T : EnglishTables) (c : Nat) (st : St) (r : St × Flow) :
    RunsItem T (.lit c) st r ↔ r = (st.emit [c], .cont) := by
  constructor
  · rintro ⟨f, h⟩
    cases f with
    | zero => simp [runItem] at h
    | succ f => simp [runItem] at h; exact h.symm
  · rintro rfl; exact ⟨1, by simp [runItem]⟩

/-- ~^ stops exactly when no arguments remain (fuel-free form of `hat_stops_iff_no_arguments`) -/
theorem runsItem_hat (T : EnglishTables) (st : St) (r : St × Flow) :
    RunsItem T (.simple .hat [] false false) st r ↔ r = (st, if st.remaining = 0 then .stop else .cont) := by
  constructor
  · rintro ⟨f, h⟩
    cases f with
    | zero => simp [runItem] at h
    | succ f => rw [hat_stops_iff_no_arguments] at h; injection h with h; exact h.symm
  · rintro rfl; exact ⟨1, hat_stops_iff_no_arguments T 0 st⟩

/-- in a sequence (fuel-free form of `hat_in_sequence`): nothing after ~^ runs when no arguments remain -/
theorem runs_hat_then (T : EnglishTables) (rest : List Item) (st : St) (r : St × Flow) :
    Runs T (.simple .hat [] false false :: rest) st r ↔
      if st.remaining = 0 then r = (st, .stop) else Runs T rest st r := by
  rw [runs_cons]
  constructor
  · rintro ⟨st1, fl, hh, h⟩
    rw [runsItem_hat] at hh
    injection hh with ha hb
    subst ha
    by_cases h0 : st1.remaining = 0
    · simp only [h0, if_true] at hb ⊢
      subst hb
      rcases h with ⟨_, h⟩ | ⟨h, _⟩
      · exact h
      · cases h
    · simp only [h0, if_false] at hb ⊢
      subst hb
      rcases h with ⟨h, _⟩ | ⟨_, h⟩
      · cases h
      · exact h
  · intro h
    by_cases h0 : st.remaining = 0
    · simp only [h0, if_true] at h
      exact ⟨st, .stop, (runsItem_hat T st _).mpr (by simp [h0]), Or.inl ⟨rfl, h⟩⟩
    · simp only [h0, if_false] at h
      exact ⟨st, .cont, (runsItem_hat T st _).mpr (by simp [h0]), Or.inr ⟨rfl, h⟩⟩

/-- a simple directive: resolve the prefix parameters (v takes arguments, # counts them), then the directive -/
theorem runsItem_simple (T : EnglishTables) (k : Kind) (hk : k ≠ .hat) (ps : List Param) (colon atm : Bool) (st : St) (r : St × Flow) :
    RunsItem T (.simple k ps colon atm) st r ↔
      ∃ vs st1 st2, resolveParams ps st = .ok (vs, st1) ∧ runSimple T k vs colon atm st1 = .ok st2 ∧ r = (st2, .cont) := by
  constructor
  · rintro ⟨f, h⟩
    cases f with
    | zero => simp [runItem] at h
    | succ f =>
      simp only [runItem, bind, Except.bind, hk, if_false] at h
      cases hp : resolveParams ps st with
      | error e => simp [hp] at h
      | ok x =>
        obtain ⟨vs, st1⟩ := x
        simp only [hp] at h
        cases hs : runSimple T k vs colon atm st1 with
        | error e => simp [hs] at h
        | ok st2 =>
          simp only [hs, pure, Except.pure] at h
          injection h with h
          exact ⟨vs, st1, st2, rfl, hs, h.symm⟩
  · rintro ⟨vs, st1, st2, hp, hs, rfl⟩
    exact ⟨1, by simp [runItem, hp, hs, hk, bind, Except.bind, pure, Except.pure]⟩

/-- ~( … ~): the body runs, the text IT produced is converted, a stop is passed on -/
theorem runsItem_caseConv (T : EnglishTables) (colon atm : Bool) (body : List Item) (st : St) (r : St × Flow) :
    RunsItem T (.caseConv colon atm body) st r ↔
      ∃ st1 fl, Runs T body st (st1, fl)
        ∧ r = ({ st1 with out := st.out ++ convCase (caseMode colon atm) (st1.out.drop st.out.length) }, fl) := by
  constructor
  · rintro ⟨f, h⟩
    cases f with
    | zero => simp [runItem] at h
    | succ f =>
      simp only [runItem, bind, Except.bind] at h
      cases hb : runItems T f body st with
      | error e => simp [hb] at h
      | ok x =>
        obtain ⟨st1, fl⟩ := x
        simp only [hb, pure, Except.pure] at h
        injection h with h
        exact ⟨st1, fl, ⟨f, hb⟩, h.symm⟩
  · rintro ⟨st1, fl, ⟨f, hb⟩, rfl⟩
    exact ⟨f + 1, by simp [runItem, hb, bind, Except.bind, pure, Except.pure]⟩

/-- one round of the ~{ / ~@{ loop, without fuel: nothing for a maximum of 0 or when no arguments remain
    (unless ~:} demands one round); otherwise the body runs once and, unless it stopped, the loop goes on
    with the maximum decreased -/
theorem loops_unfold (T : EnglishTables) (body : List Item) (hasMax : Bool) (max : Nat) (once : Bool) (st r : St) :
    Loops T body hasMax max once st r ↔
      if hasMax = true ∧ max = 0 then r = st
      else if st.remaining = 0 ∧ ¬ once = true then r = st
      else ∃ st1 fl, Runs T body st (st1, fl) ∧ ((fl = .stop ∧ r = st1) ∨ (fl = .cont ∧ Loops T body hasMax (max - 1) false st1 r)) := by
  constructor
  · rintro ⟨f, h⟩
    cases f with
    | zero => simp [iterLoop] at h
    | succ f =>
      rw [iterLoop_succ] at h
      split at h
      · rename_i h1; simp only [h1, and_self, if_true]; injection h with h; exact h.symm
      · rename_i h1
        simp only [h1, if_false]
        split at h
        · rename_i h2; simp only [h2, and_self, if_true]; injection h with h; exact h.symm
        · rename_i h2
          simp only [h2, if_false]
          cases hb : runItems T f body st with
          | error e => simp [hb, Except.bind] at h
          | ok x =>
            obtain ⟨st1, fl⟩ := x
            simp only [hb, Except.bind] at h
            refine ⟨st1, fl, ⟨f, hb⟩, ?_⟩
            cases fl with
            | stop => left; injection h with h; exact ⟨rfl, h.symm⟩
            | cont => right; exact ⟨rfl, f, h⟩
  · intro h
    split at h
    · rename_i h1; subst h; exact ⟨1, by rw [iterLoop_succ]; simp [h1]⟩
    · rename_i h1
      split at h
      · rename_i h2; subst h; exact ⟨1, by rw [iterLoop_succ, if_neg h1, if_pos h2]⟩
      · rename_i h2
        obtain ⟨st1, fl, ⟨f1, hb⟩, hrest⟩ := h
        rcases hrest with ⟨rfl, rfl⟩ | ⟨rfl, f2, hl⟩
        · refine ⟨f1 + 1, ?_⟩
          rw [iterLoop_succ, if_neg h1, if_neg h2, hb]
          rfl
        · refine ⟨Nat.max f1 f2 + 1, ?_⟩
          have a := runItems_mono T body st (Nat.le_max_left f1 f2) _ hb
          have b := iterLoop_mono T body hasMax (max - 1) false st1 (Nat.le_max_right f1 f2) _ hl
          rw [iterLoop_succ, if_neg h1, if_neg h2, a]
          exact b

/-- `iter_count` without fuel: ~{~a~} over any list of integers from any cursor runs the body exactly
    k = min(max, remaining) times, consumes k arguments and writes the k numbers -/
theorem iter_count_runs (T : EnglishTables) (xs : List Int) (p : Nat) (o : Txt) (hasMax : Bool) (max : Nat) (hp : p ≤ xs.length) :
    Loops T bodyA hasMax max false ⟨xs.map .int, p, o⟩
      ⟨xs.map .int, p + (if hasMax then min max (xs.length - p) else xs.length - p),
       o ++ ((xs.drop p).take (if hasMax then min max (xs.length - p) else xs.length - p)).flatMap (printInt T)⟩ :=
  ⟨(if hasMax then min max (xs.length - p) else xs.length - p) + 3,
    iter_count T xs _ _ p o hasMax max hp rfl (Nat.le_refl _)⟩

/-- `formatText` computes the fuel-free relation: whatever the items of the control string run to with a
    fuel within the driver's budget is the text returned … -/
theorem formatText_complete (ctrl : Txt) (args : List Arg) (items : List Item) (st : St) (fl : Flow) (f : Nat)
    (hparse : parse ctrl = .ok items) (hf : f ≤ defaultFuel)
    (h : runItems genTables f items ⟨args, 0, []⟩ = .ok (st, fl)) : formatText ctrl args = .ok st.out := by
  have := runItems_mono genTables items ⟨args, 0, []⟩ hf _ h
  simp [formatText, hparse, this, bind, Except.bind, pure, Except.pure]

/-- … and every text it returns is such a run -/
theorem formatText_sound (ctrl : Txt) (args : List Arg) (t : Txt) (h : formatText ctrl args = .ok t) :
    ∃ items st fl, parse ctrl = .ok items ∧ Runs genTables items ⟨args, 0, []⟩ (st, fl) ∧ t = st.out := by
  simp only [formatText, bind, Except.bind] at h
  cases hp : parse ctrl with
  | error e => simp [hp] at h
  | ok items =>
    simp only [hp] at h
    cases hr : runItems genTables defaultFuel items ⟨args, 0, []⟩ with
    | error e => simp [hr] at h
    | ok x =>
      obtain ⟨st, fl⟩ := x
      simp only [hr, pure, Except.pure] at h
      injection h with h
      exact ⟨items, st, fl, rfl, ⟨defaultFuel, hr⟩, h.symm⟩

/-! ## what every run keeps -/

/-- no directive, block or composition changes the argument list, and a cursor that is inside 0..length
    before a run is inside afterwards — whatever ~* ~:* ~@* ~:P ~? ~{ … the control string contains -/
theorem runs_keep_arguments_and_cursor (T : EnglishTables) (is : List Item) (st st1 : St) (fl : Flow)
    (h : Runs T is st (st1, fl)) : st1.args = st.args ∧ (st.pos ≤ st.args.length → st1.pos ≤ st1.args.length) := by
  obtain ⟨f, h⟩ := h
  exact ((keepsAt T f).items is st).elim (st1, fl) h

/-- a single directive likewise -/
theorem simple_directive_keeps (T : EnglishTables) (k : Kind) (vs : List PVal) (colon atm : Bool) (st st1 : St)
    (h : runSimple T k vs colon atm st = .ok st1) : st1.args = st.args ∧ (st.pos ≤ st.args.length → st1.pos ≤ st1.args.length) :=
  (runSimple_keeps T k vs colon atm st).elim st1 h

/-- so every state `format` reaches has its cursor inside the arguments (the hypothesis of the code
    obligation `move_code_is_the_model`): it starts at 0 -/
theorem format_cursor_stays_inside (ctrl : Txt) (args : List Arg) (items : List Item) (st : St) (fl : Flow)
    (h : Runs genTables items ⟨args, 0, []⟩ (st, fl)) : st.args = args ∧ st.pos ≤ args.length := by
  have := runs_keep_arguments_and_cursor genTables items ⟨args, 0, []⟩ st fl h
  refine ⟨this.1, ?_⟩
  have h2 := this.2 (Nat.zero_le _)
  rw [this.1] at h2
  exact h2

example : runSimple genTables .star [.num 2] true false ⟨[.int 1, .int 2, .int 3], 3, []⟩ = .ok ⟨[.int 1, .int 2, .int 3], 1, []⟩ := by
  simp [runSimple, natParam, bind, Except.bind, pure, Except.pure]

end SlipVerif.Theorems.C15Runs
