import SlipVerif.Lemmas.ListHeap
/-
  C06 — property theorems about SlipVerif.Model.ListHeap, the model the correspondence harness runs
  against the implementation (Driver/ListHeap.lean executes exactly `run`, `footprint`, `valueOf`,
  `chain`, `carsOf`).

  A "variable" is any reference `r` whose list exists in the heap: `chain h n r = some as` (for some
  fuel `n`); its printed contents are `carsOf h as`.  All statements hold for every heap, every
  reference and every fuel value.
-/
namespace SlipVerif.ListHeap

/-! ## non-destructive operations: every existing cell, list and printed value is unchanged -/

/-- A non-destructive operation only appends cells to the heap. -/
theorem nondestructive_only_allocates {h h' : Heap} {op : Op} {res : Ref}
    (hnd : op.destructive = false) (hr : run h op = .ok (h', res)) : ∃ ext, h' = h ++ ext := by
  cases op with
  | lit vs =>
    simp [run] at hr
    obtain ⟨ext, he⟩ := allocList_grows h vs .nil
    exact ⟨ext, by rw [← he, hr]⟩
  | alias x => simp [run] at hr; exact ⟨[], by simp [hr.1]⟩
  | cons v x => simp [run] at hr; exact ⟨_, hr.1.symm⟩
  | listStar v w x =>
    simp only [run] at hr
    obtain ⟨ext, he⟩ := allocList_grows h [v, w] x
    simp at hr
    exact ⟨ext, by rw [← he, hr]⟩
  | append x y =>
    unfold run at hr
    cases hx : chainOf h x with
    | error e => simp [hx, bind, Except.bind] at hr
    | ok as =>
      cases hy : chainOf h y with
      | error e => simp [hx, hy, bind, Except.bind] at hr
      | ok bs =>
        simp [hx, hy, bind, Except.bind] at hr
        obtain ⟨ext, he⟩ := allocList_grows h (carsOf h as) y
        exact ⟨ext, by rw [← he, hr]⟩
  | nthcdr n x =>
    unfold run at hr
    cases hx : chainOf h x with
    | error e => simp [hx, bind, Except.bind] at hr
    | ok as => simp [hx, bind, Except.bind] at hr; exact ⟨[], by simp [hr.1]⟩
  | last n x =>
    unfold run at hr
    cases hx : chainOf h x with
    | error e => simp [hx, bind, Except.bind] at hr
    | ok as => simp [hx, bind, Except.bind] at hr; exact ⟨[], by simp [hr.1]⟩
  | member p key x =>
    unfold run at hr
    cases hx : chainOf h x with
    | error e => simp [hx, bind, Except.bind] at hr
    | ok as => simp [hx, bind, Except.bind] at hr; exact ⟨[], by simp [hr.1]⟩
  | butlast n x =>
    unfold run at hr
    cases hx : chainOf h x with
    | error e => simp [hx, bind, Except.bind] at hr
    | ok as =>
      simp [hx, bind, Except.bind] at hr
      obtain ⟨ext, he⟩ := allocList_grows h (vButlast n (carsOf h as)) .nil
      exact ⟨ext, by rw [← he, hr]⟩
  | subseq s e x =>
    unfold run at hr
    cases hx : chainOf h x with
    | error e => simp [hx, bind, Except.bind] at hr
    | ok as =>
      cases hv : vSubseq s e (carsOf h as) with
      | error e => simp [hx, hv, bind, Except.bind] at hr
      | ok vs =>
        simp [hx, hv, bind, Except.bind] at hr
        obtain ⟨ext, he⟩ := allocList_grows h vs .nil
        exact ⟨ext, by rw [← he, hr]⟩
  | copyList x =>
    unfold run at hr
    cases hx : chainOf h x with
    | error e => simp [hx, bind, Except.bind] at hr
    | ok as =>
      simp [hx, bind, Except.bind] at hr
      obtain ⟨ext, he⟩ := allocList_grows h (carsOf h as) .nil
      exact ⟨ext, by rw [← he, hr]⟩
  | reverse x =>
    unfold run at hr
    cases hx : chainOf h x with
    | error e => simp [hx, bind, Except.bind] at hr
    | ok as =>
      simp [hx, bind, Except.bind] at hr
      obtain ⟨ext, he⟩ := allocList_grows h (carsOf h as).reverse .nil
      exact ⟨ext, by rw [← he, hr]⟩
  | remove p x =>
    unfold run at hr
    cases hx : chainOf h x with
    | error e => simp [hx, bind, Except.bind] at hr
    | ok as =>
      simp [hx, bind, Except.bind] at hr
      obtain ⟨ext, he⟩ := removeCells_grows h (maskOf p (carsOf h as)) as
      exact ⟨ext, by rw [← he, hr]⟩
  | mapcar f x =>
    unfold run at hr
    cases hx : chainOf h x with
    | error e => simp [hx, bind, Except.bind] at hr
    | ok as =>
      simp [hx, bind, Except.bind] at hr
      obtain ⟨ext, he⟩ := allocList_grows h (vMapcar f (carsOf h as)) .nil
      exact ⟨ext, by rw [← he, hr]⟩
  | mapcar2 x y =>
    unfold run at hr
    cases hx : chainOf h x with
    | error e => simp [hx, bind, Except.bind] at hr
    | ok as =>
      cases hy : chainOf h y with
      | error e => simp [hx, hy, bind, Except.bind] at hr
      | ok bs =>
        simp [hx, hy, bind, Except.bind] at hr
        obtain ⟨ext, he⟩ := allocList_grows h (vMapcar2 (carsOf h as) (carsOf h bs)) .nil
        exact ⟨ext, by rw [← he, hr]⟩
  | concat x y =>
    unfold run at hr
    cases hx : chainOf h x with
    | error e => simp [hx, bind, Except.bind] at hr
    | ok as =>
      cases hy : chainOf h y with
      | error e => simp [hx, hy, bind, Except.bind] at hr
      | ok bs =>
        simp [hx, hy, bind, Except.bind] at hr
        obtain ⟨ext, he⟩ := allocList_grows h (carsOf h as ++ carsOf h bs) .nil
        exact ⟨ext, by rw [← he, hr]⟩
  | fresh1 f x =>
    unfold run at hr
    cases hx : chainOf h x with
    | error e => simp [hx, bind, Except.bind] at hr
    | ok as =>
      simp [hx, bind, Except.bind] at hr
      obtain ⟨ext, he⟩ := allocList_grows h (f.app (carsOf h as)) .nil
      exact ⟨ext, by rw [← he, hr]⟩
  | fresh2 f x y =>
    unfold run at hr
    cases hx : chainOf h x with
    | error e => simp [hx, bind, Except.bind] at hr
    | ok as =>
      cases hy : chainOf h y with
      | error e => simp [hx, hy, bind, Except.bind] at hr
      | ok bs =>
        simp [hx, hy, bind, Except.bind] at hr
        obtain ⟨ext, he⟩ := allocList_grows h (f.app (carsOf h as) (carsOf h bs)) .nil
        exact ⟨ext, by rw [← he, hr]⟩
  | revappend x y =>
    unfold run at hr
    cases hx : chainOf h x with
    | error e => simp [hx, bind, Except.bind] at hr
    | ok as =>
      cases hy : chainOf h y with
      | error e => simp [hx, hy, bind, Except.bind] at hr
      | ok bs =>
        simp [hx, hy, bind, Except.bind] at hr
        obtain ⟨ext, he⟩ := allocList_grows h (carsOf h as).reverse y
        exact ⟨ext, by rw [← he, hr]⟩
  | rplaca x v => simp [Op.destructive] at hnd
  | setNth n x v => simp [Op.destructive] at hnd
  | rplacd x y => simp [Op.destructive] at hnd
  | nconc x y => simp [Op.destructive] at hnd
  | add x vs => simp [Op.destructive] at hnd
  | nreverse x => simp [Op.destructive] at hnd
  | sort desc key x => simp [Op.destructive] at hnd
  | delete p x => simp [Op.destructive] at hnd
  | carmap f x => simp [Op.destructive] at hnd
  | nbutlast k x => simp [Op.destructive] at hnd

/-- **nondestructive_frame.** An operation that is not documented as destructive leaves every
    existing cell unchanged, hence every existing list keeps its cells and its printed contents. -/
theorem nondestructive_frame {h h' : Heap} {op : Op} {res : Ref}
    (hnd : op.destructive = false) (hr : run h op = .ok (h', res))
    {n : Nat} {r : Ref} {as : List Nat} (hc : chain h n r = some as) :
    (∀ a, a < h.length → h'[a]? = h[a]?) ∧ chain h' n r = some as ∧ carsOf h' as = carsOf h as := by
  obtain ⟨ext, he⟩ := nondestructive_only_allocates hnd hr
  subst he
  exact ⟨fun a ha => getElem?_append_old h ext ha, frame_of_append ext hc⟩

/-- the same, for printed contents -/
theorem nondestructive_contents {h h' : Heap} {op : Op} {res : Ref}
    (hnd : op.destructive = false) (hr : run h op = .ok (h', res))
    {n : Nat} {r : Ref} {vs : List Val} (hc : contents h n r = some vs) : contents h' n r = some vs := by
  unfold contents at hc ⊢
  cases hch : chain h n r with
  | none => simp [hch] at hc
  | some as =>
    obtain ⟨_, h1, h2⟩ := nondestructive_frame hnd hr hch
    simp [hch] at hc
    simp [h1, h2, hc]

example : run [] (.lit [1, 2]) = .ok ([⟨2, .nil⟩, ⟨1, .cell 0⟩], .cell 1) := by rfl
example : contents [⟨2, .nil⟩, ⟨1, .cell 0⟩] 3 (.cell 1) = some [1, 2] := by decide

/-! ## destructive operations: only cells reachable from the list arguments are written -/

/-- the cells reachable from the list arguments, as the footprint lists them -/
theorem mem_footprint_of_chainOf {h : Heap} {op : Op} {x : Ref} {as : List Nat} {a : Nat}
    (hd : op.destructive = true) (hx : x ∈ op.listArgs) (hc : chainOf h x = .ok as) (ha : a ∈ as) :
    a ∈ footprint h op := by
  unfold footprint
  simp only [hd, if_true, List.mem_flatMap]
  exact ⟨x, hx, by simp [hc, ha]⟩

/-- **destructive_footprint (cells).** A destructive operation changes no cell outside the cells
    reachable from its list arguments. -/
theorem destructive_writes_within_footprint {h h' : Heap} {op : Op} {res : Ref}
    (hd : op.destructive = true) (hr : run h op = .ok (h', res))
    {a : Nat} (ha : a < h.length) (hnf : a ∉ footprint h op) : h'[a]? = h[a]? := by
  cases op with
  | lit vs => simp [Op.destructive] at hd
  | alias x => simp [Op.destructive] at hd
  | cons v x => simp [Op.destructive] at hd
  | listStar v w x => simp [Op.destructive] at hd
  | append x y => simp [Op.destructive] at hd
  | nthcdr n x => simp [Op.destructive] at hd
  | last n x => simp [Op.destructive] at hd
  | member p key x => simp [Op.destructive] at hd
  | butlast n x => simp [Op.destructive] at hd
  | subseq s e x => simp [Op.destructive] at hd
  | copyList x => simp [Op.destructive] at hd
  | reverse x => simp [Op.destructive] at hd
  | remove p x => simp [Op.destructive] at hd
  | mapcar f x => simp [Op.destructive] at hd
  | mapcar2 x y => simp [Op.destructive] at hd
  | concat x y => simp [Op.destructive] at hd
  | fresh1 f x => simp [Op.destructive] at hd
  | fresh2 f x y => simp [Op.destructive] at hd
  | revappend x y => simp [Op.destructive] at hd
  | rplaca x v =>
    unfold run at hr
    cases hx : chainOf h x with
    | error e => simp [hx, bind, Except.bind] at hr
    | ok as =>
      have hfp : a ∉ as := by simpa [footprint, Op.destructive, Op.listArgs, hx] using hnf
      cases as with
      | nil => simp [hx, bind, Except.bind] at hr
      | cons b rest =>
        simp [hx, bind, Except.bind] at hr
        have hne : a ≠ b := fun e => hfp (by simp [e])
        rw [← hr.1]; exact setCar_ne _ _ hne
  | setNth n x v =>
    unfold run at hr
    cases hx : chainOf h x with
    | error e => simp [hx, bind, Except.bind] at hr
    | ok as =>
      have hfp : a ∉ as := by simpa [footprint, Op.destructive, Op.listArgs, hx] using hnf
      cases hb : as[n]? with
      | none => simp [hx, hb, bind, Except.bind] at hr
      | some b =>
        simp [hx, hb, bind, Except.bind] at hr
        have hmem : b ∈ as := List.mem_of_getElem? hb
        have hne : a ≠ b := fun e => hfp (e ▸ hmem)
        rw [← hr.1]; exact setCar_ne _ _ hne
  | rplacd x y =>
    unfold run at hr
    cases hx : chainOf h x with
    | error e => simp [hx, bind, Except.bind] at hr
    | ok as =>
      cases hy : chainOf h y with
      | error e => simp [hx, hy, bind, Except.bind] at hr
      | ok bs =>
        have hfp : a ∉ as ∧ a ∉ bs := by
          simpa [footprint, Op.destructive, Op.listArgs, hx, hy, not_or] using hnf
        cases as with
        | nil => simp [hx, hy, bind, Except.bind] at hr
        | cons b rest =>
          simp [hx, hy, bind, Except.bind] at hr
          split at hr
          · simp at hr
          · simp at hr
            have hne : a ≠ b := fun e => hfp.1 (by simp [e])
            rw [← hr.1]; exact setCdr_ne _ _ hne
  | nconc x y =>
    unfold run at hr
    cases hx : chainOf h x with
    | error e => simp [hx, bind, Except.bind] at hr
    | ok as =>
      cases hy : chainOf h y with
      | error e => simp [hx, hy, bind, Except.bind] at hr
      | ok bs =>
        have hfp : a ∉ as ∧ a ∉ bs := by
          simpa [footprint, Op.destructive, Op.listArgs, hx, hy, not_or] using hnf
        simp [hx, hy, bind, Except.bind] at hr
        split at hr
        · simp at hr; rw [hr.1]
        · simp at hr; rw [hr.1]
        · rename_i l _ hl
          split at hr
          · simp at hr
          · simp at hr
            have hmem : l ∈ as := List.mem_of_getLast? hl
            have hne : a ≠ l := fun e => hfp.1 (e ▸ hmem)
            rw [← hr.1]; exact setCdr_ne _ _ hne
  | add x vs =>
    unfold run at hr
    cases hx : chainOf h x with
    | error e => simp [hx, bind, Except.bind] at hr
    | ok as =>
      have hfp : a ∉ as := by simpa [footprint, Op.destructive, Op.listArgs, hx] using hnf
      obtain ⟨ext, he⟩ := allocList_grows h vs .nil
      simp [hx, bind, Except.bind] at hr
      cases hl : as.getLast? with
      | none =>
        simp [hl] at hr
        rw [← hr.1, he]; exact getElem?_append_old h ext ha
      | some l =>
        simp [hl] at hr
        have hmem : l ∈ as := List.mem_of_getLast? hl
        have hne : a ≠ l := fun e => hfp (e ▸ hmem)
        rw [← hr.1, setCdr_ne _ _ hne, he]; exact getElem?_append_old h ext ha
  | nreverse x =>
    unfold run at hr
    cases hx : chainOf h x with
    | error e => simp [hx, bind, Except.bind] at hr
    | ok as =>
      have hfp : a ∉ as := by simpa [footprint, Op.destructive, Op.listArgs, hx] using hnf
      simp [hx, bind, Except.bind] at hr
      rw [← hr.1]; exact writeCars_notin _ _ _ hfp
  | sort desc key x =>
    unfold run at hr
    cases hx : chainOf h x with
    | error e => simp [hx, bind, Except.bind] at hr
    | ok as =>
      have hfp : a ∉ as := by simpa [footprint, Op.destructive, Op.listArgs, hx] using hnf
      simp [hx, bind, Except.bind] at hr
      rw [← hr.1]; exact writeCars_notin _ _ _ hfp
  | delete p x =>
    unfold run at hr
    cases hx : chainOf h x with
    | error e => simp [hx, bind, Except.bind] at hr
    | ok as =>
      have hfp : a ∉ as := by simpa [footprint, Op.destructive, Op.listArgs, hx] using hnf
      simp [hx, bind, Except.bind] at hr
      rw [← hr.1]
      apply linkCells_notin
      intro hm
      exact hfp (applyMask_subset hm)
  | carmap f x =>
    unfold run at hr
    cases hx : chainOf h x with
    | error e => simp [hx, bind, Except.bind] at hr
    | ok as =>
      have hfp : a ∉ as := by simpa [footprint, Op.destructive, Op.listArgs, hx] using hnf
      cases hv : f.app (carsOf h as) with
      | error e => simp [hx, hv, bind, Except.bind] at hr
      | ok vs =>
        simp [hx, hv, bind, Except.bind] at hr
        rw [← hr.1]; exact writeCars_notin _ _ _ hfp
  | nbutlast k x =>
    unfold run at hr
    cases hx : chainOf h x with
    | error e => simp [hx, bind, Except.bind] at hr
    | ok as =>
      have hfp : a ∉ as := by simpa [footprint, Op.destructive, Op.listArgs, hx] using hnf
      simp [hx, bind, Except.bind] at hr
      rw [← hr.1]
      apply linkCells_notin
      intro hm
      exact hfp (List.mem_of_mem_take hm)

/-- **destructive_footprint.** `nconc nreverse sort delete rplaca rplacd (setf car/nth/elt) add`
    change only cells reachable from their list arguments: a list none of whose cells is reachable
    from the arguments keeps its cells and its printed contents. -/
theorem destructive_footprint {h h' : Heap} {op : Op} {res : Ref}
    (hd : op.destructive = true) (hr : run h op = .ok (h', res))
    {n : Nat} {r : Ref} {as : List Nat} (hc : chain h n r = some as)
    (hdisj : ∀ a ∈ as, a ∉ footprint h op) :
    chain h' n r = some as ∧ carsOf h' as = carsOf h as := by
  have hlt := chain_lt hc
  have hag : ∀ a ∈ as, h'[a]? = h[a]? :=
    fun a ha => destructive_writes_within_footprint hd hr (hlt a ha) (hdisj a ha)
  exact ⟨chain_congr hc hag, carsOf_congr hag⟩

theorem destructive_contents {h h' : Heap} {op : Op} {res : Ref}
    (hd : op.destructive = true) (hr : run h op = .ok (h', res))
    {n : Nat} {r : Ref} {as : List Nat} (hc : chain h n r = some as)
    (hdisj : ∀ a ∈ as, a ∉ footprint h op) : contents h' n r = contents h n r := by
  obtain ⟨h1, h2⟩ := destructive_footprint hd hr hc hdisj
  simp [contents, hc, h1, h2]

-- a concrete instance: b = (4 5) is disjoint from a = (1 2); (nreverse a) leaves b alone
example :
    let h : Heap := [⟨2, .nil⟩, ⟨1, .cell 0⟩, ⟨5, .nil⟩, ⟨4, .cell 2⟩]
    run h (.nreverse (.cell 1)) = .ok ([⟨1, .nil⟩, ⟨2, .cell 0⟩, ⟨5, .nil⟩, ⟨4, .cell 2⟩], .cell 1)
      ∧ footprint h (.nreverse (.cell 1)) = [1, 0] ∧ chain h 5 (.cell 3) = some [3, 2] := by
  refine ⟨by rfl, by rfl, by rfl⟩

/-- **the permission the check uses is sound.** When `mayChange` (the function the driver evaluates
    to build the may-change set, for any region assignment `regs`) answers `false` for a list, that
    list keeps its cells and its printed contents when the operation runs. -/
theorem mayChange_sound {regs : List Nat} {h h' : Heap} {op : Op} {res : Ref}
    (hr : run h op = .ok (h', res))
    {n : Nat} {r : Ref} {as : List Nat} (hc : chain h n r = some as)
    (hm : mayChange regs h op r = false) :
    chain h' n r = some as ∧ carsOf h' as = carsOf h as := by
  cases hd : op.destructive with
  | false => exact (nondestructive_frame hd hr hc).2
  | true =>
    apply destructive_footprint hd hr hc
    intro a ha hfp
    unfold mayChange at hm
    cases hco : chainOf h r with
    | error e => simp [hco] at hm
    | ok as' =>
      have has : as' = as := chain_fuel_irrelevant (chainOf_ok.mp hco) hc
      subst has
      simp only [hco] at hm
      have hall := List.any_eq_false.mp hm a ha
      cases hg : regs[a]? with
      | none => simp [hg] at hall
      | some g =>
        simp only [hg] at hall
        apply hall
        simp only [List.contains_iff_mem, List.mem_filterMap]
        exact ⟨a, hfp, hg⟩

/-! ## extending operations never overwrite -/

/-- An extending operation (`cons push list* append add nconc`) keeps the car of every existing cell
    and changes the cdr of an existing cell only where it was nil. -/
theorem extending_writes_only_nil_cdrs {h h' : Heap} {op : Op} {res : Ref}
    (hx : op.extending = true) (hr : run h op = .ok (h', res)) : NilExt h h' := by
  cases hd : op.destructive with
  | false =>
    obtain ⟨ext, he⟩ := nondestructive_only_allocates hd hr
    subst he
    exact nilExt_of_append h ext
  | true =>
    cases op with
    | nconc x y =>
      unfold run at hr
      cases hcx : chainOf h x with
      | error e => simp [hcx, bind, Except.bind] at hr
      | ok as =>
        cases hcy : chainOf h y with
        | error e => simp [hcx, hcy, bind, Except.bind] at hr
        | ok bs =>
          simp [hcx, hcy, bind, Except.bind] at hr
          split at hr
          · simp at hr; rw [← hr.1]; simpa using nilExt_of_append h []
          · simp at hr; rw [← hr.1]; simpa using nilExt_of_append h []
          · rename_i l _ hl
            split at hr
            · simp at hr
            · simp at hr
              rw [← hr.1]
              have hch : chain h (stdFuel h) x = some as := by
                unfold chainOf at hcx
                split at hcx
                · rename_i as' hh; simp at hcx; rw [hh, hcx]
                · simp at hcx
              obtain ⟨cl, hgl, hnil⟩ := chain_last_cdr_nil hch hl
              intro a c hg
              by_cases hal : a = l
              · subst hal
                rw [hgl] at hg
                have : cl = c := Option.some.inj hg
                subst this
                exact ⟨_, setCdr_eq _ hgl, rfl, Or.inr hnil⟩
              · exact ⟨c, by rw [setCdr_ne _ _ hal, hg], rfl, Or.inl rfl⟩
    | add x vs =>
      unfold run at hr
      cases hcx : chainOf h x with
      | error e => simp [hcx, bind, Except.bind] at hr
      | ok as =>
        obtain ⟨ext, he⟩ := allocList_grows h vs .nil
        simp [hcx, bind, Except.bind] at hr
        cases hl : as.getLast? with
        | none =>
          simp [hl] at hr
          rw [← hr.1, he]; exact nilExt_of_append h ext
        | some l =>
          simp [hl] at hr
          rw [← hr.1]
          have hch : chain h (stdFuel h) x = some as := by
            unfold chainOf at hcx
            split at hcx
            · rename_i as' hh; simp at hcx; rw [hh, hcx]
            · simp at hcx
          obtain ⟨cl, hgl, hnil⟩ := chain_last_cdr_nil hch hl
          have hll : l < h.length := (List.getElem?_eq_some_iff.mp hgl).1
          intro a c hg
          have hal' : a < h.length := (List.getElem?_eq_some_iff.mp hg).1
          by_cases hal : a = l
          · subst hal
            rw [hgl] at hg
            have : cl = c := Option.some.inj hg
            subst this
            have hg1 : (allocList h vs .nil).1[a]? = some cl := by
              rw [he, getElem?_append_old h ext hll, hgl]
            exact ⟨_, setCdr_eq _ hg1, rfl, Or.inr hnil⟩
          · refine ⟨c, ?_, rfl, Or.inl rfl⟩
            rw [setCdr_ne _ _ hal, he, getElem?_append_old h ext hal', hg]
    | lit vs => simp [Op.destructive] at hd
    | alias x => simp [Op.destructive] at hd
    | cons v x => simp [Op.destructive] at hd
    | listStar v w x => simp [Op.destructive] at hd
    | append x y => simp [Op.destructive] at hd
    | nthcdr n x => simp [Op.destructive] at hd
    | last n x => simp [Op.destructive] at hd
    | member p key x => simp [Op.destructive] at hd
    | butlast n x => simp [Op.destructive] at hd
    | subseq s e x => simp [Op.destructive] at hd
    | copyList x => simp [Op.destructive] at hd
    | reverse x => simp [Op.destructive] at hd
    | remove p x => simp [Op.destructive] at hd
    | mapcar f x => simp [Op.destructive] at hd
    | mapcar2 x y => simp [Op.destructive] at hd
    | concat x y => simp [Op.destructive] at hd
    | fresh1 f x => simp [Op.destructive] at hd
    | fresh2 f x y => simp [Op.destructive] at hd
    | revappend x y => simp [Op.destructive] at hd
    | rplaca x v => simp [Op.extending] at hx
    | setNth n x v => simp [Op.extending] at hx
    | rplacd x y => simp [Op.extending] at hx
    | nreverse x => simp [Op.extending] at hx
    | sort desc key x => simp [Op.extending] at hx
    | delete p x => simp [Op.extending] at hx
    | carmap f x => simp [Op.extending] at hx
    | nbutlast k x => simp [Op.extending] at hx

/-- **extend_no_overwrite.** Extending a list by `cons push list* append add nconc` never overwrites
    an element reachable from any variable: whatever list `r` denoted before, its cells and its
    printed contents are a prefix of what it denotes afterwards. -/
theorem extend_no_overwrite {h h' : Heap} {op : Op} {res : Ref}
    (hx : op.extending = true) (hr : run h op = .ok (h', res))
    {n m : Nat} {r : Ref} {as as' : List Nat}
    (hc : chain h n r = some as) (hc' : chain h' m r = some as') :
    as <+: as' ∧ carsOf h as <+: carsOf h' as' := by
  have hne := extending_writes_only_nil_cdrs hx hr
  have hp := nilExt_prefix hne hc hc'
  refine ⟨hp, ?_⟩
  rw [← nilExt_cars hne hc]
  exact carsOf_prefix h' hp

/-- For the non-destructive extensions (`cons push list* append`) nothing reachable from another
    variable is written at all: every existing list is literally unchanged. -/
theorem cons_push_append_write_nothing {h h' : Heap} {op : Op} {res : Ref}
    (_hx : op.extending = true) (hnd : op.destructive = false) (hr : run h op = .ok (h', res))
    {n : Nat} {r : Ref} {as : List Nat} (hc : chain h n r = some as) :
    chain h' n r = some as ∧ carsOf h' as = carsOf h as :=
  (nondestructive_frame hnd hr hc).2

-- a = (1 2), b = (cdr a): (add a 7) extends both, overwrites neither
example :
    let h : Heap := [⟨2, .nil⟩, ⟨1, .cell 0⟩]
    run h (.add (.cell 1) [7]) = .ok ([⟨2, .cell 2⟩, ⟨1, .cell 0⟩, ⟨7, .nil⟩], .cell 1)
      ∧ contents h 3 (.cell 0) = some [2]
      ∧ contents [⟨2, .cell 2⟩, ⟨1, .cell 0⟩, ⟨7, .nil⟩] 4 (.cell 0) = some [2, 7] := by
  refine ⟨by rfl, by rfl, by rfl⟩

/-! ## an empty list owns no cells -/

/-- An empty list owns no cells: a reference whose list is empty is `nil`. -/
theorem empty_list_owns_no_cell {h : Heap} {n : Nat} {r : Ref} (hc : contents h n r = some []) : r = .nil := by
  unfold contents at hc
  cases hch : chain h n r with
  | none => simp [hch] at hc
  | some as =>
    simp [hch] at hc
    have hl := carsOf_length (chain_lt hch)
    rw [hc] at hl
    have : as = [] := by
      cases as with
      | nil => rfl
      | cons a t => simp at hl
    subst this
    exact (refOf_chain hch).symm

theorem chainOf_nil (h : Heap) : chainOf h .nil = .ok [] := by simp [chainOf, chain_nil]

/-- …so its footprint is empty and no variable is entitled to change when it is extended -/
theorem empty_list_no_footprint {h : Heap} {n : Nat} {x : Ref} (hc : contents h n x = some [])
    (vs : List Val) : footprint h (.add x vs) = [] := by
  have := empty_list_owns_no_cell hc
  subst this
  simp [footprint, Op.destructive, Op.listArgs, chainOf_nil]

/-- **extending an empty list changes nothing else.** When the (first) list argument of an extending
    operation `add nconc append push cons list*` is empty — the result of `(subseq a i i)`, of a
    `remove` of everything, of `butlast` of a singleton, of `nthcdr` to the end, … — the operation only
    allocates: every existing cell, list and printed value is unchanged.  (An empty list that still
    carried a claim on storage of another list, such as a zero-length slice with capacity, has no
    counterpart in the model: any effect on another variable is a violation.) -/
theorem extending_empty_changes_nothing {h h' : Heap} {op : Op} {res x : Ref}
    (hx : op.extending = true) (ha : op.listArgs.head? = some x)
    {k : Nat} (he : contents h k x = some []) (hr : run h op = .ok (h', res)) :
    (∃ ext, h' = h ++ ext) ∧
      ∀ {n : Nat} {r : Ref} {as : List Nat}, chain h n r = some as →
        chain h' n r = some as ∧ carsOf h' as = carsOf h as := by
  have hnil := empty_list_owns_no_cell he
  subst hnil
  have hgrow : ∃ ext, h' = h ++ ext := by
    cases hd : op.destructive with
    | false => exact nondestructive_only_allocates hd hr
    | true =>
      cases op with
      | nconc x' y =>
        simp [Op.listArgs] at ha; subst ha
        unfold run at hr
        cases hcy : chainOf h y with
        | error e => simp [chainOf_nil, hcy, bind, Except.bind] at hr
        | ok bs =>
          simp [chainOf_nil, hcy, bind, Except.bind] at hr
          exact ⟨[], by simp [hr.1]⟩
      | add x' vs =>
        simp [Op.listArgs] at ha; subst ha
        unfold run at hr
        simp [chainOf_nil, bind, Except.bind] at hr
        obtain ⟨ext, hext⟩ := allocList_grows h vs .nil
        exact ⟨ext, by rw [← hr.1, hext]⟩
      | lit vs => simp [Op.destructive] at hd
      | alias x => simp [Op.destructive] at hd
      | cons v x => simp [Op.destructive] at hd
      | listStar v w x => simp [Op.destructive] at hd
      | append x y => simp [Op.destructive] at hd
      | nthcdr n x => simp [Op.destructive] at hd
      | last n x => simp [Op.destructive] at hd
      | member p key x => simp [Op.destructive] at hd
      | butlast n x => simp [Op.destructive] at hd
      | subseq s e x => simp [Op.destructive] at hd
      | copyList x => simp [Op.destructive] at hd
      | reverse x => simp [Op.destructive] at hd
      | remove p x => simp [Op.destructive] at hd
      | mapcar f x => simp [Op.destructive] at hd
      | mapcar2 x y => simp [Op.destructive] at hd
      | concat x y => simp [Op.destructive] at hd
      | fresh1 f x => simp [Op.destructive] at hd
      | fresh2 f x y => simp [Op.destructive] at hd
      | revappend x y => simp [Op.destructive] at hd
      | rplaca x v => simp [Op.extending] at hx
      | setNth n x v => simp [Op.extending] at hx
      | rplacd x y => simp [Op.extending] at hx
      | nreverse x => simp [Op.extending] at hx
      | sort d k x => simp [Op.extending] at hx
      | delete p x => simp [Op.extending] at hx
      | carmap f x => simp [Op.extending] at hx
      | nbutlast k x => simp [Op.extending] at hx
  refine ⟨hgrow, ?_⟩
  intro n r as hc
  obtain ⟨ext, hext⟩ := hgrow
  subst hext
  exact frame_of_append ext hc

/-! ## (A) computes (B): the list an operation returns has the value the value-level model gives -/

/-- For every non-destructive operation the heap-level result denotes exactly `valueOf` applied to
    the values of the list arguments (`xs`, `ys` = contents of the first / second list argument). -/
theorem nondestructive_refines_value {h h' : Heap} {op : Op} {res : Ref} {xs ys : List Val}
    (hnd : op.destructive = false) (hr : run h op = .ok (h', res))
    (hx : ∀ x, op.listArgs[0]? = some x → contents h (stdFuel h) x = some xs)
    (hy : ∀ y, op.listArgs[1]? = some y → contents h (stdFuel h) y = some ys) :
    ∃ n vs, valueOf op xs ys = .ok vs ∧ contents h' n res = some vs := by
  cases op with
  | lit vs =>
    simp [run] at hr
    refine ⟨vs.length, vs, rfl, ?_⟩
    have := allocList_contents_nil h vs
    rw [hr] at this; exact this
  | alias x =>
    simp [run] at hr
    refine ⟨stdFuel h, xs, rfl, ?_⟩
    rw [← hr.1, ← hr.2]; exact hx x rfl
  | cons v x =>
    simp [run] at hr
    refine ⟨stdFuel h + 1, v :: xs, rfl, ?_⟩
    rw [← hr.1, ← hr.2]; exact consCell_contents v (hx x rfl)
  | listStar v w x =>
    simp only [run] at hr
    simp at hr
    refine ⟨stdFuel h + 2, v :: w :: xs, rfl, ?_⟩
    have := allocList_contents (hx x rfl) [v, w]
    rw [hr] at this; simpa using this
  | append x y =>
    unfold run at hr
    cases hcx : chainOf h x with
    | error e => simp [hcx, bind, Except.bind] at hr
    | ok as =>
      cases hcy : chainOf h y with
      | error e => simp [hcx, hcy, bind, Except.bind] at hr
      | ok bs =>
        simp [hcx, hcy, bind, Except.bind] at hr
        have hxs := args_val hcx (hx x rfl)
        refine ⟨stdFuel h + (carsOf h as).length, xs ++ ys, rfl, ?_⟩
        have := allocList_contents (hy y rfl) (carsOf h as)
        rw [hr] at this; rw [hxs]; exact this
  | nthcdr k x =>
    unfold run at hr
    cases hcx : chainOf h x with
    | error e => simp [hcx, bind, Except.bind] at hr
    | ok as =>
      simp [hcx, bind, Except.bind] at hr
      have hxs := args_val hcx (hx x rfl)
      have hch := chainOf_ok.mp hcx
      refine ⟨stdFuel h, vNthcdr k xs, rfl, ?_⟩
      rw [← hr.1, ← hr.2, contents_of_chain (chain_drop k hch), carsOf_drop k (chain_lt hch), hxs]; rfl
  | last k x =>
    unfold run at hr
    cases hcx : chainOf h x with
    | error e => simp [hcx, bind, Except.bind] at hr
    | ok as =>
      simp [hcx, bind, Except.bind] at hr
      have hxs := args_val hcx (hx x rfl)
      have hch := chainOf_ok.mp hcx
      refine ⟨stdFuel h, vLast k xs, rfl, ?_⟩
      rw [← hr.1, ← hr.2, contents_of_chain (chain_drop _ hch), carsOf_drop _ (chain_lt hch), hxs]
      simp [vLast, carsOf_length (chain_lt hch)]
  | member p key x =>
    unfold run at hr
    cases hcx : chainOf h x with
    | error e => simp [hcx, bind, Except.bind] at hr
    | ok as =>
      simp [hcx, bind, Except.bind] at hr
      have hxs := args_val hcx (hx x rfl)
      have hch := chainOf_ok.mp hcx
      refine ⟨stdFuel h, vMember p key xs, rfl, ?_⟩
      rw [← hr.1, ← hr.2, contents_of_chain (chain_drop _ hch), carsOf_drop _ (chain_lt hch), hxs]
      simp [vMember, drop_length_takeWhile]
  | butlast k x =>
    unfold run at hr
    cases hcx : chainOf h x with
    | error e => simp [hcx, bind, Except.bind] at hr
    | ok as =>
      simp [hcx, bind, Except.bind] at hr
      have hxs := args_val hcx (hx x rfl)
      refine ⟨(vButlast k (carsOf h as)).length, vButlast k xs, rfl, ?_⟩
      have := allocList_contents_nil h (vButlast k (carsOf h as))
      rw [hr] at this; rw [hxs]; exact this
  | subseq s e x =>
    unfold run at hr
    cases hcx : chainOf h x with
    | error e => simp [hcx, bind, Except.bind] at hr
    | ok as =>
      have hxs := args_val hcx (hx x rfl)
      cases hv : vSubseq s e (carsOf h as) with
      | error e => simp [hcx, hv, bind, Except.bind] at hr
      | ok vs =>
        simp [hcx, hv, bind, Except.bind] at hr
        refine ⟨vs.length, vs, by simp [valueOf, hxs, hv], ?_⟩
        have := allocList_contents_nil h vs
        rw [hr] at this; exact this
  | copyList x =>
    unfold run at hr
    cases hcx : chainOf h x with
    | error e => simp [hcx, bind, Except.bind] at hr
    | ok as =>
      simp [hcx, bind, Except.bind] at hr
      have hxs := args_val hcx (hx x rfl)
      refine ⟨(carsOf h as).length, xs, rfl, ?_⟩
      have := allocList_contents_nil h (carsOf h as)
      rw [hr] at this; rw [hxs]; exact this
  | reverse x =>
    unfold run at hr
    cases hcx : chainOf h x with
    | error e => simp [hcx, bind, Except.bind] at hr
    | ok as =>
      simp [hcx, bind, Except.bind] at hr
      have hxs := args_val hcx (hx x rfl)
      refine ⟨(carsOf h as).reverse.length, xs.reverse, rfl, ?_⟩
      have := allocList_contents_nil h (carsOf h as).reverse
      rw [hr] at this; rw [hxs]; exact this
  | remove p x =>
    unfold run at hr
    cases hcx : chainOf h x with
    | error e => simp [hcx, bind, Except.bind] at hr
    | ok as =>
      simp [hcx, bind, Except.bind] at hr
      have hxs := args_val hcx (hx x rfl)
      have hch := chainOf_ok.mp hcx
      refine ⟨stdFuel h + as.length, vRemove p xs, rfl, ?_⟩
      have hch' : chain h (stdFuel h) (refOf as) = some as := by rw [refOf_chain hch]; exact hch
      have := removeCells_contents (maskOf p (carsOf h as)) hch'
      rw [hr] at this; rw [hxs]; exact this
  | mapcar f x =>
    unfold run at hr
    cases hcx : chainOf h x with
    | error e => simp [hcx, bind, Except.bind] at hr
    | ok as =>
      simp [hcx, bind, Except.bind] at hr
      have hxs := args_val hcx (hx x rfl)
      refine ⟨(vMapcar f (carsOf h as)).length, vMapcar f xs, rfl, ?_⟩
      have := allocList_contents_nil h (vMapcar f (carsOf h as))
      rw [hr] at this; rw [hxs]; exact this
  | mapcar2 x y =>
    unfold run at hr
    cases hcx : chainOf h x with
    | error e => simp [hcx, bind, Except.bind] at hr
    | ok as =>
      cases hcy : chainOf h y with
      | error e => simp [hcx, hcy, bind, Except.bind] at hr
      | ok bs =>
        simp [hcx, hcy, bind, Except.bind] at hr
        have hxs := args_val hcx (hx x rfl)
        have hys := args_val hcy (hy y rfl)
        refine ⟨(vMapcar2 (carsOf h as) (carsOf h bs)).length, vMapcar2 xs ys, rfl, ?_⟩
        have := allocList_contents_nil h (vMapcar2 (carsOf h as) (carsOf h bs))
        rw [hr] at this; rw [hxs, hys]; exact this
  | concat x y =>
    unfold run at hr
    cases hcx : chainOf h x with
    | error e => simp [hcx, bind, Except.bind] at hr
    | ok as =>
      cases hcy : chainOf h y with
      | error e => simp [hcx, hcy, bind, Except.bind] at hr
      | ok bs =>
        simp [hcx, hcy, bind, Except.bind] at hr
        have hxs := args_val hcx (hx x rfl)
        have hys := args_val hcy (hy y rfl)
        refine ⟨(carsOf h as ++ carsOf h bs).length, xs ++ ys, rfl, ?_⟩
        have := allocList_contents_nil h (carsOf h as ++ carsOf h bs)
        rw [hr] at this; rw [hxs, hys]; exact this
  | fresh1 f x =>
    unfold run at hr
    cases hcx : chainOf h x with
    | error e => simp [hcx, bind, Except.bind] at hr
    | ok as =>
      simp [hcx, bind, Except.bind] at hr
      have hxs := args_val hcx (hx x rfl)
      refine ⟨(f.app (carsOf h as)).length, f.app xs, rfl, ?_⟩
      have := allocList_contents_nil h (f.app (carsOf h as))
      rw [hr] at this; rw [hxs]; exact this
  | fresh2 f x y =>
    unfold run at hr
    cases hcx : chainOf h x with
    | error e => simp [hcx, bind, Except.bind] at hr
    | ok as =>
      cases hcy : chainOf h y with
      | error e => simp [hcx, hcy, bind, Except.bind] at hr
      | ok bs =>
        simp [hcx, hcy, bind, Except.bind] at hr
        have hxs := args_val hcx (hx x rfl)
        have hys := args_val hcy (hy y rfl)
        refine ⟨(f.app (carsOf h as) (carsOf h bs)).length, f.app xs ys, rfl, ?_⟩
        have := allocList_contents_nil h (f.app (carsOf h as) (carsOf h bs))
        rw [hr] at this; rw [hxs, hys]; exact this
  | revappend x y =>
    unfold run at hr
    cases hcx : chainOf h x with
    | error e => simp [hcx, bind, Except.bind] at hr
    | ok as =>
      cases hcy : chainOf h y with
      | error e => simp [hcx, hcy, bind, Except.bind] at hr
      | ok bs =>
        simp [hcx, hcy, bind, Except.bind] at hr
        have hxs := args_val hcx (hx x rfl)
        refine ⟨stdFuel h + (carsOf h as).reverse.length, xs.reverse ++ ys, rfl, ?_⟩
        have := allocList_contents (hy y rfl) (carsOf h as).reverse
        rw [hr] at this; rw [hxs]; exact this
  | rplaca x v => simp [Op.destructive] at hnd
  | setNth n x v => simp [Op.destructive] at hnd
  | rplacd x y => simp [Op.destructive] at hnd
  | nconc x y => simp [Op.destructive] at hnd
  | add x vs => simp [Op.destructive] at hnd
  | nreverse x => simp [Op.destructive] at hnd
  | sort desc key x => simp [Op.destructive] at hnd
  | delete p x => simp [Op.destructive] at hnd
  | carmap f x => simp [Op.destructive] at hnd
  | nbutlast k x => simp [Op.destructive] at hnd


/-- For every destructive operation (`rplaca`, `(setf nth)`, `rplacd`, `nconc`, `add`, `nreverse`,
    `sort`, `delete`) the list it returns denotes `valueOf` applied to the argument values. -/
theorem destructive_refines_value {h h' : Heap} {op : Op} {res : Ref} {xs ys : List Val}
    (hd : op.destructive = true) (hr : run h op = .ok (h', res))
    (hx : ∀ x, op.listArgs[0]? = some x → contents h (stdFuel h) x = some xs)
    (hy : ∀ y, op.listArgs[1]? = some y → contents h (stdFuel h) y = some ys) :
    ∃ n vs, valueOf op xs ys = .ok vs ∧ contents h' n res = some vs := by
  cases op with
  | rplaca x v =>
    unfold run at hr
    cases hcx : chainOf h x with
    | error e => simp [hcx, bind, Except.bind] at hr
    | ok as =>
      have hxs := args_val hcx (hx x rfl)
      have hch := chainOf_ok.mp hcx
      cases as with
      | nil => simp [hcx, bind, Except.bind] at hr
      | cons a rest =>
        simp [hcx, bind, Except.bind] at hr
        have hlt := chain_lt hch
        have ha : a < h.length := hlt a (by simp)
        obtain ⟨c, hg⟩ : ∃ c, h[a]? = some c := ⟨h[a], List.getElem?_eq_getElem ha⟩
        have hset := carsOf_setCar_nth (k := 0) (a := a) v (chain_nodup hch) hlt (by simp)
        rw [carsOf_cons_some hg] at hset hxs
        refine ⟨stdFuel h, v :: carsOf h rest, by simp [valueOf, hxs, vRplaca], ?_⟩
        rw [← hr.1, ← hr.2]
        unfold contents
        rw [chain_setCar, hch]
        simpa using hset
  | setNth k x v =>
    unfold run at hr
    cases hcx : chainOf h x with
    | error e => simp [hcx, bind, Except.bind] at hr
    | ok as =>
      have hxs := args_val hcx (hx x rfl)
      have hch := chainOf_ok.mp hcx
      cases hk : as[k]? with
      | none => simp [hcx, hk, bind, Except.bind] at hr
      | some a =>
        simp [hcx, hk, bind, Except.bind] at hr
        have hlt := chain_lt hch
        have hset := carsOf_setCar_nth v (chain_nodup hch) hlt hk
        have hklt : k < as.length := (List.getElem?_eq_some_iff.mp hk).1
        refine ⟨stdFuel h, xs.set k v, ?_, ?_⟩
        · simp [valueOf, vSetNth, hxs, carsOf_length hlt, hklt]
        · rw [← hr.1, ← hr.2]
          unfold contents
          rw [chain_setCar, hch, hxs]
          simpa using hset
  | rplacd x y =>
    unfold run at hr
    cases hcx : chainOf h x with
    | error e => simp [hcx, bind, Except.bind] at hr
    | ok as =>
      cases hcy : chainOf h y with
      | error e => simp [hcx, hcy, bind, Except.bind] at hr
      | ok bs =>
        have hxs := args_val hcx (hx x rfl)
        have hys := args_val hcy (hy y rfl)
        have hch := chainOf_ok.mp hcx
        have hchy := chainOf_ok.mp hcy
        cases as with
        | nil => simp [hcx, hcy, bind, Except.bind] at hr
        | cons a rest =>
          simp [hcx, hcy, bind, Except.bind] at hr
          split at hr
          · simp at hr
          · rename_i hnc
            simp at hr
            have hnot : a ∉ bs := by simpa using hnc
            have hlt := chain_lt hch
            have ha : a < h.length := hlt a (by simp)
            obtain ⟨c, hg⟩ : ∃ c, h[a]? = some c := ⟨h[a], List.getElem?_eq_getElem ha⟩
            have hxa : x = .cell a := by have := refOf_chain hch; simpa [refOf] using this.symm
            rw [carsOf_cons_some hg] at hxs
            refine ⟨stdFuel h + 1, c.car :: ys, by simp [valueOf, hxs, vRplacd], ?_⟩
            rw [← hr.1, ← hr.2, hxa]
            unfold contents
            rw [chain_setCdr_head hg hchy hnot]
            simp only [Option.map_some, carsOf_setCdr, carsOf_cons_some hg, hys]
  | nconc x y =>
    unfold run at hr
    cases hcx : chainOf h x with
    | error e => simp [hcx, bind, Except.bind] at hr
    | ok as =>
      cases hcy : chainOf h y with
      | error e => simp [hcx, hcy, bind, Except.bind] at hr
      | ok bs =>
        have hxs := args_val hcx (hx x rfl)
        have hys := args_val hcy (hy y rfl)
        have hch := chainOf_ok.mp hcx
        have hchy := chainOf_ok.mp hcy
        have hxc := hx x rfl
        have hyc := hy y rfl
        simp [hcx, hcy, bind, Except.bind] at hr
        split at hr
        · rename_i hnone
          simp at hr
          have : as = [] := by simpa using hnone
          subst this
          refine ⟨stdFuel h, ys, by simp [valueOf, hxs, carsOf], ?_⟩
          rw [← hr.1, ← hr.2]; exact hyc
        · simp at hr
          have : bs = [] := by rw [chain_nil] at hchy; exact (Option.some.inj hchy).symm
          subst this
          refine ⟨stdFuel h, xs, by simp [valueOf, hys, carsOf], ?_⟩
          rw [← hr.1, ← hr.2]; exact hxc
        · rename_i l _ hl
          split at hr
          · cases hr
          · rename_i hany
            simp at hr
            have hdisj : ∀ a ∈ as, a ∉ bs := by
              intro a ha hb
              exact hany ⟨a, ha, hb⟩
            refine ⟨stdFuel h + stdFuel h, xs ++ ys, rfl, ?_⟩
            rw [← hr.1, ← hr.2]
            unfold contents
            rw [chain_setCdr_last hchy hch hl hdisj]
            simp only [Option.map_some, carsOf_setCdr, carsOf_append, hxs, hys]
  | add x vs =>
    unfold run at hr
    cases hcx : chainOf h x with
    | error e => simp [hcx, bind, Except.bind] at hr
    | ok as =>
      have hxs := args_val hcx (hx x rfl)
      have hch := chainOf_ok.mp hcx
      obtain ⟨ext, he⟩ := allocList_grows h vs .nil
      obtain ⟨fresh, hcf, hvf, hff, _⟩ := allocList_spec (h := h) (n := 0) (tail := .nil) (ts := []) (by simp [chain]) vs
      simp [hcx, bind, Except.bind] at hr
      cases hl : as.getLast? with
      | none =>
        simp [hl] at hr
        have : as = [] := by simpa using hl
        subst this
        refine ⟨vs.length, vs, by simp [valueOf, hxs, carsOf], ?_⟩
        rw [← hr.1, ← hr.2]; exact allocList_contents_nil h vs
      | some l =>
        simp [hl] at hr
        have hlt := chain_lt hch
        have hch1 : chain (allocList h vs .nil).1 (stdFuel h) x = some as := by
          rw [he]; exact (frame_of_append ext hch).1
        have hdisj : ∀ a ∈ as, a ∉ fresh ++ [] := by
          intro a ha hb
          have h1 := hlt a ha
          have h2 := hff a (by simpa using hb)
          omega
        refine ⟨stdFuel h + (0 + vs.length), xs ++ vs, rfl, ?_⟩
        rw [← hr.1, ← hr.2]
        unfold contents
        rw [chain_setCdr_last hcf hch1 hl hdisj]
        simp only [Option.map_some, carsOf_setCdr, carsOf_append, List.append_nil, hvf]
        have : carsOf (allocList h vs .nil).1 as = carsOf h as := by
          rw [he]; exact (frame_of_append ext hch).2
        rw [this, hxs]
  | nreverse x =>
    unfold run at hr
    cases hcx : chainOf h x with
    | error e => simp [hcx, bind, Except.bind] at hr
    | ok as =>
      have hxs := args_val hcx (hx x rfl)
      have hch := chainOf_ok.mp hcx
      simp [hcx, bind, Except.bind] at hr
      have hlt := chain_lt hch
      refine ⟨stdFuel h, xs.reverse, rfl, ?_⟩
      rw [← hr.1, ← hr.2]
      unfold contents
      rw [chain_writeCars, hch]
      simp only [Option.map_some]
      rw [carsOf_writeCars (chain_nodup hch) hlt (by simp [carsOf_length hlt]), hxs]
  | sort desc key x =>
    unfold run at hr
    cases hcx : chainOf h x with
    | error e => simp [hcx, bind, Except.bind] at hr
    | ok as =>
      have hxs := args_val hcx (hx x rfl)
      have hch := chainOf_ok.mp hcx
      simp [hcx, bind, Except.bind] at hr
      have hlt := chain_lt hch
      refine ⟨stdFuel h, vSort desc key xs, rfl, ?_⟩
      rw [← hr.1, ← hr.2]
      unfold contents
      rw [chain_writeCars, hch]
      simp only [Option.map_some]
      rw [carsOf_writeCars (chain_nodup hch) hlt (by simp [vSort_length, carsOf_length hlt]), hxs]
  | delete p x =>
    unfold run at hr
    cases hcx : chainOf h x with
    | error e => simp [hcx, bind, Except.bind] at hr
    | ok as =>
      have hxs := args_val hcx (hx x rfl)
      have hch := chainOf_ok.mp hcx
      simp [hcx, bind, Except.bind] at hr
      have hlt := chain_lt hch
      refine ⟨(applyMask (maskOf p (carsOf h as)) as).length, vRemove p xs, rfl, ?_⟩
      rw [← hr.1, ← hr.2]
      unfold contents
      rw [chain_linkCells (applyMask_nodup (chain_nodup hch)) (fun a ha => hlt a (applyMask_subset ha))]
      simp only [Option.map_some, carsOf_linkCells]
      rw [carsOf_applyMask _ hlt, hxs]; rfl
  | carmap f x =>
    unfold run at hr
    cases hcx : chainOf h x with
    | error e => simp [hcx, bind, Except.bind] at hr
    | ok as =>
      have hxs := args_val hcx (hx x rfl)
      have hch := chainOf_ok.mp hcx
      have hlt := chain_lt hch
      cases hv : f.app (carsOf h as) with
      | error e => simp [hcx, hv, bind, Except.bind] at hr
      | ok vs =>
        simp [hcx, hv, bind, Except.bind] at hr
        refine ⟨stdFuel h, vs, by simp [valueOf, hxs, hv], ?_⟩
        rw [← hr.1, ← hr.2]
        unfold contents
        rw [chain_writeCars, hch]
        simp only [Option.map_some]
        rw [carsOf_writeCars (chain_nodup hch) hlt (by rw [FnD.app_length hv, carsOf_length hlt])]
  | nbutlast k x =>
    unfold run at hr
    cases hcx : chainOf h x with
    | error e => simp [hcx, bind, Except.bind] at hr
    | ok as =>
      have hxs := args_val hcx (hx x rfl)
      have hch := chainOf_ok.mp hcx
      simp [hcx, bind, Except.bind] at hr
      have hlt := chain_lt hch
      refine ⟨(as.take (as.length - k)).length, vButlast k xs, rfl, ?_⟩
      rw [← hr.1, ← hr.2]
      unfold contents
      rw [chain_linkCells ((chain_nodup hch).sublist (List.take_sublist _ _)) (fun a ha => hlt a (List.mem_of_mem_take ha))]
      simp only [Option.map_some, carsOf_linkCells]
      rw [carsOf_take _ hlt, hxs, vButlast, carsOf_length hlt]
  | lit vs => simp [Op.destructive] at hd
  | alias x => simp [Op.destructive] at hd
  | cons v x => simp [Op.destructive] at hd
  | listStar v w x => simp [Op.destructive] at hd
  | append x y => simp [Op.destructive] at hd
  | nthcdr n x => simp [Op.destructive] at hd
  | last n x => simp [Op.destructive] at hd
  | member p key x => simp [Op.destructive] at hd
  | butlast n x => simp [Op.destructive] at hd
  | subseq s e x => simp [Op.destructive] at hd
  | copyList x => simp [Op.destructive] at hd
  | reverse x => simp [Op.destructive] at hd
  | remove p x => simp [Op.destructive] at hd
  | mapcar f x => simp [Op.destructive] at hd
  | mapcar2 x y => simp [Op.destructive] at hd
  | concat x y => simp [Op.destructive] at hd
  | fresh1 f x => simp [Op.destructive] at hd
  | fresh2 f x y => simp [Op.destructive] at hd
  | revappend x y => simp [Op.destructive] at hd


/-- **(A) computes (B)**, all operations. -/
theorem run_refines_value {h h' : Heap} {op : Op} {res : Ref} {xs ys : List Val}
    (hr : run h op = .ok (h', res))
    (hx : ∀ x, op.listArgs[0]? = some x → contents h (stdFuel h) x = some xs)
    (hy : ∀ y, op.listArgs[1]? = some y → contents h (stdFuel h) y = some ys) :
    ∃ n vs, valueOf op xs ys = .ok vs ∧ contents h' n res = some vs := by
  cases hd : op.destructive with
  | false => exact nondestructive_refines_value hd hr hx hy
  | true => exact destructive_refines_value hd hr hx hy

-- a = (1 2), c = (5): (nconc a c) returns a list denoting (1 2 5) = valueOf on the argument values
example :
    let h : Heap := [⟨2, .nil⟩, ⟨1, .cell 0⟩, ⟨5, .nil⟩]
    run h (.nconc (.cell 1) (.cell 2)) = .ok ([⟨2, .cell 2⟩, ⟨1, .cell 0⟩, ⟨5, .nil⟩], .cell 1)
      ∧ contents h (stdFuel h) (.cell 1) = some [1, 2] ∧ contents h (stdFuel h) (.cell 2) = some [5]
      ∧ valueOf (.nconc (.cell 1) (.cell 2)) [1, 2] [5] = .ok [1, 2, 5] := by
  refine ⟨by rfl, by rfl, by rfl, by rfl⟩

/-! ## results: fresh cells, except the tail sharing the language prescribes -/

/-- **result independence.** The list returned by `list butlast subseq copy-list reverse mapcar` is
    made of fresh cells only, so it shares no cell with any list that existed before the call. -/
theorem fresh_result_independent {h h' : Heap} {op : Op} {res : Ref}
    (hf : op.freshResult = true) (hr : run h op = .ok (h', res)) :
    ∃ n as, chain h' n res = some as ∧ (∀ a ∈ as, h.length ≤ a) ∧
      ∀ {m : Nat} {r : Ref} {bs : List Nat}, chain h m r = some bs → ∀ a ∈ as, a ∉ bs := by
  have key : ∀ vs, allocList h vs .nil = (h', res) →
      ∃ n as, chain h' n res = some as ∧ (∀ a ∈ as, h.length ≤ a) ∧
        ∀ {m : Nat} {r : Ref} {bs : List Nat}, chain h m r = some bs → ∀ a ∈ as, a ∉ bs := by
    intro vs he
    obtain ⟨as, hc, hfr⟩ := allocList_nil_fresh h vs
    rw [he] at hc
    refine ⟨vs.length, as, hc, hfr, ?_⟩
    intro m r bs hb a ha hab
    have := chain_lt hb a hab
    have := hfr a ha
    omega
  cases op with
  | lit vs => simp [run] at hr; exact key vs hr
  | butlast k x =>
    unfold run at hr
    cases hcx : chainOf h x with
    | error e => simp [hcx, bind, Except.bind] at hr
    | ok as => simp [hcx, bind, Except.bind] at hr; exact key _ hr
  | subseq s e x =>
    unfold run at hr
    cases hcx : chainOf h x with
    | error e => simp [hcx, bind, Except.bind] at hr
    | ok as =>
      cases hv : vSubseq s e (carsOf h as) with
      | error e => simp [hcx, hv, bind, Except.bind] at hr
      | ok vs => simp [hcx, hv, bind, Except.bind] at hr; exact key _ hr
  | copyList x =>
    unfold run at hr
    cases hcx : chainOf h x with
    | error e => simp [hcx, bind, Except.bind] at hr
    | ok as => simp [hcx, bind, Except.bind] at hr; exact key _ hr
  | reverse x =>
    unfold run at hr
    cases hcx : chainOf h x with
    | error e => simp [hcx, bind, Except.bind] at hr
    | ok as => simp [hcx, bind, Except.bind] at hr; exact key _ hr
  | mapcar f x =>
    unfold run at hr
    cases hcx : chainOf h x with
    | error e => simp [hcx, bind, Except.bind] at hr
    | ok as => simp [hcx, bind, Except.bind] at hr; exact key _ hr
  | mapcar2 x y =>
    unfold run at hr
    cases hcx : chainOf h x with
    | error e => simp [hcx, bind, Except.bind] at hr
    | ok as =>
      cases hcy : chainOf h y with
      | error e => simp [hcx, hcy, bind, Except.bind] at hr
      | ok bs => simp [hcx, hcy, bind, Except.bind] at hr; exact key _ hr
  | concat x y =>
    unfold run at hr
    cases hcx : chainOf h x with
    | error e => simp [hcx, bind, Except.bind] at hr
    | ok as =>
      cases hcy : chainOf h y with
      | error e => simp [hcx, hcy, bind, Except.bind] at hr
      | ok bs => simp [hcx, hcy, bind, Except.bind] at hr; exact key _ hr
  | fresh1 f x =>
    unfold run at hr
    cases hcx : chainOf h x with
    | error e => simp [hcx, bind, Except.bind] at hr
    | ok as => simp [hcx, bind, Except.bind] at hr; exact key _ hr
  | fresh2 f x y =>
    unfold run at hr
    cases hcx : chainOf h x with
    | error e => simp [hcx, bind, Except.bind] at hr
    | ok as =>
      cases hcy : chainOf h y with
      | error e => simp [hcx, hcy, bind, Except.bind] at hr
      | ok bs => simp [hcx, hcy, bind, Except.bind] at hr; exact key _ hr
  | alias x => simp [Op.freshResult] at hf
  | cons v x => simp [Op.freshResult] at hf
  | listStar v w x => simp [Op.freshResult] at hf
  | append x y => simp [Op.freshResult] at hf
  | revappend x y => simp [Op.freshResult] at hf
  | nthcdr n x => simp [Op.freshResult] at hf
  | last n x => simp [Op.freshResult] at hf
  | member p key x => simp [Op.freshResult] at hf
  | remove p x => simp [Op.freshResult] at hf
  | rplaca x v => simp [Op.freshResult] at hf
  | setNth n x v => simp [Op.freshResult] at hf
  | rplacd x y => simp [Op.freshResult] at hf
  | nconc x y => simp [Op.freshResult] at hf
  | add x vs => simp [Op.freshResult] at hf
  | nreverse x => simp [Op.freshResult] at hf
  | sort desc key x => simp [Op.freshResult] at hf
  | delete p x => simp [Op.freshResult] at hf
  | carmap f x => simp [Op.freshResult] at hf
  | nbutlast k x => simp [Op.freshResult] at hf

/-- `cdr rest nthcdr pop last member (setq d a)` allocate nothing and return a tail of their
    argument (the sharing the language prescribes). -/
theorem tail_result_shares {h h' : Heap} {op : Op} {res : Ref} {x : Ref}
    (ht : op.tailResult = true) (hx : op.listArgs = [x]) (hr : run h op = .ok (h', res))
    {as : List Nat} (hc : chain h (stdFuel h) x = some as) :
    h' = h ∧ ∃ k, chain h (stdFuel h) res = some (as.drop k) := by
  have hco := chainOf_ok.mpr hc
  cases op with
  | alias y =>
    simp [Op.listArgs] at hx; subst hx
    simp [run] at hr
    exact ⟨hr.1.symm, 0, by rw [← hr.2]; simpa using hc⟩
  | nthcdr n y =>
    simp [Op.listArgs] at hx; subst hx
    unfold run at hr
    simp [hco, bind, Except.bind] at hr
    exact ⟨hr.1.symm, n, by rw [← hr.2]; exact chain_drop n hc⟩
  | last n y =>
    simp [Op.listArgs] at hx; subst hx
    unfold run at hr
    simp [hco, bind, Except.bind] at hr
    exact ⟨hr.1.symm, _, by rw [← hr.2]; exact chain_drop _ hc⟩
  | member p key y =>
    simp [Op.listArgs] at hx; subst hx
    unfold run at hr
    simp [hco, bind, Except.bind] at hr
    exact ⟨hr.1.symm, _, by rw [← hr.2]; exact chain_drop _ hc⟩
  | lit vs => simp [Op.tailResult] at ht
  | cons v x => simp [Op.tailResult] at ht
  | listStar v w x => simp [Op.tailResult] at ht
  | append x y => simp [Op.tailResult] at ht
  | butlast n x => simp [Op.tailResult] at ht
  | subseq s e x => simp [Op.tailResult] at ht
  | copyList x => simp [Op.tailResult] at ht
  | reverse x => simp [Op.tailResult] at ht
  | remove p x => simp [Op.tailResult] at ht
  | mapcar f x => simp [Op.tailResult] at ht
  | mapcar2 x y => simp [Op.tailResult] at ht
  | concat x y => simp [Op.tailResult] at ht
  | fresh1 f x => simp [Op.tailResult] at ht
  | fresh2 f x y => simp [Op.tailResult] at ht
  | revappend x y => simp [Op.tailResult] at ht
  | rplaca x v => simp [Op.tailResult] at ht
  | setNth n x v => simp [Op.tailResult] at ht
  | rplacd x y => simp [Op.tailResult] at ht
  | nconc x y => simp [Op.tailResult] at ht
  | add x vs => simp [Op.tailResult] at ht
  | nreverse x => simp [Op.tailResult] at ht
  | sort desc key x => simp [Op.tailResult] at ht
  | delete p x => simp [Op.tailResult] at ht
  | carmap f x => simp [Op.tailResult] at ht
  | nbutlast k x => simp [Op.tailResult] at ht

/-- `cons push list* append`: the result is fresh cells followed by exactly the cells of the last
    argument (the only sharing the language prescribes). -/
theorem cons_append_share_only_last_arg {h : Heap} {n : Nat} {y : Ref} {bs : List Nat}
    (hy : chain h n y = some bs) :
    (∀ v, ∃ fresh, chain (h ++ [⟨v, y⟩]) (n + 1) (.cell h.length) = some (fresh ++ bs) ∧ ∀ a ∈ fresh, h.length ≤ a) ∧
    (∀ vs, ∃ fresh, chain (allocList h vs y).1 (n + vs.length) (allocList h vs y).2 = some (fresh ++ bs)
        ∧ ∀ a ∈ fresh, h.length ≤ a) := by
  constructor
  · intro v
    obtain ⟨fresh, hc, _, hf, _⟩ := allocList_spec hy [v]
    exact ⟨fresh, by simpa [allocList] using hc, hf⟩
  · intro vs
    obtain ⟨fresh, hc, _, hf, _⟩ := allocList_spec hy vs
    exact ⟨fresh, hc, hf⟩

/-- `cons push list* append` at the level of `run`: the result consists of fresh cells followed by
    exactly the cells of the last list argument. -/
theorem ext_result_shares_only_last_arg {h h' : Heap} {op : Op} {res y : Ref} {n : Nat} {bs : List Nat}
    (hx : op.extending = true) (hnd : op.destructive = false) (hr : run h op = .ok (h', res))
    (hl : op.listArgs.getLast? = some y) (hy : chain h n y = some bs) :
    ∃ m fresh, chain h' m res = some (fresh ++ bs) ∧ ∀ a ∈ fresh, h.length ≤ a := by
  cases op with
  | cons v x =>
    simp [Op.listArgs] at hl; subst hl
    simp [run] at hr
    obtain ⟨fresh, hc, hf⟩ := (cons_append_share_only_last_arg hy).1 v
    exact ⟨n + 1, fresh, by rw [← hr.1, ← hr.2]; exact hc, hf⟩
  | listStar v w x =>
    simp [Op.listArgs] at hl; subst hl
    simp only [run] at hr
    simp at hr
    obtain ⟨fresh, hc, hf⟩ := (cons_append_share_only_last_arg hy).2 [v, w]
    rw [hr] at hc
    exact ⟨_, fresh, hc, hf⟩
  | append x y' =>
    simp [Op.listArgs] at hl; subst hl
    unfold run at hr
    cases hcx : chainOf h x with
    | error e => simp [hcx, bind, Except.bind] at hr
    | ok as =>
      cases hcy : chainOf h y' with
      | error e => simp [hcx, hcy, bind, Except.bind] at hr
      | ok bs' =>
        simp [hcx, hcy, bind, Except.bind] at hr
        obtain ⟨fresh, hc, hf⟩ := (cons_append_share_only_last_arg hy).2 (carsOf h as)
        rw [hr] at hc
        exact ⟨_, fresh, hc, hf⟩
  | revappend x y' =>
    simp [Op.listArgs] at hl; subst hl
    unfold run at hr
    cases hcx : chainOf h x with
    | error e => simp [hcx, bind, Except.bind] at hr
    | ok as =>
      cases hcy : chainOf h y' with
      | error e => simp [hcx, hcy, bind, Except.bind] at hr
      | ok bs' =>
        simp [hcx, hcy, bind, Except.bind] at hr
        obtain ⟨fresh, hc, hf⟩ := (cons_append_share_only_last_arg hy).2 (carsOf h as).reverse
        rw [hr] at hc
        exact ⟨_, fresh, hc, hf⟩
  | lit vs => simp [Op.extending] at hx
  | alias x => simp [Op.extending] at hx
  | nthcdr n x => simp [Op.extending] at hx
  | last n x => simp [Op.extending] at hx
  | member p key x => simp [Op.extending] at hx
  | butlast n x => simp [Op.extending] at hx
  | subseq s e x => simp [Op.extending] at hx
  | copyList x => simp [Op.extending] at hx
  | reverse x => simp [Op.extending] at hx
  | remove p x => simp [Op.extending] at hx
  | mapcar f x => simp [Op.extending] at hx
  | mapcar2 x y => simp [Op.extending] at hx
  | concat x y => simp [Op.extending] at hx
  | fresh1 f x => simp [Op.extending] at hx
  | fresh2 f x y => simp [Op.extending] at hx
  | rplaca x v => simp [Op.extending] at hx
  | setNth n x v => simp [Op.extending] at hx
  | rplacd x y => simp [Op.extending] at hx
  | nconc x y => simp [Op.destructive] at hnd
  | add x vs => simp [Op.destructive] at hnd
  | nreverse x => simp [Op.extending] at hx
  | sort desc key x => simp [Op.extending] at hx
  | delete p x => simp [Op.extending] at hx
  | carmap f x => simp [Op.extending] at hx
  | nbutlast k x => simp [Op.extending] at hx

/-! ## value laws of (B) -/

theorem append_assoc (x y : Ref) (xs ys zs : List Val) :
    (valueOf (.append x y) xs ys).bind (fun l => valueOf (.append x y) l zs)
      = (valueOf (.append x y) ys zs).bind (fun r => valueOf (.append x y) xs r) := by
  simp [valueOf, Except.bind, List.append_assoc]

theorem append_nil_right (x y : Ref) (xs : List Val) : valueOf (.append x y) xs [] = .ok xs := by
  simp [valueOf]

theorem reverse_involutive (x : Ref) (xs : List Val) :
    (valueOf (.reverse x) xs []).bind (fun l => valueOf (.reverse x) l []) = .ok xs := by
  simp [valueOf, Except.bind]

theorem nreverse_eq_reverse (x : Ref) (xs : List Val) : valueOf (.nreverse x) xs [] = valueOf (.reverse x) xs [] := rfl

theorem delete_eq_remove (sp : RemSpec) (x : Ref) (xs : List Val) :
    valueOf (.delete sp x) xs [] = valueOf (.remove sp x) xs [] := rfl

theorem nconc_eq_append (x y : Ref) (xs ys : List Val) : valueOf (.nconc x y) xs ys = valueOf (.append x y) xs ys := rfl

theorem length_butlast (n : Nat) (xs : List Val) : (vButlast n xs).length = xs.length - n := by
  simp [vButlast, List.length_take]

theorem length_last (n : Nat) (xs : List Val) : (vLast n xs).length = min n xs.length := by
  simp [vLast, List.length_drop]; omega

/-- `(append (butlast l n) (last l n)) = l` -/
theorem butlast_append_last (n : Nat) (xs : List Val) : vButlast n xs ++ vLast n xs = xs := by
  simp [vButlast, vLast, List.take_append_drop]

theorem nthcdr_length (n : Nat) (xs : List Val) : (vNthcdr n xs).length = xs.length - n := by
  simp [vNthcdr]

/-- `subseq` is `take ∘ drop`, defined exactly when `start ≤ end ≤ length` -/
theorem subseq_eq_take_drop (s e : Nat) (xs : List Val) :
    (s ≤ e ∧ e ≤ xs.length → vSubseq s (some e) xs = .ok ((xs.drop s).take (e - s)))
    ∧ (¬(s ≤ e ∧ e ≤ xs.length) → vSubseq s (some e) xs = .error .range) := by
  constructor <;> intro hb <;> simp [vSubseq, hb]

theorem subseq_length {s e : Nat} {xs l : List Val} (h : vSubseq s (some e) xs = .ok l) : l.length = e - s := by
  unfold vSubseq at h
  simp only [Option.getD_some] at h
  split at h
  · rename_i hb
    injection h with h; subst h
    simp [List.length_take, List.length_drop]; omega
  · cases h

theorem subseq_whole (xs : List Val) : vSubseq 0 none xs = .ok xs := by
  simp [vSubseq]

theorem subseq_to_end (s : Nat) (xs : List Val) (h : s ≤ xs.length) : vSubseq s none xs = .ok (vNthcdr s xs) := by
  simp [vSubseq, h, vNthcdr, List.take_of_length_le]

/-- `member`/`member-if` (with `:key`, `:test`) return a tail of the argument whose first element
    satisfies the test, or nil when no element does -/
theorem member_suffix (p : Pred) (key : Option Fn) (xs : List Val) : vMember p key xs <:+ xs := by
  unfold vMember; exact List.dropWhile_suffix _

theorem member_head (p : Pred) (key : Option Fn) (xs : List Val) :
    ∀ v ∈ (vMember p key xs).head?, p.test (keyApp key v) = true := by
  unfold vMember
  induction xs with
  | nil => simp
  | cons x xs ih =>
    by_cases hx : p.test (keyApp key x) = true
    · simp [List.dropWhile_cons, hx]
    · simpa [List.dropWhile_cons, hx] using ih

theorem member_nil_iff (p : Pred) (key : Option Fn) (xs : List Val) :
    vMember p key xs = [] ↔ ∀ x ∈ xs, p.test (keyApp key x) = false := by
  unfold vMember
  induction xs with
  | nil => simp
  | cons x xs ih =>
    by_cases hx : p.test (keyApp key x) = true
    · simp [List.dropWhile_cons, hx]
    · simp [List.dropWhile_cons, hx, ih]

/-- `remove`/`delete` (all keyword variants) return a sub-list of the argument, in order -/
theorem remove_sublist (sp : RemSpec) (xs : List Val) : (vRemove sp xs).Sublist xs := by
  unfold vRemove; exact applyMask_sublist _ _

theorem candidates_length (sp : RemSpec) (stop : Nat) : ∀ (i : Nat) (xs : List Val), (candidates sp stop i xs).length = xs.length := by
  intro i xs
  induction xs generalizing i with
  | nil => rfl
  | cons x xs ih => simp [candidates, ih]

theorem limitFirst_length : ∀ (n : Nat) (bs : List Bool), (limitFirst n bs).length = bs.length := by
  intro n bs
  induction bs generalizing n with
  | nil => simp [limitFirst]
  | cons b bs ih =>
    cases b with
    | false => simp [limitFirst, ih]
    | true => cases n <;> simp [limitFirst, ih]

/-- `:count n` removes at most `n` elements -/
theorem limitFirst_count : ∀ (n : Nat) (bs : List Bool), (limitFirst n bs).count true ≤ n := by
  intro n bs
  induction bs generalizing n with
  | nil => simp [limitFirst]
  | cons b bs ih =>
    cases b with
    | false => simpa [limitFirst] using ih n
    | true =>
      cases n with
      | zero => simpa [limitFirst] using ih 0
      | succ k => simp [limitFirst]; exact ih k

/-- `:count` only ever spares candidates: a position marked after limiting was a candidate -/
theorem limitFirst_sub : ∀ (n : Nat) (bs : List Bool) (i : Nat), (limitFirst n bs)[i]? = some true → bs[i]? = some true := by
  intro n bs
  induction bs generalizing n with
  | nil => intro i h; simp [limitFirst] at h
  | cons b bs ih =>
    intro i h
    cases b with
    | false =>
      cases i with
      | zero => simp [limitFirst] at h
      | succ j => simp [limitFirst] at h ⊢; exact ih n j h
    | true =>
      cases i with
      | zero => simp
      | succ j =>
        cases n with
        | zero => simp [limitFirst] at h ⊢; exact ih 0 j h
        | succ k => simp [limitFirst] at h ⊢; exact ih k j h

/-- a candidate lies inside `[:start, :end)` and its key satisfies the test -/
theorem candidates_sound (sp : RemSpec) (stop : Nat) : ∀ (i : Nat) (xs : List Val) (j : Nat),
    (candidates sp stop i xs)[j]? = some true →
      sp.start ≤ i + j ∧ i + j < stop ∧ ∃ x, xs[j]? = some x ∧ sp.pred.test (keyApp sp.key x) = true := by
  intro i xs
  induction xs generalizing i with
  | nil => intro j h; simp [candidates] at h
  | cons x xs ih =>
    intro j h
    cases j with
    | zero =>
      simp [candidates] at h
      exact ⟨by omega, by omega, x, by simp, h.2⟩
    | succ k =>
      simp [candidates] at h
      obtain ⟨h1, h2, y, hy, hp⟩ := ih (i + 1) k h
      exact ⟨by omega, by omega, y, by simpa using hy, hp⟩

/-- without keywords `remove item list` / `remove-if pred list` is a plain filter -/
theorem remove_default_eq_filter (p : Pred) (xs : List Val) :
    vRemove { pred := p } xs = xs.filter (fun x => !p.test x) := by
  have key : ∀ (i : Nat) (ys : List Val), ys.length + i ≤ xs.length + i →
      applyMask (candidates { pred := p } (ys.length + i) i ys) ys = ys.filter (fun x => !p.test x) := by
    intro i ys
    induction ys generalizing i with
    | nil => intro _; rfl
    | cons y ys ih =>
      intro _
      have e : (y :: ys).length + i = ys.length + (i + 1) := by simp; omega
      rw [e]
      have := ih (i + 1) (by omega)
      by_cases hp : p.test y = true
      · simp [candidates, applyMask, keyApp, hp, this, show i < ys.length + (i + 1) by omega]
      · simp [candidates, applyMask, keyApp, hp, this]
  have := key 0 xs (by omega)
  simpa [vRemove, maskOf] using this

/-- `(revappend x y)` = `(append (reverse x) y)` -/
theorem revappend_eq_append_reverse (x y : Ref) (xs ys : List Val) :
    valueOf (.revappend x y) xs ys = valueOf (.append x y) xs.reverse ys := rfl

theorem revappend_nil_eq_reverse (x y : Ref) (xs : List Val) :
    valueOf (.revappend x y) xs [] = valueOf (.reverse x) xs [] := by simp [valueOf]

/-- a copy (copy-seq, copy-tree on a flat list, `(apply #'list x)`, `(multiple-value-list (values-list x))`) has the
    value of its argument -/
theorem fresh_copy_value (x : Ref) (xs : List Val) : valueOf (.fresh1 .copy x) xs [] = .ok xs := rfl

theorem interleave_length : ∀ (xs ys : List Val), (interleave xs ys).length = 2 * min xs.length ys.length
  | [], _ => by simp [interleave]
  | _ :: _, [] => by simp [interleave]
  | x :: xs, y :: ys => by
    simp only [interleave, List.length_cons, interleave_length xs ys]
    omega

/-- what a two-list map hands to its function at the first step is the pair of the first elements, exactly
    when both lists are non-empty -/
theorem firstPair_spec (xs ys : List Val) :
    Fn2.app .firstPair xs ys = match xs.head?, ys.head? with
      | some a, some b => [a, b]
      | _, _ => [] := by
  cases xs <;> cases ys <;> simp [Fn2.app]

theorem takeMin_length (xs ys : List Val) : (Fn2.app .takeMin xs ys).length = min xs.length ys.length := by
  simp [Fn2.app, List.length_take]

theorem mapcar_length (f : Fn) (xs : List Val) : (vMapcar f xs).length = xs.length := by simp [vMapcar]

/-- `sort` returns an ordered permutation of its argument -/
theorem sort_sorted_perm (desc : Bool) (key : Option Fn) (xs : List Val) :
    (vSort desc key xs).Pairwise (fun a b => rank desc key a ≤ rank desc key b) ∧ (vSort desc key xs).Perm xs := by
  induction xs with
  | nil => simp [vSort]
  | cons x xs ih =>
    have e : vSort desc key (x :: xs) = insertSorted (rank desc key) x (vSort desc key xs) := rfl
    rw [e]
    exact ⟨insertSorted_sorted _ x ih.1, (insertSorted_perm _ x _).trans (List.Perm.cons x ih.2)⟩

end SlipVerif.ListHeap
