import SlipVerif.Model.ListHeap
namespace SlipVerif.ListHeap

theorem placeholder_true : True := trivial

end SlipVerif.ListHeap
