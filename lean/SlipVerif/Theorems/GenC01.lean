import SlipVerif.Gen.EvalFacts
/-!
C01 — obligations over facts regenerated from the sources on every run (`Gen/EvalFacts.lean`,
produced by `extract/evalfacts.go` from `pkg/cl/*.go`, `pkg/gi/with-mutex-lock.go`).

`skipEval` is the `SkipEval` literal of each special form's creator: `false` positions are
evaluated by the generic argument loop of `Function.Eval` (left to right, primary value, before
`Call`), `true` positions are left to the form. The reference evaluator evaluates exactly the
`false` positions as ordinary arguments (`.args`, or `.form` first for `case` / `with-mutex-lock`)
and gives every other position its own rule. A form that starts or stops evaluating an argument
position generically changes this table and breaks the obligation.
-/
namespace SlipVerif.Theorems.GenC01
open SlipVerif.Gen.EvalFacts

/-- the argument-evaluation discipline the model assumes for each modelled form -/
def modelled : List (String × List Bool) := [
  -- ordinary functions: every argument is evaluated before the call
  ("funcall", []), ("apply", []), ("mapcar", []), ("values", []), ("error", []),
  -- progn / prog1: slip pre-evaluates all forms as arguments (the reason exits are not forwarded)
  ("progn", []), ("prog1", []),
  -- the key of case and the mutex of with-mutex-lock are ordinary arguments, the rest is not
  ("case", [false, true]), ("with-mutex-lock", [false, true]),
  -- everything else controls the evaluation of all its argument positions itself
  ("quote", [true]), ("if", [true]), ("when", [true]), ("unless", [true]), ("cond", [true]),
  ("and", [true]), ("or", [true]), ("let", [true]), ("let*", [true]), ("setq", [true]),
  ("lambda", [true]), ("defun", [true]), ("dolist", [true]), ("dotimes", [true]), ("do", [true]),
  ("do*", [true]), ("multiple-value-bind", [true]), ("multiple-value-list", [true]),
  ("block", [true]), ("return-from", [true]), ("return", [true]), ("tagbody", [true]), ("go", [true]),
  ("unwind-protect", [true]), ("ignore-errors", [true]), ("recover", [true]), ("with-open-file", [true])
]

/-- every modelled form still has the argument discipline the model assumes -/
theorem skipEval_as_modelled : ∀ p ∈ modelled, skipEval.lookup p.1 = some p.2 := by decide

/-- and the table covers every form the extractor looks at -/
theorem skipEval_all_modelled : ∀ p ∈ skipEval, modelled.lookup p.1 = some p.2 := by decide

end SlipVerif.Theorems.GenC01
