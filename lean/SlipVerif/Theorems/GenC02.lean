import SlipVerif.Model.Reader
import SlipVerif.Model.ReaderGen
import SlipVerif.Model.ReaderHist
import SlipVerif.Theorems.C02
/-
  C02 — obligations over the tables regenerated from /repo/code.go (Gen/ReaderTables.lean) and the
  general theorems instantiated with them. A failure to build this module means the reader's tables
  or its byte switch changed in a way the model does not cover.
-/
namespace SlipVerif.Theorems.GenC02
open SlipVerif.Reader SlipVerif.Gen

/-- step totality: each of the 16 mode tables has 256 entries, every entry is an action the model
    implements *in that mode* (or the raise branch), digit actions sit on digit bytes; `escByteMap`
    and `hexByteValues` have 256 entries (19 × 256 table cells decided by the kernel) -/
theorem step_total : tablesOK genTables = true := by decide +kernel

/-- the action codes of the model are distinct -/
theorem action_codes_distinct : (genActs.map (·.1)).Nodup := by decide +kernel

/-- the byte switch of `(*reader).read` has a `case` for exactly the actions the model implements:
    no new case the model would treat as the raise branch, no modelled action without a case -/
theorem switch_cases_match :
    (ReaderTables.readCases.all (fun c => (genActs.lookup c).isSome) &&
     genActs.all (fun p => ReaderTables.readCases.contains p.1)) = true := by decide +kernel

/-- code.go declares exactly the mode tables the model has a mode for (a new `…Mode` table is a new
    lexer mode the model knows nothing about) -/
theorem mode_tables_match :
    ReaderTables.modeNames = ["valueMode", "commentMode", "tokenMode", "stringMode", "symbolMode", "escMode",
      "runeMode", "sharpMode", "charMode", "charStartMode", "intMode", "sharpNumMode", "mustArrayMode",
      "blockCommentMode", "blockEndMode", "bitVectorMode"] := by decide +kernel

/-- the mode each case of the byte switch assigns to `r.mode` is the one the model's action moves to
    (`plainNext`, `kindOf`, the token / string / escape steps): e.g. `charSlash → charStartMode`,
    `charFirst → charMode`, `escOne → nextMode` -/
theorem mode_assignments_match :
    ReaderTables.modeAssigns =
      [(ReaderTables.skipNewline, []), (ReaderTables.skipByte, []), (ReaderTables.commentByte, ["commentMode"]),
       (ReaderTables.commentDone, ["valueMode"]), (ReaderTables.openParen, []), (ReaderTables.closeParen, []),
       (ReaderTables.tokenStart, ["tokenMode"]), (ReaderTables.tokenDone, ["valueMode"]),
       (ReaderTables.doubleQuote, ["stringMode"]), (ReaderTables.pipeByte, ["symbolMode"]),
       (ReaderTables.stringByte, []), (ReaderTables.stringDone, ["valueMode"]), (ReaderTables.pipeDone, ["valueMode"]),
       (ReaderTables.escByte, ["escMode"]), (ReaderTables.escOne, ["nextMode"]), (ReaderTables.escUnicode4, ["runeMode"]),
       (ReaderTables.escUnicode8, ["runeMode"]), (ReaderTables.runeDigit, []), (ReaderTables.runeHexA, []),
       (ReaderTables.runeHexa, []), (ReaderTables.sharpByte, ["sharpMode"]), (ReaderTables.charSlash, ["charStartMode"]),
       (ReaderTables.charFirst, ["charMode"]), (ReaderTables.charDone, ["valueMode"]), (ReaderTables.vectorByte, ["valueMode"]),
       (ReaderTables.binaryByte, ["intMode"]), (ReaderTables.octByte, ["intMode"]), (ReaderTables.hexByte, ["intMode"]),
       (ReaderTables.intDone, ["valueMode"]), (ReaderTables.sharpIntByte, ["sharpNumMode"]), (ReaderTables.sharpNumByte, []),
       (ReaderTables.radixByte, ["intMode"]), (ReaderTables.sharpComplex, ["mustArrayMode"]),
       (ReaderTables.arrayByte, ["mustArrayMode"]), (ReaderTables.swallowOpen, ["valueMode"]), (ReaderTables.singleQuote, []),
       (ReaderTables.sharpQuote, ["valueMode"]), (ReaderTables.backquoteByte, []), (ReaderTables.commaByte, []),
       (ReaderTables.commaAt, ["tokenMode"]), (ReaderTables.blockStart, ["blockCommentMode"]),
       (ReaderTables.blockEnd0, ["blockEndMode"]), (ReaderTables.bitVectorByte, ["bitVectorMode"]),
       (ReaderTables.bitVectorDone, ["valueMode"])] := by decide +kernel

/-- what is carried over a block boundary: the unfinished token in the four token modes (`endBlock`
    `.tok _`), the pending string bytes in the two string modes (`.str _`), nothing elsewhere -/
theorem carry_switch_match :
    ReaderTables.carrySwitch = [["tokenMode", "charMode", "intMode", "bitVectorMode"], ["stringMode", "symbolMode"]] := by
  decide +kernel

/-- the end-of-input switch names the modes `finishCore` treats specially -/
theorem eof_switch_match :
    ReaderTables.eofSwitch = [["tokenMode"], ["stringMode"], ["runeMode"], ["escMode"], ["symbolMode"],
      ["charStartMode", "charMode"], ["intMode"], ["bitVectorMode"], ["sharpMode", "sharpNumMode"],
      ["blockCommentMode", "blockEndMode"]] := by decide +kernel

/-- every byte of every mode is handled by a modelled action valid in that mode -/
theorem every_entry_handled (m : Mode) (b : Byte) :
    ∃ a, lookup? genTables m b = some a ∧ placed m a = true ∧ byteOK a b.toNat = true :=
  tablesOK_lookup genTables step_total m b

/-- no text drives the model of the current tables out of its matrix -/
theorem no_table_error (cfg : Cfg) (p : List Byte) (code : List Obj) :
    readAll genTables cfg p ≠ .err .table code :=
  SlipVerif.Theorems.C02.table_error_unreachable genTables step_total cfg p code

/-- the block reader refines the byte fold for the current tables -/
theorem blocks_refine_bytes_gen (cfg : Cfg) (blocks : List (List Byte)) (last : List Byte) :
    readBlocks genTables cfg blocks last = readAll genTables cfg (blocks.flatten ++ last) :=
  SlipVerif.Theorems.C02.blocks_refine_bytes genTables cfg blocks last

/-- the one-form position lies within the text, for the current tables -/
theorem readOne_position_partial_gen (cfg : Cfg) (bs : List Byte) (o : Obj) (pos : Nat)
    (h : readOne genTables cfg bs = .ok (o, pos)) : pos ≤ bs.length :=
  SlipVerif.Theorems.C02.readOne_position_partial genTables step_total cfg bs o pos h

/-- the first form of the whole-text read is what one-form mode returns, for the current tables -/
theorem readOne_is_first_form_gen (cfg : Cfg) (bs : List Byte) (o : Obj) (pos : Nat) (code : List Obj) (p : Nat)
    (hone : readOne genTables cfg bs = .ok (o, pos))
    (hall : readAll genTables { cfg with one := false } bs = .ok code p) : code.head? = some o :=
  SlipVerif.Theorems.C02.readOne_is_first_form genTables cfg bs o pos code p hone hall

/-- the table facts the continuation form of the one-form position rests on: `r.sharpNum` is read
    only in `sharpNumMode`, `closeParen` sits only in `valueMode` on `)`, a token is never ended by a
    `"` / `|` / `)` that valueMode would accept, strings and |symbols| end on `"` / `|` only -/
theorem cont_ok : contOK genTables = true := by decide +kernel

/-- reading on from the position `readOne` reports yields exactly the rest of the whole-text
    reading, for the current tables -/
theorem readOne_continuation_gen (cfg : Cfg) (bs : List Byte) (o : Obj) (pos : Nat)
    (h : readOne genTables cfg bs = .ok (o, pos)) :
    readAll genTables { cfg with one := false } bs =
      (readAll genTables { cfg with one := false } (bs.drop pos)).shift [o] pos :=
  SlipVerif.Theorems.C02.readOne_continuation genTables step_total cont_ok cfg bs o pos h

/-- `n` consecutive `(read stream)` calls return the first `n` objects of the whole-text reading and
    then the eof value, for the current tables -/
theorem hist_reads_are_the_forms_gen (cfg : Cfg) (text : List Byte) (n c : Nat) (code : List Obj) (p lc : Nat)
    (hc : c ≤ text.length) (hok : readAll genTables { cfg with one := false } (text.drop c) = .ok code p) :
    (runHist genTables cfg text { cursor := c, lastChar := lc } (List.replicate n .read)).2 =
      (code.take n).map HOut.form ++ List.replicate (n - code.length) HOut.eof :=
  SlipVerif.Theorems.C02.hist_reads_are_the_forms genTables step_total cont_ok cfg text n c code p lc hc hok

/-- in a stream history a `read` never moves the cursor beyond the text, for the current tables -/
theorem hist_read_cursor_le_gen (cfg : Cfg) (text : List Byte) (s : HState) (hc : s.cursor ≤ text.length) :
    (hstep genTables cfg text s .read).1.cursor ≤ text.length :=
  SlipVerif.Theorems.C02.hist_read_cursor_le genTables step_total cfg text s hc

/-! Samples (tests, not theorems): concrete, non-trivial instances of the hypotheses of the general
    theorems in Theorems/C02, on the simplest possible texts under the current tables.
    `(a "b` stops inside a string inside a list (`truncation_is_signalled`); `(a) ` is closed;
    `ab c` / `(a) b` / `"s" x` have a first form and a position (`readOne_*`). -/
section samples
def live (bs : List Byte) : Bool := (run1 genTables {} init1 bs).core.halt.isNone
def depth (bs : List Byte) : Nat := (run1 genTables {} init1 bs).core.starts.length
def onePos (bs : List Byte) : Option Nat :=
  match readOne genTables {} bs with
  | .ok (_, pos) => some pos
  | .error _ => none
def isErr : Result → Bool
  | .err _ _ => true
  | .ok _ _ => false

example : live [40, 97, 32, 34, 98] = true ∧ depth [40, 97, 32, 34, 98] = 1 := by decide +kernel
example : (run1 genTables {} init1 [40, 97, 32, 34, 98]).mode = .str .string := by decide +kernel
example : isErr (readAll genTables {} [40, 97, 32, 34, 98]) = true := by decide +kernel
example : live [40, 97, 41, 32] = true ∧ depth [40, 97, 41, 32] = 0 := by decide +kernel
example : isErr (readAll genTables {} [40, 97, 41, 32]) = false := by decide +kernel
example : onePos [97, 98, 32, 99] = some 2 := by decide +kernel            -- ab c
example : onePos [40, 97, 41, 32, 98] = some 3 := by decide +kernel        -- (a) b
example : onePos [34, 115, 34, 32, 120] = some 3 := by decide +kernel      -- "s" x
example : onePos [40, 97] = none := by decide +kernel                      -- (a
-- `ab(c)`: the `(` that ends the token is looked at again by the read that continues at position 2
example : onePos [97, 98, 40, 99, 41] = some 2 ∧ onePos ([97, 98, 40, 99, 41].drop 2) = some 3 := by decide +kernel
example : onePos [35, 92, 40, 32] = some 3 := by decide +kernel            -- #\( : any byte right after #\
example : isErr (readAll genTables {} [35, 92]) = true := by decide +kernel -- #\ at the end of the text
-- a history on "ab(c) d": peek, read ab, read-char '(' + unread, read (c), final cursor 6
example : (runHist genTables {} [97, 98, 40, 99, 41, 32, 100] {} [.peek, .read, .readChar, .unreadChar, .read]).1.cursor = 5 := by
  decide +kernel
end samples

end SlipVerif.Theorems.GenC02
