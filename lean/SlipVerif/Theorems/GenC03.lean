import SlipVerif.Theorems.C03
import SlipVerif.Lemmas.PrinterCode
/- C03, obligations over the regenerated tables (Gen/PrinterTables.lean, extracted from printer.go,
   code.go and character.go on every run): the printer's `needPipeMap` is consistent with the
   reader's byte tables, and the printed names of the low characters read back. A failure to build
   this module means the tables changed in a way the round-trip theorems no longer cover. -/
namespace SlipVerif.Theorems.GenC03
open SlipVerif.Printer

/-- the facts `Theorems/C03.lean` assumes of the tables hold for the tables as extracted now -/
theorem tables_ok : TablesOK where
  pipe_token := by decide +kernel
  pipe_start := by decide +kernel
  amp_start := by decide +kernel
  dispatch_pipe := by decide +kernel
  dot_free := by decide +kernel
  letters_free := by decide +kernel
  term_token := by decide +kernel
  number_token := by decide +kernel
  plus_token := by decide +kernel
  number_start := by decide +kernel
  char_token := by decide +kernel
  special_ascii := by decide +kernel
  low_chars := by decide +kernel

/-- the round-trip theorem for the tables as they are in the repository now -/
theorem print_read_roundtrip_now (cfg : PCfg) (hC : CfgOK cfg) (x : Obj) (hwf : WF x) :
    ∃ y, readAll 10 (printFlat cfg x) = .ok y ∧ objEq x y = true :=
  SlipVerif.Theorems.C03.print_read_roundtrip tables_ok cfg hC x hwf

/-- the pretty text reads back to the same object as the flat text, for the tables as they are now -/
theorem pretty_read_roundtrip_now (cfg : PCfg) (hC : CfgOK cfg) (margin : Nat) (x : Obj) (hwf : WF x) :
    ∃ y, readAll 10 (printPretty cfg margin x) = .ok y ∧ readAll 10 (printFlat cfg x) = .ok y ∧ objEq x y = true :=
  SlipVerif.Theorems.C03.pretty_read_roundtrip tables_ok cfg hC margin x hwf

/-- every character except code 0 reads back, with the character tables as they are now -/
theorem char_roundtrip_now (c : Char) (hc : c.toNat ≠ 0) (rest : List Char) (hrest : termOrEnd rest = true)
    (fuel rbase : Nat) : read1 rbase (fuel + 1) (printChr c ++ rest) = .ok (.chr c, rest) :=
  SlipVerif.Theorems.C03.char_roundtrip tables_ok c hc rest hrest fuel rbase

/-- every symbol (not spelled t / nil) reads back, with `needPipeMap` and the reader tables as they
    are now -/
theorem symbol_roundtrip_now (cfg : PCfg) (name : List Char)
    (hnt : name.map lowerC ≠ ['t']) (hnn : name.map lowerC ≠ ['n', 'i', 'l'])
    (rest : List Char) (hrest : termOrEnd rest = true) (fuel : Nat) :
    read1 10 (fuel + 1) (printSym cfg name ++ rest) = .ok (.sym (caseName cfg.case name), rest) :=
  (SlipVerif.Theorems.C03.symbol_roundtrip tables_ok cfg name hnt hnn rest hrest fuel).1

/-! ## the printer's code, translated from the source on this run (`Gen/PrinterCode.lean`), refines the model -/

open SlipVerif.Gen.PrinterCode in
/-- `func (obj Fixnum) Readably` as it is written now prints, for every configuration and integer,
    the text of the model's `printInt` (prefixes `#b #o #x #NNr`, the trailing point of base 10) -/
theorem fixnum_code_refines : IntCodeOK fixnumReadably := by
  intro cfg n
  unfold fixnumReadably printInt renderNum
  by_cases hr : cfg.radix = true
  · by_cases h2 : cfg.base = 2
    · simp [hr, h2, numPiece, ofCodes, radixPrefix]
    · by_cases h8 : cfg.base = 8
      · simp [hr, h8, numPiece, ofCodes, radixPrefix]
      · by_cases h16 : cfg.base = 16
        · simp [hr, h16, numPiece, ofCodes, radixPrefix]
        · by_cases h10 : cfg.base = 10
          · simp [hr, h10, numPiece, ofCodes]
          · simp [hr, h2, h8, h16, h10, numPiece, ofCodes, radixPrefix]
  · simp [hr, numPiece]

open SlipVerif.Gen.PrinterCode in
/-- `func (obj *Bignum) Readably` likewise -/
theorem bignum_code_refines : IntCodeOK bignumReadably := by
  intro cfg n
  unfold bignumReadably printInt renderNum
  by_cases hr : cfg.radix = true
  · by_cases h2 : cfg.base = 2
    · simp [hr, h2, numPiece, ofCodes, radixPrefix]
    · by_cases h8 : cfg.base = 8
      · simp [hr, h8, numPiece, ofCodes, radixPrefix]
      · by_cases h16 : cfg.base = 16
        · simp [hr, h16, numPiece, ofCodes, radixPrefix]
        · by_cases h10 : cfg.base = 10
          · simp [hr, h10, numPiece, ofCodes]
          · simp [hr, h2, h8, h16, h10, numPiece, ofCodes, radixPrefix]
  · simp [hr, numPiece]

open SlipVerif.Gen.PrinterCode in
/-- `func (obj *Ratio) Readably`: an integral ratio goes through `(*Bignum).Readably`, any other is
    prefix, numerator, `/`, denominator — the model's `printRatio` (base 10 with radix: `#10r`) -/
theorem ratio_code_refines : RatioCodeOK ratioReadably bignumReadably := by
  intro cfg num den
  unfold ratioReadably printRatio
  by_cases hd : den = 1
  · subst hd
    have := bignum_code_refines cfg num
    simp only [renderNum] at this ⊢
    simp [numPiece, this]
  · have hd' : (den == 1) = false := by simpa using hd
    unfold renderNum
    by_cases hr : cfg.radix = true
    · by_cases h2 : cfg.base = 2
      · simp [hd, hd', hr, h2, numPiece, ofCodes, radixPrefix]
      · by_cases h8 : cfg.base = 8
        · simp [hd, hd', hr, h8, numPiece, ofCodes, radixPrefix]
        · by_cases h16 : cfg.base = 16
          · simp [hd, hd', hr, h16, numPiece, ofCodes, radixPrefix]
          · simp [hd, hd', hr, h2, h8, h16, numPiece, ofCodes, radixPrefix]
    · simp [hd, hd', hr, numPiece, ofCodes]

open SlipVerif.Gen.PrinterCode in
/-- `appendBarred`: every byte value is written as the model's `barEsc` writes it, between two bars -/
theorem barred_code_refines : barredByteOK barredByte = true ∧ barredOpen = [.lit [124]] ∧ barredClose = [.lit [124]] := by
  refine ⟨by decide +kernel, rfl, rfl⟩

open SlipVerif.Gen.PrinterCode in
/-- `func (obj Symbol) Readably`: the byte loop over `needPipeMap` (with its exception for a leading
    `&`) and the two `numberToken` tests choose bars exactly when the model's `needsBar` does, and the
    three outcomes are the model's `printSym` -/
theorem symbol_code_refines : SymbolCodeOK symbolReadably := by
  intro cfg name
  unfold symbolReadably printSym
  by_cases hn : name = []
  · subst hn
    cases cfg.case <;> simp [symPiece, ofCodes, needsBar, caseName]
  · have hb : ¬ (name.flatMap utf8Bytes = []) := by rw [flatMap_utf8_nil]; exact hn
    simp only [hb, if_false]
    have hany := anyIdx_name name
    have hcond : ∀ (i c : Nat), decide (pipeAtModel c = 120 ∧ (c ≠ 38 ∨ 0 < i)) =
        decide ((pipeAtModel c == 120) = true ∧ (c ≠ 38 ∨ 0 < i)) := by
      intro i c; simp
    simp only [hcond, hany]
    unfold needsBar
    cases name with
    | nil => exact absurd rfl hn
    | cons c r =>
      simp only
      by_cases h1 : ((c != '&' && needPipeChar c) || r.any needPipeChar) = true
      · simp [h1, symPiece]
      · have h1' : ((c != '&' && needPipeChar c) || r.any needPipeChar) = false := by simpa using h1
        simp only [h1', Bool.false_eq_true, if_false, Bool.false_or]
        by_cases h2 : numberTok 10 (c :: r) = true
        · simp [h2, symPiece]
        · have h2' : numberTok 10 (c :: r) = false := by simpa using h2
          by_cases h3 : cfg.base = 10
          · simp [h2', h3, symPiece]
          · by_cases h4 : numberTok cfg.base (c :: r) = true
            · simp [h2', h3, h4, symPiece]
            · have h4' : numberTok cfg.base (c :: r) = false := by simpa using h4
              simp [h2', h3, h4', symPiece]

open SlipVerif.Gen.PrinterCode in
/-- `func (obj String) Readably` -/
theorem string_code_refines : StringCodeOK stringReadably := by
  intro cfg s
  unfold stringReadably printStr
  by_cases hr : cfg.readably = true
  · simp [hr, strPiece]
  · simp [hr, strPiece, ofCodes]

open SlipVerif.Gen.PrinterCode in
/-- `func (obj Character) Append` (what `Readably` calls with `*print-escape*`): named characters by
    their table entry, codes below 32 as `#\u00XX` through `hexChars`, any other as itself -/
theorem character_code_refines : CharCodeOK characterAppend ∧ characterReadably true = [.selfAppend] := by
  refine ⟨?_, rfl⟩
  intro c
  unfold characterAppend printChr
  cases hs : specialText c with
  | some text => simp [chrPiece, hs]
  | none =>
    by_cases h32 : c.toNat < 32
    · have hlow : charLowOK characterAppend = true := by decide +kernel
      unfold charLowOK at hlow
      rw [List.all_eq_true] at hlow
      have := hlow c.toNat (List.mem_range.mpr h32)
      rw [Char.ofNat_toNat] at this
      simp only [hs, Option.isSome_none, beq_iff_eq] at this
      unfold characterAppend printChr at this
      simp only [hs, h32, if_true] at this
      simpa [h32] using this
    · simp [h32, chrPiece, ofCodes]

open SlipVerif.Gen.PrinterCode in
/-- `Printer.Append`, `case *Array`: the rank in decimal between `#` and `A` and then the contents as
    a list (with `*print-array*`), the `#<(ARRAY T (dims))>` form otherwise -/
theorem array_code_refines : ArrayCodeOK appendArray := by
  intro cfg rank contents hr hc
  have h0 : rank ≠ 0 := by omega
  have h1 : rank ≠ 1 := by omega
  by_cases ha : cfg.array = true
  · have hcode : appendArray true rank = [.lit [35], .dig .rank 10, .lit [65], .again] := by
      unfold appendArray; simp [h0, h1]
    rw [ha, hcode]
    unfold printArr
    simp only [renderCont, List.flatMap_cons, List.flatMap_nil, contPiece, List.append_nil, ha, if_true]
    cases contents with
    | nil => simp [printFlat, ofCodes]
    | cons a d => simp [printFlat, ofCodes]
    | _ => simp [isNilOrCons] at hc
  · have ha' : cfg.array = false := by simpa using ha
    have hcode : appendArray false rank = [.lit (codesOf "#<(ARRAY T ("), .joinDims [32], .lit (codesOf "))>")] := by
      unfold appendArray; simp [h0]; decide
    rw [ha', hcode]
    unfold printArr
    simp only [renderCont, List.flatMap_cons, List.flatMap_nil, contPiece, List.append_nil, ha', h0, if_false, Bool.false_eq_true]
    have e1 : ofCodes (codesOf "#<(ARRAY T (") = arrOpaque := by decide
    have e2 : ofCodes (codesOf "))>") = [')', ')', '>'] := by decide
    have e3 : ofCodes [32] = [' '] := by decide
    rw [e1, e2, e3, joinWith_space, List.append_assoc]

open SlipVerif.Gen.PrinterCode in
/-- `Printer.Append`, `case *Vector` -/
theorem vector_code_refines : VectorCodeOK appendVector := by
  intro cfg elems hc
  by_cases ha : cfg.array = true
  · cases elems with
    | nil =>
      have hcode : appendVector true false = [.lit [35, 40, 41]] := by unfold appendVector; simp
      simp only [ha, bne_self_eq_false, hcode, renderCont, printVec, List.flatMap_cons, List.flatMap_nil, contPiece, if_true]
      decide
    | cons a d =>
      have hcode : appendVector true true = [.lit [35], .again] := by unfold appendVector; simp
      have hne : (Obj.cons a d != Obj.nil) = true := by simp
      simp only [ha, hne, hcode, renderCont, printVec, List.flatMap_cons, List.flatMap_nil, contPiece, if_true, printFlat]
      simp [ofCodes]
    | _ => simp [isNilOrCons] at hc
  · have ha' : cfg.array = false := by simpa using ha
    have hcode : ∀ ne, appendVector false ne = [.lit (codesOf "#<(VECTOR "), .dig .len 0, .lit (codesOf ")>")] := by
      intro ne; unfold appendVector; simp; decide
    simp only [ha', hcode, renderCont, List.flatMap_cons, List.flatMap_nil, contPiece, List.append_nil]
    have e1 : ofCodes (codesOf "#<(VECTOR ") = vecOpaque := by decide
    have e2 : ofCodes (codesOf ")>") = [')', '>'] := by decide
    unfold printVec
    simp only [ha', Bool.false_eq_true, if_false]
    rw [e1, e2, List.append_assoc]

open SlipVerif.Gen.PrinterCode in
/-- `Printer.Append`, `case Tail` and the flat loop of `case List`: the model's dotted tail -/
theorem tail_code_refines : TailCodeOK appendTail appendList := by
  refine ⟨rfl, ?_⟩
  intro cfg d hd
  have hcode : appendTail = [.lit [46, 32], .again] := rfl
  have e1 : ofCodes [46, 32] = ['.', ' '] := by decide
  simp only [hcode, renderCont, List.flatMap_cons, List.flatMap_nil, contPiece, e1, List.append_nil]
  cases d <;> simp [isAtomTail] at hd <;> simp [printTail, printFlat]

open SlipVerif.Gen.PrinterCode in
/-- `Printer.Append`, `case List` (flat) and `case nil` -/
theorem list_code_refines : ListCodeOK appendList appendNil := by
  have e40 : ofCodes [40] = ['('] := by decide
  have e41 : ofCodes [41] = [')'] := by decide
  have e32 : ofCodes [32] = [' '] := by decide
  have enil : ofCodes [110, 105, 108] = ['n', 'i', 'l'] := by decide
  refine ⟨?_, ?_, ?_⟩
  · intro cfg a d hd
    have hcode : appendList false false false = [.lit [40], .joinElems [32] [46, 46, 46], .lit [41]] := rfl
    simp only [hcode, renderCont, List.flatMap_cons, List.flatMap_nil, contPiece, e40, e41, e32, List.append_nil, List.map_cons]
    rw [joinWith_cons_flatMap, printFlat, printTail_proper cfg d hd]
    simp [List.flatMap_map]
  · intro cfg p
    have hcode : appendList true false p = [.cased [110, 105, 108]] := by unfold appendList; simp
    simp only [hcode, renderCont, List.flatMap_cons, List.flatMap_nil, contPiece, enil, List.append_nil, printFlat]
  · intro cfg
    have hcode : appendNil = [.cased [110, 105, 108]] := rfl
    simp only [hcode, renderCont, List.flatMap_cons, List.flatMap_nil, contPiece, enil, List.append_nil, printFlat]

open SlipVerif.Gen.PrinterCode in
/-- `caseName`: the switch over `p.Case` applies the operations of the model's `caseName` -/
theorem case_code_refines : CaseCodeOK caseNameOps := by
  intro cs name
  cases cs <;> simp [applyCaseOps, caseNameOps, caseCode, applyCaseOp, caseName]
  cases name.map lowerC <;> rfl

open SlipVerif.Gen.PrinterCode in
/-- the reader's number patterns are the ones the model's `isIntTok` / `isRatioTok` / `isDecimalTok` /
    `isExpTok` transcribe: per base a class with exactly the digits of the base, the fixed decimal
    and exponent patterns with the markers e s f d l -/
theorem number_regexes_match :
    rxTablesOK intRxs ratioRxs = true ∧
    decimalRegex = codesOf "^[-+]?[0-9]+\\.?[0-9]*$" ∧
    eFloatRegex = expRx 'e' ∧ shortFloatRegex = expRx 's' ∧ singleFloatRegex = expRx 'f' ∧
    doubleFloatRegex = expRx 'd' ∧ longFloatRegex = expRx 'l' ∧
    numberTokenBaseLo = 2 ∧ numberTokenBaseHi = 36 ∧ numberTokenLowers = true := by
  refine ⟨by decide +kernel, by decide, by decide, by decide, by decide, by decide, by decide, rfl, rfl, rfl⟩

open SlipVerif.Gen.PrinterCode in
/-- `resolveToken` tries the integer pattern before the decimal one and knows all number patterns;
    `numberToken` (the bars of a symbol) tries every pattern `resolveToken` does; each float format is
    printed with a marker the reader maps back to the same format -/
theorem reader_cases_match :
    resolveOrderOK resolveOrder numberTokenRegexes = true ∧
    floatMarkersOK singleFloatPrint doubleFloatPrint longFloatPrint readFloatCases = true ∧
    defaultPrec = -1 ∧ defaultBase = 10 ∧ defaultEscape = true := by
  refine ⟨by decide, by decide, rfl, rfl, rfl⟩

end SlipVerif.Theorems.GenC03
