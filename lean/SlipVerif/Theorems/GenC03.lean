import SlipVerif.Theorems.C03
/- C03, obligations over the regenerated tables (Gen/PrinterTables.lean, extracted from printer.go,
   code.go and character.go on every run): the printer's `needPipeMap` is consistent with the
   reader's byte tables, and the printed names of the low characters read back. A failure to build
   this module means the tables changed in a way the round-trip theorems no longer cover. -/
namespace SlipVerif.Theorems.GenC03
open SlipVerif.Printer

/-- the facts `Theorems/C03.lean` assumes of the tables hold for the tables as extracted now -/
theorem tables_ok : TablesOK where
  pipe_token := by decide +kernel
  pipe_start := by decide +kernel
  amp_start := by decide +kernel
  dispatch_pipe := by decide +kernel
  dot_free := by decide +kernel
  letters_free := by decide +kernel
  term_token := by decide +kernel
  number_token := by decide +kernel
  number_start := by decide +kernel
  char_token := by decide +kernel
  special_ascii := by decide +kernel
  low_chars := by decide +kernel

/-- the round-trip theorem for the tables as they are in the repository now -/
theorem print_read_roundtrip_now (cfg : PCfg) (hC : CfgOK cfg) (x : Obj) (hwf : WF x) :
    ∃ y, readAll 10 (printFlat cfg x) = .ok y ∧ objEq x y = true :=
  SlipVerif.Theorems.C03.print_read_roundtrip_partial tables_ok cfg hC x hwf

/-- the pretty text reads back to the same object as the flat text, for the tables as they are now -/
theorem pretty_read_roundtrip_now (cfg : PCfg) (hC : CfgOK cfg) (margin : Nat) (x : Obj) (hwf : WF x) :
    ∃ y, readAll 10 (printPretty cfg margin x) = .ok y ∧ readAll 10 (printFlat cfg x) = .ok y ∧ objEq x y = true :=
  SlipVerif.Theorems.C03.pretty_read_roundtrip tables_ok cfg hC margin x hwf

/-- every character except code 0 reads back, with the character tables as they are now -/
theorem char_roundtrip_now (c : Char) (hc : c.toNat ≠ 0) (rest : List Char) (hrest : termOrEnd rest = true)
    (fuel rbase : Nat) : read1 rbase (fuel + 1) (printChr c ++ rest) = .ok (.chr c, rest) :=
  SlipVerif.Theorems.C03.char_roundtrip tables_ok c hc rest hrest fuel rbase

/-- every symbol (not spelled t / nil) reads back, with `needPipeMap` and the reader tables as they
    are now -/
theorem symbol_roundtrip_now (cfg : PCfg) (name : List Char)
    (hnt : name.map lowerC ≠ ['t']) (hnn : name.map lowerC ≠ ['n', 'i', 'l'])
    (rest : List Char) (hrest : termOrEnd rest = true) (fuel : Nat) :
    read1 10 (fuel + 1) (printSym cfg name ++ rest) = .ok (.sym (caseName cfg.case name), rest) :=
  (SlipVerif.Theorems.C03.symbol_roundtrip tables_ok cfg name hnt hnn rest hrest fuel).1

end SlipVerif.Theorems.GenC03
