import SlipVerif.Lemmas.PrinterTables
/- C03, obligations over the regenerated tables (Gen/PrinterTables.lean, extracted from printer.go,
   code.go and character.go on every run): the printer's `needPipeMap` is consistent with the
   reader's byte tables, and the printed names of the low characters read back. A failure to build
   this module means the tables changed in a way the round-trip theorems no longer cover. -/
namespace SlipVerif.Theorems.GenC03
open SlipVerif.Printer

/-- the facts `Theorems/C03.lean` assumes of the tables hold for the tables as extracted now -/
theorem tables_ok : TablesOK where
  pipe_token := by decide +kernel
  pipe_start := by decide +kernel
  amp_start := by decide +kernel
  dispatch_pipe := by decide +kernel
  letters_free := by decide +kernel
  term_token := by decide +kernel
  number_token := by decide +kernel
  number_start := by decide +kernel
  char_token := by decide +kernel
  special_ascii := by decide +kernel
  low_chars := by decide +kernel

end SlipVerif.Theorems.GenC03
