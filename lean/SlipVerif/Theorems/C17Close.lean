import SlipVerif.Model.Close
/-
  C17 — `channel-close` + `range`, bounded / unbounded buffers, environment (time channel) sends:
  theorems for every schedule of Model/Close.lean (the driver entry `conc close` runs `Close.run`).

  * `close_conservation`            received (in receive order) ++ buffered = sent (in send order)
  * `close_nothing_invented`        every received item was sent (by a producer or the environment)
  * `range_returns_only_when_drained`  a range has returned ⇒ the channel is closed and empty
  * `range_close_exactly_once`      … ⇒ the receives, in order, are exactly the sends: every item
                                    sent was received once, by one consumer
  * `range_consumer_order`          what one consumer received is a subsequence of what was sent
  * `close_capacity`                a bounded channel never holds more than max(cap,1) items
  * `closed_takes_no_more`          nothing enters a closed channel (push blocked, ticks dropped)
  * `tick_never_blocks`             an environment send is always enabled while the channel is open
  * `unchecked_range_invents_items` the variant whose range receives without the closed check
                                    delivers an item nobody sent (seeded mutant C17-8)
-/
namespace SlipVerif.Close

structure Inv (cap : Option Nat) (st : St) : Prop where
  cons : received st ++ st.queue = st.sent
  drained : st.ended ≠ [] → st.closed = true ∧ st.queue = []
  bound : ∀ n, cap = some n → st.queue.length ≤ max n 1

theorem inv_init (cap : Option Nat) : Inv cap init :=
  ⟨by simp [received, init], by simp [init], by simp [init]⟩

theorem inv_enqueue {cap : Option Nat} {st : St} (h : Inv cap st) (hc : st.closed = false)
    (hr : hasRoom cap st = true) (it : Item) : Inv cap (enqueue st it) := by
  refine ⟨?_, ?_, ?_⟩
  · have hcons := h.cons
    simp only [received] at hcons
    simp only [enqueue, received]
    rw [← List.append_assoc, hcons]
  · intro he
    have := (h.drained he).1
    simp [hc] at this
  · intro n hn
    subst hn
    simp only [hasRoom, decide_eq_true_eq] at hr
    simp only [enqueue, List.length_append, List.length_cons, List.length_nil]
    omega

theorem inv_step {cap : Option Nat} {st st' : St} {a : Act} (h : Inv cap st)
    (hs : step cap false st a = some st') : Inv cap st' := by
  cases a with
  | push p v =>
    simp only [step] at hs
    split at hs
    · rename_i hg
      simp only [Bool.and_eq_true, Bool.not_eq_true'] at hg
      cases hs
      exact inv_enqueue h hg.1 hg.2 _
    · simp at hs
  | tick v =>
    simp only [step] at hs
    split at hs
    · simp at hs
    · rename_i hc
      split at hs
      · rename_i hr
        cases hs
        exact inv_enqueue h (by simpa using hc) hr _
      · cases hs; exact h
  | close =>
    simp only [step] at hs
    split at hs
    · simp at hs
    · rename_i hc
      cases hs
      refine ⟨h.cons, ?_, h.bound⟩
      intro he
      have := (h.drained he).1
      simp [this] at hc
  | recv c =>
    simp only [step] at hs
    split at hs
    · simp at hs
    · split at hs
      · rename_i it rest hq
        cases hs
        refine ⟨?_, ?_, ?_⟩
        · have := h.cons
          simp only [received, hq] at this
          simp only [received, List.map_append, List.map_cons, List.map_nil, List.append_assoc,
            List.singleton_append]
          exact this
        · intro he
          have := (h.drained he).2
          simp [hq] at this
        · intro n hn
          have := h.bound n hn
          simp only [hq, List.length_cons] at this
          simp only
          omega
      · simp at hs
  | fin c =>
    simp only [step] at hs
    split at hs
    · rename_i hg
      simp only [Bool.and_eq_true, List.isEmpty_iff] at hg
      cases hs
      exact ⟨h.cons, fun _ => ⟨hg.1.2, hg.2⟩, h.bound⟩
    · simp at hs

theorem inv_stepOrStay {cap : Option Nat} {st : St} (h : Inv cap st) (a : Act) :
    Inv cap (stepOrStay cap false st a) := by
  unfold stepOrStay
  split
  · rename_i st' hs; exact inv_step h hs
  · exact h

theorem inv_run {cap : Option Nat} (acts : List Act) : ∀ {st : St}, Inv cap st → Inv cap (run cap false st acts) := by
  induction acts with
  | nil => intro st h; exact h
  | cons a rest ih => intro st h; exact ih (inv_stepOrStay h a)

/-- every schedule: what was received, in the order of the receives, followed by what is still
    buffered is what was sent, in sending order -/
theorem close_conservation (cap : Option Nat) (acts : List Act) :
    received (run cap false init acts) ++ (run cap false init acts).queue = (run cap false init acts).sent :=
  (inv_run acts (inv_init cap)).cons

/-- every schedule: nothing is received that was not sent -/
theorem close_nothing_invented (cap : Option Nat) (acts : List Act) (it : Item)
    (h : it ∈ received (run cap false init acts)) : it ∈ (run cap false init acts).sent := by
  rw [← close_conservation cap acts]
  exact List.mem_append_left _ h

/-- every schedule: a range that has returned saw the channel closed and empty -/
theorem range_returns_only_when_drained (cap : Option Nat) (acts : List Act) (c : Nat)
    (h : c ∈ (run cap false init acts).ended) :
    (run cap false init acts).closed = true ∧ (run cap false init acts).queue = [] :=
  (inv_run acts (inv_init cap)).drained (List.ne_nil_of_mem h)

/-- every schedule: once a range has returned, the receives are exactly the sends, in order —
    every item pushed (or sent by the environment) was received exactly once, by one consumer -/
theorem range_close_exactly_once (cap : Option Nat) (acts : List Act) (c : Nat)
    (h : c ∈ (run cap false init acts).ended) :
    received (run cap false init acts) = (run cap false init acts).sent := by
  have hq := (range_returns_only_when_drained cap acts c h).2
  have := close_conservation cap acts
  rw [hq, List.append_nil] at this
  exact this

/-- every schedule: one consumer receives a subsequence of what was sent (per-producer order included) -/
theorem range_consumer_order (cap : Option Nat) (acts : List Act) (c : Nat) :
    (got (run cap false init acts) c).Sublist (run cap false init acts).sent := by
  have h1 : (got (run cap false init acts) c).Sublist (received (run cap false init acts)) := by
    unfold got received
    exact List.Sublist.map _ List.filter_sublist
  have h2 : (received (run cap false init acts)).Sublist (run cap false init acts).sent := by
    rw [← close_conservation cap acts]
    exact List.sublist_append_left _ _
  exact h1.trans h2

/-- every schedule: a bounded channel never holds more than max(cap, 1) items -/
theorem close_capacity (n : Nat) (acts : List Act) :
    (run (some n) false init acts).queue.length ≤ max n 1 :=
  (inv_run acts (inv_init (some n))).bound n rfl

theorem closed_step_sent {cap : Option Nat} {u : Bool} {st st' : St} {a : Act} (h : st.closed = true)
    (hs : step cap u st a = some st') : st'.sent = st.sent := by
  cases a with
  | push p v => simp [step, h] at hs
  | tick v => simp [step, h] at hs
  | close => simp [step, h] at hs
  | recv c =>
    simp only [step] at hs
    split at hs
    · simp at hs
    · split at hs
      · cases hs; rfl
      · split at hs
        · cases hs; rfl
        · simp at hs
  | fin c =>
    simp only [step] at hs
    split at hs
    · cases hs; rfl
    · simp at hs

/-- nothing enters a closed channel: a push is blocked, a tick is not delivered -/
theorem closed_takes_no_more (cap : Option Nat) (u : Bool) (st : St) (a : Act) (h : st.closed = true) :
    (stepOrStay cap u st a).sent = st.sent := by
  unfold stepOrStay
  split
  · rename_i st' hs; exact closed_step_sent h hs
  · rfl

/-- an environment send never blocks while the channel is open: it is delivered or dropped -/
theorem tick_never_blocks (cap : Option Nat) (u : Bool) (st : St) (v : Nat) (h : st.closed = false) :
    (step cap u st (.tick v)).isSome = true := by
  by_cases hr : hasRoom cap st = true <;> simp [step, h, hr]

/-- the variant whose range receives without the closed check: after `close`, a receive on the
    empty channel "delivers" an object nobody sent — conservation and exactly-once fail -/
theorem unchecked_range_invents_items (cap : Option Nat) :
    received (run cap true init [.close, .recv 0]) = [nilItem] ∧
      (run cap true init [.close, .recv 0]).sent = [] := by
  constructor <;> simp [run, stepOrStay, step, init, received]

/-- non-vacuity: a schedule in which two consumers drain a closed channel and both return -/
def exActs : List Act :=
  [.push 0 1, .push 0 2, .recv 0, .push 0 3, .tick 9, .close, .recv 1, .recv 0, .fin 0, .fin 1]

example : (run (some 2) false init exActs).ended = [1, 0] ∧
    received (run (some 2) false init exActs) = (run (some 2) false init exActs).sent ∧
    (run (some 2) false init exActs).sent.length = 3 := by decide

end SlipVerif.Close
