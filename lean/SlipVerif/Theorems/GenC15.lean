import SlipVerif.Theorems.C15
/-! C15 — obligations over the tables regenerated from pkg/cl/control.go (`SlipVerif.Gen.FormatTables`,
    rewritten by /verif/extract on every run). Each fact is decided by the kernel for the table as it
    is now; a changed, misspelt or missing entry is a broken obligation (K-gen), and the harness then
    searches a failing input with its independent Go oracle.

    The general theorems of `Theorems/C15.lean` are instantiated here for the current tables. -/
namespace SlipVerif.Theorems.GenC15
open SlipVerif.Format SlipVerif.Theorems.C15
open SlipVerif.Gen.FormatTables

/-- the extractor found every table -/
theorem tables_present : SlipVerif.Gen.FormatTables.missing = [] := by decide

/-! ## spelling: the word tables equal the expected English words (bytes of the words in the comments) -/

/-- "", one, two, three, four, five, six, seven, eight, nine -/
def expectedOnes : List Txt := [[], [111, 110, 101], [116, 119, 111], [116, 104, 114, 101, 101], [102, 111, 117, 114], [102, 105, 118, 101], [115, 105, 120], [115, 101, 118, 101, 110], [101, 105, 103, 104, 116], [110, 105, 110, 101]]
/-- ten … nineteen -/
def expectedTeens : List Txt := [[116, 101, 110], [101, 108, 101, 118, 101, 110], [116, 119, 101, 108, 118, 101], [116, 104, 105, 114, 116, 101, 101, 110], [102, 111, 117, 114, 116, 101, 101, 110], [102, 105, 102, 116, 101, 101, 110], [115, 105, 120, 116, 101, 101, 110], [115, 101, 118, 101, 110, 116, 101, 101, 110], [101, 105, 103, 104, 116, 101, 101, 110], [110, 105, 110, 101, 116, 101, 101, 110]]
/-- twenty … ninety -/
def expectedTens : List Txt := [[116, 119, 101, 110, 116, 121], [116, 104, 105, 114, 116, 121], [102, 111, 114, 116, 121], [102, 105, 102, 116, 121], [115, 105, 120, 116, 121], [115, 101, 118, 101, 110, 116, 121], [101, 105, 103, 104, 116, 121], [110, 105, 110, 101, 116, 121]]
/-- "", first … ninth -/
def expectedOrdOnes : List Txt := [[], [102, 105, 114, 115, 116], [115, 101, 99, 111, 110, 100], [116, 104, 105, 114, 100], [102, 111, 117, 114, 116, 104], [102, 105, 102, 116, 104], [115, 105, 120, 116, 104], [115, 101, 118, 101, 110, 116, 104], [101, 105, 103, 104, 116, 104], [110, 105, 110, 116, 104]]
/-- tenth … nineteenth -/
def expectedOrdTeens : List Txt := [[116, 101, 110, 116, 104], [101, 108, 101, 118, 101, 110, 116, 104], [116, 119, 101, 108, 102, 116, 104], [116, 104, 105, 114, 116, 101, 101, 110, 116, 104], [102, 111, 117, 114, 116, 101, 101, 110, 116, 104], [102, 105, 102, 116, 101, 101, 110, 116, 104], [115, 105, 120, 116, 101, 101, 110, 116, 104], [115, 101, 118, 101, 110, 116, 101, 101, 110, 116, 104], [101, 105, 103, 104, 116, 101, 101, 110, 116, 104], [110, 105, 110, 101, 116, 101, 101, 110, 116, 104]]
/-- "", thousand, million, billion, trillion, quadrillion, quintillion, sextillion, septillion, octillion, nonillion,
    decillion, undecillion, duodecillion, tredecillion, quattuordecillion, quindecillion, sexdecillion, septendecillion,
    octodecillion, novemdecillion, vigintillion -/
def expectedPeriods : List Txt := [[], [116, 104, 111, 117, 115, 97, 110, 100], [109, 105, 108, 108, 105, 111, 110], [98, 105, 108, 108, 105, 111, 110], [116, 114, 105, 108, 108, 105, 111, 110], [113, 117, 97, 100, 114, 105, 108, 108, 105, 111, 110], [113, 117, 105, 110, 116, 105, 108, 108, 105, 111, 110], [115, 101, 120, 116, 105, 108, 108, 105, 111, 110], [115, 101, 112, 116, 105, 108, 108, 105, 111, 110], [111, 99, 116, 105, 108, 108, 105, 111, 110], [110, 111, 110, 105, 108, 108, 105, 111, 110], [100, 101, 99, 105, 108, 108, 105, 111, 110], [117, 110, 100, 101, 99, 105, 108, 108, 105, 111, 110], [100, 117, 111, 100, 101, 99, 105, 108, 108, 105, 111, 110], [116, 114, 101, 100, 101, 99, 105, 108, 108, 105, 111, 110], [113, 117, 97, 116, 116, 117, 111, 114, 100, 101, 99, 105, 108, 108, 105, 111, 110], [113, 117, 105, 110, 100, 101, 99, 105, 108, 108, 105, 111, 110], [115, 101, 120, 100, 101, 99, 105, 108, 108, 105, 111, 110], [115, 101, 112, 116, 101, 110, 100, 101, 99, 105, 108, 108, 105, 111, 110], [111, 99, 116, 111, 100, 101, 99, 105, 108, 108, 105, 111, 110], [110, 111, 118, 101, 109, 100, 101, 99, 105, 108, 108, 105, 111, 110], [118, 105, 103, 105, 110, 116, 105, 108, 108, 105, 111, 110]]
theorem ones_spelling : cardinalOne = expectedOnes := by decide +kernel
theorem teens_spelling : cardinalTeen = expectedTeens := by decide +kernel
theorem tens_spelling : cardinalTen = expectedTens := by decide +kernel
theorem ordinal_ones_spelling : ordinalOne = expectedOrdOnes := by decide +kernel
theorem ordinal_teens_spelling : ordinalTeen = expectedOrdTeens := by decide +kernel
theorem periods_spelling : cardinalTriples = expectedPeriods := by decide +kernel

/-! ## Roman numerals: both tables render 1..3999 to numerals of the right value -/

set_option maxRecDepth 100000 in
theorem roman_table_ok : romanCheck romanNumerals = true := by decide +kernel
set_option maxRecDepth 100000 in
theorem old_roman_table_ok : romanCheck oldRomanNumerals = true := by decide +kernel

/-- ~@R : every 1 ≤ n ≤ 3999 is rendered to a numeral whose value is n -/
theorem roman_value_now (n : Int) (h1 : 1 ≤ n) (h2 : n ≤ 3999) :
    ∃ t, roman romanNumerals n = .ok t ∧ romanParse t = some n.toNat :=
  roman_value romanNumerals roman_table_ok n h1 h2

/-- ~:@R : the same for the old style (IIII, VIIII) -/
theorem old_roman_value_now (n : Int) (h1 : 1 ≤ n) (h2 : n ≤ 3999) :
    ∃ t, roman oldRomanNumerals n = .ok t ∧ romanParse t = some n.toNat :=
  roman_value oldRomanNumerals old_roman_table_ok n h1 h2

/-- the two styles really differ (4 = IV / IIII), so the theorems above are about two tables -/
theorem roman_styles_differ : (roman romanNumerals 4).toOption ≠ (roman oldRomanNumerals 4).toOption := by decide +kernel

/-! ## English: the reader inverts the cardinal for every |n| < 10^66 -/

set_option maxRecDepth 100000 in
theorem small_words_ok : smallOK genTables = true := by decide +kernel
set_option maxRecDepth 100000 in
theorem period_words_ok : periodOK genTables = true := by decide +kernel

theorem english_tables_ok : EnglishOK genTables := ⟨small_words_ok, period_words_ok⟩

theorem periods_count : genTables.periods.length = 22 := by decide +kernel

/-- ~R : for every integer below 10^66 in magnitude the English words read back to the integer -/
theorem cardinal_value_now (n : Int) (hn : n.natAbs < 10 ^ 66) :
    ∃ t, cardinal genTables n = .ok t ∧ readCardinal genTables t = some n := by
  apply cardinal_value genTables english_tables_ok n
  rw [periods_count]
  have : (1000 : Nat) ^ 22 = 10 ^ 66 := by decide +kernel
  omega

/-! ## character names (character.go `specialCharacters`): what `#\` syntax, ~:C and ~@C print -/

/-- the name the code's table gives a code point (without the `#\` the entries start with) -/
def codeCharName? (c : Nat) : Option Txt := (specialCharacters.lookup c).map (fun t => t.drop 2)

/-- every entry starts with `#\`; for every code point below 256 the code's table names exactly the characters
    the model names, with the same names (Backspace Tab Newline Page Return Space Rubout); no entry lies above -/
theorem character_names_documented :
    specialCharacters.all (fun p => p.2.take 2 == [35, 92]) = true
    ∧ (List.range 256).all (fun c => codeCharName? c == charName? c) = true
    ∧ specialCharacters.all (fun p => p.1 < 256) = true := by decide +kernel

end SlipVerif.Theorems.GenC15
