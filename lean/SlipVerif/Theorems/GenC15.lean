import SlipVerif.Model.Format
/-! C15 — obligations over the regenerated tables (placeholder) -/
namespace SlipVerif.Theorems.GenC15
open SlipVerif.Format

theorem tables_present : SlipVerif.Gen.FormatTables.missing = [] := by decide

end SlipVerif.Theorems.GenC15
