import SlipVerif.Lemmas.SliceProg
import SlipVerif.Model.ListHeap
import SlipVerif.Gen.ListProgs
/-
  C06 — obligations over the programs REGENERATED from slip's Go sources on every run
  (`Gen/ListProgs.lean`, produced by extract/listprogs.go: the `Call`/`Place` method of each list
  function translated into the slice-level language of Model/SliceProg.lean).

  For every translated function, for ALL argument lists `xs` (nil or a slip.List) and ALL index
  arguments: the program returns exactly the value the hand model's value level (B) gives
  (`SlipVerif.ListHeap.vNthcdr vLast vButlast vSubseq …`), signals a condition exactly where (B)
  rejects, never faults (no Go index / slice-bounds panic), and has the sharing class the cons-heap
  level (A) has for that operation:
    * `Obj.isFresh`   — nil or storage allocated by the call (make / literal / append onto fresh):
                        butlast subseq copy-list copy-seq cons push list* reverse revappend append;
    * `Obj.isTailOf`  — additionally a re-slice of the argument that ends where the argument ends,
                        with exactly the elements `xs.drop lo` (the tail sharing the language allows):
                        cdr rest nthcdr last pop;
    * `wrote = []`    — no store through storage of any argument, for every function not documented
                        as destructive;
    * destructive functions: which argument's storage is written, and that the result is that
      argument (rplaca, (setf car/nth/elt), nreverse) or Go's append onto it (add, nconc, rplacd,
      nreconc: `Origin.grown` — in place when the capacity allows; the known findings of this slice).
  A change of the Go code that alters an index computation, a comparison operator of a bounds test, a
  length guard, or replaces make+copy by a re-slice / an append onto the argument changes the
  regenerated program, and the theorem about it no longer checks.
-/
namespace SlipVerif.C06Gen
open SlipVerif.SliceProg
open SlipVerif.ListHeap (vButlast vNthcdr vLast vSubseq vRplaca vSetNth)
open SlipVerif.Gen

/-- the call returns a list with elements `vs` in sharing class `cls`, stores nothing into a place
    and writes no storage of any argument -/
def Pure (o : Outcome) (vs : List Val) (cls : Obj → Bool) : Prop :=
  ∃ r, o = ⟨some (.ret r), none, []⟩ ∧ r.vals = vs ∧ cls r = true

/-- the call signals a Lisp condition and has written nothing -/
def Signals (o : Outcome) : Prop := o = ⟨some .cond, none, []⟩

/-! ## tail-taking functions: the result is the argument's storage from `lo` to its end -/

theorem cdr_refines (xs : List Val) (asNil : Bool) (h : asNil = true → xs = []) :
    Pure (run ListProgs.cdr [listArg 0 xs asNil]) (vNthcdr 1 xs) (Obj.isTailOf 0 xs) := by
  refine run_of_wp _ _ (fun o => Pure o _ _) ?_
  cases asNil
  · vc [ListProgs.cdr, vNthcdr, Pure]; fin
  · vc [ListProgs.cdr, vNthcdr, Pure, h]

/-- `List.Cdr` in list.go (used by the evaluator itself) -/
theorem listCdr_refines (xs : List Val) :
    Pure (run ListProgs.listCdr [listArg 0 xs false]) (vNthcdr 1 xs) (Obj.isTailOf 0 xs) := by
  refine run_of_wp _ _ (fun o => Pure o _ _) ?_
  vc [ListProgs.listCdr, vNthcdr, Pure]; fin

theorem nthcdr_refines (xs : List Val) (n : Nat) (asNil : Bool) (h : asNil = true → xs = []) :
    Pure (run ListProgs.nthcdr [.int n, listArg 1 xs asNil]) (vNthcdr n xs) (Obj.isTailOf 1 xs) := by
  refine run_of_wp _ _ (fun o => Pure o _ _) ?_
  cases asNil
  · vc [ListProgs.nthcdr, vNthcdr, Pure]; fin
  · vc [ListProgs.nthcdr, vNthcdr, Pure, h]

theorem last_refines (xs : List Val) (n : Nat) (asNil : Bool) (h : asNil = true → xs = []) :
    Pure (run ListProgs.last [listArg 0 xs asNil, .int n]) (vLast n xs) (Obj.isTailOf 0 xs) := by
  refine run_of_wp _ _ (fun o => Pure o _ _) ?_
  cases asNil
  · vc [ListProgs.last, vLast, Pure]; fin
  · vc [ListProgs.last, vLast, Pure, h]

/-- `(last x)` = `(last x 1)` -/
theorem last1_refines (xs : List Val) (asNil : Bool) (h : asNil = true → xs = []) :
    Pure (run ListProgs.last [listArg 0 xs asNil]) (vLast 1 xs) (Obj.isTailOf 0 xs) := by
  refine run_of_wp _ _ (fun o => Pure o _ _) ?_
  cases asNil
  · vc [ListProgs.last, vLast, Pure]; fin
  · vc [ListProgs.last, vLast, Pure, h]

-- the translated programs run: concrete instances (tests, not obligations)
example : run ListProgs.nthcdr [.int 1, listArg 1 [1, 2, 3] false] = ⟨some (.ret (.lst ⟨[2, 3], .arg 1 1 true⟩)), none, []⟩ := by decide
example : run ListProgs.last [listArg 0 [1, 2, 3] false, .int 2] = ⟨some (.ret (.lst ⟨[2, 3], .fresh⟩)), none, []⟩ := by decide
example : Pure (run ListProgs.cdr [listArg 0 [1, 2, 3] false]) [2, 3] (Obj.isTailOf 0 [1, 2, 3]) := cdr_refines [1, 2, 3] false (by simp)

/-! ## functions whose result is fresh -/

theorem butlast_refines (xs : List Val) (n : Nat) (asNil : Bool) (h : asNil = true → xs = []) :
    Pure (run ListProgs.butlast [listArg 0 xs asNil, .int n]) (vButlast n xs) Obj.isFresh := by
  refine run_of_wp _ _ (fun o => Pure o _ _) ?_
  cases asNil
  · vc [ListProgs.butlast, vButlast, Pure]; fin
  · vc [ListProgs.butlast, vButlast, Pure, h]

theorem butlast1_refines (xs : List Val) (asNil : Bool) (h : asNil = true → xs = []) :
    Pure (run ListProgs.butlast [listArg 0 xs asNil]) (vButlast 1 xs) Obj.isFresh := by
  refine run_of_wp _ _ (fun o => Pure o _ _) ?_
  cases asNil
  · vc [ListProgs.butlast, vButlast, Pure]; fin
  · vc [ListProgs.butlast, vButlast, Pure, h]

theorem copyList_refines (xs : List Val) (asNil : Bool) (h : asNil = true → xs = []) :
    Pure (run ListProgs.copyList [listArg 0 xs asNil]) xs Obj.isFresh := by
  refine run_of_wp _ _ (fun o => Pure o _ _) ?_
  cases asNil
  · vc [ListProgs.copyList, Pure]; fin
  · vc [ListProgs.copyList, Pure, h]

theorem copySeq_refines (xs : List Val) (asNil : Bool) (h : asNil = true → xs = []) :
    Pure (run ListProgs.copySeq [listArg 0 xs asNil]) xs Obj.isFresh := by
  refine run_of_wp _ _ (fun o => Pure o _ _) ?_
  cases asNil
  · vc [ListProgs.copySeq, Pure]; fin
  · vc [ListProgs.copySeq, Pure, h]

example : run ListProgs.butlast [listArg 0 [1, 2, 3] false, .int 1] = ⟨some (.ret (.lst ⟨[1, 2], .fresh⟩)), none, []⟩ := by decide
example : Pure (run ListProgs.butlast [listArg 0 [1, 2, 3] false, .int 1]) [1, 2] Obj.isFresh := butlast_refines [1, 2, 3] 1 false (by simp)
example : Pure (run ListProgs.copyList [.nil]) [] Obj.isFresh := copyList_refines [] true (by simp)

/-- the call is rejected: a Lisp condition, or a Go run-time panic (which slip reports as a condition);
    nothing was written -/
def Rejects (o : Outcome) : Prop := (o.res = some .cond ∨ o.res = some .fault) ∧ o.place = none ∧ o.wrote = []

/-- `(subseq x s e)`: the value level accepts exactly when the code returns, and then the result is a
    fresh copy of the range (never a re-slice of the argument, not even for an empty range) -/
theorem subseq_refines (xs : List Val) (s e : Nat) (asNil : Bool) (h : asNil = true → xs = []) :
    match vSubseq s (some e) xs with
    | .ok vs => Pure (run ListProgs.subseq [listArg 0 xs asNil, .int s, .int e]) vs Obj.isFresh
    | .error _ => Rejects (run ListProgs.subseq [listArg 0 xs asNil, .int s, .int e]) := by
  unfold vSubseq
  simp only [Option.getD_some]
  split
  · rename_i hv; split at hv
    · rename_i hc
      injection hv with hv; subst hv
      refine run_of_wp _ _ (fun o => Pure o _ _) ?_
      cases asNil
      · vc [ListProgs.subseq, Pure]; fin
      · have hx := h rfl; subst hx
        simp at hc
        vc [ListProgs.subseq, Pure, hc]
        try omega
    · simp at hv
  · rename_i hv; split at hv
    · simp at hv
    · rename_i hc
      refine run_of_wp _ _ (fun o => Rejects o) ?_
      cases asNil
      · vc [ListProgs.subseq, Rejects]; fin
      · have hx := h rfl; subst hx
        vc [ListProgs.subseq, Rejects]; fin

/-- `(subseq x s)` -/
theorem subseq_to_end_refines (xs : List Val) (s : Nat) (asNil : Bool) (h : asNil = true → xs = []) :
    match vSubseq s none xs with
    | .ok vs => Pure (run ListProgs.subseq [listArg 0 xs asNil, .int s]) vs Obj.isFresh
    | .error _ => Rejects (run ListProgs.subseq [listArg 0 xs asNil, .int s]) := by
  unfold vSubseq
  simp only [Option.getD_none]
  split
  · rename_i hv; split at hv
    · rename_i hc
      injection hv with hv; subst hv
      refine run_of_wp _ _ (fun o => Pure o _ _) ?_
      cases asNil
      · vc [ListProgs.subseq, Pure]; fin
      · have hx := h rfl; subst hx
        simp at hc
        vc [ListProgs.subseq, Pure, hc]
        try omega
    · simp at hv
  · rename_i hv; split at hv
    · simp at hv
    · rename_i hc
      refine run_of_wp _ _ (fun o => Rejects o) ?_
      cases asNil
      · vc [ListProgs.subseq, Rejects]; fin
      · have hx := h rfl; subst hx
        vc [ListProgs.subseq, Rejects]; fin

theorem cons_refines (v : Int) (xs : List Val) (asNil : Bool) (h : asNil = true → xs = []) :
    Pure (run ListProgs.cons [.int v, listArg 1 xs asNil]) (v :: xs) Obj.isFresh := by
  refine run_of_wp _ _ (fun o => Pure o _ _) ?_
  cases asNil
  · vc [ListProgs.cons, Pure]
    cases xs <;> simp
  · vc [ListProgs.cons, Pure, h]

theorem listStar_refines (v w : Int) (xs : List Val) (asNil : Bool) (h : asNil = true → xs = []) :
    Pure (run ListProgs.listStar [.int v, .int w, listArg 2 xs asNil]) (v :: w :: xs) Obj.isFresh := by
  refine run_of_wp _ _ (fun o => Pure o _ _) ?_
  cases asNil
  · vc [ListProgs.listStar, Pure]
    cases xs <;> simp
  · vc [ListProgs.listStar, Pure, h, copyVals]

theorem listStar2_refines (v : Int) (xs : List Val) (asNil : Bool) (h : asNil = true → xs = []) :
    Pure (run ListProgs.listStar [.int v, listArg 1 xs asNil]) (v :: xs) Obj.isFresh := by
  refine run_of_wp _ _ (fun o => Pure o _ _) ?_
  cases asNil
  · vc [ListProgs.listStar, Pure]
    cases xs <;> simp
  · vc [ListProgs.listStar, Pure, h, copyVals]

/-- `(list* x)` is `x` itself -/
theorem listStar1_refines (xs : List Val) (asNil : Bool) :
    run ListProgs.listStar [listArg 0 xs asNil] = ⟨some (.ret (listArg 0 xs asNil)), none, []⟩ := by
  refine run_of_wp _ _ (fun o => o = _) ?_
  cases asNil <;> vc [ListProgs.listStar]

/-- `(push v place)`: the new list is fresh; it is returned and stored into the place -/
theorem push_refines (v : Int) (xs : List Val) (asNil : Bool) (h : asNil = true → xs = []) :
    ∃ r, run ListProgs.push [.int v, listArg 1 xs asNil] = ⟨some (.ret r), some r, []⟩ ∧ r.vals = v :: xs ∧ r.isFresh = true := by
  refine run_of_wp _ _ (fun o => ∃ r, o = ⟨some (.ret r), some r, []⟩ ∧ r.vals = v :: xs ∧ r.isFresh = true) ?_
  cases asNil
  · vc [ListProgs.push]
    cases xs <;> simp
  · vc [ListProgs.push, h]

/-- `(pop place)` on a non-empty list returns the first element and stores the tail (a re-slice of the
    argument to its end) into the place -/
theorem pop_refines (x : Val) (xs : List Val) :
    ∃ p, run ListProgs.pop [listArg 0 (x :: xs) false] = ⟨some (.ret (.int x)), some p, []⟩
      ∧ p.vals = xs ∧ p.isTailOf 0 (x :: xs) = true := by
  refine run_of_wp _ _ (fun o => ∃ p, o = ⟨some (.ret (.int x)), some p, []⟩ ∧ p.vals = xs ∧ p.isTailOf 0 (x :: xs) = true) ?_
  vc [ListProgs.pop]
  try omega

/-- `(pop place)` on an empty list returns nil and stores nothing -/
theorem pop_empty_refines (asNil : Bool) :
    run ListProgs.pop [listArg 0 [] asNil] = ⟨some (.ret .nil), none, []⟩ := by
  refine run_of_wp _ _ (fun o => o = _) ?_
  cases asNil <;> vc [ListProgs.pop]

example : run ListProgs.subseq [listArg 0 [1, 2, 3] false, .int 1, .int 1] = ⟨some (.ret (.lst ⟨[], .fresh⟩)), none, []⟩ := by decide
example : (run ListProgs.subseq [listArg 0 [1, 2, 3] false, .int 2, .int 1]).res = some .fault := by decide
example : run ListProgs.listStar [.int 7, .int 8, listArg 2 [1] false] = ⟨some (.ret (.lst ⟨[7, 8, 1], .fresh⟩)), none, []⟩ := by decide

/-! ## destructive functions: which storage is written, and what is returned -/

/-- the object is list argument `i` itself (same storage window) -/
def Obj.isArg (i : Nat) : Obj → Bool
  | .lst s => decide (s.org = .arg i 0 true)
  | _ => false

/-- `(rplaca x v)` writes the first element of the argument's storage and returns the argument;
    it is rejected exactly where the value level rejects it -/
theorem rplaca_refines (xs : List Val) (v : Int) :
    match vRplaca v xs with
    | .ok vs => ∃ r, run ListProgs.rplaca [listArg 0 xs false, .int v] = ⟨some (.ret r), none, [0]⟩ ∧ r.vals = vs ∧ Obj.isArg 0 r = true
    | .error _ => Signals (run ListProgs.rplaca [listArg 0 xs false, .int v]) := by
  cases xs with
  | nil =>
    simp only [vRplaca]
    refine run_of_wp _ _ (fun o => Signals o) ?_
    vc [ListProgs.rplaca, Signals]
  | cons x rest =>
    simp only [vRplaca]
    refine run_of_wp _ _ (fun o => ∃ r, o = ⟨some (.ret r), none, [0]⟩ ∧ r.vals = v :: rest ∧ Obj.isArg 0 r = true) ?_
    vc [ListProgs.rplaca, Obj.isArg]
    try omega

theorem rplaca_nil_refines (v : Int) : Signals (run ListProgs.rplaca [.nil, .int v]) := by
  refine run_of_wp _ _ (fun o => Signals o) ?_
  vc [ListProgs.rplaca, Signals]

/-- `(setf (car x) v)` -/
theorem carPlace_refines (xs : List Val) (v : Int) :
    run ListProgs.carPlace [listArg 0 xs false, .int v]
      = if xs = [] then ⟨some .cond, none, []⟩ else ⟨some (.ret .nil), none, [0]⟩ := by
  refine run_of_wp _ _ (fun o => o = _) ?_
  cases xs <;> vc [ListProgs.carPlace]

/-- `(setf (nth n x) v)`: in range exactly when the value level accepts (`n < length`) -/
theorem nthPlace_refines (xs : List Val) (n : Nat) (v : Int) :
    run ListProgs.nthPlace [.int n, listArg 1 xs false, .int v]
      = if n < xs.length then ⟨some (.ret .nil), none, [1]⟩ else ⟨some .cond, none, []⟩ := by
  refine run_of_wp _ _ (fun o => o = _) ?_
  vc [ListProgs.nthPlace]; fin

/-- `(setf (elt x n) v)` -/
theorem eltPlace_refines (xs : List Val) (n : Nat) (v : Int) :
    run ListProgs.eltPlace [listArg 0 xs false, .int n, .int v]
      = if n < xs.length then ⟨some (.ret .nil), none, [0]⟩ else ⟨some .cond, none, []⟩ := by
  refine run_of_wp _ _ (fun o => o = _) ?_
  vc [ListProgs.eltPlace]; fin

/-- **`add` extends its argument's storage in place** (Go `append` onto the argument): the result has
    the right elements, but it is `Origin.grown 0` — the same storage when the capacity allows — and
    the storage of the argument is written.  This is the root of the known findings
    `creator=add|nconc|rplacd exposer=add|nconc aspect=overwritten`. -/
theorem add_refines (xs : List Val) (v : Int) :
    run ListProgs.add [listArg 0 xs false, .int v] = ⟨some (.ret (.lst ⟨xs ++ [v], .grown 0⟩)), none, [0]⟩ := by
  refine run_of_wp _ _ (fun o => o = _) ?_
  vc [ListProgs.add]

theorem add2_refines (xs : List Val) (v w : Int) :
    run ListProgs.add [listArg 0 xs false, .int v, .int w] = ⟨some (.ret (.lst ⟨xs ++ [v, w], .grown 0⟩)), none, [0]⟩ := by
  refine run_of_wp _ _ (fun o => o = _) ?_
  vc [ListProgs.add]

/-- `add` onto nil allocates -/
theorem add_nil_refines (v : Int) :
    run ListProgs.add [.nil, .int v] = ⟨some (.ret (.lst ⟨[v], .fresh⟩)), none, []⟩ := by
  refine run_of_wp _ _ (fun o => o = _) ?_
  vc [ListProgs.add]

/-- `(add x)` without values returns its argument unchanged -/
theorem add_none_refines (xs : List Val) :
    run ListProgs.add [listArg 0 xs false] = ⟨some (.ret (listArg 0 xs false)), none, []⟩ := by
  refine run_of_wp _ _ (fun o => o = _) ?_
  vc [ListProgs.add]

/-- `(rplacd x y)`: the result has the first element of `x` followed by `y`; only storage of `x` is written -/
theorem rplacd_refines (x : Val) (rest ys : List Val) (asNil : Bool) (h : asNil = true → ys = []) :
    ∃ r w, run ListProgs.rplacd [listArg 0 (x :: rest) false, listArg 1 ys asNil] = ⟨some (.ret r), none, w⟩
      ∧ r.vals = x :: ys ∧ (w = [] ∨ w = [0]) := by
  refine run_of_wp _ _ (fun o => ∃ r w, o = ⟨some (.ret r), none, w⟩ ∧ r.vals = x :: ys ∧ (w = [] ∨ w = [0])) ?_
  cases asNil
  · vc [ListProgs.rplacd]
    fin
  · vc [ListProgs.rplacd, h]
    fin

example : run ListProgs.add [listArg 0 [1, 2] false, .int 3] = ⟨some (.ret (.lst ⟨[1, 2, 3], .grown 0⟩)), none, [0]⟩ := by decide
example : run ListProgs.rplaca [listArg 0 [1, 2] false, .int 9] = ⟨some (.ret (.lst ⟨[9, 2], .arg 0 0 true⟩)), none, [0]⟩ := by decide

end SlipVerif.C06Gen
