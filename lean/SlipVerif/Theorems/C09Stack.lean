import SlipVerif.Model.ReaderStack
/- C09 — the reader's object stack never faults; the sharp macro's numeric argument never wraps.

   The definitions are the ones the slipmodel driver runs (`tot stack`, `tot sharp`). -/
namespace SlipVerif.Theorems.C09Stack
open SlipVerif.ReaderStack

/-! ## (1) object stack -/

/-- The stack-depth invariant of `(*reader).read`: r.starts increases strictly, and every entry is
    the index of an opener that is still in r.stack (so `len(r.stack) - start - 1 ≥ 0`, and
    `r.stack[start]`, `r.stack[start-1]` exist). -/
def Inv (s : SState) : Prop :=
  s.starts.Pairwise (· > ·) ∧ ∀ st ∈ s.starts, ∃ k, s.stack[st]? = some (.opener k)

theorem inv_lt {s : SState} (h : Inv s) {st : Nat} (hst : st ∈ s.starts) : st < s.stack.length := by
  obtain ⟨k, hk⟩ := h.2 st hst
  exact (List.getElem?_eq_some_iff.mp hk).1

theorem inv_empty : Inv empty := by
  constructor
  · exact List.Pairwise.nil
  · intro st hst; cases hst

/-- appending anything keeps the invariant -/
theorem inv_append {s : SState} (h : Inv s) (x : Item) : Inv { s with stack := s.stack ++ [x] } := by
  refine ⟨h.1, ?_⟩
  intro st hst
  obtain ⟨k, hk⟩ := h.2 st hst
  have hlt := inv_lt h hst
  exact ⟨k, by simp only [List.getElem?_append_left hlt]; exact hk⟩

theorem inv_pushValue {s : SState} (h : Inv s) : Inv (pushValue s) := by
  unfold pushValue
  split
  · exact inv_append h _
  · exact h

theorem inv_openWith {s : SState} (h : Inv s) (k : Opener) : Inv (openWith k s) := by
  unfold openWith
  constructor
  · simp only
    refine List.Pairwise.cons ?_ h.1
    intro st hst
    exact inv_lt h hst
  · intro st hst
    simp only [List.mem_cons] at hst
    rcases hst with rfl | hst
    · exact ⟨k, by simp⟩
    · obtain ⟨k', hk'⟩ := h.2 st hst
      have hlt := inv_lt h hst
      exact ⟨k', by simp only [List.getElem?_append_left hlt]; exact hk'⟩

/-- overwriting a slot that holds a marker keeps the invariant: no entry of r.starts points at it -/
theorem inv_set_marker {s : SState} (h : Inv s) (i : Nat) (m : MK) (hi : s.stack[i]? = some (.marker m))
    (x : Item) : Inv { s with stack := s.stack.set i x } := by
  refine ⟨h.1, ?_⟩
  intro st hst
  obtain ⟨k, hk⟩ := h.2 st hst
  have hne : i ≠ st := by
    intro heq
    subst heq
    rw [hi] at hk
    cases hk
  exact ⟨k, by simp only [List.getElem?_set_ne hne]; exact hk⟩

/-- a stack whose only element is a marker has no open list -/
theorem starts_nil_of_single_marker {s : SState} (h : Inv s) (hl : s.stack.length = 1) (m : MK)
    (h0 : s.stack[0]? = some (.marker m)) : s.starts = [] := by
  cases hs : s.starts with
  | nil => rfl
  | cons st rest =>
    have hmem : st ∈ s.starts := by rw [hs]; simp
    have hlt := inv_lt h hmem
    have h0' : st = 0 := by omega
    obtain ⟨k, hk⟩ := h.2 st hmem
    rw [h0', h0] at hk
    cases hk

theorem pushToken_safe {s : SState} (h : Inv s) :
    pushToken s ≠ .fault ∧ ∀ s', pushToken s = .ok s' → Inv s' := by
  unfold pushToken
  split
  · rename_i hpos
    have hidx : s.stack.length - 1 < s.stack.length := by omega
    cases hget : s.stack[s.stack.length - 1]? with
    | none =>
      have := List.getElem?_eq_none_iff.mp hget
      omega
    | some top =>
      cases top with
      | marker m =>
        simp only
        split
        · rename_i hl1
          refine ⟨nofun, ?_⟩
          intro s' hs'
          cases hs'
          have h0 : s.stack[0]? = some (.marker m) := by
            have : s.stack.length - 1 = 0 := by omega
            rw [this] at hget; exact hget
          have hst := starts_nil_of_single_marker h hl1 m h0
          constructor
          · simp only [hst]; exact List.Pairwise.nil
          · intro st hmem; simp only [hst] at hmem; cases hmem
        · refine ⟨nofun, ?_⟩
          intro s' hs'
          cases hs'
          exact inv_set_marker h _ m hget _
      | opener k =>
        simp only
        exact ⟨nofun, fun s' hs' => by cases hs'; exact inv_pushValue h⟩
      | value =>
        simp only
        exact ⟨nofun, fun s' hs' => by cases hs'; exact inv_pushValue h⟩
  · exact ⟨nofun, fun s' hs' => by cases hs'; exact inv_pushValue h⟩

/-- truncating r.stack above an opener and storing the finished object in a slot at or above every
    outer opener keeps the invariant for the outer openers -/
theorem inv_close_tail {stack : List Item} {outer : List Nat} {n st : Nat}
    (hp : outer.Pairwise (· > ·))
    (ho : ∀ o ∈ outer, (∃ k, stack[o]? = some (.opener k)) ∧ o < st)
    (hn : st < n) (forms : Nat) :
    Inv { stack := (stack.take n).set st .value, starts := outer, forms := forms } := by
  refine ⟨hp, ?_⟩
  intro o hmem
  obtain ⟨⟨k, hk⟩, hlt⟩ := ho o hmem
  refine ⟨k, ?_⟩
  have hne : st ≠ o := by omega
  simp only [List.getElem?_set_ne hne]
  rw [List.getElem?_take_of_lt (by omega)]
  exact hk

theorem closeList_safe {s : SState} (h : Inv s) :
    closeList s ≠ .fault ∧ ∀ s', closeList s = .ok s' → Inv s' := by
  unfold closeList
  cases hs : s.starts with
  | nil => exact ⟨nofun, nofun⟩
  | cons start outer =>
    simp only
    have hmem : start ∈ s.starts := by rw [hs]; simp
    have hlt := inv_lt h hmem
    obtain ⟨k, hk⟩ := h.2 start hmem
    have hpw : (start :: outer).Pairwise (· > ·) := by rw [← hs]; exact h.1
    have hout : outer.Pairwise (· > ·) := (List.pairwise_cons.mp hpw).2
    have hgt : ∀ o ∈ outer, o < start := fun o ho => (List.pairwise_cons.mp hpw).1 o ho
    have hop : ∀ o ∈ outer, ∃ k, s.stack[o]? = some (.opener k) :=
      fun o ho => h.2 o (by rw [hs]; exact List.mem_cons_of_mem _ ho)
    have hnf : ¬ (s.stack.length < start + 1) := by omega
    simp only [hnf, ↓reduceIte]
    have htop : (s.stack.take (start + 1))[start]? = some (.opener k) := by
      rw [List.getElem?_take_of_lt (by omega)]; exact hk
    rw [htop]
    simp only
    have hlen1 : (s.stack.take (start + 1)).length = start + 1 := by
      simp only [List.length_take]; omega
    -- the common ending: the object goes to slot `start` of r.stack[:start+1]
    have plain : (if 0 < start then
          (if start < (s.stack.take (start + 1)).length then
            SOut.ok { stack := (s.stack.take (start + 1)).set start .value, starts := outer, forms := s.forms }
          else SOut.fault)
        else SOut.ok { stack := [], starts := [], forms := s.forms + 1 }) ≠ .fault ∧
        ∀ s', (if 0 < start then
          (if start < (s.stack.take (start + 1)).length then
            SOut.ok { stack := (s.stack.take (start + 1)).set start .value, starts := outer, forms := s.forms }
          else SOut.fault)
        else SOut.ok { stack := [], starts := [], forms := s.forms + 1 }) = .ok s' → Inv s' := by
      split
      · have : start < (s.stack.take (start + 1)).length := by omega
        simp only [this, ↓reduceIte]
        refine ⟨nofun, ?_⟩
        intro s' hs'
        cases hs'
        exact inv_close_tail hout (fun o ho => ⟨hop o ho, hgt o ho⟩) (by omega) _
      · refine ⟨nofun, ?_⟩
        intro s' hs'
        cases hs'
        exact inv_empty
    cases k with
    | vector => exact plain
    | list =>
      simp only
      by_cases hpos : 0 < start
      · simp only [hpos, ↓reduceIte]
        have hprev : (s.stack.take (start + 1))[start - 1]? = s.stack[start - 1]? := by
          rw [List.getElem?_take_of_lt (by omega)]
        rw [hprev]
        cases hget : s.stack[start - 1]? with
        | none =>
          have := List.getElem?_eq_none_iff.mp hget
          omega
        | some prev =>
          cases prev with
          | marker m =>
            simp only
            have htt : (s.stack.take (start + 1)).take start = s.stack.take start := by
              rw [List.take_take]; congr 1; omega
            rw [htt]
            have hlen2 : (s.stack.take start).length = start := by
              simp only [List.length_take]; omega
            by_cases h1 : 0 < start - 1
            · have : start - 1 < (s.stack.take start).length := by omega
              simp only [h1, this, ↓reduceIte]
              refine ⟨nofun, ?_⟩
              intro s' hs'
              cases hs'
              refine inv_close_tail hout ?_ (by omega) _
              intro o ho
              refine ⟨hop o ho, ?_⟩
              have h2 := hgt o ho
              -- o = start - 1 is impossible: that slot holds a marker
              have hne : o ≠ start - 1 := by
                intro heq
                obtain ⟨k', hk'⟩ := hop o ho
                rw [heq, hget] at hk'
                cases hk'
              omega
            · simp only [h1, ↓reduceIte]
              refine ⟨nofun, ?_⟩
              intro s' hs'
              cases hs'
              exact inv_empty
          | opener k' => simp only [hpos, ↓reduceIte] at plain ⊢; exact plain
          | value => simp only [hpos, ↓reduceIte] at plain ⊢; exact plain
      · simp only [hpos, ↓reduceIte] at plain ⊢
        exact plain

/-- Every operation of the reader on its object stack, from a state satisfying the invariant: no
    index out of range, no negative make, and the invariant holds afterwards. -/
theorem step_safe {s : SState} (h : Inv s) (op : Op) :
    step s op ≠ .fault ∧ ∀ s', step s op = .ok s' → Inv s' := by
  cases op with
  | openList => exact ⟨nofun, fun s' hs' => by cases hs'; exact inv_openWith h _⟩
  | openVec => exact ⟨nofun, fun s' hs' => by cases hs'; exact inv_openWith h _⟩
  | close => exact closeList_safe h
  | mark k => exact ⟨nofun, fun s' hs' => by cases hs'; exact inv_append h _⟩
  | comma =>
    simp only [step]
    split
    · exact ⟨nofun, fun s' hs' => by cases hs'; exact inv_append h _⟩
    · exact ⟨nofun, nofun⟩
  | commaAt =>
    simp only [step]
    split
    · cases hget : s.stack[s.stack.length - 1]? with
      | none =>
        have := List.getElem?_eq_none_iff.mp hget
        omega
      | some top =>
        cases top with
        | marker m =>
          cases m with
          | comma =>
            simp only
            exact ⟨nofun, fun s' hs' => by cases hs'; exact inv_set_marker h _ _ hget _⟩
          | quote => simp only; exact ⟨nofun, fun s' hs' => by cases hs'; exact h⟩
          | sharpQuote => simp only; exact ⟨nofun, fun s' hs' => by cases hs'; exact h⟩
          | backquote => simp only; exact ⟨nofun, fun s' hs' => by cases hs'; exact h⟩
          | commaAt => simp only; exact ⟨nofun, fun s' hs' => by cases hs'; exact h⟩
        | opener k => simp only; exact ⟨nofun, fun s' hs' => by cases hs'; exact h⟩
        | value => simp only; exact ⟨nofun, fun s' hs' => by cases hs'; exact h⟩
    · exact ⟨nofun, fun s' hs' => by cases hs'; exact h⟩
  | value => exact ⟨nofun, fun s' hs' => by cases hs'; exact inv_pushValue h⟩
  | tokenTN => exact ⟨nofun, fun s' hs' => by cases hs'; exact inv_pushValue h⟩
  | token => exact pushToken_safe h

theorem runOps_total (ops : List Op) : ∀ (s : SState) (i : Nat), Inv s → ∀ p, runOps s i ops ≠ .fault p := by
  induction ops with
  | nil =>
    intro s i _ p
    simp only [runOps, finish]
    split <;> nofun
  | cons op rest ih =>
    intro s i h p
    simp only [runOps]
    have hs := step_safe h op
    cases hstep : step s op with
    | ok s' => simp only; exact ih s' (i + 1) (hs.2 s' hstep) p
    | raise w => simp only; nofun
    | fault => exact absurd hstep hs.1

/-- Object stack totality: for EVERY sequence of reader operations (open / close parentheses and
    vectors, quote-like markers, comma, comma-at, tokens, other values) starting from the empty
    reader state, `closeList` / `pushToken` / the push clauses never index r.stack or r.starts out of
    range and never call make with a negative length: the outcome is the number of forms read, a
    PartialPanic with the depth, or one of the two parse errors. -/
theorem stack_run_total (ops : List Op) (p : Nat) : run ops ≠ .fault p :=
  runOps_total ops empty 0 inv_empty p

/-- the invariant is not vacuous protection: a state that violates it (an entry of r.starts beyond
    r.stack — what a stale `starts` would be) does fault in closeList -/
example : closeList { stack := [], starts := [0], forms := 0 } = .fault := by decide
example : run [.openList, .mark .quote, .openList, .token, .close, .close] = .forms 1 := by decide
example : run [.mark .quote, .mark .quote, .token] = .partialDepth 0 := by decide
example : run [.openList, .openVec, .value] = .partialDepth 2 := by decide
example : run [.openList, .close, .close] = .raise .unmatched 2 := by decide

/-- what "list not terminated" reports: the PartialPanic depth never exceeds the number of objects
    on the stack (every open list has its own opener slot) -/
theorem depth_le_stack {s : SState} (h : Inv s) : s.starts.length ≤ s.stack.length := by
  -- a strictly decreasing list of naturals below n has at most n elements
  have key : ∀ (l : List Nat) (n : Nat), l.Pairwise (· > ·) → (∀ x ∈ l, x < n) → l.length ≤ n := by
    intro l
    induction l with
    | nil => intro n _ _; simp
    | cons a t ih =>
      intro n hp hb
      have hp' := List.pairwise_cons.mp hp
      have ha : a < n := hb a (by simp)
      have := ih a hp'.2 (fun x hx => hp'.1 x hx)
      simp only [List.length_cons]
      omega
  exact key s.starts s.stack.length h.1 (fun x hx => inv_lt h hx)

/-! ## (2) numeric argument of the sharp macro -/

theorem wrapInt_id {x : Int} (h0 : 0 ≤ x) (h1 : x ≤ 9223372036854775807) : wrapInt x = x := by
  unfold wrapInt
  omega

/-- One more digit: with the guard `g` satisfying g*10+9 ≤ MaxInt the Go int never wraps — the clause
    raises or the new value is exactly n*10+d, still in [0, MaxInt]. -/
theorem sharpStep_exact (c : SharpConsts) (h : SharpOK c = true) (n : Int) (d : Nat) (hn : 0 ≤ n) (hd : d ≤ 9)
    (m : Int) (hm : sharpStep c n d = some m) : m = n * 10 + d ∧ 0 ≤ m ∧ m ≤ c.maxInt := by
  simp only [SharpOK, Bool.and_eq_true, decide_eq_true_eq] at h
  obtain ⟨⟨⟨⟨⟨hg, hmax⟩, -⟩, -⟩, -⟩, -⟩ := h
  unfold sharpStep at hm
  split at hm
  · cases hm
  · rename_i hng
    have hle : n ≤ c.guard := by omega
    have hb : n * 10 + d ≤ 9223372036854775807 := by
      have : (c.guard : Int) * 10 + 9 ≤ 9223372036854775807 := by
        have := hg; omega
      omega
    have hw := wrapInt_id (x := n * 10 + d) (by omega) hb
    simp only [Option.some.injEq] at hm
    rw [hw] at hm
    subst hm
    refine ⟨rfl, by omega, ?_⟩
    rw [hmax]; exact hb

/-- the value of a digit string read left to right from `n` -/
def digitsValue : Int → List Nat → Int
  | n, [] => n
  | n, d :: ds => digitsValue (n * 10 + d) ds

theorem sharpAcc_exact (c : SharpConsts) (h : SharpOK c = true) :
    ∀ (ds : List Nat) (n : Int), 0 ≤ n → n ≤ c.maxInt → (∀ d ∈ ds, d ≤ 9) →
      ∀ m, sharpAcc c n ds = some m → m = digitsValue n ds ∧ 0 ≤ m ∧ m ≤ c.maxInt := by
  intro ds
  induction ds with
  | nil =>
    intro n h0 h1 _ m hm
    simp only [sharpAcc, Option.some.injEq] at hm
    subst hm
    exact ⟨rfl, h0, h1⟩
  | cons d ds ih =>
    intro n h0 h1 hd m hm
    simp only [sharpAcc] at hm
    cases hs : sharpStep c n d with
    | none => rw [hs] at hm; cases hm
    | some n' =>
      rw [hs] at hm
      obtain ⟨he, hn0, hn1⟩ := sharpStep_exact c h n d h0 (hd d (by simp)) n' hs
      have := ih n' hn0 hn1 (fun x hx => hd x (List.mem_cons_of_mem _ hx)) m hm
      simp only [digitsValue]
      rw [← he]
      exact this

/-- The numeric argument of the sharp macro, for EVERY digit string: the reader raises or holds
    exactly the number written, between 0 and MaxInt — the Go int never wraps to a negative value. -/
theorem sharpNum_exact (c : SharpConsts) (h : SharpOK c = true) (ds : List Nat) (hd : ∀ d ∈ ds, d ≤ 9)
    (m : Int) (hm : sharpNum c ds = some m) :
    0 ≤ m ∧ m ≤ c.maxInt ∧ (∀ d rest, ds = d :: rest → m = digitsValue d rest) := by
  cases ds with
  | nil =>
    simp only [sharpNum, Option.some.injEq] at hm
    subst hm
    exact ⟨Int.le_refl _, Int.natCast_nonneg _, nofun⟩
  | cons d rest =>
    simp only [sharpNum] at hm
    have hmax : c.maxInt = 9223372036854775807 := by
      simp only [SharpOK, Bool.and_eq_true, decide_eq_true_eq] at h
      exact h.1.1.1.1.2
    have hd9 : d ≤ 9 := hd d (by simp)
    have := sharpAcc_exact c h rest d (by omega) (by rw [hmax]; omega)
      (fun x hx => hd x (List.mem_cons_of_mem _ hx)) m hm
    refine ⟨this.2.1, this.2.2, ?_⟩
    intro d' rest' heq
    cases heq
    exact this.1

/-- `#<digits>A` and `#<digits>R`, for every digit string: never the fault outcome (no make with a
    negative length, no radix math/big rejects with a Go panic); an allocation has at most
    ArrayMaxRank entries, a radix is inside the bounds the clause checks. -/
theorem sharp_dispatch_total (c : SharpConsts) (h : SharpOK c = true) (ds : List Nat) (hd : ∀ d ∈ ds, d ≤ 9)
    (array : Bool) :
    sharpDispatch c ds array ≠ .fault ∧
    (∀ n, sharpDispatch c ds array = .alloc n → 2 ≤ n ∧ n ≤ c.maxRank) ∧
    (∀ b, sharpDispatch c ds array = .radix b → (c.radixLo : Int) ≤ b ∧ b ≤ c.radixHi) := by
  have hc := h
  simp only [SharpOK, Bool.and_eq_true, decide_eq_true_eq] at hc
  obtain ⟨⟨⟨⟨⟨-, -⟩, hlo⟩, hlh⟩, hhi⟩, -⟩ := hc
  unfold sharpDispatch
  cases hs : sharpNum c ds with
  | none => exact ⟨nofun, nofun, nofun⟩
  | some n =>
    obtain ⟨h0, -, -⟩ := sharpNum_exact c h ds hd n hs
    simp only
    cases array with
    | true =>
      simp only [↓reduceIte, arrayDispatch]
      split
      · exact ⟨nofun, nofun, nofun⟩
      · split
        · exact ⟨nofun, nofun, nofun⟩
        · have hnn : ¬ n < 0 := by omega
          simp only [hnn, ↓reduceIte]
          refine ⟨nofun, ?_, nofun⟩
          intro n' hn'
          cases hn'
          omega
    | false =>
      simp only [Bool.false_eq_true, ↓reduceIte, radixDispatch]
      split
      · exact ⟨nofun, nofun, nofun⟩
      · rename_i hnr
        have hhi0 : c.radixHi ≠ 0 := by omega
        have hin : (c.radixLo : Int) ≤ n ∧ n ≤ c.radixHi := by
          constructor
          · apply Classical.byContradiction; intro hcon; exact hnr ⟨hhi0, Or.inl (by omega)⟩
          · apply Classical.byContradiction; intro hcon; exact hnr ⟨hhi0, Or.inr (by omega)⟩
        have hok : bigBaseOK n = true := by
          simp only [bigBaseOK, Bool.or_eq_true, beq_iff_eq, Bool.and_eq_true, decide_eq_true_eq]
          right; omega
        simp only [hok, ↓reduceIte]
        refine ⟨nofun, nofun, ?_⟩
        intro b hb
        cases hb
        exact hin

/-- The guard matters: with `math.MaxInt/10` (not `(math.MaxInt-9)/10`) the digits of 2^63 wrap to a
    negative rank and `make([]int, rank)` faults — the model exhibits the fault the theorem excludes. -/
example : sharpDispatch (SharpConsts.mk 9223372036854775807 922337203685477580 1024 2 36)
    [9,2,2,3,3,7,2,0,3,6,8,5,4,7,7,5,8,0,8] true = .fault := by decide
example : sharpDispatch (SharpConsts.mk 9223372036854775807 922337203685477579 1024 2 36)
    [9,2,2,3,3,7,2,0,3,6,8,5,4,7,7,5,8,0,8] true = .raise := by decide
/-- without a radix check `#100r…` reaches math/big with base 100 -/
example : sharpDispatch (SharpConsts.mk 9223372036854775807 922337203685477579 1024 0 0) [1,0,0] false = .fault := by
  decide
example : SharpOK (SharpConsts.mk 9223372036854775807 922337203685477579 1024 2 36) = true := by decide

/-! ## (3) format argument cursor -/

/-- nextArg with both bounds checked never indexes outside c.args — for EVERY cursor value, also a
    negative one or one past the end; an argument is taken only from inside and the cursor stays
    within [0, len]. -/
theorem nextArg_total (g : CursorGuards) (hl : g.checksLow = true) (hh : g.checksHigh = true) (len : Nat) (pos : Int) :
    nextArg g len pos ≠ .fault ∧
    ∀ idx pos', nextArg g len pos = .got idx pos' → idx < len ∧ (idx : Int) = pos ∧ pos' = pos + 1 ∧ 0 ≤ pos' ∧ pos' ≤ len := by
  unfold nextArg
  simp only [hl, hh, Bool.true_and, Bool.or_eq_true, decide_eq_true_eq]
  by_cases hc : pos < 0 ∨ (len : Int) ≤ pos
  · simp only [hc, ↓reduceIte]
    exact ⟨nofun, nofun⟩
  · simp only [hc, ↓reduceIte]
    refine ⟨nofun, ?_⟩
    intro idx pos' h
    cases h
    omega

/-- `~n*`, `~n:*`, `~n@*` for EVERY n (also MinInt / MaxInt, where the Go int wraps): the directive
    raises or leaves the cursor within [0, len]. -/
theorem moveCursor_in_range (len : Nat) (pos : Int) (colon at_ : Bool) (n p : Int)
    (h : moveCursor len pos colon at_ n = some p) : 0 ≤ p ∧ p ≤ len := by
  unfold moveCursor at h
  simp only at h
  generalize (if colon = true then wrapInt (pos - n) else if at_ = true then n else wrapInt (pos + n)) = q at h
  by_cases hc : q < 0 ∨ (len : Int) < q
  · simp only [hc, ↓reduceIte] at h
    cases h
  · simp only [hc, ↓reduceIte, Option.some.injEq] at h
    subst h
    omega

/-- Argument cursor totality: every sequence of argument-consuming directives and `~*` moves, for
    every argument count and every parameter value, ends without an out-of-range access; every
    consumed index is inside the argument list and the final cursor is within [0, len]. -/
theorem cursor_run_total (g : CursorGuards) (hl : g.checksLow = true) (hh : g.checksHigh = true) (len : Nat) :
    ∀ (ops : List CurOp) (pos : Int) (i : Nat) (taken : List Nat), 0 ≤ pos → pos ≤ len → (∀ x ∈ taken, x < len) →
      (∀ k, runCursor g len pos i taken ops ≠ .fault k) ∧
      (∀ tk p, runCursor g len pos i taken ops = .done tk p → (∀ x ∈ tk, x < len) ∧ 0 ≤ p ∧ p ≤ len) := by
  intro ops
  induction ops with
  | nil =>
    intro pos i taken h0 h1 ht
    simp only [runCursor]
    refine ⟨nofun, ?_⟩
    intro tk p h
    cases h
    exact ⟨fun x hx => ht x (List.mem_reverse.mp hx), h0, h1⟩
  | cons op rest ih =>
    intro pos i taken h0 h1 ht
    cases op with
    | next =>
      simp only [runCursor]
      have hn := nextArg_total g hl hh len pos
      cases hna : nextArg g len pos with
      | raise => exact ⟨nofun, nofun⟩
      | fault => exact absurd hna hn.1
      | got idx pos' =>
        obtain ⟨hi, -, -, hp0, hp1⟩ := hn.2 idx pos' hna
        simp only
        exact ih pos' (i + 1) (idx :: taken) hp0 hp1 (by
          intro x hx
          simp only [List.mem_cons] at hx
          rcases hx with rfl | hx
          · exact hi
          · exact ht x hx)
    | move colon at_ n =>
      simp only [runCursor]
      cases hm : moveCursor len pos colon at_ n with
      | none => exact ⟨nofun, nofun⟩
      | some p =>
        obtain ⟨hp0, hp1⟩ := moveCursor_in_range len pos colon at_ n p hm
        simp only
        exact ih p (i + 1) taken hp0 hp1 ht

/-- both checks matter: without the lower one a cursor that `~:*` moved before the first argument
    is used as an index (the seeded mutant C09-5) -/
example : nextArg ⟨false, true⟩ 3 (-1) = .fault := by decide
example : nextArg ⟨true, true⟩ 3 (-1) = .raise := by decide
example : runCursor ⟨true, true⟩ 3 0 0 [] [.next, .next, .move true false 2, .next, .move false true 9223372036854775807] =
    .raise 4 := by decide
example : runCursor ⟨true, true⟩ 3 0 0 [] [.next, .next, .move true false 2, .next] = .done [0, 1, 0] 1 := by decide

end SlipVerif.Theorems.C09Stack
