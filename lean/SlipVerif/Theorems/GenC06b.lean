import SlipVerif.Theorems.GenC06
/-
  C06 — obligations over the regenerated list programs, part 2: the functions with loops
  (the reversing loop of reverse / nreverse / revappend / nreconc, the loop over the argument vector of
  append / nconc).  See Theorems/GenC06.lean.
-/
namespace SlipVerif.C06Gen
open SlipVerif.SliceProg
open SlipVerif.Gen

/-! ## reverse, revappend: a fresh copy is reversed -/

/-- `(reverse x)` on a non-empty list: the translated code (make, copy, the swap loop) returns the
    reversed elements in fresh storage and writes nothing of the argument — for EVERY length, in
    particular for length 1 -/
theorem reverse_refines (x : Val) (xs : List Val) :
    Pure (run ListProgs.reverse [listArg 0 (x :: xs) false]) (x :: xs).reverse Obj.isFresh := by
  refine run_of_wp _ _ (fun o => Pure o _ _) ?_
  vc [ListProgs.reverse, Pure]
  refine ⟨?_, by omega⟩
  intro _ s1 hs1
  unfold LoopResult at hs1
  rw [exec_reverseLoop 2 1 0 (by decide) _ (copyVals (List.replicate (xs.length + 1) 0) (x :: xs)) .fresh
    (by simp [upd]) (by simp [upd, copyVals]) (by simp [copyVals]) rfl] at hs1
  subst hs1
  vc [Pure]
  rw [copyVals_make _ _ (by simp)]; simp

theorem reverse_nil_refines : Pure (run ListProgs.reverse [.nil]) [] Obj.isFresh := by
  refine run_of_wp _ _ (fun o => Pure o _ _) ?_
  vc [ListProgs.reverse, Pure]

/-- an empty (non-nil) list is returned as it is: the only case in which `reverse` returns its argument -/
theorem reverse_empty_refines :
    run ListProgs.reverse [listArg 0 [] false] = ⟨some (.ret (listArg 0 [] false)), none, []⟩ := by
  refine run_of_wp _ _ (fun o => o = _) ?_
  vc [ListProgs.reverse]

/-- `(revappend x y)` with non-empty `x`: reversed fresh copy of `x` followed by the elements of `y`,
    in fresh storage; nothing of `x` or `y` is written -/
theorem revappend_refines (x : Val) (xs ys : List Val) (asNil : Bool) (h : asNil = true → ys = []) :
    Pure (run ListProgs.revappend [listArg 0 (x :: xs) false, listArg 1 ys asNil]) ((x :: xs).reverse ++ ys) Obj.isFresh := by
  refine run_of_wp _ _ (fun o => Pure o _ _) ?_
  vc [ListProgs.revappend, Pure]
  refine ⟨?_, by omega⟩
  intro _ s1 hs1
  unfold LoopResult at hs1
  rw [exec_reverseLoop 0 1 0 (by decide) _ (copyVals (List.replicate (xs.length + 1) 0) (x :: xs)) .fresh
    (by simp [upd]) (by simp [upd, copyVals]) (by simp [copyVals]) rfl] at hs1
  subst hs1
  cases asNil
  · vc [Pure]
    rw [copyVals_make _ _ (by simp)]
    cases ys <;> simp
  · have := h rfl; subst this
    vc [Pure]
    rw [copyVals_make _ _ (by simp)]; simp

/-- `(revappend nil y)`: the elements of `y` in fresh storage -/
theorem revappend_nil_refines (ys : List Val) (asNil : Bool) (h : asNil = true → ys = []) :
    Pure (run ListProgs.revappend [.nil, listArg 1 ys asNil]) ys Obj.isFresh := by
  refine run_of_wp _ _ (fun o => Pure o _ _) ?_
  cases asNil
  · vc [ListProgs.revappend, Pure]
    cases ys <;> simp
  · vc [ListProgs.revappend, Pure, h]

/-! ## nreverse, nreconc: the argument's storage is reversed in place -/

/-- `(nreverse x)` returns its argument, reversed in place (only storage of argument 0 is written) -/
theorem nreverse_refines (xs : List Val) :
    ∃ w, run ListProgs.nreverse [listArg 0 xs false] = ⟨some (.ret (.lst ⟨xs.reverse, .arg 0 0 true⟩)), none, w⟩
      ∧ ∀ a ∈ w, a = 0 := by
  refine run_of_wp _ _ (fun o => ∃ w, o = ⟨some (.ret (.lst ⟨xs.reverse, .arg 0 0 true⟩)), none, w⟩ ∧ ∀ a ∈ w, a = 0) ?_
  vc [ListProgs.nreverse]
  refine ⟨?_, ?_⟩
  · intro hlen s1 hs1
    unfold LoopResult at hs1
    rw [exec_reverseLoop 1 1 0 (by decide) _ xs (.arg 0 0 true) (by simp [upd]) (by simp [upd]) (by omega) rfl] at hs1
    subst hs1
    vc []
  · intro hlen
    match xs, hlen with
    | [], _ => simp
    | [y], _ => simp

/-- `(nreconc x y)` with non-empty `x`: `x` reversed in place, then Go's append onto its storage -/
theorem nreconc_refines (x : Val) (xs : List Val) (y : Val) (ys : List Val) :
    ∃ w, run ListProgs.nreconc [listArg 0 (x :: xs) false, listArg 1 (y :: ys) false]
        = ⟨some (.ret (.lst ⟨(x :: xs).reverse ++ y :: ys, .grown 0⟩)), none, w⟩ ∧ ∀ a ∈ w, a = 0 := by
  refine run_of_wp _ _ (fun o => ∃ w, o = ⟨some (.ret (.lst ⟨(x :: xs).reverse ++ y :: ys, .grown 0⟩)), none, w⟩ ∧ ∀ a ∈ w, a = 0) ?_
  vc [ListProgs.nreconc]
  intro s1 hs1
  unfold LoopResult at hs1
  rw [exec_reverseLoop 0 1 0 (by decide) _ (x :: xs) (.arg 0 0 true) (by simp [upd]) (by simp [upd]) (by simp) rfl] at hs1
  subst hs1
  vc []

/-! ## append, nconc: the loop over the argument vector -/

/-- `(append x y)`: a fresh list with the elements of both (also when one of them is nil or empty) -/
theorem append_refines (xs ys : List Val) (n1 n2 : Bool) (h1 : n1 = true → xs = []) (h2 : n2 = true → ys = []) :
    ∃ r, run ListProgs.append [listArg 0 xs n1, listArg 1 ys n2] = ⟨some (.ret r), none, []⟩
      ∧ r.vals = xs ++ ys ∧ (r.isFresh = true ∨ xs ++ ys = []) := by
  refine run_of_wp _ _ (fun o => ∃ r, o = ⟨some (.ret r), none, []⟩ ∧ r.vals = xs ++ ys ∧ (r.isFresh = true ∨ xs ++ ys = [])) ?_
  rcases xs with _ | ⟨x, xs⟩ <;> rcases ys with _ | ⟨y, ys⟩ <;> cases n1 <;> cases n2 <;>
    first
    | (exfalso; simp_all; done)
    | (vc [ListProgs.append]; done)
    | (vc [ListProgs.append]; simp [copyVals_make]; done)

/-- **`nconc` extends its first non-empty argument's storage in place** (Go `append` onto it): right
    elements, `Origin.grown 0`, storage of argument 0 written — the root of the known findings -/
theorem nconc_refines (x : Val) (xs : List Val) (y : Val) (ys : List Val) :
    run ListProgs.nconc [listArg 0 (x :: xs) false, listArg 1 (y :: ys) false]
      = ⟨some (.ret (.lst ⟨x :: xs ++ y :: ys, .grown 0⟩)), none, [0]⟩ := by
  refine run_of_wp _ _ (fun o => o = _) ?_
  vc [ListProgs.nconc]

/-- nothing to append: the first list itself, nothing written -/
theorem nconc_nil_right_refines (x : Val) (xs : List Val) (n2 : Bool) :
    run ListProgs.nconc [listArg 0 (x :: xs) false, listArg 1 [] n2]
      = ⟨some (.ret (listArg 0 (x :: xs) false)), none, []⟩ := by
  refine run_of_wp _ _ (fun o => o = _) ?_
  cases n2 <;> vc [ListProgs.nconc]

/-- an empty first list: the second list itself, nothing written -/
theorem nconc_nil_left_refines (y : Val) (ys : List Val) (n1 : Bool) :
    run ListProgs.nconc [listArg 0 [] n1, listArg 1 (y :: ys) false]
      = ⟨some (.ret (listArg 1 (y :: ys) false)), none, []⟩ := by
  refine run_of_wp _ _ (fun o => o = _) ?_
  cases n1 <;> vc [ListProgs.nconc]

example : run ListProgs.reverse [listArg 0 [1, 2, 3] false] = ⟨some (.ret (.lst ⟨[3, 2, 1], .fresh⟩)), none, []⟩ := by decide
example : run ListProgs.append [listArg 0 [1] false, listArg 1 [2] false, listArg 2 [3] false] = ⟨some (.ret (.lst ⟨[1, 2, 3], .fresh⟩)), none, []⟩ := by decide
example : run ListProgs.nconc [listArg 0 [1] false, listArg 1 [2] false] = ⟨some (.ret (.lst ⟨[1, 2], .grown 0⟩)), none, [0]⟩ := by decide

/-! ## struct embedding: which functions run another function's code -/

/-- `rest` runs `cdr`'s Call, `remove` runs `delete`'s (so `Delete.inList` must not write its argument),
    `nbutlast` runs `butlast`'s (a copy: more than the language asks) -/
theorem shared_call_code :
    ListProgs.sharesCallWith.lookup "Rest" = some "Cdr" ∧ ListProgs.sharesCallWith.lookup "Remove" = some "Delete"
      ∧ ListProgs.sharesCallWith.lookup "Nbutlast" = some "Butlast" := by decide

end SlipVerif.C06Gen
