import SlipVerif.Theorems.C06
/-
  C06 — extension round 4: theorems about the element-overwriting operations (`Op.carmap`: fill,
  nsubstitute, nsubstitute-if, map-into, replace, incf/decf of an element place), about `Op.nbutlast`,
  and about the REGION BOOKKEEPING of the correspondence driver (`mergeRegs`, the growth of the heap by
  resynchronisation): Driver/ListHeap.lean executes exactly `mayChange` and `mergeRegs`; the theorems
  say that what the driver does to its region table between two steps can only WIDEN the may-change
  set of every later step (it never turns a permitted change into a violation, and — `mayChange_sound`
  holding for every region table — never makes the permission unsound either).
-/
namespace SlipVerif.ListHeap

/-! ## element-overwriting operations keep the shape of every list -/

/-- `fill nsubstitute map-into replace (incf (nth …))` change no cdr: every list of the heap keeps its
    cells (so no list becomes longer, shorter, or a tail of another list) -/
theorem carmap_keeps_every_chain {h h' : Heap} {f : FnD} {x res : Ref}
    (hr : run h (.carmap f x) = .ok (h', res)) (n : Nat) (r : Ref) : chain h' n r = chain h n r ∧ res = x := by
  unfold run at hr
  cases hx : chainOf h x with
  | error e => simp [hx, bind, Except.bind] at hr
  | ok as =>
    cases hv : f.app (carsOf h as) with
    | error e => simp [hx, hv, bind, Except.bind] at hr
    | ok vs =>
      simp [hx, hv, bind, Except.bind] at hr
      rw [← hr.1, ← hr.2]
      exact ⟨chain_writeCars _ _ _ _ _, rfl⟩

example : run [⟨2, .nil⟩, ⟨1, .cell 0⟩] (.carmap (.fill 7) (.cell 1)) = .ok ([⟨7, .nil⟩, ⟨7, .cell 0⟩], .cell 1) := by rfl

/-- the value level of the element-overwriting functions keeps the length (a list never grows or
    shrinks by fill/nsubstitute/map-into/replace/incf) -/
theorem carmap_value_length {f : FnD} {x : Ref} {xs vs : List Val} (hv : valueOf (.carmap f x) xs [] = .ok vs) :
    vs.length = xs.length := FnD.app_length (by simpa [valueOf] using hv)

theorem fill_value (v : Val) (x : Ref) (xs : List Val) :
    valueOf (.carmap (.fill v) x) xs [] = .ok (List.replicate xs.length v) := by
  simp only [valueOf, FnD.app]
  congr 1
  induction xs with
  | nil => rfl
  | cons y ys ih => simp [List.replicate_succ, ih]

theorem mapInto_eq_mapcar (g : Fn) (x : Ref) (xs : List Val) :
    valueOf (.carmap (.mapInto g) x) xs [] = valueOf (.mapcar g x) xs [] := rfl

/-- `(incf (nth n x) d)` changes position `n` only -/
theorem addNth_other_positions {n : Nat} {d : Val} {x : Ref} {xs vs : List Val}
    (hv : valueOf (.carmap (.addNth n d) x) xs [] = .ok vs) {i : Nat} (hi : i ≠ n) : vs[i]? = xs[i]? := by
  simp only [valueOf, FnD.app] at hv
  cases hg : xs[n]? with
  | none => simp [hg] at hv
  | some y =>
    simp [hg] at hv
    subst hv
    simp [List.getElem?_set, Ne.symm hi]

/-- `(replace x ys :start1 s)` keeps the elements before `s` -/
theorem replaceAt_keeps_front {s : Nat} {ws : List Val} {x : Ref} {xs vs : List Val}
    (hv : valueOf (.carmap (.replaceAt s ws) x) xs [] = .ok vs) : vs.take s = xs.take s := by
  simp only [valueOf, FnD.app] at hv
  by_cases hs : s ≤ xs.length
  · simp [hs] at hv
    subst hv
    rw [List.take_append_of_le_length (by simp [List.length_take]; omega)]
    simp [List.take_take]
  · simp [hs] at hv

/-- `substitute` computes what `nsubstitute` computes (the code shares one loop), on a fresh list -/
theorem substitute_eq_nsubstitute (new old : Val) (x : Ref) (xs : List Val) :
    valueOf (.fresh1 (.subst new old) x) xs [] = valueOf (.carmap (.subst new old) x) xs [] := rfl

/-! ## nbutlast -/

theorem nbutlast_eq_butlast (n : Nat) (x : Ref) (xs : List Val) :
    valueOf (.nbutlast n x) xs [] = valueOf (.butlast n x) xs [] := rfl

theorem nodup_drop_not_mem_take {as : List Nat} (hnd : as.Nodup) (j : Nat) {a : Nat}
    (ha : a ∈ as.drop j) : a ∉ as.take j := by
  intro ht
  have hsplit : as = as.take j ++ as.drop j := (List.take_append_drop j as).symm
  rw [hsplit] at hnd
  have := List.nodup_append.mp hnd
  exact this.2.2 a ht a ha rfl

/-- **the cells `nbutlast` cuts off stay intact**: a list taken from the argument before
    (`(last x n)`, `(nthcdr (- len n) x)`) keeps its cells and its printed contents -/
theorem nbutlast_cut_tail_intact {h h' : Heap} {k : Nat} {x res : Ref} {as : List Nat}
    (hr : run h (.nbutlast k x) = .ok (h', res)) (hc : chainOf h x = .ok as) :
    chain h' (stdFuel h) (refOf (as.drop (as.length - k))) = some (as.drop (as.length - k))
      ∧ carsOf h' (as.drop (as.length - k)) = carsOf h (as.drop (as.length - k)) := by
  have hch := chainOf_ok.mp hc
  have hsame : ∀ a ∈ as.drop (as.length - k), h'[a]? = h[a]? := by
    intro a ha
    unfold run at hr
    simp [hc, bind, Except.bind] at hr
    rw [← hr.1]
    exact linkCells_notin _ _ (nodup_drop_not_mem_take (chain_nodup hch) _ ha)
  exact ⟨chain_congr (chain_drop _ hch) hsame, carsOf_congr hsame⟩

example :
    let h : Heap := [⟨3, .nil⟩, ⟨2, .cell 0⟩, ⟨1, .cell 1⟩]
    run h (.nbutlast 1 (.cell 2)) = .ok ([⟨3, .nil⟩, ⟨2, .nil⟩, ⟨1, .cell 1⟩], .cell 2) := by rfl

/-! ## the driver's region bookkeeping only widens the may-change set -/

theorem mergeRegs_getElem? (regs group : List Nat) (blob a : Nat) :
    (mergeRegs regs group blob)[a]? = (regs[a]?).map (fun g => if group.contains g then blob else g) := by
  simp [mergeRegs]

/-- **merging regions only widens.** Whatever regions a step merges (`group`, into `blob`), every
    list that MAY change under the old region table may change under the new one — for every later
    operation and every heap.  So the merge a destructive step performs can never turn an accepted
    change into a reported one. -/
theorem mergeRegs_widens {regs group : List Nat} {blob : Nat} {h : Heap} {op : Op} {r : Ref}
    (hm : mayChange regs h op r = true) : mayChange (mergeRegs regs group blob) h op r = true := by
  unfold mayChange at hm ⊢
  cases hc : chainOf h r with
  | error e => simp
  | ok as =>
    simp only [hc] at hm ⊢
    rw [List.any_eq_true] at hm ⊢
    obtain ⟨a, ha, hp⟩ := hm
    refine ⟨a, ha, ?_⟩
    rw [mergeRegs_getElem?]
    cases hg : regs[a]? with
    | none => simp
    | some g =>
      simp only [hg] at hp
      simp only [Option.map_some]
      rw [List.contains_iff_mem, List.mem_filterMap] at hp ⊢
      obtain ⟨b, hb, hbg⟩ := hp
      exact ⟨b, hb, by rw [mergeRegs_getElem?, hbg]; rfl⟩

example : mayChange [0, 1] [⟨1, .nil⟩, ⟨2, .nil⟩] (.rplaca (.cell 0) 9) (.cell 1) = false
    ∧ mayChange (mergeRegs [0, 1] [0, 1] 5) [⟨1, .nil⟩, ⟨2, .nil⟩] (.rplaca (.cell 0) 9) (.cell 1) = true := by
  refine ⟨by rfl, by rfl⟩

theorem flatMap_congr_mem {α β : Type} {l : List α} {f g : α → List β} (hfg : ∀ x ∈ l, f x = g x) :
    l.flatMap f = l.flatMap g := by
  induction l with
  | nil => rfl
  | cons a l ih =>
    simp only [List.flatMap_cons]
    rw [hfg a (by simp), ih (fun x hx => hfg x (by simp [hx]))]

theorem filterMap_congr_mem {α β : Type} {l : List α} {f g : α → Option β} (hfg : ∀ x ∈ l, f x = g x) :
    l.filterMap f = l.filterMap g := by
  induction l with
  | nil => rfl
  | cons a l ih =>
    simp only [List.filterMap_cons]
    rw [hfg a (by simp), ih (fun x hx => hfg x (by simp [hx]))]

theorem any_congr_mem {α : Type} {l : List α} {f g : α → Bool} (hfg : ∀ x ∈ l, f x = g x) :
    l.any f = l.any g := by
  induction l with
  | nil => rfl
  | cons a l ih =>
    simp only [List.any_cons]
    rw [hfg a (by simp), ih (fun x hx => hfg x (by simp [hx]))]

theorem chainOf_append {h : Heap} (ext : Heap) {x : Ref} {as : List Nat} (hc : chainOf h x = .ok as) :
    chainOf (h ++ ext) x = .ok as := by
  have h1 := (frame_of_append ext (chainOf_ok.mp hc)).1
  apply chainOf_ok.mpr
  exact chain_mono_le (by simp [stdFuel]) h1

theorem footprint_append {h : Heap} (ext : Heap) {op : Op}
    (hargs : ∀ x ∈ op.listArgs, ∃ as, chainOf h x = .ok as) : footprint (h ++ ext) op = footprint h op := by
  unfold footprint
  split
  · apply flatMap_congr_mem
    intro x hx
    obtain ⟨as, has⟩ := hargs x hx
    rw [has, chainOf_append ext has]
  · rfl

/-- **growing the heap and the region table changes no permission.** The cells a step allocates
    (the result of the operation, and the re-allocated copies of resynchronised variables) get
    entries at the END of the heap and of the region table: the may-change answer for every list
    that already existed, under every operation on lists that already existed, is the same. -/
theorem mayChange_heap_growth {regs extra : List Nat} {h ext : Heap} {op : Op} {r : Ref} {as : List Nat}
    (hlen : regs.length = h.length)
    (hargs : ∀ x ∈ op.listArgs, ∃ bs, chainOf h x = .ok bs) (hr : chainOf h r = .ok as) :
    mayChange (regs ++ extra) (h ++ ext) op r = mayChange regs h op r := by
  have hold : ∀ a, a < h.length → (regs ++ extra)[a]? = regs[a]? := fun a ha =>
    List.getElem?_append_left (by omega)
  have hfp : ∀ a ∈ footprint h op, a < h.length := by
    intro a ha
    unfold footprint at ha
    split at ha
    · obtain ⟨x, hx, hax⟩ := List.mem_flatMap.mp ha
      obtain ⟨bs, hbs⟩ := hargs x hx
      rw [hbs] at hax
      exact chain_lt (chainOf_ok.mp hbs) a hax
    · simp at ha
  unfold mayChange
  rw [footprint_append ext hargs, chainOf_append ext hr, hr]
  have hfm : (footprint h op).filterMap (fun a => (regs ++ extra)[a]?) = (footprint h op).filterMap (fun a => regs[a]?) := by
    apply filterMap_congr_mem
    intro a ha
    exact hold a (hfp a ha)
  simp only [hfm]
  apply any_congr_mem
  intro a ha
  rw [hold a (chain_lt (chainOf_ok.mp hr) a ha)]

/-- **a resynchronised variable keeps its permission.** When the implementation legally copied
    where the cons model shares, the driver re-allocates the variable (`r` → `r'`) inside the merged
    region `blob`: all old cells and all new cells of the variable lie in `blob`.  Every later
    operation that might change the old list might change the new one (unless the new value is the
    empty list, which has no cell to change). -/
theorem resync_keeps_permission {regs : List Nat} {h : Heap} {op : Op} {r r' : Ref} {as as' : List Nat} {blob : Nat}
    (hr : chainOf h r = .ok as) (hr' : chainOf h r' = .ok as')
    (hold : ∀ a ∈ as, regs[a]? = some blob) (hnew : ∀ a ∈ as', regs[a]? = some blob) (hne : as' ≠ [])
    (hm : mayChange regs h op r = true) : mayChange regs h op r' = true := by
  unfold mayChange at hm ⊢
  simp only [hr] at hm
  simp only [hr']
  rw [List.any_eq_true] at hm ⊢
  obtain ⟨a, ha, hp⟩ := hm
  rw [hold a ha] at hp
  cases as' with
  | nil => exact absurd rfl hne
  | cons b bs =>
    refine ⟨b, by simp, ?_⟩
    rw [hnew b (by simp)]
    exact hp

example :
    let h : Heap := [⟨1, .nil⟩, ⟨1, .nil⟩, ⟨7, .nil⟩]
    mayChange [5, 5, 5] h (.rplaca (.cell 2) 9) (.cell 0) = true
      ∧ mayChange [5, 5, 5] h (.rplaca (.cell 2) 9) (.cell 1) = true := by
  refine ⟨by rfl, by rfl⟩

end SlipVerif.ListHeap
