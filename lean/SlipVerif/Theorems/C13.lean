import SlipVerif.Model.Pkg
import SlipVerif.Lemmas.Pkg
/-
  C13 — package visibility is coherent with the use/export graph after any history.

  Theorems about SlipVerif.Model.Pkg (the model the correspondence harness runs against the
  implementation, harness/cmd/vh/c13.go): the denormalised tables always equal the closure of
  the use/export graph (`Inv`), for the initial state and after every operation, hence after any
  history; every lookup therefore equals `resolve`, which recomputes visibility from the graph
  alone; corollaries: own definitions are never lost, nothing stale stays after
  unuse/unexport/makunbound/fmakunbound, private definitions are never visible, qualified access.
-/
namespace SlipVerif.Pkg

/-- tables = closure of the graph, for variables and functions, over a well-formed use graph -/
structure Inv (s : State) : Prop where
  graph : GInv s.uses s.users
  vars : TInv s.uses s.v
  funs : TInv s.uses s.f
  /-- a function entry always has a body (only variables can be unbound) -/
  bodies : ∀ p n d, s.f.defs p n = some d → d.val.isSome = true

/-! ## the invariant holds initially and is preserved by every operation -/

theorem inv_init : Inv State.init := by
  refine ⟨⟨?_, ?_, ?_, ?_⟩, ⟨?_, ?_, ?_⟩, ⟨?_, ?_, ?_⟩, ?_⟩ <;>
    simp [State.init, Tab.empty, Tab.ownExp, Tab.entry]

theorem inv_inPackage {s : State} (h : Inv s) (p : Pk) : Inv (inPackage s p) :=
  ⟨h.graph, h.vars, h.funs, h.bodies⟩

theorem inv_use {s : State} (h : Inv s) (obj pkg : Pk) : Inv (use s obj pkg) := by
  unfold use
  by_cases hc : obj = pkg ∨ pkg ∈ s.uses obj
  · rw [if_pos hc]; exact h
  · rw [if_neg hc]
    have hne : obj ≠ pkg := fun e => hc (Or.inl e)
    have hnot : pkg ∉ s.uses obj := fun e => hc (Or.inr e)
    exact ⟨h.graph.use hne hnot, Tab.useCopy_inv h.vars hne, Tab.useCopy_inv h.funs hne, h.bodies⟩

theorem inv_unuse {s : State} (h : Inv s) (obj pkg : Pk) : Inv (unuse s obj pkg) := by
  unfold unuse
  by_cases hc : obj = pkg
  · rw [if_pos hc]; exact h
  · rw [if_neg hc]
    have hus : obj ∉ (s.uses obj).erase pkg := fun hh => h.graph.irr obj (List.mem_of_mem_erase hh)
    exact ⟨h.graph.unuse hc, Tab.rebuild_inv h.vars hus, Tab.rebuild_inv h.funs hus, h.bodies⟩

theorem inv_export {s : State} (h : Inv s) (p : Pk) (n : Nm) : Inv («export» s p n) := by
  unfold «export»
  refine ⟨h.graph, ?_, ?_, ?_⟩
  · show TInv s.uses (match s.v.cell p n with
      | some o => if o = p then s.v.exportOwn s.users p n else s.v
      | none => s.v.create s.users p n { exp := true, val := none })
    cases hc : s.v.cell p n with
    | none => exact Tab.create_inv h.graph h.vars (by rw [hc]; simp) _
    | some o =>
      by_cases ho : o = p
      · subst ho; simp only [if_true]; exact Tab.exportOwn_inv h.graph h.vars hc
      · simp only [ho, if_false]; exact h.vars
  · show TInv s.uses (if s.f.cell p n = some p then s.f.exportOwn s.users p n else s.f)
    by_cases hc : s.f.cell p n = some p
    · rw [if_pos hc]; exact Tab.exportOwn_inv h.graph h.funs hc
    · rw [if_neg hc]; exact h.funs
  · show Bodies (if s.f.cell p n = some p then s.f.exportOwn s.users p n else s.f)
    by_cases hc : s.f.cell p n = some p
    · rw [if_pos hc]; exact Tab.exportOwn_bodies h.bodies _ _ _
    · rw [if_neg hc]; exact h.bodies

theorem inv_unexport {s : State} (h : Inv s) (p : Pk) (n : Nm) : Inv (unexport s p n) := by
  unfold unexport
  refine ⟨h.graph, ?_, ?_, ?_⟩
  · show TInv s.uses (if s.v.cell p n = some p then s.v.unexportOwn s.uses s.users p n else s.v)
    by_cases hc : s.v.cell p n = some p
    · rw [if_pos hc]; exact Tab.unexportOwn_inv h.graph h.vars _ _
    · rw [if_neg hc]; exact h.vars
  · show TInv s.uses (if s.f.cell p n = some p then s.f.unexportOwn s.uses s.users p n else s.f)
    by_cases hc : s.f.cell p n = some p
    · rw [if_pos hc]; exact Tab.unexportOwn_inv h.graph h.funs _ _
    · rw [if_neg hc]; exact h.funs
  · show Bodies (if s.f.cell p n = some p then s.f.unexportOwn s.uses s.users p n else s.f)
    by_cases hc : s.f.cell p n = some p
    · rw [if_pos hc]; exact Tab.unexportOwn_bodies h.bodies _ _ _ _
    · rw [if_neg hc]; exact h.bodies

theorem inv_setqIn {s : State} (h : Inv s) (q : Pk) (n : Nm) (val : Option Nat) :
    Inv (setqIn s q n val) := by
  unfold setqIn
  cases hc : s.v.cell q n with
  | none =>
    dsimp only
    refine ⟨h.graph, ?_, h.funs, h.bodies⟩
    exact Tab.create_inv h.graph h.vars (by rw [hc]; simp) { exp := false, val := val }
  | some o =>
    dsimp only
    refine ⟨h.graph, ?_, h.funs, h.bodies⟩
    exact Tab.assign_inv h.vars q n val

theorem inv_setq {s : State} (h : Inv s) (n : Nm) (val : Option Nat) : Inv (setq s n val) :=
  inv_setqIn h s.cur n val

/-- `(setq q:n v)` / `(setq q::n v)` -/
theorem inv_qsetq {s : State} (h : Inv s) (q : Pk) (n : Nm) (priv : Bool) (val : Nat) :
    Inv (qsetq s q n priv val) := by
  unfold qsetq
  split
  · split
    · exact ⟨h.graph, Tab.assign_inv h.vars q n (some val), h.funs, h.bodies⟩
    · exact h
  · exact h

theorem inv_defvar {s : State} (h : Inv s) (n : Nm) (val : Option Nat) : Inv (defvar s n val) := by
  unfold defvar
  by_cases hc : (s.v.get s.cur n).isSome = true
  · rw [if_pos hc]; exact h
  · rw [if_neg hc]; exact inv_setq h n val

/-- `(defvar q:n [v])` / `(defvar q::n [v])` -/
theorem inv_qdefvar {s : State} (h : Inv s) (q : Pk) (n : Nm) (priv : Bool) (val : Option Nat) :
    Inv (qdefvar s q n priv val) := by
  unfold qdefvar
  split
  · split
    · split
      · exact h
      · exact ⟨h.graph, Tab.assign_inv h.vars q n val, h.funs, h.bodies⟩
    · exact h
  · exact inv_setqIn h q n val

theorem inv_unintern {s : State} (h : Inv s) (q : Pk) (n : Nm) : Inv (unintern s q n) :=
  ⟨h.graph, Tab.remove_inv h.graph h.vars _ _, h.funs, h.bodies⟩

theorem inv_makunbound {s : State} (h : Inv s) (n : Nm) : Inv (makunbound s n) :=
  inv_unintern h s.cur n

theorem inv_intern {s : State} (h : Inv s) (q : Pk) (n : Nm) : Inv (intern s q n) := by
  unfold intern
  split
  · exact h
  · exact inv_setqIn h q n none

theorem inv_fmakunbound {s : State} (h : Inv s) (n : Nm) : Inv (fmakunbound s n) :=
  ⟨h.graph, h.vars, Tab.remove_inv h.graph h.funs _ _, Tab.remove_bodies h.bodies _ _ _ _⟩

theorem inv_defunIn {s : State} (h : Inv s) (q : Pk) (n : Nm) (body : Nat) :
    Inv (defunIn s q n body) := by
  unfold defunIn
  cases hc : s.f.cell q n with
  | some o =>
    dsimp only
    refine ⟨h.graph, h.vars, ?_, ?_⟩
    · exact Tab.assign_inv h.funs q n (some body)
    · exact Tab.assign_bodies h.bodies q n body
  | none =>
    dsimp only
    refine ⟨h.graph, ?_, ?_, ?_⟩
    rotate_left
    · exact Tab.create_inv h.graph h.funs (by rw [hc]; simp) _
    · exact Tab.create_bodies h.bodies _ _ _ _ rfl
    dsimp only
    split
    · exact Tab.remove_inv h.graph h.vars _ _
    · exact h.vars

theorem inv_defun {s : State} (h : Inv s) (n : Nm) (body : Nat) : Inv (defun s n body) :=
  inv_defunIn h s.cur n body

theorem inv_gdefine {s : State} (h : Inv s) (n : Nm) (body : Nat) (exp : Bool) :
    Inv (gdefine s n body exp) :=
  ⟨h.graph, h.vars, Tab.define_inv h.graph h.funs _ _ _,
   Tab.define_bodies h.bodies _ _ _ _ _ rfl⟩

theorem inv_defpackage {s : State} (h : Inv s) (p : Pk) (us : List Pk) (ex : List Nm) :
    Inv (defpackage s p us ex) := by
  unfold defpackage
  have h1 : ∀ (l : List Pk) (s : State), Inv s → Inv (l.foldl (fun s q => use s p q) s) := by
    intro l
    induction l with
    | nil => intro s hs; exact hs
    | cons a l ih => intro s hs; exact ih _ (inv_use hs p a)
  have h2 : ∀ (l : List Nm) (s : State), Inv s → Inv (l.foldl (fun s n => «export» s p n) s) := by
    intro l
    induction l with
    | nil => intro s hs; exact hs
    | cons a l ih => intro s hs; exact ih _ (inv_export hs p a)
  exact h2 ex _ (h1 us s h)

/-- every operation preserves the invariant -/
theorem inv_step {s : State} (h : Inv s) (op : Op) : Inv (step s op) := by
  cases op with
  | defpackage p us ex => exact inv_defpackage h p us ex
  | inPackage p => exact inv_inPackage h p
  | use obj pkg => exact inv_use h obj pkg
  | unuse obj pkg => exact inv_unuse h obj pkg
  | «export» p n => exact inv_export h p n
  | unexport p n => exact inv_unexport h p n
  | defvar n v => exact inv_defvar h n v
  | setq n v => exact inv_setq h n (some v)
  | defun n b => exact inv_defun h n b
  | makunbound n => exact inv_makunbound h n
  | fmakunbound n => exact inv_fmakunbound h n
  | gdefine n b e => exact inv_gdefine h n b e
  | qsetq q n pr v => exact inv_qsetq h q n pr v
  | qdefvar q n pr v => exact inv_qdefvar h q n pr v
  | qdefun q n b => exact inv_defunIn h q n b
  | unintern q n => exact inv_unintern h q n
  | intern q n => exact inv_intern h q n

/-- **tables = closure of the graph after any history** -/
theorem inv_run (ops : List Op) : Inv (run State.init ops) := by
  have : ∀ (l : List Op) (s : State), Inv s → Inv (run s l) := by
    intro l
    induction l with
    | nil => intro s hs; exact hs
    | cons a l ih => intro s hs; exact ih _ (inv_step hs a)
  exact this ops _ inv_init

/-! ## lookups equal `resolve`

  `resolve` recomputes visibility from the graph alone (own definitions with their export flags,
  use lists): own definition, else the exported definition of a directly used package, else
  nothing. Where the graph leaves a choice (no own definition and two used packages export the
  name — Common Lisp would signal a name conflict) the property allows either; `Unamb` excludes
  exactly that case for the equation, `lookup_sound`/`lookup_complete` cover it. -/

/-- the graph determines the definition: an own one, or at most one used package exports the name -/
def Unamb (defs : Pk → Nm → Option Def) (uses : Pk → List Pk) (p : Pk) (n : Nm) : Prop :=
  (defs p n).isSome = true ∨ (candidates defs uses p n).length ≤ 1

/-- a history used by the `example`s: p1 defines and exports variable 0 and function 0, keeps
    variable 1 private; p0 uses p1 and has an own function 1; p2 uses p0 -/
def sampleOps : List Op :=
  [.defpackage 0 [] [], .defpackage 1 [] [], .inPackage 1, .defvar 0 (some 11), .defun 0 12,
   .defvar 1 (some 13), .export 1 0, .defpackage 2 [0] [], .use 0 1, .inPackage 0, .defun 1 14,
   .setq 0 15]

/-- variables: `symbol-value` / `boundp` in package `c` give what `resolve` computes -/
theorem var_lookup_eq_resolve {s : State} (h : Inv s) (c : Pk) (n : Nm)
    (hu : Unamb s.v.defs s.uses c n) : s.v.get c n = resolveVal s.v.defs s.uses c n := by
  unfold Tab.get resolveVal
  rw [h.vars.entry_eq_resolve c n hu]

example : Inv (run State.init sampleOps) ∧
    Unamb (run State.init sampleOps).v.defs (run State.init sampleOps).uses 0 0 ∧
    (run State.init sampleOps).v.get 0 0 = some 15 :=
  ⟨inv_run _, by unfold Unamb; decide, by decide⟩

/-- functions: calling `n` in package `c` runs the body `resolve` finds, and `fboundp` is true
    exactly when `resolve` finds a definition -/
theorem fun_lookup_eq_resolve {s : State} (h : Inv s) (c : Pk) (n : Nm)
    (hu : Unamb s.f.defs s.uses c n) :
    s.f.find c n = resolveVal s.f.defs s.uses c n ∧
    s.f.has c n = (resolve s.f.defs s.uses c n).isSome := by
  have he := h.funs.entry_eq_resolve c n hu
  constructor
  · unfold Tab.find resolveVal
    rw [← he]
    cases hent : s.f.entry c n with
    | none => rfl
    | some od =>
      obtain ⟨o, d⟩ := od
      dsimp only
      rcases h.funs.entry_sound hent with ⟨e, _⟩ | ⟨_, _, _, hexp⟩
      · simp [e]
      · simp [hexp]
  · rw [← he]
    unfold Tab.has
    cases hent : s.f.entry c n with
    | none =>
      have := (h.funs.entry_complete hent)
      cases hc : s.f.cell c n with
      | none => rfl
      | some o =>
        exfalso
        by_cases hop : o = c
        · subst hop
          have h1 := (h.funs.own o n).1 hc
          rw [this.1] at h1; simp at h1
        · obtain ⟨_, hoe⟩ := h.funs.snd' hc hop
          obtain ⟨_, d, hdq, _⟩ := (Tab.ownExp_iff s.f o n).1 hoe
          rw [Tab.entry_of hc hdq] at hent; simp at hent
    | some od =>
      obtain ⟨o, d⟩ := od
      rw [(Tab.entry_some hent).1]; rfl

example : Unamb (run State.init sampleOps).f.defs (run State.init sampleOps).uses 0 0 ∧
    (run State.init sampleOps).f.find 0 0 = some 12 ∧ (run State.init sampleOps).f.find 2 0 = none :=
  ⟨by unfold Unamb; decide, by decide, by decide⟩

/-- **after any history, every lookup equals `resolve`** (the statement the correspondence harness
    tests on the implementation) -/
theorem lookups_eq_resolve (ops : List Op) (c : Pk) (n : Nm) :
    let s := run State.init ops
    (Unamb s.v.defs s.uses c n → s.v.get c n = resolveVal s.v.defs s.uses c n) ∧
    (Unamb s.f.defs s.uses c n → s.f.find c n = resolveVal s.f.defs s.uses c n ∧
      s.f.has c n = (resolve s.f.defs s.uses c n).isSome) :=
  ⟨fun hu => var_lookup_eq_resolve (inv_run ops) c n hu,
   fun hu => fun_lookup_eq_resolve (inv_run ops) c n hu⟩

/-- whatever the graph (also with name conflicts): a visible variable is the package's own one,
    or — when it has none — an exported one of a package it uses directly -/
theorem lookup_sound {s : State} (h : Inv s) {c o : Pk} {n : Nm} {d : Def} :
    (s.v.entry c n = some (o, d) →
      (o = c ∧ s.v.defs c n = some d) ∨
      (s.v.defs c n = none ∧ o ∈ candidates s.v.defs s.uses c n ∧ s.v.defs o n = some d ∧ d.exp = true)) ∧
    (s.f.entry c n = some (o, d) →
      (o = c ∧ s.f.defs c n = some d) ∨
      (s.f.defs c n = none ∧ o ∈ candidates s.f.defs s.uses c n ∧ s.f.defs o n = some d ∧ d.exp = true)) :=
  ⟨h.vars.entry_sound, h.funs.entry_sound⟩

/-- whatever the graph: an invisible name has no own definition and no used package exports it -/
theorem lookup_complete {s : State} (h : Inv s) {c : Pk} {n : Nm} :
    (s.v.entry c n = none → s.v.defs c n = none ∧ candidates s.v.defs s.uses c n = []) ∧
    (s.f.entry c n = none → s.f.defs c n = none ∧ candidates s.f.defs s.uses c n = []) :=
  ⟨h.vars.entry_complete, h.funs.entry_complete⟩

/-- `fboundp` and callability agree -/
theorem fboundp_iff_callable {s : State} (h : Inv s) (c : Pk) (n : Nm) :
    s.f.has c n = (s.f.find c n).isSome := by
  unfold Tab.has Tab.find
  cases hent : s.f.entry c n with
  | none =>
    have := h.funs.entry_complete hent
    cases hc : s.f.cell c n with
    | none => rfl
    | some o =>
      exfalso
      by_cases hop : o = c
      · subst hop
        have h1 := (h.funs.own o n).1 hc
        rw [this.1] at h1; simp at h1
      · obtain ⟨_, hoe⟩ := h.funs.snd' hc hop
        obtain ⟨_, d, hdq, _⟩ := (Tab.ownExp_iff s.f o n).1 hoe
        rw [Tab.entry_of hc hdq] at hent; simp at hent
  | some od =>
    obtain ⟨o, d⟩ := od
    obtain ⟨hc, hd⟩ := Tab.entry_some hent
    have hb := h.bodies o n d hd
    rw [hc]
    dsimp only
    rcases h.funs.entry_sound hent with ⟨e, _⟩ | ⟨_, _, _, hexp⟩
    · simp [e, hb]
    · simp [hexp, hb]

/-! ## corollaries named in the property -/

/-- a package always sees its own definitions: whatever it uses and whatever those packages
    export, its own variable / function is what the name resolves to -/
theorem own_visible {s : State} (h : Inv s) {p : Pk} {n : Nm} {d : Def} :
    (s.v.defs p n = some d → s.v.get p n = d.val) ∧
    (s.f.defs p n = some d → s.f.find p n = d.val ∧ s.f.has p n = true) := by
  constructor
  · intro hd
    have hc : s.v.cell p n = some p := (h.vars.own p n).2 (by rw [hd]; rfl)
    unfold Tab.get; rw [Tab.entry_of hc hd]
  · intro hd
    have hc : s.f.cell p n = some p := (h.funs.own p n).2 (by rw [hd]; rfl)
    unfold Tab.find Tab.has; rw [Tab.entry_of hc hd, hc]; simp

example : (run State.init sampleOps).f.defs 0 1 = some { exp := false, val := some 14 } := by decide

theorem defunIn_keeps_var (s : State) (q : Pk) (m : Nm) (b : Nat) {p : Pk} {n : Nm}
    (hc : ¬(p = q ∧ n = m)) (hd : (s.v.defs p n).isSome = true) :
    ((defunIn s q m b).v.defs p n).isSome = true := by
  unfold defunIn
  split
  · exact hd
  · dsimp only
    split
    · exact Tab.remove_keeps _ _ _ _ hc hd
    · exact hd

theorem defunIn_keeps_fun (s : State) (q : Pk) (m : Nm) (b : Nat) {p : Pk} {n : Nm}
    (hd : (s.f.defs p n).isSome = true) : ((defunIn s q m b).f.defs p n).isSome = true := by
  unfold defunIn
  split
  · exact Tab.assign_keeps q m (some b) hd
  · exact Tab.create_keeps s.users q m _ hd

theorem qsetq_keeps (s : State) (q : Pk) (m : Nm) (pr : Bool) (v : Nat) {p : Pk} {n : Nm} :
    ((s.v.defs p n).isSome = true → ((qsetq s q m pr v).v.defs p n).isSome = true) ∧
    (qsetq s q m pr v).f = s.f := by
  unfold qsetq
  split
  · split
    · exact ⟨fun hd => Tab.assign_keeps q m (some v) hd, rfl⟩
    · exact ⟨id, rfl⟩
  · exact ⟨id, rfl⟩

theorem qdefvar_keeps (s : State) (q : Pk) (m : Nm) (pr : Bool) (v : Option Nat) {p : Pk} {n : Nm} :
    ((s.v.defs p n).isSome = true → ((qdefvar s q m pr v).v.defs p n).isSome = true) ∧
    (qdefvar s q m pr v).f.defs = s.f.defs := by
  unfold qdefvar
  split
  · split
    · split
      · exact ⟨id, rfl⟩
      · exact ⟨fun hd => Tab.assign_keeps q m v hd, rfl⟩
    · exact ⟨id, rfl⟩
  · exact setqIn_keeps s q m v

theorem intern_keeps (s : State) (q : Pk) (m : Nm) {p : Pk} {n : Nm} :
    ((s.v.defs p n).isSome = true → ((intern s q m).v.defs p n).isSome = true) ∧
    (intern s q m).f.defs = s.f.defs := by
  unfold intern
  split
  · exact ⟨id, rfl⟩
  · exact setqIn_keeps s q m none

/-- **no operation loses a package's own definitions**: an own variable of `p` survives every
    operation except the removal of that very name from `p` (`makunbound` with `p` current,
    `(unintern 'n 'p)`) and a `defun` of that name in `p` (`defun` with `p` current,
    `(defun p::n …)`), which consumes the unbound placeholder left by an `export` in advance -/
theorem own_var_never_lost (s : State) (op : Op) {p : Pk} {n : Nm}
    (hd : (s.v.defs p n).isSome = true) :
    ((step s op).v.defs p n).isSome = true ∨
    (s.cur = p ∧ (op = .makunbound n ∨ ∃ b, op = .defun n b)) ∨
    op = .unintern p n ∨ ∃ b, op = .qdefun p n b := by
  cases op with
  | defpackage q us ex => left; exact (defpackage_keeps s q us ex).1 hd
  | inPackage q => left; exact hd
  | use obj pkg => left; show ((use s obj pkg).v.defs p n).isSome = true; rw [(use_defs s obj pkg).1]; exact hd
  | unuse obj pkg => left; show ((unuse s obj pkg).v.defs p n).isSome = true; rw [(unuse_defs s obj pkg).1]; exact hd
  | «export» q m => left; exact (export_keeps s q m).1 hd
  | unexport q m =>
    left; show ((unexport s q m).v.defs p n).isSome = true
    unfold unexport; dsimp only
    split
    · exact Tab.unexportOwn_keeps _ _ _ _ hd
    · exact hd
  | defvar m v =>
    left; show ((defvar s m v).v.defs p n).isSome = true
    unfold defvar
    split
    · exact hd
    · exact (setq_keeps s m v).1 hd
  | setq m v => left; exact (setq_keeps s m (some v)).1 hd
  | defun m b =>
    by_cases hc : p = s.cur ∧ n = m
    · right; left; exact ⟨hc.1.symm, Or.inr ⟨b, by rw [hc.2]⟩⟩
    · left; exact defunIn_keeps_var s s.cur m b hc hd
  | makunbound m =>
    by_cases hc : p = s.cur ∧ n = m
    · right; left; exact ⟨hc.1.symm, Or.inl (by rw [hc.2])⟩
    · left; exact Tab.remove_keeps _ _ _ _ hc hd
  | fmakunbound m => left; exact hd
  | gdefine m b e => left; exact hd
  | qsetq q m pr v => left; exact (qsetq_keeps s q m pr v).1 hd
  | qdefvar q m pr v => left; exact (qdefvar_keeps s q m pr v).1 hd
  | qdefun q m b =>
    by_cases hc : p = q ∧ n = m
    · right; right; right; exact ⟨b, by rw [hc.1, hc.2]⟩
    · left; exact defunIn_keeps_var s q m b hc hd
  | unintern q m =>
    by_cases hc : p = q ∧ n = m
    · right; right; left; rw [hc.1, hc.2]
    · left; exact Tab.remove_keeps _ _ _ _ hc hd
  | intern q m => left; exact (intern_keeps s q m).1 hd

/-- an own function survives every operation except `fmakunbound` of that name by the package
    itself -/
theorem own_fun_never_lost (s : State) (op : Op) {p : Pk} {n : Nm}
    (hd : (s.f.defs p n).isSome = true) :
    ((step s op).f.defs p n).isSome = true ∨ (s.cur = p ∧ op = .fmakunbound n) := by
  cases op with
  | defpackage q us ex => left; exact (defpackage_keeps s q us ex).2 hd
  | inPackage q => left; exact hd
  | use obj pkg => left; show ((use s obj pkg).f.defs p n).isSome = true; rw [(use_defs s obj pkg).2]; exact hd
  | unuse obj pkg => left; show ((unuse s obj pkg).f.defs p n).isSome = true; rw [(unuse_defs s obj pkg).2]; exact hd
  | «export» q m => left; exact (export_keeps s q m).2 hd
  | unexport q m =>
    left; show ((unexport s q m).f.defs p n).isSome = true
    unfold unexport; dsimp only
    split
    · exact Tab.unexportOwn_keeps _ _ _ _ hd
    · exact hd
  | defvar m v =>
    left; show ((defvar s m v).f.defs p n).isSome = true
    unfold defvar
    split
    · exact hd
    · rw [(setq_keeps s m v (p := p) (n := n)).2]; exact hd
  | setq m v =>
    left; show ((setq s m (some v)).f.defs p n).isSome = true
    rw [(setq_keeps s m (some v) (p := p) (n := n)).2]; exact hd
  | defun m b => left; exact defunIn_keeps_fun s s.cur m b hd
  | makunbound m => left; exact hd
  | fmakunbound m =>
    by_cases hc : p = s.cur ∧ n = m
    · right; exact ⟨hc.1.symm, by rw [hc.2]⟩
    · left; exact Tab.remove_keeps _ _ _ _ hc hd
  | gdefine m b e => left; exact Tab.define_keeps _ _ _ _ _ hd
  | qsetq q m pr v =>
    left; show ((qsetq s q m pr v).f.defs p n).isSome = true
    rw [(qsetq_keeps s q m pr v (p := p) (n := n)).2]; exact hd
  | qdefvar q m pr v =>
    left; show ((qdefvar s q m pr v).f.defs p n).isSome = true
    rw [(qdefvar_keeps s q m pr v (p := p) (n := n)).2]; exact hd
  | qdefun q m b => left; exact defunIn_keeps_fun s q m b hd
  | unintern q m => left; exact hd
  | intern q m =>
    left; show ((intern s q m).f.defs p n).isSome = true
    rw [(intern_keeps s q m (p := p) (n := n)).2]; exact hd

example : ((run State.init sampleOps).v.defs 1 0).isSome = true ∧
    ((run State.init sampleOps).f.defs 0 1).isSome = true := ⟨by decide, by decide⟩

/-- after `(unuse-package pkg obj)` nothing owned by `pkg` is left in `obj`'s tables -/
theorem no_stale_after_unuse {s : State} (h : Inv s) {obj pkg : Pk} (hne : obj ≠ pkg) (n : Nm) :
    (unuse s obj pkg).v.cell obj n ≠ some pkg ∧ (unuse s obj pkg).f.cell obj n ≠ some pkg := by
  have h' := inv_unuse h obj pkg
  have hu : pkg ∉ (unuse s obj pkg).uses obj := by
    unfold unuse
    rw [if_neg hne]
    simp only [updList, if_true]
    intro hh
    exact ((h.graph.nodupUses obj).mem_erase_iff.1 hh).1 rfl
  exact ⟨fun hc => hu (h'.vars.snd' hc (Ne.symm hne)).1, fun hc => hu (h'.funs.snd' hc (Ne.symm hne)).1⟩

example : (unuse (run State.init sampleOps) 0 1).v.get 0 0 = none ∧
    (run State.init sampleOps).v.get 0 0 = some 15 := ⟨by decide, by decide⟩

/-- after `(unexport n q)` no other package's table still holds `q`'s `n` -/
theorem no_stale_after_unexport {s : State} (h : Inv s) (q : Pk) (n : Nm) {p : Pk} (hp : p ≠ q) :
    (unexport s q n).v.cell p n ≠ some q ∧ (unexport s q n).f.cell p n ≠ some q := by
  have h' := inv_unexport h q n
  have hv : (unexport s q n).v.ownExp q n = false := by
    unfold unexport; dsimp only
    split
    · exact Tab.unexportOwn_ownExp_false _ _ _ _ _
    · rename_i hc; exact Tab.ownExp_false_of_cell hc
  have hf : (unexport s q n).f.ownExp q n = false := by
    unfold unexport; dsimp only
    split
    · exact Tab.unexportOwn_ownExp_false _ _ _ _ _
    · rename_i hc; exact Tab.ownExp_false_of_cell hc
  constructor
  · intro hc
    have := (h'.vars.snd' hc (Ne.symm hp)).2
    rw [hv] at this; exact Bool.noConfusion this
  · intro hc
    have := (h'.funs.snd' hc (Ne.symm hp)).2
    rw [hf] at this; exact Bool.noConfusion this

example : (unexport (run State.init sampleOps) 1 0).f.find 0 0 = none ∧
    (run State.init sampleOps).f.find 0 0 = some 12 := ⟨by decide, by decide⟩

/-- after `(unintern 'n 'q)` / `makunbound` removed `q`'s own variable, no table anywhere holds it -/
theorem no_stale_after_unintern {s : State} (h : Inv s) (q : Pk) (n : Nm)
    (hown : s.v.cell q n = some q) (p : Pk) :
    (unintern s q n).v.cell p n ≠ some q :=
  (inv_unintern h q n).vars.no_dangling (Tab.remove_own_defs_none s.uses s.users hown) p

/-- after a package removed its own variable with `makunbound`, no table anywhere holds it -/
theorem no_stale_after_makunbound {s : State} (h : Inv s) (n : Nm)
    (hown : s.v.cell s.cur n = some s.cur) (p : Pk) :
    (makunbound s n).v.cell p n ≠ some s.cur :=
  no_stale_after_unintern h s.cur n hown p

/-- after a package removed its own function with `fmakunbound`, no table anywhere holds it -/
theorem no_stale_after_fmakunbound {s : State} (h : Inv s) (n : Nm)
    (hown : s.f.cell s.cur n = some s.cur) (p : Pk) :
    (fmakunbound s n).f.cell p n ≠ some s.cur :=
  (inv_fmakunbound h n).funs.no_dangling (Tab.remove_own_defs_none s.uses s.users hown) p

example : (inPackage (run State.init sampleOps) 1).f.cell 1 0 = some 1 ∧
    (fmakunbound (inPackage (run State.init sampleOps) 1) 0).f.find 0 0 = none := ⟨by decide, by decide⟩

/-- a definition of another package that is visible is exported, and its package is used directly -/
theorem no_private_visible {s : State} (h : Inv s) {p q : Pk} {n : Nm} (hq : q ≠ p) :
    (s.v.cell p n = some q → q ∈ s.uses p ∧ ∃ d, s.v.defs q n = some d ∧ d.exp = true) ∧
    (s.f.cell p n = some q → q ∈ s.uses p ∧ ∃ d, s.f.defs q n = some d ∧ d.exp = true) := by
  constructor
  · intro hc
    obtain ⟨h1, h2⟩ := h.vars.snd' hc hq
    exact ⟨h1, ((Tab.ownExp_iff _ _ _).1 h2).2⟩
  · intro hc
    obtain ⟨h1, h2⟩ := h.funs.snd' hc hq
    exact ⟨h1, ((Tab.ownExp_iff _ _ _).1 h2).2⟩

example : (run State.init sampleOps).v.cell 0 0 = some 1 ∧ (run State.init sampleOps).v.get 0 1 = none :=
  ⟨by decide, by decide⟩

/-- `q:n` reaches the exported and `q::n` any definition of package `q`, from every package;
    a name `q` neither defines nor inherits is unbound / undefined under both forms -/
theorem qualified_access {s : State} (h : Inv s) (c q : Pk) (n : Nm) (priv : Bool) :
    (∀ d, s.v.defs q n = some d → s.v.qualVar q n priv = resolveQual s.v.defs q n priv) ∧
    (∀ d, s.f.defs q n = some d → c ≠ q → s.f.qualFun c q n priv = resolveQual s.f.defs q n priv) ∧
    (s.v.cell q n = none → s.v.qualVar q n priv = none) ∧
    (s.f.cell q n = none → s.f.qualFun c q n priv = none) := by
  refine ⟨?_, ?_, ?_, ?_⟩
  · intro d hd
    have hc : s.v.cell q n = some q := (h.vars.own q n).2 (by rw [hd]; rfl)
    unfold Tab.qualVar resolveQual
    rw [Tab.entry_of hc hd, hd]
  · intro d hd hcq
    have hc : s.f.cell q n = some q := (h.funs.own q n).2 (by rw [hd]; rfl)
    unfold Tab.qualFun resolveQual
    rw [Tab.entry_of hc hd, hd]
    dsimp only
    by_cases h1 : priv = true <;> by_cases h2 : d.exp = true <;> simp [h1, h2, hcq]
  · intro hc
    unfold Tab.qualVar; rw [Tab.entry_none_of_cell hc]
  · intro hc
    unfold Tab.qualFun; rw [Tab.entry_none_of_cell hc]

example : (run State.init sampleOps).v.qualVar 1 1 false = none ∧
    (run State.init sampleOps).v.qualVar 1 1 true = some 13 ∧
    (run State.init sampleOps).f.qualFun 2 1 0 false = some 12 := ⟨by decide, by decide, by decide⟩

/-! ## extension: status of a name (`find-symbol`), qualified writes, statements over all histories -/

/-- one table: the status read off the table (own exported / own internal / inherited / absent)
    equals the status recomputed from the graph — for ANY graph, name conflicts included (the
    status does not depend on which exporter was chosen) -/
theorem TInv.status_eq_graph {uses : Pk → List Pk} {t : Tab} (h : TInv uses t) (c : Pk) (n : Nm) :
    t.status c n = graphStatus t.defs uses c n := by
  unfold Tab.status graphStatus
  cases he : t.entry c n with
  | none =>
    obtain ⟨h1, h2⟩ := h.entry_complete he
    rw [h1, h2]; rfl
  | some od =>
    obtain ⟨o, d⟩ := od
    rcases h.entry_sound he with ⟨e, hd⟩ | ⟨hd, hmem, hdo, hexp⟩
    · subst e; rw [hd]; simp
    · have hne : o ≠ c := by
        intro e; subst e; rw [hd] at hdo; cases hdo
      rw [hd]
      have hemp : (candidates t.defs uses c n).isEmpty = false := by
        cases hl : candidates t.defs uses c n with
        | nil => rw [hl] at hmem; cases hmem
        | cons a l => rfl
      simp [hne, hemp]

/-- **`find-symbol` agrees with the graph**: `:external` / `:internal` exactly for an own exported /
    unexported definition, `:inherited` exactly when there is no own definition and a directly
    used package exports the name, nothing otherwise (variable first, then function) -/
theorem findSymbol_eq_graph {s : State} (h : Inv s) (c : Pk) (n : Nm) :
    findSymbol s c n = symbolStatus s.v.defs s.f.defs s.uses c n := by
  unfold findSymbol symbolStatus
  rw [← h.vars.status_eq_graph c n, ← h.funs.status_eq_graph c n]
  cases hv : s.v.entry c n with
  | some od =>
    obtain ⟨o, d⟩ := od
    have hne : s.v.status c n ≠ 0 := by
      unfold Tab.status; rw [hv]; dsimp only
      by_cases h1 : o = c <;> by_cases h2 : d.exp = true <;> simp [h1, h2]
    simp [hne]
  | none =>
    have hz : s.v.status c n = 0 := by unfold Tab.status; rw [hv]
    rw [hz]
    simp only [if_true]
    cases hf : s.f.entry c n with
    | none => unfold Tab.status; rw [hf]
    | some od =>
      obtain ⟨o, d⟩ := od
      dsimp only
      rcases h.funs.entry_sound hf with ⟨e, _⟩ | ⟨_, _, _, hexp⟩
      · simp [e]
      · simp [hexp]

example : findSymbol (run State.init sampleOps) 0 0 = 3 ∧ findSymbol (run State.init sampleOps) 1 0 = 2 ∧
    findSymbol (run State.init sampleOps) 1 1 = 1 ∧ findSymbol (run State.init sampleOps) 2 1 = 0 ∧
    findSymbol (run State.init sampleOps) 0 1 = 1 := by decide

/-- **after any history** (all operations of `Op`, the qualified forms, `intern`/`unintern` and the
    Go-level `Define` included) and for any graph: what a package sees is its own definition or —
    when it has none — an exported definition of a package it uses directly -/
theorem lookup_sound_run (ops : List Op) {c o : Pk} {n : Nm} {d : Def} :
    let s := run State.init ops
    (s.v.entry c n = some (o, d) →
      (o = c ∧ s.v.defs c n = some d) ∨
      (s.v.defs c n = none ∧ o ∈ candidates s.v.defs s.uses c n ∧ s.v.defs o n = some d ∧ d.exp = true)) ∧
    (s.f.entry c n = some (o, d) →
      (o = c ∧ s.f.defs c n = some d) ∨
      (s.f.defs c n = none ∧ o ∈ candidates s.f.defs s.uses c n ∧ s.f.defs o n = some d ∧ d.exp = true)) :=
  lookup_sound (inv_run ops)

/-- after any history: a name a package does not see has no own definition and no directly used
    package exports it -/
theorem lookup_complete_run (ops : List Op) {c : Pk} {n : Nm} :
    let s := run State.init ops
    (s.v.entry c n = none → s.v.defs c n = none ∧ candidates s.v.defs s.uses c n = []) ∧
    (s.f.entry c n = none → s.f.defs c n = none ∧ candidates s.f.defs s.uses c n = []) :=
  lookup_complete (inv_run ops)

/-- after any history `find-symbol` reports the status the graph determines -/
theorem findSymbol_run (ops : List Op) (c : Pk) (n : Nm) :
    let s := run State.init ops
    findSymbol s c n = symbolStatus s.v.defs s.f.defs s.uses c n :=
  findSymbol_eq_graph (inv_run ops) c n

/-- **writes through qualified names**: `(setq q::n v)` reaches any variable `q` owns and
    `(setq q:n v)` an exported one (afterwards `q::n` reads `v`); an unexported variable is out
    of reach of `q:n` (the state is unchanged) -/
theorem qsetq_reaches {s : State} (h : Inv s) (q : Pk) (n : Nm) (priv : Bool) (v : Nat) {d : Def}
    (hd : s.v.defs q n = some d) :
    ((d.exp = true ∨ priv = true) → (qsetq s q n priv v).v.qualVar q n true = some v) ∧
    (d.exp = false → priv = false → qsetq s q n priv v = s) := by
  have hc : s.v.cell q n = some q := (h.vars.own q n).2 (by rw [hd]; rfl)
  have he : s.v.entry q n = some (q, d) := Tab.entry_of hc hd
  constructor
  · intro hp
    unfold qsetq
    rw [he]
    dsimp only
    rw [if_pos hp]
    dsimp only
    unfold Tab.assign
    rw [he]
    dsimp only
    have hc' : (s.v.setDef q n (some { d with val := some v })).cell q n = some q := hc
    have hd' : (s.v.setDef q n (some { d with val := some v })).defs q n = some { d with val := some v } := by
      simp [Tab.setDef]
    unfold Tab.qualVar
    rw [Tab.entry_of hc' hd']
    simp
  · intro h1 h2
    unfold qsetq
    rw [he]
    simp [h1, h2]

example : (qsetq (run State.init sampleOps) 1 1 true 99).v.qualVar 1 1 true = some 99 ∧
    (qsetq (run State.init sampleOps) 1 1 false 99).v.qualVar 1 1 true = some 13 := ⟨by decide, by decide⟩

/-- `(defvar q::n v)` never changes a bound variable of `q`, whoever is current -/
theorem qdefvar_keeps_bound {s : State} (h : Inv s) (q : Pk) (n : Nm) (priv : Bool) (v : Option Nat)
    {d : Def} (hd : s.v.defs q n = some d) (hb : d.val.isSome = true) :
    qdefvar s q n priv v = s := by
  have hc : s.v.cell q n = some q := (h.vars.own q n).2 (by rw [hd]; rfl)
  have he : s.v.entry q n = some (q, d) := Tab.entry_of hc hd
  unfold qdefvar
  rw [he]
  simp [hb]

end SlipVerif.Pkg
