import SlipVerif.Model.Pkg
namespace SlipVerif.Pkg
theorem placeholder_c13 : True := trivial
end SlipVerif.Pkg
