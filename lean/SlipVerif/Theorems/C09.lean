import SlipVerif.Lemmas.Totality
/- C09 — no Lisp-level input can fault the host (level `other`).

   What an executable model can carry of this property: the three table/arithmetic driven cores
   modelled in Model/Totality.lean cannot reach their fault outcomes, for ALL inputs, provided the
   tables satisfy the decidable conditions `ReaderOK` / `FormatOK` (decided for the tables of the
   current sources in Theorems/GenC09.lean). Everything else of the property's quantifier (the
   built-in cross product) is exploration by the harness. -/
namespace SlipVerif.Theorems.C09
open SlipVerif.Totality

/-! ## (1) reader step -/

/-- Reader step totality: for every mode and every byte the table entry exists (`r.mode[b]`
    cannot index out of range) and either names an action that has a clause in the switch, or is
    the "no action" entry that the default clause turns into a parse error. -/
theorem reader_step_total (t : ReaderTables) (h : ReaderOK t = true) (m b : Nat)
    (hm : m < t.tables.length) (hb : b < 256) :
    ∃ c, lookup t m b = some c ∧
      ((t.handled.contains c = true ∧ classify t m b = .action c) ∨
       (t.handled.contains c = false ∧ c = dot ∧ classify t m b = .parseError)) := by
  obtain ⟨htot, -, -, -⟩ := readerOK_parts h
  obtain ⟨c, hl, hc⟩ := lookup_of_tablesTotal htot hm hb
  refine ⟨c, hl, ?_⟩
  cases hh : t.handled.contains c with
  | true => left; exact ⟨rfl, by simp only [classify, hl, hh, ↓reduceIte]⟩
  | false =>
    right
    rcases hc with hc | hc
    · rw [hh] at hc; cases hc
    · exact ⟨rfl, hc, by simp only [classify, hl, hh, Bool.false_eq_true, ↓reduceIte]⟩

/-- … in particular the step never indexes a table out of range. -/
theorem reader_step_no_index_fault (t : ReaderTables) (h : ReaderOK t = true) (m b : Nat)
    (hm : m < t.tables.length) (hb : b < 256) : classify t m b ≠ .indexFault := by
  obtain ⟨c, -, hc | hc⟩ := reader_step_total t h m b hm hb
  · rw [hc.2]; intro h'; cases h'
  · rw [hc.2.2]; intro h'; cases h'

/-- One byte, from any valid state: no fault outcome (no index out of range, and the `goto Retry`
    chain ends after one retry — two dispatches suffice), and every successor state is valid. -/
theorem reader_byte_safe (t : ReaderTables) (h : ReaderOK t = true) (s : RState)
    (hs : validState t s = true) (b : Nat) (hb : b < 256) :
    ∀ r ∈ stepByte t s b, r.isFault = false ∧ ∀ s', r = .st s' → validState t s' = true := by
  obtain ⟨htot, htv, hretry, -⟩ := readerOK_parts h
  have tv := targetsValid_parts htv
  have hsm : s.mode < t.tables.length := by
    simp only [validState, Bool.and_eq_true] at hs
    exact validMode_lt.mp hs.1
  simp only [retryOK, Bool.and_eq_true, List.all_eq_true, List.mem_range] at hretry
  obtain ⟨hr1, hr2⟩ := hretry
  -- successors of an action are valid states
  have hsucc : ∀ c, ∀ m ∈ succModes t s c,
      validState t ({ mode := m, nextMode := succNext t s c } : RState) = true := by
    intro c m hm
    simp only [validState, Bool.and_eq_true]
    exact ⟨succModes_valid tv hs c m hm, succNext_valid tv hs c⟩
  intro r hr
  simp only [stepByte, stepFuel] at hr
  obtain ⟨c, hl, hc | hc⟩ := reader_step_total t h s.mode b hsm hb
  · -- an action
    rw [hc.2] at hr
    simp only at hr
    split at hr
    · -- a retry clause: it ends in the initial mode, whose entry for b is not a retry action
      rename_i hcr
      have hcmem : c ∈ t.retry := List.contains_iff_mem.mp hcr
      have hun : t.uncond.lookup c = some t.initial := by
        have := hr1 c hcmem
        simpa using this
      have hsm' : succModes t s c = [t.initial] := by
        simp only [succModes, hun]
        rw [resolve_of_valid tv s tv.initial]
      rw [hsm'] at hr
      simp only [List.map_cons, List.map_nil, List.flatMap_cons, List.flatMap_nil, List.append_nil] at hr
      have hinit : t.initial < t.tables.length := validMode_lt.mp tv.initial
      have hs' : validState t ({ mode := t.initial, nextMode := succNext t s c } : RState) = true :=
        hsucc c t.initial (by rw [hsm']; simp)
      obtain ⟨c', hl', hc'⟩ := reader_step_total t h t.initial b hinit hb
      have hnr : t.retry.contains c' = false := by
        have := hr2 b hb
        simp only [hl'] at this
        simpa using this
      have tv' := tv
      rcases hc' with hc' | hc'
      · rw [hc'.2] at hr
        simp only [hnr] at hr
        simp only [Bool.false_eq_true, ↓reduceIte, List.mem_map] at hr
        obtain ⟨st, ⟨m, hm, rfl⟩, rfl⟩ := hr
        refine ⟨rfl, ?_⟩
        intro s' hs''
        cases hs''
        simp only [validState, Bool.and_eq_true]
        exact ⟨succModes_valid tv' hs' c' m hm, succNext_valid tv' hs' c'⟩
      · rw [hc'.2.2] at hr
        simp only [List.mem_singleton] at hr
        subst hr
        exact ⟨rfl, by intro s' h'; cases h'⟩
    · -- an ordinary clause
      simp only [List.mem_map] at hr
      obtain ⟨st, ⟨m, hm, rfl⟩, rfl⟩ := hr
      refine ⟨rfl, ?_⟩
      intro s' hs''
      cases hs''
      exact hsucc c m hm
  · -- no action: the default clause raises
    rw [hc.2.2] at hr
    simp only [List.mem_singleton] at hr
    subst hr
    exact ⟨rfl, by intro s' h'; cases h'⟩

/-- The `goto Retry` relation is well founded: the second dispatch of a byte is never a retry
    action (the linear bound: at most two table look-ups per input byte). -/
theorem reader_retry_at_most_once (t : ReaderTables) (h : ReaderOK t = true) (s : RState)
    (hs : validState t s = true) (b : Nat) (hb : b < 256) : R.retryLoop ∉ stepByte t s b := by
  intro hmem
  have := (reader_byte_safe t h s hs b hb _ hmem).1
  simp [R.isFault] at this

theorem runFrom_safe (t : ReaderTables) (h : ReaderOK t = true) :
    ∀ (bytes : List Nat) (states : List RState) (pos : Nat),
      (∀ b ∈ bytes, b < 256) → (∀ s ∈ states, validState t s = true) →
      (∃ p, runFrom t states pos bytes = .mustRaise p) ∨
      (∃ sts, runFrom t states pos bytes = .mayPass sts ∧ ∀ s ∈ sts, validState t s = true) := by
  intro bytes
  induction bytes with
  | nil =>
    intro states pos _ hst
    right
    exact ⟨states, rfl, hst⟩
  | cons b rest ih =>
    intro states pos hb hst
    simp only [runFrom]
    have hb256 : b < 256 := hb b (by simp)
    have hsafe : ∀ r ∈ states.flatMap (fun s => stepByte t s b),
        r.isFault = false ∧ ∀ s', r = .st s' → validState t s' = true := by
      intro r hr
      obtain ⟨s, hs, hrs⟩ := List.mem_flatMap.mp hr
      exact reader_byte_safe t h s (hst s hs) b hb256 r hrs
    have hany : (states.flatMap (fun s => stepByte t s b)).any R.isFault = false := by
      rw [List.any_eq_false]
      intro r hr
      simp [(hsafe r hr).1]
    simp only [hany, Bool.false_eq_true, ↓reduceIte]
    split
    · left; exact ⟨pos, rfl⟩
    · apply ih
      · intro x hx; exact hb x (List.mem_cons_of_mem _ hx)
      · intro s hs
        have hs' := mem_dedup hs
        obtain ⟨r, hr, hrs⟩ := List.mem_filterMap.mp hs'
        cases r with
        | st s0 =>
          simp only [R.state?, Option.some.injEq] at hrs
          subst hrs
          exact (hsafe _ hr).2 _ rfl
        | raise => simp [R.state?] at hrs
        | indexFault => simp [R.state?] at hrs
        | retryLoop => simp [R.state?] at hrs

/-- Reader totality for every byte string: the run ends either in a parse error at a definite
    position or at the end of the input in valid states — never in the fault outcome (an index out
    of range in `r.mode[b]` or a `goto Retry` loop). -/
theorem reader_run_total (t : ReaderTables) (h : ReaderOK t = true) (bytes : List Nat)
    (hb : ∀ b ∈ bytes, b < 256) :
    (∃ p, run t bytes = .mustRaise p) ∨
    (∃ sts, run t bytes = .mayPass sts ∧ ∀ s ∈ sts, validState t s = true) := by
  obtain ⟨-, htv, -, -⟩ := readerOK_parts h
  have tv := targetsValid_parts htv
  apply runFrom_safe t h bytes _ 0 hb
  intro s hs
  simp only [List.mem_singleton] at hs
  subst hs
  simp only [initState, validState, Bool.and_eq_true]
  exact ⟨tv.initial, tv.initial⟩

/-! ## (2) format directive scanner -/

/-- A byte after `~` that is neither a directive nor a modifier / parameter character raises
    (the default clause calls invalidDir). -/
theorem format_unknown_raises (f : FormatTables) (fuel b : Nat) (rest : List Nat)
    (hd : f.directives.contains b = false) (hc : f.continues.contains b = false) :
    scanDir f (fuel + 1) (b :: rest) = .raise := by
  simp only [scanDir, hd, hc, Bool.false_eq_true, ↓reduceIte]

theorem scanDir_total (f : FormatTables) (h : FormatOK f = true) :
    ∀ (fuel : Nat) (s : List Nat), s.length < fuel → (∀ b ∈ s, b < 256) →
      scanDir f fuel s ≠ .outOfFuel ∧ scanDir f fuel s ≠ .indexFault := by
  simp only [FormatOK, Bool.and_eq_true, decide_eq_true_eq, List.all_eq_true] at h
  obtain ⟨⟨⟨hlen, hback⟩, -⟩, -⟩ := h
  intro fuel
  induction fuel with
  | zero => intro s hs; omega
  | succ fuel ih =>
    intro s hs hb
    cases s with
    | nil => simp [scanDir]
    | cons b rest =>
      simp only [scanDir]
      have hrest : ∀ x ∈ rest, x < 256 := fun x hx => hb x (List.mem_cons_of_mem _ hx)
      have hlr : rest.length < fuel := by simp only [List.length_cons] at hs; omega
      cases hd : f.directives.contains b with
      | true =>
        simp only [↓reduceIte]
        exact ⟨nofun, nofun⟩
      | false =>
        simp only [Bool.false_eq_true, ↓reduceIte]
        cases hc : f.continues.contains b with
        | false =>
          simp only [Bool.false_eq_true, ↓reduceIte]
          exact ⟨nofun, nofun⟩
        | true =>
          simp only [↓reduceIte]
          cases hq : f.quotes.contains b with
          | true =>
            simp only [↓reduceIte]
            cases rest with
            | nil => exact ⟨nofun, nofun⟩
            | cons c rest' =>
              simp only
              split
              · apply ih
                · simp only [List.length_cons] at hlr; omega
                · intro x hx; exact hrest x (List.mem_cons_of_mem _ hx)
              · exact ⟨nofun, nofun⟩
          | false =>
          simp only [Bool.false_eq_true, ↓reduceIte]
          cases hp : f.params.contains b with
          | false =>
            simp only [Bool.false_eq_true, ↓reduceIte]
            exact ih rest hlr hrest
          | true =>
            simp only [↓reduceIte]
            cases hsb : f.stepBack.contains b with
            | true =>
              -- the byte itself belongs to the parameter and must be consumed
              simp only [↓reduceIte]
              have hbm : b ∈ f.stepBack := List.contains_iff_mem.mp hsb
              have hb2 := hback b hbm
              simp only [Bool.not_eq_true', beq_eq_false_iff_ne, ne_eq] at hb2
              have hall : ∀ x ∈ b :: rest, x < f.scanMap.length :=
                fun x hx => Nat.lt_of_lt_of_le (hb x hx) hlen
              obtain ⟨l', hl'⟩ := skipParam_some f (b :: rest) hall
              rw [hl']
              obtain ⟨pre, hpre⟩ := skipParam_consumes f b rest l' hb2.2 hl'
              apply ih
              · have : l'.length ≤ rest.length := by rw [hpre]; simp
                omega
              · intro x hx; exact hrest x (by rw [hpre]; exact List.mem_append_right _ hx)
            | false =>
              simp only [Bool.false_eq_true, ↓reduceIte]
              have hall : ∀ x ∈ rest, x < f.scanMap.length :=
                fun x hx => Nat.lt_of_lt_of_le (hrest x hx) hlen
              obtain ⟨l', hl'⟩ := skipParam_some f rest hall
              rw [hl']
              obtain ⟨pre, hpre⟩ := skipParam_suffix f rest l' hl'
              apply ih
              · have : l'.length ≤ rest.length := by rw [hpre]; simp
                omega
              · intro x hx; exact hrest x (by rw [hpre]; exact List.mem_append_right _ hx)

/-- Format directive scanner totality: for every text after a `~` the scanner ends — in a
    directive dispatch, in the raising default clause, or at the end of the control string — using
    at most one loop iteration per byte (fuel length+1 is never exhausted) and without indexing
    dirScanMap out of range. -/
theorem format_scan_total (f : FormatTables) (h : FormatOK f = true) (s : List Nat)
    (hb : ∀ b ∈ s, b < 256) :
    scanDirective f s ≠ .outOfFuel ∧ scanDirective f s ≠ .indexFault :=
  scanDir_total f h (s.length + 1) s (Nat.lt_succ_self _) hb

/-- A parameter scan stops at every directive byte: what readParam leaves starts at or before
    the first directive byte, so a parameter can never swallow a directive. -/
theorem format_param_stops_at_directive (f : FormatTables) (h : FormatOK f = true)
    (pre rest l' : List Nat) (d : Nat) (hd : f.directives.contains d = true)
    (hs : skipParam f (pre ++ d :: rest) = some l') : rest.length + 1 ≤ l'.length := by
  simp only [FormatOK, Bool.and_eq_true, decide_eq_true_eq, List.all_eq_true] at h
  obtain ⟨⟨-, hdir⟩, -⟩ := h
  have hdx : f.scanMap[d]? = some xMark := by
    have := hdir d (List.contains_iff_mem.mp hd)
    simpa using this
  induction pre generalizing l' with
  | nil =>
    simp only [List.nil_append, skipParam, hdx] at hs
    simp only [↓reduceIte, Option.some.injEq] at hs
    subst hs
    simp
  | cons p ps ih =>
    simp only [List.cons_append, skipParam] at hs
    split at hs
    · cases hs
    · split at hs
      · cases hs
        simp
        omega
      · exact ih l' hs

/-! ## (3) digit grouping of `~:D` -/

/-- Every slice `out[lo:hi]` the grouping loop of dirInt takes is in range (lo ≤ hi ≤ len(out)),
    for every length, sign and comma interval (even 0, which dirInt rejects beforehand). -/
theorem group_slices_in_range (n signLen commaint : Nat) :
    ∀ p ∈ groupCuts n signLen commaint, p.1 ≤ p.2 ∧ p.2 ≤ n := by
  unfold groupCuts
  exact groupLoop_in_range n commaint n 0 _ (Nat.zero_le _) (Nat.zero_le _)

/-- The slices partition the digits: their lengths add up to len(out) (nothing is dropped or
    repeated). -/
theorem group_slices_cover (n signLen commaint : Nat) :
    ((groupCuts n signLen commaint).map (fun p => p.2 - p.1)).sum = n := by
  unfold groupCuts
  simpa using groupLoop_sum n commaint n 0 _ (Nat.zero_le _) (Nat.zero_le _)

/-- The loop ends by its own condition, not by the model's fuel: for a comma interval ≥ 1 (what
    dirInt enforces) any fuel of at least len(out) gives the same slices. -/
theorem group_loop_terminates (n signLen commaint fuel : Nat) (hc : 1 ≤ commaint) (hf : n ≤ fuel) :
    groupLoop n commaint fuel 0 (n - (n - 1 - signLen) / commaint * commaint) =
      groupCuts n signLen commaint := by
  unfold groupCuts
  exact groupLoop_fuel n commaint hc fuel n 0 _ (by omega) (by omega)

/-! ### non-vacuity: a small table instance satisfies the hypotheses -/

/-- two modes: 0 = value (a space is skipped 'a', '(' is an action of its own, everything else
    starts a token 't'), 1 = token (a space ends it with the retry action 'T'); '.' for byte 255 -/
def tinyReader : ReaderTables :=
  { tables := [((List.replicate 255 116).set 40 40).set 32 97 ++ [46], (List.replicate 255 116).set 32 84 ++ [46]]
    handled := [40, 84, 97, 116]
    retry := [84]
    targets := [(84, [0]), (116, [1])]
    uncond := [(84, 0), (116, 1)]
    nextAssign := []
    initial := 0
    defaultRaises := true }

example : ReaderOK tinyReader = true := by decide +kernel
example : run tinyReader [97, 32, 40] = .mayPass [{ mode := 0, nextMode := 0 }] := by decide +kernel
example : run tinyReader [97, 255] = .mustRaise 1 := by decide +kernel

def tinyFormat : FormatTables :=
  { scanMap := (List.replicate 256 46).set 65 120 |>.set 58 120
    directives := [65]
    continues := [58, 48, 49]
    params := [48, 49]
    stepBack := [48, 49]
    quotes := []
    defaultRaises := true }

example : FormatOK tinyFormat = true := by decide +kernel
example : scanDirective tinyFormat [49, 48, 58, 65, 66] = .directive 65 [66] := by decide +kernel
example : scanDirective tinyFormat [58, 66] = .raise := by decide +kernel
example : groupCuts 7 0 3 = [(0, 1), (1, 4), (4, 7)] := by decide
example : groupCuts 5 1 3 = [(0, 2), (2, 5)] := by decide

end SlipVerif.Theorems.C09
