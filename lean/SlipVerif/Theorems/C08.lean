import SlipVerif.Model.Compile
import SlipVerif.Lemmas.Compile
/-
  C08 — meaning does not depend on definition order, compilation, or re-evaluation.

  Property theorems about SlipVerif.Model.Compile (the model the correspondence harness
  harness/cmd/vh/c08.go runs against the implementation).

  `eval`/`run`      : what a program means (direct evaluation over a name-keyed function table).
  `evalCode`/`runC` : the mechanism slip uses (call sites pointing at shared cells, placeholders for
                      unknown names, in-place patching by `defun`, in-place caching of resolved
                      call sites).
-/
namespace SlipVerif.Compile

/-! ## compile_correct -/

/-- **compile_correct.** Compile `e` at any moment (store `σ` standing for table `Φ₀`): unknown
    names get placeholders and every call keeps its arguments.  In *every* later store `σ'` that
    keeps the cells of the names known after compilation and stands for a function table `Φ` — in
    particular after the placeholders were patched by later `defun`s — the code object evaluates
    exactly like the source form evaluated directly in `Φ`. So a forward call passes its
    arguments: the right-hand side is the direct evaluation of the call *with* its arguments. -/
theorem compile_correct {Φ : FunTable} {G : Env} {σ σ' : Store} (e : Expr)
    (hext : Ext (compile σ e).2 σ') (hrel : Rel Φ σ') (hvrel : VRel G σ') (fuel : Nat) (env : Env) :
    evalCode σ' fuel env (compile σ e).1 = eval Φ G fuel env e :=
  evalCode_eq_eval hrel hvrel fuel env ((compile_compiled σ e).mono hext)

/-- the hypotheses of `compile_correct` are satisfiable by the forward-reference situation:
    `(g x)` is compiled while `g` is unknown, then `g` is defined -/
example : ∃ (Φ : FunTable) (σ σ' : Store) (e : Expr),
    Ext (compile σ e).2 σ' ∧ Rel Φ σ' ∧ VRel [] σ' ∧ eval Φ [] 10 [] e = .val (.int 8) := by
  refine ⟨[("g", .simple ["x"] (.prim .add (.var "x") (.const 1)))], Store.empty,
    define (compile Store.empty (.call "g" [.const 7])).2 "g" (.simple ["x"] (.prim .add (.var "x") (.const 1))),
    .call "g" [.const 7], define_ext _ _ _, define_rel (compile_rel rel_empty _) (compile_vrel vrel_empty _) _ _,
    define_vrel (compile_rel rel_empty _) (compile_vrel vrel_empty _) _ _, by decide⟩

/-- Histories: the compiling top-level loop computes what the direct one computes, whatever the
    interleaving of definitions, redefinitions, evaluations and re-evaluations of kept code
    objects. (`hist`/`objs`: the expression forms evaluated so far and their code objects.) -/
theorem runC_eq_run (fuel : Nat) :
    ∀ (forms : List Form) {Φ : FunTable} {G : Env} {σ : Store} {hist : List Expr} {objs : List Code},
      Rel Φ σ → VRel G σ → CompiledList σ hist objs → runC fuel σ objs forms = run fuel Φ G hist forms := by
  intro forms
  induction forms with
  | nil => intros; simp [runC, run]
  | cons form rest ih =>
    intro Φ G σ hist objs hrel hvrel hobjs
    cases form with
    | defun f binds lam =>
      have hb : evalBinds (fun e => evalCode σ fuel [] (embed e)) binds
          = evalBinds (fun e => eval Φ G fuel [] e) binds := by
        have := evalBinds_congr (ev₁ := fun e => evalCode σ fuel [] (embed e)) (ev₂ := fun e => eval Φ G fuel [] e) id
          (fun a => evalCode_eq_eval hrel hvrel fuel [] (embed_compiled σ a)) binds
        simpa using this
      simp only [runC, run, hb]
      split
      · next env _ =>
        rw [ih (define_rel hrel hvrel (norm f) { lam with env := env })
          (define_vrel hrel hvrel (norm f) { lam with env := env })
          (hobjs.mono (define_ext σ (norm f) { lam with env := env }))]
      · rw [ih hrel hvrel hobjs]
    | undef f =>
      simp only [runC, run]
      rw [ih (undefine_rel hrel (norm f)) (undefine_vrel hvrel (norm f)) (hobjs.mono (undefine_ext σ (norm f)))]
    | setvar k x e =>
      simp only [runC, run, gval_eq hvrel]
      split
      · rw [ih hrel hvrel hobjs]
      · have hrel' := compile_rel hrel e
        have hvrel' := compile_vrel hvrel e
        have hc := compile_compiled σ e
        have hobjs' := hobjs.mono (compile_ext σ e)
        rw [evalCode_eq_eval hrel' hvrel' fuel [] hc]
        split
        · next v _ =>
          rw [ih (setVar_rel hrel' x v) (setVar_vrel hvrel' x v) (hobjs'.mono (setVar_ext _ x v))]
        · rw [ih hrel' hvrel' hobjs']
    | expr e =>
      simp only [runC, run]
      have hrel' := compile_rel hrel e
      have hvrel' := compile_vrel hvrel e
      have hc := compile_compiled σ e
      rw [evalCode_eq_eval hrel' hvrel' fuel [] hc]
      have hobjs' : CompiledList (compile σ e).2 (hist ++ [e]) (objs ++ [cacheAll (compile σ e).2 (compile σ e).1]) :=
        compiledList_append (hobjs.mono (compile_ext σ e)) (.cons (cacheAll_compiled _ hc) .nil)
      rw [ih hrel' hvrel' hobjs']
    | again j =>
      simp only [runC, run]
      rcases compiledList_getElem? hobjs j with ⟨h₁, h₂⟩ | ⟨e, c, h₁, h₂, hc⟩
      · simp only [h₁, h₂]
        rw [ih hrel hvrel hobjs]
      · simp only [h₁, h₂]
        rw [evalCode_eq_eval hrel hvrel fuel [] hc, ih hrel hvrel (compiledList_set hobjs h₁ (cacheAll_compiled σ hc))]

/-- a whole program run through compilation from the empty store means what it means directly -/
theorem runC_correct (fuel : Nat) (forms : List Form) :
    runC fuel Store.empty [] forms = run fuel [] [] [] forms :=
  runC_eq_run fuel forms rel_empty vrel_empty .nil

/-- the pre-survey example: `(defun g (x) (h x 2)) (defun h (a b) (+ a b)) (g 1)` is 3 —
    the forward call `(h x 2)` passes both arguments -/
example : runC 10 Store.empty []
    [.defun "g" [] (.simple ["x"] (.call "h" [.var "x", .const 2])),
     .defun "h" [] (.simple ["a", "b"] (.prim .add (.var "a") (.var "b"))),
     .expr (.call "g" [.const 1])]
    = [.val (.sym "g"), .val (.sym "h"), .val (.int 3)] := by decide

/-! ## defs_commute -/

/-- the definitions as top-level forms -/
def defForm (d : String × Lam) : Form := .defun d.1 [] d.2

/-- **defs_commute.** For definitions with distinct names, every permutation of the definitions
    followed by the same body (any forms: calls, mutual recursion through the definitions,
    re-evaluations, even redefinitions) gives the same results for the body. -/
theorem defs_commute (fuel : Nat) (Φ₀ : FunTable) (G : Env) (hist : List Expr)
    (defs defs' : List (String × Lam)) (body : List Form)
    (hperm : defs.Perm defs') (hnd : (defs.map (fun d => norm d.1)).Nodup) :
    (run fuel Φ₀ G hist (defs'.map defForm ++ body)).drop defs'.length
      = (run fuel Φ₀ G hist (defs.map defForm ++ body)).drop defs.length := by
  rw [run_defs_aux fuel defForm (fun _ => rfl), run_defs_aux fuel defForm (fun _ => rfl)]
  rw [List.drop_left' (by simp), List.drop_left' (by simp)]
  exact run_congr fuel (fun f => (lookup_defs_perm hperm hnd Φ₀ f).symm) G hist body

/-- the same through compilation: whatever order the definitions are compiled in — callers before
    callees (placeholders, patched later) or after — the body results are the same -/
theorem defs_commute_compiled (fuel : Nat) (defs defs' : List (String × Lam)) (body : List Form)
    (hperm : defs.Perm defs') (hnd : (defs.map (fun d => norm d.1)).Nodup) :
    (runC fuel Store.empty [] (defs'.map defForm ++ body)).drop defs'.length
      = (runC fuel Store.empty [] (defs.map defForm ++ body)).drop defs.length := by
  rw [runC_correct, runC_correct]
  exact defs_commute fuel [] [] [] defs defs' body hperm hnd

/-- mutual recursion, callers first or callees first:
    `(defun ev (n) (if (< n 1) 1 (od (- n 1))))  (defun od (n) (if (< n 1) 0 (ev (- n 1))))` -/
example :
    let ev : String × Lam := ("ev", .simple ["n"] (.ite (.prim .lt (.var "n") (.const 1)) (.const 1) (.call "od" [.prim .sub (.var "n") (.const 1)])))
    let od : String × Lam := ("od", .simple ["n"] (.ite (.prim .lt (.var "n") (.const 1)) (.const 0) (.call "ev" [.prim .sub (.var "n") (.const 1)])))
    [ev, od].Perm [od, ev] ∧ ([ev, od].map (fun d => norm d.1)).Nodup ∧
    runC 40 Store.empty [] ([od, ev].map defForm ++ [.expr (.call "ev" [.const 5])])
      = [.val (.sym "od"), .val (.sym "ev"), .val (.int 0)] := by
  refine ⟨List.Perm.swap _ _ _, by decide, by decide⟩

/-! ## reeval_stable -/

/-- **reeval_stable (code objects).** Any two code objects for the same form — e.g. the object
    before and after any amount of in-place caching — evaluated in any two stores that stand for
    the same function table (equal stores in particular, or the store before and after placeholders
    were added by other compilations) give the same result. Evaluation itself returns only the
    outcome: `evalCode` cannot change the code object or the store. -/
theorem reeval_stable {Φ : FunTable} {G : Env} {σ₁ σ₂ : Store} {e : Expr} {c₁ c₂ : Code}
    (h₁ : Rel Φ σ₁) (hv₁ : VRel G σ₁) (h₂ : Rel Φ σ₂) (hv₂ : VRel G σ₂) (hc₁ : Compiled σ₁ e c₁) (hc₂ : Compiled σ₂ e c₂)
    (fuel : Nat) (env : Env) :
    evalCode σ₁ fuel env c₁ = evalCode σ₂ fuel env c₂ := by
  rw [evalCode_eq_eval h₁ hv₁ fuel env hc₁, evalCode_eq_eval h₂ hv₂ fuel env hc₂]

/-- the in-place caching of resolved call sites never changes a result -/
theorem caching_invisible {Φ : FunTable} {G : Env} {σ : Store} {e : Expr} {c : Code}
    (h : Rel Φ σ) (hv : VRel G σ) (hc : Compiled σ e c) (fuel : Nat) (env : Env) :
    evalCode σ fuel env (cacheAll σ c) = evalCode σ fuel env c :=
  reeval_stable h hv h hv (cacheAll_compiled σ hc) hc fuel env

/-- caching really rewrites: the `late` call site of `(g 7)` becomes a pointer to the cell of `g` -/
example : ∃ (Φ : FunTable) (σ : Store) (e : Expr) (c : Code),
    Rel Φ σ ∧ Compiled σ e c ∧ c = .call .late "g" [.const 7] ∧ cacheAll σ c = .call (.cell 0) "g" [.const 7] := by
  refine ⟨[("g", .simple ["x"] (.var "x"))], define Store.empty "g" (.simple ["x"] (.var "x")), .call "g" [.const 7],
    embed (.call "g" [.const 7]), define_rel rel_empty vrel_empty _ _, embed_compiled _ _, rfl, rfl⟩

/-- **reeval_stable (histories).** Evaluating the kept code object of the `j`-th form `k` more times
    gives `k` times the result of evaluating the form directly in the current table — the first
    and the hundredth evaluation agree, although each evaluation rewrites the object. -/
theorem reeval_k {Φ : FunTable} {G : Env} {σ : Store} {hist : List Expr} {objs : List Code}
    (hrel : Rel Φ σ) (hvrel : VRel G σ) (hobjs : CompiledList σ hist objs) {j : Nat} {e : Expr} (hj : hist[j]? = some e)
    (fuel k : Nat) :
    runC fuel σ objs (List.replicate k (.again j)) = List.replicate k (eval Φ G fuel [] e) := by
  rw [runC_eq_run fuel _ hrel hvrel hobjs]
  induction k with
  | zero => simp [run]
  | succ k ih => simp only [List.replicate_succ, run, hj, ih]

/-! ## redefinition_takes_effect -/

/-- **redefinition_takes_effect.** A code object compiled before `(defun f …)` — a caller of
    `f` compiled against the old body or against the placeholder — evaluated after the
    (re)definition behaves like its source form in the table where `f` has the new definition
    (parameters, `&optional`/`&key` defaults, `&aux` init forms and body). -/
theorem redefinition_takes_effect {Φ : FunTable} {G : Env} {σ : Store} {e : Expr} {c : Code}
    (hrel : Rel Φ σ) (hvrel : VRel G σ) (hc : Compiled σ e c) (f : String) (lam : Lam)
    (fuel : Nat) (env : Env) :
    evalCode (define σ f lam) fuel env c = eval ((f, lam) :: Φ) G fuel env e :=
  evalCode_eq_eval (define_rel hrel hvrel f lam) (define_vrel hrel hvrel f lam) fuel env (hc.mono (define_ext σ f lam))

/-- …and so on for every further redefinition: `g` compiled between the first and the second
    redefinition of `f` sees the third body
    `(defun f () 1) (defun g () (f)) (defun f () 2) (defun h () (f)) (defun f () 3) (g) (h) (f)` -/
example : runC 10 Store.empty []
    [.defun "f" [] (.simple [] (.const 1)), .defun "g" [] (.simple [] (.call "f" [])), .defun "f" [] (.simple [] (.const 2)),
     .defun "h" [] (.simple [] (.call "f" [])), .defun "f" [] (.simple [] (.const 3)),
     .expr (.call "g" []), .expr (.call "h" []), .expr (.call "f" []), .again 1]
    = [.val (.sym "f"), .val (.sym "g"), .val (.sym "f"), .val (.sym "h"), .val (.sym "f"),
       .val (.int 3), .val (.int 3), .val (.int 3), .val (.int 3)] := by decide

/-! ## fmakunbound -/

/-- **undefine_takes_effect.** After `(fmakunbound 'f)` a code object compiled while `f` was defined
    behaves like its source form in the table without `f`: its calls of `f` fail as an undefined
    function exactly like calls evaluated from the list form — the removed body is not kept alive
    by compiled callers. -/
theorem undefine_takes_effect {Φ : FunTable} {G : Env} {σ : Store} {e : Expr} {c : Code}
    (hrel : Rel Φ σ) (hvrel : VRel G σ) (hc : Compiled σ e c) (f : String) (fuel : Nat) (env : Env) :
    evalCode (undefine σ f) fuel env c = eval (undefTable Φ f) G fuel env e :=
  evalCode_eq_eval (undefine_rel hrel f) (undefine_vrel hvrel f) fuel env (hc.mono (undefine_ext σ f))

/-- **undefine_then_define.** `fmakunbound` followed (after any compilations in between, store `σ'`)
    by a new `defun`: callers compiled before the `fmakunbound`, between the two, or afterwards all
    use the new definition. -/
theorem undefine_then_define {Φ : FunTable} {G : Env} {σ σ' : Store} {e : Expr} {c : Code}
    (hc : Compiled σ e c) (f : String)
    (hext : Ext (undefine σ f) σ') (hrel' : Rel (undefTable Φ f) σ') (hvrel' : VRel G σ') (lam : Lam)
    (fuel : Nat) (env : Env) :
    evalCode (define σ' f lam) fuel env c = eval ((f, lam) :: undefTable Φ f) G fuel env e :=
  evalCode_eq_eval (define_rel hrel' hvrel' f lam) (define_vrel hrel' hvrel' f lam) fuel env
    (((hc.mono (undefine_ext σ f)).mono hext).mono (define_ext σ' f lam))

/-- `(defun f (x) (+ x 1)) (defun before (x) (f x)) (fmakunbound 'f) (before 10) (defun between (x) (f x))
    (defun f (x) (* x 2)) (defun after (x) (f x)) (before 10) (between 10) (after 10)` -/
example : runC 10 Store.empty []
    [.defun "f" [] (.simple ["x"] (.prim .add (.var "x") (.const 1))),
     .defun "before" [] (.simple ["x"] (.call "f" [.var "x"])),
     .undef "f",
     .expr (.call "before" [.const 10]),
     .defun "between" [] (.simple ["x"] (.call "f" [.var "x"])),
     .defun "f" [] (.simple ["x"] (.prim .mul (.var "x") (.const 2))),
     .defun "after" [] (.simple ["x"] (.call "f" [.var "x"])),
     .expr (.call "before" [.const 10]), .expr (.call "between" [.const 10]), .expr (.call "after" [.const 10])]
    = [.val (.sym "f"), .val (.sym "before"), .val (.sym "f"), .err (.undefinedFunction "f"),
       .val (.sym "between"), .val (.sym "f"), .val (.sym "after"),
       .val (.int 20), .val (.int 20), .val (.int 20)] := by decide

/-! ## lambda lists: defaults and `&aux` init forms on the first and on every later call -/

/-- `(defun f (x &optional (o 5) &key (k 7) &aux (y (+ x o)) (z (* y k))) (- z x))`
    called three times with different arguments and once more from the kept code object:
    the `&aux` init forms are evaluated on every call -/
example : runC 10 Store.empty []
    [.defun "f" [] ⟨⟨["x"], [("o", .int 5)], [("k", .int 7)]⟩,
        [("y", .prim .add (.var "x") (.var "o")), ("z", .prim .mul (.var "y") (.var "k"))],
        .prim .sub (.var "z") (.var "x"), []⟩,
     .expr (.call "f" [.const 1]), .expr (.call "f" [.const 2, .const 3]),
     .expr (.call "f" [.const 2, .const 3, .kw "k", .const 10]), .again 0, .again 2]
    = [.val (.sym "f"), .val (.int 41), .val (.int 33), .val (.int 48), .val (.int 41), .val (.int 48)] := by decide

/-! ## symbol spelling and closures -/

/-- **call_spelling.** Function names are symbols: two spellings with the same normal form (letter
    case, package prefix) are the same call — in the direct semantics… -/
theorem call_spelling {f f' : String} (h : norm f = norm f') (Φ : FunTable) (G : Env) (fuel : Nat) (env : Env)
    (args : List Expr) :
    eval Φ G fuel env (.call f args) = eval Φ G fuel env (.call f' args) := by
  cases fuel with
  | zero => simp [eval]
  | succ n => simp only [eval, h]

/-- …and in the mechanism: a call site compiled under one spelling — possibly before the function
    exists, so that only a placeholder is registered — reaches the definition made under any other
    spelling (the placeholder is registered, patched and removed under the normal form). -/
theorem call_spelling_compiled {f f' : String} (h : norm f = norm f') {Φ : FunTable} {G : Env} {σ σ' : Store}
    (args : List Expr) (hext : Ext (compile σ (.call f args)).2 σ') (hrel : Rel Φ σ') (hvrel : VRel G σ')
    (fuel : Nat) (env : Env) :
    evalCode σ' fuel env (compile σ (.call f args)).1 = eval Φ G fuel env (.call f' args) := by
  rw [compile_correct _ hext hrel hvrel, call_spelling h]

/-- `(defun gd (x) (Fd x 1)) (defun fd (a b) (+ a b)) (gd 1) (CL-USER::GD 2) (fmakunbound 'FD) (gd 1)` -/
example : runC 10 Store.empty []
    [.defun "gd" [] (.simple ["x"] (.call "Fd" [.var "x", .const 1])),
     .defun "fd" [] (.simple ["a", "b"] (.prim .add (.var "a") (.var "b"))),
     .expr (.call "gd" [.const 1]), .expr (.call "CL-USER::GD" [.const 2]), .undef "FD", .again 0]
    = [.val (.sym "gd"), .val (.sym "fd"), .val (.int 2), .val (.int 3), .val (.sym "fd"),
       .err (.undefinedFunction "fd")] := by decide

/-- closures: a `defun` inside a `let` captures the bindings; a caller compiled before (placeholder),
    and the same caller after the function was defined again inside another `let`, see the captured
    values of the *current* definition:
    `(defun g (x) (f x)) (let ((c 5)) (defun f (x) (+ x c))) (g 1) (let ((c (g 2))) (defun f (x) (* x c))) (g 2)` -/
example : runC 10 Store.empty []
    [.defun "g" [] (.simple ["x"] (.call "f" [.var "x"])),
     .defun "f" [("c", .const 5)] (.simple ["x"] (.prim .add (.var "x") (.var "c"))),
     .expr (.call "g" [.const 1]),
     .defun "f" [("c", .call "g" [.const 2])] (.simple ["x"] (.prim .mul (.var "x") (.var "c"))),
     .expr (.call "g" [.const 2]), .again 0]
    = [.val (.sym "g"), .val (.sym "f"), .val (.int 6), .val (.sym "f"), .val (.int 14), .val (.int 7)] := by decide

/-- **closure_redefinition.** `redefinition_takes_effect` includes the captured environment: after a
    `defun` evaluated inside a `let` (captured values `cenv`) every earlier code object runs the new
    body *with the new captured values*. -/
theorem closure_redefinition {Φ : FunTable} {G : Env} {σ : Store} {e : Expr} {c : Code}
    (hrel : Rel Φ σ) (hvrel : VRel G σ) (hc : Compiled σ e c) (f : String) (lam : Lam) (cenv : List (String × Val))
    (fuel : Nat) (env : Env) :
    evalCode (define σ (norm f) { lam with env := cenv }) fuel env c
      = eval ((norm f, { lam with env := cenv }) :: Φ) G fuel env e :=
  redefinition_takes_effect hrel hvrel hc (norm f) { lam with env := cenv } fuel env

/-! ## global variables: definition order, assignments seen by compiled functions, closures -/

/-- **assignment_takes_effect.** A code object compiled before a `defvar` / `defparameter` / `setq` of `x`
    — in particular a caller of a function whose body was compiled into a pointer to the still unbound
    cell of `x` — evaluated afterwards behaves like its source form with `x` having the new value: the
    value is stored in the cell the name (and every compiled pointer) already has. -/
theorem assignment_takes_effect {Φ : FunTable} {G : Env} {σ : Store} {e : Expr} {c : Code}
    (hrel : Rel Φ σ) (hvrel : VRel G σ) (hc : Compiled σ e c) (x : String) (v : Val) (fuel : Nat) (env : Env) :
    evalCode (setVar σ x v) fuel env c = eval Φ ((x, v) :: G) fuel env e :=
  evalCode_eq_eval (setVar_rel hrel x v) (setVar_vrel hvrel x v) fuel env (hc.mono (setVar_ext σ x v))

/-- **variable_definition_order.** A function definition and a variable definition (constant init form)
    commute: whatever follows — calls, assignments, redefinitions, re-evaluations — gives the same
    results whether the function or the variable came first… -/
theorem variable_definition_order (fuel : Nat) (Φ : FunTable) (G : Env) (hist : List Expr)
    (f : String) (lam : Lam) (k : SetKind) (x : String) (n : Int) (body : List Form) :
    (run fuel Φ G hist (.defun f [] lam :: .setvar k x (.const n) :: body)).drop 2
      = (run fuel Φ G hist (.setvar k x (.const n) :: .defun f [] lam :: body)).drop 2 := by
  have hconst : ∀ Φ', eval Φ' G fuel [] (.const n) = eval Φ G fuel [] (.const n) := by
    intro Φ'; cases fuel <;> simp [eval]
  simp only [run, evalBinds, hconst]
  split
  · simp [run, evalBinds]
  · split <;> simp [run, evalBinds]

/-- …also through the mechanism, where the function compiled first may hold a pointer to the unbound
    cell that the later variable definition fills -/
theorem variable_definition_order_compiled (fuel : Nat)
    (f : String) (lam : Lam) (k : SetKind) (x : String) (n : Int) (body : List Form) :
    (runC fuel Store.empty [] (.defun f [] lam :: .setvar k x (.const n) :: body)).drop 2
      = (runC fuel Store.empty [] (.setvar k x (.const n) :: .defun f [] lam :: body)).drop 2 := by
  rw [runC_correct, runC_correct]
  exact variable_definition_order fuel [] [] [] f lam k x n body

/-- the reader compiled before the variable exists holds a pointer to the unbound cell (`gref 0`), a second
    reader compiled afterwards looks the name up; both see the `defvar` and every later assignment:
    `(defun get () count) (defun get2 () count) (get) (defvar count 0) (get) (setq count 1) (get) (get2)
     (defvar count 7) (defparameter count (+ count 1)) (get) (get2)` -/
example :
    (define Store.empty "get" (.simple [] (.var "count"))).cells = [some ⟨⟨[], [], []⟩, [], .gref 0 "count", []⟩] ∧
    runC 10 Store.empty []
      [.defun "get" [] (.simple [] (.var "count")), .defun "get2" [] (.simple [] (.var "count")),
       .expr (.call "get" []), .setvar .defvar "count" (.const 0), .again 0,
       .setvar .setq "count" (.const 1), .again 0, .expr (.call "get2" []),
       .setvar .defvar "count" (.const 7), .setvar .defparameter "count" (.prim .add (.var "count") (.const 1)),
       .again 0, .again 1]
    = [.val (.sym "get"), .val (.sym "get2"), .err (.unbound "count"), .val (.sym "count"), .val (.int 0),
       .val (.int 1), .val (.int 1), .val (.int 1), .val (.sym "count"), .val (.sym "count"),
       .val (.int 2), .val (.int 2)] := ⟨rfl, by decide⟩

/-- a definition inside a `let` that binds the name of a global variable sees the captured value; the
    same name defined again at top level sees the global one — so do the callers compiled in between:
    `(defvar n 100) (let ((n 5)) (defun f () (+ n 0))) (defun g () (f)) (f) (g) (defun f () (+ n 1)) (f) (g)` -/
example : runC 10 Store.empty []
    [.setvar .defvar "n" (.const 100),
     .defun "f" [("n", .const 5)] (.simple [] (.prim .add (.var "n") (.const 0))),
     .defun "g" [] (.simple [] (.call "f" [])), .expr (.call "f" []), .expr (.call "g" []),
     .defun "f" [] (.simple [] (.prim .add (.var "n") (.const 1))), .again 0, .again 1]
    = [.val (.sym "n"), .val (.sym "f"), .val (.sym "g"), .val (.int 5), .val (.int 5),
       .val (.sym "f"), .val (.int 101), .val (.int 101)] := by decide

/-! ## what the hypotheses exclude: the two defects of the unchanged tree, in model terms

`Compiled` demands that a call site keeps its arguments and that a resolved site points to *the* cell of
its name; the following code objects violate it and evaluate differently from their source. -/

/-- defect 1 (placeholder creator ignores `args`): the code object `(h)` for the source `(h 1 2)` -/
example :
    let Φ : FunTable := [("h", .simple ["a", "b"] (.prim .add (.var "a") (.var "b")))]
    let σ := define Store.empty "h" (.simple ["a", "b"] (.prim .add (.var "a") (.var "b")))
    evalCode σ 10 [] (.call (.cell 0) "h" []) = .err (.arity "h") ∧
    eval Φ [] 10 [] (.call "h" [.const 1, .const 2]) = .val (.int 3) := by decide

/-- defect 2 (a call site pointing to a cell that is no longer the name's cell, as produced when a
    redefinition re-points the name instead of sharing the cell): stale body -/
example :
    let Φ : FunTable := [("f", .simple [] (.const 2))]
    let σ : Store := ⟨[("f", 1)], [some ⟨⟨[], [], []⟩, [], .const 1, []⟩, some ⟨⟨[], [], []⟩, [], .const 2, []⟩], [], []⟩
    evalCode σ 10 [] (.call (.cell 0) "f" []) = .val (.int 1) ∧
    eval Φ [] 10 [] (.call "f" []) = .val (.int 2) ∧ ¬ RefOK σ (.cell 0) "f" := by
  refine ⟨by decide, by decide, ?_⟩
  intro h
  have := h 0 rfl
  simp [Store.cellOf, List.lookup] at this

/-- a variable whose name was re-pointed to a new cell by an assignment (instead of storing into the cell
    it had): the compiled pointer keeps reading the old cell — excluded by `BodyOK` / `VRel` -/
example :
    let lam : Lam := .simple [] (.var "count")
    let σ : Store := ⟨[("get", 0)], [some ⟨⟨[], [], []⟩, [], .gref 0 "count", []⟩], [("count", 1)], [some (.int 0), some (.int 1)]⟩
    evalCode σ 10 [] (.call (.cell 0) "get" []) = .val (.int 0) ∧
    eval [("get", lam)] [("count", .int 1)] 10 [] (.call "get" []) = .val (.int 1) ∧
    ¬ BodyOK σ lam (.gref 0 "count") := by
  refine ⟨by decide, by decide, ?_⟩
  intro h
  cases h with
  | plain hc => cases hc
  | gref _ _ hx => simp [Store.vcellOf, List.lookup] at hx

end SlipVerif.Compile
