import SlipVerif.Model.History
import SlipVerif.Lemmas.History
import SlipVerif.Lemmas.HistoryExt
/-
  C20 — REPL history, stash and settings persist intact across restarts and crashes.
  Property theorems about SlipVerif.Model.History (the model the correspondence harness
  harness/cmd/vh/c20.go runs against pkg/repl). Helper lemmas: Lemmas/History.lean.

  Crash model (the property's own): one file-system call = one atomic step; a `write` is all or
  nothing; a process death keeps every completed step (no page-cache reordering).
  `fixed` is the repaired code (compaction opens `<file>.tmp` with O_TRUNC, repo-patches/C20/fix-0001);
  `asFound` the code as found (O_APPEND|O_CREATE only).
-/
namespace SlipVerif.History

/-! ## the tab/newline encoding -/

/-- `encode_decode`: the history file written for any list of forms that satisfy the guard
`storable` (no tab/newline inside a line, first line starts and last line ends with a non-blank)
loads as exactly those forms. -/
theorem encode_decode (fs : List Form) (h : ∀ f ∈ fs, storable f = true) :
    decode (fs.flatMap tabAppend) = fs :=
  decode_encodeAll fs h

example : storable ["(defun f (x)".toList, "  (+ x 1))".toList] = true := by decide
example : decode ([["(defun f (x)".toList, "  (+ x 1))".toList], ["λ é".toList]].flatMap tabAppend)
    = [["(defun f (x)".toList, "  (+ x 1))".toList], ["λ é".toList]] := by decide

/-- the guard is exactly what the real encoding imposes: a single form is read back unchanged iff it
is `storable`. The excluded forms are run on the implementation by the harness (sweep `form-class`). -/
theorem encode_decode_guard_exact (f : Form) : decode (tabAppend f) = [f] ↔ storable f = true := by
  constructor
  · intro h
    exact decode_storable (tabAppend f) f (by rw [h]; simp)
  · exact decode_tabAppend f

/-- whatever the history file holds, `Load` only ever returns storable forms (so a loaded history can
be rewritten by `Clear` and compaction without change) -/
theorem load_returns_storable (fs : FS) : ∀ f ∈ load fs, storable f = true := load_storable fs

/-- what the guard excludes (examples of each class; the model mirrors what `Load` does to them) -/
example : decode (tabAppend ["  (a)".toList]) = [["(a)".toList]] := by decide          -- leading blanks trimmed
example : decode (tabAppend ["a\tb".toList]) = [["a".toList, "b".toList]] := by decide  -- tab splits the line
example : decode (tabAppend ["a".toList, []]) = [["a".toList]] := by decide             -- trailing empty line lost
example : decode (tabAppend [" ".toList]) = [] := by decide                        -- a no-break space alone is lost

/-! ## one operation, every crash point -/

/-- `crash_consistent`: in any state where memory and files agree (`Inv`) — whatever a stale
`history.tmp` and the stash hold — for every operation and every step index `k`, a restart after a
process death at step `k` loads the old history, the new history, or (only for `Clear`, which
truncates and rewrites in place) a prefix of the new history. The history file stays well formed. -/
theorem crash_consistent (w : World) (hinv : Inv w) (o : Op) (ho : OpOK o) (k : Nat) :
    let after := (perform fixed w.mem o).1.forms
    let L := load (crashAt k (perform fixed w.mem o).2 w.fs)
    (L = w.mem.forms ∨ L = after ∨ (isClear o ∧ L <+: after)) ∧
    Inv (boot w.mem.limit (crashAt k (perform fixed w.mem o).2 w.fs)) := by
  obtain ⟨ht, hl, _⟩ := op_crash w hinv o ho k
  exact ⟨hl, boot_inv _ _ ht⟩

/-- a non-trivial state satisfying the hypotheses: two forms in memory and on disk, a stale tmp -/
example : Inv ⟨⟨[["a".toList], ["b".toList, " c".toList]], 2⟩,
    ⟨some "a\nb\t c\n".toList, some "zz\n".toList, none⟩⟩ :=
  ⟨fun c hc => by
      injection hc with hc; subst hc
      exact Or.inr ⟨"a\nb\t c".toList, by decide⟩,
   by decide⟩

/-- `Add` is atomic: old or new, nothing in between (the compaction writes a temporary file and
renames it; the append is one write). -/
theorem add_crash_atomic (w : World) (hinv : Inv w) (f : Form) (hf : isEmptyForm f = true ∨ storable f = true)
    (k : Nat) :
    load (crashAt k (perform fixed w.mem (.add f)).2 w.fs) = w.mem.forms ∨
    load (crashAt k (perform fixed w.mem (.add f)).2 w.fs) = (perform fixed w.mem (.add f)).1.forms := by
  obtain ⟨_, hl, _⟩ := op_crash w hinv (.add f) hf k
  rcases hl with h | h | ⟨hc, _⟩
  · exact Or.inl h
  · exact Or.inr h
  · exact absurd hc (by simp [isClear])

/-- whatever survives a crash was in the history before or is the form being added, in the same
order: nothing torn, duplicated or resurrected (in particular nothing from a stale `history.tmp`). -/
theorem crash_never_resurrects (w : World) (hinv : Inv w) (o : Op) (ho : OpOK o) (k limit : Nat) :
    ((w.apply fixed (.crash o k limit)).mem.forms).Sublist (w.mem.forms ++ newForms o) :=
  event_sublist w hinv (.crash o k limit) ho

/-- the obligation on how the temporary file is opened: with the code as found (O_APPEND without
O_TRUNC) a stale `history.tmp` comes back — here `z`, which was never in this history, is loaded
after a *completed* compaction. -/
theorem stale_tmp_resurrects_as_found :
    ∃ (w : World) (f : Form), Inv w ∧ storable f = true ∧
      ["z".toList] ∈ load (runSteps w.fs (perform asFound w.mem (.add f)).2) ∧
      ["z".toList] ∉ w.mem.forms ++ [f] :=
  ⟨⟨⟨[["a".toList]], 2⟩, ⟨some "a\n".toList, some "z\n".toList, none⟩⟩, ["b".toList],
    ⟨fun c hc => by injection hc with hc; subst hc; exact Or.inr ⟨"a".toList, by decide⟩, by decide⟩,
    by decide, by decide, by decide⟩

/-! ## sessions: any sequence of operations, process deaths and restarts -/

/-- `restart_equals_memory`: start from any directory whose history file is absent or newline
terminated (and any stale tmp), run any sequence of `Add`/`Clear`/`SetLimit`, process deaths at any
step of any operation, and restarts: what a restart would load is exactly what is in memory. -/
theorem restart_equals_memory (fs0 : FS) (limit : Nat) (h0 : TermFS fs0) (evs : List Event)
    (hok : ∀ e ∈ evs, EventOK e) :
    load ((boot limit fs0).run fixed evs).fs = ((boot limit fs0).run fixed evs).mem.forms :=
  (run_inv evs (boot limit fs0) (boot_inv limit fs0 h0) hok).sync

example : TermFS ⟨some "a\nb\t c\n".toList, some "junk".toList, none⟩ :=
  fun c hc => by injection hc with hc; subst hc; exact Or.inr ⟨"a\nb\t c".toList, by decide⟩
example : EventOK (.crash (.add ["(x".toList, " y)".toList]) 3 10) := Or.inr (by decide)

/-- the history is a sublist of what was loaded at the start followed by the forms entered since, in
that order: every entry was entered, none more often than entered, none out of order. -/
theorem history_is_what_was_entered (fs0 : FS) (limit : Nat) (h0 : TermFS fs0) (evs : List Event)
    (hok : ∀ e ∈ evs, EventOK e) :
    (((boot limit fs0).run fixed evs).mem.forms).Sublist (load fs0 ++ entered evs) :=
  run_sublist evs (boot limit fs0) (boot_inv limit fs0 h0) hok

/-- an effective `Add` leaves the most recent forms in order ending with the new one, at most
`max = limit + limit/10` of them; an ineffective one (limit 0, empty form, repetition of the last
form) changes nothing. -/
theorem add_keeps_most_recent (cfg : Cfg) (h : Hist) (f : Form) :
    (perform cfg h (.add f)).1.forms = h.forms ∨
    ((perform cfg h (.add f)).1.forms <:+ h.forms ++ [f] ∧
     (perform cfg h (.add f)).1.forms.getLast? = some f ∧
     (perform cfg h (.add f)).1.forms.length ≤ h.max ∧
     h.forms.getLast? ≠ some f) :=
  perform_add cfg h f

/-- bounded by the configured limit: if the history starts with at most `B` forms and every limit in
effect satisfies `limit + limit/10 ≤ B`, the history never has more than `B` forms. -/
theorem length_bounded (B : Nat) (fs0 : FS) (limit : Nat) (h0 : TermFS fs0) (evs : List Event)
    (hok : ∀ e ∈ evs, EventOK e) (hstart : (load fs0).length ≤ B) (hlim0 : limit + limit / 10 ≤ B)
    (hlims : LimitsBelow B evs) :
    ((boot limit fs0).run fixed evs).mem.forms.length ≤ B :=
  (run_bounded B evs (boot limit fs0) (boot_inv limit fs0 h0) ⟨hstart, hlim0⟩ hok hlims).len

example : LimitsBelow 11 [.op (.setLimit 10), .op (.add ["a".toList]), .restart 10] := by
  intro e he n hn
  simp at he
  rcases he with rfl | rfl | rfl <;> simp [limitOf] at hn <;> subst hn <;> decide

/-- no adjacent duplicates: starting without them, and with clears that cut at an end of the history
(`(clear-history)`, `:start n` alone, `:end n` alone — a clear of a middle range can make two equal
forms neighbours), no form is ever immediately followed by an equal one. -/
theorem no_adjacent_duplicates (fs0 : FS) (limit : Nat) (h0 : TermFS fs0) (evs : List Event)
    (hok : ∀ e ∈ evs, EventOK e) (hstart : NoAdj (load fs0)) (hout : ∀ e ∈ evs, OuterClears e) :
    NoAdj ((boot limit fs0).run fixed evs).mem.forms :=
  run_noAdj evs (boot limit fs0) (boot_inv limit fs0 h0) hstart hok hout

/-! ## extension round: acknowledged entries, any number of process deaths -/

/-- `acknowledged_not_lost`: a form that is in the history with `d` forms after it stays there through
ANY sequence of Adds, process deaths at any file-system step of any Add, restarts and limit settings
(every limit in effect = `L`, no `Clear`), as long as fewer than `L` forms were entered after it:
`d + (number of Adds, completed or interrupted) < L`. It is also in what the next start loads. However
many process deaths happen, only entries older than the `L` most recent can disappear. -/
theorem acknowledged_not_lost (L : Nat) (w : World) (hinv : Inv w) (hlim : w.mem.limit = L) (g : Form) (d : Nat)
    (hg : Within g d w.mem.forms) (evs : List Event) (hok : ∀ e ∈ evs, EventOK e)
    (hnc : ∀ e ∈ evs, NoClear e) (hL : ∀ e ∈ evs, LimitIs L e) (hcount : d + addCount evs < L) :
    g ∈ (w.run fixed evs).mem.forms ∧ g ∈ load (w.run fixed evs).fs := by
  have h := (run_within L g evs w d hinv hlim hok hnc hL hg hcount).mem
  exact ⟨h, by rw [(run_inv evs w hinv hok).sync]; exact h⟩

/-- `acknowledged_add_survives`: once `Add f` has returned (limit `L > 0`, `f` inside the guard), `f` is
in the history and in every later restart's load until `L` further forms have been handed to `Add` —
whatever process deaths (at any step, any number, also during compactions) and restarts happen in
between. -/
theorem acknowledged_add_survives (w : World) (hinv : Inv w) (f : Form) (hf : storable f = true)
    (hpos : 0 < w.mem.limit) (evs : List Event) (hok : ∀ e ∈ evs, EventOK e)
    (hnc : ∀ e ∈ evs, NoClear e) (hL : ∀ e ∈ evs, LimitIs w.mem.limit e) (hcount : addCount evs < w.mem.limit) :
    f ∈ ((w.apply fixed (.op (.add f))).run fixed evs).mem.forms ∧
    f ∈ load ((w.apply fixed (.op (.add f))).run fixed evs).fs := by
  have hop : OpOK (.add f) := Or.inr hf
  have hinv' := op_inv w hinv (.add f) hop
  have hlim' : (w.apply fixed (.op (.add f))).mem.limit = w.mem.limit := perform_limit fixed w.mem (.add f)
  have hlast : (w.apply fixed (.op (.add f))).mem.forms.getLast? = some f :=
    perform_add_last fixed w.mem f (by omega) (storable_not_empty f hf)
  exact acknowledged_not_lost w.mem.limit _ hinv' hlim' f 0 (within_last _ f hlast) evs hok hnc hL (by omega)

example : NoClear (.crash (.add ["(x)".toList]) 2 10) ∧ LimitIs 10 (.crash (.add ["(x)".toList]) 2 10) ∧
    addCount [.crash (.add ["(x)".toList]) 2 10, .restart 10, .op (.add ["(y)".toList])] = 2 := by
  refine ⟨trivial, rfl, by decide⟩

/-! ## extension round: the call pattern of every operation -/

/-- `steps_follow_call_patterns`: the file-system steps of every history operation are none at all or
follow one of three call patterns — compaction `open tmp (truncating), write*, close, rename tmp → file`,
append `open file (appending), write, close`, rewrite `open file (truncating), write*, close` — and every
stash operation the append or the rewrite pattern. Theorems/GenC20.lean states that the call paths
extracted from History.Add/Clear and Stash.Add/Clear are exactly these patterns, so the crash
theorems above talk about the call order the code really has (close before rename included). -/
theorem steps_follow_call_patterns (h : Hist) (forms : List Form) :
    (∀ o, (perform fixed h o).2 = [] ∨ (match o with
      | .add _ => matchPat compactPat (perform fixed h o).2 = true ∨ matchPat appendPat (perform fixed h o).2 = true
      | .clear _ _ => matchPat rewritePat (perform fixed h o).2 = true
      | .setLimit _ => False)) ∧
    (∀ o, (sperform forms o).2 = [] ∨ (match o with
      | .add _ => matchPat appendPat (sperform forms o).2 = true
      | .clear _ _ => matchPat rewritePat (sperform forms o).2 = true)) :=
  ⟨perform_pattern h, sperform_pattern forms⟩

/-- the patterns discriminate: a rename before the close, or a compaction written in place, is not
the compaction pattern -/
example : matchPat compactPat [.openTrunc .tmp, .write .tmp [], .rename .tmp .hist, .close .tmp] = false := by decide
example : matchPat compactPat [.openTrunc .hist, .write .hist [], .close .hist] = false := by decide
example : matchPat compactPat (perform fixed ⟨[["a".toList]], 1⟩ (.add ["b".toList])).2 = true := by decide

/-! ## the precondition on the initial directory is decidable -/

/-- `TermFS` (the hypothesis of the session theorems) says the history file is absent, empty or ends
with a newline — what every whole write of `tabAppend` lines produces, and checkable on a directory. -/
theorem termFS_iff (fs : FS) :
    TermFS fs ↔ (match fs.hist with
      | none => True
      | some c => c = [] ∨ c.getLast? = some NL) := by
  unfold TermFS Terminated
  cases h : fs.hist with
  | none => simp
  | some c =>
    simp only [Option.some.injEq, forall_eq']
    constructor
    · rintro (h | ⟨x, rfl⟩)
      · exact Or.inl h
      · exact Or.inr (by simp)
    · rintro (h | h)
      · exact Or.inl h
      · right
        rcases List.eq_nil_or_concat c with rfl | ⟨pre, b, rfl⟩
        · simp at h
        · simp at h; subst h; exact ⟨pre, by simp⟩

/-! ## stash -/

/-- the stash file written by `Stash.Add` for forms satisfying the guard `stashOK` (non-empty lines
without tab/newline, the whole form a complete text and no proper prefix of its lines complete — the
loader finds form boundaries with the Lisp reader) loads as exactly those forms. -/
theorem stash_encode_decode (fs : List Form) (h : ∀ f ∈ fs, stashOK f = true) :
    decodeExpanded (fs.flatMap stashEnc) = some fs := by
  have key : ∀ (fs : List Form) (out : List Form), (∀ f ∈ fs, stashOK f = true) →
      leLines ⟨[], [], out⟩ (lines (fs.flatMap stashEnc)) = some ⟨[], [], out ++ fs⟩ := by
    intro fs
    induction fs with
    | nil => intro out _; simp [lines, leLines]
    | cons f fs ih =>
      intro out h
      simp only [List.flatMap_cons]
      rw [leLines_stashEnc f (h f (by simp)) out, ih (out ++ [f]) (fun g hg => h g (by simp [hg]))]
      simp
  simp [decodeExpanded, key fs [] h]

example : stashOK ["(defun f (x)".toList, "  (+ x 1))".toList] = true := by decide

/-- `stash_crash_consistent`: when memory and stash file agree (`SInv`: the file decodes to the forms
in memory, all inside the guard), for every `Stash.Add`/`Stash.Clear` and every step index `k`, a
restart after a process death at step `k` loads the old stash, the new stash or (Clear only) a prefix
of the new one, and memory and file agree again. -/
theorem stash_crash_consistent (forms : List Form) (fs : FS) (hinv : SInv forms fs) (o : SOp) (ho : SOpOK o)
    (k : Nat) :
    ∃ L, loadStash (crashAt k (sperform forms o).2 fs) = some L ∧
      (L = forms ∨ L = (sperform forms o).1 ∨ (isSClear o ∧ L <+: (sperform forms o).1)) ∧
      SInv L (crashAt k (sperform forms o).2 fs) := by
  obtain ⟨L, hL, hrel, _⟩ := stash_op_crash forms fs hinv o ho k
  exact ⟨L, hL.load, hrel, hL⟩

example : SInv [["(a".toList, " b)".toList]] ⟨none, none, some "(a\n b)\n\n".toList⟩ :=
  ⟨by decide, decodes_stashEnc ["(a".toList, " b)".toList] (by decide)⟩

/-- `stash_restart_equals_memory`: after any sequence of `Stash.Add`/`Stash.Clear` (forms inside the
guard or empty) on a stash file that agreed with memory at the start, `LoadExpanded` returns exactly
the forms in memory. -/
theorem stash_restart_equals_memory (forms : List Form) (fs : FS) (hinv : SInv forms fs) (ops : List SOp)
    (hok : ∀ o ∈ ops, SOpOK o) :
    loadStash (srun (forms, fs) ops).2 = some (srun (forms, fs) ops).1 :=
  (srun_inv ops (forms, fs) hinv hok).load

example : SInv [] ⟨none, none, none⟩ := ⟨by simp, rfl⟩

/-! ## forms outside the guards: the damage is local -/

/-- `history_forms_never_merge`: whatever blanks or tabs the forms contain (no newline rune inside a
line), the history file decodes form by form: each form is loaded as `decodeLine` of its own line —
trimmed, split at tabs, or dropped when blank — and never merges with, swallows or splits another. -/
theorem history_forms_never_merge (fs : List Form) (h : ∀ f ∈ fs, ∀ l ∈ f, NL ∉ l) :
    decode (fs.flatMap tabAppend) = fs.filterMap (fun f => decodeLine (joinTab f)) :=
  decode_forms_independent fs h

example : decode ([["  (a)".toList], ["(b\tc".toList, " d)".toList], [" ".toList], ["(e)".toList]].flatMap tabAppend)
    = [["(a)".toList], ["(b".toList, "c".toList, " d)".toList], ["(e)".toList]] := by decide

/-- `stash_tabs_only_break_lines`: stashed forms that contain tabs (in any line, also as indentation
of a later line or inside a string) are each loaded as ONE form with its tabs read as line breaks;
the forms stashed before and after are loaded unchanged. (The seeded mutant C20-6 — a tab line taken
for a complete form of its own — breaks exactly this.) -/
theorem stash_tabs_only_break_lines (fs : List Form) (h : ∀ f ∈ fs, stashTabOK f = true) :
    decodeExpanded (fs.flatMap stashEnc) = some (fs.map normStash) := by
  have key : ∀ (fs : List Form), (∀ f ∈ fs, stashTabOK f = true) →
      Decodes (fs.flatMap stashEnc) (fs.map normStash) := by
    intro fs
    induction fs with
    | nil => intro _; exact decodes_nil
    | cons f fs ih =>
      intro h
      have := decodes_append (decodes_stashEnc_tab f (h f (by simp))) (ih (fun g hg => h g (by simp [hg])))
      simpa using this
  exact decodes_load (key fs h)

example : stashTabOK ["(defun foo (x)".toList, "\t(bar x))".toList] = true := by decide
example : decodeExpanded ([["(a)".toList], ["(defun foo (x)".toList, "\t(bar x))".toList], ["(+ 1 2)".toList]].flatMap stashEnc)
    = some [["(a)".toList], ["(defun foo (x)".toList, [], "(bar x))".toList], ["(+ 1 2)".toList]] := by decide

/-! ## settings -/

/-- `settings_restart`: config.lisp as written after any sequence of `setq`s of watched variables
holds every variable once, and evaluating it at the next start — over whatever defaults the new
process has — gives every saved variable its saved value. -/
theorem settings_restart (sets : List (String × String)) (defaults : Settings) :
    (keys (applySets [] sets)).Nodup ∧
    ∀ k v, lookup (applySets [] sets) k = some v →
      lookup (loadSettings (applySets [] sets) defaults) k = some v := by
  have hn := nodup_keys_applySets sets [] (by simp [keys])
  refine ⟨hn, fun k v h => ?_⟩
  exact lookup_load _ hn defaults k v (lookup_mem _ k v h)

/-- what is saved for a variable is the value of its last `setq` -/
theorem settings_last_value (pre post : List (String × String)) (k v : String)
    (hpost : k ∉ post.map Prod.fst) :
    lookup (applySets [] (pre ++ (k, v) :: post)) k = some v := by
  have : applySets [] (pre ++ (k, v) :: post) = applySets (setVar (applySets [] pre) k v) post := by
    simp [applySets, List.foldl_append]
  rw [this, lookup_applySets_not_mem post _ k hpost, lookup_setVar]
  simp

example : lookup (loadSettings (applySets [] [("*b*", "1"), ("*a*", "t"), ("*b*", "2")]) [("*b*", "9")]) "*b*"
    = some "2" := by decide

/-! ## settings: several directories in one process (round 4, seeded mutant C20-10) -/

/-- what a list of setqs leaves for a variable it sets does not depend on the state it started from -/
theorem lookup_applySets_indep (sets : List (String × String)) (k : String) : ∀ (m m' : Settings),
    k ∈ sets.map Prod.fst → lookup (applySets m sets) k = lookup (applySets m' sets) k := by
  induction sets with
  | nil => intro m m' h; simp at h
  | cons kv rest ih =>
    intro m m' h
    by_cases hr : k ∈ rest.map Prod.fst
    · simpa [applySets] using ih (setVar m kv.1 kv.2) (setVar m' kv.1 kv.2) hr
    · have hk : k = kv.1 := by
        simp only [List.map_cons, List.mem_cons] at h
        exact h.resolve_right hr
      have e1 := lookup_applySets_not_mem rest (setVar m kv.1 kv.2) k hr
      have e2 := lookup_applySets_not_mem rest (setVar m' kv.1 kv.2) k hr
      simp only [applySets, List.foldl_cons] at e1 e2 ⊢
      rw [e1, e2, lookup_setVar, lookup_setVar]
      simp [hk]

theorem lookup_applySets_over (sets : List (String × String)) (m : Settings) (k v : String)
    (h : lookup (applySets [] sets) k = some v) : lookup (applySets m sets) k = some v := by
  by_cases hk : k ∈ sets.map Prod.fst
  · rw [lookup_applySets_indep sets k m [] hk]; exact h
  · rw [lookup_applySets_not_mem sets [] k hk] at h
    simp [lookup] at h

/-- a session's setqs -/
def CfgProc.setqs (p : CfgProc) (sets : List (String × String)) : CfgProc :=
  sets.foldl (fun q kv => q.apply (.setq kv.1 kv.2)) p

theorem CfgProc.setqs_spec (d : Nat) (sets : List (String × String)) : ∀ (p : CfgProc), p.dir = some d →
    (p.setqs sets).dir = some d ∧ (p.setqs sets).mods = applySets p.mods sets ∧
    (∀ d', d' ≠ d → (p.setqs sets).disk d' = p.disk d') ∧
    (sets ≠ [] ∨ p.disk d = some p.mods → (p.setqs sets).disk d = some (p.setqs sets).mods) := by
  induction sets with
  | nil => intro p h; simp [CfgProc.setqs, applySets, h]
  | cons kv rest ih =>
    intro p h
    have h1 : (p.apply (.setq kv.1 kv.2)).dir = some d := by simp [CfgProc.apply, h]
    have hm : (p.apply (.setq kv.1 kv.2)).mods = setVar p.mods kv.1 kv.2 := by simp [CfgProc.apply, h]
    have hd : (p.apply (.setq kv.1 kv.2)).disk d = some (p.apply (.setq kv.1 kv.2)).mods := by
      simp [CfgProc.apply, h, CfgProc.put]
    have ho : ∀ d', d' ≠ d → (p.apply (.setq kv.1 kv.2)).disk d' = p.disk d' := by
      intro d' hne; simp [CfgProc.apply, h, CfgProc.put, hne]
    obtain ⟨i1, i2, i3, i4⟩ := ih _ h1
    refine ⟨by simpa [CfgProc.setqs] using i1, ?_, ?_, ?_⟩
    · have : (p.setqs (kv :: rest)).mods = ((p.apply (.setq kv.1 kv.2)).setqs rest).mods := by
        simp [CfgProc.setqs]
      rw [this, i2, hm]; simp [applySets]
    · intro d' hne
      have : (p.setqs (kv :: rest)).disk d' = ((p.apply (.setq kv.1 kv.2)).setqs rest).disk d' := by
        simp [CfgProc.setqs]
      rw [this, i3 d' hne, ho d' hne]
    · intro _
      have := i4 (Or.inr hd)
      simpa [CfgProc.setqs] using this

/-- `SetConfigDir d` (with or without `ZeroMods`) from ANY process state: the session writes to `d`,
what `d/config.lisp` held is marked with its values, no file other than a missing `d/config.lisp`
changes -/
theorem CfgProc.start_spec (p : CfgProc) (d : Nat) (z : Bool) :
    (p.apply (.start d z)).dir = some d ∧
    (∀ d', d' ≠ d → (p.apply (.start d z)).disk d' = p.disk d') ∧
    (∀ file, p.disk d = some file → (p.apply (.start d z)).disk d = some file ∧
      (p.apply (.start d z)).mods = applySets (if z then [] else p.mods) file) ∧
    (p.disk d = none → (p.apply (.start d z)).disk d = some [] ∧
      (p.apply (.start d z)).mods = (if z then [] else p.mods)) := by
  cases hf : p.disk d with
  | none => simp [CfgProc.apply, hf, CfgProc.put]; intro d' hne; simp [hne]
  | some file => simp [CfgProc.apply, hf, loadSettings, applySets]

/-- every event keeps the marked variables free of duplicates (so each is written once) -/
theorem CfgProc.apply_nodup (p : CfgProc) (e : CfgEvent) (h : (keys p.mods).Nodup) :
    (keys (p.apply e).mods).Nodup := by
  cases e with
  | start d z =>
    have h0 : (keys (if z then [] else p.mods)).Nodup := by cases z <;> simp [keys, h] <;> exact h
    cases hf : p.disk d with
    | none => simpa [CfgProc.apply, hf] using h0
    | some file => simpa [CfgProc.apply, hf, loadSettings, applySets] using nodup_keys_applySets file _ h0
  | setq k v =>
    cases hd : p.dir <;> simpa [CfgProc.apply, hd] using nodup_keys_setVar p.mods k v h
  | ext d c => simpa [CfgProc.apply] using h
  | exit => simp [CfgProc.apply, keys]

theorem CfgProc.run_nodup (es : List CfgEvent) : ∀ (p : CfgProc), (keys p.mods).Nodup →
    (keys (p.run es).mods).Nodup := by
  induction es with
  | nil => intro p h; exact h
  | cons e es ih => intro p h; exact ih _ (CfgProc.apply_nodup p e h)

/-- `settings_per_directory` — the statement seeded mutant C20-10 breaks. Take the process in ANY
state `history` of earlier events can leave it in (sessions on other directories, with or without
`ZeroMods`, files removed / recreated / replaced by somebody else, earlier processes). A session
`SetConfigDir d` followed by at least one setq leaves `d/config.lisp` holding every variable once, and
the next start on `d` — over whatever defaults that process has — gives
(1) every variable set in the session the value of its last setq,
(2) every variable `d/config.lisp` held at the start of the session and the session did not set the
    value it had there,
while (3) the files of all other directories are what they were. -/
theorem settings_per_directory (history : List CfgEvent) (d : Nat) (z : Bool)
    (sets : List (String × String)) (hne : sets ≠ []) (defaults : Settings) :
    let p := CfgProc.init.run history
    let q := (p.apply (.start d z)).setqs sets
    ∃ file, q.disk d = some file ∧ (keys file).Nodup ∧
      (∀ k v, lookup (applySets [] sets) k = some v → lookup (loadSettings file defaults) k = some v) ∧
      (∀ file0 k v, p.disk d = some file0 → (keys file0).Nodup → lookup file0 k = some v →
        k ∉ sets.map Prod.fst → lookup (loadSettings file defaults) k = some v) ∧
      (∀ d', d' ≠ d → q.disk d' = p.disk d') := by
  intro p q
  have hp : (keys p.mods).Nodup := CfgProc.run_nodup history _ (by simp [CfgProc.init, keys])
  obtain ⟨s1, s2, s3, s4⟩ := CfgProc.start_spec p d z
  obtain ⟨q1, q2, q3, q4⟩ := CfgProc.setqs_spec d sets _ s1
  have hs : (keys (p.apply (.start d z)).mods).Nodup := CfgProc.apply_nodup p _ hp
  have hq : (keys q.mods).Nodup := by
    show (keys ((p.apply (.start d z)).setqs sets).mods).Nodup
    rw [q2]; exact nodup_keys_applySets sets _ hs
  refine ⟨q.mods, q4 (Or.inl hne), hq, ?_, ?_, ?_⟩
  · intro k v hk
    apply lookup_load _ hq defaults k v (lookup_mem _ k v _)
    show lookup ((p.apply (.start d z)).setqs sets).mods k = some v
    rw [q2]
    exact lookup_applySets_over sets _ k v hk
  · intro file0 k v hf hn0 hk hnot
    apply lookup_load _ hq defaults k v (lookup_mem _ k v _)
    show lookup ((p.apply (.start d z)).setqs sets).mods k = some v
    rw [q2, lookup_applySets_not_mem sets _ k hnot, (s3 file0 hf).2]
    exact lookup_load file0 hn0 _ k v (lookup_mem _ k v hk)
  · intro d' hne'
    show ((p.apply (.start d z)).setqs sets).disk d' = p.disk d'
    rw [q3 d' hne', s2 d' hne']

/-- two sessions in one process, the same setq in both, each directory has it: the seeded mutant's
demonstration -/
example :
    let q := CfgProc.init.run [.start 0 true, .setq "*repl-match-color*" "\"bold\"", .start 1 true,
      .setq "*repl-match-color*" "\"bold\""]
    q.disk 0 = some [("*repl-match-color*", "\"bold\"")] ∧ q.disk 1 = some [("*repl-match-color*", "\"bold\"")] := by
  decide

end SlipVerif.History
