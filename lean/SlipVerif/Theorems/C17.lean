import SlipVerif.Model.Conc
import SlipVerif.Lemmas.Conc
/-
  C17 — property theorems about SlipVerif.Model.Conc: the abstract interleaving semantics of
  channel / mutex / guarded-counter programs, for EVERY schedule (each statement is an invariant
  proved by induction over the schedule in Lemmas/Conc.lean), and the observed-history checkers
  the harness feeds with what it records from the real interpreter:
    * every history the semantics can produce passes the checkers (`exec_*Ok`) — so a history
      a checker rejects cannot come from any schedule of a correct implementation;
    * what a `true` verdict implies about a history (`*_sound`).
  The statements are about the model only. That slip's primitives refine it (Go channels and
  sync.Mutex meet their contract, slip's wrappers add no shared state) is what the exploration
  harness (harness/cmd/vh/c17.go) probes.
-/
namespace SlipVerif.Conc

/-! ## a concrete system used by the `example`s -/

/-- two threads, one channel of capacity 1, one counter (0) guarded by mutex 0 -/
def exSys : Sys :=
  { progs := [[.push 0 1, .push 0 2, .lock 0, .load 0, .store 0, .unlock 0],
              [.pop 0, .lock 0, .load 0, .store 0, .unlock 0, .pop 0]],
    caps := [1] }

def exSched : List (Nat × Nat) :=
  [1, 0, 0, 1, 1, 0, 1, 0, 1, 1, 0, 0, 0, 1, 1, 0, 1].map (fun t => (t, 0))

example : quiescent exSys (exec exSys init exSched) = true := by decide
example : exSys.guarded (fun _ => 0) = true := by decide
example : exSys.distinctSends 1 = true := by decide
example : (exec exSys init exSched).value 0 = 2 := by decide
example : (recvBy 1 0 (exec exSys init exSched).trace).map (·.val) = [1, 2] := by decide

/-! ## channels: FIFO, exactly once -/

/-- Conservation, for every schedule: what was pushed on a channel, in push order, is what was
    received from it, in receive order, followed by what the channel still holds. Nothing is
    lost, duplicated, invented or reordered by the channel. -/
theorem fifo_conservation (S : Sys) (sched : List (Nat × Nat)) (ch : Nat) :
    recvLog ch (exec S init sched).trace ++ (exec S init sched).queue ch
      = pushLog ch (exec S init sched).trace :=
  inv_conservation (reachable_exec Reachable.init sched) ch

/-- For every schedule the items of producer `p` received so far from channel `ch` (in the
    global order of the receive steps) are a prefix, in order, of what `p`'s program pushes. -/
theorem fifo_producer_order (S : Sys) (sched : List (Nat × Nat)) (ch p : Nat) :
    (recvLog ch (exec S init sched).trace).filter (fun it => it.src == p)
      <+: sends p ch (S.prog p) := by
  have hr := reachable_exec (S := S) Reachable.init sched
  have h1 := inv_conservation hr ch
  have h2 := inv_pushLog_src hr ch p
  rw [← h1, List.filter_append] at h2
  have h3 : sends p ch ((S.prog p).take ((exec S init sched).pc p)) <+: sends p ch (S.prog p) := by
    have : (S.prog p).take ((exec S init sched).pc p) <+: S.prog p := List.take_prefix _ _
    obtain ⟨r, hr'⟩ := this
    refine ⟨sends p ch r, ?_⟩
    rw [← sends_append, hr']
  exact (List.prefix_append _ _).trans (h2 ▸ h3)

/-- For every schedule: when the items each producer pushes on a channel are pairwise distinct,
    nothing is received twice — the received items together with the buffered ones are
    duplicate-free. -/
theorem fifo_no_duplicates (S : Sys) (nch : Nat) (hd : S.distinctSends nch = true)
    (sched : List (Nat × Nat)) (ch : Nat) (hch : ch < nch) :
    (recvLog ch (exec S init sched).trace ++ (exec S init sched).queue ch).Nodup := by
  have hr := reachable_exec (S := S) Reachable.init sched
  rw [inv_conservation hr ch]
  exact pushLog_nodup hd hr hch

example : exSys.distinctSends 1 = true ∧ 0 < 1 := by decide

/-- For every schedule that runs all threads to completion nothing is lost: per producer, the
    received items followed by the still-buffered ones are exactly what the producer pushed. -/
theorem fifo_nothing_lost (S : Sys) (sched : List (Nat × Nat)) (hq : quiescent S (exec S init sched) = true)
    (ch p : Nat) :
    (recvLog ch (exec S init sched).trace).filter (fun it => it.src == p)
      ++ ((exec S init sched).queue ch).filter (fun it => it.src == p)
      = sends p ch (S.prog p) := by
  have hr := reachable_exec (S := S) Reachable.init sched
  have h1 := inv_conservation hr ch
  have h2 := inv_pushLog_src hr ch p
  rw [← h1, List.filter_append] at h2
  rw [h2, take_of_cur_none (quiescent_iff.mp hq p)]

example : quiescent exSys (exec exSys init exSched) = true := by decide

/-- `fifo_exactly_once`: the three statements together, for every schedule. -/
theorem fifo_exactly_once (S : Sys) (nch : Nat) (hd : S.distinctSends nch = true) (sched : List (Nat × Nat))
    (ch : Nat) (hch : ch < nch) :
    let c := exec S init sched
    (∀ p, (recvLog ch c.trace).filter (fun it => it.src == p) <+: sends p ch (S.prog p)) ∧
    (recvLog ch c.trace ++ c.queue ch).Nodup ∧
    (quiescent S c = true → ∀ p,
      (recvLog ch c.trace).filter (fun it => it.src == p) ++ (c.queue ch).filter (fun it => it.src == p)
        = sends p ch (S.prog p)) :=
  ⟨fun p => fifo_producer_order S sched ch p, fifo_no_duplicates S nch hd sched ch hch,
   fun hq p => fifo_nothing_lost S sched hq ch p⟩

/-- A channel never holds more than its capacity (an unbuffered channel: one item in transit). -/
theorem capacity_respected (S : Sys) (sched : List (Nat × Nat)) (ch : Nat) :
    ((exec S init sched).queue ch).length ≤ max (S.cap ch) 1 :=
  inv_capacity (reachable_exec Reachable.init sched) ch

/-! ## select -/

/-- A select step is a pop on one of the ready channels: the channel a select receives from is
    one of its listed channels and holds an item, and every listed channel that holds an item
    can be the one chosen (for some choice of the runtime). All channel theorems above are
    proved with threads that receive through `sel` as well as `pop` (the receive event is the
    same `popped`). -/
theorem select_is_pop_on_ready_channel (c : Config) (chs : List Nat) (ch : Nat) :
    (∃ k, selChan c chs k = some ch) ↔ (ch ∈ chs ∧ c.queue ch ≠ []) :=
  ⟨fun ⟨_, h⟩ => selChan_sound h, fun ⟨hm, hq⟩ => selChan_complete hm hq⟩

/-- two producers, one consumer that receives both items through select over both channels -/
def exSelSys : Sys := { progs := [[.push 0 1], [.push 1 2], [.sel [0, 1], .sel [1, 0]]], caps := [1, 1] }

example : quiescent exSelSys (exec exSelSys init [(0, 0), (1, 0), (2, 1), (2, 0)]) = true := by decide
example : (recvBy 2 1 (exec exSelSys init [(0, 0), (1, 0), (2, 1), (2, 0)]).trace).map (·.val) = [2] := by decide
example : fifoOk (obsFifo exSelSys (exec exSelSys init [(0, 0), (1, 0), (2, 1), (2, 0)]) 0) = true := by decide

/-! ## mutexes -/

/-- For every schedule two threads are never inside sections of the same mutex. -/
theorem mutex_exclusion (S : Sys) (sched : List (Nat × Nat)) (m t1 t2 : Nat)
    (h1 : m ∈ inside S (exec S init sched) t1) (h2 : m ∈ inside S (exec S init sched) t2) :
    t1 = t2 := by
  obtain ⟨hm, _⟩ := inv_mutex (reachable_exec (S := S) Reachable.init sched)
  have o1 := (hm m t1).mpr h1
  have o2 := (hm m t2).mpr h2
  rw [o1] at o2
  exact Option.some.inj o2

example : 0 ∈ inside exSys (exec exSys init [(0, 0), (1, 0), (0, 0), (0, 0)]) 0 := by decide

/-- For every schedule a mutex is free exactly when no thread is inside one of its sections. -/
theorem mutex_free_iff (S : Sys) (sched : List (Nat × Nat)) (m : Nat) :
    (exec S init sched).owner m = none ↔ ∀ t, m ∉ inside S (exec S init sched) t := by
  obtain ⟨hm, _⟩ := inv_mutex (reachable_exec (S := S) Reachable.init sched)
  constructor
  · intro h t hin
    have := (hm m t).mpr hin
    rw [h] at this; cases this
  · intro h
    cases ho : (exec S init sched).owner m with
    | none => rfl
    | some t => exact absurd ((hm m t).mp ho) (h t)

/-- `with-mutex-lock` releases on every exit: whatever mix of normal exits, error exits (`fail`)
    and handlers (`protect`) a statement contains, the operations it executes leave the set of
    held mutexes unchanged. -/
theorem compile_balanced (s : Stmt) (hs : List Nat) : heldFrom hs (compile s).1 = hs :=
  compile_heldFrom s hs

/-- The mutex is free again after any exit: when every thread runs a compiled statement then,
    for every schedule that runs all threads to completion, every mutex is free. -/
theorem mutex_free_after_any_exit (stmts : List Stmt) (caps : List Nat) (sched : List (Nat × Nat))
    (hq : quiescent ⟨stmts.map Stmt.ops, caps⟩ (exec ⟨stmts.map Stmt.ops, caps⟩ init sched) = true)
    (m : Nat) : (exec ⟨stmts.map Stmt.ops, caps⟩ init sched).owner m = none := by
  rw [mutex_free_iff]
  intro t hin
  unfold inside at hin
  rw [take_of_cur_none (quiescent_iff.mp hq t)] at hin
  have : held (Sys.prog ⟨stmts.map Stmt.ops, caps⟩ t) = [] := by
    unfold Sys.prog
    split
    · rename_i p hp
      obtain ⟨s, _, rfl⟩ := List.mem_map.mp (List.mem_of_getElem? hp)
      exact compile_heldFrom s []
    · rfl
  rw [this] at hin
  cases hin

/-- thread 0 leaves its section by an error that is handled outside, thread 1 normally -/
def exStmts : List Stmt :=
  [.protect (.withLock 0 (.seq (.incr 0) .fail)), .withLock 0 (.incr 0)]

example : quiescent ⟨exStmts.map Stmt.ops, []⟩
    (exec ⟨exStmts.map Stmt.ops, []⟩ init ([0, 1, 0, 0, 0, 1, 1, 1, 1].map (fun t => (t, 0)))) = true := by decide

/-! ## guarded counters -/

/-- For every schedule of a guarded system the counter equals the number of increments that
    have completed so far (no update is lost, none is counted twice). -/
theorem counter_tracks_increments (S : Sys) (g : Nat → Nat) (hg : S.guarded g = true)
    (sched : List (Nat × Nat)) (k : Nat) :
    (exec S init sched).value k = doneIncr S (exec S init sched) k :=
  (inv_counter hg (reachable_exec Reachable.init sched)).2.1 k

/-- `no_lost_update`: at quiescence the guarded counter equals the number of increments the
    programs contain. -/
theorem no_lost_update (S : Sys) (g : Nat → Nat) (hg : S.guarded g = true) (sched : List (Nat × Nat))
    (hq : quiescent S (exec S init sched) = true) (k : Nat) :
    (exec S init sched).value k = totalIncr S k := by
  rw [counter_tracks_increments S g hg sched k]
  unfold doneIncr totalIncr
  apply sumTo_congr
  intro t _
  rw [take_of_cur_none (quiescent_iff.mp hq t)]

example : exSys.guarded (fun _ => 0) = true ∧ quiescent exSys (exec exSys init exSched) = true ∧
    totalIncr exSys 0 = 2 := by decide

/-- For every schedule of a guarded system the increments of a counter read the values
    0, 1, 2, … in this order: the execution of the critical sections is a sequential one. -/
theorem increments_read_sequentially (S : Sys) (g : Nat → Nat) (hg : S.guarded g = true)
    (sched : List (Nat × Nat)) (k : Nat) :
    loadLog k (exec S init sched).trace = List.range (loadLog k (exec S init sched).trace).length :=
  ((inv_counter hg (reachable_exec Reachable.init sched)).2.2 k).1

/- `serializable` (DESIGN §6): every reachable final state equals the final state of some
   sequential order of the critical sections. Proved here in the part the observables need: the
   final state of the shared data does not depend on the schedule (so it equals the one of any
   sequential schedule that completes). Not proved: the construction of the sequential schedule
   itself. -/
/-- Two schedules that both run a guarded system to completion end with the same counters and,
    per producer and channel, the same delivered-or-buffered items. -/
theorem serializable_partial (S : Sys) (g : Nat → Nat) (hg : S.guarded g = true)
    (s1 s2 : List (Nat × Nat)) (h1 : quiescent S (exec S init s1) = true)
    (h2 : quiescent S (exec S init s2) = true) :
    (∀ k, (exec S init s1).value k = (exec S init s2).value k) ∧
    (∀ ch p, (recvLog ch (exec S init s1).trace).filter (fun it => it.src == p)
              ++ ((exec S init s1).queue ch).filter (fun it => it.src == p)
           = (recvLog ch (exec S init s2).trace).filter (fun it => it.src == p)
              ++ ((exec S init s2).queue ch).filter (fun it => it.src == p)) :=
  ⟨fun k => by rw [no_lost_update S g hg s1 h1, no_lost_update S g hg s2 h2],
   fun ch p => by rw [fifo_nothing_lost S s1 h1, fifo_nothing_lost S s2 h2]⟩

/-! ## the model's own histories pass the checkers (no schedule of the model is rejected) -/

/-- For every schedule the enter/exit log of the trace is accepted by `mutexOk`; at quiescence
    of compiled statements also with the "nobody left inside" clause. -/
theorem exec_mutexOk (S : Sys) (sched : List (Nat × Nat)) :
    mutexOk false (mutexLog (exec S init sched).trace) = true := by
  obtain ⟨hs, hrun, _, _⟩ := inv_mutexRun (reachable_exec (S := S) Reachable.init sched)
  simp [mutexOk, hrun]

theorem exec_mutexOk_quiescent (stmts : List Stmt) (caps : List Nat) (sched : List (Nat × Nat))
    (hq : quiescent ⟨stmts.map Stmt.ops, caps⟩ (exec ⟨stmts.map Stmt.ops, caps⟩ init sched) = true) :
    mutexOk true (mutexLog (exec ⟨stmts.map Stmt.ops, caps⟩ init sched).trace) = true := by
  obtain ⟨hs, hrun, _, hiff⟩ :=
    inv_mutexRun (reachable_exec (S := ⟨stmts.map Stmt.ops, caps⟩) Reachable.init sched)
  have : hs = [] := by
    cases hs with
    | nil => rfl
    | cons p hs =>
      obtain ⟨m, t⟩ := p
      have := (hiff m t).mp (List.mem_cons_self ..)
      rw [mutex_free_after_any_exit stmts caps sched hq m] at this
      cases this
  simp [mutexOk, hrun, this]

/-- For every schedule of a guarded system that runs to completion, the read log and the final
    counter values are accepted by `counterOk`. -/
theorem exec_counterOk (S : Sys) (g : Nat → Nat) (hg : S.guarded g = true) (sched : List (Nat × Nat))
    (hq : quiescent S (exec S init sched) = true) (ks : List Nat) :
    counterOk (readLog (exec S init sched).trace)
      (ks.map (fun k => (k, (exec S init sched).value k))) = true := by
  have hr := reachable_exec (S := S) Reachable.init sched
  obtain ⟨hJ, _, hL⟩ := inv_counter hg hr
  unfold counterOk
  rw [List.all_eq_true]
  intro kv hkv
  obtain ⟨k, _, rfl⟩ := List.mem_map.mp hkv
  have hpend : pending S (exec S init sched) k = 0 := by
    apply sumTo_zero
    intro t _
    unfold pend
    cases hreg : (exec S init sched).reg t with
    | none => rfl
    | some kv =>
      obtain ⟨k', v'⟩ := kv
      have := (hJ t k' v' hreg).2.1
      rw [quiescent_iff.mp hq t] at this
      cases this
  obtain ⟨h1, h2⟩ := hL k
  rw [hpend, Nat.add_zero] at h2
  simp only [beq_iff_eq]
  rw [readLog_filter, h1, h2]

/-- For every schedule, when the items each producer pushes are pairwise distinct, the model's
    observation of a channel (per-producer sent lists, per-consumer received lists, buffered
    rest) is accepted by `fifoOk`. -/
theorem exec_fifoOk (S : Sys) (nch : Nat) (hd : S.distinctSends nch = true) (sched : List (Nat × Nat))
    (ch : Nat) (hch : ch < nch) :
    (obsFifo S (exec S init sched) ch).wf = true ∧ fifoOk (obsFifo S (exec S init sched) ch) = true :=
  obsFifo_ok hd (reachable_exec Reachable.init sched) hch

example : fifoOk (obsFifo exSys (exec exSys init exSched) 0) = true := by decide

/-! ## what an accepted history implies (checker soundness) -/

/-- `fifoOk`: every consumer saw each producer's items in the
    order they were pushed (a sublist of what was sent, so nothing unsent); nothing was
    delivered twice; what is still buffered are each producer's most recent items; and at
    quiescence every producer's items were all delivered or are still buffered — each exactly
    once. -/
theorem fifoOk_sound (o : FifoObs) (h : fifoOk o = true) :
    (∀ l ∈ o.recv, ∀ pv ∈ o.sent, (fromP pv.1 l).Sublist pv.2) ∧
    o.all.Nodup ∧
    (∀ pv ∈ o.sent, fromP pv.1 o.left <:+ pv.2) ∧
    (o.quiescent = true → ∀ pv ∈ o.sent, (fromP pv.1 o.all).Perm pv.2) :=
  fifoOk_sound_aux o h

example : fifoOk ⟨[(0, [1, 2, 3]), (1, [7])], [[⟨0, 1⟩, ⟨1, 7⟩], [⟨0, 2⟩]], [⟨0, 3⟩], true⟩ = true := by decide
example : fifoOk ⟨[(0, [1, 2])], [[⟨0, 2⟩, ⟨0, 1⟩]], [], true⟩ = false := by decide

/-- `mutexOk`: in an accepted log two sections on the same mutex never overlap — between two
    enters on `m` the first one has exited — and an exit is only ever logged by the thread that
    is inside. With the quiescent flag every section that was entered has been left. -/
theorem mutexOk_sound (q : Bool) (log : List MEv) (h : mutexOk q log = true) :
    (∀ l1 l2 l3 t1 t2 m, log = l1 ++ MEv.enter t1 m :: (l2 ++ MEv.enter t2 m :: l3) →
        MEv.exit t1 m ∈ l2) ∧
    (q = true → ∀ l1 l2 t m, log = l1 ++ MEv.enter t m :: l2 → MEv.exit t m ∈ l2) :=
  mutexOk_sound_aux q log h

example : mutexOk true [.enter 0 7, .exit 0 7, .enter 1 7, .exit 1 7] = true := by decide
example : mutexOk false [.enter 0 7, .enter 1 7] = false := by decide

/-- `counterOk`: for every listed counter the number of increments in the log equals the final
    value, and the i-th increment read the value i (no two increments read the same value: no
    update was lost). -/
theorem counterOk_sound (reads finals : List (Nat × Nat)) (h : counterOk reads finals = true)
    (k v : Nat) (hk : (k, v) ∈ finals) :
    ((reads.filter (fun r => r.1 == k)).map (·.2)).length = v ∧
    ∀ i (hi : i < ((reads.filter (fun r => r.1 == k)).map (·.2)).length),
      ((reads.filter (fun r => r.1 == k)).map (·.2))[i] = i := by
  unfold counterOk at h
  rw [List.all_eq_true] at h
  have := h (k, v) hk
  simp only [beq_iff_eq] at this
  rw [this]
  exact ⟨List.length_range, fun i hi => by simp⟩

example : counterOk [(0, 0), (1, 0), (0, 1)] [(0, 2), (1, 1)] = true := by decide
example : counterOk [(0, 0), (0, 0)] [(0, 1)] = false := by decide

end SlipVerif.Conc
