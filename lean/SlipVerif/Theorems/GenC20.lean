import SlipVerif.Model.History
import SlipVerif.Lemmas.History
import SlipVerif.Lemmas.HistoryExt
import SlipVerif.Gen.HistoryCode
/-
  C20 — obligations over facts regenerated from pkg/repl/history.go and stash.go on every run
  (extract/history.go → Gen/HistoryCode.lean). They tie the file-system steps of the model
  (`perform`, `sperform`) to the code: which flags every file is opened with and in which order
  History.Add calls the file system. If one of them no longer elaborates the code has changed in a
  way the crash theorems do not cover (reported as a broken K-gen obligation).
-/
namespace SlipVerif.History
open SlipVerif.Gen.HistoryCode

def flagsOf (method file : String) : List (List String) :=
  (opens.filter (fun o => o.1 == method && o.2.1 == file)).map (fun o => o.2.2)

/-- the model parameter that describes the code: does compaction open `<file>.tmp` with O_TRUNC? -/
def codeCfg : Cfg := ⟨(flagsOf "History.Add" "tmp").all (fun fl => fl.contains "O_TRUNC")⟩

/-- the compaction in History.Add opens its temporary file exactly once, truncating: the code is the
`fixed` configuration the crash theorems are about (a stale history.tmp cannot come back) -/
theorem tmp_open_truncates : (flagsOf "History.Add" "tmp").length = 1 ∧ codeCfg = fixed := by decide

/-- every file is opened O_APPEND|O_CREATE|O_WRONLY (the model's writes append; an open creates) -/
theorem opens_append_create :
    opens.all (fun o => o.2.2.contains "O_APPEND" && o.2.2.contains "O_CREATE" && o.2.2.contains "O_WRONLY") = true := by
  decide

/-- exactly these opens exist, and the rewrites (Clear) truncate while the appends do not -/
theorem opens_shape :
    opens.map (fun o => (o.1, o.2.1, o.2.2.contains "O_TRUNC")) =
      [("History.Add", "tmp", true), ("History.Add", "file", false), ("History.Clear", "file", true),
       ("Stash.Add", "file", false), ("Stash.Clear", "file", true)] := by decide

def pathsOf (m : String) : List (List String) := (fsPaths.filter (fun e => e.1 == m)).flatMap (fun e => e.2)

/-- the same paths, in any order -/
def samePaths (a b : List (List String)) : Bool := a.all b.contains && b.all a.contains

/-- the file-system calls along every path of History.Add/Clear and Stash.Add/Clear, as extracted
(loops, if/else arms, deferred calls, helpers one level deep), are exactly the call patterns of the
model's operations: compaction = open tmp truncating, write*, close, rename tmp → file (the rename
after the close); append = open file appending, write, close; rewrite = open file truncating, write*,
close. Reordering, dropping or adding a file-system call in the code breaks this obligation. -/
theorem code_paths_are_model_patterns :
    samePaths (pathsOf "History.Add") [compactPat, appendPat] = true ∧
    samePaths (pathsOf "History.Clear") [rewritePat] = true ∧
    samePaths (pathsOf "Stash.Add") [appendPat] = true ∧
    samePaths (pathsOf "Stash.Clear") [rewritePat] = true := by decide

def methodOf : Op → String
  | .add _ => "History.Add"
  | .clear _ _ => "History.Clear"
  | .setLimit _ => "History.SetLimit"

theorem mem_of_samePaths {a b : List (List String)} (h : samePaths a b = true) (p : List String) (hp : p ∈ b) :
    p ∈ a := by
  unfold samePaths at h
  simp only [Bool.and_eq_true, List.all_eq_true] at h
  have := h.2 p hp
  simpa using this

/-- the steps the model performs for an operation follow one of the paths extracted from the method
that implements it (or there are none): the crash theorems quantify over the step sequences the code
can produce -/
theorem model_steps_follow_code_paths (h : Hist) (o : Op) :
    (perform codeCfg h o).2 = [] ∨ ∃ p ∈ pathsOf (methodOf o), matchPat p (perform codeCfg h o).2 = true := by
  rw [tmp_open_truncates.2]
  obtain ⟨hA, hC, _, _⟩ := code_paths_are_model_patterns
  rcases perform_pattern h o with h0 | hp
  · exact Or.inl h0
  · right
    cases o with
    | setLimit n => exact absurd hp (by simp)
    | clear a b => exact ⟨rewritePat, mem_of_samePaths hC _ (by simp), hp⟩
    | add f =>
      rcases hp with hp | hp
      · exact ⟨compactPat, mem_of_samePaths hA _ (by simp), hp⟩
      · exact ⟨appendPat, mem_of_samePaths hA _ (by simp), hp⟩

/-- the same for the stash -/
theorem model_stash_steps_follow_code_paths (forms : List Form) (o : SOp) :
    (sperform forms o).2 = [] ∨
    ∃ p ∈ pathsOf (match o with | .add _ => "Stash.Add" | .clear _ _ => "Stash.Clear"),
      matchPat p (sperform forms o).2 = true := by
  obtain ⟨_, _, hA, hC⟩ := code_paths_are_model_patterns
  rcases sperform_pattern forms o with h0 | hp
  · exact Or.inl h0
  · right
    cases o with
    | clear a b => exact ⟨rewritePat, mem_of_samePaths hC _ (by simp), hp⟩
    | add f => exact ⟨appendPat, mem_of_samePaths hA _ (by simp), hp⟩

/-- the crash theorem instantiated for the code as extracted -/
theorem crash_consistent_for_code (w : World) (hinv : Inv w) (o : Op) (ho : OpOK o) (k : Nat) :
    load (crashAt k (perform codeCfg w.mem o).2 w.fs) = w.mem.forms ∨
    load (crashAt k (perform codeCfg w.mem o).2 w.fs) = (perform codeCfg w.mem o).1.forms ∨
    (isClear o ∧ load (crashAt k (perform codeCfg w.mem o).2 w.fs) <+: (perform codeCfg w.mem o).1.forms) := by
  rw [tmp_open_truncates.2]
  exact (op_crash w hinv o ho k).2.1

end SlipVerif.History
