import SlipVerif.Model.History
import SlipVerif.Lemmas.History
import SlipVerif.Gen.HistoryCode
/-
  C20 — obligations over facts regenerated from pkg/repl/history.go and stash.go on every run
  (extract/history.go → Gen/HistoryCode.lean). They tie the file-system steps of the model
  (`perform`, `sperform`) to the code: which flags every file is opened with and in which order
  History.Add calls the file system. If one of them no longer elaborates the code has changed in a
  way the crash theorems do not cover (reported as a broken K-gen obligation).
-/
namespace SlipVerif.History
open SlipVerif.Gen.HistoryCode

def flagsOf (method file : String) : List (List String) :=
  (opens.filter (fun o => o.1 == method && o.2.1 == file)).map (fun o => o.2.2)

/-- the model parameter that describes the code: does compaction open `<file>.tmp` with O_TRUNC? -/
def codeCfg : Cfg := ⟨(flagsOf "History.Add" "tmp").all (fun fl => fl.contains "O_TRUNC")⟩

/-- the compaction in History.Add opens its temporary file exactly once, truncating: the code is the
`fixed` configuration the crash theorems are about (a stale history.tmp cannot come back) -/
theorem tmp_open_truncates : (flagsOf "History.Add" "tmp").length = 1 ∧ codeCfg = fixed := by decide

/-- every file is opened O_APPEND|O_CREATE|O_WRONLY (the model's writes append; an open creates) -/
theorem opens_append_create :
    opens.all (fun o => o.2.2.contains "O_APPEND" && o.2.2.contains "O_CREATE" && o.2.2.contains "O_WRONLY") = true := by
  decide

/-- exactly these opens exist, and the rewrites (Clear) truncate while the appends do not -/
theorem opens_shape :
    opens.map (fun o => (o.1, o.2.1, o.2.2.contains "O_TRUNC")) =
      [("History.Add", "tmp", true), ("History.Add", "h.filename", false), ("History.Clear", "h.filename", true),
       ("Stash.Add", "s.filename", false), ("Stash.Clear", "s.filename", true)] := by decide

/-- History.Add calls the file system in the order of the model's steps: compaction = open, write(s),
close, rename; append = open, write (its close is deferred) -/
theorem add_call_order :
    addCalls = ["os.OpenFile", "f.Write", "f.Close", "os.Rename", "os.OpenFile", "f.Write"] := by decide

/-- the crash theorem instantiated for the code as extracted -/
theorem crash_consistent_for_code (w : World) (hinv : Inv w) (o : Op) (ho : OpOK o) (k : Nat) :
    load (crashAt k (perform codeCfg w.mem o).2 w.fs) = w.mem.forms ∨
    load (crashAt k (perform codeCfg w.mem o).2 w.fs) = (perform codeCfg w.mem o).1.forms ∨
    (isClear o ∧ load (crashAt k (perform codeCfg w.mem o).2 w.fs) <+: (perform codeCfg w.mem o).1.forms) := by
  rw [tmp_open_truncates.2]
  exact (op_crash w hinv o ho k).2.1

end SlipVerif.History
