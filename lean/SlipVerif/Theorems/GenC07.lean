import SlipVerif.Gen.EvalFacts
/-!
C07 — obligations over facts regenerated from the sources on every run (`Gen/EvalFacts.lean`).

Exits are marker values (`*slip.ReturnResult`, `*GoTo`) that a body-evaluating form can only forward
if its `Call` method looks for them. The composite programs of the C07 check route exits through
exactly the forms below (their sweep cells pass); a `Call` that no longer mentions the marker
types cannot forward any more — an early warning next to the sweep cell that will fail.
(`tagbody` is not listed: it forwards only with repo-patches/C07 applied.)
-/
namespace SlipVerif.Theorems.GenC07
open SlipVerif.Gen.EvalFacts

theorem return_forwarders_present :
    ∀ f ∈ ["block", "let", "let*", "dolist", "dotimes", "do", "do*", "multiple-value-bind"], f ∈ mentionsReturnResult := by
  decide

theorem go_forwarders_present :
    ∀ f ∈ ["let", "let*", "dolist", "dotimes", "do", "do*", "multiple-value-bind"], f ∈ mentionsGoTo := by
  decide

end SlipVerif.Theorems.GenC07
