import SlipVerif.Gen.EvalFacts
/-!
C07 — obligations over facts regenerated from the sources on every run (`Gen/EvalFacts.lean`).

Exits are marker values (`*slip.ReturnResult`, `*GoTo`) that a body-evaluating form can only forward
if its `Call` method looks for them. The composite programs of the C07 check route exits through
exactly the forms below (their sweep cells pass); a `Call` that no longer mentions the marker
types cannot forward any more — an early warning next to the sweep cell that will fail.
(`tagbody` is not listed: it forwards only with repo-patches/C07 applied.)
-/
namespace SlipVerif.Theorems.GenC07
open SlipVerif.Gen.EvalFacts

theorem return_forwarders_present :
    ∀ f ∈ ["block", "let", "let*", "dolist", "dotimes", "do", "do*", "multiple-value-bind"], f ∈ mentionsReturnResult := by
  decide

theorem go_forwarders_present :
    ∀ f ∈ ["let", "let*", "dolist", "dotimes", "do", "do*", "multiple-value-bind"], f ∈ mentionsGoTo := by
  decide

/-- what the cleanup-bearing forms do on EVERY way out of their body is done from a `defer` statement of their
`Call` method (followed one call level deep): a slip error is a Go panic, so only deferred code runs on the error
path. unwind-protect evaluates its cleanup forms there, with-mutex-lock unlocks, with-open-file closes the stream,
recover calls Go's recover. A `Call` that moves one of these out of its defer statements releases nothing when
the body signals an error. -/
def calledFromDefer (form fn : String) : Bool := ((deferred.lookup form).getD []).contains fn

theorem unwind_protect_cleanup_is_deferred :
    (calledFromDefer "unwind-protect" "EvalArg" || calledFromDefer "unwind-protect" "Eval") = true := by decide

theorem mutex_unlock_is_deferred : calledFromDefer "with-mutex-lock" "Unlock" = true := by decide

theorem stream_close_is_deferred : calledFromDefer "with-open-file" "Close" = true := by decide

theorem recover_recovers_in_defer : calledFromDefer "recover" "recover" = true := by decide

theorem ignore_errors_recovers_in_defer : calledFromDefer "ignore-errors" "recover" = true := by decide

end SlipVerif.Theorems.GenC07
