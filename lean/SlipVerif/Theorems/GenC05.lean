import SlipVerif.Model.Num
import SlipVerif.Gen.NumImpl
import SlipVerif.Lemmas.Num
import SlipVerif.Lemmas.NumFix
import SlipVerif.Theorems.C05
import SlipVerif.Theorems.C05Impl
import Mathlib.Tactic.Linarith
import Mathlib.Tactic.Ring
import Mathlib.Data.Nat.Sqrt
import SlipVerif.Theorems.C05Bits
/-
  C05 — obligations over the REGENERATED translation of slip's fixnum code (Gen/NumImpl.lean, written
  by extract/numimpl.go from pkg/cl/*.go on every run). Go's int64 semantics are explicit in the
  translation (every operation wraps); the theorems below re-prove, against what the code says now,

    (1) translated = transcription: each translated definition equals the hand transcription of
        Model/Num.lean's Impl layer wherever the code can reach it (int64 operands; for the rounding
        divisions the operands normalizeDivision lets through), i.e. no operation wraps there;
    (2) translated refines Spec: the translated code returns the canonical representation of the
        exact result of the spec-layer operator the harness runs (`canonInt (x + y)`, the spec's
        quotient and remainder, the spec's gcd, `ash`, `isqrt`, …).

  A changed overflow test, comparison operator, adjustment or branch order in the Go source changes
  the regenerated definition and breaks the corresponding obligation on the next run.
-/
namespace SlipVerif.Num
namespace GenC05
open Impl SlipVerif.Gen

/-! ## checked fixnum arithmetic (pkg/cl/number.go) -/

/-- closes `translated = canonInt (exact result)` for straight-line int64 code with a linear overflow
    test, whatever the shape of the test (so that an equivalent rewrite of the test re-proves) -/
macro "fixnum_exact" : tactic => `(tactic| (
  simp only [bne_iff_ne, ne_eq, decide_eq_decide, Bool.and_eq_true, Bool.or_eq_true, decide_eq_true_eq,
    Bool.not_eq_true', beq_iff_eq]
  split <;> split <;> first | rfl | (congr 1; omega) | (exfalso; omega) | omega))

/-- the code's `addFixnums` returns the canonical representation of the exact sum -/
theorem gen_addFixnums_exact (x y : Int) (hx : inRange x) (hy : inRange y) :
    NumImpl.addFixnums x y = canonInt (x + y) ∧ (NumImpl.addFixnums x y).value = add x y ∧
    (NumImpl.addFixnums x y).tag = typeOf (add x y) := by
  have h : NumImpl.addFixnums x y = canonInt (x + y) := by
    unfold NumImpl.addFixnums canonInt isFix minFix maxFix addFix wrap64
    unfold inRange at hx hy
    fixnum_exact
  rw [h]
  refine ⟨rfl, ?_, ?_⟩
  · rw [canonInt_value]; unfold add; push_cast; rfl
  · rw [canonInt_tag]; unfold add; push_cast; rfl

theorem gen_subFixnums_exact (x y : Int) (hx : inRange x) (hy : inRange y) :
    NumImpl.subFixnums x y = canonInt (x - y) ∧ (NumImpl.subFixnums x y).value = sub x y ∧
    (NumImpl.subFixnums x y).tag = typeOf (sub x y) := by
  have h : NumImpl.subFixnums x y = canonInt (x - y) := by
    unfold NumImpl.subFixnums canonInt isFix minFix maxFix subFix wrap64
    unfold inRange at hx hy
    fixnum_exact
  rw [h]
  refine ⟨rfl, ?_, ?_⟩
  · rw [canonInt_value]; unfold sub; push_cast; rfl
  · rw [canonInt_tag]; unfold sub; push_cast; rfl

/-- multiplication: the translated overflow test is the transcription's (`mulOk_iff` proves that test
    exact; the product is not linear, so this obligation is tied to the shape of the test) -/
theorem gen_mulFixnums_eq (x y : Int) : NumImpl.mulFixnums x y = Impl.mulFixnums x y := by
  unfold NumImpl.mulFixnums Impl.mulFixnums mulOk minFix
  by_cases h : (x != 0 && (quoFix (mulFix x y) x != y || x == -1 && y == -9223372036854775808)) = true
  · rw [if_pos h]; simp [h]
  · rw [if_neg h]; simp at h; simp; exact h

theorem gen_mulFixnums_exact (x y : Int) (hx : inRange x) (hy : inRange y) :
    NumImpl.mulFixnums x y = canonInt (x * y) ∧ (NumImpl.mulFixnums x y).value = mul x y ∧
    (NumImpl.mulFixnums x y).tag = typeOf (mul x y) := by
  rw [gen_mulFixnums_eq, mulFixnums_refines x y hx hy]
  refine ⟨rfl, ?_, ?_⟩
  · rw [canonInt_value]; unfold mul; push_cast; rfl
  · rw [canonInt_tag]; unfold mul; push_cast; rfl

theorem gen_negFixnum_exact (x : Int) (hx : inRange x) :
    NumImpl.negFixnum x = canonInt (-x) ∧ (NumImpl.negFixnum x).value = neg x := by
  have h : NumImpl.negFixnum x = canonInt (-x) := by
    unfold NumImpl.negFixnum canonInt isFix minFix maxFix negFix wrap64
    unfold inRange at hx
    fixnum_exact
  rw [h]
  refine ⟨rfl, ?_⟩
  rw [canonInt_value]; unfold neg; push_cast; rfl

/-- `1+` and `1-` on a fixnum: the canonical representation of the exact successor / predecessor -/
theorem gen_oneplus_exact (a : Int) (ha : inRange a) : NumImpl.oneplusFix a = canonInt (a + 1) := by
  unfold NumImpl.oneplusFix
  exact (gen_addFixnums_exact a 1 ha (by unfold inRange; omega)).1

theorem gen_oneminus_exact (a : Int) (ha : inRange a) : NumImpl.oneminusFix a = canonInt (a - 1) := by
  unfold NumImpl.oneminusFix
  exact (gen_subFixnums_exact a 1 ha (by unfold inRange; omega)).1

/-- `abs` on a fixnum: canonical |a| (a bignum only for the most negative fixnum) -/
theorem gen_abs_exact (a : Int) (ha : inRange a) :
    NumImpl.absFix a = canonInt (if a < 0 then -a else a) ∧ (NumImpl.absFix a).value = absR a := by
  have h : NumImpl.absFix a = canonInt (if a < 0 then -a else a) := by
    unfold NumImpl.absFix
    by_cases h : a < 0
    · simp only [h, decide_true, if_true]
      exact (gen_negFixnum_exact a ha).1
    · simp only [h, decide_false, if_false]
      unfold canonInt
      rw [if_pos ((inRange_iff_isFix a).mp ha)]
      simp
  refine ⟨h, ?_⟩
  rw [h, canonInt_value]; unfold absR
  by_cases h0 : a < 0
  · have : (a : Rat) < 0 := by exact_mod_cast h0
    simp [h0, this]
  · have : ¬ (a : Rat) < 0 := by exact_mod_cast h0
    simp [h0, this]

/-! ## the fixnum × fixnum fast path of compareReals -/

theorem gen_compareFix_spec (a b : Int) :
    (NumImpl.compareFix a b = -1 ↔ lt (a : Rat) (b : Rat) = true) ∧
    (NumImpl.compareFix a b = 0 ↔ eq (a : Rat) (b : Rat) = true) ∧
    (NumImpl.compareFix a b = 1 ↔ gt (a : Rat) (b : Rat) = true) ∧
    (NumImpl.compareFix a b = -1 ∨ NumImpl.compareFix a b = 0 ∨ NumImpl.compareFix a b = 1) := by
  unfold NumImpl.compareFix lt eq gt
  simp only [decide_eq_true_eq, Int.cast_lt, Int.cast_inj]
  by_cases h1 : a < b
  · simp only [h1, if_true]; refine ⟨by simp, ?_, ?_, by simp⟩ <;> simp <;> omega
  · by_cases h2 : b < a
    · simp only [h1, h2, if_true, if_false]; refine ⟨by simp, ?_, by simp, by simp⟩; simp; omega
    · simp only [h1, h2, if_false]; refine ⟨by simp, ?_, by simp, by simp⟩; simp; omega

/-! ## the fixnum branches of the rounding divisions -/

/-- what `normalizeDivision` guarantees on the fixnum path: int64 operands, a non-zero divisor, and
    neither operand is the most negative fixnum -/
def DivOperands (a b : Int) : Prop := inRange a ∧ inRange b ∧ b ≠ 0 ∧ a ≠ minFix ∧ b ≠ minFix

theorem gen_floorFix_eq (a b : Int) (h : DivOperands a b) : NumImpl.floorFix a b = floorFixGo a b := by
  obtain ⟨ha, hb, hb0, ham, _⟩ := h
  obtain ⟨h1, h2, h3, e, habs, hs1, hs2, hqle, hhalf, _⟩ := div_prelude a b ha hb hb0 (fun h => ham h.1)
  unfold NumImpl.floorFix floorFixGo
  simp only [h1, h2, h3, e]
  generalize Int.tmod a b = r at *
  generalize Int.tdiv a b = q at *
  unfold inRange minFix at *
  -- every sign combination; the shape of the adjustment tests does not matter
  by_cases c1 : 0 < b <;> by_cases c2 : r < 0 <;> by_cases c3 : 0 < r <;> by_cases c4 : b < 0 <;>
    simp [c1, c2, c3, c4, addFix, subFix, wrap64] <;> omega

theorem gen_ceilingFix_eq (a b : Int) (h : DivOperands a b) : NumImpl.ceilingFix a b = ceilFixGo a b := by
  obtain ⟨ha, hb, hb0, ham, _⟩ := h
  obtain ⟨h1, h2, h3, e, habs, hs1, hs2, hqle, hhalf, _⟩ := div_prelude a b ha hb hb0 (fun h => ham h.1)
  unfold NumImpl.ceilingFix ceilFixGo
  simp only [h1, h2, h3, e]
  generalize Int.tmod a b = r at *
  generalize Int.tdiv a b = q at *
  unfold inRange minFix at *
  -- every sign combination; the shape of the adjustment tests does not matter
  by_cases c1 : 0 < b <;> by_cases c2 : r < 0 <;> by_cases c3 : 0 < r <;> by_cases c4 : b < 0 <;>
    simp [c1, c2, c3, c4, addFix, subFix, wrap64] <;> omega

theorem gen_truncateFix_eq (a b : Int) (h : DivOperands a b) : NumImpl.truncateFix a b = truncFixGo a b := by
  obtain ⟨ha, hb, hb0, ham, _⟩ := h
  obtain ⟨h1, h2, h3, e, _⟩ := div_prelude a b ha hb hb0 (fun h => ham h.1)
  unfold NumImpl.truncateFix truncFixGo
  simp only [h1, h2, h3, e]

theorem negFix_exact (a : Int) (ha : inRange a) (ham : a ≠ minFix) : negFix a = -a := by
  unfold negFix wrap64; unfold inRange at ha; unfold minFix at ham; omega

set_option linter.unusedSimpArgs false in
theorem gen_roundFix_eq (a b : Int) (h : DivOperands a b) : NumImpl.roundFix a b = roundFixGo a b := by
  obtain ⟨ha, hb, hb0, ham, hbm⟩ := h
  obtain ⟨h1, h2, h3, e, _⟩ := div_prelude a b ha hb hb0 (fun h => ham h.1)
  have hna := negFix_exact a ha ham
  have hnb := negFix_exact b hb hbm
  unfold NumImpl.roundFix roundFixGo
  simp only [h1, h2, h3, e]
  by_cases hr0 : Int.tmod a b = 0
  · simp [hr0]
  · have hr0' : (Int.tmod a b == 0) = false := by simp [hr0]
    simp only [hr0', hr0, if_false, Bool.false_eq_true]
    -- the magnitudes
    have key : ∀ (A B : Int), inRange A → inRange B → 0 ≤ A → 0 < B →
        ∃ q r : Int, quoFix A B = q ∧ mulFix q B = q * B ∧ subFix A (q * B) = r ∧ q = Int.tdiv A B ∧
          A - q * B = r ∧ 0 ≤ r ∧ r < B ∧ 0 ≤ q ∧ q ≤ A ∧ (r ≠ 0 → 2 * q ≤ A) ∧ remFix q 2 = q % 2 := by
      intro A B hA hB hA0 hB0
      obtain ⟨k1, k2, k3, k4, k5, k6, k7, k8, k9, k10, _⟩ := div_prelude A B hA hB (by omega) (by unfold minFix; omega)
      refine ⟨Int.tdiv A B, Int.tmod A B, k1, k2, k3, rfl, k4, k6 hA0, by have := k6 hA0; omega, k10 hA0 hB0, by have := k10 hA0 hB0; omega, ?_, ?_⟩
      · intro hr; have := k9 hr; have := k10 hA0 hB0; omega
      · unfold remFix; exact Int.tmod_eq_emod_of_nonneg (k10 hA0 hB0)
    unfold roundMag
    unfold inRange at ha hb
    unfold minFix at ham hbm
    rcases lt_or_ge a 0 with c1 | c1 <;> rcases lt_or_gt_of_ne hb0 with c2 | c2
    · obtain ⟨q, r, k1, k2, k3, k4, k5, k6, k7, k8, k9, k10, k11⟩ := key (-a) (-b) (by unfold inRange; omega) (by unfold inRange; omega) (by omega) (by omega)
      have d1 : decide (a < 0) = true := by simp [c1]
      have d2 : decide (b < 0) = true := by simp [c2]
      simp only [d1, d2, if_true, Bool.not_true, Bool.not_false, Bool.false_eq_true, if_false]
      simp only [c1, c2, hna, hnb, if_true, k1, k2, k3, ← k4, k5, k11, ne_eq, eq_iff_iff, iff_false, false_iff, iff_true, true_iff, iff_self, not_true_eq_false, not_false_eq_true, if_false]
      have hrest : subFix (-b) r = (-b) - r := by unfold subFix wrap64; omega
      simp only [hrest]
      by_cases cc : (-b) - r < r ∨ ((-b) - r = r ∧ q % 2 ≠ 0)
      · have cc' : (decide ((-b) - r < r) || ((-b) - r == r && q % 2 != 0)) = true := by
          rcases cc with c | ⟨c, c'⟩ <;> simp [c]
          exact c'
        simp only [cc', cc, if_true]
          <;> (try unfold addFix) <;> (try unfold subFix) <;> (try unfold negFix) <;> (try unfold wrap64) <;> (first | rfl | (congr 1 <;> omega))
      · have cc' : (decide ((-b) - r < r) || ((-b) - r == r && q % 2 != 0)) = false := by
          have n1 : ¬ ((-b) - r < r) := fun h => cc (Or.inl h)
          have n2 : (-b) - r = r → q % 2 = 0 := fun h => by
            by_contra h'; exact cc (Or.inr ⟨h, h'⟩)
          simp [n1]; exact n2
        simp only [cc', cc, if_false, Bool.false_eq_true]
          <;> (try unfold addFix) <;> (try unfold subFix) <;> (try unfold negFix) <;> (try unfold wrap64) <;> (first | rfl | (congr 1 <;> omega))
    · obtain ⟨q, r, k1, k2, k3, k4, k5, k6, k7, k8, k9, k10, k11⟩ := key (-a) b (by unfold inRange; omega) (by unfold inRange; omega) (by omega) (by omega)
      have d1 : decide (a < 0) = true := by simp [c1]
      have d2 : decide (b < 0) = false := by simp; omega
      have c2' : ¬ b < 0 := by omega
      simp only [d1, d2, if_true, Bool.not_true, Bool.not_false, Bool.false_eq_true, if_false]
      simp only [c1, c2', hna, hnb, if_true, k1, k2, k3, ← k4, k5, k11, ne_eq, eq_iff_iff, iff_false, false_iff, iff_true, true_iff, iff_self, not_true_eq_false, not_false_eq_true, if_false]
      have hrest : subFix b r = b - r := by unfold subFix wrap64; omega
      simp only [hrest]
      by_cases cc : b - r < r ∨ (b - r = r ∧ q % 2 ≠ 0)
      · have cc' : (decide (b - r < r) || (b - r == r && q % 2 != 0)) = true := by
          rcases cc with c | ⟨c, c'⟩ <;> simp [c]
          exact c'
        simp only [cc', cc, if_true]
          <;> (try unfold addFix) <;> (try unfold subFix) <;> (try unfold negFix) <;> (try unfold wrap64) <;> (first | rfl | (congr 1 <;> omega))
      · have cc' : (decide (b - r < r) || (b - r == r && q % 2 != 0)) = false := by
          have n1 : ¬ (b - r < r) := fun h => cc (Or.inl h)
          have n2 : b - r = r → q % 2 = 0 := fun h => by
            by_contra h'; exact cc (Or.inr ⟨h, h'⟩)
          simp [n1]; exact n2
        simp only [cc', cc, if_false, Bool.false_eq_true]
          <;> (try unfold addFix) <;> (try unfold subFix) <;> (try unfold negFix) <;> (try unfold wrap64) <;> (first | rfl | (congr 1 <;> omega))
    · obtain ⟨q, r, k1, k2, k3, k4, k5, k6, k7, k8, k9, k10, k11⟩ := key a (-b) (by unfold inRange; omega) (by unfold inRange; omega) (by omega) (by omega)
      have d1 : decide (a < 0) = false := by simp; omega
      have c1' : ¬ a < 0 := by omega
      have d2 : decide (b < 0) = true := by simp [c2]
      simp only [d1, d2, if_true, Bool.not_true, Bool.not_false, Bool.false_eq_true, if_false]
      simp only [c1', c2, hna, hnb, if_true, k1, k2, k3, ← k4, k5, k11, ne_eq, eq_iff_iff, iff_false, false_iff, iff_true, true_iff, iff_self, not_true_eq_false, not_false_eq_true, if_false]
      have hrest : subFix (-b) r = (-b) - r := by unfold subFix wrap64; omega
      simp only [hrest]
      by_cases cc : (-b) - r < r ∨ ((-b) - r = r ∧ q % 2 ≠ 0)
      · have cc' : (decide ((-b) - r < r) || ((-b) - r == r && q % 2 != 0)) = true := by
          rcases cc with c | ⟨c, c'⟩ <;> simp [c]
          exact c'
        simp only [cc', cc, if_true]
          <;> (try unfold addFix) <;> (try unfold subFix) <;> (try unfold negFix) <;> (try unfold wrap64) <;> (first | rfl | (congr 1 <;> omega))
      · have cc' : (decide ((-b) - r < r) || ((-b) - r == r && q % 2 != 0)) = false := by
          have n1 : ¬ ((-b) - r < r) := fun h => cc (Or.inl h)
          have n2 : (-b) - r = r → q % 2 = 0 := fun h => by
            by_contra h'; exact cc (Or.inr ⟨h, h'⟩)
          simp [n1]; exact n2
        simp only [cc', cc, if_false, Bool.false_eq_true]
          <;> (try unfold addFix) <;> (try unfold subFix) <;> (try unfold negFix) <;> (try unfold wrap64) <;> (first | rfl | (congr 1 <;> omega))
    · obtain ⟨q, r, k1, k2, k3, k4, k5, k6, k7, k8, k9, k10, k11⟩ := key a b (by unfold inRange; omega) (by unfold inRange; omega) (by omega) (by omega)
      have d1 : decide (a < 0) = false := by simp; omega
      have c1' : ¬ a < 0 := by omega
      have d2 : decide (b < 0) = false := by simp; omega
      have c2' : ¬ b < 0 := by omega
      have hr : Int.tmod a b = r := by rw [← e, ← k4]; exact k5
      simp only [d1, d2, if_true, Bool.not_true, Bool.not_false, Bool.false_eq_true, if_false]
      simp only [c1', c2', hna, hnb, hr, if_true, k1, k2, k3, ← k4, k5, k11, ne_eq, eq_iff_iff, iff_false, false_iff, iff_true, true_iff, iff_self, not_true_eq_false, not_false_eq_true, if_false]
      have hrest : subFix b r = b - r := by unfold subFix wrap64; omega
      simp only [hrest]
      by_cases cc : b - r < r ∨ (b - r = r ∧ q % 2 ≠ 0)
      · have cc' : (decide (b - r < r) || (b - r == r && q % 2 != 0)) = true := by
          rcases cc with c | ⟨c, c'⟩ <;> simp [c]
          exact c'
        simp only [cc', cc, if_true]
          <;> (try unfold addFix) <;> (try unfold subFix) <;> (try unfold negFix) <;> (try unfold wrap64) <;> (first | rfl | (congr 1 <;> omega))
      · have cc' : (decide (b - r < r) || (b - r == r && q % 2 != 0)) = false := by
          have n1 : ¬ (b - r < r) := fun h => cc (Or.inl h)
          have n2 : b - r = r → q % 2 = 0 := fun h => by
            by_contra h'; exact cc (Or.inr ⟨h, h'⟩)
          simp [n1]; exact n2
        simp only [cc', cc, if_false, Bool.false_eq_true]
          <;> (try unfold addFix) <;> (try unfold subFix) <;> (try unfold negFix) <;> (try unfold wrap64) <;> (first | rfl | (congr 1 <;> omega))


/-! ### translated refines Spec: the fixnum branches return the spec's quotient and remainder -/

theorem gen_ceiling_refines_spec (a b : Int) (h : DivOperands a b) :
    ceilDiv (a : Rat) (b : Rat) = .ok ((NumImpl.ceilingFix a b).1, (((NumImpl.ceilingFix a b).2 : Int) : Rat)) := by
  rw [gen_ceilingFix_eq a b h]; exact ceilFixGo_eq_spec a b h.2.2.1

theorem gen_truncate_refines_spec (a b : Int) (h : DivOperands a b) :
    truncDiv (a : Rat) (b : Rat) = .ok ((NumImpl.truncateFix a b).1, (((NumImpl.truncateFix a b).2 : Int) : Rat)) := by
  rw [gen_truncateFix_eq a b h]; exact truncFixGo_eq_spec a b h.2.2.1

theorem gen_round_refines_spec (a b : Int) (h : DivOperands a b) :
    roundDiv (a : Rat) (b : Rat) = .ok ((NumImpl.roundFix a b).1, (((NumImpl.roundFix a b).2 : Int) : Rat)) := by
  rw [gen_roundFix_eq a b h]; exact roundFixGo_eq_spec a b h.2.2.1

/-- floor: for a positive divisor (for a negative divisor the pinned code adjusts the wrong way:
    known finding, `floorFixGo_neg_divisor_witness`; the full statement is `floorFix_eq_spec`) -/
theorem gen_floor_refines_spec_partial (a b : Int) (h : DivOperands a b) (hb : 0 < b) :
    floorDiv (a : Rat) (b : Rat) = .ok ((NumImpl.floorFix a b).1, (((NumImpl.floorFix a b).2 : Int) : Rat)) := by
  rw [gen_floorFix_eq a b h]; exact floorFixGo_eq_spec_partial a b hb

/-! ## gcd -/

theorem gen_gcdFix_eq (fuel : Nat) (x y : Int) : NumImpl.gcdFix fuel x y = gcdLoop fuel x y := by
  unfold NumImpl.gcdFix
  simp only
  induction fuel generalizing x y with
  | zero => unfold NumImpl.gcdFix_loop1 gcdLoop; rfl
  | succ f ih =>
    unfold NumImpl.gcdFix_loop1 gcdLoop
    by_cases hy : y = 0
    · simp [hy]
    · simp only [hy, bne_iff_ne, ne_eq, not_false_eq_true, if_true, if_false]
      exact ih y (remFix x y)

/-- Euclid's loop as the code has it computes the spec's gcd of two non-negative fixnums -/
theorem gen_gcd_refines_spec (fuel m n : Nat) (h : n < fuel) :
    NumImpl.gcdFix fuel (m : Int) (n : Int) = gcdAll [(m : Int), (n : Int)] := by
  rw [gen_gcdFix_eq]; exact gcdLoop_eq_spec fuel m n h

/-! ## ash, lognot, isqrt, predicates, signum -/

/-- the fixnum branch of `ash` returns the canonical representation of the spec's `ash` -/
theorem gen_ash_exact (n k : Int) (hn : inRange n) (hk : inRange k) :
    NumImpl.ashFix n k = canonInt (ash n k) := by
  have fixOf : ∀ v : Int, inRange v → canonInt v = Rep.fix v := by
    intro v hv; unfold canonInt; rw [if_pos ((inRange_iff_isFix v).mp hv)]
  unfold NumImpl.ashFix ash
  by_cases h0 : k < 0
  · have hk0 : ¬ 0 ≤ k := by omega
    simp only [h0, hk0, decide_true, if_true, if_false]
    by_cases h63 : k < -63
    · simp only [h63, decide_true, if_true]
      have e1 : toU64 (negFix (-63)) = 63 := by decide
      rw [e1, fixOf _ (shr_inRange n _ hn)]
      unfold shrFix
      congr 1
      exact (shr_sat n (-k).toNat (by omega) hn).symm
    · simp only [h63, decide_false, if_false, Bool.false_eq_true]
      have e1 : toU64 (negFix k) = -k := by unfold toU64 negFix wrap64; omega
      rw [e1, fixOf _ (shr_inRange n _ hn)]
      rfl
  · have hk0 : 0 ≤ k := by omega
    simp only [h0, hk0, decide_false, if_true, if_false, Bool.false_eq_true]
    have e1 : toU64 k = k := by unfold toU64; unfold inRange at hk; omega
    rw [e1]
    by_cases hc : (decide (k < 64) && shrFix (shlFix n k) k == n) = true
    · rw [if_pos hc]
      simp only [Bool.and_eq_true, decide_eq_true_eq, beq_iff_eq] at hc
      obtain ⟨hk64, hrt⟩ := hc
      unfold shrFix shlFix at hrt
      unfold shlFix
      generalize hK : k.toNat = K at *
      have hK63 : K ≤ 63 := by omega
      have hp := pow2_pos K
      have hm := pow2_mono K 63 hK63
      obtain ⟨j, hj⟩ := wrap64_congr (n * 2 ^ K)
      rw [shr_eq_div] at hrt
      have a1 := Int.ediv_mul_le (wrap64 (n * 2 ^ K)) (ne_of_gt hp)
      have a2 := Int.lt_ediv_add_one_mul_self (wrap64 (n * 2 ^ K)) hp
      rw [hrt] at a1 a2
      have e2 : (n + 1) * (2 : Int) ^ K = n * 2 ^ K + 2 ^ K := by ring
      rw [e2] at a2
      have hw : wrap64 (n * 2 ^ K) = n * 2 ^ K := by
        norm_num at hm
        generalize (2 : Int) ^ K = P at *
        generalize n * P = M at *
        omega
      have hr := wrap64_range (n * 2 ^ K)
      rw [hw] at hr ⊢
      exact (fixOf _ hr).symm
    · rw [if_neg hc]


theorem gen_lognot_exact (a : Int) (ha : inRange a) :
    NumImpl.lognotFix a = canonInt (lnot a) ∧ NumImpl.lognotFix a = .fix (-a - 1) := by
  have h : NumImpl.lognotFix a = .fix (-a - 1) := by
    unfold NumImpl.lognotFix ofU64 notU toU64 wrap64
    unfold inRange at ha
    simp only []
    congr 1; omega
  refine ⟨?_, h⟩
  rw [h]; unfold canonInt lnot
  have : isFix (-a - 1) = true := by
    apply (inRange_iff_isFix _).mp; unfold inRange at *; omega
  rw [if_pos this]

theorem gen_zerop_spec (a : Int) : NumImpl.zeropFix a = zerop (a : Rat) := by
  unfold NumImpl.zeropFix zerop
  by_cases h : a = 0 <;> simp [h]

theorem gen_plusp_spec (a : Int) : NumImpl.pluspFix a = plusp (a : Rat) := by
  unfold NumImpl.pluspFix plusp
  by_cases h : 0 < a <;> simp [h]

theorem gen_minusp_spec (a : Int) : NumImpl.minuspFix a = minusp (a : Rat) := by
  unfold NumImpl.minuspFix minusp
  by_cases h : a < 0 <;> simp [h]

theorem tmod_two (a : Int) : Int.tmod a 2 = if 0 ≤ a then a % 2 else -((-a) % 2) := by
  by_cases h : 0 ≤ a
  · rw [if_pos h]; exact Int.tmod_eq_emod_of_nonneg h
  · rw [if_neg h]
    have : Int.tmod (-a) 2 = (-a) % 2 := Int.tmod_eq_emod_of_nonneg (by omega)
    have h2 : Int.tmod a 2 = -Int.tmod (-a) 2 := by rw [Int.neg_tmod]; simp
    rw [h2, this]

theorem gen_evenp_spec (a : Int) : NumImpl.evenpFix a = decide (a % 2 = 0) := by
  unfold NumImpl.evenpFix remFix
  rw [tmod_two]
  by_cases h : 0 ≤ a <;> by_cases h2 : a % 2 = 0 <;> simp [h, h2] <;> try omega

theorem gen_evenp_model (a : Int) : NumImpl.evenpFix a = evenp a := by
  rw [gen_evenp_spec]; unfold evenp
  by_cases h : a % 2 = 0 <;> simp [h]

/-- oddp on a fixnum (the remainder of Go's `%` is -1 for a negative odd operand: the test must
    not compare it with 1) -/
theorem gen_oddp_spec (a : Int) : NumImpl.oddpFix a = oddp a := by
  unfold NumImpl.oddpFix remFix oddp
  rw [tmod_two]
  have hn : (-a) % 2 = a % 2 := by omega
  rw [hn]
  have hc : a % 2 = 0 ∨ a % 2 = 1 := by omega
  by_cases h : 0 ≤ a <;> rcases hc with h2 | h2 <;> simp [h, h2]

theorem gen_signum_spec (a : Int) : NumImpl.signumFix a = Int.sign a := by
  unfold NumImpl.signumFix
  rcases lt_trichotomy a 0 with h | h | h
  · have : ¬ 0 < a := by omega
    simp [h, this, Int.sign_eq_neg_one_of_neg h]
  · subst h; simp
  · simp [h, Int.sign_eq_one_of_pos h]

theorem gen_isqrt_spec (a : Int) (ha : inRange a) :
    (0 ≤ a → NumImpl.isqrtFix a = some (canonInt (Nat.sqrt a.toNat)) ∧ isqrt a = .ok (Nat.sqrt a.toNat : Int)) ∧
    (a < 0 → NumImpl.isqrtFix a = none ∧ isqrt a = .error .typeErr) := by
  constructor
  · intro h0
    have hn : ¬ a < 0 := by omega
    have hle : (Nat.sqrt a.toNat : Int) ≤ a := by
      have := Nat.sqrt_le_self a.toNat
      omega
    have hr : inRange (Nat.sqrt a.toNat : Int) := by unfold inRange at *; omega
    unfold NumImpl.isqrtFix isqrt canonInt
    simp only [hn, decide_false, if_false, Bool.false_eq_true]
    rw [wrap64_id _ hr, if_pos ((inRange_iff_isFix _).mp hr)]
    exact ⟨rfl, trivial⟩
  · intro h
    unfold NumImpl.isqrtFix isqrt
    simp [h]

/-! ## integer-length: the counted loop over the shifts -/

theorem intLen_loop (fuel : Nat) (n i : Nat) (hn : n < 2 ^ 63) (hi : i ≤ 63) (hf : 64 - i ≤ fuel)
    (hinv : i = 0 ∨ 2 ^ (i - 1) ≤ n) :
    NumImpl.integerLengthFix_loop1 fuel (n : Int) (i : Int) = ((bitLen n : Nat) : Int) := by
  induction fuel generalizing i with
  | zero => omega
  | succ f ih =>
    unfold NumImpl.integerLengthFix_loop1
    have hi64 : (i : Int) < 64 := by omega
    simp only [hi64, decide_true, if_true]
    have hshr : shrFix (n : Int) (i : Int) = ((n / 2 ^ i : Nat) : Int) := by
      unfold shrFix
      rw [Int.toNat_natCast, shr_eq_div]
      push_cast; rfl
    rw [hshr]
    by_cases hz : n / 2 ^ i = 0
    · have hlt : n < 2 ^ i := by
        rcases Nat.div_eq_zero_iff.mp hz with h | h
        · have : 0 < 2 ^ i := Nat.two_pow_pos i
          omega
        · exact h
      have hb : bitLen n = i := bitLen_unique n i hlt hinv
      simp [hz, hb]
    · have hge : 2 ^ i ≤ n := by
        by_contra hc
        exact hz (Nat.div_eq_of_lt (not_le.mp hc))
      have hne : ¬ (((n / 2 ^ i : Nat) : Int) == 0) = true := by
        intro hc
        exact hz (Int.natCast_eq_zero.mp (beq_iff_eq.mp hc))
      rw [if_neg hne]
      have hi62 : i ≤ 62 := by
        by_contra hc
        have : i = 63 := by omega
        subst this; omega
      have hadd : addFix (i : Int) 1 = ((i + 1 : Nat) : Int) := by
        unfold addFix wrap64; push_cast; omega
      simp only [hadd]
      exact ih (i + 1) (by omega) (by omega) (Or.inr (by simpa using hge))

/-- the fixnum branch of `integer-length` (a counted loop over the shifts) is the spec's length -/
theorem gen_integerLength_exact (a : Int) (ha : inRange a) :
    NumImpl.integerLengthFix a = .fix (integerLength a) := by
  unfold NumImpl.integerLengthFix integerLength
  unfold inRange at ha
  by_cases h : a < 0
  · simp only [h, decide_true, if_true]
    have e : negFix (addFix a 1) = (((-a - 1).toNat : Nat) : Int) := by
      unfold negFix addFix wrap64; omega
    rw [e]
    have := intLen_loop (64 + 1) (-a - 1).toNat 0 (by omega) (by omega) (by omega) (Or.inl rfl)
    simp only [Nat.cast_zero] at this
    rw [this]
  · simp only [h, decide_false, if_false, Bool.false_eq_true]
    have e : a = ((a.toNat : Nat) : Int) := by omega
    have := intLen_loop (64 + 1) a.toNat 0 (by omega) (by omega) (by omega) (Or.inl rfl)
    simp only [Nat.cast_zero] at this
    rw [← e] at this
    rw [this]


/-! ## logbitp -/

/-- the fixnum branch of `logbitp`: bit `i` of the two's-complement expansion, also beyond the word -/
theorem gen_logbitp_spec (n i : Int) (hn : inRange n) (hi : 0 ≤ i) :
    NumImpl.logbitpFix n i = testBit n i.toNat := by
  rw [testBit_spec]
  unfold NumImpl.logbitpFix
  generalize hk : i.toNat = k
  have hik : i = (k : Int) := by omega
  have hp := pow2_pos k
  unfold inRange at hn
  by_cases h64 : i < 64
  · simp only [h64, decide_true, if_true]
    have hk64 : k < 64 := by omega
    -- 2^64 = 2^k * (2 * 2^(63-k))
    have hM : (18446744073709551616 : Int) = (2 : Int) ^ k * (2 * (2 : Int) ^ (63 - k)) := by
      have : (2 : Int) ^ k * (2 * (2 : Int) ^ (63 - k)) = (2 : Int) ^ (k + (1 + (63 - k))) := by
        rw [pow_add, pow_add]; ring
      rw [this]
      have : k + (1 + (63 - k)) = 64 := by omega
      rw [this]; norm_num
    have hdecomp : n / (2 : Int) ^ k = (n % 18446744073709551616) / (2 : Int) ^ k + 2 * ((2 : Int) ^ (63 - k) * (n / 18446744073709551616)) := by
      have e2 : n = n % 18446744073709551616 + (2 : Int) ^ k * (2 * ((2 : Int) ^ (63 - k) * (n / 18446744073709551616))) := by
        have : (18446744073709551616 : Int) * (n / 18446744073709551616) = (2 : Int) ^ k * (2 * ((2 : Int) ^ (63 - k) * (n / 18446744073709551616))) := by
          rw [hM]; ring
        omega
      conv_lhs => rw [e2]
      rw [Int.add_mul_ediv_left _ _ (ne_of_gt hp)]
    have hpar : (n / (2 : Int) ^ k) % 2 = ((n % 18446744073709551616) / (2 : Int) ^ k) % 2 := by
      rw [hdecomp]; omega
    rw [hpar]
    have hx0 : 0 ≤ (n % 18446744073709551616) / (2 : Int) ^ k := Int.ediv_nonneg (by omega) (le_of_lt hp)
    unfold andU shrU toU64
    rw [hik, Int.toNat_natCast]
    generalize (n % 18446744073709551616) / (2 : Int) ^ k = x at *
    have hx : x = ((x.toNat : Nat) : Int) := by omega
    have h1 : (1 : Int).toNat = 1 := rfl
    rw [h1, Nat.and_one_is_mod]
    by_cases hodd : x % 2 = 1
    · have : x.toNat % 2 = 1 := by omega
      simp [hodd, this]
    · have : x.toNat % 2 = 0 := by omega
      simp [hodd, this]
  · simp only [h64, decide_false, if_false, Bool.false_eq_true]
    have hk64 : 64 ≤ k := by omega
    have hm := pow2_mono 64 k hk64
    norm_num at hm
    by_cases hneg : n < 0
    · have : n / (2 : Int) ^ k = -1 := by
        apply ediv_unique _ _ _ hp <;> omega
      simp [hneg, this]
    · have : n / (2 : Int) ^ k = 0 := by
        apply ediv_unique _ _ _ hp <;> omega
      simp [hneg, this]


/-! ## comparisons: dispatch of compareReals, the chain loops of < <= > >= =, the folds of max and min -/

theorem cmpRat_spec (a b : Rat) :
    (cmpRat a b = -1 ↔ a < b) ∧ (cmpRat a b = 0 ↔ a = b) ∧ (cmpRat a b = 1 ↔ b < a) := by
  unfold cmpRat
  rcases lt_trichotomy a b with h | h | h
  · simp [h, not_lt.mpr (le_of_lt h), ne_of_lt h]
  · subst h; simp
  · have h1 : ¬ a < b := not_lt.mpr (le_of_lt h)
    have h2 : a ≠ b := ne_of_gt h
    simp [h, h1, h2]

theorem gen_compareDispatch_spec (vx vy : Rat) (xrat yrat xfin yfin : Bool) :
    (∀ c, NumImpl.compareDispatch vx vy xrat yrat xfin yfin = some c → c = cmpRat vx vy) ∧
    ((xrat = true ∧ (yrat = true ∨ yfin = true)) ∨ (yrat = true ∧ xfin = true) →
      NumImpl.compareDispatch vx vy xrat yrat xfin yfin = some (cmpRat vx vy)) := by
  unfold NumImpl.compareDispatch
  cases xrat <;> cases yrat <;> cases xfin <;> cases yfin <;> simp

/-- a loop whose body goes on with the argument exactly when the relation holds is the chain -/
theorem goChain_eq_chain (body : Rat → Rat → Option Rat) (rel : Rat → Rat → Bool)
    (h : ∀ t a, body t a = if rel t a = true then some a else none) (a : Rat) (rest : List Rat) :
    goChain body a rest = chain rel (a :: rest) := by
  induction rest generalizing a with
  | nil => rfl
  | cons b rest ih =>
    rw [goChain, chain, h]
    by_cases hr : rel a b = true
    · simp [hr, ih b]
    · simp [hr]

theorem gen_lt_chain (a : Rat) (rest : List Rat) : goChain NumImpl.ltBody a rest = chain lt (a :: rest) := by
  apply goChain_eq_chain
  intro t x
  obtain ⟨h1, h2, h3⟩ := cmpRat_spec t x
  unfold NumImpl.ltBody lt
  -- the three possible answers of compareReals, whatever test the loop body applies to them
  rcases lt_trichotomy t x with h | h | h
  · have e : cmpRat t x = -1 := h1.mpr h
    simp [e, h]
  · have e : cmpRat t x = 0 := h2.mpr h
    subst h; simp [e]
  · have e : cmpRat t x = 1 := h3.mpr h
    simp [e, not_lt.mpr (le_of_lt h)]

theorem gen_le_chain (a : Rat) (rest : List Rat) : goChain NumImpl.lteBody a rest = chain le (a :: rest) := by
  apply goChain_eq_chain
  intro t x
  obtain ⟨h1, h2, h3⟩ := cmpRat_spec t x
  unfold NumImpl.lteBody le
  -- the three possible answers of compareReals, whatever test the loop body applies to them
  rcases lt_trichotomy t x with h | h | h
  · have e : cmpRat t x = -1 := h1.mpr h
    simp [e, le_of_lt h]
  · have e : cmpRat t x = 0 := h2.mpr h
    subst h; simp [e]
  · have e : cmpRat t x = 1 := h3.mpr h
    simp [e, not_le.mpr h]

theorem gen_gt_chain (a : Rat) (rest : List Rat) : goChain NumImpl.gtBody a rest = chain gt (a :: rest) := by
  apply goChain_eq_chain
  intro t x
  obtain ⟨h1, h2, h3⟩ := cmpRat_spec t x
  unfold NumImpl.gtBody gt
  -- the three possible answers of compareReals, whatever test the loop body applies to them
  rcases lt_trichotomy t x with h | h | h
  · have e : cmpRat t x = -1 := h1.mpr h
    simp [e, not_lt.mpr (le_of_lt h)]
  · have e : cmpRat t x = 0 := h2.mpr h
    subst h; simp [e]
  · have e : cmpRat t x = 1 := h3.mpr h
    simp [e, h]

theorem gen_ge_chain (a : Rat) (rest : List Rat) : goChain NumImpl.gteBody a rest = chain ge (a :: rest) := by
  apply goChain_eq_chain
  intro t x
  obtain ⟨h1, h2, h3⟩ := cmpRat_spec t x
  unfold NumImpl.gteBody ge
  -- the three possible answers of compareReals, whatever test the loop body applies to them
  rcases lt_trichotomy t x with h | h | h
  · have e : cmpRat t x = -1 := h1.mpr h
    simp [e, not_le.mpr h]
  · have e : cmpRat t x = 0 := h2.mpr h
    subst h; simp [e]
  · have e : cmpRat t x = 1 := h3.mpr h
    simp [e, le_of_lt h]

/-- max / min: the loop bodies fold to the spec's maximum / minimum -/
theorem gen_max_fold (a : Rat) (rest : List Rat) : maxAll (a :: rest) = .ok (rest.foldl NumImpl.maxBody a) := by
  have hf : (fun (m x : Rat) => if m < x then x else m) = NumImpl.maxBody := by
    funext m x
    obtain ⟨_, _, h3⟩ := cmpRat_spec x m
    unfold NumImpl.maxBody
    by_cases h : m < x
    · simp [h, h3.mpr h]
    · have : cmpRat x m ≠ 1 := fun e => h (h3.mp e)
      simp [h, this]
  simp only [maxAll, hf]

theorem gen_min_fold (a : Rat) (rest : List Rat) : minAll (a :: rest) = .ok (rest.foldl NumImpl.minBody a) := by
  have hf : (fun (m x : Rat) => if x < m then x else m) = NumImpl.minBody := by
    funext m x
    obtain ⟨h1, _, _⟩ := cmpRat_spec x m
    unfold NumImpl.minBody
    by_cases h : x < m
    · simp [h, h1.mpr h]
    · have : cmpRat x m ≠ -1 := fun e => h (h1.mp e)
      simp [h, this]
  simp only [minAll, hf]

/-- `=`: from the last argument down, every argument must be `same` as the target -/
theorem gen_same_spec (x y : Rat) : NumImpl.sameReal x y = if x = y then some y else none := by
  obtain ⟨_, h2, _⟩ := cmpRat_spec x y
  unfold NumImpl.sameReal
  by_cases h : x = y
  · subst h; simp [(cmpRat_spec x x).2.1.mpr rfl]
  · have : cmpRat x y ≠ 0 := fun e => h (h2.mp e)
    simp [this, h]

theorem chain_eq_iff_all (a : Rat) (rest : List Rat) : chain eq (a :: rest) = rest.all (fun x => decide (x = a)) := by
  induction rest generalizing a with
  | nil => rfl
  | cons b rest ih =>
    rw [chain, ih b]
    unfold eq
    by_cases h : a = b
    · subst h; simp
    · have : ¬ b = a := fun e => h e.symm
      simp [h, this]

theorem chain_eq_true_iff (xs : List Rat) : chain eq xs = true ↔ ∀ x ∈ xs, ∀ y ∈ xs, x = y := by
  cases xs with
  | nil => simp [chain]
  | cons a rest =>
    rw [chain_eq_iff_all, List.all_eq_true]
    simp only [decide_eq_true_eq]
    constructor
    · intro h x hx y hy
      have ex : x = a := by rcases List.mem_cons.mp hx with e | e; exact e; exact h x e
      have ey : y = a := by rcases List.mem_cons.mp hy with e | e; exact e; exact h y e
      rw [ex, ey]
    · intro h x hx
      exact h x (List.mem_cons_of_mem _ hx) a (List.mem_cons_self ..)

theorem goChain_same (t : Rat) (more : List Rat) :
    goChain (fun t x => NumImpl.sameReal x t) t more = more.all (fun x => decide (x = t)) := by
  induction more with
  | nil => rfl
  | cons b rest ih =>
    rw [goChain, gen_same_spec]
    by_cases h : b = t
    · simp [h, ih]
    · simp [h]

/-- `(= x₁ … xₙ)` as the code computes it (every argument `same` as the last one, from the end) is
    the spec's chain of equalities -/
theorem gen_eq_chain (xs : List Rat) : goSame NumImpl.sameReal xs = chain eq xs := by
  rw [Bool.eq_iff_iff, chain_eq_true_iff]
  unfold goSame
  cases hrev : xs.reverse with
  | nil =>
    have : xs = [] := by simpa using hrev
    subst this; simp
  | cons t more =>
    simp only
    rw [goChain_same, List.all_eq_true]
    simp only [decide_eq_true_eq]
    have hmem : ∀ z, z ∈ xs ↔ z = t ∨ z ∈ more := by
      intro z
      rw [← List.mem_reverse, hrev, List.mem_cons]
    constructor
    · intro h x hx y hy
      have ex : x = t := by rcases (hmem x).mp hx with e | e; exact e; exact h x e
      have ey : y = t := by rcases (hmem y).mp hy with e | e; exact e; exact h y e
      rw [ex, ey]
    · intro h x hx
      exact h x ((hmem x).mpr (Or.inr hx)) t ((hmem t).mpr (Or.inl rfl))


/-! ## NormalizeNumber on the exact types -/

/-- NormalizeNumber on the exact types, as the code has it: both operands keep their value and
    come back in the wider of the two representations (fixnum < bignum < ratio); the only pair that
    leaves the exact types is a bignum outside the int64 range with a ratio (long-floats: the pinned
    known finding) — a bignum object holding a fixnum-range value is converted exactly -/
theorem gen_normalize_exact :
    (∀ a b : Int, NumImpl.normFixFix a b = some (.fix a, .fix b)) ∧
    (∀ a b : Int, NumImpl.normFixBig a b = some (.big a, .big b)) ∧
    (∀ (a : Int) (q : Rat), NumImpl.normFixRat a q = some (.ratio (a : Rat), .ratio q)) ∧
    (∀ a b : Int, NumImpl.normBigFix a b = some (.big a, .big b)) ∧
    (∀ a b : Int, NumImpl.normBigBig a b = some (.big a, .big b)) ∧
    (∀ (a : Int) (q : Rat), isFix a = true → NumImpl.normBigRat a q = some (.ratio (a : Rat), .ratio q)) ∧
    (∀ (a : Int) (q : Rat), isFix a = false → NumImpl.normBigRat a q = none) ∧
    (∀ (q : Rat) (b : Int), NumImpl.normRatFix q b = some (.ratio q, .ratio (b : Rat))) ∧
    (∀ (q : Rat) (b : Int), isFix b = true → NumImpl.normRatBig q b = some (.ratio q, .ratio (b : Rat))) ∧
    (∀ (q : Rat) (b : Int), isFix b = false → NumImpl.normRatBig q b = none) ∧
    (∀ p q : Rat, NumImpl.normRatRat p q = some (.ratio p, .ratio q)) := by
  refine ⟨fun _ _ => rfl, fun _ _ => rfl, fun _ _ => rfl, fun _ _ => rfl, fun _ _ => rfl, ?_, ?_, fun _ _ => rfl, ?_, ?_, fun _ _ => rfl⟩
  · intro a q h
    unfold NumImpl.normBigRat
    simp only [h, if_true]
    rw [wrap64_id a ((inRange_iff_isFix a).mpr h)]
  · intro a q h
    unfold NumImpl.normBigRat
    simp [h]
  · intro q b h
    unfold NumImpl.normRatBig
    simp only [h, if_true]
    rw [wrap64_id b ((inRange_iff_isFix b).mpr h)]
  · intro q b h
    unfold NumImpl.normRatBig
    simp [h]


/-! ## non-vacuity: the hypotheses are satisfiable and the translated code computes -/

example : DivOperands 7 (-2) ∧ DivOperands (-9223372036854775807) 9223372036854775807 := by
  unfold DivOperands inRange minFix; omega
example : ¬ DivOperands (-9223372036854775808) (-1) := by
  unfold DivOperands inRange minFix; omega
example : NumImpl.floorFix 7 2 = (3, 1) ∧ NumImpl.ceilingFix 7 (-2) = (-3, 1) ∧ NumImpl.truncateFix (-7) 2 = (-3, -1) ∧
    NumImpl.roundFix 7 2 = (4, -1) ∧ NumImpl.roundFix 5 2 = (2, 1) ∧ NumImpl.roundFix (-5) 2 = (-2, -1) := by decide
example : NumImpl.addFixnums 9223372036854775807 1 = .big 9223372036854775808 ∧
    NumImpl.mulFixnums (-1) (-9223372036854775808) = .big 9223372036854775808 ∧
    NumImpl.subFixnums (-9223372036854775808) 1 = .big (-9223372036854775809) ∧
    NumImpl.negFixnum (-9223372036854775808) = .big 9223372036854775808 := by decide
example : NumImpl.compareFix 1 2 = -1 ∧ NumImpl.compareFix 2 2 = 0 ∧ NumImpl.compareFix 3 2 = 1 := by decide
example : NumImpl.gcdFix 100 42 70 = 14 := by decide
example : NumImpl.normFixBig 3 18446744073709551616 = some (.big 3, .big 18446744073709551616) ∧
    NumImpl.normBigRat 18446744073709551616 3 = none ∧ NumImpl.normBigFix 5 7 = some (.big 5, .big 7) := by decide
example : NumImpl.compareDispatch 2 3 true false false true = some (-1) ∧
    NumImpl.compareDispatch 3 2 false true true false = some 1 ∧
    NumImpl.compareDispatch 1 1 false false true true = none := by decide
example : goChain NumImpl.ltBody 1 [3, 2] = false ∧ goChain NumImpl.ltBody 1 [2, 3] = true ∧
    goSame NumImpl.sameReal [2, 2, 2] = true ∧ goSame NumImpl.sameReal [2, 3, 2] = false ∧
    [3, 7, 5].foldl NumImpl.maxBody 1 = 7 := by decide
example : NumImpl.ashFix 1 62 = .fix 4611686018427387904 ∧ NumImpl.ashFix 1 63 = .big 9223372036854775808 ∧
    NumImpl.ashFix (-1) (-70) = .fix (-1) ∧ NumImpl.ashFix (-5) (-1) = .fix (-3) := by decide
example : NumImpl.absFix (-9223372036854775808) = .big 9223372036854775808 ∧ NumImpl.absFix (-3) = .fix 3 := by decide
example : NumImpl.integerLengthFix 255 = .fix 8 ∧ NumImpl.integerLengthFix (-256) = .fix 8 ∧ NumImpl.integerLengthFix 0 = .fix 0 := by decide
example : NumImpl.logbitpFix (-8) 2 = false ∧ NumImpl.logbitpFix (-8) 3 = true ∧ NumImpl.logbitpFix (-8) 70 = true ∧ NumImpl.logbitpFix 8 70 = false := by decide
example : NumImpl.lognotFix 5 = .fix (-6) ∧ NumImpl.signumFix (-7) = -1 ∧ NumImpl.evenpFix (-4) = true := by decide

end GenC05
end SlipVerif.Num
