import SlipVerif.Model.Num
import SlipVerif.Lemmas.Num
import SlipVerif.Lemmas.NumFix
import SlipVerif.Theorems.C05
import Mathlib.Tactic.Linarith
import Mathlib.Tactic.Ring
import Mathlib.Data.Nat.Log
import Mathlib.Data.Int.Bitwise
import Mathlib.Data.Rat.Defs
/-
  C05 — integer-length, logcount, logbitp, evenp/oddp, signum, numerator/denominator of
  SlipVerif.Model.Num: specification theorems for all integers / rationals.
-/
namespace SlipVerif.Num

/-! ## integer-length -/

/-- `bitLen n` is the number of binary digits: `2^(bitLen n - 1) ≤ n < 2^(bitLen n)` -/
theorem bitLen_spec (n : Nat) : n < 2 ^ bitLen n ∧ (n ≠ 0 → 2 ^ (bitLen n - 1) ≤ n) := by
  unfold bitLen
  by_cases h : n = 0
  · subst h; simp
  · rw [if_neg h]
    exact ⟨Nat.lt_log2_self, fun _ => by simpa using Nat.log2_self_le h⟩

/-- the number of digits is determined by those two inequalities -/
theorem bitLen_unique (n i : Nat) (h1 : n < 2 ^ i) (h2 : i = 0 ∨ 2 ^ (i - 1) ≤ n) : bitLen n = i := by
  obtain ⟨b1, b2⟩ := bitLen_spec n
  by_cases hn : n = 0
  · subst hn
    rcases h2 with h | h
    · subst h; simp [bitLen]
    · exfalso; have : 0 < 2 ^ (i - 1) := Nat.two_pow_pos _
      omega
  · have b2 := b2 hn
    have hi : i ≠ 0 := by
      intro h; subst h; simp at h1; exact hn h1
    have h2 : 2 ^ (i - 1) ≤ n := by rcases h2 with h | h; exact absurd h hi; exact h
    have hb : bitLen n ≠ 0 := by unfold bitLen; simp [hn]
    -- 2^(i-1) ≤ n < 2^(bitLen n)  ⇒  i - 1 < bitLen n ;  2^(bitLen n - 1) ≤ n < 2^i ⇒ bitLen n - 1 < i
    have c1 : i - 1 < bitLen n := (Nat.pow_lt_pow_iff_right (by norm_num : 1 < 2)).mp (lt_of_le_of_lt h2 b1)
    have c2 : bitLen n - 1 < i := (Nat.pow_lt_pow_iff_right (by norm_num : 1 < 2)).mp (lt_of_le_of_lt b2 h1)
    omega

/-- `(integer-length n)`: the smallest width `L` with `-2^L ≤ n < 2^L` -/
theorem integerLength_spec (n : Int) :
    0 ≤ integerLength n ∧
    -(2 : Int) ^ (integerLength n).toNat ≤ n ∧ n < (2 : Int) ^ (integerLength n).toNat ∧
    (n ≠ 0 → n ≠ -1 → (n < -(2 : Int) ^ ((integerLength n).toNat - 1) ∨ (2 : Int) ^ ((integerLength n).toNat - 1) ≤ n)) := by
  unfold integerLength
  by_cases h : n < 0
  · rw [if_pos h]
    obtain ⟨b1, b2⟩ := bitLen_spec (-n - 1).toNat
    have e : ((-n - 1).toNat : Int) = -n - 1 := by omega
    have b1' : ((-n - 1).toNat : Int) < (2 : Int) ^ bitLen (-n - 1).toNat := by exact_mod_cast b1
    simp only [Int.toNat_natCast]
    refine ⟨by omega, by omega, ?_, ?_⟩
    · have : (0 : Int) < (2 : Int) ^ bitLen (-n - 1).toNat := by positivity
      omega
    · intro _ hm1
      left
      have hne : (-n - 1).toNat ≠ 0 := by omega
      have b2' : ((2 ^ (bitLen (-n - 1).toNat - 1) : Nat) : Int) ≤ ((-n - 1).toNat : Int) := by exact_mod_cast b2 hne
      push_cast at b2'
      omega
  · rw [if_neg h]
    obtain ⟨b1, b2⟩ := bitLen_spec n.toNat
    have e : (n.toNat : Int) = n := by omega
    have b1' : (n.toNat : Int) < (2 : Int) ^ bitLen n.toNat := by exact_mod_cast b1
    simp only [Int.toNat_natCast]
    refine ⟨by omega, ?_, by omega, ?_⟩
    · have : (0 : Int) < (2 : Int) ^ bitLen n.toNat := by positivity
      omega
    · intro h0 _
      right
      have hne : n.toNat ≠ 0 := by omega
      have b2' : ((2 ^ (bitLen n.toNat - 1) : Nat) : Int) ≤ (n.toNat : Int) := by exact_mod_cast b2 hne
      push_cast at b2'
      omega

/-- a negative integer has the length of its complement -/
theorem integerLength_lnot (n : Int) : integerLength (lnot n) = integerLength n := by
  unfold integerLength lnot
  by_cases h : n < 0
  · have h' : ¬ (-n - 1 < 0) := by omega
    rw [if_pos h, if_neg h']
  · have h' : -n - 1 < 0 := by omega
    rw [if_neg h, if_pos h']
    congr 3; omega

/-! ## logcount -/

theorem popCount_zero : popCount 0 = 0 := by rw [popCount]; simp

theorem popCount_step (n : Nat) (h : n ≠ 0) : popCount n = n % 2 + popCount (n / 2) := by
  rw [popCount]; simp [h]

/-- doubling appends a 0 bit, doubling plus one appends a 1 bit: with `popCount 0 = 0` these two
    laws determine the bit count of every natural number -/
theorem popCount_double (n : Nat) : popCount (2 * n) = popCount n := by
  by_cases h : n = 0
  · subst h; rfl
  · rw [popCount_step (2 * n) (by omega)]
    have e1 : 2 * n % 2 = 0 := by omega
    have e2 : 2 * n / 2 = n := by omega
    rw [e1, e2]; omega

theorem popCount_double_succ (n : Nat) : popCount (2 * n + 1) = popCount n + 1 := by
  rw [popCount_step (2 * n + 1) (by omega)]
  have e1 : (2 * n + 1) % 2 = 1 := by omega
  have e2 : (2 * n + 1) / 2 = n := by omega
  rw [e1, e2]; omega

/-- the bit count is the number of positions below the length whose bit is set -/
theorem popCount_eq_countP (n : Nat) :
    popCount n = ((List.range (bitLen n)).filter (fun i => n.testBit i)).length := by
  induction n using Nat.strong_induction_on with
  | _ n ih =>
    by_cases h : n = 0
    · subst h; simp [popCount_zero, bitLen]
    · rw [popCount_step n h, ih (n / 2) (by omega)]
      -- bitLen n = bitLen (n/2) + 1 ; bit i+1 of n is bit i of n/2 ; bit 0 of n is n % 2
      have hl : bitLen n = bitLen (n / 2) + 1 := by
        obtain ⟨b1, b2⟩ := bitLen_spec (n / 2)
        apply bitLen_unique
        · have : n / 2 < 2 ^ bitLen (n / 2) := b1
          rw [Nat.pow_succ]; omega
        · right
          by_cases h2 : n / 2 = 0
          · have : n = 1 := by omega
            subst this; simp [bitLen]
          · have := b2 h2
            have hb : bitLen (n / 2) ≠ 0 := by unfold bitLen; simp [h2]
            have e : bitLen (n / 2) + 1 - 1 = (bitLen (n / 2) - 1) + 1 := by omega
            rw [e, Nat.pow_succ]; omega
      have hb0 : n.testBit 0 = decide (n % 2 = 1) := Nat.testBit_zero n
      have hshift : ((fun i => n.testBit i) ∘ Nat.succ) = (fun i => (n / 2).testBit i) := by
        funext i; simp [Nat.testBit_succ]
      rw [hl, List.range_succ_eq_map, List.filter_cons, List.filter_map, hshift]
      by_cases hodd : n % 2 = 1
      · simp [hb0, hodd]; omega
      · have : n % 2 = 0 := by omega
        simp [hb0, this]

/-- the 0 bits of a negative integer are the 1 bits of its complement -/
theorem logcount_lnot (n : Int) : logcount (lnot n) = logcount n := by
  unfold logcount lnot
  by_cases h : n < 0
  · have h' : ¬ (-n - 1 < 0) := by omega
    rw [if_pos h, if_neg h']
  · have h' : -n - 1 < 0 := by omega
    rw [if_neg h, if_pos h']
    congr 3; omega

theorem logcount_nonneg (n : Int) : 0 ≤ logcount n := by
  unfold logcount; split <;> omega

/-! ## logbitp: bit `i` is the parity of `⌊n / 2^i⌋` -/

theorem testBit_spec (n : Int) (i : Nat) : testBit n i = decide ((n / (2 : Int) ^ i) % 2 = 1) := by
  cases n with
  | ofNat m =>
    show m.testBit i = _
    rw [Nat.testBit_eq_decide_div_mod_eq]
    have : ((Int.ofNat m) / (2 : Int) ^ i) % 2 = ((m / 2 ^ i % 2 : Nat) : Int) := by
      simp [Int.ofNat_eq_natCast]
    rw [this]
    by_cases h : m / 2 ^ i % 2 = 1
    · simp [h]
    · have h0 : m / 2 ^ i % 2 = 0 := by omega
      simp [h0]
  | negSucc m =>
    show (!m.testBit i) = _
    rw [Nat.testBit_eq_decide_div_mod_eq]
    -- -(m+1) / 2^i = -(m / 2^i) - 1
    have hp : (0 : Int) < (2 : Int) ^ i := by positivity
    have hPn : 0 < 2 ^ i := Nat.two_pow_pos i
    have k1 : m / 2 ^ i * 2 ^ i ≤ m := Nat.div_mul_le_self m (2 ^ i)
    have k2 : m < m / 2 ^ i * 2 ^ i + 2 ^ i := Nat.lt_div_mul_add hPn
    generalize m / 2 ^ i = q at *
    have k1' : (q : Int) * (2 : Int) ^ i ≤ (m : Int) := by exact_mod_cast k1
    have k2' : (m : Int) < (q : Int) * (2 : Int) ^ i + (2 : Int) ^ i := by exact_mod_cast k2
    have hm : Int.negSucc m = -(m : Int) - 1 := by omega
    have hq : Int.negSucc m / (2 : Int) ^ i = -(q : Int) - 1 := by
      apply Impl.ediv_unique _ _ _ hp
      · have e : (-(q : Int) - 1) * (2 : Int) ^ i = -((q : Int) * (2 : Int) ^ i) - (2 : Int) ^ i := by ring
        rw [e, hm]; omega
      · have e : (-(q : Int) - 1 + 1) * (2 : Int) ^ i = -((q : Int) * (2 : Int) ^ i) := by ring
        rw [e, hm]; omega
    rw [hq]
    by_cases h : q % 2 = 1
    · rw [decide_eq_true h, decide_eq_false (by omega)]; rfl
    · rw [decide_eq_false h, decide_eq_true (by omega)]; rfl

theorem logbitp_spec (i n : Int) :
    (0 ≤ i → logbitp i n = .ok (decide ((n / (2 : Int) ^ i.toNat) % 2 = 1))) ∧
    (i < 0 → logbitp i n = .error .typeErr) := by
  unfold logbitp
  constructor
  · intro h; rw [if_neg (by omega), testBit_spec]
  · intro h; rw [if_pos h]

/-! ## evenp, oddp, signum, numerator, denominator -/

theorem evenp_iff (n : Int) : evenp n = true ↔ (2 : Int) ∣ n := by
  unfold evenp; simp [Int.dvd_iff_emod_eq_zero]

theorem oddp_eq_not_evenp (n : Int) : oddp n = !evenp n := by
  unfold oddp evenp
  have : n % 2 = 0 ∨ n % 2 = 1 := by omega
  rcases this with h | h <;> simp [h]

theorem signum_spec (r : Rat) :
    (signum r = -1 ∨ signum r = 0 ∨ signum r = 1) ∧ r = (signum r : Rat) * absR r ∧
    (signum r = 1 ↔ plusp r = true) ∧ (signum r = 0 ↔ zerop r = true) ∧ (signum r = -1 ↔ minusp r = true) := by
  unfold signum absR plusp zerop minusp
  rcases lt_trichotomy r 0 with h | h | h
  · have h1 : ¬ 0 < r := not_lt.mpr (le_of_lt h)
    have h2 : r ≠ 0 := ne_of_lt h
    simp [h, h1, h2]
  · subst h; simp
  · have h1 : ¬ r < 0 := not_lt.mpr (le_of_lt h)
    have h2 : r ≠ 0 := ne_of_gt h
    simp [h, h1, h2]

/-- numerator and denominator are the reduced fraction: positive denominator, coprime, quotient = r -/
theorem numerator_denominator_spec (r : Rat) :
    0 < denominator r ∧ r = (numerator r : Rat) / (denominator r : Rat) ∧
    Int.gcd (numerator r) (denominator r) = 1 ∧ (denominator r = 1 ↔ isInt r = true) := by
  unfold numerator denominator isInt
  refine ⟨by exact_mod_cast r.den_pos, ?_, ?_, ?_⟩
  · have := Rat.num_div_den r
    push_cast; exact this.symm
  · have := r.reduced
    simpa [Int.gcd, Nat.Coprime] using this
  · simp

/-! ## logeqv, lognand, lognor, logandc1/2, logorc1/2, logtest: bit i of the result is the Boolean
     function of bit i of the operands (infinite two's complement, negative operands included) -/

theorem logeqv_testBit (a b : Int) (i : Nat) : testBit (leqv a b) i = (testBit a i == testBit b i) := by
  unfold leqv; rw [lognot_testBit, logxor_testBit]; cases testBit a i <;> cases testBit b i <;> rfl
theorem lognand_testBit (a b : Int) (i : Nat) : testBit (lognand a b) i = !(testBit a i && testBit b i) := by
  unfold lognand; rw [lognot_testBit, logand_testBit]
theorem lognor_testBit (a b : Int) (i : Nat) : testBit (lognor a b) i = !(testBit a i || testBit b i) := by
  unfold lognor; rw [lognot_testBit, logior_testBit]
theorem logandc1_testBit (a b : Int) (i : Nat) : testBit (logandc1 a b) i = (!(testBit a i) && testBit b i) := by
  unfold logandc1; rw [logand_testBit, lognot_testBit]
theorem logandc2_testBit (a b : Int) (i : Nat) : testBit (logandc2 a b) i = (testBit a i && !(testBit b i)) := by
  unfold logandc2; rw [logand_testBit, lognot_testBit]
theorem logorc1_testBit (a b : Int) (i : Nat) : testBit (logorc1 a b) i = (!(testBit a i) || testBit b i) := by
  unfold logorc1; rw [logior_testBit, lognot_testBit]
theorem logorc2_testBit (a b : Int) (i : Nat) : testBit (logorc2 a b) i = (testBit a i || !(testBit b i)) := by
  unfold logorc2; rw [logior_testBit, lognot_testBit]

/-- an integer is non-zero iff some bit of its two's complement expansion is 1 -/
theorem ne_zero_iff_testBit (n : Int) : n ≠ 0 ↔ ∃ i, testBit n i = true := by
  cases n with
  | ofNat m =>
    constructor
    · intro h
      have hm : m ≠ 0 := by intro h0; apply h; simp [h0]
      obtain ⟨i, hi⟩ := Nat.exists_testBit_of_ne_zero hm
      exact ⟨i, by simpa [testBit] using hi⟩
    · rintro ⟨i, hi⟩ h0
      have hm : m = 0 := by simpa using h0
      subst hm
      simp [testBit] at hi
  | negSucc m =>
    constructor
    · intro _
      refine ⟨m, ?_⟩
      have : m.testBit m = false := Nat.testBit_lt_two_pow Nat.lt_two_pow_self
      simp [testBit, this]
    · intro _ h0; cases h0

/-- `(logtest a b)`: the two integers have a 1 bit in common -/
theorem logtest_iff (a b : Int) : logtest a b = true ↔ ∃ i, testBit a i = true ∧ testBit b i = true := by
  unfold logtest
  rw [bne_iff_ne, ne_zero_iff_testBit]
  constructor
  · rintro ⟨i, hi⟩; rw [logand_testBit] at hi; exact ⟨i, by simpa using hi⟩
  · rintro ⟨i, ha, hb⟩; exact ⟨i, by rw [logand_testBit, ha, hb]; rfl⟩

/-- n-ary logeqv: bit i of the result is 1 iff an even number of the operands have bit i clear -/
theorem leqvAll_testBit (xs : List Int) (i : Nat) :
    testBit (leqvAll xs) i = (xs.countP (fun x => !(testBit x i)) % 2 == 0) := by
  have key : ∀ (l : List Int) (acc : Int),
      testBit (l.foldl leqv acc) i = (testBit acc i == (l.countP (fun x => !(testBit x i)) % 2 == 0)) := by
    intro l
    induction l with
    | nil => intro acc; simp
    | cons x l ih =>
      intro acc
      rw [List.foldl_cons, ih, logeqv_testBit, List.countP_cons]
      rcases Nat.mod_two_eq_zero_or_one (l.countP (fun x => !(testBit x i))) with hc | hc
      · have h1 : (l.countP (fun x => !(testBit x i)) + 1) % 2 = 1 := by omega
        cases h : testBit x i <;> cases testBit acc i <;> simp [hc, h1]
      · have h1 : (l.countP (fun x => !(testBit x i)) + 1) % 2 = 0 := by omega
        cases h : testBit x i <;> cases testBit acc i <;> simp [hc, h1]
  unfold leqvAll
  rw [key]
  have : testBit (-1) i = true := by
    show testBit (Int.negSucc 0) i = true
    simp [testBit]
  rw [this]; simp

/-! ## non-vacuity -/

example : integerLength 0 = 0 ∧ integerLength (-1) = 0 ∧ integerLength 255 = 8 ∧ integerLength 256 = 9 ∧
    integerLength (-256) = 8 ∧ integerLength (-257) = 9 := by decide
example : logcount 13 = 3 ∧ logcount (-13) = 2 ∧ logcount (-1) = 0 := by
  refine ⟨?_, ?_, ?_⟩ <;> simp [logcount, popCount]
example : logbitp 0 (-18446744073709551616) = .ok false ∧ logbitp 70 (-1) = .ok true ∧ logbitp (-1) 5 = .error .typeErr := by decide
example : leqvAll [7, 3, 1] = 5 ∧ leqv 7 3 = -5 ∧ lognand 0 9223372036854775808 = -1 ∧ lognor 1 18446744073709551616 = -18446744073709551618 := by decide
example : evenp (-4) = true ∧ oddp (-3) = true ∧ oddp 4 = false := by decide

end SlipVerif.Num
