import SlipVerif.Theorems.C09
import SlipVerif.Theorems.C09Stack
import SlipVerif.Driver.Totality
/- C09 — obligations over the tables regenerated from the current sources
   (Gen/C09Reader.lean from code.go, Gen/C09Format.lean from pkg/cl/control.go).
   `readerTables` / `formatTables` are the very values the slipmodel driver runs with.
   A failure to build this module means a table entry, a switch clause or a mode assignment of the
   reader / format scanner no longer satisfies the condition the totality theorems need. -/
namespace SlipVerif.Theorems.GenC09
open SlipVerif.Totality SlipVerif.Driver.Totality SlipVerif.Theorems.C09

/-- the reader tables of code.go: every (mode, byte) entry is a handled action or '.', every mode a
    clause assigns is a table, retry clauses end in the initial mode which has no retry action, the
    default clause raises -/
theorem reader_tables_ok : ReaderOK readerTables = true := by decide +kernel

/-- the format directive table of control.go: dirScanMap covers all bytes, parameter start bytes
    are not terminators, every directive byte is a terminator, the default clause raises -/
theorem format_tables_ok : FormatOK formatTables = true := by decide +kernel

/-- every mode table has an entry for every byte (15 tables x 256 bytes) -/
theorem reader_mode_tables_complete : readerTables.tables.all (fun tb => decide (256 ≤ tb.length)) = true := by
  decide +kernel

/-- escByteMap is indexed by the input byte in the escOne clause -/
theorem esc_byte_map_complete : decide (256 ≤ SlipVerif.Gen.C09Reader.escByteMap.length) = true := by
  decide +kernel

/-- the byte arithmetic of the rune / sharp-number clauses stays in range: a byte that a table
    maps to runeDigit '1' (b - '0') or to sharpIntByte '9' / sharpNumByte '8' (int(b - '0')) is a
    decimal digit, runeHexA 'H' (b - 'A' + 10) only A-F, runeHexa 'h' (b - 'a' + 10) only a-f -/
theorem digit_actions_on_digits :
    (List.range readerTables.tables.length).all (fun m => (List.range 256).all (fun b =>
      match lookup readerTables m b with
      | some 49 => decide (48 ≤ b ∧ b ≤ 57)
      | some 57 => decide (48 ≤ b ∧ b ≤ 57)
      | some 56 => decide (48 ≤ b ∧ b ≤ 57)
      | some 72 => decide (65 ≤ b ∧ b ≤ 70)
      | some 104 => decide (97 ≤ b ∧ b ≤ 102)
      | _ => true)) = true := by
  decide +kernel

/-! instantiations of the general theorems for the current tables -/

theorem reader_step_total_now (m b : Nat) (hm : m < readerTables.tables.length) (hb : b < 256) :
    classify readerTables m b ≠ .indexFault :=
  reader_step_no_index_fault readerTables reader_tables_ok m b hm hb

theorem reader_run_total_now (bytes : List Nat) (hb : ∀ b ∈ bytes, b < 256) :
    (∃ p, run readerTables bytes = .mustRaise p) ∨
    (∃ sts, run readerTables bytes = .mayPass sts ∧ ∀ s ∈ sts, validState readerTables s = true) :=
  reader_run_total readerTables reader_tables_ok bytes hb

theorem format_scan_total_now (s : List Nat) (hb : ∀ b ∈ s, b < 256) :
    scanDirective formatTables s ≠ .outOfFuel ∧ scanDirective formatTables s ≠ .indexFault :=
  format_scan_total formatTables format_tables_ok s hb

/-! sharp macro argument and object stack (Gen/C09Sharp.lean, extracted from code.go) -/

open SlipVerif.ReaderStack SlipVerif.Theorems.C09Stack in
/-- the constants of the current sources: the guard before `r.sharpNum*10 + digit` leaves room for
    the digit (guard*10+9 ≤ math.MaxInt), the `r.base = r.sharpNum` clause checks a radix range inside
    what math/big accepts, ArrayMaxRank bounds the allocation -/
theorem sharp_consts_ok : SharpOK sharpConsts = true := by decide +kernel

open SlipVerif.ReaderStack SlipVerif.Theorems.C09Stack in
/-- `#<digits>A` / `#<digits>R` for every digit string, with the constants of the current sources -/
theorem sharp_dispatch_total_now (ds : List Nat) (hd : ∀ d ∈ ds, d ≤ 9) (array : Bool) :
    sharpDispatch sharpConsts ds array ≠ .fault :=
  (sharp_dispatch_total sharpConsts sharp_consts_ok ds hd array).1

/-- the model's stack operations are the code's: every open records len(r.stack) in r.starts and
    pushes exactly one opener; r.starts shrinks only in closeList, which raises first when it is empty -/
theorem stack_discipline :
    SlipVerif.Gen.C09Sharp.startsAppendsOK = true ∧ 1 ≤ SlipVerif.Gen.C09Sharp.startsAppendCount ∧
    SlipVerif.Gen.C09Sharp.startsShrinkOutsideClose = 0 ∧ SlipVerif.Gen.C09Sharp.closeGuardsEmpty = true := by
  decide

/-- every `c.args[c.argPos]` of control.go is reached only after both bounds of the cursor were
    checked in the same function (nextArg and the `~:@{` loop) -/
theorem cursor_guards_ok : cursorGuards.checksLow = true ∧ cursorGuards.checksHigh = true ∧
    1 ≤ SlipVerif.Gen.C09Format.argIndexSites := by decide

open SlipVerif.ReaderStack in
/-- argument cursor totality with the guards of the current sources: no sequence of argument
    consuming directives and `~*` moves indexes c.args out of range -/
theorem cursor_run_total_now (len : Nat) (ops : List CurOp) (k : Nat) :
    runCursor cursorGuards len 0 0 [] ops ≠ .fault k :=
  (SlipVerif.Theorems.C09Stack.cursor_run_total cursorGuards cursor_guards_ok.1 cursor_guards_ok.2.1 len ops 0 0 []
    (Int.le_refl 0) (Int.natCast_nonneg _) nofun).1 k

end SlipVerif.Theorems.GenC09
