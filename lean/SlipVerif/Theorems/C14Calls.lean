import SlipVerif.Model.Seq
import SlipVerif.Lemmas.Seq
/-
  C14 — the calls a function with side effects observes, where the language fixes them
  (`everyTrace`, `someTrace`, `mapTrace`, `reduceTrace` of Model/Seq.lean; the harness wraps the
  function argument in a lambda that records its arguments and compares the recorded calls).

  every / notevery apply the predicate to the argument tuples in order and stop at the first false
  value; some / notany stop at the first true value; map / mapcar apply the function to every tuple
  in order; reduce combines from the left (`(f acc x)`), with `:from-end` from the right (`(f x acc)`).
-/
namespace SlipVerif.Seq

/-- no decisive tuple: every tuple is passed to the function -/
theorem callsUntil_all (stop : List Obj → Bool) (ts : List (List Obj)) (h : ∀ t ∈ ts, stop t = false) :
    callsUntil stop ts = ts := by
  induction ts with
  | nil => rfl
  | cons t ts ih =>
    have ht : stop t = false := h t (by simp)
    simp only [callsUntil, ht, Bool.false_eq_true, if_false]
    rw [ih (fun u hu => h u (by simp [hu]))]

/-- the calls end with the first decisive tuple; nothing after it is passed to the function -/
theorem callsUntil_first (stop : List Obj → Bool) (pre post : List (List Obj)) (t : List Obj)
    (hpre : ∀ u ∈ pre, stop u = false) (ht : stop t = true) :
    callsUntil stop (pre ++ t :: post) = pre ++ [t] := by
  induction pre with
  | nil => simp [callsUntil, ht]
  | cons u pre ih =>
    have hu : stop u = false := hpre u (by simp)
    simp only [List.cons_append, callsUntil, hu, Bool.false_eq_true, if_false]
    rw [ih (fun v hv => hpre v (by simp [hv]))]

/-- a list either has no element satisfying `stop` or splits at the first one -/
theorem split_at_first (stop : List Obj → Bool) (ts : List (List Obj)) :
    (∀ t ∈ ts, stop t = false) ∨
      ∃ pre t post, ts = pre ++ t :: post ∧ (∀ u ∈ pre, stop u = false) ∧ stop t = true := by
  induction ts with
  | nil => left; simp
  | cons a ts ih =>
    by_cases ha : stop a = true
    · right; exact ⟨[], a, ts, rfl, by simp, ha⟩
    · have ha' : stop a = false := by simpa using ha
      rcases ih with h | ⟨pre, t, post, rfl, hpre, ht⟩
      · left
        intro t ht
        rcases List.mem_cons.mp ht with rfl | h'
        · exact ha'
        · exact h t h'
      · right
        refine ⟨a :: pre, t, post, rfl, ?_, ht⟩
        intro u hu
        rcases List.mem_cons.mp hu with rfl | h'
        · exact ha'
        · exact hpre u h'

/-- `every`: when it answers true the predicate has been applied to every argument tuple, in order;
    when it answers false, to the tuples up to and including the first one that is false — and to none after it -/
theorem every_calls (f : List Obj → Obj) (seqs : List (List Obj)) :
    (truthy (every f seqs) = true ∧ everyTrace f seqs = tuples seqs) ∨
    (truthy (every f seqs) = false ∧ ∃ pre t post, tuples seqs = pre ++ t :: post ∧
      (∀ u ∈ pre, truthy (f u) = true) ∧ truthy (f t) = false ∧ everyTrace f seqs = pre ++ [t]) := by
  unfold every everyTrace
  rcases split_at_first (fun t => !truthy (f t)) (tuples seqs) with h | ⟨pre, t, post, hsplit, hpre, ht⟩
  · left
    refine ⟨?_, callsUntil_all _ _ h⟩
    have : (tuples seqs).all (fun tup => truthy (f tup)) = true := by
      rw [List.all_eq_true]; intro t ht; simpa using h t ht
    rw [this]; rfl
  · right
    have hf : truthy (f t) = false := by simpa using ht
    refine ⟨?_, pre, t, post, hsplit, fun u hu => by simpa using hpre u hu, hf, ?_⟩
    · have : (tuples seqs).all (fun tup => truthy (f tup)) = false := by
        rw [List.all_eq_false]; exact ⟨t, by rw [hsplit]; simp, by simp [hf]⟩
      rw [this]; rfl
    · rw [hsplit]; exact callsUntil_first _ pre post t hpre ht

/-- `some` (and `notany`, its negation): the predicate is applied up to and including the first tuple that is true -/
theorem some_calls (f : List Obj → Obj) (seqs : List (List Obj)) :
    (truthy (some' f seqs) = false ∧ someTrace f seqs = tuples seqs) ∨
    (truthy (some' f seqs) = true ∧ ∃ pre t post, tuples seqs = pre ++ t :: post ∧
      (∀ u ∈ pre, truthy (f u) = false) ∧ truthy (f t) = true ∧ someTrace f seqs = pre ++ [t]) := by
  unfold some' someTrace
  rcases split_at_first (fun t => truthy (f t)) (tuples seqs) with h | ⟨pre, t, post, hsplit, hpre, ht⟩
  · left
    refine ⟨?_, callsUntil_all _ _ h⟩
    have : (tuples seqs).any (fun tup => truthy (f tup)) = false := by
      rw [List.any_eq_false]; intro t ht; simpa using h t ht
    rw [truthy_firstTruthy, this]
  · right
    refine ⟨?_, pre, t, post, hsplit, hpre, ht, ?_⟩
    · have : (tuples seqs).any (fun tup => truthy (f tup)) = true := by
        rw [List.any_eq_true]; exact ⟨t, by rw [hsplit]; simp, ht⟩
      rw [truthy_firstTruthy, this]
    · rw [hsplit]; exact callsUntil_first _ pre post t hpre ht

/-- `map` / `mapcar`: the function is applied to every argument tuple in order, and the result is
    what those calls returned -/
theorem map_calls (f : List Obj → Obj) (lists : List (List Obj)) :
    mapcar f lists = (mapTrace lists).map f ∧ (mapTrace lists).length = (tuples lists).length := ⟨rfl, rfl⟩

/-- the i-th call of a left fold receives the fold of the first i elements and the i-th element -/
theorem foldlTrace_eq (f : Obj → Obj → Obj) (z : Obj) (l : List Obj) :
    foldlTrace f z l = (List.range l.length).map (fun i => [(l.take i).foldl f z, l.getD i .nil]) := by
  induction l generalizing z with
  | nil => rfl
  | cons x xs ih =>
    simp only [foldlTrace, List.length_cons, List.range_succ_eq_map, List.map_cons, List.map_map]
    rw [ih (f z x)]
    simp [Function.comp_def]

/-- `reduce` with `:initial-value`: one call per element; the first call receives the initial value
    and the first element (with `:from-end` the last element and the initial value) -/
theorem reduce_calls_init (f : Obj → Obj → Obj) (z : Obj) (l : List Obj) :
    (reduceTrace f (some z) false l).length = l.length ∧
    (reduceTrace f (some z) true l).length = l.length ∧
    (∀ x xs, l = x :: xs → (reduceTrace f (some z) false l).head? = some [z, x]) ∧
    (∀ x xs, l.reverse = x :: xs → (reduceTrace f (some z) true l).head? = some [x, z]) := by
  refine ⟨?_, ?_, ?_, ?_⟩
  · simp [reduceTrace, foldlTrace_eq]
  · simp [reduceTrace, foldlTrace_eq]
  · intro x xs h; subst h; simp [reduceTrace, foldlTrace]
  · intro x xs h; simp [reduceTrace, h, foldlTrace]

/-- `reduce` without `:initial-value` on a non-empty subsequence: one call less than elements -/
theorem reduce_calls_no_init (f : Obj → Obj → Obj) (x : Obj) (xs : List Obj) :
    (reduceTrace f none false (x :: xs)).length = xs.length ∧
    (reduceTrace f none true (x :: xs)).length = xs.length := by
  constructor
  · simp [reduceTrace, foldlTrace_eq]
  · simp only [reduceTrace]
    cases h : (x :: xs).reverse with
    | nil => simp at h
    | cons y ys =>
      have : ys.length = xs.length := by
        have := congrArg List.length h
        simp at this; omega
      simp [foldlTrace_eq, this]

/-! non-vacuity -/
example : everyTrace (fun t => ofBool (t = [.int 1])) [[.int 1, .int 2, .int 3]] = [[.int 1], [.int 2]] := by decide
example : someTrace (fun t => ofBool (t = [.int 2])) [[.int 1, .int 2, .int 3]] = [[.int 1], [.int 2]] := by decide
example : reduceTrace (fun a b => .cons a b) none true [.int 1, .int 2, .int 3]
    = [[.int 2, .int 3], [.int 1, .cons (.int 2) (.int 3)]] := by decide
example : reduceTrace (fun a b => .cons a b) (some .nil) false [.int 1, .int 2]
    = [[.nil, .int 1], [.cons .nil (.int 1), .int 2]] := by decide

end SlipVerif.Seq
