import SlipVerif.Theorems.GenC06b
/-
  C06 — obligations over the regenerated list programs, part 4 (extension round 4): `append` with THREE
  list arguments in general (every list nil, empty or non-empty; any lengths).  The verification
  condition of three iterations of the loop over the argument vector is split into the 27 consistent
  combinations of shapes; it is expensive to check (minutes), hence a module of its own: it is rebuilt
  only when the translation of a list function (Gen/ListProgs.lean) changes.
-/
namespace SlipVerif.C06Gen
open SlipVerif.SliceProg
open SlipVerif.Gen

set_option maxHeartbeats 1600000 in
/-- `(append x y z)`: a fresh list with the elements of all three (each may be nil or empty) -/
theorem append3_refines (xs ys zs : List Val) (n1 n2 n3 : Bool)
    (h1 : n1 = true → xs = []) (h2 : n2 = true → ys = []) (h3 : n3 = true → zs = []) :
    ∃ r, run ListProgs.append [listArg 0 xs n1, listArg 1 ys n2, listArg 2 zs n3] = ⟨some (.ret r), none, []⟩
      ∧ r.vals = xs ++ ys ++ zs ∧ (r.isFresh = true ∨ xs ++ ys ++ zs = []) := by
  refine run_of_wp _ _ (fun o => ∃ r, o = ⟨some (.ret r), none, []⟩ ∧ r.vals = xs ++ ys ++ zs ∧ (r.isFresh = true ∨ xs ++ ys ++ zs = [])) ?_
  rcases xs with _ | ⟨x, xs⟩ <;> rcases ys with _ | ⟨y, ys⟩ <;> rcases zs with _ | ⟨z, zs⟩ <;> cases n1 <;> cases n2 <;> cases n3 <;>
    first
    | (exfalso; simp_all; done)
    | (vc [ListProgs.append]; done)
    | (vc [ListProgs.append]; simp [copyVals_make]; done)

example : run ListProgs.append [listArg 0 [1] false, listArg 1 [] true, listArg 2 [3, 4] false] = ⟨some (.ret (.lst ⟨[1, 3, 4], .fresh⟩)), none, []⟩ := by decide

end SlipVerif.C06Gen
