import SlipVerif.Model.Reader
import SlipVerif.Lemmas.Reader
/-
  C02 — reading is a function of the text, not of its delivery.

  The theorems are about the very definitions the `slipmodel` driver executes (`readAll`,
  `readBlocks`, `readOne` of Model/Reader.lean) and hold for *every* table value `T` — the tables
  regenerated from code.go are one instance (Theorems/GenC02.lean).
-/
namespace SlipVerif.Theorems.C02
open SlipVerif.Reader

/-- L1 is a left fold: reading `a ++ b` is reading `b` from the state reached after `a`. -/
theorem run1_append (T : Tables) (cfg : Cfg) (s : S1) (a b : List Byte) :
    run1 T cfg s (a ++ b) = run1 T cfg (run1 T cfg s a) b := by
  simp [run1, List.foldl_append]

/-- Chunk invariance of the specification: however the bytes of a text are grouped into pieces,
    the byte fold reaches the same state, hence the same objects, position and outcome. -/
theorem chunk_invariance_spec (T : Tables) (cfg : Cfg) (pieces : List (List Byte)) :
    run1 T cfg init1 pieces.flatten = pieces.foldl (fun s piece => run1 T cfg s piece) init1 := by
  suffices h : ∀ s, run1 T cfg s pieces.flatten = pieces.foldl (fun s piece => run1 T cfg s piece) s from h _
  induction pieces with
  | nil => intro s; simp [run1]
  | cons p ps ih => intro s; simp [List.flatten_cons, run1_append, ih]

example : (readAll ⟨[], [], [], [], [], [], [], [], [], [], [], [], [], [], [], [], [], [], 0, []⟩ {} []) matches .ok [] 0 := by
  decide

/-- **The block reader refines the byte fold.** For every table, configuration (read base, float
    format, one-form mode) and every way `blocks ++ [last]` of cutting a text into stream reads —
    empty reads included — the block reader with its `tokenStart` / `carry` / `buf` bookkeeping
    returns exactly what the byte-at-a-time specification returns on the concatenation: the same
    objects in the same order, the same position, the same error and the same objects finished
    before the error. All 15 modes are covered; no hypothesis on the tables. -/
theorem blocks_refine_bytes (T : Tables) (cfg : Cfg) (blocks : List (List Byte)) (last : List Byte) :
    readBlocks T cfg blocks last = readAll T cfg (blocks.flatten ++ last) := by
  unfold readBlocks readAll
  have h := runBlocks_sim T cfg blocks 0 init2 init1 (fun src => init_sim src) last
  generalize runBlocks T cfg 0 init2 blocks = r at h
  obtain ⟨base, s⟩ := r
  simp only [] at h ⊢
  have hr := run_sim T cfg last base last 0 s _ (by simp) (by omega) h
  rw [finish_sim T cfg last base _ _ hr, run1_append]

/-- **Reading is a function of the text, not of its delivery** (for the block reader): two
    deliveries of the same bytes give the same result. -/
theorem delivery_independent (T : Tables) (cfg : Cfg)
    (blocks₁ blocks₂ : List (List Byte)) (last₁ last₂ : List Byte)
    (h : blocks₁.flatten ++ last₁ = blocks₂.flatten ++ last₂) :
    readBlocks T cfg blocks₁ last₁ = readBlocks T cfg blocks₂ last₂ := by
  rw [blocks_refine_bytes, blocks_refine_bytes, h]

-- the hypothesis is satisfiable in a non-trivial way: "(ab c)" cut as ["(a","b c"] + ")" and as [] + whole
example : ([[40, 97], [98, 32, 99]] : List (List Byte)).flatten ++ [41] = ([] : List (List Byte)).flatten ++ [40, 97, 98, 32, 99, 41] := by
  decide

end SlipVerif.Theorems.C02
