import SlipVerif.Model.Reader
import SlipVerif.Model.ReaderHist
import SlipVerif.Lemmas.Reader
import SlipVerif.Lemmas.ReaderInv
import SlipVerif.Lemmas.ReaderHalt
import SlipVerif.Lemmas.ReaderMono
import SlipVerif.Lemmas.ReaderCont
/-
  C02 — reading is a function of the text, not of its delivery.

  The theorems are about the very definitions the `slipmodel` driver executes (`readAll`,
  `readBlocks`, `readOne` of Model/Reader.lean) and hold for *every* table value `T` — the tables
  regenerated from code.go are one instance (Theorems/GenC02.lean).
-/
namespace SlipVerif.Theorems.C02
open SlipVerif.Reader

/-- L1 is a left fold: reading `a ++ b` is reading `b` from the state reached after `a`. -/
theorem run1_append (T : Tables) (cfg : Cfg) (s : S1) (a b : List Byte) :
    run1 T cfg s (a ++ b) = run1 T cfg (run1 T cfg s a) b := by
  simp [run1, List.foldl_append]

/-- Chunk invariance of the specification: however the bytes of a text are grouped into pieces,
    the byte fold reaches the same state, hence the same objects, position and outcome. -/
theorem chunk_invariance_spec (T : Tables) (cfg : Cfg) (pieces : List (List Byte)) :
    run1 T cfg init1 pieces.flatten = pieces.foldl (fun s piece => run1 T cfg s piece) init1 := by
  suffices h : ∀ s, run1 T cfg s pieces.flatten = pieces.foldl (fun s piece => run1 T cfg s piece) s from h _
  induction pieces with
  | nil => intro s; simp [run1]
  | cons p ps ih => intro s; simp [List.flatten_cons, run1_append, ih]

example : (readAll ⟨[], [], [], [], [], [], [], [], [], [], [], [], [], [], [], [], [], [], [], 0, []⟩ {} []) matches .ok [] 0 := by
  decide

/-- **The block reader refines the byte fold.** For every table, configuration (read base, float
    format, one-form mode) and every way `blocks ++ [last]` of cutting a text into stream reads —
    empty reads included — the block reader with its `tokenStart` / `carry` / `buf` bookkeeping
    returns exactly what the byte-at-a-time specification returns on the concatenation: the same
    objects in the same order, the same position, the same error and the same objects finished
    before the error. All 16 modes are covered (`charStartMode` included); no hypothesis on the tables. -/
theorem blocks_refine_bytes (T : Tables) (cfg : Cfg) (blocks : List (List Byte)) (last : List Byte) :
    readBlocks T cfg blocks last = readAll T cfg (blocks.flatten ++ last) := by
  unfold readBlocks readAll
  have h := runBlocks_sim T cfg blocks 0 init2 init1 (fun src => init_sim src) last
  generalize runBlocks T cfg 0 init2 blocks = r at h
  obtain ⟨base, s⟩ := r
  simp only [] at h ⊢
  have hr := run_sim T cfg last base last 0 s _ (by simp) (by omega) h
  rw [finish_sim T cfg last base _ _ hr, run1_append]

/-- **Reading is a function of the text, not of its delivery** (for the block reader): two
    deliveries of the same bytes give the same result. -/
theorem delivery_independent (T : Tables) (cfg : Cfg)
    (blocks₁ blocks₂ : List (List Byte)) (last₁ last₂ : List Byte)
    (h : blocks₁.flatten ++ last₁ = blocks₂.flatten ++ last₂) :
    readBlocks T cfg blocks₁ last₁ = readBlocks T cfg blocks₂ last₂ := by
  rw [blocks_refine_bytes, blocks_refine_bytes, h]

-- the hypothesis is satisfiable in a non-trivial way: "(ab c)" cut as ["(a","b c"] + ")" and as [] + whole
example : ([[40, 97], [98, 32, 99]] : List (List Byte)).flatten ++ [41] = ([] : List (List Byte)).flatten ++ [40, 97, 98, 32, 99, 41] := by
  decide


/-- **Truncation is signalled.** If the text read so far stops inside a form — inside a list /
    vector / array / complex (depth > 0), inside a string or |symbol| or one of their escapes,
    inside `#`-dispatch (directly behind `#\\` included), inside a block comment, or behind a quote-like prefix whose datum is
    missing — then reading it as a whole text is an error (incomplete or parse error), for every
    table and configuration. It is never reported as `ok` with fewer or other objects. -/
-- (concrete instances of the hypotheses, with the regenerated tables: the samples of Theorems/GenC02)
theorem truncation_is_signalled (T : Tables) (cfg : Cfg) (p : List Byte)
    (hlive : (run1 T cfg init1 p).core.halt = none)
    (hstop : StopsInsideForm (run1 T cfg init1 p)) :
    ∃ e code, readAll T cfg p = .err e code := by
  unfold readAll finish1
  rw [hlive]
  simp only []
  have hinv : Inv (run1 T cfg init1 p).core := inv_run1 T cfg p init1 (by simpa [init1] using inv_init)
  obtain ⟨e, he⟩ := finishCore_err T cfg _ hinv hlive hstop
  exact ⟨e, (finishCore T cfg (run1 T cfg init1 p).core (run1 T cfg init1 p).mode (run1 T cfg init1 p).tok).code,
    by simp [resultOf, he]⟩

/-- the same, read the other way round: a text that is read as `ok` does not stop inside a form -/
theorem ok_implies_closed (T : Tables) (cfg : Cfg) (p : List Byte) (code : List Obj) (pos : Nat)
    (hlive : (run1 T cfg init1 p).core.halt = none)
    (hok : readAll T cfg p = .ok code pos) : ¬ StopsInsideForm (run1 T cfg init1 p) := by
  intro hstop
  obtain ⟨e, c, h⟩ := truncation_is_signalled T cfg p hlive hstop
  rw [h] at hok; cases hok

/-- the depth invariant behind it: at every point of every text the open-list indexes increase and
    each points at an opener on the stack, so depth > 0 means a non-empty stack -/
theorem depth_invariant (T : Tables) (cfg : Cfg) (p : List Byte) :
    Inv (run1 T cfg init1 p).core :=
  inv_run1 T cfg p init1 (by simpa [init1] using inv_init)

/-- **Step totality, lifted.** When every entry of every mode table is an action the model covers
    in that mode (`tablesOK`, decided for the regenerated tables in Theorems/GenC02), no text can
    drive the model out of its matrix: the `table` error is unreachable, so every disagreement
    with the implementation is about a modelled action. -/
-- (the non-trivial instance of `tablesOK T`: `GenC02.step_total` for the regenerated tables)
theorem table_error_unreachable (T : Tables) (hT : tablesOK T = true) (cfg : Cfg) (p : List Byte)
    (code : List Obj) : readAll T cfg p ≠ .err .table code := by
  have hrun := haltOK_run1 T hT cfg p init1 (by simp [HaltOK, init1])
  unfold readAll finish1
  cases hh : (run1 T cfg init1 p).core.halt with
  | some x =>
    simp only [resultOf, hh]
    cases x with
    | err e =>
      intro h; cases h
      exact hrun.1 hh
    | one q => intro h; cases h
  | none =>
    simp only []
    have hg := good_finishCore T cfg (run1 T cfg init1 p).mode (run1 T cfg init1 p).tok (good_of_none hh)
    rcases hg with h0 | ⟨e, he, h1⟩
    · simp [resultOf, h0]
    · simp only [resultOf, h1]
      intro h; cases h; exact he rfl

/-- **One-form position, part 1**: the position `readOne` reports lies within the text. -/
theorem readOne_position_partial (T : Tables) (hT : tablesOK T = true) (cfg : Cfg) (bs : List Byte)
    (o : Obj) (pos : Nat) (h : readOne T cfg bs = .ok (o, pos)) : pos ≤ bs.length := by
  have resultOf_ok : ∀ {c : Core} {n : Nat} {code : List Obj} {q : Nat},
      resultOf c n = .ok code q → c.halt = some (.one q) ∨ (c.halt = none ∧ q = n) := by
    intro c n code q h
    unfold resultOf at h
    split at h
    · cases h
    · rename_i hq; cases h; exact Or.inl hq
    · rename_i hq; cases h; exact Or.inr ⟨hq, rfl⟩
  have hrun := haltOK_run1 T hT { cfg with one := true } bs init1 (by simp [HaltOK, init1])
  have hpos : (run1 T { cfg with one := true } init1 bs).pos = bs.length := by
    rw [run1_pos]; simp [init1]
  unfold readOne at h
  split at h
  · rename_i o' tl pos' hall
    cases h
    unfold readAll finish1 at hall
    cases hh : (run1 T { cfg with one := true } init1 bs).core.halt with
    | some x =>
      simp only [hh] at hall
      rcases resultOf_ok hall with h1 | ⟨h1, _⟩
      · have := hrun.2 _ h1; omega
      · rw [hh] at h1; cases h1
    | none =>
      simp only [hh] at hall
      have hg := good_finishCore T { cfg with one := true } (run1 T { cfg with one := true } init1 bs).mode
        (run1 T { cfg with one := true } init1 bs).tok (good_of_none hh)
      rcases resultOf_ok hall with h1 | ⟨_, h2⟩
      · rcases hg with h0 | ⟨e, _, h3⟩
        · rw [h0] at h1; cases h1
        · rw [h3] at h1; cases h1
      · omega
  · cases h
  · cases h

/-- **One-form position, part 2**: once the first form is complete (or an error is met) nothing
    that follows in the text can change the form or the position reported: the result is a function
    of the bytes up to and including the byte that completed the form. -/
theorem readOne_ignores_rest (T : Tables) (cfg : Cfg) (p q₁ q₂ : List Byte)
    (hhalt : (run1 T cfg init1 p).core.halt ≠ none) :
    readAll T cfg (p ++ q₁) = readAll T cfg (p ++ q₂) := by
  have key : ∀ (q : List Byte) (s : S1), s.core.halt ≠ none →
      (run1 T cfg s q).core = s.core := by
    intro q
    induction q with
    | nil => intro s _; simp [run1]
    | cons b rest ih =>
      intro s hs
      have h1 : (step1 T cfg s b).core = s.core := by
        unfold step1
        cases hh : s.core.halt with
        | none => exact absurd hh hs
        | some x => rfl
      have := ih (step1 T cfg s b) (by rw [h1]; exact hs)
      simpa [run1, h1] using this
  unfold readAll finish1
  rw [run1_append, run1_append, key q₁ _ hhalt, key q₂ _ hhalt]
  cases hh : (run1 T cfg init1 p).core.halt with
  | none => exact absurd hh hhalt
  | some x => cases x <;> simp [resultOf, hh]

/-- **One form at a time, first form.** The object `readOne` returns is the first of the objects
    the whole-text read returns (whenever the whole text is readable): one-form mode and whole-text
    mode run in lockstep until the first object is emitted, and emitted objects are never changed
    or removed afterwards. -/
theorem readOne_is_first_form (T : Tables) (cfg : Cfg) (bs : List Byte) (o : Obj) (pos : Nat)
    (code : List Obj) (p : Nat)
    (hone : readOne T cfg bs = .ok (o, pos))
    (hall : readAll T { cfg with one := false } bs = .ok code p) :
    code.head? = some o := by
  -- what `resultOf … = ok` says about the code
  have resultOf_code : ∀ {c : Core} {n : Nat} {cd : List Obj} {q : Nat},
      resultOf c n = .ok cd q → cd = c.code := by
    intro c n cd q h
    unfold resultOf at h
    split at h <;> cases h <;> rfl
  unfold readOne at hone
  split at hone
  · rename_i o' tl pos' h1
    cases hone
    have hlock := one_vs_all T cfg bs init1 (by simp [init1]) (by simp [init1])
    unfold readAll finish1 at h1 hall
    rcases hlock with heq | ⟨o2, tl2, q, hh1, hc1, suffix, hc0⟩
    · -- lockstep to the end: the two finishes differ in nothing the result depends on
      rw [heq] at h1
      have hf := finishCore_cfg T { cfg with one := true } { cfg with one := false } rfl rfl
        (run1 T { cfg with one := false } init1 bs).core (run1 T { cfg with one := false } init1 bs).mode
        (run1 T { cfg with one := false } init1 bs).tok
      rw [hf] at h1
      rw [h1] at hall
      cases hall
      rfl
    · -- the one-form run halted with `o2 :: tl2`; the whole-text run only extended that list
      simp only [hh1] at h1
      have := resultOf_code h1
      rw [hc1] at this
      cases this
      cases hh0 : (run1 T { cfg with one := false } init1 bs).core.halt with
      | some x =>
        simp only [hh0] at hall
        have := resultOf_code hall
        rw [this, hc0]; rfl
      | none =>
        simp only [hh0] at hall
        have hcode := resultOf_code hall
        obtain ⟨sfx, hs⟩ := ext_finishCore T { cfg with one := false }
          (run1 T { cfg with one := false } init1 bs).core (run1 T { cfg with one := false } init1 bs).mode
          (run1 T { cfg with one := false } init1 bs).tok
        rw [hcode, hs, hc0]; rfl
  · cases hone
  · cases hone

/-- **One-form position, continuation form** (`readOne_position` in full). If `readOne` returns the
    form `o` and the position `pos`, then reading the whole text is: `o`, followed by whatever a
    *fresh* reader reads from `text.drop pos` — the same objects in the same order, the same final
    position (shifted by `pos`), the same error and the same objects finished before the error. So
    re-reading from the reported position never loses, repeats or re-tokenises anything, and nothing
    a reader remembers from the first form (`base`, `sharpNum`, the rune accumulator, `nextMode`,
    token / string bytes) can influence what follows. Hypotheses on the tables (both decided for the
    regenerated tables in Theorems/GenC02: `step_total`, `cont_ok`): every entry lies in the modelled
    matrix, and `contOK` — `sharpNum` is read only in `sharpNumMode`, `closeParen` sits only in
    `valueMode` on a byte the one-form exit counts to the form, a token is not ended by a `"`/`|` that
    opens a string, a string is ended only by `"`/`|`. -/
theorem readOne_continuation (T : Tables) (hT : tablesOK T = true) (hC : contOK T = true) (cfg : Cfg)
    (bs : List Byte) (o : Obj) (pos : Nat) (h : readOne T cfg bs = .ok (o, pos)) :
    readAll T { cfg with one := false } bs =
      (readAll T { cfg with one := false } (bs.drop pos)).shift [o] pos :=
  readOne_cont T hT hC cfg bs o pos h
-- (concrete instances with the regenerated tables: `GenC02.readOne_continuation_gen` and its samples)

/-- … and so the objects of the whole text are the first form followed by the objects of the rest. -/
theorem readOne_then_rest (T : Tables) (hT : tablesOK T = true) (hC : contOK T = true) (cfg : Cfg)
    (bs : List Byte) (o : Obj) (pos : Nat) (rest : List Obj) (p : Nat)
    (h : readOne T cfg bs = .ok (o, pos))
    (hrest : readAll T { cfg with one := false } (bs.drop pos) = .ok rest p) :
    readAll T { cfg with one := false } bs = .ok (o :: rest) (pos + p) := by
  rw [readOne_continuation T hT hC cfg bs o pos h, hrest]
  rfl

/-- … and a text whose rest stops inside a form (or is malformed) is reported with the same error,
    after the same objects: truncation is not hidden by reading form by form. -/
theorem readOne_then_error (T : Tables) (hT : tablesOK T = true) (hC : contOK T = true) (cfg : Cfg)
    (bs : List Byte) (o : Obj) (pos : Nat) (e : Err) (done : List Obj)
    (h : readOne T cfg bs = .ok (o, pos))
    (hrest : readAll T { cfg with one := false } (bs.drop pos) = .err e done) :
    readAll T { cfg with one := false } bs = .err e (o :: done) := by
  rw [readOne_continuation T hT hC cfg bs o pos h, hrest]
  rfl

/-! ### histories on one stream (Model/ReaderHist.lean): `read` mixed with character operations -/

/-- **Looking ahead is neutral.** `peek-char` leaves the cursor where it is: whatever is read
    afterwards — forms, characters, lines, bytes — is what would have been read without the peek.
    (An implementation that drops or duplicates the pushed back character breaks exactly this.) -/
theorem hist_peek_neutral (T : Tables) (cfg : Cfg) (text : List Byte) (s : HState) (ops : List HOp)
    (h0 : s.lastChar = 0) :
    (runHist T cfg text (hstep T cfg text s .peek).1 ops) = runHist T cfg text s ops := by
  have : (hstep T cfg text s .peek).1 = s := by
    unfold hstep
    cases hs : s.stopped
    · simp only [Bool.false_eq_true, if_false]
      cases text.drop s.cursor <;> (cases s; simp_all)
    · simp
  rw [this]

/-- **read-char followed by unread-char is neutral**: the cursor is back where it was. -/
theorem hist_unread_restores (T : Tables) (cfg : Cfg) (text : List Byte) (s : HState)
    (hlive : s.stopped = false) (h0 : s.lastChar = 0) (hmore : text.drop s.cursor ≠ []) :
    (hstep T cfg text (hstep T cfg text s .readChar).1 .unreadChar).1 = s := by
  have hlen : 0 < runeLen (text.drop s.cursor) := by
    unfold runeLen
    cases hd : text.drop s.cursor with
    | nil => exact absurd hd hmore
    | cons b bs =>
      simp only []
      split
      · split <;> simp
      · have := encodeRune_ne_nil (decodeRune (b :: bs))
        exact List.length_pos_iff.mpr this
  cases hd : text.drop s.cursor with
  | nil => exact absurd hd hmore
  | cons b bs =>
    rw [hd] at hlen
    have hne : runeLen (b :: bs) ≠ 0 := by omega
    cases s with
    | mk cursor lastChar stopped =>
      simp only [] at hlive h0 hd
      subst hlive h0
      simp [hstep, hd, hne]

/-- **A form read moves the cursor by exactly the form** and never beyond the text (with the
    regenerated tables: `GenC02.step_total`). -/
theorem hist_read_cursor_le (T : Tables) (hT : tablesOK T = true) (cfg : Cfg) (text : List Byte) (s : HState)
    (hc : s.cursor ≤ text.length) : (hstep T cfg text s .read).1.cursor ≤ text.length := by
  unfold hstep
  cases hs : s.stopped
  · simp only [Bool.false_eq_true, if_false]
    cases hr : readOne T cfg (text.drop s.cursor) with
    | ok v =>
      obtain ⟨o, pos⟩ := v
      have := readOne_position_partial T hT cfg _ o pos hr
      simp at this ⊢
      omega
    | error e =>
      cases e <;> simp [hc]
  · simpa using hc

/-- **One form at a time = the whole text** (on the history model the driver executes). If the
    text from the cursor on reads as the objects `code`, then `n` consecutive `(read stream)` calls
    return the first `n` of these objects, in order, and the eof value for every call after the last
    object — nothing is lost, repeated or read differently because the text is consumed form by form.
    (Hypotheses on the tables as for `readOne_continuation`.) -/
theorem hist_reads_are_the_forms (T : Tables) (hT : tablesOK T = true) (hC : contOK T = true) (cfg : Cfg)
    (text : List Byte) :
    ∀ (n c : Nat) (code : List Obj) (p lc : Nat), c ≤ text.length →
      readAll T { cfg with one := false } (text.drop c) = .ok code p →
      (runHist T cfg text { cursor := c, lastChar := lc } (List.replicate n .read)).2 =
        (code.take n).map HOut.form ++ List.replicate (n - code.length) HOut.eof := by
  intro n
  induction n with
  | zero => intro c code p lc _ _; simp [runHist]
  | succ n ih =>
    intro c code p lc hc hok
    simp only [List.replicate_succ, runHist]
    cases hr : readOne T cfg (text.drop c) with
    | ok v =>
      obtain ⟨o, pos⟩ := v
      have hpos := readOne_position_partial T hT cfg _ o pos hr
      have hcont := readOne_continuation T hT hC cfg _ o pos hr
      rw [hok] at hcont
      cases hrest : readAll T { cfg with one := false } ((text.drop c).drop pos) with
      | err e done => rw [hrest] at hcont; cases hcont
      | ok code' p' =>
        rw [hrest] at hcont
        simp only [Result.shift, Result.ok.injEq] at hcont
        obtain ⟨hcode, _⟩ := hcont
        subst hcode
        have hdrop : (text.drop c).drop pos = text.drop (c + pos) := by rw [List.drop_drop]
        rw [hdrop] at hrest
        have hlen : c + pos ≤ text.length := by simp at hpos; omega
        have := ih (c + pos) code' p' 0 hlen hrest
        simp [hstep, hr, this]
    | error e =>
      cases e with
      | eof =>
        have hnil := one_eof_all T hT hC cfg _ hr code p hok
        subst hnil
        have hrest : readAll T { cfg with one := false } (text.drop text.length) = .ok [] 0 := by
          rw [List.drop_length]; rfl
        have := ih text.length [] 0 0 (Nat.le_refl _) hrest
        simp [hstep, hr, this, List.replicate_succ]
      | _ =>
        exfalso
        unfold readOne at hr
        split at hr
        · cases hr
        · cases hr
        · rename_i e' code' hall
          rw [one_err_all T cfg _ _ _ hall] at hok
          cases hok

-- a non-trivial state satisfying the hypotheses: the cursor inside "ab c", nothing just read
example : ({ cursor := 1 } : HState).stopped = false ∧ ({ cursor := 1 } : HState).lastChar = 0 ∧
    ([97, 98, 32, 99] : List Byte).drop ({ cursor := 1 } : HState).cursor ≠ [] := by decide

end SlipVerif.Theorems.C02
