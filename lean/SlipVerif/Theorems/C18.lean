import SlipVerif.Model.JsonLisp
namespace SlipVerif.Json

theorem get_nil (j : J) : get [] j = some j := rfl

end SlipVerif.Json
