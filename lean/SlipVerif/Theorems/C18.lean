import SlipVerif.Model.JsonLisp
import SlipVerif.Lemmas.JsonPath
import SlipVerif.Lemmas.JsonLisp
import SlipVerif.Lemmas.JsonText
import SlipVerif.Lemmas.JsonScan
import SlipVerif.Lemmas.JsonConfig
import SlipVerif.Lemmas.JsonSen
import SlipVerif.Model.JsonWrite
import SlipVerif.Lemmas.JsonAlias
/-
  C18 — property theorems about the JSON model (Model/Json.lean, JsonText.lean, JsonLisp.lean),
  the model the correspondence harness (harness/cmd/vh/c18*.go) runs against the implementation.
-/
namespace SlipVerif.Json
open J

/-! ## get, has, get-all and walk agree (every path: keys, indices, wildcards, descents) -/

/-- `bag-get` returns the first node `:get-all` returns (none when there is none). -/
theorem get_eq_head_getAll (p : Path) (j : J) : get p j = (getAll p j).head? := by
  induction p generalizing j with
  | nil => simp [get, getAll]
  | cons s rest ih =>
    simp only [get, getAll]
    exact findSome_eq_head_flatMap _ _ _ (fun x => ih x)

/-- `bag-has` answers true exactly when `:get-all` returns something. -/
theorem has_iff_getAll (p : Path) (j : J) : has p j = !(getAll p j).isEmpty := by
  induction p generalizing j with
  | nil => simp [has, getAll]
  | cons s rest ih =>
    simp only [has, getAll]
    exact any_eq_flatMap_ne_nil _ _ _ (fun x => ih x)

/-- `bag-has` answers true exactly when `bag-get` finds a node. -/
theorem has_iff_get (p : Path) (j : J) : has p j = (get p j).isSome := by
  rw [has_iff_getAll, get_eq_head_getAll]
  cases getAll p j <;> simp

/-- `bag-walk` calls the function on exactly the nodes `:get-all` returns, in that order,
    whatever the function accumulates. -/
theorem walk_visits_exactly_getAll {σ : Type} (f : σ → J → σ) (p : Path) (s : σ) (j : J) :
    walk f p s j = (getAll p j).foldl f s := by
  induction p generalizing s j with
  | nil => simp [walk, getAll]
  | cons st rest ih =>
    have ih' : (fun s c => walk f rest s c) = (fun s c => (getAll rest c).foldl f s) := by
      funext s c; exact ih s c
    cases st with
    | key k =>
      cases j with
      | obj kvs =>
        simp only [walk, getAll, stepAll]
        cases lookup k kvs with
        | none => simp
        | some c => simp [ih]
      | _ => simp [walk, getAll, stepAll]
    | idx i =>
      cases j with
      | arr xs =>
        simp only [walk, getAll, stepAll]
        cases resolve i xs.length with
        | none => simp
        | some n =>
          cases hx : xs[n]? with
          | none => simp [hx]
          | some c => simp [hx, ih]
      | _ => simp [walk, getAll, stepAll]
    | wild =>
      cases j with
      | arr xs => simp only [walk, getAll, stepAll, children, ih', List.foldl_flatMap]
      | obj kvs => simp only [walk, getAll, stepAll, children, ih', List.foldl_flatMap, List.foldl_map]
      | _ => simp [walk, getAll, stepAll, children]
    | desc =>
      simp only [walk, getAll, stepAll]
      by_cases hc : j.isContainer = true
      · simp only [hc, if_true, foldDesc_eq, ih', List.foldl_flatMap]
      · simp [hc]

/-! ## set: the value is there afterwards, everything apart stays (definite paths) -/

/-- After a successful `bag-set` at a path of keys and indices, `bag-get` of that path returns
    the value (also when the set had to add members / arrays on the way). -/
theorem get_set_same (v : J) (p : Path) (j j' : J) (hd : definite p = true)
    (h : set v p j = .ok j') : get p j' = some v := by
  rw [set_eq_setAt_of_definite v p j hd] at h
  exact setAt_get_same v p hd j j' h

example : set (.int 9) [.key "a", .idx (-1)] (obj [("a", arr [.int 1, .int 2])])
    = .ok (obj [("a", arr [.int 1, .int 9])]) := by rfl
example : set (.int 9) [.key "x", .idx 1] (obj []) = .ok (obj [("x", arr [.null, .int 9])]) := by rfl

/-- Frame: a successful set leaves every path alone that parts from the set path at two
    different keys, or at a key against an index (`Apart`); what follows the parting step in the
    other path is arbitrary (wildcards and descents included). -/
theorem get_set_disjoint (v : J) (p q : Path) (j j' : J) (hd : definite p = true) (ha : Apart p q)
    (h : set v p j = .ok j') : get q j' = get q j := by
  rw [set_eq_setAt_of_definite v p j hd] at h
  exact setAt_get_apart v ha hd j j' h

example : Apart [.key "a", .idx 0] [.key "a", .key "b", .wild] := .cons .idxKey
example : Apart [.key "a", .key "c"] [.key "a", .key "b", .desc, .idx 2] := .cons (.keys (by decide))

/-- Frame inside an array that exists: a set below one element leaves everything below any
    other element alone; the two indices may be written from either end (`resolve`). -/
theorem get_set_disjoint_index (v : J) (pre p q : Path) (i k : Int) (xs : List J) (j j' : J)
    (hd : definite pre = true) (hg : get pre j = some (arr xs))
    (hne : resolve i xs.length ≠ resolve k xs.length)
    (h : set v (pre ++ .idx i :: p) j = .ok j') :
    get (pre ++ .idx k :: q) j' = get (pre ++ .idx k :: q) j := by
  have hset : set v (pre ++ .idx i :: p) j = setAt v false (pre ++ .idx i :: p) j ∨
      set v (pre ++ .idx i :: p) j = .error .badLast := by
    unfold set; split <;> simp
  rcases hset with hs | hs
  · rw [hs] at h
    exact setAt_get_apart_index v pre hd j j' xs i k p q hg hne h
  · rw [hs] at h; cases h

example : resolve (-1) 3 ≠ resolve 0 3 := by decide
example : resolve (-1) 3 = resolve 2 3 := by decide

/-! ## remove -/

/-- After `bag-remove` of a member, `bag-has` (and so `bag-get`) of that path finds nothing. -/
theorem remove_then_not_has (pre : Path) (k : String) (j j' : J) (hd : definite pre = true)
    (h : remove (pre ++ [.key k]) j = .ok j') : has (pre ++ [.key k]) j' = false := by
  rw [remove_definite pre (.key k) j hd rfl] at h
  cases h
  rw [has_iff_get, get_modifyAt _ pre hd]
  cases get pre j with
  | none => rfl
  | some c => simp [get_key_removeStep]

example : remove [.key "a", .key "b"] (obj [("a", obj [("b", .int 1), ("c", .int 2)])])
    = .ok (obj [("a", obj [("c", .int 2)])]) := by rfl

/-- `bag-remove` of an array element deletes that element and closes the gap. -/
theorem remove_index (pre : Path) (i : Int) (n : Nat) (xs : List J) (j j' : J) (hd : definite pre = true)
    (hg : get pre j = some (arr xs)) (hr : resolve i xs.length = some n)
    (h : remove (pre ++ [.idx i]) j = .ok j') : get pre j' = some (arr (xs.eraseIdx n)) := by
  rw [remove_definite pre (.idx i) j hd rfl] at h
  cases h
  have := get_modifyAt (removeStep (.idx i)) pre hd [] j
  simp only [List.append_nil] at this
  rw [this, hg]
  simp [removeStep, hr, get]

/-- Removing what is not there changes nothing. -/
theorem remove_absent (pre : Path) (s : Step) (j j' : J) (hd : definite pre = true) (hs : s.isDef = true)
    (hn : get pre j = none) (h : remove (pre ++ [s]) j = .ok j') : ∀ q, get (pre ++ q) j' = none := by
  rw [remove_definite pre s j hd hs] at h
  cases h
  intro q
  rw [get_modifyAt _ pre hd, hn]
  rfl

/-- Frame for remove: paths that part from the removed path at different keys, or at a key
    against an index, keep what they select. -/
theorem get_remove_disjoint (pre : Path) (last : Step) (q : Path) (j j' : J) (hd : definite pre = true)
    (hl : last.isDef = true) (ha : Apart (pre ++ [last]) q)
    (h : remove (pre ++ [last]) j = .ok j') : get q j' = get q j := by
  rw [remove_definite pre last j hd hl] at h
  cases h
  exact modifyAt_removeStep_apart last pre hd hl q j ha

/-! ## wildcard versions over get-all -/

/-- A set whose path ends in a wildcard below a definite prefix: afterwards every node the path
    selects is the value, and there are as many as before. -/
theorem set_wild_all (v : J) (pre : Path) (j j' : J) (hd : definite pre = true)
    (h : set v (pre ++ [.wild]) j = .ok j') :
    (∀ x ∈ getAll (pre ++ [.wild]) j', x = v) ∧
      (getAll (pre ++ [.wild]) j').length = (getAll (pre ++ [.wild]) j).length := by
  have hset : set v (pre ++ [.wild]) j = setAt v false (pre ++ [.wild]) j := by
    unfold set; simp
  rw [hset] at h
  obtain ⟨rfl, hsome⟩ := setAt_wild_eq_modifyAt v pre hd j j' h
  rw [getAll_modifyAt _ pre hd, getAll_append_definite pre hd]
  cases hg : get pre j with
  | none => simp [hg] at hsome
  | some c =>
    simp only [Option.toList, List.flatMap_cons, List.flatMap_nil, List.append_nil, getAll_wild]
    exact children_wildSet v c

/-- Removing with a final wildcard leaves nothing for the path to select. -/
theorem remove_wild_empty (pre : Path) (j j' : J) (hd : definite pre = true)
    (h : remove (pre ++ [.wild]) j = .ok j') : getAll (pre ++ [.wild]) j' = [] := by
  rw [remove_definite_pre pre .wild j hd (by simp)] at h
  cases h
  rw [getAll_modifyAt _ pre hd]
  cases get pre j <;> simp [getAll_wild_removeStep]

example : set (.int 0) [.key "a", .wild] (obj [("a", arr [.int 1, .str "x"])]) = .ok (obj [("a", arr [.int 0, .int 0])]) := by rfl

/-! ## bag → native Lisp → bag -/

/-- Inside the guard (no `false`, no empty array or object anywhere, object keys unique) a bag
    converted with `bag-native` and converted back (`make-bag`, `bag-set`, `:set`) is the same bag. -/
theorem native_roundtrip (j : J) (h : Faithful j = true) : ofLisp (toLisp j) = .ok j :=
  ofLisp_toLisp j h

example : Faithful (obj [("a", arr [.int 1, .null, .str "", obj [("b", .bool true)]]), ("c", .flo "1.5")]) = true := by decide

/-- The guard is exact: for a document with unique object keys (every parsed document) the trip
    through native Lisp gives the same bag if and only if the document is `Faithful`. -/
theorem native_roundtrip_exact (j : J) (hk : KeysDistinct j = true) :
    ofLisp (toLisp j) = .ok j ↔ Faithful j = true :=
  ⟨faithful_of_roundtrip j hk, ofLisp_toLisp j⟩

example : KeysDistinct (obj [("a", arr [.bool false, obj []]), ("b", .null)]) = true := by decide

/-- Outside the guard the documented mapping loses information: Lisp has neither a boolean
    false nor empty-container values, all of them arrive as `nil` and come back as `null`.
    (The harness replays these on the implementation: sweep cells of the native family.) -/
theorem native_roundtrip_fails_outside_guard :
    ofLisp (toLisp (.bool false)) = .ok .null ∧
    ofLisp (toLisp (arr [])) = .ok .null ∧
    ofLisp (toLisp (obj [])) = .ok .null ∧
    ofLisp (toLisp (arr [.int 1, .bool false])) = .ok (arr [.int 1, .null]) ∧
    ofLisp (toLisp (obj [("a", obj [])])) = .ok (obj [("a", .null)]) :=
  ⟨rfl, rfl, rfl, rfl, rfl⟩

/-- A Lisp value reaches a bag as `false` only through the symbol `:false` (any case). -/
theorem ofLisp_false_symbol : ofLisp (.sym ":false") = .ok (.bool false) ∧ ofLisp (.sym ":FALSE") = .ok (.bool false)
    ∧ ofLisp .nil = .ok .null := ⟨rfl, rfl, rfl⟩

/-! ## plain Go values → Lisp objects → plain Go values -/

/-- `slip.Simplify (slip.SimpleObject v)` returns the same data (integers widened to int64, floats
    to float64) for nil, true, integers inside int64, floats, strings, times and slices of these. -/
theorem simplify_roundtrip (g : G) (h : GFaithful g = true) : simplify (simpleObject g) = widen g :=
  simplify_simpleObject g h

example : GFaithful (.slice [.int 8 (-128), .uint 64 9223372036854775807, .f32 "1.5", .str "x", .time "2024-01-02T03:04:05Z", .nil, .slice []]) = true := by decide

/-- Outside the guard: `false` comes back as nil, a map as a slice of [key value] pairs (an assoc
    list simplifies to a list; `bag.ObjectToBag` is the documented inverse for maps), an unsigned
    value above the int64 maximum as its decimal text (a bignum simplifies to text). -/
theorem simplify_roundtrip_fails_outside_guard :
    simplify (simpleObject (.bool false)) = .nil ∧
    simplify (simpleObject (.map [("a", .int 64 1)])) = .slice [.slice [.str "a", .int 64 1]] ∧
    simplify (simpleObject (.uint 64 9223372036854775808)) = .str (String.ofList (intChars 9223372036854775808)) := by
  refine ⟨rfl, rfl, ?_⟩
  simp [simpleObject, simplify, fitsInt64]

/-- Whatever its Go width, an unsigned integer becomes the Lisp integer with the same value
    (never a negative one). -/
theorem simpleObject_uint_value (bits v : Nat) (h : bits ≠ 8) : simpleObject (.uint bits v) = .int v := by
  simp [simpleObject, h]

/-- Plain Go data of every listed kind — nil, true, integers of every width and sign (a uint64
    above the int64 maximum included), both float widths, strings, times, slices and string-keyed
    maps, nested — converted to Lisp objects (`slip.SimpleObject`) and put into a bag
    (`bag.ObjectToBag`: make-bag, bag-set, :set) is the same data. (The guard excludes what Lisp
    cannot express: `false` and empty containers arrive as nil.) -/
theorem go_data_into_bag (g : G) (h : GBag g = true) : ofLisp (simpleObject g) = .ok (gToJ g) :=
  ofLisp_simpleObject g h

example : GBag (.map [("a", .slice [.uint 64 18446744073709551615, .int 8 (-128), .f32 "1.5", .nil]), ("b", .map [("c", .time "t")])]) = true := by decide

/-- … and outside the guard the data is changed in exactly the documented way -/
theorem go_data_into_bag_outside_guard :
    ofLisp (simpleObject (.bool false)) = .ok .null ∧ ofLisp (simpleObject (.slice [])) = .ok .null ∧
    ofLisp (simpleObject (.map [])) = .ok .null := ⟨rfl, rfl, rfl⟩

/-! ## JSON text: the model parser reads back what the model writer wrote -/

/-- Writing a document (compact or with any white-space layout: the model's `:pretty` / `:depth`)
    and parsing the text gives the document back: string escapes, nesting, empty containers,
    integers of any size; floats are opaque number tokens with a point or exponent; object keys
    are unique (`TextOk`). -/
theorem write_parse_roundtrip (lay : Layout) (hl : lay.WsOnly) (j : J) (hj : TextOk j = true) :
    parse (write lay j) = .ok j :=
  parse_write lay hl j hj

/-- The same for every amount of fuel that covers the document (so the result never depends on
    how much more fuel the driver passes), with white space in front and any text behind that
    does not continue a number. -/
theorem write_parse_roundtrip_any_fuel (lay : Layout) (hl : lay.WsOnly) (j : J) (hj : TextOk j = true)
    (d fuel : Nat) (ws rest : List Char) (hws : ws.all isWs = true) (hf : need j ≤ fuel) (hr : RestOk rest) :
    parseValue fuel (ws ++ (writeV lay d j ++ rest)) = .ok (j, rest) :=
  parseValue_writeV lay hl j hj d fuel ws rest hws hf hr

/-- the two layouts the driver uses satisfy the hypothesis -/
theorem layouts_wsOnly (n : Nat) : Layout.compact.WsOnly ∧ (Layout.indent n).WsOnly :=
  ⟨Layout.compact_wsOnly, Layout.indent_wsOnly n⟩

example : TextOk (obj [("a", arr [.int (-12345678901234567890123), .flo "-1.5e+300", .str "x\n\"\\é\u0001", arr [], obj []]),
    ("b", .null)]) = true := by decide

/-- Integers are written in decimal and read back exactly, whatever their size. -/
theorem int_text_roundtrip (i : Int) : classify (intChars i) = .ok (.int i) := classify_intChars i

/-- String bodies are read back exactly, whatever characters they hold. -/
theorem string_text_roundtrip (s : String) (rest : List Char) :
    readStr ((writeStr s).drop 1 ++ rest) = .ok (s.toList, rest) := by
  simp only [writeStr, List.drop_succ_cons, List.drop_zero, List.append_assoc, List.cons_append, List.nil_append]
  exact readStr_esc s.toList rest

/-! ## several documents in one text (json-parse, each-bag, streams) -/

/-- Documents written one after the other (any white-space layout, white space between them —
    required only where two documents could otherwise run together —, optional white space at
    both ends) are read back as exactly that list of documents: every document delivered equals
    its own source. -/
theorem parseMany_roundtrip (lay : Layout) (hl : lay.WsOnly) (ds : List (List Char × J)) (tail : List Char)
    (hds : ∀ d ∈ ds, d.1.all isWs = true ∧ TextOk d.2 = true) (hsep : ∀ d ∈ ds.tail, d.1 ≠ [])
    (ht : tail.all isWs = true) :
    parseMany (String.ofList (writeDocs lay ds ++ tail)) = .ok (ds.map (·.2)) := by
  unfold parseMany
  simp only [String.toList_ofList, String.length_ofList]
  apply parseManyAux_writeDocs lay hl ds tail _ hds hsep ht
  have := length_writeDocs lay ds (fun d h => (hds d h).2)
  simp only [List.length_append]
  omega

/-- a concrete instance of the hypotheses: `{"a":1}`, a newline, `[2,3]`, a blank, `4` -/
example : (∀ d ∈ [(([] : List Char), obj [("a", .int 1)]), (['\n'], arr [.int 2, .int 3]), ([' '], J.int 4)],
      d.1.all isWs = true ∧ TextOk d.2 = true) ∧
    (∀ d ∈ [(([] : List Char), obj [("a", .int 1)]), (['\n'], arr [.int 2, .int 3]), ([' '], J.int 4)].tail, d.1 ≠ []) := by
  constructor <;> intro d hd <;> simp at hd <;> rcases hd with rfl | rfl | rfl <;> decide

/-! ## scan -/

/-- `bag-scan` reports nodes that are there: for a document with unique keys, `bag-get` of a
    reported path returns the reported node. -/
theorem scan_agrees_with_get (j : J) (hk : KeysDistinct j = true) (p : Path) (v : J)
    (h : (p, v) ∈ scan j) : get p j = some v :=
  scan_get j hk (p, v) h

/-- `:leaves-only` reports exactly the reported nodes that are not containers. -/
theorem scanLeaves_iff (j : J) (pv : Path × J) :
    pv ∈ scanLeaves j ↔ pv ∈ scan j ∧ pv.2.isContainer = false := by
  simp [scanLeaves]

/-- the document itself is reported first, with the empty path -/
theorem scan_root (j : J) : (scan j).head? = some ([], j) := by
  cases j <;> simp [scan]

/-! ## the configuration as state: *bag-time-format*, *bag-time-wrap* and the stored converter -/

/-- After any history of settings the stored converter is the one the current values of the two
    variables call for: what a parse does never depends on earlier values. -/
theorem conv_is_derived (ops : List CfgOp) :
    (runHistory ops Cfg.init).conv = derive (runHistory ops Cfg.init).format (runHistory ops Cfg.init).wrap :=
  runHistory_coherent ops Cfg.init rfl

/-- Two histories that end with the same values of the variables end in the same configuration. -/
theorem history_independent (ops₁ ops₂ : List CfgOp)
    (hf : (runHistory ops₁ Cfg.init).format = (runHistory ops₂ Cfg.init).format)
    (hw : (runHistory ops₁ Cfg.init).wrap = (runHistory ops₂ Cfg.init).wrap) :
    runHistory ops₁ Cfg.init = runHistory ops₂ Cfg.init := by
  have h1 := conv_is_derived ops₁
  have h2 := conv_is_derived ops₂
  rw [hf, hw] at h1
  cases hc1 : runHistory ops₁ Cfg.init
  cases hc2 : runHistory ops₂ Cfg.init
  simp_all

/-- Setting *bag-time-format* back to nil switches every converter off, whatever was set before
    and whatever *bag-time-wrap* holds; with both variables back at nil the configuration is the
    one of a process that never touched them. -/
theorem reset_restores_default (ops : List CfgOp) :
    (setFormat "" (runHistory ops Cfg.init)).conv = .off ∧
    runHistory (ops ++ [.format "", .wrap ""]) Cfg.init = Cfg.init := by
  constructor
  · simp only [setFormat]
    rw [updateConverter_conv]
    simp [derive]
  · have hcoh := runHistory_coherent (ops ++ [.format "", .wrap ""]) Cfg.init rfl
    have hf : (runHistory (ops ++ [.format "", .wrap ""]) Cfg.init).format = "" := by
      simp only [runHistory, List.foldl_append, List.foldl_cons, List.foldl_nil, applyOp, setWrap, setFormat]
      rw [(updateConverter_vars _).1]
      simp only []
      rw [(updateConverter_vars _).1]
    have hw : (runHistory (ops ++ [.format "", .wrap ""]) Cfg.init).wrap = "" := by
      simp only [runHistory, List.foldl_append, List.foldl_cons, List.foldl_nil, applyOp, setWrap, setFormat]
      rw [(updateConverter_vars _).2]
    unfold Cfg.Coherent at hcoh
    rw [hf, hw] at hcoh
    cases hc : runHistory (ops ++ [.format "", .wrap ""]) Cfg.init
    simp_all [Cfg.init, derive]

/-- With the converter off a parse entry point holds exactly what the parser read. -/
theorem parseWith_default (text : String) : parseWith Cfg.init text = parse text := by
  unfold parseWith
  cases parse text with
  | error e => rfl
  | ok j => simp [Except.map, Cfg.init, convertDoc_off]

example : (runHistory [.format "second", .wrap "t", .format ""] Cfg.init).conv = .off := by decide
example : (runHistory [.format "second"] Cfg.init).conv = .second := by decide

/-! ## SEN text (the default text form of bags): bare words, no commas -/

/-- Writing a document as SEN (quotes dropped for plain words, as values and as member keys;
    items separated by blanks instead of commas; any white-space layout) and reading the text with
    the SEN reader gives the document back. -/
theorem sen_write_parse_roundtrip (lay : Layout) (hl : lay.WsOnly) (j : J) (hj : TextOk j = true) :
    parseSen (writeSen lay j) = .ok j :=
  parseSen_writeSen lay hl j hj

/-- The same for every sufficient fuel, with separators (white space, commas) in front and any
    text behind that starts with a delimiter. -/
theorem sen_write_parse_roundtrip_any_fuel (lay : Layout) (hl : lay.WsOnly) (j : J) (hj : TextOk j = true)
    (d fuel : Nat) (ws rest : List Char) (hws : ws.all isSep = true) (hf : needS j ≤ fuel) (hr : RestDelim rest) :
    parseSenValue fuel (ws ++ (writeSenV lay d j ++ rest)) = .ok (j, rest) :=
  parseSenValue_write lay hl j hj d fuel ws rest hws hf hr

/-- Everything JSON is SEN: the SEN reader (the one `make-bag`, `:parse`, `bag-parse`, `bag-read`
    use) reads what the JSON writer wrote as the same document. -/
theorem sen_reads_json (lay : Layout) (hl : lay.WsOnly) (j : J) (hj : TextOk j = true) :
    parseSen (write lay j) = .ok j :=
  parseSen_write lay hl j hj

/-- A plain word is a string: what the SEN writer leaves without quotes reads back as itself, and
    the three keywords are never left bare. -/
theorem sen_bare_word (cs : List Char) (h : bareOk cs = true) :
    tokValue cs = .ok (str (String.ofList cs)) ∧ cs ≠ kwNull ∧ cs ≠ kwTrue ∧ cs ≠ kwFalse := by
  refine ⟨tokValue_bare cs h, ?_, ?_, ?_⟩ <;>
    (simp only [bareOk, Bool.and_eq_true, Bool.not_eq_true', decide_eq_false_iff_not] at h; simp [h])

example : bareOk "word_2".toList = true ∧ bareOk "null".toList = false ∧ bareOk "a b".toList = false ∧ bareOk "1a".toList = false := by decide

/-! ## a parse that fails leaves no trace (histories of parse calls) -/

/-- the results of a history of parse calls -/
def runParses (texts : List String) : List (Except PErr J) := texts.map parseSen

/-- What a text parses to does not depend on the texts parsed before it (valid or not) nor on the
    ones parsed after it: the reader is a function of the text alone. (The implementation keeps
    pooled parsers; the recover family of the harness checks it against this.) -/
theorem parses_independent (before after : List String) (t : String) :
    (runParses (before ++ t :: after))[before.length]? = some (parseSen t) := by
  simp [runParses]

/-- in particular: a document written by either writer parses to itself after any history -/
theorem parse_after_any_history (before : List String) (lay : Layout) (hl : lay.WsOnly) (j : J) (hj : TextOk j = true) :
    (runParses (before ++ [writeSen lay j]))[before.length]? = some (.ok j) ∧
    (runParses (before ++ [write lay j]))[before.length]? = some (.ok j) := by
  constructor
  · rw [parses_independent before [] _, sen_write_parse_roundtrip lay hl j hj]
  · rw [parses_independent before [] _, sen_reads_json lay hl j hj]

/-! ## the options of bag-write -/

/-- the model's picture of the text `bag-write` produces under the collected settings: SEN or JSON
    by the SEN flag, one item per line with the indentation in force when the pretty writer is
    chosen, compact otherwise -/
def textOf (w : WOpts) (j : J) : String :=
  let lay := if writerOf w = .pretty then Layout.indent w.indent.toNat else Layout.compact
  if w.sen then writeSen lay j else write lay j

/-- Whatever keywords `bag-write` is given (any list the argument reader accepts, in any order,
    repeated or not; any value of *print-pretty* and of the right margin): the text it writes is
    read back by the bag reader as an equal bag. -/
theorem write_options_roundtrip (printPretty : Bool) (margin : Int) (kws : List (String × KwVal)) (w : WOpts)
    (_h : applyKws kws (WOpts.init printPretty margin) = some w) (j : J) (hj : TextOk j = true) :
    parseSen (textOf w j) = .ok j := by
  unfold textOf
  have hl : (if writerOf w = .pretty then Layout.indent w.indent.toNat else Layout.compact).WsOnly := by
    split
    · exact Layout.indent_wsOnly _
    · exact Layout.compact_wsOnly
  by_cases hs : w.sen = true
  · simp only [hs, if_true]; exact sen_write_parse_roundtrip _ hl j hj
  · simp only [hs, Bool.false_eq_true, if_false]; exact sen_reads_json _ hl j hj

example : applyKws [(":pretty", .t), (":depth", .fix 0), (":json", .t)] (WOpts.init false 80) =
    some { prty := true, maxDepth := 0, indent := 0, sen := false, color := false, width := 80, sort := true,
           timeFormat := none, timeWrap := none } := by decide

/-- With `:json` non-nil last among the `:json` keywords the text is strict JSON: the strict reader
    (json-parse with the strict flag) reads it back too. -/
theorem write_options_json_strict (w : WOpts) (hs : w.sen = false) (j : J) (hj : TextOk j = true) :
    parse (textOf w j) = .ok j := by
  unfold textOf
  simp only [hs, Bool.false_eq_true, if_false]
  split
  · exact write_parse_roundtrip _ (Layout.indent_wsOnly _) j hj
  · exact write_parse_roundtrip _ Layout.compact_wsOnly j hj

/-- the SEN flag after a keyword list is decided by its last `:json` keyword (SEN when there is none) -/
theorem json_keyword_last_wins (kws : List (String × KwVal)) (v : KwVal) (w0 w : WOpts)
    (h : applyKws (kws ++ [(":json", v)]) w0 = some w) : w.sen = !v.notNil := by
  induction kws generalizing w0 with
  | nil =>
    simp only [List.nil_append, applyKws, applyKw] at h
    simp at h
    rw [← h]
  | cons kv rest ih =>
    obtain ⟨k, x⟩ := kv
    simp only [List.cons_append, applyKws] at h
    cases hk : applyKw k x w0 with
    | none => simp [hk] at h
    | some w1 =>
      simp only [hk, Option.bind_some] at h
      exact ih w1 h

/-- the pretty writer is used exactly when the pretty flag is on and the depth exceeds 1 -/
theorem pretty_writer_iff (w : WOpts) : writerOf w = .pretty ↔ (w.prty = true ∧ 1 < w.maxDepth) := by
  unfold writerOf
  by_cases h1 : w.prty = true <;> by_cases h2 : 1 < w.maxDepth <;> simp [h1, h2] <;> split <;> simp

/-! ## several bags on one tree (Model/JsonAlias.lean): a write through any bag is seen by every bag -/

/-- reads through a bag are reads of the root tree at the bag's place: `get-all` (and with it get,
    has, walk, which are functions of it) through a view = the same selection from the root below
    the view's path. -/
theorem view_read_refines (h : Heap) (u : View) (p : Path) (t : J) (hd : definite u.path = true)
    (ht : h.trees[u.root]? = some t) :
    ((h.tree u).toList.flatMap (getAll p)) = getAll (u.path ++ p) t := by
  simp only [Heap.tree, ht, Option.bind_some]
  exact (getAll_append_definite u.path hd p t).symm

/-- get along a definite prefix goes through the node the prefix locates -/
theorem get_append_definite (pre q : Path) (j : J) (hd : definite pre = true) :
    get (pre ++ q) j = (get pre j).bind (get q) := by
  rw [get_eq_head_getAll, getAll_append_definite pre hd q j]
  cases get pre j with
  | none => simp
  | some c => simp [get_eq_head_getAll]

/-- A child bag (`(bag-get b p t)`, an element of `:get-all`, the argument of a `bag-walk` function)
    shows the node the path selects in the parent — as a view of the parent's tree when the node is
    a container, so that `alias_write_refines` applies to every later write through either bag. -/
theorem child_shows_node (h h' : Heap) (b : Nat) (p : Path) (v : View) (t : J)
    (hv : h.views[b]? = some v) (hd : definite v.path = true) (ht : h.tree v = some t)
    (hs : h.child b p = .ok h') :
    h'.bagTree h.views.length = get p t := by
  unfold Heap.child at hs
  simp only [hv, ht] at hs
  split at hs
  · cases hs
  · split at hs
    · cases hs
    · cases hs
    · rename_i c hc hget
      split at hs
      · cases hs
        cases hr : h.trees[v.root]? with
        | none => simp [Heap.tree, hr] at ht
        | some r =>
          have hg : get v.path r = some t := by simpa [Heap.tree, hr] using ht
          simp [Heap.bagTree, Heap.tree, hr, get_append_definite v.path p r hd, hg, hget]
      · cases hs
        simp [Heap.bagTree, Heap.tree, Heap.newBag, hget, get]

/-- A bag that is given a tree of its own (a parse / read / set without a path) shows that tree; the
    bags that shared its old tree keep what they showed. -/
theorem reset_detaches (h h' : Heap) (b : Nat) (j : J) (hs : h.resetBag b j = .ok h') :
    h'.bagTree b = some j ∧
    ∀ b' u, b' ≠ b → h.views[b']? = some u → u.root < h.trees.length → h'.bagTree b' = h.bagTree b' := by
  unfold Heap.resetBag at hs
  cases hv : h.views[b]? with
  | none => simp [hv] at hs
  | some v =>
    simp only [hv] at hs
    cases hs
    have hlt : b < h.views.length := by
      rcases List.getElem?_eq_some_iff.mp hv with ⟨hl, _⟩; exact hl
    refine ⟨by simp [Heap.bagTree, Heap.tree, hlt, get], ?_⟩
    intro b' u hne hu hroot
    simp [Heap.bagTree, Heap.tree, List.getElem?_set_ne (Ne.symm hne), hu, List.getElem?_append_left hroot]

/-- Refinement: a `bag-set` through bag `b` at `p` is, for EVERY bag `u` on the same tree whose
    place encloses the written location (`u.path ++ q = v.path ++ p`: the writer itself, its
    parents, a bag it was stored in), exactly the set of `q` in the tree that bag shows. -/
theorem alias_write_refines (h h' : Heap) (b : Nat) (p q : Path) (x c : J) (v u : View)
    (hv : h.views[b]? = some v) (hs : h.setVia b p x = .ok h')
    (hr : u.root = v.root) (hq : q ≠ []) (hp : u.path ++ q = v.path ++ p)
    (hdu : definite u.path = true) (hdq : definite q = true) (hc : h.tree u = some c) :
    ∃ c', set x q c = .ok c' ∧ h'.tree u = some c' := by
  unfold Heap.setVia at hs
  simp only [hv] at hs
  split at hs
  · cases hs
  · cases ht : h.trees[v.root]? with
    | none => simp [ht] at hs
    | some t =>
      simp only [ht] at hs
      cases hset : set x (v.path ++ p) t with
      | error e => simp [hset] at hs
      | ok t' =>
        simp only [hset] at hs
        cases hs
        have hdd : definite (u.path ++ q) = true := by rw [definite_append, hdu, hdq]; rfl
        rw [← hp, set_eq_setAt_of_definite x _ t hdd] at hset
        have hg : get u.path t = some c := by
          simpa [Heap.tree, hr, ht] using hc
        obtain ⟨c', hc', hg'⟩ := setAt_through_prefix x u.path hdu q t t' c hq hg hset
        refine ⟨c', by rw [set_eq_setAt_of_definite x q c hdq]; exact hc', ?_⟩
        have hlt : v.root < h.trees.length := by
          rcases List.getElem?_eq_some_iff.mp ht with ⟨hl, _⟩; exact hl
        simp [Heap.tree, hr, hlt, hg']

/-- Read after write through any alias: after a set through bag `b`, a get of the same location
    through any enclosing bag returns the written value. -/
theorem alias_read_after_write (h h' : Heap) (b : Nat) (p q : Path) (x c : J) (v u : View)
    (hv : h.views[b]? = some v) (hs : h.setVia b p x = .ok h')
    (hr : u.root = v.root) (hq : q ≠ []) (hp : u.path ++ q = v.path ++ p)
    (hdu : definite u.path = true) (hdq : definite q = true) (hc : h.tree u = some c) :
    (h'.tree u).bind (get q) = some x := by
  obtain ⟨c', hset, ht⟩ := alias_write_refines h h' b p q x c v u hv hs hr hq hp hdu hdq hc
  rw [ht]
  exact get_set_same x q c c' hdq hset

example : (({ trees := [obj [("a", obj [("k", .int 1)])]], views := [⟨0, []⟩, ⟨0, [.key "a"]⟩] } : Heap).setVia 1 [.key "k"] (.int 2)).toOption.bind
    (fun h' => (h'.bagTree 0).bind (get [.key "a", .key "k"])) = some (.int 2) := by rfl

/-- Frame: bags on other trees do not change. -/
theorem alias_other_tree (h h' : Heap) (b : Nat) (p : Path) (x : J) (v u : View)
    (hv : h.views[b]? = some v) (hs : h.setVia b p x = .ok h') (hr : u.root ≠ v.root) :
    h'.tree u = h.tree u := by
  unfold Heap.setVia at hs
  simp only [hv] at hs
  split at hs
  · cases hs
  · cases ht : h.trees[v.root]? with
    | none => simp [ht] at hs
    | some t =>
      simp only [ht] at hs
      cases hset : set x (v.path ++ p) t with
      | error e => simp [hset] at hs
      | ok t' =>
        simp only [hset] at hs
        cases hs
        simp [Heap.tree, List.getElem?_set_ne (Ne.symm hr)]

/-- Frame: a bag on the same tree whose place parts from the written location (`Apart`) shows the
    tree it showed before. -/
theorem alias_apart (h h' : Heap) (b : Nat) (p : Path) (x : J) (v u : View)
    (hv : h.views[b]? = some v) (hs : h.setVia b p x = .ok h')
    (hd : definite (v.path ++ p) = true) (ha : Apart (v.path ++ p) u.path) :
    h'.tree u = h.tree u := by
  unfold Heap.setVia at hs
  simp only [hv] at hs
  split at hs
  · cases hs
  · cases ht : h.trees[v.root]? with
    | none => simp [ht] at hs
    | some t =>
      simp only [ht] at hs
      cases hset : set x (v.path ++ p) t with
      | error e => simp [hset] at hs
      | ok t' =>
        simp only [hset] at hs
        cases hs
        rcases List.getElem?_eq_some_iff.mp ht with ⟨hlt, heq⟩
        by_cases hr : u.root = v.root
        · simp [Heap.tree, hr, hlt, heq, get_set_disjoint x _ _ t t' hd ha hset]
        · simp [Heap.tree, List.getElem?_set_ne (Ne.symm hr)]

/-- The same refinement for `bag-remove` through a bag: every enclosing bag sees the remove of the
    relative path in its own tree. -/
theorem alias_remove_refines (h h' : Heap) (b : Nat) (p q' : Path) (s : Step) (c : J) (v u : View)
    (hv : h.views[b]? = some v) (hs : h.removeVia b p = .ok h')
    (hr : u.root = v.root) (hp : u.path ++ (q' ++ [s]) = v.path ++ p)
    (hdu : definite u.path = true) (hdq : definite q' = true) (hds : s.isDef = true)
    (hc : h.tree u = some c) :
    ∃ c', remove (q' ++ [s]) c = .ok c' ∧ h'.tree u = some c' := by
  unfold Heap.removeVia at hs
  simp only [hv] at hs
  split at hs
  · cases hs
  · cases ht : h.trees[v.root]? with
    | none => simp [ht] at hs
    | some t =>
      simp only [ht] at hs
      cases hrem : remove (v.path ++ p) t with
      | error e => simp [hrem] at hs
      | ok t' =>
        simp only [hrem] at hs
        cases hs
        rw [← hp] at hrem
        have hg : get u.path t = some c := by
          simpa [Heap.tree, hr, ht] using hc
        obtain ⟨c', hc', hg'⟩ := remove_through_prefix u.path q' s t t' c hdu hdq hds hg hrem
        refine ⟨c', hc', ?_⟩
        have hlt : v.root < h.trees.length := by
          rcases List.getElem?_eq_some_iff.mp ht with ⟨hl, _⟩; exact hl
        simp [Heap.tree, hr, hlt, hg']

/-- A bag stored in another bag (`(bag-set outer inner p)`): afterwards `inner` shows the tree it
    showed before, now as the part of `outer`'s tree at `p` — so every later write through either
    is covered by `alias_write_refines`. -/
theorem store_bag_shares (h h' : Heap) (o i : Nat) (p : Path) (vo vi : View) (t ti : J)
    (hvo : h.views[o]? = some vo) (hvi : h.views[i]? = some vi)
    (hto : h.trees[vo.root]? = some t) (hti : h.trees[vi.root]? = some ti) (hcont : ti.isContainer = true)
    (hdo : definite (vo.path ++ p) = true)
    (hs : h.storeBag o p i = .ok h') :
    h'.bagTree i = some ti ∧ (h'.views[i]?).map (·.root) = some vo.root := by
  unfold Heap.storeBag at hs
  simp only [hvo, hvi] at hs
  split at hs
  · cases hs
  · rename_i hcond
    simp only [hto, hti] at hs
    cases hset : set ti (vo.path ++ p) t with
    | error e => simp [hset] at hs
    | ok t' =>
      simp only [hset, hcont, if_true] at hs
      cases hs
      have hempty : vi.path = [] := by
        by_cases he : vi.path = []
        · exact he
        · simp [he] at hcond
      have hlt : vo.root < h.trees.length := by
        rcases List.getElem?_eq_some_iff.mp hto with ⟨hl, _⟩; exact hl
      have hget := get_set_same ti (vo.path ++ p) t t' hdo hset
      simp [Heap.bagTree, Heap.tree, hvi, hempty, hlt, hget]

end SlipVerif.Json
