import SlipVerif.Lemmas.LoadForm
import SlipVerif.Lemmas.SnapshotOrder
/-
  C19 — property theorems about SlipVerif.Model.LoadForm (the model the correspondence harness
  runs against the implementation: harness/cmd/vh/c19.go).

  Data: evaluating the load form of a data object rebuilds the object (for every well-formed
  object of the modelled kinds, by structural recursion — no size or depth bound).
  Snapshot: the order in which definitions are written puts everything a definition inherits
  before it, does not depend on the order in which the definitions are enumerated (Go map
  iteration), and the comparator "b inherits a" that the unrepaired snapshot handed to
  sort.Slice is not a strict weak order (concrete witness, replayed on the implementation).

  The pretty printer's layouts are not modelled: `read (pp margin form) = form` is checked on the
  implementation only (harness), it is the obligation that connects `loadform_eval_roundtrip` to
  the text written to disk.
-/
namespace SlipVerif.LoadForm
open Obj

/-! ## data: eval ∘ loadForm = id -/

/-- Evaluating the load form of any well-formed data object (numbers, strings, characters,
    symbols, proper and dotted lists, vectors, arrays, hash tables, arbitrarily nested) yields
    the object itself. -/
theorem loadform_eval_roundtrip (x : Obj) (h : wf x = true) : eval (loadForm x) = .ok x :=
  roundtrip_obj x h

/-- a non-trivial instance of the hypothesis: `(a (b . "s") #(1 x))` with a hash table
    `{k → (q), "s" → 2}` and a 2×1 array inside -/
def sampleObj : Obj :=
  .cons (.sym "a") (.cons (.cons (.sym "b") (.str "s")) (.cons (.vec true (.cons (.int 1) (.cons (.sym "x") .nil)))
    (.cons (.hash (.cons (.cons (.sym "k") (.cons (.sym "q") .nil)) (.cons (.cons (.str "s") (.int 2)) .nil)))
      (.cons (.arr false (.cons (.int 2) (.cons (.int 1) .nil)) (.cons (.cons (.int 1) .nil) (.cons (.cons (.sym "y") .nil) .nil)))
        .nil))))
example : wf sampleObj = true := by decide
example : eval (loadForm sampleObj) = .ok sampleObj := loadform_eval_roundtrip _ (by decide)

/-- Distinct objects have distinct load forms (the saved source determines the object). -/
theorem loadform_injective (x y : Obj) (hx : wf x = true) (hy : wf y = true)
    (h : loadForm x = loadForm y) : x = y := by
  have h1 := loadform_eval_roundtrip x hx
  have h2 := loadform_eval_roundtrip y hy
  rw [h, h2] at h1
  injection h1 with h1
  exact h1.symm
example : wf (.cons (.sym "a") .nil) = true ∧ wf (.cons (.str "a") .nil) = true := by decide

/-- A symbol inside a list must be quoted: the form `(list a)` with the bare symbol — what
    List.LoadForm emitted before the repair — does not evaluate to a list at all. -/
theorem bare_symbol_form_fails (s : String) (h : isKeyword s = false) (rest : Obj) :
    eval (.cons (S "list") (.cons (.sym s) rest)) = .error .unbound := by
  rw [eval_list]
  simp [evalArgs, eval, h, bind, Except.bind]
example : isKeyword "a" = false := by decide

/-! ## snapshot order -/

/-- the snapshot order is sorted by the key … -/
theorem snapshotOrder_sorted (ns : List Node) :
    (snapshotOrder ns).Pairwise (fun a b => keyLe a b = true) := by
  unfold snapshotOrder
  induction ns with
  | nil => simp [sortBy]
  | cons x xs ih => exact insertBy_sorted x _ ih

/-- … and contains exactly the given definitions. -/
theorem snapshotOrder_perm (ns : List Node) : (snapshotOrder ns).Perm ns := sortBy_perm keyLe ns

/-- **Topological soundness.** For every world (the reachability sets of any DAG of flavors,
    classes or packages) the snapshot order never writes a definition before something it
    inherits: no element of the output inherits a later element. -/
theorem topo_order_sound (ns : List Node) (w : World ns) :
    (snapshotOrder ns).Pairwise (fun x y => y.name ∉ x.inherits) := by
  have hs := snapshotOrder_sorted ns
  have hp := snapshotOrder_perm ns
  refine List.Pairwise.imp_of_mem ?_ hs
  intro x y hx hy hle hin
  have hlt := w.inherits_lt (hp.subset hx) (hp.subset hy) hin
  unfold keyLe at hle
  simp only [Bool.or_eq_true, Bool.and_eq_true, decide_eq_true_eq, beq_iff_eq] at hle
  omega

/-- a world with a diamond and an unrelated definition -/
def sampleWorld : List Node :=
  [⟨"d", ["b", "a", "c"]⟩, ⟨"z", []⟩, ⟨"b", ["a"]⟩, ⟨"c", ["a"]⟩, ⟨"a", []⟩]
example : World sampleWorld := by
  refine ⟨by decide, by decide, by decide, by decide⟩
example : (snapshotOrder sampleWorld).map (·.name) = ["a", "z", "b", "c", "d"] := by decide

/-- **Determinism.** The snapshot order does not depend on the order in which the definitions
    are enumerated (slip enumerates Go maps): any two enumerations of the same world are written
    identically — a prerequisite of the text fixed point. -/
theorem snapshot_order_enumeration_independent (ns ms : List Node) (w : World ns) (h : ns.Perm ms) :
    snapshotOrder ns = snapshotOrder ms := by
  have p1 := snapshotOrder_perm ns
  have p2 := snapshotOrder_perm ms
  refine List.Perm.eq_of_pairwise ?_ (snapshotOrder_sorted ns) (snapshotOrder_sorted ms)
    (p1.trans (h.trans p2.symm))
  intro a b ha hb hab hba
  have ha' : a ∈ ns := p1.subset ha
  have hb' : b ∈ ns := h.symm.subset (p2.subset hb)
  apply w.names a ha' b hb'
  unfold keyLe at hab hba
  simp only [Bool.or_eq_true, Bool.and_eq_true, decide_eq_true_eq, beq_iff_eq] at hab hba
  rcases hab with h1 | ⟨_, h1⟩ <;> rcases hba with h2 | ⟨_, h2⟩
  · omega
  · omega
  · omega
  · exact le_antisymm h1 h2
example : sampleWorld.Perm sampleWorld.reverse := (List.reverse_perm _).symm

/-- **The snapshot order loads.** defflavor refuses a flavor whose components are not yet
    defined. For every world in which inherited names refer to definitions of the world, defining
    the flavors in the snapshot order never meets an undefined component: every definition of the
    saved world is restored, in that order. -/
theorem snapshot_order_loads (ns : List Node) (w : World ns) (g : Grounded ns) :
    loadFlavors (snapshotOrder ns) [] = .ok ((snapshotOrder ns).map (·.name)) := by
  have hp := snapshotOrder_perm ns
  have := loadFlavors_ok (snapshotOrder ns) []
    (by
      intro a ha x hx
      obtain ⟨b, hb, hbn⟩ := g a (hp.subset ha) x hx
      exact ⟨b, by simpa using hp.symm.subset hb, hbn⟩)
    (topo_order_sound ns w)
    (fun a ha => w.irrefl a (hp.subset ha))
  simpa using this
example : Grounded sampleWorld := by unfold Grounded; decide

/-! ## worlds as slip builds them -/

/-- **Every session history yields a world.** Whatever sequence of definitions a session makes
    (fresh names, components defined earlier — what defflavor / defclass / defpackage demand), the
    inheritance sets slip flattens from the direct components (`closeHistory`: the component, then
    everything it inherits, without duplicates) are duplicate free, transitively closed and
    irreflexive. -/
theorem history_is_world (hist : List (String × List String)) (h : HistoryOk hist []) :
    World (closeHistory hist []) :=
  closeHistory_inv hist [] ⟨by simp, by simp, by simp, by simp⟩ (by simp [Grounded]) (by simpa using h)

/-- Topological soundness for every DAG given by its direct edges in any order of definition. -/
theorem topo_order_sound_history (hist : List (String × List String)) (h : HistoryOk hist []) :
    (snapshotOrder (closeHistory hist [])).Pairwise (fun x y => y.name ∉ x.inherits) :=
  topo_order_sound _ (history_is_world hist h)

example : HistoryOk [("a", []), ("z", []), ("b", ["a"]), ("c", ["a"]), ("d", ["b", "c"])] [] := by
  simp [HistoryOk]
example : (snapshotOrder (closeHistory [("a", []), ("z", []), ("b", ["a"]), ("c", ["a"]), ("d", ["b", "c"])] [])).map (·.name)
    = ["a", "z", "b", "c", "d"] := by decide

/-! ## the comparator of the unrepaired snapshot -/

/-- flavors `a`, `b` (inherits `a`) and an unrelated `c`, enumerated as b, c, a -/
def witness : List Node := [⟨"b", ["a"]⟩, ⟨"c", []⟩, ⟨"a", []⟩]

def incomparable (x y : Node) : Bool := !inheritsLess x y && !inheritsLess y x

/-- **"less a b := b inherits a" is not a strict weak order**: on the witness, incomparability is
    not transitive (b ~ c and c ~ a but a < b), so sort.Slice is free to leave `b` before `a`;
    and the insertion sort that sort.Slice runs on short slices does: its output on the
    enumeration b, c, a is not topologically ordered — loading it fails at `b` (its component `a`
    is not yet defined) — while `snapshotOrder` is. -/
theorem inherits_comparator_not_weak_order :
    (¬ ∀ x ∈ witness, ∀ y ∈ witness, ∀ z ∈ witness,
        incomparable x y = true → incomparable y z = true → incomparable x z = true)
    ∧ topoOk (goInsertionSort inheritsLess witness) = false
    ∧ loadFlavors (goInsertionSort inheritsLess witness) [] = .error "b"
    ∧ topoOk (snapshotOrder witness) = true := by
  refine ⟨?_, by decide, by decide, by decide⟩
  intro h
  have := h ⟨"b", ["a"]⟩ (by decide) ⟨"c", []⟩ (by decide) ⟨"a", []⟩ (by decide) (by decide) (by decide)
  exact absurd this (by decide)

end SlipVerif.LoadForm
