import SlipVerif.Lemmas.LoadForm
import SlipVerif.Lemmas.SnapshotOrder
import SlipVerif.Lemmas.Instances
import SlipVerif.Lemmas.SnapForms
/-
  C19 — property theorems about SlipVerif.Model.LoadForm (the model the correspondence harness
  runs against the implementation: harness/cmd/vh/c19.go).

  Data: evaluating the load form of a data object rebuilds the object (for every well-formed
  object of the modelled kinds, by structural recursion — no size or depth bound).
  Snapshot: the order in which definitions are written puts everything a definition inherits
  before it, does not depend on the order in which the definitions are enumerated (Go map
  iteration), and the comparator "b inherits a" that the unrepaired snapshot handed to
  sort.Slice is not a strict weak order (concrete witness, replayed on the implementation).

  The pretty printer's layouts are not modelled: `read (pp margin form) = form` is checked on the
  implementation only (harness), it is the obligation that connects `loadform_eval_roundtrip` to
  the text written to disk.
-/
namespace SlipVerif.LoadForm
open Obj

/-! ## data: eval ∘ loadForm = id -/

/-- Evaluating the load form of any well-formed data object (numbers, strings, characters,
    symbols, proper and dotted lists, vectors, arrays, hash tables, arbitrarily nested) yields
    the object itself. -/
theorem loadform_eval_roundtrip (x : Obj) (h : wf x = true) : eval (loadForm x) = .ok x :=
  roundtrip_obj x h

/-- a non-trivial instance of the hypothesis: `(a (b . "s") #(1 x))` with a hash table
    `{k → (q), "s" → 2}` and a 2×1 array inside -/
def sampleObj : Obj :=
  .cons (.sym "a") (.cons (.cons (.sym "b") (.str "s")) (.cons (.vec true (.cons (.int 1) (.cons (.sym "x") .nil)))
    (.cons (.hash (.cons (.cons (.sym "k") (.cons (.sym "q") .nil)) (.cons (.cons (.str "s") (.int 2)) .nil)))
      (.cons (.arr false (.cons (.int 2) (.cons (.int 1) .nil)) (.cons (.cons (.int 1) .nil) (.cons (.cons (.sym "y") .nil) .nil)))
        .nil))))
example : wf sampleObj = true := by decide
example : eval (loadForm sampleObj) = .ok sampleObj := loadform_eval_roundtrip _ (by decide)

/-- Distinct objects have distinct load forms (the saved source determines the object). -/
theorem loadform_injective (x y : Obj) (hx : wf x = true) (hy : wf y = true)
    (h : loadForm x = loadForm y) : x = y := by
  have h1 := loadform_eval_roundtrip x hx
  have h2 := loadform_eval_roundtrip y hy
  rw [h, h2] at h1
  injection h1 with h1
  exact h1.symm
example : wf (.cons (.sym "a") .nil) = true ∧ wf (.cons (.str "a") .nil) = true := by decide

/-- A symbol inside a list must be quoted: the form `(list a)` with the bare symbol — what
    List.LoadForm emitted before the repair — does not evaluate to a list at all. -/
theorem bare_symbol_form_fails (s : String) (h : isKeyword s = false) (rest : Obj) :
    eval (.cons (S "list") (.cons (.sym s) rest)) = .error .unbound := by
  rw [eval_list]
  simp [evalArgs, eval, h, bind, Except.bind]
example : isKeyword "a" = false := by decide

/-! ## snapshot order -/

/-- the snapshot order is sorted by the key … -/
theorem snapshotOrder_sorted (ns : List Node) :
    (snapshotOrder ns).Pairwise (fun a b => keyLe a b = true) := by
  unfold snapshotOrder
  induction ns with
  | nil => simp [sortBy]
  | cons x xs ih => exact insertBy_sorted x _ ih

/-- … and contains exactly the given definitions. -/
theorem snapshotOrder_perm (ns : List Node) : (snapshotOrder ns).Perm ns := sortBy_perm keyLe ns

/-- **Topological soundness.** For every world (the reachability sets of any DAG of flavors,
    classes or packages) the snapshot order never writes a definition before something it
    inherits: no element of the output inherits a later element. -/
theorem topo_order_sound (ns : List Node) (w : World ns) :
    (snapshotOrder ns).Pairwise (fun x y => y.name ∉ x.inherits) := by
  have hs := snapshotOrder_sorted ns
  have hp := snapshotOrder_perm ns
  refine List.Pairwise.imp_of_mem ?_ hs
  intro x y hx hy hle hin
  have hlt := w.inherits_lt (hp.subset hx) (hp.subset hy) hin
  unfold keyLe at hle
  simp only [Bool.or_eq_true, Bool.and_eq_true, decide_eq_true_eq, beq_iff_eq] at hle
  omega

/-- a world with a diamond and an unrelated definition -/
def sampleWorld : List Node :=
  [⟨"d", ["b", "a", "c"]⟩, ⟨"z", []⟩, ⟨"b", ["a"]⟩, ⟨"c", ["a"]⟩, ⟨"a", []⟩]
example : World sampleWorld := by
  refine ⟨by decide, by decide, by decide, by decide⟩
example : (snapshotOrder sampleWorld).map (·.name) = ["a", "z", "b", "c", "d"] := by decide

/-- **Determinism.** The snapshot order does not depend on the order in which the definitions
    are enumerated (slip enumerates Go maps): any two enumerations of the same world are written
    identically — a prerequisite of the text fixed point. -/
theorem snapshot_order_enumeration_independent (ns ms : List Node) (w : World ns) (h : ns.Perm ms) :
    snapshotOrder ns = snapshotOrder ms := by
  have p1 := snapshotOrder_perm ns
  have p2 := snapshotOrder_perm ms
  refine List.Perm.eq_of_pairwise ?_ (snapshotOrder_sorted ns) (snapshotOrder_sorted ms)
    (p1.trans (h.trans p2.symm))
  intro a b ha hb hab hba
  have ha' : a ∈ ns := p1.subset ha
  have hb' : b ∈ ns := h.symm.subset (p2.subset hb)
  apply w.names a ha' b hb'
  unfold keyLe at hab hba
  simp only [Bool.or_eq_true, Bool.and_eq_true, decide_eq_true_eq, beq_iff_eq] at hab hba
  rcases hab with h1 | ⟨_, h1⟩ <;> rcases hba with h2 | ⟨_, h2⟩
  · omega
  · omega
  · omega
  · exact le_antisymm h1 h2
example : sampleWorld.Perm sampleWorld.reverse := (List.reverse_perm _).symm

/-- **The snapshot order loads.** defflavor refuses a flavor whose components are not yet
    defined. For every world in which inherited names refer to definitions of the world, defining
    the flavors in the snapshot order never meets an undefined component: every definition of the
    saved world is restored, in that order. -/
theorem snapshot_order_loads (ns : List Node) (w : World ns) (g : Grounded ns) :
    loadFlavors (snapshotOrder ns) [] = .ok ((snapshotOrder ns).map (·.name)) := by
  have hp := snapshotOrder_perm ns
  have := loadFlavors_ok (snapshotOrder ns) []
    (by
      intro a ha x hx
      obtain ⟨b, hb, hbn⟩ := g a (hp.subset ha) x hx
      exact ⟨b, by simpa using hp.symm.subset hb, hbn⟩)
    (topo_order_sound ns w)
    (fun a ha => w.irrefl a (hp.subset ha))
  simpa using this
example : Grounded sampleWorld := by unfold Grounded; decide

/-! ## worlds as slip builds them -/

/-- **Every session history yields a world.** Whatever sequence of definitions a session makes
    (fresh names, components defined earlier — what defflavor / defclass / defpackage demand), the
    inheritance sets slip flattens from the direct components (`closeHistory`: the component, then
    everything it inherits, without duplicates) are duplicate free, transitively closed and
    irreflexive. -/
theorem history_is_world (hist : List (String × List String)) (h : HistoryOk hist []) :
    World (closeHistory hist []) :=
  closeHistory_inv hist [] ⟨by simp, by simp, by simp, by simp⟩ (by simp [Grounded]) (by simpa using h)

/-- Topological soundness for every DAG given by its direct edges in any order of definition. -/
theorem topo_order_sound_history (hist : List (String × List String)) (h : HistoryOk hist []) :
    (snapshotOrder (closeHistory hist [])).Pairwise (fun x y => y.name ∉ x.inherits) :=
  topo_order_sound _ (history_is_world hist h)

example : HistoryOk [("a", []), ("z", []), ("b", ["a"]), ("c", ["a"]), ("d", ["b", "c"])] [] := by
  simp [HistoryOk]
example : (snapshotOrder (closeHistory [("a", []), ("z", []), ("b", ["a"]), ("c", ["a"]), ("d", ["b", "c"])] [])).map (·.name)
    = ["a", "z", "b", "c", "d"] := by decide

/-! ## instances: every slot state survives the load form -/

/-- **Instance round trip.** Whatever state make-instance gives the slots (`fresh`: the defaults of
    the class, bound or not), evaluating the load form of an instance — for every bound slot, nil
    included, a setf with the load form of the value; for an unbound slot a makunbound when the
    class gives the slot a default — yields exactly the slot states of the original, slot by slot. -/
theorem instance_roundtrip (slots fresh : List (String × Slot))
    (hn : (slots.map Prod.fst).Nodup) (hw : ∀ x ∈ slots, slotWf x.2 = true)
    (hf : fresh.map Prod.fst = slots.map Prod.fst) :
    rebuildInstance fresh (instanceLoadOps fresh slots) = .ok slots :=
  rebuild_sub fresh slots hn (hf ▸ hn) hw slots fresh hf (fun _ h => h) (fun _ h => h)

/-- an instance with a nil slot, an unbound slot and a list valued slot, of a class whose
    defaults are t, 7 and unbound -/
def sampleSlots : List (String × Slot) :=
  [("enabled", .bound .nil), ("count", .unbound), ("tags", .bound (.cons (.sym "a") (.cons (.str "b") .nil)))]
def sampleFresh : List (String × Slot) := [("enabled", .bound .t), ("count", .bound (.int 7)), ("tags", .unbound)]
example : (sampleSlots.map Prod.fst).Nodup ∧ (∀ x ∈ sampleSlots, slotWf x.2 = true) ∧
    sampleFresh.map Prod.fst = sampleSlots.map Prod.fst := by decide

/-- Leaving out the slots that hold nil (as if a fresh instance had nil there) loses the state of
    a slot whose class default is not nil: the rebuilt instance has the default back. -/
theorem instance_skip_nil_loses_state :
    rebuildInstance sampleFresh (instanceLoadOpsSkipNil sampleFresh sampleSlots) =
      .ok [("enabled", .bound .t), ("count", .unbound), ("tags", .bound (.cons (.sym "a") (.cons (.str "b") .nil)))] := by
  decide

/-! ## flavors: the rebuilt flavor has the same effective defaults -/

/-- **Flavor load form.** The instance variables written in the load form of a flavor are the
    entries of its effective defaults that differ from what precedence inheritance alone gives
    (the default of the FIRST inherited flavor that has the variable). Defining the flavor again
    from them, with the same inherited flavors, gives the same effective default for EVERY
    variable. -/
theorem flavor_rebuild_same_defaults (w : List Flav) (f : Flav)
    (hn : (f.defaults.map Prod.fst).Nodup) (hc : Complete w f) (v : String) :
    lookupS v (effective w (flavorLoadVars w f) f.inherits) = lookupS v f.defaults :=
  rebuild_same_defaults w f hn hc v

/-- the hypotheses hold for every flavor defflavor builds -/
theorem defFlavor_complete (w : List Flav) (name : String) (own : List (String × Obj))
    (direct : List String) (hn : (own.map Prod.fst).Nodup) :
    Complete w (defFlavor w name own direct) ∧
      ((defFlavor w name own direct).defaults.map Prod.fst).Nodup :=
  ⟨complete_defFlavor w name own direct, by simpa [defFlavor] using nodup_effective w _ own hn⟩

/-- **Reloading a session.** For every session of defflavor forms (fresh names, any components,
    any re-declarations of inherited variables — chains, diamonds, mixins) the world rebuilt by
    defining every flavor again from its load form, in the order of the world, agrees with the
    original: same flavors, same effective default of every variable of every flavor. -/
theorem session_reload_same_defaults (defs : List (String × List (String × Obj) × List String))
    (h : SessionOk defs []) :
    Agree (defFlavors defs []) (reloadFlavors flavorLoadVars [] [] (defFlavors defs [])) := by
  have hw := worldOk_newFlavs defs [] (by simpa using h)
  have := reload_agree (newFlavs defs []) [] [] ⟨rfl, fun _ _ => rfl⟩ hw
  simpa [defFlavors_eq] using this

/-- grand (level 5), mid inherits grand (level 1), kid inherits mid and sets level back to 5 -/
def sampleSession : List (String × List (String × Obj) × List String) :=
  [("grand", [("level", .int 5), ("tag", .str "g")], []), ("mid", [("level", .int 1)], ["grand"]),
   ("kid", [("level", .int 5), ("extra", .sym "x")], ["mid"])]
example : SessionOk sampleSession [] := by simp [SessionOk, sampleSession]
example : (flavorLoadVars (defFlavors sampleSession []) (defFlavor (defFlavors (sampleSession.take 2) []) "kid"
    [("level", .int 5), ("extra", .sym "x")] ["mid"])).map Prod.fst = ["level", "extra"] := by decide

/-- The rule "left out when SOME inherited flavor has an equal default" is not sound: on the sample
    session `kid` loses its `level` entry (grand has 5 too) and the rebuilt kid answers mid's 1. -/
theorem any_ancestor_rule_loses_override :
    lookupS "level" (flavDefaults (reloadFlavors flavorLoadVarsAny [] [] (defFlavors sampleSession [])) "kid") = some (.int 1)
    ∧ lookupS "level" (flavDefaults (defFlavors sampleSession []) "kid") = some (.int 5) := by
  decide

/-! ## the comparator of the unrepaired snapshot -/

/-- flavors `a`, `b` (inherits `a`) and an unrelated `c`, enumerated as b, c, a -/
def witness : List Node := [⟨"b", ["a"]⟩, ⟨"c", []⟩, ⟨"a", []⟩]

def incomparable (x y : Node) : Bool := !inheritsLess x y && !inheritsLess y x

/-- **"less a b := b inherits a" is not a strict weak order**: on the witness, incomparability is
    not transitive (b ~ c and c ~ a but a < b), so sort.Slice is free to leave `b` before `a`;
    and the insertion sort that sort.Slice runs on short slices does: its output on the
    enumeration b, c, a is not topologically ordered — loading it fails at `b` (its component `a`
    is not yet defined) — while `snapshotOrder` is. -/
theorem inherits_comparator_not_weak_order :
    (¬ ∀ x ∈ witness, ∀ y ∈ witness, ∀ z ∈ witness,
        incomparable x y = true → incomparable y z = true → incomparable x z = true)
    ∧ topoOk (goInsertionSort inheritsLess witness) = false
    ∧ loadFlavors (goInsertionSort inheritsLess witness) [] = .error "b"
    ∧ topoOk (snapshotOrder witness) = true := by
  refine ⟨?_, by decide, by decide, by decide⟩
  intro h
  have := h ⟨"b", ["a"]⟩ (by decide) ⟨"c", []⟩ (by decide) ⟨"a", []⟩ (by decide) (by decide) (by decide)
  exact absurd this (by decide)

/-! ## accessor and init options of a flavor (round 4) -/

theorem filter_sublist_nodup {vars sel : List String} (hs : sel.Sublist vars) (hn : vars.Nodup) :
    vars.filter (fun v => decide (v ∈ sel)) = sel := by
  induction hs with
  | slnil => rfl
  | @cons l₁ l₂ a h ih =>
    have hn' := List.nodup_cons.mp hn
    have ha : a ∉ l₁ := fun hm => hn'.1 (h.subset hm)
    rw [List.filter_cons_of_neg (by simpa using ha)]
    exact ih hn'.2
  | @cons_cons l₁ l₂ a h ih =>
    have hn' := List.nodup_cons.mp hn
    have e : l₂.filter (fun v => decide (v ∈ a :: l₁)) = l₂.filter (fun v => decide (v ∈ l₁)) := by
      apply List.filter_congr
      intro x hx
      have : x ≠ a := fun e => hn'.1 (e ▸ hx)
      simp [this]
    rw [List.filter_cons_of_pos (by simp), e, ih hn'.2]

/-- **Every selection survives the load form**: for a flavor with the (distinct) variables `vars`
    and any selection of them, in their order — none, all, one, any subset, inherited variables
    included — defflavor reads back from the written option exactly the selection. -/
theorem sel_roundtrip (vars sel : List String) (hs : sel.Sublist vars) (hn : vars.Nodup) :
    (writeSel vars sel).names vars = sel := by
  unfold writeSel writeSelBy
  by_cases h0 : sel.isEmpty
  · simp [h0, Sel.names, List.isEmpty_iff.mp h0]
  · by_cases hl : sel.length = vars.length
    · have e := hs.eq_of_length hl
      subst e
      have h1 : sel ≠ [] := by simpa using h0
      simp [h1, Sel.names]
    · have h := filter_sublist_nodup hs hn
      have h1 : sel ≠ [] := by simpa using h0
      simp [h1, hl, Sel.names, h]

/-- the three options are written independently: the reloaded flavor has the same getters, setters
    and init keywords -/
theorem flavor_options_roundtrip (vars : List String) (o : FlavOpts) (hn : vars.Nodup)
    (hg : o.gets.Sublist vars) (hs : o.sets.Sublist vars) (hi : o.inits.Sublist vars) :
    reloadOpts (fun _ sel => writeSel vars sel) vars o = o := by
  cases o
  simp_all [reloadOpts, sel_roundtrip]

/-- witness of the seeded mutant C19-12 (abbreviation of :settable decided by the GETTABLE count): a
    flavor with the variables level, limit, all gettable, only level settable, comes back with
    `:set-limit` too -/
theorem gets_rule_adds_setters :
    (reloadOpts (writeSelGetsRule ["level", "limit"]) ["level", "limit"]
      { gets := ["level", "limit"], sets := ["level"], inits := [] }).sets = ["level", "limit"] := by
  decide

/-- witness of the defect repaired by fix 0017 (selections judged against the variables the form
    DECLARES instead of all variables of the flavor): b with own variable x and inherited v, w, x
    alone settable, was written with the bare option and came back with setters for v and w -/
theorem own_count_rule_adds_inherited :
    (writeSelBy 1 ["x"]).names ["v", "w", "x"] = ["v", "w", "x"]
    ∧ (writeSel ["v", "w", "x"] ["x"]).names ["v", "w", "x"] = ["x"] := by
  decide

end SlipVerif.LoadForm


/-! ## the evaluation order of a snapshot: sections, and the two passes of `load` -/

namespace SlipVerif.SnapForms
open SlipVerif.LoadForm (Node World snapshotOrder topo_order_sound)

/-- The model's tables (the section order of AppendSnapshot, the operators Code.Compile evaluates in
    its first pass, the kinds of definition a form may need) satisfy the soundness conditions:
    needed kinds are written in the same or an earlier section, hoisted kinds need hoisted kinds
    only.  (Theorems/GenC19.lean: the same for the tables regenerated from the Go code.) -/
theorem model_tables_ok : tablesOk sectionOrder hoistedHeads = true := by decide +kernel

/-- **Every form is evaluated after the definitions it needs.**  For every snapshot text `fs` whose
    sections are written in the order `order`, without a forward need inside a section, whose forms
    need only kinds the table allows and only definitions that are in the snapshot: `load` — which
    evaluates the hoisted operators `hs` first — finds every need defined (no `class not found`,
    `flavor not defined`, `package does not exist`), for any tables that satisfy `tablesOk`. -/
theorem snapshot_load_sound (order hs : List String) (fs : List Form)
    (ht : tablesOk order hs = true)
    (hsec : fs.Pairwise (fun a b => secIdx order a.head ≤ secIdx order b.head))
    (hin : fs.Pairwise (fun a b => secIdx order a.head = secIdx order b.head → b.defines ∉ a.needs))
    (hk : ∀ f ∈ fs, ∀ n ∈ f.needs, n.1 ∈ f.head.kindNeeds)
    (hself : ∀ f ∈ fs, f.defines ∉ f.needs)
    (hdef : ∀ f ∈ fs, ∀ n ∈ f.needs, ∃ g ∈ fs, g.defines = n) :
    loadForms (loadOrder hs fs) [] = .ok () := by
  have hno := noFwd_of_sections order hs fs ht hsec hin hk
  have hno' := noFwd_loadOrder hs fs hno (fun f hf hh n hn => (tablesOk_spec ht f.head n.1 (hk f hf n hn)).2 hh)
  apply loadForms_ok_of_noFwd _ _ hno'
  · intro f hf
    exact hself f ((mem_loadOrder hs fs f).mp hf)
  · intro f hf n hn
    obtain ⟨g, hg, hgn⟩ := hdef f ((mem_loadOrder hs fs f).mp hf) n hn
    exact Or.inr ⟨g, (mem_loadOrder hs fs g).mpr hg, hgn⟩

/-- a session: package p2 uses p1, flavor b inherits a with a method, class k, a variable holding an
    instance of b, a generic function with a method on k, a function — in the order of the text -/
def sampleText : List Form :=
  [⟨.defpackage, "p1", []⟩, ⟨.defpackage, "p2", [(.defpackage, "p1")]⟩, ⟨.defconstant, "c", []⟩,
   ⟨.defflavor, "a", []⟩, ⟨.defflavor, "b", [(.defflavor, "a")]⟩, ⟨.flavorMethod, "b :m", [(.defflavor, "b")]⟩,
   ⟨.defclass, "k", []⟩, ⟨.defvar, "v", []⟩, ⟨.setq, "v", [(.defvar, "v"), (.defflavor, "b")]⟩,
   ⟨.usePackage, "p2", [(.defpackage, "p2")]⟩, ⟨.defun, "f", []⟩, ⟨.defgeneric, "g", [(.defclass, "k")]⟩]
example : sampleText.Pairwise (fun a b => secIdx sectionOrder a.head ≤ secIdx sectionOrder b.head) := by decide +kernel
example : sampleText.Pairwise (fun a b => secIdx sectionOrder a.head = secIdx sectionOrder b.head → b.defines ∉ a.needs) := by
  decide +kernel
example : ∀ f ∈ sampleText, ∀ n ∈ f.needs, n.1 ∈ f.head.kindNeeds := by decide +kernel
example : (loadOrder hoistedHeads sampleText).map (·.name) =
    ["c", "v", "f", "p1", "p2", "a", "b", "b :m", "k", "v", "p2", "g"] := by decide +kernel
example : loadForms (loadOrder hoistedHeads sampleText) [] = .ok () := by decide +kernel

/-- the forms of one section (flavors, classes or packages) written from the definitions of a world
    in the snapshot's order; a definition needs everything it inherits -/
def nodeForms (h : Head) (ns : List Node) : List Form :=
  (snapshotOrder ns).map fun n => ⟨h, n.name, n.inherits.map fun i => (h, i)⟩

/-- **Inside a section** written by (number of inherited definitions, name) there is no forward need,
    for every world — the hypothesis `hin` of `snapshot_load_sound` for the flavor and package
    sections (and for the class section, should defclass ever need its superclasses). -/
theorem nodeForms_noFwd (h : Head) (ns : List Node) (w : World ns) : NoFwd (nodeForms h ns) := by
  unfold NoFwd nodeForms
  rw [List.pairwise_map]
  refine (topo_order_sound ns w).imp ?_
  intro x y hxy hmem
  simp only [Form.defines, List.mem_map, Prod.mk.injEq, true_and] at hmem
  obtain ⟨i, hi, rfl⟩ := hmem
  exact hxy hi

/-- **Why a constant cannot hold an instance.**  Wherever the snapshot writes the defconstant form —
    here after the defflavor — `load` evaluates it in its first pass, before the flavor exists:
    the first form that fails is the defconstant. -/
theorem constant_instance_not_loadable :
    loadForms (loadOrder hoistedHeads
      [⟨.defflavor, "a", []⟩, ⟨.defconstant, "c", [(.defflavor, "a")]⟩]) []
      = .error ⟨.defconstant, "c", [(.defflavor, "a")]⟩ := by decide +kernel

/-- … while the same value in a variable loads: the value is set by a setq, evaluated in text order -/
theorem variable_instance_loadable :
    loadForms (loadOrder hoistedHeads
      [⟨.defflavor, "a", []⟩, ⟨.defvar, "v", []⟩, ⟨.setq, "v", [(.defvar, "v"), (.defflavor, "a")]⟩]) [] = .ok () := by
  decide +kernel

/-- a section order that writes the variables before the flavors is rejected by the table condition -/
example : tablesOk ["require", "defpackage", "defconstant", "defvar", "defflavor", "defclass", "defun"] hoistedHeads = false := by
  decide +kernel
/-- … and so is a first pass that also evaluates setq: the flavors, classes and packages its value
    may need are not evaluated in the first pass -/
example : tablesOk sectionOrder ("setq" :: hoistedHeads) = false := by decide +kernel

end SlipVerif.SnapForms
