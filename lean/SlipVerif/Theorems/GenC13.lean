import SlipVerif.Model.Pkg
import SlipVerif.Gen.PkgCode
/-
  C13 — obligations over facts regenerated from package.go, function.go (FindFunc) and scope.go
  (Scope.get / Scope.Set) on every run (extract/pkgcode.go → Gen/PkgCode.lean).

  The model (Model/Pkg.lean) is hand-written after these functions. Each obligation names the
  checks, loops and table updates of one function the corresponding model transformer relies on:
  the collections it walks (Users to push / retract, Uses to inherit / rebuild, the used package's
  tables to copy), the flags and owners its conditions consult (Export, entry.Pkg == package,
  nil = "no entry", CurrentPackage, private, Locked) and the updates it makes. The atoms are sets
  taken from the function body and, one call level deep, from the same-file functions it calls,
  so renaming, reordering or extracting a helper does not change them; dropping one of the checks
  or loops does. If an obligation no longer elaborates the code has changed in a way the model
  (and so the theorems of Theorems/C13.lean) may no longer describe — reported as a broken K-gen
  obligation; the harness then searches for a failing history.
-/
namespace SlipVerif.Pkg.GenC13
open SlipVerif.Gen.PkgCode

def atoms (fn : String) : List String := (facts.lookup fn).getD []

/-- the function exists in the extraction and has all the listed atoms -/
def has (fn : String) (as : List String) : Bool :=
  (facts.lookup fn).isSome && as.all (fun a => (atoms fn).contains a)

/-- `use` / `Tab.useCopy`: no-op when already used (the loop over Uses returns early), both
    directions of the graph are registered, the used package's variable and function tables are
    walked, only exported entries are copied (`Export`) and an own entry of the user is kept
    (`xv.Pkg == obj`) -/
theorem use_shape : has "Package.Use"
    ["range:Uses", "first:Uses", "append:Uses", "append:Users", "range:vars", "range:funcs",
     "guard:Export", "guard:PkgEq", "write:vars", "write:funcs", "guard:Locked"] = true := by decide

/-- `unuse` / `Tab.rebuild`: both directions are unregistered, the tables are rebuilt from the
    packages still used (exported entries only) and the own (or imported) entries are kept -/
theorem unuse_shape : has "Package.Unuse"
    ["remove:Uses", "remove:Users", "reset:vars", "reset:funcs", "range:Uses", "range:vars", "range:funcs",
     "guard:Export", "guard:PkgEq", "guard:Imports", "write:vars", "write:funcs", "guard:Locked"] = true := by decide

/-- `export` / `Tab.exportOwn` + `push`: only an own entry is flagged (`vv.Pkg == obj`), it is offered
    to every user that has no entry of that name (`== nil`), nothing is ever deleted -/
theorem export_shape : has "Package.Export"
    ["guard:PkgEq", "set:Export=true", "range:Users", "guard:nil", "write:vars", "write:funcs"] = true ∧
    (atoms "Package.Export").contains "delete:vars" = false ∧
    (atoms "Package.Export").contains "delete:funcs" = false := by decide

/-- `unexport` / `Tab.unexportOwn` + `retract`: only an own entry is unflagged, it is deleted from the
    users that hold it (`xv.Pkg == obj`) and each of them falls back to another exporter -/
theorem unexport_shape : has "Package.Unexport"
    ["guard:PkgEq", "set:Export=false", "range:Users", "delete:vars", "delete:funcs",
     "call:inheritVar", "call:inheritFunc"] = true := by decide

/-- `Tab.remove` (makunbound, unintern / fmakunbound): the entry leaves the package's table, the
    package falls back to what it inherits, the users holding the package's entry lose it and fall
    back too -/
theorem remove_shape :
    has "Package.Remove" ["delete:vars", "call:inheritVar", "range:Users", "guard:PkgEq", "guard:Locked"] = true ∧
    has "Package.Undefine" ["delete:funcs", "call:inheritFunc", "range:Users", "guard:PkgEq"] = true := by decide

/-- `Tab.inheritFirst` / `Tab.ownExp`: the fall-back walks Uses and takes an entry that exists, is
    OWNED by the used package (`vv.Pkg == p`) and is exported -/
theorem inherit_shape :
    has "Package.inheritVar" ["range:Uses", "guard:nil", "guard:PkgEq", "guard:Export", "write:vars"] = true ∧
    has "Package.inheritFunc" ["range:Uses", "guard:nil", "guard:PkgEq", "guard:Export", "write:funcs"] = true := by decide

/-- `setqIn` / `Tab.assign` / `Tab.create`: `SetIfHas` assigns only with permission (exported, the
    current package, or the private flag) and offers an own exported entry to the users lacking the
    name; `Set` creates the variable otherwise (refused for a locked package) -/
theorem set_shape :
    has "Package.SetIfHas" ["guard:nil", "guard:Export", "guard:CurrentPackage", "guard:private",
      "range:Users", "guard:PkgEq", "write:vars"] = true ∧
    has "Package.Set" ["call:SetIfHas", "guard:Locked", "write:vars"] = true := by decide

/-- `Tab.define` (Go extension interface): users are walked, a user's own or otherwise inherited
    function is left alone (`xf.Pkg == obj`), the export flag decides between offering and
    retracting -/
theorem define_shape : has "Package.Define"
    ["range:Users", "guard:nil", "guard:PkgEq", "guard:Export", "write:funcs", "delete:funcs",
     "call:inheritFunc", "guard:Locked"] = true := by decide

/-- `defunIn`: an inherited function is redefined with its owner (`fi.Pkg != obj`), a new function
    consumes the package's own exported unbound placeholder (deleted from the package and its
    users, who fall back) and is then offered to the users lacking the name -/
theorem deflambda_shape : has "Package.DefLambda"
    ["guard:PkgEq", "guard:Export", "guard:nil", "delete:vars", "call:inheritVar", "range:Users",
     "set:Export=true", "write:funcs"] = true := by decide

/-- the lookups: `Tab.get` (`Package.Get`: exported or the current package), `Tab.find` /
    `Tab.qualFun` (`FindFunc`: private, exported, or the current package is the owner),
    `Tab.qualVar` (`Scope.get`: exported or two colons), `qsetq` (`Scope.Set`: exported or two
    colons, and the private flag is handed on to `Package.Set`) -/
theorem lookup_shape :
    has "Package.Get" ["guard:nil", "guard:Export", "guard:CurrentPackage"] = true ∧
    has "FindFunc" ["call:UnpackName", "guard:nil", "guard:private", "guard:Export", "guard:CurrentPackage", "guard:PkgEq"] = true ∧
    has "Scope.get" ["call:UnpackName", "guard:nil", "guard:Export", "guard:private"] = true ∧
    has "Scope.Set" ["call:UnpackName", "guard:nil", "guard:Export", "guard:private", "call:Set/3"] = true := by decide

/-- `Import` (Go extension interface; not among the model's operations): it stores into the tables
    without consulting Export — recorded so that a change of the only other writer of the tables is
    noticed -/
theorem import_shape : has "Package.Import" ["guard:nil", "write:vars", "write:funcs"] = true ∧
    (atoms "Package.Import").contains "guard:Export" = false := by decide

/-- the exported functions of package.go that (one call level deep) write to, delete from or
    replace a `vars` / `funcs` table are exactly the modelled operations plus `DefConst` /
    `Initialize` (constants and built-in variables of locked packages, outside the histories),
    `Import` (see above) and `RemovePackage` (delete-package: `Unuse` of everything the package
    uses). A new exported writer is an operation the model does not know. -/
theorem table_writers : exportedTableWriters =
    ["Package.DefConst", "Package.DefLambda", "Package.Define", "Package.Export", "Package.Import",
     "Package.Initialize", "Package.Remove", "Package.Set", "Package.SetIfHas", "Package.Undefine",
     "Package.Unexport", "Package.Unuse", "Package.Use", "RemovePackage"] := by decide

end SlipVerif.Pkg.GenC13
