import SlipVerif.Theorems.C15
import SlipVerif.Gen.FormatCode
/-! C15 — obligations over the CODE of pkg/cl/control.go as translated on every run by
    extract/formatcode.go into `SlipVerif.Gen.FormatCode`:

    * the dispatch of `readDir` (which byte reaches which handler, with (colon, at, params) in this order),
    * the radix each of ~B ~O ~D ~X hands to the shared integer writer, the hand-over of ~radix R,
    * every handler's parameter positions, defaults and not-negative flags,
    * the bodies of getIntParam, getCharParam, nextArg, dirT, dirMove, dirP, dirPercent, dirAmp, dirTilde,
      dirPage and the range tests of dirInt and dirAS, symbolically executed into Lean definitions over one
      input record `In`.

    Each theorem states, for ALL inputs, that the translated code computes what the hand-written model
    (`SlipVerif.Format`, the definitions the driver runs and Theorems/C15 is about) computes. They are
    re-proved against what the code says now on every run; a change of a constant, a comparison, a
    branch, a default or the order of arguments breaks one of them (K-gen), and the harness then searches
    for a failing input. Proofs are by case analysis + `omega`, so rewrites that keep the meaning
    (another order of tests, `<= 0` for `< 1`, temporaries) stay provable. -/
namespace SlipVerif.Theorems.GenC15Code
open SlipVerif.Format SlipVerif.Gen.FormatCode

/-- everything the extractor was asked to translate was translated -/
theorem code_translated : untranslated = [] := by decide

/-! ## dispatch -/

/-- the handler the model's directive kinds stand for -/
def handlerOfKind : Kind → String
  | .a => "dirA" | .s => "dirS" | .d => "dirD" | .b => "dirB" | .o => "dirO" | .x => "dirX" | .r => "dirR"
  | .c => "dirC" | .pct => "dirPercent" | .amp => "dirAmp" | .tilde => "dirTilde" | .page => "dirPage"
  | .t => "dirT" | .star => "dirMove" | .p => "dirP" | .hat => "stop" | .nl => "dirNewline"

/-- what the byte after `~` does: prefix-parameter and modifier characters as the model's `parseParam` /
    `parseMods` read them, the block openers and `~?` as `parseSeq` reads them, the simple directives
    through the model's `kindOf?`, and the documented directives outside the model (~$ ~/ ~< ~= ~E ~F ~G ~W,
    ~I ignored). `V` and a leading `+` are Common Lisp syntax slip does not document: either reading is accepted. -/
def expectedAction (b : Nat) : Option String :=
  if b = 58 then some "colon" else if b = 64 then some "at" else if b = 44 then some "comma"
  else if b = 35 then some "hash" else if b = 118 then some "v" else if b = 39 then some "quote"
  else if b = 45 ∨ isDigit b then some "number"
  else if b = 40 then some "dirCase" else if b = 91 then some "dirCond" else if b = 123 then some "dirIter"
  else if b = 63 then some "dirProc"
  else match kindOf? b with
    | some k => some (handlerOfKind k)
    | none =>
      if b = 36 then some "dirMoney" else if b = 47 then some "dirCall" else if b = 60 then some "dirJustify"
      else if b = 61 then some "dirEval"
      else if lowerCh b = 101 then some "dirE" else if lowerCh b = 102 then some "dirF" else if lowerCh b = 103 then some "dirG"
      else if lowerCh b = 119 then some "dirW" else if lowerCh b = 105 then some "ignore"
      else none

/-- every byte reaches the handler the documentation (and the model's parser) names, handing over
    (colon, at, params) in this order; nothing else is dispatched -/
theorem dispatch_is_the_documented_one :
    ∀ b, b < 256 → dispatch.lookup b = expectedAction b
      ∨ (b = 86 ∧ dispatch.lookup b = some "v") ∨ (b = 43 ∧ dispatch.lookup b = some "number") := by
  decide +kernel

/-- no byte has two clauses -/
theorem dispatch_has_no_duplicates : (dispatch.map Prod.fst).Nodup := by decide +kernel

/-- directive letters are case-insensitive -/
theorem dispatch_ignores_case : ∀ b, b < 91 → 65 ≤ b → b ≠ 86 → dispatch.lookup b = dispatch.lookup (b + 32) := by
  decide +kernel

/-! ## radix of ~B ~O ~D ~X and of ~radix R -/

theorem int_bases_documented : intBases = [("dirB", 2), ("dirD", 10), ("dirO", 8), ("dirX", 16)] := by decide

/-- ~radix,mincol,…R hands the parameters after the radix and the radix to the shared integer writer -/
theorem radix_hand_over : radixCall = "colon,at,params[1:],radix" := by decide

def codeBase (k : Kind) : Nat := (intBases.lookup (handlerOfKind k)).getD 0

/-- the model's ~D ~B ~O ~X are the shared integer directive in the radix the code hands over -/
theorem int_directives_use_the_code_bases (T : EnglishTables) (k : Kind) (hk : k = .d ∨ k = .b ∨ k = .o ∨ k = .x)
    (vs : List PVal) (colon atm : Bool) (st : St) :
    runSimple T k vs colon atm st = runIntDir T (codeBase k) vs 0 colon atm st := by
  have h1 : codeBase .d = 10 := by decide
  have h2 : codeBase .b = 2 := by decide
  have h3 : codeBase .o = 8 := by decide
  have h4 : codeBase .x = 16 := by decide
  rcases hk with rfl | rfl | rfl | rfl
  · rw [h1]; rfl
  · rw [h2]; rfl
  · rw [h3]; rfl
  · rw [h4]; rfl

/-! ## parameter positions and defaults -/

/-- (kind 0 = integer / 1 = character, position, default, must not be negative); -1 = no limit, -2 = none -/
def documentedSpecs : List (String × List (Nat × Nat × Int × Bool)) := [
  ("dirMoney", [(0, 0, 2, true), (0, 1, 1, true), (0, 2, 0, true), (1, 3, 32, true)]),
  ("dirJustify", [(0, 0, 0, true), (0, 1, 1, true), (0, 2, 0, true), (1, 3, 32, true)]),
  ("dirInt", [(0, 0, 0, true), (1, 1, 32, true), (1, 2, 44, true), (0, 3, 3, true)]),
  ("dirEsetup", [(0, 0, 0, true), (0, 1, 0, true), (0, 2, 0, true), (0, 3, 1, false), (1, 4, -2, true), (1, 5, 32, true), (1, 6, 101, true)]),
  ("dirFsetup", [(0, 0, 0, true), (0, 1, 0, true), (0, 2, 0, false), (1, 3, -2, true), (1, 4, 32, true)]),
  ("dirR", [(0, 0, 10, true)]),
  ("dirAS", [(0, 0, 0, true), (0, 1, 1, true), (0, 2, 0, true), (1, 3, 32, true)]),
  ("dirT", [(0, 0, 1, true), (0, 1, 1, true)]),
  ("dirIter", [(0, 0, -1, true)])]

/-- every handler reads its prefix parameters at the documented positions with the documented defaults
    (mincol 0, padchar blank, commachar `,`, comma-interval 3; colinc 1, minpad 0; colnum 1; radix 10; no
    iteration limit; ~$ 2,1,0,blank) -/
theorem param_specs_documented : paramSpecs = documentedSpecs := by decide

def specDefault (h : String) (idx : Nat) : Nat :=
  match paramSpecs.lookup h with
  | some l => match l[idx]? with
    | some (_, _, d, _) => d.toNat
    | none => 0
  | none => 0

/-- the model's integer directives take the code's defaults when no parameter is given … -/
theorem int_defaults_are_the_code_defaults (colon atm : Bool) :
    intFmtOf [] 0 colon atm = .ok { mincol := specDefault "dirInt" 0, pad := specDefault "dirInt" 1, comma := specDefault "dirInt" 2, interval := specDefault "dirInt" 3, colon := colon, atm := atm } := by
  have h0 : specDefault "dirInt" 0 = 0 := by decide
  have h1 : specDefault "dirInt" 1 = 32 := by decide
  have h2 : specDefault "dirInt" 2 = 44 := by decide
  have h3 : specDefault "dirInt" 3 = 3 := by decide
  rw [h0, h1, h2, h3]
  rfl

/-- … and so do ~A / ~S and ~T: omitting every parameter is giving the code's defaults explicitly -/
theorem as_defaults_are_the_code_defaults (T : EnglishTables) (k : Kind) (hk : k = .a ∨ k = .s) (colon atm : Bool) (st : St) :
    runSimple T k [] colon atm st
      = runSimple T k [.num (specDefault "dirAS" 0), .num (specDefault "dirAS" 1), .num (specDefault "dirAS" 2),
          .chr (specDefault "dirAS" 3)] colon atm st := by
  have h0 : specDefault "dirAS" 0 = 0 := by decide
  have h1 : specDefault "dirAS" 1 = 1 := by decide
  have h2 : specDefault "dirAS" 2 = 0 := by decide
  have h3 : specDefault "dirAS" 3 = 32 := by decide
  rw [h0, h1, h2, h3]
  rcases hk with rfl | rfl <;> simp [runSimple, natParam, chrParam]

theorem tab_defaults_are_the_code_defaults (T : EnglishTables) (colon atm : Bool) (st : St) :
    runSimple T .t [] colon atm st
      = runSimple T .t [.num (specDefault "dirT" 0), .num (specDefault "dirT" 1)] colon atm st := by
  have h0 : specDefault "dirT" 0 = 1 := by decide
  have h1 : specDefault "dirT" 1 = 1 := by decide
  rw [h0, h1]
  simp [runSimple, natParam]

/-! ## decoding of a prefix parameter: getIntParam / getCharParam are the model's natParam / chrParam -/

/-- how the model's resolved parameter list looks to the code: kind of the entry (0 = nil: omitted or nil
    given for `v`; 1 = int; 3 = character) and its value -/
def pvKind : Option PVal → Int
  | some (.num _) => 1
  | some (.chr _) => 3
  | _ => 0
def pvVal : Option PVal → Int
  | some (.num n) => n
  | some (.chr c) => c
  | _ => 0

theorem getIntParam_is_natParam (vs : List PVal) (i dflt : Nat) :
    match natParam vs i dflt with
    | .ok n => getIntParam_err { Pkind := (pvKind vs[i]?), Pval := (pvVal vs[i]?), len_params := vs.length, notNeg := true, pos := i, defVal := dflt } = false
                ∧ getIntParam_result { Pkind := (pvKind vs[i]?), Pval := (pvVal vs[i]?), len_params := vs.length, notNeg := true, pos := i, defVal := dflt } = n
    | .error _ => getIntParam_err { Pkind := (pvKind vs[i]?), Pval := (pvVal vs[i]?), len_params := vs.length, notNeg := true, pos := i, defVal := dflt } = true := by
  unfold natParam
  by_cases hi : i < vs.length
  · have hget : vs[i]? = some vs[i] := by simp [hi]
    have hlt : ((i : Int) < (vs.length : Int)) := by omega
    rw [hget]
    cases hv : vs[i] with
    | none => simp [pvKind, pvVal, getIntParam_err, getIntParam_result, hlt]
    | num n =>
      by_cases hn : n < 0
      · simp [pvKind, pvVal, getIntParam_err, getIntParam_result, hlt, hn]
      · simp [pvKind, pvVal, getIntParam_err, getIntParam_result, hlt, hn]
        omega
    | chr c => simp [pvKind, pvVal, getIntParam_err, getIntParam_result, hlt]
  · have hget : vs[i]? = none := by simp; omega
    have hlt : ¬ ((i : Int) < (vs.length : Int)) := by omega
    rw [hget]
    simp [pvKind, pvVal, getIntParam_err, getIntParam_result, hlt]

/-- an integer given through `v` (a slip.Integer, kind 2) is decoded like a literal one (kind 1) -/
theorem getIntParam_v_like_literal (i : In) (h : i.Pkind = 2) :
    getIntParam_err i = getIntParam_err { i with Pkind := 1 } ∧ getIntParam_result i = getIntParam_result { i with Pkind := 1 } := by
  simp [getIntParam_err, getIntParam_result, h]

theorem getCharParam_is_chrParam (vs : List PVal) (i dflt : Nat) :
    (chrParam vs i dflt).toBool = !getCharParam_err { Pkind := (pvKind vs[i]?), len_params := vs.length, pos := i } := by
  unfold chrParam
  by_cases hi : i < vs.length
  · have hget : vs[i]? = some vs[i] := by simp [hi]
    have hlt : ((i : Int) < (vs.length : Int)) := by omega
    rw [hget]
    cases hv : vs[i] <;> simp [pvKind, getCharParam_err, hlt, Except.toBool]
  · have hget : vs[i]? = none := by simp; omega
    have hlt : ¬ ((i : Int) < (vs.length : Int)) := by omega
    rw [hget]
    simp [pvKind, getCharParam_err, hlt, Except.toBool]

/-! ## nextArg is the model's `St.next` -/

theorem nextArg_is_next (st : St) :
    match st.next with
    | .ok (_, st1) => nextArg_err { argPos := st.pos, len_c_args := st.args.length } = false
        ∧ nextArg_argPos { argPos := st.pos, len_c_args := st.args.length } = st1.pos ∧ st1.args = st.args ∧ st1.out = st.out
    | .error _ => nextArg_err { argPos := st.pos, len_c_args := st.args.length } = true := by
  unfold St.next
  by_cases hp : st.pos < st.args.length
  · have hget : st.args[st.pos]? = some st.args[st.pos] := by simp [hp]
    rw [hget]
    simp [nextArg_err, nextArg_argPos]
    omega
  · have hget : st.args[st.pos]? = none := by simp; omega
    rw [hget]
    simp [nextArg_err]
    omega

/-! ## ~T : the code's column arithmetic is the model's `tabSpaces` -/

theorem tdiv_cast (a b : Nat) : Int.tdiv (a : Int) (b : Int) = ((a / b : Nat) : Int) := by
  rw [Int.tdiv_eq_ediv_of_nonneg (by omega)]
  exact (Int.natCast_ediv a b).symm

theorem tmod_cast (a b : Nat) : Int.tmod (a : Int) (b : Int) = ((a % b : Nat) : Int) := by
  rw [Int.tmod_eq_emod_of_nonneg (by omega)]
  exact (Int.natCast_emod a b).symm

/-- `a / b * b` and `a % b` in the integers, as linear facts over the atoms omega sees -/
theorem div_mul_facts (a b : Nat) :
    ((a / b : Nat) : Int) * (b : Int) + ((a % b : Nat) : Int) = (a : Int)
    ∧ (0 < b → ((a % b : Nat) : Int) < (b : Int)) ∧ (0 : Int) ≤ ((a % b : Nat) : Int) := by
  refine ⟨?_, ?_, by omega⟩
  · have := Nat.div_add_mod a b
    have h2 : ((b * (a / b) + a % b : Nat) : Int) = (a : Int) := by rw [this]
    push_cast at h2
    rw [Int.mul_comm] at h2
    exact h2
  · intro hb
    have := Nat.mod_lt a hb
    omega

/-- ~colnum,colincT from column `cur`: the number of blanks the code computes (`target` when its
    emission loop starts) is the model's, for all colnum, colinc (also 0) and columns -/
theorem tab_code_absolute (colnum colinc cur : Nat) :
    dirT_target { at_ := false, p_0 := colnum, p_1 := colinc, c_column_2 := cur } = (tabSpaces false colnum colinc cur : Nat) := by
  simp only [dirT_target, tabSpaces, tdiv_cast, tmod_cast, Bool.false_eq_true, if_false, decide_eq_true_eq, Int.add_mul, Int.mul_add, Int.one_mul, Int.mul_one]
  obtain ⟨hdm, hlt, hge⟩ := div_mul_facts cur colinc
  have hcast : ((colnum * colinc : Nat) : Int) = (colnum : Int) * (colinc : Int) := by push_cast; rfl
  have hcomm1 : (colinc : Int) * (colnum : Int) = (colnum : Int) * (colinc : Int) := Int.mul_comm _ _
  have hcomm2 : (colinc : Int) * ((cur / colinc : Nat) : Int) = ((cur / colinc : Nat) : Int) * (colinc : Int) := Int.mul_comm _ _
  have hmod : 0 < colinc → cur % colinc < colinc := fun h => Nat.mod_lt _ h
  repeat' split
  all_goals omega

/-- ~colrel,colinc@T: the code first writes colrel blanks (the column it then measures is cur + colrel)
    and then `target` more; together that is the model's count -/
theorem tab_code_relative (colrel colinc cur : Nat) :
    (colrel : Int) + dirT_target { at_ := true, p_0 := colrel, p_1 := colinc, c_column := ((cur + colrel : Nat) : Int) }
      = (tabSpaces true colrel colinc cur : Nat) := by
  simp only [dirT_target, tabSpaces, tdiv_cast, tmod_cast, if_true, decide_eq_true_eq, Bool.or_eq_true, Int.add_mul, Int.mul_add, Int.one_mul, Int.mul_one]
  obtain ⟨hdm, hlt, hge⟩ := div_mul_facts (cur + colrel) colinc
  have hmod : 0 < colinc → (cur + colrel) % colinc < colinc := fun h => Nat.mod_lt _ h
  have hcomm2 : (colinc : Int) * (((cur + colrel) / colinc : Nat) : Int) = (((cur + colrel) / colinc : Nat) : Int) * (colinc : Int) := Int.mul_comm _ _
  have hmod2 : 0 < colinc → (colinc - (cur + colrel) % colinc) % colinc
      = if (cur + colrel) % colinc = 0 then 0 else colinc - (cur + colrel) % colinc := by
    intro h
    split
    · rename_i hz; rw [hz]; simp
    · apply Nat.mod_eq_of_lt; omega
  repeat' split
  all_goals first | omega | (have h2 := hmod2 (by omega); split at h2 <;> omega)

/-- ~2,4T from column 9: the code computes 3 blanks (to column 12), the model too -/
example : dirT_target { at_ := false, p_0 := 2, p_1 := 4, c_column_2 := 9 } = 3 ∧ tabSpaces false 2 4 9 = 3 := by decide

theorem tab_code_raises_nothing (i : In) : dirT_err i = false := by
  simp [dirT_err]

/-! ## ~* ~:* ~@* -/

/-- the inputs of a handler that decodes its first prefix parameter, as the model's resolved list shows them -/
def paramIn (vs : List PVal) : In := { P0kind := pvKind vs[0]?, P0val := pvVal vs[0]?, len_params := vs.length }

/-- the first parameter is absent (no parameter at all), omitted / nil, a number or a character -/
theorem param0_cases (vs : List PVal) :
    (vs.length = 0 ∧ pvKind vs[0]? = 0) ∨ (0 < vs.length ∧ vs[0]? = some .none ∧ pvKind vs[0]? = 0)
    ∨ (∃ n, 0 < vs.length ∧ vs[0]? = some (.num n) ∧ pvKind vs[0]? = 1 ∧ pvVal vs[0]? = n)
    ∨ (∃ c, 0 < vs.length ∧ vs[0]? = some (.chr c) ∧ pvKind vs[0]? = 3) := by
  cases vs with
  | nil => left; simp [pvKind]
  | cons v rest =>
    right
    cases v with
    | none => left; simp [pvKind]
    | num n => right; left; exact ⟨n, by simp [pvKind, pvVal]⟩
    | chr c => right; right; exact ⟨c, by simp [pvKind]⟩

/-- what `natParam vs 0 d` is in each of the four cases -/
theorem natParam0_cases (vs : List PVal) (d : Nat) :
    (pvKind vs[0]? = 0 ∧ natParam vs 0 d = .ok d)
    ∨ (∃ n : Int, 0 < vs.length ∧ pvKind vs[0]? = 1 ∧ pvVal vs[0]? = n ∧ natParam vs 0 d = if n < 0 then .error .range else .ok n.toNat)
    ∨ (0 < vs.length ∧ pvKind vs[0]? = 3 ∧ natParam vs 0 d = .error .type) := by
  rcases param0_cases vs with ⟨_, hk⟩ | ⟨_, hv, hk⟩ | ⟨n, hl, hv, hk, hvv⟩ | ⟨c, hl, hv, hk⟩
  · left; refine ⟨hk, ?_⟩
    cases vs with
    | nil => simp [natParam]
    | cons a as => simp at *
  · left; exact ⟨hk, by simp [natParam, hv]⟩
  · right; left; exact ⟨n, hl, hk, hvv, by simp [natParam, hv]⟩
  · right; right; exact ⟨hl, hk, by simp [natParam, hv]⟩

/-- whenever the model moves the cursor (the move stays inside the argument list), the code moves it
    to the same place and raises nothing; the code writes nothing. (The cursor of a reachable state is
    never beyond the end of the arguments: `hpos`.) -/
theorem move_code_is_the_model (T : EnglishTables) (vs : List PVal) (colon atm : Bool) (st st1 : St)
    (hpos : st.pos ≤ st.args.length) (h : runSimple T .star vs colon atm st = .ok st1) :
    dirMove_err { paramIn vs with colon := colon, at_ := atm, argPos := st.pos, len_c_args := st.args.length } = false
    ∧ dirMove_argPos { paramIn vs with colon := colon, at_ := atm, argPos := st.pos, len_c_args := st.args.length } = st1.pos
    ∧ ∀ i : In, dirMove_out i = i.out := by
  have hout : ∀ i : In, dirMove_out i = i.out := fun i => by simp [dirMove_out]
  simp only [runSimple, bind, Except.bind, pure, Except.pure] at h
  split at h
  · simp at h
  · rename_i hca
    have hlen : ((0 : Int) < (vs.length : Int)) ↔ 0 < vs.length := by omega
    rcases natParam0_cases vs (if atm = true then 0 else 1) with ⟨hk, hn⟩ | ⟨n, hl, hk, hv, hn⟩ | ⟨hl, hk, hn⟩
    · simp only [hn] at h
      simp only [paramIn, hk]
      cases colon <;> cases atm <;> simp at hca h <;> (try split at h) <;> (try simp at h) <;> subst h <;>
        simp [dirMove_err, dirMove_argPos, hout] <;> omega
    · simp only [hn] at h
      by_cases hneg : n < 0
      · simp [hneg] at h
      · simp only [hneg, if_false] at h
        have hl' : (0 : Int) < (vs.length : Int) := by omega
        simp only [paramIn, hk, hv]
        cases colon <;> cases atm <;> simp at hca h <;> (try split at h) <;> (try simp at h) <;> subst h <;>
          simp [dirMove_err, dirMove_argPos, hout, hl] <;> omega
    · simp [hn] at h

/-- the hypotheses are satisfiable: ~2:* from cursor 3 of three arguments moves to 1 in the model … -/
example : runSimple genTables .star [.num 2] true false ⟨[.int 1, .int 2, .int 3], 3, []⟩ = .ok ⟨[.int 1, .int 2, .int 3], 1, []⟩ := by
  simp [runSimple, natParam, bind, Except.bind, pure, Except.pure]
/-- … and in the translated code -/
example : dirMove_argPos { paramIn [.num 2] with colon := true, at_ := false, argPos := 3, len_c_args := 3 } = 1 := by decide

/-- and when the code raises an error the model rejects the directive too -/
theorem move_code_error_is_a_model_error (T : EnglishTables) (vs : List PVal) (colon atm : Bool) (st : St)
    (hpos : st.pos ≤ st.args.length)
    (h : dirMove_err { paramIn vs with colon := colon, at_ := atm, argPos := st.pos, len_c_args := st.args.length } = true) :
    ∃ e, runSimple T .star vs colon atm st = .error e := by
  cases hr : runSimple T .star vs colon atm st with
  | error e => exact ⟨e, rfl⟩
  | ok st1 =>
    have := (move_code_is_the_model T vs colon atm st st1 hpos hr).1
    rw [this] at h
    exact absurd h (by simp)

/-! ## ~P -/

/-- ~P ~:P ~@P ~:@P: the code backs up, tests the cursor, takes the argument and writes what the model
    does. `ok`/`n` are the code's `arg.(slip.Fixnum)`: for an argument x, ok says it is a fixnum and n is its value. -/
theorem plural_code_is_the_model (T : EnglishTables) (colon atm : Bool) (st : St) (ok : Bool) (n : Int)
    (hok : ∀ x, st.args[if colon then st.pos - 1 else st.pos]? = some x → ((ok = true ∧ n = 1) ↔ x = .int 1)) :
    let i : In := { colon := colon, at_ := atm, argPos := st.pos, len_c_args := st.args.length, out := st.out, ok := ok, n := n }
    match runSimple T .p [] colon atm st with
    | .ok st1 => dirP_err i = false ∧ dirP_argPos i = st1.pos ∧ dirP_out i = st1.out ∧ st1.args = st.args
    | .error _ => dirP_err i = true := by
  intro i
  simp only [runSimple, bind, Except.bind, pure, Except.pure, St.next]
  cases colon
  · simp only [Bool.false_eq_true, if_false] at hok ⊢
    cases hx : st.args[st.pos]? with
    | none =>
      have : st.args.length ≤ st.pos := by simpa using hx
      simp [i, dirP_err]; omega
    | some x =>
      have hlt : st.pos < st.args.length := by
        rcases Nat.lt_or_ge st.pos st.args.length with h | h
        · exact h
        · have : st.args[st.pos]? = none := by simp [h]
          rw [this] at hx; cases hx
      have hx1 := hok x hx
      have hnl : ¬ ((st.args.length : Int) ≤ (st.pos : Int)) := by omega
      by_cases h1 : x = .int 1
      · have := hx1.mpr h1
        cases atm <;> simp [i, dirP_err, dirP_argPos, dirP_out, St.emit, hnl, h1, this] <;> omega
      · have hno : ¬ (ok = true ∧ n = 1) := fun hh => h1 (hx1.mp hh)
        have hno' : (ok && decide (n = 1)) = false := by
          cases ok <;> simp_all
        cases atm <;> simp [i, dirP_err, dirP_argPos, dirP_out, St.emit, hnl, h1, hno'] <;> omega
  · simp only [if_true] at hok ⊢
    by_cases hp : 1 ≤ st.pos
    · simp only [hp, if_true]
      cases hx : st.args[st.pos - 1]? with
      | none =>
        have : st.args.length ≤ st.pos - 1 := by simpa using hx
        simp [i, dirP_err]; omega
      | some x =>
        have hlt : st.pos - 1 < st.args.length := by
          rcases Nat.lt_or_ge (st.pos - 1) st.args.length with h | h
          · exact h
          · have : st.args[st.pos - 1]? = none := by simp [h]
            rw [this] at hx; cases hx
        have hx1 := hok x hx
        have hnl : ¬ ((st.args.length : Int) ≤ (st.pos : Int) - 1) := by omega
        have hnn : ¬ ((st.pos : Int) - 1 < 0) := by omega
        have hpos : ((st.pos : Int) - 1 + 1) = ((st.pos - 1 + 1 : Nat) : Int) := by omega
        by_cases h1 : x = .int 1
        · have := hx1.mpr h1
          cases atm <;> simp [i, dirP_err, dirP_argPos, dirP_out, St.emit, hnl, hnn, h1, this, hpos] <;> omega
        · have hno : ¬ (ok = true ∧ n = 1) := fun hh => h1 (hx1.mp hh)
          have hno' : (ok && decide (n = 1)) = false := by
            cases ok <;> simp_all
          cases atm <;> simp [i, dirP_err, dirP_argPos, dirP_out, St.emit, hnl, hnn, h1, hno', hpos] <;> omega
    · have hp0 : st.pos = 0 := by omega
      simp [i, dirP_err, hp, hp0]

/-- the hypothesis about `ok`/`n` is satisfiable (the argument 1 is a fixnum with value 1), and the translated
    code writes `ies` for ~@P of 2 -/
example : ∀ x, ([Arg.int 1] : List Arg)[(0 : Nat)]? = some x → ((true = true ∧ (1 : Int) = 1) ↔ x = .int 1) := by
  intro x h; simp at h; subst h; simp
example : dirP_out { at_ := true, argPos := 0, len_c_args := 1, ok := true, n := 2, out := [120] } = [120, 105, 101, 115] := by decide

/-! ## ~% ~~ ~| ~& -/

/-- ~n% ~n~ ~n| : with the count the model decodes, the code writes that many characters and raises
    nothing; a character where the count is expected is an error in both (a negative count is outside
    the model's domain) -/
theorem repeat_code_is_the_model (vs : List PVal) (out : Txt) :
    match natParam vs 0 1 with
    | .ok n => dirPercent_err (paramIn vs) = false ∧ dirPercent_out { paramIn vs with out := out } = out ++ List.replicate n 10
        ∧ dirTilde_err (paramIn vs) = false ∧ dirTilde_out { paramIn vs with out := out } = out ++ List.replicate n 126
        ∧ dirPage_err (paramIn vs) = false ∧ dirPage_out { paramIn vs with out := out } = out ++ List.replicate n 12
    | .error e => e = .range ∨ (dirPercent_err (paramIn vs) = true ∧ dirTilde_err (paramIn vs) = true ∧ dirPage_err (paramIn vs) = true) := by
  rcases natParam0_cases vs 1 with ⟨hk, hn⟩ | ⟨n, hl, hk, hv, hn⟩ | ⟨hl, hk, hn⟩
  · rw [hn]
    simp only [paramIn, hk]
    simp [dirPercent_err, dirPercent_out, dirTilde_err, dirTilde_out, dirPage_err, dirPage_out]
  · rw [hn]
    simp only [paramIn, hk, hv]
    by_cases hneg : n < 0
    · simp [hneg]
    · simp [hneg, dirPercent_err, dirPercent_out, dirTilde_err, dirTilde_out, dirPage_err, dirPage_out, hl]
  · rw [hn]
    simp only [paramIn, hk]
    simp [dirPercent_err, dirTilde_err, dirPage_err, hl]

/-- the cursor is not touched by ~% ~~ ~| ~& -/
theorem repeat_code_keeps_the_cursor (i : In) :
    dirPercent_argPos i = i.argPos ∧ dirTilde_argPos i = i.argPos ∧ dirPage_argPos i = i.argPos ∧ dirAmp_argPos i = i.argPos := by
  simp [dirPercent_argPos, dirTilde_argPos, dirPage_argPos, dirAmp_argPos]

/-- ~n& : one newline less when the output is at the start of a line (what the code's atLineStart
    reports is the model's `endsWithNewline` of the whole output, checked by the correspondence) -/
theorem freshline_code_is_the_model (T : EnglishTables) (vs : List PVal) (st : St) :
    match runSimple T .amp vs false false st with
    | .ok st1 => dirAmp_err (paramIn vs) = false
        ∧ dirAmp_out { paramIn vs with out := st.out, c_atLineStart := endsWithNewline st.out } = st1.out
        ∧ st1.pos = st.pos ∧ st1.args = st.args
    | .error e => e = .range ∨ dirAmp_err (paramIn vs) = true := by
  simp only [runSimple, bind, Except.bind, pure, Except.pure, Bool.false_eq_true, or_self, if_false]
  rcases natParam0_cases vs 1 with ⟨hk, hn⟩ | ⟨n, hl, hk, hv, hn⟩ | ⟨hl, hk, hn⟩
  · rw [hn]
    simp only [paramIn, hk]
    cases he : endsWithNewline st.out <;> simp [dirAmp_err, dirAmp_out, St.emit]
  · rw [hn]
    simp only [paramIn, hk, hv]
    by_cases hneg : n < 0
    · simp [hneg]
    · by_cases h0 : n.toNat = 0
      · have : n = 0 := by omega
        subst this
        cases he : endsWithNewline st.out <;> simp [dirAmp_err, dirAmp_out, hl]
      · cases he : endsWithNewline st.out <;>
          simp [hneg, h0, dirAmp_err, dirAmp_out, hl, St.emit] <;> omega
  · rw [hn]
    simp only [paramIn, hk]
    simp [dirAmp_err, hl]

/-! ## range tests of the integer directives and of ~A / ~S -/

/-- with an argument to take, the integer writer rejects exactly a comma-interval below 1 — the model's `interval = 0` -/
theorem int_interval_test_is_the_model (vs : List PVal) (off : Nat) (colon atm : Bool) (interval : Nat) (argPos len : Nat) (h : argPos < len) :
    dirInt_err { argPos := argPos, len_c_args := len, p_3 := interval } = decide (interval = 0) := by
  simp only [dirInt_err]
  rw [Bool.eq_iff_iff]
  simp
  omega

/-- ~A / ~S reject exactly a colinc below 1, whatever the text — the model's `padAS` -/
theorem as_colinc_test_is_the_model (mincol colinc minpad pad : Nat) (atm : Bool) (s : Txt) (argPos len : Nat) (h : argPos < len) :
    dirAS_err { argPos := argPos, len_c_args := len, p_1 := colinc } = !(padAS mincol colinc minpad pad atm s).toBool := by
  unfold padAS
  by_cases hc : colinc = 0
  · subst hc; simp [dirAS_err, Except.toBool]
  · have : ¬ ((colinc : Int) < 1) := by omega
    simp [dirAS_err, hc, Except.toBool, this]
    omega

/-! ## ~A / ~S : the padding LOOP of the code is the model's rounded-up quotient

`dirAS` builds the padding in a loop (`for len(out)+len(pad) < mincol { colinc more }` after `minpad`
copies). The extractor turns the loop into the fuel-recursive `dirAS_loop1` (state = the length of `pad`;
`none` when the fuel — the gap at the start + 1 — does not suffice). For ALL mincol, colinc ≥ 1, minpad and
lengths of the printed argument: the fuel suffices and the loop ends with exactly the number of padding
characters the model's closed form `padAS` gives. -/

/-- the loop, started with `x` padding characters: with any fuel of at least the gap + 1 it ends after k
    rounds, where k is the least number of increments that reaches mincol (k rounds do, k - 1 do not) -/
theorem as_pad_loop_spec (i : In) (hc : 1 ≤ i.p_1) (hp : i.len_padchar = 1) (h0 : 0 ≤ i.argPos) (h1 : i.argPos < i.len_c_args) :
    ∀ (n : Nat) (x : Int), (i.p_0 - (dirAS_outlen i + x) + 1).toNat ≤ n →
      ∃ k : Nat, (∀ fuel, n ≤ fuel → dirAS_loop1 i fuel [x] = some [x + k * i.p_1])
        ∧ i.p_0 ≤ dirAS_outlen i + x + k * i.p_1
        ∧ (k = 0 ∨ dirAS_outlen i + x + ((k : Int) - 1) * i.p_1 < i.p_0) := by
  have hcond : ∀ x : Int, dirAS_loop1_cond i [x] = decide (dirAS_outlen i + x < i.p_0) := by
    intro x
    have e1 : ¬ (i.argPos < 0) := by omega
    have e2 : ¬ (i.len_c_args ≤ i.argPos) := by omega
    simp [dirAS_loop1_cond, dirAS_outlen, fcNth, h0, e1, e2, Int.add_comm, Int.add_left_comm]
  have hnext : ∀ x : Int, dirAS_loop1_next i [x] = [x + i.p_1] := by
    intro x
    have e : (0 : Int) < i.p_1 := by omega
    simp [dirAS_loop1_next, fcNth, hp, e, Int.add_comm]
  intro n
  induction n with
  | zero =>
    intro x h
    have hlt : ¬ (dirAS_outlen i + x < i.p_0) := by omega
    refine ⟨0, ?_, ?_, Or.inl rfl⟩
    · intro fuel _
      cases fuel <;> (rw [dirAS_loop1, hcond]; simp [hlt])
    · simp; omega
  | succ n ih =>
    intro x h
    by_cases hlt : dirAS_outlen i + x < i.p_0
    · obtain ⟨k, hk1, hk2, hk3⟩ := ih (x + i.p_1) (by omega)
      refine ⟨k + 1, ?_, ?_, ?_⟩
      · intro fuel hf
        cases fuel with
        | zero => omega
        | succ m =>
          rw [dirAS_loop1, hcond]
          simp only [hlt, decide_true, if_true, hnext]
          rw [hk1 m (by omega)]; congr 2; push_cast; rw [Int.add_mul]; omega
      · push_cast; rw [Int.add_mul]; omega
      · right
        push_cast
        rcases hk3 with rfl | hk3
        · simp; omega
        · have e0 : ((k : Int) + 1 - 1) = (k : Int) := by omega
          have e1 : ((k : Int) - 1) * i.p_1 = (k : Int) * i.p_1 - i.p_1 := by rw [Int.sub_mul, Int.one_mul]
          rw [e0]
          omega
    · refine ⟨0, ?_, ?_, Or.inl rfl⟩
      · intro fuel _
        cases fuel <;> (rw [dirAS_loop1, hcond]; simp [hlt])
      · simp; omega

/-- the least k with k * c ≥ d is the rounded-up quotient -/
theorem least_multiple_is_ceil (c d k : Nat) (hc : 1 ≤ c) (h1 : d ≤ k * c) (h2 : k = 0 ∨ (k - 1) * c < d) :
    k = (d + c - 1) / c := by
  symm
  apply Nat.div_eq_of_lt_le
  · rcases h2 with rfl | h2
    · simp
    · have : k * c = (k - 1) * c + c := by
        cases k with
        | zero => omega
        | succ m => simp [Nat.succ_mul]
      omega
  · have : (k + 1) * c = k * c + c := Nat.succ_mul k c
    omega

theorem pos_part (n : Nat) : (if decide ((0 : Int) < (n : Int)) = true then (n : Int) else 0) = (n : Int) := by
  by_cases h : (0 : Int) < (n : Int)
  · rw [if_pos (by simpa using h)]
  · rw [if_neg (by simpa using h)]; omega

theorem as_padding_code_is_the_model (i : In) (mincol colinc minpad L : Nat) (hc : 1 ≤ colinc)
    (hm : i.p_0 = mincol) (hi : i.p_1 = colinc) (hp : i.p_2 = minpad) (hu : i.len_padchar = 1)
    (h0 : 0 ≤ i.argPos) (h1 : i.argPos < i.len_c_args) (hL : dirAS_outlen i = L) :
    dirAS_loopsok i = true
    ∧ dirAS_padlen i = ((minpad + (if L + minpad < mincol then (mincol - (L + minpad) + colinc - 1) / colinc else 0) * colinc : Nat) : Int) := by
  have e1 : ¬ (i.argPos < 0) := by omega
  have e2 : ¬ (i.len_c_args ≤ i.argPos) := by omega
  have e3 : ¬ (i.p_1 < 1) := by rw [hi]; omega
  have hL' := hL
  simp only [dirAS_outlen, h0, e1, e2, decide_true, decide_false, Bool.or_false, Bool.and_false, Bool.false_eq_true, if_false, Int.zero_add] at hL'
  -- the code's loop: k rounds, the least number that reaches mincol
  obtain ⟨k, hk1, hk2, hk3⟩ := as_pad_loop_spec i (by rw [hi]; omega) hu h0 h1 ((i.p_0 - (dirAS_outlen i + minpad) + 1).toNat) (minpad : Int) (Nat.le_refl _)
  rw [hL] at hk1
  -- … is the model's rounded-up quotient
  have hk : k = (if L + minpad < mincol then (mincol - (L + minpad) + colinc - 1) / colinc else 0) := by
    rw [hL, hm, hi] at hk2 hk3
    have hk2' : mincol - (L + minpad) ≤ k * colinc := by
      have : ((k * colinc : Nat) : Int) = (k : Int) * (colinc : Int) := by push_cast; rfl
      omega
    have hk3' : k = 0 ∨ (k - 1) * colinc < mincol - (L + minpad) := by
      cases k with
      | zero => left; rfl
      | succ m =>
        right
        rcases hk3 with h | h
        · omega
        · have : ((m * colinc : Nat) : Int) = (m : Int) * (colinc : Int) := by push_cast; rfl
          have e : ((m + 1 : Nat) : Int) - 1 = (m : Int) := by omega
          rw [e] at h
          simp only [Nat.add_sub_cancel]
          omega
    have := least_multiple_is_ceil colinc (mincol - (L + minpad)) k hc hk2' hk3'
    split
    · exact this
    · have hz : mincol - (L + minpad) = 0 := by omega
      rw [hz] at this
      rw [this]
      apply Nat.div_eq_of_lt; omega
  constructor
  · simp only [dirAS_loopsok, hp, hu, Int.mul_one, Int.zero_add, pos_part, hL']
    rw [hk1 _ (by omega)]; rfl
  · simp only [dirAS_padlen, h0, e1, e2, e3, decide_true, decide_false, Bool.or_false, Bool.and_false, Bool.false_eq_true, if_false,
      hp, hu, Int.mul_one, Int.zero_add, pos_part, hL']
    rw [hk1 _ (by omega)]
    simp only [Option.getD_some, fcNth, List.getD_cons_zero]
    rw [← hk, hi]
    push_cast
    rfl

/-- a concrete run of the translated loop: mincol 7, colinc 3, minpad 1, a 2-character argument — the gap is 4,
    fuel 5, two rounds, 7 padding characters (the hypotheses of the theorem hold for this input record) -/
example : dirAS_loop1 { p_0 := 7, p_1 := 3, p_2 := 1, len_padchar := 1, len_c_args := 1, arg_is_slip_String := true, len_ta := 2 } 5 [1] = some [7] := by decide
example : let i : In := { p_0 := 7, p_1 := 3, p_2 := 1, len_padchar := 1, len_c_args := 1, arg_is_slip_String := true, len_ta := 2 }
    dirAS_outlen i = 2 ∧ dirAS_padlen i = 7 ∧ dirAS_loopsok i = true := by decide

/-- … which is the padding `padAS` writes: the text it returns is that much longer than the argument's -/
theorem as_padding_code_is_padAS (i : In) (mincol colinc minpad pad : Nat) (atm : Bool) (s t : Txt)
    (hm : i.p_0 = mincol) (hi : i.p_1 = colinc) (hp : i.p_2 = minpad) (hu : i.len_padchar = 1)
    (h0 : 0 ≤ i.argPos) (h1 : i.argPos < i.len_c_args) (hL : dirAS_outlen i = s.length)
    (h : padAS mincol colinc minpad pad atm s = .ok t) :
    dirAS_loopsok i = true ∧ (t.length : Int) = s.length + dirAS_padlen i := by
  unfold padAS at h
  by_cases hc : colinc = 0
  · simp [hc] at h
  · simp only [hc, if_false] at h
    obtain ⟨hok, hlen⟩ := as_padding_code_is_the_model i mincol colinc minpad s.length (by omega) hm hi hp hu h0 h1 hL
    refine ⟨hok, ?_⟩
    rw [hlen]
    injection h with h
    subst h
    cases atm <;> simp <;> split <;> simp_all <;> omega

example : padAS 7 3 1 46 false [65, 66] = .ok [65, 66, 46, 46, 46, 46, 46, 46, 46] := by rfl

end SlipVerif.Theorems.GenC15Code
