import SlipVerif.Model.Seq
import SlipVerif.Lemmas.Seq
import SlipVerif.Theorems.C14
/-
  C14, extension round 4:
  * `some` returns the value of the predicate (the language's rule; slip used to answer `t`);
  * `replace` with the same sequence as source and target: "the result is as if the entire source region
    were copied to another place and only then copied back" — the model's `replace` is a function of the
    ORIGINAL contents, whatever the overlap of the two regions;
  * the argument order of the `:test` of the set functions: `Fn.dir10`, the test the harness hands to union /
    intersection / set-difference / subsetp, agrees with the equivalence "same residue modulo 10" on every
    pair (element of list-1, element of list-2) and is false on every pair in the other order, so a function
    that swaps the arguments finds no match at all.
-/
namespace SlipVerif.Seq
variable {α : Type}

/-- `some`: nil when the predicate is false on every tuple; otherwise the VALUE the predicate returned on
    the first tuple on which it is true -/
theorem firstTruthy_spec (f : List Obj → Obj) (l : List (List Obj)) :
    (firstTruthy f l = .nil ∧ ∀ t ∈ l, truthy (f t) = false) ∨
    (∃ pre t post, l = pre ++ t :: post ∧ (∀ u ∈ pre, truthy (f u) = false) ∧
      truthy (f t) = true ∧ firstTruthy f l = f t) := by
  induction l with
  | nil => left; exact ⟨rfl, by simp⟩
  | cons x xs ih =>
    by_cases hx : truthy (f x) = true
    · right
      exact ⟨[], x, xs, rfl, by simp, hx, by simp [firstTruthy, hx]⟩
    · have hx' : truthy (f x) = false := by simpa using hx
      rcases ih with ⟨h1, h2⟩ | ⟨pre, t, post, hs, hp, ht, hv⟩
      · left
        refine ⟨by simp [firstTruthy, hx', h1], ?_⟩
        intro t ht
        rcases List.mem_cons.mp ht with rfl | h
        · exact hx'
        · exact h2 t h
      · right
        refine ⟨x :: pre, t, post, by simp [hs], ?_, ht, by simp [firstTruthy, hx', hv]⟩
        intro u hu
        rcases List.mem_cons.mp hu with rfl | h
        · exact hx'
        · exact hp u h

theorem some_value (f : List Obj → Obj) (seqs : List (List Obj)) :
    (some' f seqs = .nil ∧ ∀ t ∈ tuples seqs, truthy (f t) = false) ∨
    (∃ pre t post, tuples seqs = pre ++ t :: post ∧ (∀ u ∈ pre, truthy (f u) = false) ∧
      truthy (f t) = true ∧ some' f seqs = f t) :=
  firstTruthy_spec f (tuples seqs)

example : some' (fun t => match t with | [.int 2] => .int 20 | _ => .nil) [[.int 1, .int 2, .int 3]] = .int 20 := by
  decide

/-- `replace` with one sequence as source and target: position `i` of the target region receives the
    ORIGINAL element `xs[s2 + (i - s1)]`, also when the regions overlap -/
theorem replace_self (s1 e1 s2 e2 : Nat) (xs : List α) (h1 : s1 ≤ e1) (h1' : e1 ≤ xs.length)
    (h2' : e2 ≤ xs.length) :
    (replace s1 e1 s2 e2 xs xs).length = xs.length ∧
      ∀ i, i < xs.length → (replace s1 e1 s2 e2 xs xs)[i]? =
        if s1 ≤ i ∧ i < s1 + min (e1 - s1) (e2 - s2) then xs[s2 + (i - s1)]? else xs[i]? :=
  replace_spec s1 e1 s2 e2 xs xs h1 h1' h2'

/-- the in-place forward copy (what a loop `seq1[start1+i] = seq2[i]` does when both are the same storage)
    is NOT `replace` when the target region lies behind the source region -/
example : replace 1 5 0 5 [1, 2, 3, 4, 5] [1, 2, 3, 4, 5] = [1, 1, 2, 3, 4] := by decide

/-- the directional test on a pair in the order the language prescribes (element of list-1 first) is "same
    residue modulo 10"; on the same pair in the other order it is false -/
theorem dir10_ordered (a b : Int) (ha : 0 ≤ a ∧ a < 10) (hb : 10 ≤ b ∧ b < 20) :
    Fn.test2 .dir10 (.int a) (.int b) = decide (a % 10 = b % 10) ∧
      Fn.test2 .dir10 (.int b) (.int a) = false := by
  have h1 : ¬ b < 10 := by omega
  have h2 : a < 10 := ha.2
  constructor
  · by_cases h : a + 10 = b
    · have h3 : a % 10 = b % 10 := by omega
      simp [Fn.test2, Fn.app, Fn.call, truthy_ofBool, h1, h2, h, h3]
    · have h3 : ¬ a % 10 = b % 10 := by omega
      simp [Fn.test2, Fn.app, Fn.call, truthy_ofBool, h1, h2, h, h3]
  · simp [Fn.test2, Fn.app, Fn.call, truthy_ofBool, h1, h2]

example : Fn.test2 .dir10 (.int 3) (.int 13) = true ∧ Fn.test2 .dir10 (.int 13) (.int 3) = false := by decide

/-- a set function that calls the test with the arguments swapped finds no match: its intersection is
    empty, its set-difference is the whole first list, whatever the lists hold -/
theorem set_functions_swapped_test (xs ys : List Obj)
    (hx : ∀ x ∈ xs, ∃ a : Int, x = .int a ∧ 0 ≤ a ∧ a < 10)
    (hy : ∀ y ∈ ys, ∃ b : Int, y = .int b ∧ 10 ≤ b ∧ b < 20) :
    intersection (fun x y => Fn.test2 .dir10 y x) xs ys = [] ∧
      setDifference (fun x y => Fn.test2 .dir10 y x) xs ys = xs := by
  have key : ∀ x ∈ xs, ys.any (fun y => Fn.test2 .dir10 y x) = false := by
    intro x hxm
    obtain ⟨a, rfl, ha⟩ := hx x hxm
    rw [List.any_eq_false]
    intro y hym
    obtain ⟨b, rfl, hb⟩ := hy y hym
    rw [(dir10_ordered a b ha hb).2]
    simp
  constructor
  · unfold intersection
    rw [List.filter_eq_nil_iff]
    intro x hxm
    rw [key x hxm]
    simp
  · unfold setDifference
    rw [List.filter_eq_self]
    intro x hxm
    rw [key x hxm]
    rfl

/-- … while with the arguments in order it finds exactly the elements with a partner of the same residue -/
theorem intersection_dir10 (xs ys : List Obj)
    (hx : ∀ x ∈ xs, ∃ a : Int, x = .int a ∧ 0 ≤ a ∧ a < 10)
    (hy : ∀ y ∈ ys, ∃ b : Int, y = .int b ∧ 10 ≤ b ∧ b < 20) (x : Obj) :
    x ∈ intersection (Fn.test2 .dir10) xs ys ↔
      x ∈ xs ∧ ∃ a b : Int, x = .int a ∧ .int b ∈ ys ∧ a % 10 = b % 10 := by
  unfold intersection
  rw [List.mem_filter, List.any_eq_true]
  constructor
  · rintro ⟨hxm, y, hym, ht⟩
    obtain ⟨a, rfl, ha⟩ := hx x hxm
    obtain ⟨b, rfl, hb⟩ := hy y hym
    rw [(dir10_ordered a b ha hb).1] at ht
    exact ⟨hxm, a, b, rfl, hym, by simpa using ht⟩
  · rintro ⟨hxm, a, b, rfl, hym, hab⟩
    refine ⟨hxm, .int b, hym, ?_⟩
    obtain ⟨a', ha', ha⟩ := hx _ hxm
    obtain ⟨b', hb', hb⟩ := hy _ hym
    cases ha'; cases hb'
    rw [(dir10_ordered a b ha hb).1]
    simpa using hab

example : intersection (Fn.test2 .dir10) [.int 1, .int 2] [.int 12, .int 13] = [.int 2] := by decide

/-! ## union: duplicates between the two lists -/
section UnionTight

/-- the fold of `union` adds at most … : when the elements taken so far hold a match of `z` nothing matching `z`
    is added, otherwise at most one element matching `z` -/
theorem union_fold_count (eqv : α → α → Bool)
    (hsymm : ∀ a b, eqv a b = true → eqv b a = true)
    (htrans : ∀ a b c, eqv a b = true → eqv b c = true → eqv a c = true) (z : α) (ys acc : List α) :
    (ys.foldl (fun acc y => if acc.any (fun a => eqv a y) then acc else acc ++ [y]) acc).countP (eqv z) ≤
      if 0 < acc.countP (eqv z) then acc.countP (eqv z) else ys.countP (eqv z) := by
  induction ys generalizing acc with
  | nil =>
    simp only [List.foldl_nil, List.countP_nil]
    split <;> omega
  | cons y ys ih =>
    simp only [List.foldl_cons]
    by_cases hzy : eqv z y = true
    · by_cases hacc : 0 < acc.countP (eqv z)
      · -- an element matching z is already taken: y matches it and is not added
        obtain ⟨a, ha, haz⟩ := List.countP_pos_iff.mp hacc
        have hay : eqv a y = true := htrans a z y (hsymm z a haz) hzy
        have hany : acc.any (fun a => eqv a y) = true := List.any_eq_true.mpr ⟨a, ha, hay⟩
        rw [hany, if_pos rfl]
        have := ih acc
        rw [if_pos hacc] at this ⊢
        exact this
      · have h0 : acc.countP (eqv z) = 0 := by omega
        rw [if_neg hacc, List.countP_cons_of_pos hzy]
        by_cases hany : acc.any (fun a => eqv a y) = true
        · rw [hany, if_pos rfl]
          have := ih acc
          rw [if_neg hacc] at this
          omega
        · have hany' : acc.any (fun a => eqv a y) = false := by simpa using hany
          rw [hany']
          simp only [Bool.false_eq_true, if_false]
          have h1 : (acc ++ [y]).countP (eqv z) = 1 := by
            rw [List.countP_append, h0]; simp [hzy]
          have := ih (acc ++ [y])
          rw [h1] at this
          simp only [Nat.zero_lt_one, if_true] at this
          omega
    · have hzy' : eqv z y = false := by simpa using hzy
      have hc : (y :: ys).countP (eqv z) = ys.countP (eqv z) := by
        rw [List.countP_cons_of_neg (by simp [hzy'])]
      rw [hc]
      by_cases hany : acc.any (fun a => eqv a y) = true
      · rw [hany, if_pos rfl]; exact ih acc
      · have hany' : acc.any (fun a => eqv a y) = false := by simpa using hany
        rw [hany']
        simp only [Bool.false_eq_true, if_false]
        have h1 : (acc ++ [y]).countP (eqv z) = acc.countP (eqv z) := by
          rw [List.countP_append]; simp [hzy']
        have := ih (acc ++ [y])
        rw [h1] at this
        exact this

theorem unionTight_iff (eqv : α → α → Bool) (xs ys r : List α) :
    unionTight eqv xs ys r = true ↔
      ∀ z, z ∈ xs ∨ z ∈ ys → r.countP (eqv z) ≤ max (xs.countP (eqv z)) (ys.countP (eqv z)) := by
  simp only [unionTight, List.all_eq_true, List.mem_append, decide_eq_true_eq]

/-- the model's own `union` passes the check on duplicates between the lists when the test is an equivalence -/
theorem unionTight_union (eqv : α → α → Bool)
    (hsymm : ∀ a b, eqv a b = true → eqv b a = true)
    (htrans : ∀ a b c, eqv a b = true → eqv b c = true → eqv a c = true) (xs ys : List α) :
    unionTight eqv xs ys (union eqv xs ys) = true := by
  rw [unionTight_iff]
  intro z _
  have h := union_fold_count eqv hsymm htrans z ys xs
  unfold union
  split at h <;> omega

/-- a `union` that finds no match at all (the test called with swapped arguments, `set_functions_swapped_test`)
    and therefore returns both lists whole is rejected as soon as one element of list-1 has a partner in list-2 -/
theorem unionTight_rejects_append (eqv : α → α → Bool) (xs ys : List α) (x y : α) (hx : x ∈ xs) (hy : y ∈ ys)
    (hxx : eqv x x = true) (hxy : eqv x y = true) :
    unionTight eqv xs ys (xs ++ ys) = false := by
  rw [Bool.eq_false_iff]
  intro h
  rw [unionTight_iff] at h
  have h1 := h x (Or.inl hx)
  rw [List.countP_append] at h1
  have p1 : 0 < xs.countP (eqv x) := List.countP_pos_iff.mpr ⟨x, hx, hxx⟩
  have p2 : 0 < ys.countP (eqv x) := List.countP_pos_iff.mpr ⟨y, hy, hxy⟩
  omega

example : unionTight (Fn.test2 .dir10) [.int 1, .int 2] [.int 12, .int 13] [.int 1, .int 2, .int 13] = true ∧
    unionTight (Fn.test2 .dir10) [.int 1, .int 2] [.int 12, .int 13] [.int 1, .int 2, .int 12, .int 13] = false := by
  decide

end UnionTight

end SlipVerif.Seq
