import SlipVerif.Model.Reader
import SlipVerif.Model.ReaderGen
import SlipVerif.Model.ReaderGo
import SlipVerif.Gen.ReaderCode
/-
  C02 — obligations over the reader's storage code translated from /repo/code.go by go/ast
  (Gen/ReaderCode.lean: `blockTail`, `makeToken`, `oneCond`/`oneExit`, `caseBody`). The translated Go
  statements are *executed* next to the model's L2 definitions (`endBlock`, `makeToken`, `oneCheck`,
  `body2` — the definitions `blocks_refine_bytes` is about) on an exhaustive finite set of states:
  every mode × block / tokenStart / carry / buf shapes (empty, one byte, several; start of block,
  inside, end). A changed carry arithmetic, a mode missing from the carry switch, a wrong slice
  bound, a `tokenStart` set one off, a changed one-form exit or `makeToken` makes a fact below false
  (K-gen broken, witness search) — a renamed variable, an extracted helper (inlined one level deep)
  or reordered cases does not, because the code is compared by what it computes.
-/
namespace SlipVerif.Theorems.GenC02Code
open SlipVerif.Reader SlipVerif.Gen SlipVerif.ReaderGo

/-- the generator's number of the Go mode a model mode stands for -/
def modeName : Mode → Nat
  | .plain .value => ReaderCode.m_valueMode
  | .plain .comment => ReaderCode.m_commentMode
  | .plain .sharp => ReaderCode.m_sharpMode
  | .plain .sharpNum => ReaderCode.m_sharpNumMode
  | .plain .mustArray => ReaderCode.m_mustArrayMode
  | .plain .blockComment => ReaderCode.m_blockCommentMode
  | .plain .blockEnd => ReaderCode.m_blockEndMode
  | .tok .token => ReaderCode.m_tokenMode
  | .tok .chr => ReaderCode.m_charMode
  | .tok .int => ReaderCode.m_intMode
  | .tok .bitVec => ReaderCode.m_bitVectorMode
  | .str .string => ReaderCode.m_stringMode
  | .str .symbol => ReaderCode.m_symbolMode
  | .esc => ReaderCode.m_escMode
  | .rune => ReaderCode.m_runeMode
  | .chrStart => ReaderCode.m_charStartMode

def nat (bs : List Byte) : List Nat := bs.map (·.toNat)

/-! ### end of a block with more to come: what is carried over -/

/-- block, tokenStart, carry, buf -/
def tailStates : List (List Byte × Nat × List Byte × List Byte) :=
  [([], 0, [], []), ([], 0, [9], []), ([], 0, [], [7]), ([], 0, [9, 8], [7]),
   ([5], 0, [], []), ([5], 1, [], []), ([5], 0, [9], []), ([5], 0, [], [7]), ([5], 1, [], [7]),
   ([1, 2, 3], 0, [], []), ([1, 2, 3], 1, [9], []), ([1, 2, 3], 3, [], []), ([1, 2, 3], 3, [9], []),
   ([1, 2, 3], 1, [], [7, 8]), ([1, 2, 3], 2, [9, 9], []), ([1, 2, 3], 2, [], [])]

def tailAgrees (m : Mode) (st : List Byte × Nat × List Byte × List Byte) : Bool :=
  let (src, ts, carry, buf) := st
  let s : S2 := { mode := m, tokenStart := ts, carry := carry, buf := buf }
  let e := endBlock src s
  let r := ReaderCode.blockTail (nat src)
    { mode := modeName m, tokenStart := ts, pos := (src.length : Int) - 1, carry := nat carry, buf := nat buf, more := true }
  r.carry == nat e.carry && r.buf == nat e.buf && r.pos == (src.length : Int) && r.eff.isEmpty && r.mode == modeName m

/-- the `if r.more` branch behind the byte loop computes the model's `endBlock` (the carry saved in
    the four token modes, the pending string bytes in the two string modes, nothing elsewhere), in
    every mode, for empty / one byte / longer blocks and every position of `tokenStart` -/
theorem more_tail_matches : (allModes.all fun m => tailStates.all (tailAgrees m)) = true := by decide +kernel

/-! ### `makeToken` -/

/-- block, tokenStart, pos, carry -/
def tokenStates : List (List Byte × Nat × Nat × List Byte) :=
  [([1, 2, 3], 0, 0, []), ([1, 2, 3], 0, 2, []), ([1, 2, 3], 1, 3, []), ([1, 2, 3], 1, 3, [9, 8]),
   ([1, 2, 3], 0, 3, [9]), ([1, 2, 3], 2, 2, [9]), ([1, 2, 3], 0, 1, [9, 8, 7]), ([], 0, 0, [7]), ([], 0, 0, [])]

def tokenAgrees (st : List Byte × Nat × Nat × List Byte) : Bool :=
  let (src, ts, pos, carry) := st
  let r := ReaderCode.makeToken (nat src) { tokenStart := ts, pos := pos, carry := nat carry }
  r.ret == nat (Reader.makeToken src pos { tokenStart := ts, carry := carry }) && r.carry == []

/-- `(*reader).makeToken` computes `carry ++ src[tokenStart:pos]` and clears the carry -/
theorem make_token_matches : tokenStates.all tokenAgrees = true := by decide +kernel

/-! ### the one-form exit -/

/-- the one-form exit is taken exactly when one-form mode has an object, and counts the byte to the
    form exactly for the bytes of `isCloser` (`oneCheck`) -/
theorem one_exit_matches :
    ((List.range 256).all fun b =>
      (ReaderCode.oneExit (b : Int) { pos := 5 }).pos == (if isCloser b.toUInt8 then 6 else 5)) = true ∧
    ([(false, 0), (false, 1), (true, 0), (true, 1), (true, 2)].all fun ((one, n) : Bool × Nat) =>
      ReaderCode.oneCond { one := one, codeLen := n } == (one && decide (0 < n))) = true := by
  constructor <;> decide +kernel

/-! ### the cases of the byte switch that set `tokenStart` / `buf` / the mode -/

/-- the action codes (bytes of the mode tables) of the cases compared here -/
def storageCodes : List Nat :=
  [ReaderTables.tokenStart, ReaderTables.doubleQuote, ReaderTables.pipeByte, ReaderTables.stringByte,
   ReaderTables.escByte, ReaderTables.escOne, ReaderTables.escUnicode4, ReaderTables.escUnicode8,
   ReaderTables.charSlash, ReaderTables.charFirst, ReaderTables.binaryByte, ReaderTables.octByte,
   ReaderTables.hexByte, ReaderTables.radixByte, ReaderTables.bitVectorByte, ReaderTables.commentByte,
   ReaderTables.commentDone, ReaderTables.sharpByte, ReaderTables.blockStart, ReaderTables.blockEnd0,
   ReaderTables.swallowOpen, ReaderTables.sharpIntByte]

/-- block, pos, tokenStart, buf -/
def stepStates : List (List Byte × Nat × Nat × List Byte) :=
  [([1, 2, 3, 4], 2, 0, []), ([1, 2, 3, 4], 3, 1, [7]), ([1, 2, 3, 4], 0, 0, []), ([1, 2, 3, 4], 2, 2, [])]

def stepAgrees (m : Mode) (cell : Nat × Nat) (st : List Byte × Nat × Nat × List Byte) : Bool :=
  let (code, b) := cell
  (if m == .esc || m == .rune then [SMode.string, SMode.symbol] else [SMode.string]).all fun nm =>
    let (src, pos, ts, buf) := st
    let s : S2 := { mode := m, tokenStart := ts, buf := buf,
                    core := { nextMode := nm, sharpNum := 7, rn := 3, rcnt := 2 } }
    let s' := body2 genTables {} src pos s b.toUInt8
    match ReaderCode.caseBody code (nat src) b
        { mode := modeName m, nextMode := modeName (.str nm), tokenStart := ts, pos := pos, buf := nat buf,
          sharpNum := 7, rn := 3, rcnt := 2 } with
    | none => true
    | some r =>
      s'.core.halt.isSome ||
      (r.mode == modeName s'.mode && r.tokenStart == (s'.tokenStart : Int) && r.buf == nat s'.buf &&
       r.carry == nat s'.carry && r.nextMode == modeName (.str s'.core.nextMode) &&
       (s'.mode != .tok .int || r.base == (s'.core.base : Int)) && r.sharpNum == (s'.core.sharpNum : Int) &&
       ((code != ReaderTables.escUnicode4 && code != ReaderTables.escUnicode8) ||
         (r.rn == (s'.core.rn : Int) && r.rcnt == (s'.core.rcnt : Int))))

/-- (action code, byte) cells of mode `m` that hold a storage action: per action the first three,
    two in the middle and the last two bytes (the kernel evaluates an indexed table lookup slowly, so
    the check walks each table once and keeps representatives) -/
def cellsOf (m : Mode) : List (Nat × Nat) :=
  let row := (genTables.get m).zip (List.range 256)
  storageCodes.flatMap fun c =>
    let bs := row.filter fun cell => cell.1 == c
    bs.take 3 ++ (bs.drop (bs.length / 2)).take 2 ++ bs.drop (bs.length - 2)

/-- every translated `case` body that starts a token / string / character / `#`-integer, stores a
    string byte or an escape, or only changes the mode does to `tokenStart`, `buf`, `carry`, the mode,
    `nextMode`, `base`, `sharpNum`, `rn`/`rcnt` what the model's `body2` does — in every mode whose
    table holds such an action, on up to seven bytes per action, 4 block / buffer shapes each -/
theorem case_storage_matches :
    (allModes.all fun m => (cellsOf m).all fun cell => stepStates.all (stepAgrees m cell)) = true := by
  decide +kernel

/-- the comparison is not vacuous: 16 modes hold 40 (mode, storage action) pairs -/
theorem case_storage_cells : 100 ≤ (allModes.map fun m => (cellsOf m).length).sum := by decide +kernel

/-- the storage cases are among the translated ones (their bodies stay inside what the translator
    understands; `arrayByte`, `comma`, `commaAt` are not needed here) -/
theorem storage_cases_translated :
    (["tokenStart", "doubleQuote", "pipeByte", "stringByte", "escByte", "escOne", "escUnicode4", "escUnicode8",
      "charSlash", "charFirst", "binaryByte", "octByte", "hexByte", "radixByte", "bitVectorByte"].all
        fun n => ReaderCode.translatedCases.contains n) = true := by decide +kernel

end SlipVerif.Theorems.GenC02Code
