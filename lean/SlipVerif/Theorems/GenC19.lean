import SlipVerif.Theorems.C19
import SlipVerif.Gen.SnapshotCode
/-
  C19 — obligations over facts regenerated from pkg/gi/snapshot.go, code.go and list.go on every run
  (extract/snapshotcode.go → Gen/SnapshotCode.lean).  They tie the tables of the evaluation-order model
  (Model/SnapForms.lean) and the quoting rules of the load-form model to the code.  Every obligation is
  a condition the property needs, not a copy of the code: re-ordering sections in a way that keeps
  every needed kind earlier, renaming or splitting a writer, adding an unrelated operator to the first
  pass of Code.Compile or a case to ppValue leave them true.  If one of them no longer elaborates the
  code changed in a way the theorems do not cover (a broken K-gen obligation: the harness searches a
  failing session / value).
-/
namespace SlipVerif.SnapForms
open SlipVerif.Gen

/-- Every kind of form a snapshot consists of has its section written by AppendSnapshot (the classes
    too), a kind a form may need is written in the same or an earlier section, and the operators
    Code.Compile evaluates in its first pass need nothing that is evaluated in the second. -/
theorem gen_tables_ok : tablesOk SnapshotCode.sections SnapshotCode.hoisted = true := by decide +kernel

/-- `snapshot_load_sound` for the section order and the first pass of the code itself. -/
theorem gen_snapshot_load_sound (fs : List Form)
    (hsec : fs.Pairwise (fun a b => secIdx SnapshotCode.sections a.head ≤ secIdx SnapshotCode.sections b.head))
    (hin : fs.Pairwise (fun a b => secIdx SnapshotCode.sections a.head = secIdx SnapshotCode.sections b.head →
      b.defines ∉ a.needs))
    (hk : ∀ f ∈ fs, ∀ n ∈ f.needs, n.1 ∈ f.head.kindNeeds)
    (hself : ∀ f ∈ fs, f.defines ∉ f.needs)
    (hdef : ∀ f ∈ fs, ∀ n ∈ f.needs, ∃ g ∈ fs, g.defines = n) :
    loadForms (loadOrder SnapshotCode.hoisted fs) [] = .ok () :=
  snapshot_load_sound _ _ fs gen_tables_ok hsec hin hk hself hdef

/-- The driver evaluates `loadOrder hoistedHeads`: for every kind of form of a snapshot the model's
    first pass is the code's first pass. -/
theorem gen_hoisting_is_the_models :
    Head.all.all (fun h => hoisted SnapshotCode.hoisted h == hoisted hoistedHeads h) = true := by decide +kernel

/-- The value of a variable or constant is evaluated when the snapshot is loaded: ppValue writes a
    list and a symbol as (quote x), an instance, a flavor and a package as a form that finds or
    rebuilds them. -/
theorem gen_values_quoted :
    ("slip.List", "quote") ∈ SnapshotCode.valueCases ∧ ("slip.Symbol", "quote") ∈ SnapshotCode.valueCases ∧
    (SnapshotCode.valueCases.any fun c => c.1 == "flavors.Instance" && c.2 != "") = true ∧
    (SnapshotCode.valueCases.any fun c => c.1 == "flavors.Flavor" && c.2 != "") = true ∧
    (SnapshotCode.valueCases.any fun c => c.1 == "slip.Package" && c.2 != "") = true := by decide +kernel

/-- Variables that hold streams or a random state have no readable value: never written. -/
theorem gen_streams_excluded :
    ["*standard-output*", "*standard-input*", "*error-output*", "*terminal-io*", "*trace-output*", "*random-state*"].all
      (fun v => SnapshotCode.excluded.contains v) = true := by decide +kernel

/-- List.LoadForm: a symbol element is quoted (a keyword kept), and the form is built from operators
    the model's evaluator knows (`eval`: quote / list / cons / append / make-array / let). -/
theorem gen_list_load_form :
    "Symbol" ∈ SnapshotCode.elemQuoted ∧ SnapshotCode.keywordKept = true ∧
    SnapshotCode.listHeads.all (fun h => ["list", "cons", "append", "quote"].contains h) = true ∧
    "list" ∈ SnapshotCode.listHeads := by decide +kernel

end SlipVerif.SnapForms
