import SlipVerif.Gen.FlavorCode
import SlipVerif.Model.Flavors
/-
  C11 — obligations over what extract/flavorcode.go regenerates from the flavor code on every run.

  * `insertMethod_is_splice`: the Go function generic.insertMethod, translated statement by
    statement (Gen.FlavorCode.insertStart / insertLoop / insertAt), puts a late method's new
    combination exactly where the model's `splice` puts it — for every inheriting class, every
    inherit list and every table. `splice` is the function `tables_eq_spec` (Theorems/C11.lean) is
    proved about, so the proof that late methods land at their precedence position is re-checked
    against the loop as it is written now.
  * shape facts: the loops of Flavor.inheritFlavor, DefFlavor, Method.InnerCall / BoundInnerCall /
    Call / BoundCall and WhopLoc.Continue still have the direction and the guards the model
    (`addOne`, `inheritFlavor`, `defflavor`, `innerCall`, `callFrom`) transcribes.

  A failure here means the code no longer has the shape the proofs are about: the check reports
  the obligation broken and the correspondence run looks for a failing history.
-/
namespace SlipVerif.Gen.FlavorCode
open SlipVerif.Flavors

theorem splice_nil (super : Name) (c : Combo) (fs : List Name) : splice super c fs [] = [c] := by
  cases fs with
  | nil => rfl
  | cons f fs => by_cases h : f = super <;> simp [splice, h]

/-- the loop, started behind the combinations `pre` it has already passed -/
theorem insertLoop_splice (super : Name) (c : Combo) (fs : List Name) :
    ∀ (pre suf : List Combo),
      insertAt (insertLoop super ((pre ++ suf).map (·.src)) fs pre.length) c (pre ++ suf)
        = pre ++ splice super c fs suf := by
  induction fs with
  | nil =>
    intro pre suf
    simp [insertLoop, insertAt, splice]
  | cons f fs ih =>
    intro pre suf
    by_cases hf : f = super
    · simp [insertLoop, insertAt, splice, hf]
    · cases suf with
      | nil =>
        simp [insertLoop, insertAt, splice, hf]
      | cons x xs =>
        have hlen : ¬ ((pre ++ x :: xs).map (·.src)).length ≤ pre.length := by
          simp only [List.length_map, List.length_append, List.length_cons]
          omega
        have hget : ((pre ++ x :: xs).map (·.src))[pre.length]? = some x.src := by
          simp
        have hf2 : ¬ super = f := fun h => hf h.symm
        by_cases hx : x.src = f
        · have h1 := ih (pre ++ [x]) xs
          simp only [List.append_assoc, List.singleton_append, List.length_append, List.length_cons,
            List.length_nil] at h1
          simp only [insertLoop, hget, hlen, splice]
          simpa [hx, hf, hf2] using h1
        · have h1 := ih pre (x :: xs)
          have hx2 : ¬ f = x.src := fun h => hx h.symm
          simp only [insertLoop, hget, hlen, splice]
          simpa [hx, hx2, hf, hf2] using h1

/-- `insertMethod_is_splice`: generic.insertMethod (as translated from the Go source) inserts the
    new combination `c` of flavor `super` into the table `cs` of an inheriting class `cls` with
    inherit list `inh` exactly where the model's `splice` does. (`cls ≠ super`: insertMethod is
    only called for classes that inherit from `super`.) -/
theorem insertMethod_is_splice (cls super : Name) (hne : cls ≠ super) (inh : List Name) (c : Combo)
    (cs : List Combo) :
    insertAt (insertPos cls super inh (cs.map (·.src))) c cs = splice super c (cls :: inh) cs := by
  unfold insertPos
  cases cs with
  | nil =>
    have h := insertLoop_splice super c inh [] []
    simp only [List.append_nil, List.map_nil, List.length_nil, List.nil_append] at h
    simp only [List.map_nil, insertStart, List.length_nil]
    simpa [splice_nil, splice, hne] using h
  | cons x xs =>
    by_cases hx : x.src = cls
    · have h := insertLoop_splice super c inh [x] xs
      simp only [List.singleton_append, List.length_cons, List.length_nil] at h
      simp only [splice, hne, if_false, hx, if_true]
      simpa [insertStart, hx] using h
    · have h := insertLoop_splice super c inh [] (x :: xs)
      have hx2 : ¬ cls = x.src := fun h => hx h.symm
      simp only [List.nil_append, List.length_nil] at h
      simp only [splice, hne, if_false, hx]
      simpa [insertStart, hx, hx2] using h

/-- the model's `defmethod` uses `splice` with the inheriting flavor in front of its inherit list:
    this is `insertMethod(class, super, …)` with `class.InheritsList() = st.inh class` -/
example : insertAt (insertPos 3 2 [1, 2, 0] [1, 0]) (Combo.mk 2 (some 7) none none none)
      [Combo.mk 1 (some 5) none none none, Combo.mk 0 (some 0) none none none]
    = [Combo.mk 1 (some 5) none none none, Combo.mk 2 (some 7) none none none,
       Combo.mk 0 (some 0) none none none] := by decide

/-! ## shape facts -/

theorem inherit_guard_first : inheritGuardFirst = true := by decide
theorem inherit_appends_last : inheritAppendsLast = true := by decide
theorem inherit_recurses_forward : inheritRecursesForward = true := by decide
theorem inherit_vars_first_wins : inheritVarsFirstWins = true := by decide
theorem inherit_keywords_first_wins : inheritKeywordsFirstWins = true := by decide
theorem inherit_combos_append_if_absent : inheritCombosAppendIfAbsent = true := by decide
theorem defflavor_components_in_order : defflavorComponentsInOrder = true := by decide
theorem defflavor_vanilla_last : defflavorVanillaLast = true := by decide
theorem innerCall_before_forward : innerCallBeforeForward = true := by decide
theorem innerCall_primary_first_only : innerCallPrimaryFirstOnly = true := by decide
theorem innerCall_after_reverse : innerCallAfterReverse = true := by decide
theorem boundInnerCall_before_forward : boundInnerCallBeforeForward = true := by decide
theorem boundInnerCall_primary_first_only : boundInnerCallPrimaryFirstOnly = true := by decide
theorem boundInnerCall_after_reverse : boundInnerCallAfterReverse = true := by decide
theorem call_first_whopper_forward : callFirstWhopperForward = true := by decide
theorem boundCall_first_whopper_forward : boundCallFirstWhopperForward = true := by decide
theorem continue_next_whopper_forward : continueNextWhopperForward = true := by decide
theorem continue_skips_whopperless : continueSkipsWhopperless = true := by decide
theorem continue_keeps_location : continueKeepsLocation = true := by decide

end SlipVerif.Gen.FlavorCode
