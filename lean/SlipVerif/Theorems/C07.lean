import SlipVerif.Model.Eval
namespace SlipVerif.Theorems.C07
open SlipVerif.Eval

/-- a block instance catches exactly the `ret` that carries its own id -/
theorem catchRet_own (id : Nat) (vs : List Obj) (σ : St) : catchRet id (.ret id vs, σ) = (.val vs, σ) := by
  simp [catchRet]

end SlipVerif.Theorems.C07
