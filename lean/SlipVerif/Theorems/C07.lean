import SlipVerif.Lemmas.EvalBasic
/-!
C07 — non-local exits reach their target and run every cleanup exactly once.

Theorems about the reference evaluator `SlipVerif.Eval.evalN`. Outcomes are first class:
`val vs | ret id vs | go id tag | err cls | timeout`; `NotVal o` = not a normal return.
Blocks and tagbodies get a unique id when they are entered (`σ.nextId`); `return-from` / `go` look
their target up LEXICALLY in the environment, so an exit carries the id of exactly one instance.
In every statement the resulting store is given explicitly: "nothing later is evaluated / traced"
is the fact that the store (which contains the trace) is the one the exiting form left behind.
-/
namespace SlipVerif.Theorems.C07
open SlipVerif.Eval

variable {n : Nat} {ρ : Env} {σ σ1 σ2 : St} {o : Out}

-- ---------------------------------------------------------------------------------------------
-- exits propagate through bodies and argument lists

/-- a body: when the first form does not return normally, that outcome is the outcome of the body
and the store is the one the form left — the remaining forms contribute nothing -/
theorem exit_propagates_seq_head {e : Obj} {es : List Obj}
    (h : evalN n (.form ρ e) σ = (o, σ1)) (ho : NotVal o) :
    evalN (n + 1) (.seq ρ (e :: es)) σ = (o, σ1) := seq_cons_exit h ho

/-- the chain of stores threaded through forms that all return normally -/
inductive ValsChain (ρ : Env) : List Obj → St → St → Prop
  | nil (σ : St) : ValsChain ρ [] σ σ
  | cons {e : Obj} {es : List Obj} {σ σ1 σ2 : St} {v : List Obj} :
      Evals (.form ρ e) σ (.val v, σ1) → ValsChain ρ es σ1 σ2 → ValsChain ρ (e :: es) σ σ2

/-- exit at position i of a body: after `pre` has run normally, an exit of the next form is the
outcome of the whole body; whatever follows (`post`) is not evaluated -/
theorem exit_propagates_seq_position {pre post : List Obj} {e : Obj} {σ' : St}
    (hpre : ValsChain ρ pre σ σ1) (he : Evals (.form ρ e) σ1 (o, σ')) (ho : NotVal o) :
    Evals (.seq ρ (pre ++ e :: post)) σ (o, σ') := by
  induction hpre with
  | nil σ =>
    obtain ⟨m, hm, hr⟩ := he
    exact ⟨m + 1, seq_cons_exit hm ho, hr⟩
  | @cons a as σa σb σc v h1 _ ih =>
    obtain ⟨m1, hm1, _⟩ := h1
    obtain ⟨m2, hm2, hr⟩ := ih he
    refine ⟨max m1 m2 + 1, ?_, hr⟩
    have a1 := evalN_ge hm1 (by simp) (Nat.le_max_left m1 m2)
    have a2 := evalN_ge hm2 hr (Nat.le_max_right m1 m2)
    have hne : as ++ e :: post ≠ [] := by simp
    rw [List.cons_append, seq_cons_val hne a1, a2]

example : ValsChain {} [.int 1] {} {} := .cons ⟨1, rfl, by simp⟩ (.nil _)

/-- argument lists (function calls, funcall, apply, values, let inits, do inits/steps): an argument
that does not return normally ends the argument evaluation, the arguments to its right are not
evaluated and the function is not called -/
theorem exit_propagates_args_head {e : Obj} {es : List Obj}
    (h : evalN n (.form ρ e) σ = (o, σ1)) (ho : NotVal o) :
    evalN (n + 1) (.args ρ (e :: es)) σ = (o, σ1) := by
  simp [evalN, step, stepArgs, h, bindV_exit _ ho]

theorem exit_propagates_args_tail {e : Obj} {es : List Obj} {v : List Obj}
    (h1 : evalN n (.form ρ e) σ = (.val v, σ1)) (h2 : evalN n (.args ρ es) σ1 = (o, σ2)) (ho : NotVal o) :
    evalN (n + 1) (.args ρ (e :: es)) σ = (o, σ2) := by
  simp [evalN, step, stepArgs, h1, h2, bindV_val, bindV_exit _ ho]

/-- a call of a named function: an exit among the arguments is the outcome of the call -/
theorem exit_propagates_call {f : String} {argsObj : Obj} {as : List Obj}
    (hf : formOf f = .call) (ha : listOf argsObj = some as)
    (h : evalN n (.args ρ as) σ = (o, σ1)) (ho : NotVal o) :
    evalN (n + 1) (.form ρ (.cons (.sym f) argsObj)) σ = (o, σ1) := by
  simp [evalN, step, stepEval, ha, stepForm, hf, h, bindV_exit _ ho]

theorem exit_propagates_funcall {f restObj : Obj} {as : List Obj} (ha : listOf restObj = some as)
    (h : evalN n (.args ρ (f :: as)) σ = (o, σ1)) (ho : NotVal o) :
    evalN (n + 1) (.form ρ (.cons (.sym "funcall") (.cons f restObj))) σ = (o, σ1) := by
  simp [evalN, step, stepEval, listOf, ha, stepForm, formOf, h, bindV_exit _ ho]

/-- the body of a lambda: the outcome of the body is the outcome of the application (a lambda has
no block of its own, so every exit passes) -/
theorem exit_propagates_lambda_body {cid : Nat} {c : Closure} {args : List Obj}
    (hc : σ.clos[cid]? = some c) (hn : c.name = "") (hr : c.rest = none) (hl : c.params.length = args.length)
    (h : evalN n (.seq (pushFrame c.env σ.frames.length) c.body) (addFrame σ (zipFrame c.params args)) = (o, σ1)) :
    evalN (n + 1) (.apply (.clo cid) args) σ = (o, σ1) := by
  simp [evalN, step, stepApply, callClosure, hc, hn, hr, bindArgs, hl, h]

-- ---------------------------------------------------------------------------------------------
-- exits propagate through the special forms (one theorem per form kind and position)

section forms
variable {c a b e : Obj} {bodyObj : Obj} {body : List Obj} {v : List Obj}

theorem exit_propagates_progn (hb : listOf bodyObj = some body) :
    evalN (n + 1) (.form ρ (.cons (.sym "progn") bodyObj)) σ = evalN n (.seq ρ body) σ := by
  simp [evalN, step, stepEval, hb, stepForm, formOf]

theorem exit_propagates_prog1_first (hb : listOf bodyObj = some body)
    (h : evalN n (.form ρ e) σ = (o, σ1)) (ho : NotVal o) :
    evalN (n + 1) (.form ρ (.cons (.sym "prog1") (.cons e bodyObj))) σ = (o, σ1) := by
  simp [evalN, step, stepEval, listOf, hb, stepForm, formOf, h, bindV_exit _ ho]

theorem exit_propagates_prog1_rest (hb : listOf bodyObj = some body)
    (h1 : evalN n (.form ρ e) σ = (.val v, σ1)) (h2 : evalN n (.seq ρ body) σ1 = (o, σ2)) (ho : NotVal o) :
    evalN (n + 1) (.form ρ (.cons (.sym "prog1") (.cons e bodyObj))) σ = (o, σ2) := by
  simp [evalN, step, stepEval, listOf, hb, stepForm, formOf, h1, h2, bindV_val, bindV_exit _ ho]

theorem exit_propagates_if_test (h : evalN n (.form ρ c) σ = (o, σ1)) (ho : NotVal o) :
    evalN (n + 1) (.form ρ (.cons (.sym "if") (.cons c (.cons a (.cons b .nil))))) σ = (o, σ1) := by
  simp [evalN, step, stepEval, listOf, stepForm, formOf, h, bindV_exit _ ho]

theorem exit_propagates_if_branch (hc : evalN n (.form ρ c) σ = (.val v, σ1)) :
    evalN (n + 1) (.form ρ (.cons (.sym "if") (.cons c (.cons a (.cons b .nil))))) σ
      = if truthy (prim v) then evalN n (.form ρ a) σ1 else evalN n (.form ρ b) σ1 := by
  simp [evalN, step, stepEval, listOf, stepForm, formOf, hc, bindV]

theorem exit_propagates_when_test (hb : listOf bodyObj = some body)
    (h : evalN n (.form ρ c) σ = (o, σ1)) (ho : NotVal o) :
    evalN (n + 1) (.form ρ (.cons (.sym "when") (.cons c bodyObj))) σ = (o, σ1) := by
  simp [evalN, step, stepEval, listOf, hb, stepForm, formOf, h, bindV_exit _ ho]

theorem exit_propagates_when_body (hb : listOf bodyObj = some body)
    (hc : evalN n (.form ρ c) σ = (.val v, σ1)) (ht : truthy (prim v) = true) :
    evalN (n + 1) (.form ρ (.cons (.sym "when") (.cons c bodyObj))) σ = evalN n (.seq ρ body) σ1 := by
  simp [evalN, step, stepEval, listOf, hb, stepForm, formOf, hc, bindV, ht]

theorem exit_propagates_unless_test (hb : listOf bodyObj = some body)
    (h : evalN n (.form ρ c) σ = (o, σ1)) (ho : NotVal o) :
    evalN (n + 1) (.form ρ (.cons (.sym "unless") (.cons c bodyObj))) σ = (o, σ1) := by
  simp [evalN, step, stepEval, listOf, hb, stepForm, formOf, h, bindV_exit _ ho]

theorem exit_propagates_unless_body (hb : listOf bodyObj = some body)
    (hc : evalN n (.form ρ c) σ = (.val v, σ1)) (ht : truthy (prim v) = false) :
    evalN (n + 1) (.form ρ (.cons (.sym "unless") (.cons c bodyObj))) σ = evalN n (.seq ρ body) σ1 := by
  simp [evalN, step, stepEval, listOf, hb, stepForm, formOf, hc, bindV, ht]

theorem exit_propagates_cond_test {cs : List Obj} (hb : listOf bodyObj = some body)
    (h : evalN n (.form ρ c) σ = (o, σ1)) (ho : NotVal o) :
    evalN (n + 1) (.condClauses ρ (.cons c bodyObj :: cs)) σ = (o, σ1) := by
  simp [evalN, step, stepCond, hb, h, bindV_exit _ ho]

theorem exit_propagates_cond_body {cs : List Obj} (hb : listOf bodyObj = some body) (hne : body ≠ [])
    (hc : evalN n (.form ρ c) σ = (.val v, σ1)) (ht : truthy (prim v) = true) :
    evalN (n + 1) (.condClauses ρ (.cons c bodyObj :: cs)) σ = evalN n (.seq ρ body) σ1 := by
  cases body with
  | nil => exact absurd rfl hne
  | cons x xs => simp [evalN, step, stepCond, hb, hc, bindV, ht]

theorem exit_propagates_case_key {clausesObj : Obj} {clauses : List Obj} (hcl : listOf clausesObj = some clauses)
    (h : evalN n (.form ρ c) σ = (o, σ1)) (ho : NotVal o) :
    evalN (n + 1) (.form ρ (.cons (.sym "case") (.cons c clausesObj))) σ = (o, σ1) := by
  simp [evalN, step, stepEval, listOf, hcl, stepForm, formOf, h, bindV_exit _ ho]

theorem exit_propagates_case_body {clausesObj : Obj} {clauses : List Obj} (hcl : listOf clausesObj = some clauses)
    (hk : evalN n (.form ρ c) σ = (.val v, σ1)) (hs : caseSelect (prim v) clauses = some body) :
    evalN (n + 1) (.form ρ (.cons (.sym "case") (.cons c clausesObj))) σ = evalN n (.seq ρ body) σ1 := by
  simp [evalN, step, stepEval, listOf, hcl, stepForm, formOf, hk, bindV, hs]

theorem exit_propagates_and {es : List Obj} (h : evalN n (.form ρ e) σ = (o, σ1)) (ho : NotVal o) :
    evalN (n + 1) (.andForms ρ (e :: es)) σ = (o, σ1) := by
  cases es with
  | nil => simp [evalN, step, stepAnd, h]
  | cons x xs => simp [evalN, step, stepAnd, h, bindV_exit _ ho]

theorem exit_propagates_or {es : List Obj} (h : evalN n (.form ρ e) σ = (o, σ1)) (ho : NotVal o) :
    evalN (n + 1) (.orForms ρ (e :: es)) σ = (o, σ1) := by
  cases es with
  | nil => simp [evalN, step, stepOr, h]
  | cons x xs => simp [evalN, step, stepOr, h, bindV_exit _ ho]

/-- let: an exit while the init forms are evaluated — no frame is created, the body is not run -/
theorem exit_propagates_let_init {bsObj : Obj} {bs : List (String × Obj)}
    (hbs : (listOf bsObj).bind parseBindings = some bs) (hb : listOf bodyObj = some body)
    (h : evalN n (.args ρ (bs.map (·.2))) σ = (o, σ1)) (ho : NotVal o) :
    evalN (n + 1) (.form ρ (.cons (.sym "let") (.cons bsObj bodyObj))) σ = (o, σ1) := by
  simp [evalN, step, stepEval, listOf, hb, stepForm, formOf, hbs, h, bindV_exit _ ho]

/-- let: the outcome of the body is the outcome of the let -/
theorem exit_propagates_let_body {bsObj : Obj} {bs : List (String × Obj)} {vs : List Obj}
    (hbs : (listOf bsObj).bind parseBindings = some bs) (hb : listOf bodyObj = some body)
    (h : evalN n (.args ρ (bs.map (·.2))) σ = (.val vs, σ1)) :
    evalN (n + 1) (.form ρ (.cons (.sym "let") (.cons bsObj bodyObj))) σ
      = evalN n (.seq (pushFrame ρ σ1.frames.length) body) (addFrame σ1 (zipFrame (bs.map (·.1)) vs)) := by
  simp [evalN, step, stepEval, listOf, hb, stepForm, formOf, hbs, h, bindV]

/-- let*: an exit in an init form ends the let*; later bindings and the body are not evaluated -/
theorem exit_propagates_letstar_init {x : String} {init : Obj} {bs : List (String × Obj)}
    (h : evalN n (.form ρ init) σ = (o, σ1)) (ho : NotVal o) :
    evalN (n + 1) (.letStar ρ ((x, init) :: bs) body) σ = (o, σ1) := by
  simp [evalN, step, stepLetStar, h, bindV_exit _ ho]

theorem exit_propagates_letstar_body : evalN (n + 1) (.letStar ρ [] body) σ = evalN n (.seq ρ body) σ := by
  simp [evalN, step, stepLetStar]

/-- setq: an exit in a value form — the assignment does not happen, later pairs are not evaluated -/
theorem exit_propagates_setq {x : String} {ps : List Obj} {last : Obj}
    (h : evalN n (.form ρ e) σ = (o, σ1)) (ho : NotVal o) :
    evalN (n + 1) (.setqPairs ρ (.sym x :: e :: ps) last) σ = (o, σ1) := by
  simp [evalN, step, stepSetq, h, bindV_exit _ ho]

theorem exit_propagates_mvbind_values {varsObj vform : Obj} {xs : List String}
    (hx : (listOf varsObj).bind symNames = some xs) (hb : listOf bodyObj = some body)
    (h : evalN n (.form ρ vform) σ = (o, σ1)) (ho : NotVal o) :
    evalN (n + 1) (.form ρ (.cons (.sym "multiple-value-bind") (.cons varsObj (.cons vform bodyObj)))) σ = (o, σ1) := by
  simp [evalN, step, stepEval, listOf, hb, stepForm, formOf, hx, h, bindV_exit _ ho]

theorem exit_propagates_mvlist (h : evalN n (.form ρ e) σ = (o, σ1)) (ho : NotVal o) :
    evalN (n + 1) (.form ρ (.cons (.sym "multiple-value-list") (.cons e .nil))) σ = (o, σ1) := by
  simp [evalN, step, stepEval, listOf, stepForm, formOf, h, bindV_exit _ ho]

/-- ignore-errors lets every exit that is not an error pass -/
theorem exit_propagates_ignore_errors (hb : listOf bodyObj = some body)
    (h : evalN n (.seq ρ body) σ = (o, σ1)) (ho : ∀ cls, o ≠ .err cls) :
    evalN (n + 1) (.form ρ (.cons (.sym "ignore-errors") bodyObj)) σ = (o, σ1) := by
  cases o <;> simp_all [evalN, step, stepEval, stepForm, formOf, andThen]

end forms

-- loops: an exit in the body ends the loop (no further iteration, no result form)

theorem exit_propagates_dolist_body {fid tbid : Nat} {var : String} {x : Obj} {items body result : List Obj}
    (h : evalN n (.tagbodyRun ρ tbid body body) (setInFrame σ fid var x) = (o, σ1)) (ho : NotVal o) :
    evalN (n + 1) (.dolistLoop ρ fid var (x :: items) body tbid result) σ = (o, σ1) := by
  simp [evalN, step, stepDolist, h, bindV_exit _ ho]

theorem exit_propagates_dotimes_body {fid tbid i count : Nat} {var : String} {body result : List Obj}
    (hi : i < count)
    (h : evalN n (.tagbodyRun ρ tbid body body) (setInFrame σ fid var (.int i)) = (o, σ1)) (ho : NotVal o) :
    evalN (n + 1) (.dotimesLoop ρ fid var i count body tbid result) σ = (o, σ1) := by
  simp [evalN, step, stepDotimes, hi, h, bindV_exit _ ho]

theorem exit_propagates_do_test {spec : DoSpec}
    (h : evalN n (.form ρ spec.test) σ = (o, σ1)) (ho : NotVal o) :
    evalN (n + 1) (.doLoop ρ spec) σ = (o, σ1) := by
  simp [evalN, step, stepDoLoop, h, bindV_exit _ ho]

theorem exit_propagates_do_body {spec : DoSpec} {v : List Obj}
    (ht : evalN n (.form ρ spec.test) σ = (.val v, σ1)) (hf : truthy (prim v) = false)
    (h : evalN n (.tagbodyRun ρ spec.tbid spec.body spec.body) σ1 = (o, σ2)) (ho : NotVal o) :
    evalN (n + 1) (.doLoop ρ spec) σ = (o, σ2) := by
  simp [evalN, step, stepDoLoop, ht, hf, h, bindV_val, bindV_exit _ ho]

/-- a statement of a tagbody: an exit that is not a `go` to this very tagbody leaves the tagbody -/
theorem exit_propagates_tagbody_statement {id : Nat} {x : Obj} {all rest : List Obj}
    (hx : isTag x = false) (h : evalN n (.form ρ x) σ = (o, σ1)) (ho : NotVal o) (hne : o ≠ .timeout)
    (hgo : ∀ tag, o ≠ .go id tag) :
    evalN (n + 1) (.tagbodyRun ρ id all (x :: rest)) σ = (o, σ1) := by
  cases o with
  | val vs => exact absurd rfl (ho vs)
  | timeout => exact absurd rfl hne
  | go id' tag =>
    have : ¬ id' = id := fun e => hgo tag (by rw [e])
    simp [evalN, step, stepTagbody, hx, h, andThen, this]
  | ret id' vs => simp [evalN, step, stepTagbody, hx, h, andThen]
  | err cls => simp [evalN, step, stepTagbody, hx, h, andThen]

-- ---------------------------------------------------------------------------------------------
-- block / return-from: lexical matching

section blocks
variable {bodyObj : Obj} {body : List Obj} {nameObj : Obj} {nm : String}

/-- a block catches the `ret` that carries its own id: the values of the return-from are the
values of the block -/
theorem block_catches_own_tag (hn : blockName nameObj = some nm) (hb : listOf bodyObj = some body) {vs : List Obj}
    (h : evalN n (.seq (withBlock ρ nm σ.nextId) body) (bumpId σ) = (.ret σ.nextId vs, σ1)) :
    evalN (n + 1) (.form ρ (.cons (.sym "block") (.cons nameObj bodyObj))) σ = (.val vs, σ1) := by
  simp [evalN, step, stepEval, listOf, hb, stepForm, formOf, hn, h, catchRet]

/-- … and nothing else: a `ret` for another block instance passes through unchanged -/
theorem block_passes_other_tag (hn : blockName nameObj = some nm) (hb : listOf bodyObj = some body) {vs : List Obj} {id : Nat}
    (hid : id ≠ σ.nextId)
    (h : evalN n (.seq (withBlock ρ nm σ.nextId) body) (bumpId σ) = (.ret id vs, σ1)) :
    evalN (n + 1) (.form ρ (.cons (.sym "block") (.cons nameObj bodyObj))) σ = (.ret id vs, σ1) := by
  simp [evalN, step, stepEval, listOf, hb, stepForm, formOf, hn, h, catchRet, hid]

/-- go, errors and normal returns pass through a block -/
theorem block_passes_non_ret (hn : blockName nameObj = some nm) (hb : listOf bodyObj = some body)
    (h : evalN n (.seq (withBlock ρ nm σ.nextId) body) (bumpId σ) = (o, σ1)) (ho : ∀ id vs, o ≠ .ret id vs) :
    evalN (n + 1) (.form ρ (.cons (.sym "block") (.cons nameObj bodyObj))) σ = (o, σ1) := by
  cases o <;> simp_all [evalN, step, stepEval, listOf, stepForm, formOf, catchRet]

/-- return-from aims at the LEXICALLY visible block of that name: it yields `ret` with the id
recorded in the environment, carrying the values of its value form -/
theorem return_from_lexical {e : Obj} {id : Nat} {vs : List Obj}
    (hn : blockName nameObj = some nm) (hl : ρ.blocks.lookup nm = some id)
    (h : evalN n (.form ρ e) σ = (.val vs, σ1)) :
    evalN (n + 1) (.form ρ (.cons (.sym "return-from") (.cons nameObj (.cons e .nil)))) σ = (.ret id vs, σ1) := by
  simp [evalN, step, stepEval, listOf, stepForm, formOf, hn, hl, h, bindV]

/-- the innermost lexically enclosing block of a name shadows outer ones -/
theorem return_from_innermost (nm : String) (id : Nat) (ρ : Env) : (withBlock ρ nm id).blocks.lookup nm = some id := by
  simp [withBlock]

/-- return-from with no lexically enclosing block of that name is a control-error; its value form
is not evaluated -/
theorem return_from_unknown_block {rest : Obj} {restL : List Obj}
    (hn : blockName nameObj = some nm) (hl : ρ.blocks.lookup nm = none) (hr : listOf rest = some restL) :
    evalN (n + 1) (.form ρ (.cons (.sym "return-from") (.cons nameObj rest))) σ = (.err controlError, σ) := by
  simp [evalN, step, stepEval, listOf, hr, stepForm, formOf, hn, hl]

/-- an exit in the value form of return-from wins over the return -/
theorem exit_propagates_return_from_value {e : Obj} {id : Nat}
    (hn : blockName nameObj = some nm) (hl : ρ.blocks.lookup nm = some id)
    (h : evalN n (.form ρ e) σ = (o, σ1)) (ho : NotVal o) :
    evalN (n + 1) (.form ρ (.cons (.sym "return-from") (.cons nameObj (.cons e .nil)))) σ = (o, σ1) := by
  simp [evalN, step, stepEval, listOf, stepForm, formOf, hn, hl, h, bindV_exit _ ho]

example : blockName (.sym "b") = some "b" ∧ blockName .nil = some "nil" := by decide

/-- a whole program: the inner block of the same name catches, the outer continues -/
example : (evalN 12 (.form {} (SlipVerif.Eval.Obj.cons (.sym "block") (ofList [.sym "b",
      .cons (.sym "block") (ofList [.sym "b", .cons (.sym "return-from") (ofList [.sym "b", .int 1]), .int 2]), .int 3]))) {}).1
    = .val [.int 3] := by decide +kernel

end blocks

-- ---------------------------------------------------------------------------------------------
-- unwind-protect: the cleanup runs exactly once on every outcome

section unwind
variable {p : Obj} {cleanupObj : Obj} {cleanup : List Obj}

/-- whatever the outcome of the protected form (normal, return-from, go, error), the cleanup forms
are evaluated exactly once, in the store the protected form left, and then that outcome continues -/
theorem cleanup_exactly_once (hc : listOf cleanupObj = some cleanup) {vs : List Obj}
    (hp : evalN n (.form ρ p) σ = (o, σ1)) (hne : o ≠ .timeout)
    (hcl : evalN n (.seq ρ cleanup) σ1 = (.val vs, σ2)) :
    evalN (n + 1) (.form ρ (.cons (.sym "unwind-protect") (.cons p cleanupObj))) σ = (o, σ2) := by
  simp [evalN, step, stepEval, listOf, hc, stepForm, formOf, hp, hcl, andThen]

/-- trace (unwind-protect p c) = trace p ++ trace c, for every outcome of p -/
theorem cleanup_trace (hc : listOf cleanupObj = some cleanup) {vs : List Obj}
    (hp : evalN n (.form ρ p) σ = (o, σ1)) (hne : o ≠ .timeout)
    (hcl : evalN n (.seq ρ cleanup) σ1 = (.val vs, σ2)) :
    ∃ tp tc, σ1.trace = σ.trace ++ tp ∧ σ2.trace = σ1.trace ++ tc ∧
      (evalN (n + 1) (.form ρ (.cons (.sym "unwind-protect") (.cons p cleanupObj))) σ).2.trace = σ.trace ++ (tp ++ tc) := by
  obtain ⟨tp, htp⟩ := evalN_ext n (.form ρ p) σ
  obtain ⟨tc, htc⟩ := evalN_ext n (.seq ρ cleanup) σ1
  rw [hp] at htp
  rw [hcl] at htc
  refine ⟨tp, tc, htp.symm, htc.symm, ?_⟩
  rw [cleanup_exactly_once hc hp hne hcl]
  simp only at htp htc ⊢
  rw [← htc, ← htp, List.append_assoc]

/-- an exit of a cleanup form replaces the pending outcome -/
theorem cleanup_exit_replaces (hc : listOf cleanupObj = some cleanup) {oc : Out}
    (hp : evalN n (.form ρ p) σ = (o, σ1)) (hne : o ≠ .timeout)
    (hcl : evalN n (.seq ρ cleanup) σ1 = (oc, σ2)) (hoc : NotVal oc) :
    evalN (n + 1) (.form ρ (.cons (.sym "unwind-protect") (.cons p cleanupObj))) σ = (oc, σ2) := by
  cases oc with
  | val vs => exact absurd rfl (hoc vs)
  | timeout => simp [evalN, step, stepEval, listOf, hc, stepForm, formOf, hp, hcl, andThen]
  | ret id vs => simp [evalN, step, stepEval, listOf, hc, stepForm, formOf, hp, hcl, andThen]
  | go id tag => simp [evalN, step, stepEval, listOf, hc, stepForm, formOf, hp, hcl, andThen]
  | err cls => simp [evalN, step, stepEval, listOf, hc, stepForm, formOf, hp, hcl, andThen]

/-- nesting: the inner cleanup runs first, then the outer one, each exactly once, and the outcome
of the protected form continues after both -/
theorem cleanup_innermost_first {c1Obj c2Obj : Obj} {c1 c2 : List Obj} {σ3 : St} {vs1 vs2 : List Obj}
    (h1 : listOf c1Obj = some c1) (h2 : listOf c2Obj = some c2)
    (hp : evalN n (.form ρ p) σ = (o, σ1)) (hne : o ≠ .timeout)
    (hc1 : evalN n (.seq ρ c1) σ1 = (.val vs1, σ2))
    (hc2 : evalN (n + 1) (.seq ρ c2) σ2 = (.val vs2, σ3)) :
    evalN (n + 2) (.form ρ (.cons (.sym "unwind-protect")
        (.cons (.cons (.sym "unwind-protect") (.cons p c1Obj)) c2Obj))) σ = (o, σ3) :=
  cleanup_exactly_once h2 (cleanup_exactly_once h1 hp hne hc1) hne hc2

example : (evalN 8 (.form {} (.cons (.sym "unwind-protect") (ofList [
      .cons (.sym "car") (ofList [.cons (.sym "vtr") (ofList [.int 1])]),
      .cons (.sym "vtr") (ofList [.int 2])]))) {}) =
    (.err "type-error", { trace := [.int 1, .int 2] }) := by decide +kernel

end unwind

-- ---------------------------------------------------------------------------------------------
-- tagbody / go

section tagbody
variable {id : Nat} {all rest : List Obj} {x tag : Obj}

/-- a `go` carrying the id of this tagbody continues with the statements after the tag, wherever the
tag stands in the body — before the jumping statement (backward) or after it (forward) -/
theorem go_reaches_tag {rest' : List Obj} (hx : isTag x = false)
    (h : evalN n (.form ρ x) σ = (.go id tag, σ1)) (ht : afterTag tag all = some rest') :
    evalN (n + 1) (.tagbodyRun ρ id all (x :: rest)) σ = evalN n (.tagbodyRun ρ id all rest') σ1 := by
  simp [evalN, step, stepTagbody, hx, h, andThen, ht]

/-- the statements after the first occurrence of a tag, found by searching the WHOLE body -/
theorem afterTag_found (pre post : List Obj) (htag : isTag tag = true) (hpre : ∀ y ∈ pre, ¬ (isTag y = true ∧ y = tag)) :
    afterTag tag (pre ++ tag :: post) = some post := by
  induction pre with
  | nil => simp [afterTag, htag]
  | cons y pre ih =>
    have hy := hpre y (by simp)
    have : (isTag y && y == tag) = false := by
      cases hty : isTag y <;> simp_all
    simp only [List.cons_append, afterTag, this]
    exact ih (fun z hz => hpre z (by simp [hz]))

/-- backward: the tag stands before the statement that jumps -/
example : afterTag (.int 7) [.int 7, .sym "stmt-a", .sym "jump", .int 9] = some [.sym "stmt-a", .sym "jump", .int 9] := by
  decide
/-- forward: the tag stands after it -/
example : afterTag (.int 9) [.int 7, .sym "stmt-a", .sym "jump", .int 9, .sym "stmt-b"] = some [.sym "stmt-b"] := by
  decide

/-- tags are not evaluated -/
theorem tagbody_skips_tags (hx : isTag x = true) :
    evalN (n + 1) (.tagbodyRun ρ id all (x :: rest)) σ = evalN n (.tagbodyRun ρ id all rest) σ := by
  simp [evalN, step, stepTagbody, hx]

/-- a statement that returns normally is followed by the next statement -/
theorem tagbody_next_statement {vs : List Obj} (hx : isTag x = false) (h : evalN n (.form ρ x) σ = (.val vs, σ1)) :
    evalN (n + 1) (.tagbodyRun ρ id all (x :: rest)) σ = evalN n (.tagbodyRun ρ id all rest) σ1 := by
  simp [evalN, step, stepTagbody, hx, h, andThen]

/-- a `go` for another tagbody instance passes through (to the enclosing tagbody) -/
theorem go_other_tagbody_passes {id' : Nat} (hx : isTag x = false) (hid : id' ≠ id)
    (h : evalN n (.form ρ x) σ = (.go id' tag, σ1)) :
    evalN (n + 1) (.tagbodyRun ρ id all (x :: rest)) σ = (.go id' tag, σ1) := by
  simp [evalN, step, stepTagbody, hx, h, andThen, hid]

/-- `go` aims at the lexically visible tag: it yields `go` with the id of the tagbody instance that
established the tag; a tag that is not visible is a control-error -/
theorem go_lexical (hl : ρ.tags.lookup tag = some id) :
    evalN (n + 1) (.form ρ (.cons (.sym "go") (.cons tag .nil))) σ = (.go id tag, σ) := by
  simp [evalN, step, stepEval, listOf, stepForm, formOf, hl]

theorem go_unknown_tag (hl : ρ.tags.lookup tag = none) :
    evalN (n + 1) (.form ρ (.cons (.sym "go") (.cons tag .nil))) σ = (.err controlError, σ) := by
  simp [evalN, step, stepEval, listOf, stepForm, formOf, hl]

/-- a backward jump executed twice: the trace shows the loop body three times -/
example : (evalN 40 (.form {} (.cons (.sym "let") (ofList [ofList [ofList [.sym "c", .int 0]],
      .cons (.sym "tagbody") (ofList [.int 7, .cons (.sym "vtr") (ofList [.sym "c"]),
        .cons (.sym "setq") (ofList [.sym "c", .cons (.sym "+") (ofList [.sym "c", .int 1])]),
        .cons (.sym "when") (ofList [.cons (.sym "<") (ofList [.sym "c", .int 3]), .cons (.sym "go") (ofList [.int 7])])])]))) {}).2.trace
    = [.int 0, .int 1, .int 2] := by decide +kernel

end tagbody

-- ---------------------------------------------------------------------------------------------
-- with-mutex-lock: the lock is released on every path

section mutex
variable {m : Obj} {bodyObj : Obj} {body : List Obj} {mid : Nat} {v : List Obj}

/-- the lock is taken before the body runs, and released after it whatever its outcome -/
theorem mutex_released_on_every_path (hb : listOf bodyObj = some body)
    (hm : evalN n (.form ρ m) σ = (.val v, σ1)) (hv : prim v = .mutex mid) (hfree : σ1.locks[mid]? = some false)
    (hbody : evalN n (.seq ρ body) (setLock σ1 mid true) = (o, σ2)) (hne : o ≠ .timeout) :
    evalN (n + 1) (.form ρ (.cons (.sym "with-mutex-lock") (.cons m bodyObj))) σ = (o, setLock σ2 mid false) := by
  simp [evalN, step, stepEval, listOf, hb, stepForm, formOf, hm, bindV, hv, hfree, hbody, andThen_of_ne _ hne]

theorem mutex_held_in_body (σ : St) (mid : Nat) (h : mid < σ.locks.length) : (setLock σ mid true).locks[mid]? = some true := by
  simp [setLock, h]

theorem mutex_free_after (σ : St) (mid : Nat) (h : mid < σ.locks.length) : (setLock σ mid false).locks[mid]? = some false := by
  simp [setLock, h]

/-- an error inside the body: the lock is free afterwards and the error surfaces -/
example : (evalN 10 (.form {} (.cons (.sym "with-mutex-lock") (ofList [.sym "vmx0",
      .cons (.sym "vtr") (ofList [.cons (.sym "vheld") (ofList [.sym "vmx0"])]),
      .cons (.sym "car") (ofList [.int 5])])))
      { globals := [("vmx0", .mutex 0)], locks := [false] }) =
    (.err "type-error", { globals := [("vmx0", .mutex 0)], locks := [false], trace := [.t] }) := by decide +kernel

end mutex

-- ---------------------------------------------------------------------------------------------
-- errors keep their condition class

/-- ignore-errors turns an error of class `cls` into the two values nil and a condition of exactly
that class -/
theorem ignore_errors_preserves_class {bodyObj : Obj} {body : List Obj} {cls : String} (hb : listOf bodyObj = some body)
    (h : evalN n (.seq ρ body) σ = (.err cls, σ1)) :
    evalN (n + 1) (.form ρ (.cons (.sym "ignore-errors") bodyObj)) σ = (.val [.nil, .cond cls], σ1) := by
  simp [evalN, step, stepEval, hb, stepForm, formOf, h, andThen]

/-- an error that is not handled surfaces with its original class: errors are exits, and every
`exit_propagates_*` theorem above applies to `o = err cls`; e.g. through a body -/
theorem error_class_preserved {pre post : List Obj} {e : Obj} {σ' : St} {cls : String}
    (hpre : ValsChain ρ pre σ σ1) (he : Evals (.form ρ e) σ1 (.err cls, σ')) :
    Evals (.seq ρ (pre ++ e :: post)) σ (.err cls, σ') :=
  exit_propagates_seq_position hpre he (NotVal.err cls)

/-- the classes raised by the primitives and forms of the model -/
example : (evalN 6 (.form {} (.cons (.sym "car") (ofList [.int 5]))) {}).1 = .err "type-error" ∧
    (evalN 6 (.form {} (.cons (.sym "/") (ofList [.int 1, .int 0]))) {}).1 = .err "division-by-zero" ∧
    (evalN 6 (.form {} (.sym "nowhere")) {}).1 = .err "unbound-variable" ∧
    (evalN 6 (.form {} (.cons (.sym "nofun") .nil)) {}).1 = .err "undefined-function" ∧
    (evalN 6 (.form {} (.cons (.sym "error") (ofList [.str "boom"]))) {}).1 = .err "error" ∧
    (evalN 6 (.form {} (.cons (.sym "return-from") (ofList [.sym "nowhere", .int 1]))) {}).1 = .err "control-error" := by
  decide +kernel

-- ---------------------------------------------------------------------------------------------
-- extension round: streams opened by with-open-file, gi:recover

section streams
variable {specRest bodyObj path : Obj} {x s : String} {opts body vs : List Obj}

/-- `with-open-file`: path and options are evaluated first (left to right); the stream is opened, bound to the
variable in a frame of its own, and CLOSED when the body is left — whatever the outcome of the body is (normal
return, return-from, go, error) and whatever the body did to the stream (σ2 is arbitrary: the stream may have been
closed by the body already, or opened with `:direction :probe`): the final close never changes the outcome -/
theorem stream_closed_on_every_path (hb : listOf bodyObj = some body) (hs : listOf specRest = some (path :: opts))
    (ha : evalN n (.args ρ (path :: opts)) σ = (.val (.str s :: vs), σ1))
    (hbody : evalN n (.seq (pushFrame ρ σ1.frames.length) body)
      (addFrame (addStream σ1 (!probeDirection vs)) [(x, .stream σ1.streams.length)]) = (o, σ2)) (hne : o ≠ .timeout) :
    evalN (n + 1) (.form ρ (.cons (.sym "with-open-file") (.cons (.cons (.sym x) specRest) bodyObj))) σ
      = (o, closeStream σ2 σ1.streams.length) := by
  simp [evalN, step, stepEval, listOf, hb, hs, stepForm, formOf, ha, bindV, hbody, andThen_of_ne _ hne]

/-- an exit while the path / option forms are evaluated: no stream is opened and the body is not evaluated -/
theorem exit_propagates_with_open_file_args (hb : listOf bodyObj = some body) (hs : listOf specRest = some (path :: opts))
    (ha : evalN n (.args ρ (path :: opts)) σ = (o, σ1)) (ho : NotVal o) :
    evalN (n + 1) (.form ρ (.cons (.sym "with-open-file") (.cons (.cons (.sym x) specRest) bodyObj))) σ = (o, σ1) := by
  simp [evalN, step, stepEval, listOf, hb, hs, stepForm, formOf, ha, bindV_exit _ ho]

theorem stream_open_in_body (σ : St) (fr : List (String × Obj)) :
    (addFrame (addStream σ) fr).streams[σ.streams.length]? = some true := by
  simp [addFrame, addStream]

/-- a stream opened with `:direction :probe` is bound closed -/
theorem probe_stream_closed_in_body (σ : St) (fr : List (String × Obj)) (ovs : List Obj)
    (h : probeDirection ovs = true) :
    (addFrame (addStream σ (!probeDirection ovs)) fr).streams[σ.streams.length]? = some false := by
  simp [addFrame, addStream, h]

/-- `(close s)` on an open stream: value t, that stream is closed, nothing else changes -/
theorem close_open_stream (σ : St) (id : Nat) (h : σ.streams[id]? = some true) :
    applyPrim .close [.stream id] σ = (.val [.t], closeStream σ id) := by
  simp [applyPrim, h]

/-- `(close s)` on a closed stream is a no-op (value nil): it is NOT an error -/
theorem close_closed_stream_noop (σ : St) (id : Nat) (h : σ.streams[id]? = some false) :
    applyPrim .close [.stream id] σ = (.val [.nil], σ) := by
  simp [applyPrim, h]

/-- closing twice is closing once: the close that `with-open-file` performs after a body that closed the stream
itself leaves the store of the body -/
theorem closeStream_idem (σ : St) (id : Nat) : closeStream (closeStream σ id) id = closeStream σ id := by
  simp [closeStream]

theorem set_false_of_closed (l : List Bool) (id : Nat) (h : l[id]? = some false) : l.set id false = l := by
  apply List.ext_getElem?
  intro k
  by_cases hk : id = k
  · subst hk
    rw [List.getElem?_set_self (by
      rcases Nat.lt_or_ge id l.length with h' | h'
      · exact h'
      · simp [List.getElem?_eq_none h'] at h), h]
  · rw [List.getElem?_set_ne hk]

/-- closing a stream that is closed already gives the very same store: the close that with-open-file performs after
a body that closed the stream itself (or after a `:direction :probe` open) changes NOTHING -/
theorem closeStream_of_closed (σ : St) (id : Nat) (h : σ.streams[id]? = some false) : closeStream σ id = σ := by
  simp [closeStream, set_false_of_closed _ _ h]

/-- with-open-file around a body that left its stream closed: outcome AND store of the form are those of the body -/
theorem with_open_file_after_body_close (hb : listOf bodyObj = some body) (hs : listOf specRest = some (path :: opts))
    (ha : evalN n (.args ρ (path :: opts)) σ = (.val (.str s :: vs), σ1))
    (hbody : evalN n (.seq (pushFrame ρ σ1.frames.length) body)
      (addFrame (addStream σ1 (!probeDirection vs)) [(x, .stream σ1.streams.length)]) = (o, σ2)) (hne : o ≠ .timeout)
    (hclosed : σ2.streams[σ1.streams.length]? = some false) :
    evalN (n + 1) (.form ρ (.cons (.sym "with-open-file") (.cons (.cons (.sym x) specRest) bodyObj))) σ = (o, σ2) := by
  rw [stream_closed_on_every_path hb hs ha hbody hne, closeStream_of_closed _ _ hclosed]

/-- closing one stream leaves every other stream as it was -/
theorem close_touches_one_stream (σ : St) (id k : Nat) (h : k ≠ id) :
    (closeStream σ id).streams[k]? = σ.streams[k]? := by
  simp [closeStream, List.getElem?_set, Ne.symm h]

/-- the stream is closed although the body signals an error, and the error surfaces with its class -/
example : (evalN 10 (.form {} (.cons (.sym "with-open-file") (ofList [ofList [.sym "s", .str "/dev/null"],
      .cons (.sym "vtr") (ofList [.cons (.sym "vopen") (ofList [.sym "s"])]),
      .cons (.sym "car") (ofList [.int 5])]))) {}) =
    (.err "type-error", { frames := [[("s", .stream 0)]], streams := [false], trace := [.t] }) := by decide +kernel

/-- the body closes the stream itself and then divides by zero: the error keeps its class (the close at the end of
with-open-file finds a closed stream and changes nothing); trace: t (first close), nil (second close), nil (vopen) -/
example : (evalN 10 (.form {} (.cons (.sym "with-open-file") (ofList [ofList [.sym "s", .str "/dev/null"],
      .cons (.sym "vtr") (ofList [.cons (.sym "close") (ofList [.sym "s"])]),
      .cons (.sym "vtr") (ofList [.cons (.sym "close") (ofList [.sym "s"])]),
      .cons (.sym "vtr") (ofList [.cons (.sym "vopen") (ofList [.sym "s"])]),
      .cons (.sym "/") (ofList [.int 1, .int 0])]))) {}) =
    (.err "division-by-zero", { frames := [[("s", .stream 0)]], streams := [false], trace := [.t, .nil, .nil] }) := by
  decide +kernel

/-- a `:direction :probe` stream is closed in the body already; an error of the body keeps its class -/
example : (evalN 10 (.form {} (.cons (.sym "with-open-file") (ofList [ofList [.sym "s", .str "/dev/null",
        .sym ":direction", .sym ":probe"],
      .cons (.sym "vtr") (ofList [.cons (.sym "vopen") (ofList [.sym "s"])]),
      .cons (.sym "car") (ofList [.int 5])]))) {}) =
    (.err "type-error", { frames := [[("s", .stream 0)]], streams := [false], trace := [.nil] }) := by decide +kernel

end streams

section recover
variable {onrec bodyObj : Obj} {x cls : String} {body : List Obj}

/-- `(recover sym on-recover form…)`: when the forms signal an error of class `cls`, the on-recover form is evaluated
(once) in the store the error left, with `sym` bound to a condition of exactly that class, and gives the outcome -/
theorem recover_handles_error (hb : listOf bodyObj = some body)
    (h : evalN n (.seq ρ body) σ = (.err cls, σ1)) :
    evalN (n + 1) (.form ρ (.cons (.sym "recover") (.cons (.sym x) (.cons onrec bodyObj)))) σ
      = evalN n (.form (pushFrame ρ σ1.frames.length) onrec) (addFrame σ1 [(x, .cond cls)]) := by
  simp [evalN, step, stepEval, listOf, hb, stepForm, formOf, h, andThen]

/-- every other outcome of the forms — a normal return, a return-from, a go — passes `recover` unchanged and the
on-recover form is NOT evaluated: recover handles errors and nothing else -/
theorem recover_passes_non_errors (hb : listOf bodyObj = some body)
    (h : evalN n (.seq ρ body) σ = (o, σ1)) (hne : o ≠ .timeout) (hnerr : ∀ c, o ≠ .err c) :
    evalN (n + 1) (.form ρ (.cons (.sym "recover") (.cons (.sym x) (.cons onrec bodyObj)))) σ = (o, σ1) := by
  cases o with
  | err c => exact absurd rfl (hnerr c)
  | timeout => exact absurd rfl hne
  | _ => simp [evalN, step, stepEval, listOf, hb, stepForm, formOf, h, andThen]

/-- a cleanup around a recovered error still runs exactly once, before the on-recover form:
`(recover e (vtr 3) (unwind-protect (car 5) (vtr 2)))` traces 2 3 -/
example : (evalN 10 (.form {} (.cons (.sym "recover") (ofList [.sym "e", .cons (.sym "vtr") (ofList [.int 3]),
      .cons (.sym "unwind-protect") (ofList [.cons (.sym "car") (ofList [.int 5]), .cons (.sym "vtr") (ofList [.int 2])])]))) {}) =
    (.val [.int 3], { frames := [[("e", .cond "type-error")]], trace := [.int 2, .int 3] }) := by decide +kernel

end recover

end SlipVerif.Theorems.C07
