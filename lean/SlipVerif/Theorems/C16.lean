import SlipVerif.Lemmas.Equality
import SlipVerif.Lemmas.HashTable
import SlipVerif.Lemmas.Types
/-
  C16 — equality, hashing and type predicates are mutually coherent.
  Theorems about SlipVerif.Model.Equality (the four predicates, `oeq` = slip.ObjectEqual, the
  canonical keys, the model's sxhash) and SlipVerif.Model.HashTable (association list under a test).
  The obligations over the regenerated type tables are in Theorems/GenC16.lean.
  The tie to the code is the correspondence check harness/cmd/vh/c16.go.
-/
namespace SlipVerif.Equality

/-! ## canonical keys: each predicate is equality of a normal form -/

/-- `eq` is identity of the token-annotated object. -/
theorem eq_iff_same (x y : Obj) : eq x y = true ↔ x = y := eq_iff x y

/-- `eql x y ↔ keyEql x = keyEql y` -/
theorem eql_iff_key (x y : Obj) : eql x y = true ↔ keyEql x = keyEql y := by
  unfold eql
  rw [Bool.or_eq_true, eq_iff]
  constructor
  · rintro (h | h)
    · rw [h]
    · cases x <;> cases y <;> simp_all [keyEql, numKey]
  · intro h
    cases x <;> cases y <;> simp_all [keyEql, numKey]

/-- `canon_key`: `equal x y ↔ key x = key y` (a normal form), the heart of hash consistency. -/
theorem canon_key (x y : Obj) : equal x y = true ↔ key x = key y := by
  unfold equal
  rw [Bool.or_eq_true, eq_iff, equalS_iff_key]
  constructor
  · rintro (h | h)
    · rw [h]
    · exact h
  · exact Or.inr

/-- `equalp x y ↔ keyP x = keyP y` -/
theorem equalp_iff_key (x y : Obj) : equalp x y = true ↔ keyP x = keyP y := by
  unfold equalp
  rw [Bool.or_eq_true, eq_iff, equalpS_iff_keyP]
  constructor
  · rintro (h | h)
    · rw [h]
    · exact h
  · exact Or.inr

/-- `slip.ObjectEqual x y ↔ keyO x = keyO y` -/
theorem oeq_iff_key (x y : Obj) : oeq x y = true ↔ keyO x = keyO y := oeq_iff_keyO x y

/-- the model's `equal` has the recursion of pkg/cl/equal.go: two lists are `equal` iff they are
    the same object or their elements are pairwise `equal` (each with its own `eq` shortcut). -/
theorem equal_cons_unfold (i j : Nat) (a b c d : Obj) :
    equal (.cons i a b) (.cons j c d) = (eq (.cons i a b) (.cons j c d) || (equal a c && equal b d)) := by
  rw [Bool.eq_iff_iff]
  simp only [Bool.or_eq_true, Bool.and_eq_true, canon_key, eq_iff]
  constructor
  · intro h; right; simpa [key] using h
  · rintro (h | h)
    · rw [h]
    · simpa [key] using h

theorem equalp_cons_unfold (i j : Nat) (a b c d : Obj) :
    equalp (.cons i a b) (.cons j c d) = (eq (.cons i a b) (.cons j c d) || (equalp a c && equalp b d)) := by
  rw [Bool.eq_iff_iff]
  simp only [Bool.or_eq_true, Bool.and_eq_true, equalp_iff_key, eq_iff]
  constructor
  · intro h; right; simpa [keyP] using h
  · rintro (h | h)
    · rw [h]
    · simpa [keyP] using h

/-! ## the implication chain  eq ⊆ eql ⊆ equal ⊆ equalp -/

theorem eq_imp_eql (x y : Obj) (h : eq x y = true) : eql x y = true := by
  rw [eq_iff] at h; rw [eql_iff_key, h]

theorem eql_imp_equal (x y : Obj) (h : eql x y = true) : equal x y = true := by
  rw [eql_iff_key] at h
  rw [canon_key, ← key_keyEql x, ← key_keyEql y, h]

theorem equal_imp_equalp (x y : Obj) (h : equal x y = true) : equalp x y = true := by
  rw [canon_key] at h
  rw [equalp_iff_key, ← keyP_key x, ← keyP_key y, h]

/-- `eq_eql_equal_equalp_chain` -/
theorem eq_eql_equal_equalp_chain (x y : Obj) :
    (eq x y = true → eql x y = true) ∧ (eql x y = true → equal x y = true) ∧
    (equal x y = true → equalp x y = true) :=
  ⟨eq_imp_eql x y, eql_imp_equal x y, equal_imp_equalp x y⟩

/-! ## each predicate is an equivalence relation -/

theorem eq_refl (x : Obj) : eq x x = true := by simp [eq]
theorem eq_symm (x y : Obj) (h : eq x y = true) : eq y x = true := by
  rw [eq_iff] at *; exact h.symm
theorem eq_trans (x y z : Obj) (h1 : eq x y = true) (h2 : eq y z = true) : eq x z = true := by
  rw [eq_iff] at *; exact h1.trans h2

theorem eql_refl (x : Obj) : eql x x = true := by rw [eql_iff_key]
theorem eql_symm (x y : Obj) (h : eql x y = true) : eql y x = true := by
  rw [eql_iff_key] at *; exact h.symm
theorem eql_trans (x y z : Obj) (h1 : eql x y = true) (h2 : eql y z = true) : eql x z = true := by
  rw [eql_iff_key] at *; exact h1.trans h2

theorem equal_refl (x : Obj) : equal x x = true := by rw [canon_key]
theorem equal_symm (x y : Obj) (h : equal x y = true) : equal y x = true := by
  rw [canon_key] at *; exact h.symm
theorem equal_trans (x y z : Obj) (h1 : equal x y = true) (h2 : equal y z = true) : equal x z = true := by
  rw [canon_key] at *; exact h1.trans h2

theorem equalp_refl (x : Obj) : equalp x x = true := by rw [equalp_iff_key]
theorem equalp_symm (x y : Obj) (h : equalp x y = true) : equalp y x = true := by
  rw [equalp_iff_key] at *; exact h.symm
theorem equalp_trans (x y z : Obj) (h1 : equalp x y = true) (h2 : equalp y z = true) : equalp x z = true := by
  rw [equalp_iff_key] at *; exact h1.trans h2

theorem oeq_refl (x : Obj) : oeq x x = true := by rw [oeq_iff_key]
theorem oeq_symm (x y : Obj) (h : oeq x y = true) : oeq y x = true := by
  rw [oeq_iff_key] at *; exact h.symm
theorem oeq_trans (x y z : Obj) (h1 : oeq x y = true) (h2 : oeq y z = true) : oeq x z = true := by
  rw [oeq_iff_key] at *; exact h1.trans h2

/-! ## hashing: every function of the canonical key gives equal codes to `equal` objects -/

theorem key_function_congr {α : Type} (f : Obj → α) (x y : Obj) (h : equal x y = true) :
    f (key x) = f (key y) := by
  rw [canon_key] at h; rw [h]

/-- the model's `sxhash` gives equal codes to `equal` objects -/
theorem sxhash_congr (x y : Obj) (h : equal x y = true) : sxhash x = sxhash y :=
  key_function_congr hashKey x y h

/-- the keys are normal forms: an object is `equal` to its key, and keys are fixed points -/
theorem key_idem (x : Obj) : key (key x) = key x := by
  have hO : ∀ e : Obj, keyO (keyO e) = keyO e := by
    intro e
    induction e with
    | nil => simp [keyO]
    | num i r v => simp [keyO, numKey]
    | chr i c => simp [keyO]
    | str i s => simp [keyO]
    | sym a => simp [keyO, foldS_idem]
    | cons i a b iha ihb => simp [keyO, iha, ihb]
    | vec i e ih => simp [keyO, ih]
    | other i => simp [keyO]
  induction x with
  | nil => simp [key]
  | num i r v => simp [key, numKey]
  | chr i c => simp [key]
  | str i s => simp [key, foldS_idem]
  | sym a => simp [key]
  | cons i a b iha ihb => simp [key, iha, ihb]
  | vec i e ih => simp [key, hO]
  | other i => simp [key]

theorem equal_key (x : Obj) : equal x (key x) = true := by
  rw [canon_key, key_idem]

/-! ### non-trivial instances -/

/-- 5 (fixnum) and 5.0 (double-float) are different objects with the same value; "Ab" and "aB";
    two lists holding them -/
def ex5 : Obj := .num 1 .fixnum 5
def ex5d : Obj := .num 2 .double 5
def exAb : Obj := .str 3 [65, 98]
def exaB : Obj := .str 4 [97, 66]
def exL1 : Obj := .cons 5 ex5 (.cons 0 exAb .nil)
def exL2 : Obj := .cons 6 ex5d (.cons 0 exaB .nil)

example : eq ex5 ex5d = false ∧ eql ex5 ex5d = true := by decide
example : eql exAb exaB = false ∧ equal exAb exaB = true := by decide
example : eql exL1 exL2 = false ∧ equal exL1 exL2 = true ∧ sxhash exL1 = sxhash exL2 := by decide
example : equal (.chr 7 65) (.chr 8 97) = false ∧ equalp (.chr 7 65) (.chr 8 97) = true := by decide
example : equal (.sym [70, 111]) (.sym [102, 111]) = false ∧ equalp (.sym [70, 111]) (.sym [102, 111]) = true := by decide
/-- vectors compare their elements with the root `Equal` (strings exactly): not `equal` -/
example : equal (.vec 9 (.cons 0 exAb .nil)) (.vec 10 (.cons 0 exaB .nil)) = false := by decide
example : equal (.vec 9 (.cons 0 ex5 .nil)) (.vec 10 (.cons 0 ex5d .nil)) = true := by decide

end SlipVerif.Equality

namespace SlipVerif.HashTable
open SlipVerif.Equality

variable {K V : Type} {eqv : K → K → Bool}

/-! ## a hash table is a finite map under its test -/

/-- the finite-map semantics respects the test: `spec h` is a function on `K/≈`. -/
theorem spec_congr (per : IsPER eqv) (h : List (Op K V)) (k1 k2 : K) (he : eqv k1 k2 = true) :
    spec eqv h k1 = spec eqv h k2 := by
  have key : ∀ k', eqv k' k1 = eqv k' k2 := by
    intro k'
    rcases Bool.eq_false_or_eq_true (eqv k' k1) with h1 | h1
    · rw [h1, per.trans _ _ _ h1 he]
    · rcases Bool.eq_false_or_eq_true (eqv k' k2) with h2 | h2
      · have := per.trans _ _ _ h2 (per.symm _ _ he)
        rw [this] at h1; exact absurd h1 (by simp)
      · rw [h1, h2]
  induction h with
  | nil => rfl
  | cons op h ih =>
    cases op with
    | put k' v => simp only [spec, key k', ih]
    | rem k' => simp only [spec, key k', ih]
    | clr => rfl

/-- `hashtable_refines_map`: after ANY history of stores, removals and clears, a lookup in the
    table returns exactly what the finite-map semantics of the history says: the value last stored
    under an equivalent key, unless an equivalent key was removed or the table cleared since. -/
theorem hashtable_refines_map (per : IsPER eqv) (h : List (Op K V)) (k : K) :
    get eqv (run eqv h) k = spec eqv h k := by
  induction h with
  | nil => rfl
  | cons op h ih =>
    cases op with
    | put k' v => simp only [run, step, spec, get_put per, ih]
    | rem k' => simp only [run, step, spec, get_rem per _ _ _ (inv_run h), ih]
    | clr => simp [run, step, clr, spec, get]

/-- the stored keys are pairwise inequivalent after any history … -/
theorem keys_distinct (h : List (Op K V)) :
    (keys (run eqv h)).Pairwise (fun a b => eqv a b = false) := by
  have := inv_run (eqv := eqv) h
  unfold Inv at this
  unfold keys
  rw [List.pairwise_map]
  exact this

/-- … and they represent exactly the classes on which the finite map is defined; hence
    `count` (their number) is the number of distinct keys of the map the history denotes. -/
theorem count_is_number_of_distinct_keys (per : IsPER eqv) (h : List (Op K V)) :
    count (run eqv h) = (keys (run eqv h)).length ∧
    (keys (run eqv h)).Pairwise (fun a b => eqv a b = false) ∧
    ∀ k, (spec eqv h k).isSome = true ↔ ∃ k' ∈ keys (run eqv h), eqv k' k = true := by
  refine ⟨by simp [count, keys], keys_distinct h, ?_⟩
  intro k
  rw [← hashtable_refines_map per h k, get_isSome_iff]
  constructor
  · rintro ⟨e, he, h1⟩; exact ⟨e.1, by simp only [keys, List.mem_map]; exact ⟨e, he, rfl⟩, h1⟩
  · rintro ⟨k', hk, h1⟩
    simp only [keys, List.mem_map] at hk
    obtain ⟨e, he, h2⟩ := hk
    exact ⟨e, he, by rw [h2]; exact h1⟩

/-- a store is found again by any equivalent key (needs reflexivity only through `eqv k k2`) -/
theorem get_after_put (per : IsPER eqv) (h : List (Op K V)) (k k2 : K) (v : V) (he : eqv k k2 = true) :
    get eqv (run eqv (.put k v :: h)) k2 = some v := by
  rw [hashtable_refines_map per]; simp [spec, he]

theorem get_after_rem (per : IsPER eqv) (h : List (Op K V)) (k k2 : K) (he : eqv k k2 = true) :
    get eqv (run eqv (.rem k :: h)) k2 = none := by
  rw [hashtable_refines_map per]; simp [spec, he]

theorem count_after_clr (h : List (Op K V)) : count (run eqv (.clr :: h)) = 0 := by
  simp [run, step, clr, count]

/-- the driver folds a chronological list of operations with `step`; that is `run` of the
    history (most recent first), so the refinement theorems speak about the states the
    correspondence harness observes. -/
theorem foldl_step_eq_run (ops : List (Op K V)) :
    ops.foldl (step eqv) [] = run eqv ops.reverse := by
  have h : ∀ (ops : List (Op K V)) (hist : List (Op K V)),
      ops.foldl (step eqv) (run eqv hist) = run eqv (ops.reverse ++ hist) := by
    intro ops
    induction ops with
    | nil => intro hist; rfl
    | cons op ops ih =>
      intro hist
      have := ih (op :: hist)
      simp only [List.foldl_cons, List.reverse_cons, List.append_assoc, List.singleton_append]
      exact this
  have := h ops []
  simpa [run] using this

/-- slip's table test `eql` (make-hash-table documents that `eql` is always used) is a legitimate
    test: the refinement theorems apply to the table the driver runs. -/
theorem eql_isPER : IsPER Equality.eql := ⟨eql_symm, eql_trans⟩

theorem eql_table_refines_map (h : List (Op Obj Nat)) (k : Obj) :
    get Equality.eql (run Equality.eql h) k = spec Equality.eql h k :=
  hashtable_refines_map eql_isPER h k

/-! ### non-trivial instance: store under 5, overwrite under 5.0, remove under a third equal key -/
example : get Equality.eql (run Equality.eql [.put ex5d 2, .put ex5 1]) (.num 11 .single 5) = some 2 ∧
    count (run Equality.eql [.put ex5d 2, .put ex5 1]) = 1 ∧
    get Equality.eql (run Equality.eql [.rem (.num 11 .single 5), .put ex5d 2, .put ex5 1]) ex5 = none := by decide

end SlipVerif.HashTable

namespace SlipVerif.Types

/-! ## type membership, for ANY Hierarchy()/class tables (the obligations over the regenerated
    tables are in Theorems/GenC16.lean) -/

/-- an object whose type has a Hierarchy() literal satisfies `typep` of its own `type-of` -/
theorem typep_of_typeof_general (tbl : HierTable) (ty : String) (h : (hierOf tbl ty).isSome = true) :
    typep tbl ty ty = true := by
  unfold typep
  unfold hierOf at h ⊢
  cases hf : tbl.find? (fun e => e.2.head? == some ty) with
  | none => simp [hf] at h
  | some e =>
    have hh := find_head tbl ty e hf
    simp only [Option.map_some]
    cases hl : e.2 with
    | nil => simp [hl] at hh
    | cons a l =>
      simp only [hl, List.head?_cons, Option.some.injEq] at hh
      simp [hh]

/-- `subtypep` is reflexive on every registered class, whatever the class table -/
theorem subtype_refl_general (cls : ClassTable) (c : String) (h : registered cls c = true) :
    subtypep cls c c = true := by
  unfold subtypep
  simp only [h, Bool.true_and, Bool.and_self]
  unfold registered at h
  unfold precedence
  cases hc : cls with
  | nil => simp [hc] at h
  | cons e l =>
    simp only [List.length_cons, supers]
    rw [← hc]
    cases hl : cls.lookup c with
    | none => simp [hl] at h
    | some s =>
      simp only
      split <;> simp

example : (hierOf [("Ratio", ["ratio", "rational", "t"])] "ratio").isSome = true ∧
    registered [("rational", ""), ("ratio", "rational")] "ratio" = true := by decide

/-! ## compound type specifiers -/

/-- membership in a compound specifier implies `typep` of its head: the atomic law
    "coerce returns an object of the requested type" is the first half of the compound one -/
theorem member_implies_typep_head (tbl : HierTable) (o : Obs) (s : Spec) (h : member tbl o s = true) :
    typep tbl o.ty s.head = true := by
  cases s with
  | atom n => simpa [member, Spec.head] using h
  | range hd lo hi => simp only [member, Bool.and_eq_true] at h; exact h.1
  | vector e n => simp only [member, Bool.and_eq_true] at h; exact h.1
  | sized hd n => simp only [member, Bool.and_eq_true] at h; exact h.1

/-- a member of `(head lo hi)` is a number within the bounds -/
theorem member_range_bounds (tbl : HierTable) (o : Obs) (hd : String) (lo hi : Rat)
    (h : member tbl o (.range hd (.val lo) (.val hi)) = true) :
    ∃ v, o.val = some v ∧ lo ≤ v ∧ v ≤ hi := by
  simp only [member, Bool.and_eq_true] at h
  cases hv : o.val with
  | none => simp [hv] at h
  | some v =>
    refine ⟨v, rfl, ?_⟩
    simpa [hv, loOK, hiOK] using h.2

/-- widening the bounds keeps every member -/
theorem member_range_widen (tbl : HierTable) (o : Obs) (hd : String) (lo lo' hi hi' : Rat)
    (h1 : lo' ≤ lo) (h2 : hi ≤ hi') (h : member tbl o (.range hd (.val lo) (.val hi)) = true) :
    member tbl o (.range hd (.val lo') (.val hi')) = true := by
  obtain ⟨v, hv, hl, hh⟩ := member_range_bounds tbl o hd lo hi h
  simp only [member, Bool.and_eq_true] at h ⊢
  refine ⟨h.1, ?_⟩
  simp only [hv, loOK, hiOK, Bool.and_eq_true, decide_eq_true_eq]
  exact ⟨Rat.le_trans h1 hl, Rat.le_trans hh h2⟩

/-- `(head * *)` restricts nothing beyond the head -/
theorem member_range_star (tbl : HierTable) (o : Obs) (hd : String) (v : Rat) (hv : o.val = some v) :
    member tbl o (.range hd .star .star) = typep tbl o.ty hd := by
  simp [member, hv, loOK, hiOK]

/-- `coerce` to a compound specifier returns the converted object unchanged, and only when it is
    a member of the requested type -/
theorem coerceSpec_result_member (tbl : HierTable) (s : Spec) (r o : Obs)
    (h : coerceSpec tbl s r = some o) : o = r ∧ member tbl o s = true := by
  unfold coerceSpec at h
  by_cases hm : member tbl r s = true
  · rw [if_pos hm] at h
    injection h with h
    exact ⟨h.symm, by rw [← h]; exact hm⟩
  · rw [if_neg hm] at h; exact absurd h (by simp)

theorem coerceSpec_result_typep (tbl : HierTable) (s : Spec) (r o : Obs)
    (h : coerceSpec tbl s r = some o) : typep tbl o.ty s.head = true :=
  member_implies_typep_head tbl o s (coerceSpec_result_member tbl s r o h).2

/-- two-element specifiers: `subtypep` is reflexive on registered specifiers as soon as it is on
    the class names … -/
theorem specSub_refl (cls : ClassTable) (hrefl : ∀ c, registered cls c = true → subtypep cls c c = true)
    (s : TSpec) (hs : specRegistered cls s = true) : specSub cls s s = true := by
  unfold specRegistered at hs
  unfold specSub
  simp only [Bool.and_eq_true] at hs ⊢
  refine ⟨hrefl _ hs.1, ?_⟩
  cases he : s.elem with
  | none => rfl
  | some e => simp only; apply hrefl; simpa [he] using hs.2

/-- … and transitive as soon as it is on the class names -/
theorem specSub_trans (cls : ClassTable)
    (htrans : ∀ a b c, subtypep cls a b = true → subtypep cls b c = true → subtypep cls a c = true)
    (s t u : TSpec) (h1 : specSub cls s t = true) (h2 : specSub cls t u = true) : specSub cls s u = true := by
  unfold specSub at *
  simp only [Bool.and_eq_true] at *
  refine ⟨htrans _ _ _ h1.1 h2.1, ?_⟩
  cases hu : u.elem with
  | none => rfl
  | some ec =>
    have h2' := h2.2
    rw [hu] at h2'
    cases ht : t.elem with
    | none => simp [ht] at h2'
    | some eb =>
      have h1' := h1.2
      rw [ht] at h1' h2'
      cases hs : s.elem with
      | none => simp [hs] at h1'
      | some ea =>
        rw [hs] at h1'
        exact htrans _ _ _ h1' h2'

example : member [("Fixnum", ["fixnum", "integer", "t"])] ⟨"fixnum", some 12, none⟩ (.range "integer" (.val 0) (.val 15)) = true ∧
    member [("Fixnum", ["fixnum", "integer", "t"])] ⟨"fixnum", some 12, none⟩ (.range "integer" (.val 0) (.val 5)) = false ∧
    member [("SingleFloat", ["single-float", "float", "t"]), ("DoubleFloat", ["double-float", "float", "t"])]
      ⟨"double-float", some 12, none⟩ (.range "single-float" (.val 0) (.val 15)) = false := by decide

end SlipVerif.Types
