import SlipVerif.Model.LambdaImpl
import SlipVerif.Lemmas.Lambda
import SlipVerif.Lemmas.LambdaImpl
import SlipVerif.Lemmas.LambdaImplDoc
import SlipVerif.Lemmas.LambdaParse
/- C04 — the code refines the rule. `SlipVerif.LambdaImpl.call` is `Lambda.Call` of lambda.go run
   over the definitions regenerated from the source on every run (Gen/LambdaCall.lean: translated
   `requiredCount`/`isKeyParam`, guards, the two pass tables, loop facts). The theorems below are
   proved about those regenerated definitions: when lambda.go changes a table row, a comparison
   operator, a loop fact or a helper function, they are re-checked against what the code says now. -/
namespace SlipVerif.Theorems.C04Impl
open SlipVerif.Lambda SlipVerif.LambdaCode SlipVerif.LambdaImpl SlipVerif.Lemmas.LambdaImpl SlipVerif.Lemmas.Lambda
open SlipVerif.Gen

deriving instance DecidableEq for Except

/-- conditions of the machine and of the model that mean the same rejection (the two conditions for
    a malformed key tail are not told apart: which one is raised depends on where the walk stops) -/
def ErrRel : ImplErr → BindErr → Prop
  | .tooFew, .tooFew => True
  | .tooMany, .tooMany => True
  | .missingValue, .oddKeys => True
  | .missingValue, .badKey => True
  | .notKeyword, .oddKeys => True
  | .notKeyword, .badKey => True
  | _, _ => False

/-- the machine's outcome refines the model's: the same rejection, or a scope in which every
    parameter has the value the model binds it to -/
def Refines (r : Except ImplErr Vars) (b : Except BindErr (List (String × Obj))) : Prop :=
  match r, b with
  | .ok vars, .ok bs => ∀ nv ∈ bs, getVar vars nv.1 = some nv.2
  | .error e, .error e' => ErrRel e e'
  | _, _ => False

/-- membership in the positional part of a binding list -/
theorem front_values (ll : LL) (g : Good ll) (d : Distinct ll) (args : List Obj) (hR : ll.req.length ≤ args.length)
    (vs : Vars) (hvs : ∀ x a, getVar (stP ll args).vars x = some a → getVar vs x = some a)
    (hnone : ∀ p ∈ ll.opt, getVar (stP ll args).vars p.name = none → getVar vs p.name = none)
    (nv : String × Obj) (h : nv ∈ ll.req.zip args ++ bindOpt ll.opt (args.drop ll.req.length)) :
    getVar (finalVars ll vs) nv.1 = some nv.2 := by
  rcases List.mem_append.mp h with h | h
  · obtain ⟨i, hi, rfl⟩ := List.getElem_of_mem h
    have hi1 : i < ll.req.length := by simp [List.length_zip] at hi; omega
    have hi2 : i < args.length := by simp [List.length_zip] at hi; omega
    simp only [List.getElem_zip]
    exact final_bound ll vs _ _ (fun p hp e => d.req_aux ll.req[i] (List.getElem_mem _) p hp e.symm)
      (hvs _ _ (stP_req ll d args i hi1 hi2))
  · obtain ⟨j, hj, rfl⟩ := List.getElem_of_mem h
    have hj1 : j < ll.opt.length := by rw [bindOpt_length] at hj; exact hj
    have hget := bindOpt_getElem? ll.opt (args.drop ll.req.length) j
    rw [List.getElem?_eq_getElem hj, List.getElem?_eq_getElem hj1] at hget
    simp only [Option.map_some, Option.some.injEq] at hget
    rw [hget]
    simp only
    have haux : ∀ p ∈ ll.aux, p.name ≠ ll.opt[j].name :=
      fun p hp e => d.opt_aux ll.opt[j] (List.getElem_mem _) p hp e.symm
    by_cases hlt : ll.req.length + j < args.length
    · have : (args.drop ll.req.length)[j]? = some args[ll.req.length + j] := by
        rw [List.getElem?_drop, List.getElem?_eq_getElem hlt]
      rw [this]
      exact final_bound ll vs _ _ haux (hvs _ _ (stP_opt ll d args hR j hj1 hlt))
    · have : (args.drop ll.req.length)[j]? = none := by
        rw [List.getElem?_drop]; exact List.getElem?_eq_none (by omega)
      rw [this]
      simp only [Option.getD_none]
      have hf := find_here (ll.opt.map pd) (restD ll ++ keysD ll) (by rw [map_name_pd]; exact d.opt)
        (pd ll.opt[j]) (List.mem_map.mpr ⟨_, List.getElem_mem _, rfl⟩)
      have := final_default ll vs ll.opt[j].name (pd ll.opt[j]) haux
        (hnone _ (List.getElem_mem _) (stP_opt_unbound ll d args hR j hj1 (by omega))) hf
      exact this

/-- **call_refines_bind_positional** — a lambda list without `&rest` and `&key` (required,
    `&optional`, `&aux`): `Lambda.Call` as extracted rejects exactly the argument counts `bind`
    rejects, with the same condition, and otherwise binds every parameter as `bind` does. -/
theorem call_refines_bind_positional (ll : LL) (g : Good ll) (hr : ll.rest = none) (hk : ll.hasKey = false)
    (args : List Obj) : Refines (call (docOf ll) args) (bind ll args) := by
  have d := distinct_of_nodup ll g.nodup
  have hdR : dRest ll = dAux ll := by simp [dRest, dKey, hr, hk]
  have hp1 : pass1 (docOf ll) args (docOf ll) 0 {} = .ok (stP ll args) := by
    rw [pass1_prefix _ ll g, hdR]
    unfold dAux
    by_cases ha : ll.aux = []
    · simp [ha, pass1]
    · simp only [ha, if_false]
      exact pass1_stop _ _ _ _ "&aux" _ (la1_auxMarker _ (modeAfterOpt_01 ll))
  unfold call
  simp only [requiredCount_docOf ll g, LambdaCall.tooFew, LambdaCall.tooMany, LambdaCall.restLet,
    LambdaCall.startMode, LambdaCall.startAi, LambdaCall.pass2StartMode, Cmp.eval, hp1, stP_ai, (stP_rest ll args).1,
    List.length_nil, Nat.lt_irrefl, gt_iff_lt, decide_false, Bool.false_eq_true, if_false, pass2_docOf ll g]
  unfold Lambda.bind
  by_cases hfew : args.length < ll.req.length
  · simp [hfew, Refines, ErrRel]
  · by_cases hmany : ll.npos < args.length
    · have : min ll.npos args.length < args.length := by omega
      simp [hfew, hmany, this, hr, hk, Refines, ErrRel]
    · have : ¬ min ll.npos args.length < args.length := by omega
      simp only [hfew, hmany, this, hr, hk, decide_false, if_false, Option.isSome_none, Bool.not_false, Bool.and_false,
        Bool.false_eq_true, Refines, bindRest, List.append_nil]
      intro nv hnv
      rcases List.mem_append.mp hnv with h | h
      · exact front_values ll g d args (by omega) _ (fun _ _ h => h) (fun _ _ h => h) nv h
      · simp only [bindAux, List.mem_map] at h
        obtain ⟨p, hp, rfl⟩ := h
        exact final_aux ll d _ p hp


theorem isKeyParam_noKey (ll : LL) (g : Good ll) (hk : ll.hasKey = false) (k : String) :
    LambdaCall.isKeyParam (docOf ll) k = false := by
  unfold LambdaCall.isKeyParam
  rw [docOf_split, isKeyParam_loop_skip k _ (preKey_fold ll g)]
  simp only [dKey, hk, Bool.false_eq_true, if_false, List.nil_append]
  exact isKeyParam_loop_dAux ll g k false

theorem drop_min (args : List Obj) (p : Nat) : args.drop (min p args.length) = args.drop p := by
  by_cases h : p ≤ args.length
  · rw [Nat.min_eq_left h]
  · rw [Nat.min_eq_right (by omega), List.drop_eq_nil_of_le (Nat.le_refl _), List.drop_eq_nil_of_le (by omega)]

/-- **call_refines_bind_rest** — a lambda list with `&rest` and without `&key`: the `&rest`
    parameter gets all arguments after the positional ones, in order (nil when there are none);
    nothing is too many; everything else as `bind`. -/
theorem call_refines_bind_rest (ll : LL) (g : Good ll) (r : String) (hr : ll.rest = some r) (hk : ll.hasKey = false)
    (args : List Obj) : Refines (call (docOf ll) args) (bind ll args) := by
  have d := distinct_of_nodup ll g.nodup
  have hdR : dRest ll = mk "&rest" :: mk r :: dAux ll := by simp [dRest, dKey, hr, hk]
  have hai := stP_ai ll args
  have hp1 := pass1_prefix (docOf ll) ll g args
  rw [hdR, pass1_setMode _ _ _ _ 2 "&rest" _ (la1_restMarker _ (modeAfterOpt_01 ll)),
    pass1_restVar _ _ _ r _ (isKeyParam_noKey ll g hk) (by rw [hai]; omega)] at hp1
  simp only [hai, (stP_rest ll args).1, (stP_rest ll args).2, List.nil_append, if_true, drop_min] at hp1
  unfold call
  simp only [requiredCount_docOf ll g, LambdaCall.tooFew, LambdaCall.tooMany, LambdaCall.restLet,
    LambdaCall.startMode, LambdaCall.startAi, LambdaCall.pass2StartMode, Cmp.eval, hp1,
    Nat.lt_irrefl, gt_iff_lt, decide_false, Bool.false_eq_true, if_false, pass2_docOf ll g]
  unfold Lambda.bind
  by_cases hfew : args.length < ll.req.length
  · simp [hfew, Refines, ErrRel]
  · simp only [hfew, hr, hk, decide_false, if_false, Option.isSome_some, Bool.not_true, Bool.false_and,
      Bool.false_eq_true, Refines, bindRest]
    have hrr : ∀ a ∈ ll.req, a ≠ r := fun a ha e => d.req_rest a ha (by rw [hr, e])
    have hro : ∀ p ∈ ll.opt, p.name ≠ r := fun p hp e => d.opt_rest p hp (by rw [hr, e])
    have hra : ∀ p ∈ ll.aux, p.name ≠ r := fun p hp e => d.rest_aux p hp (by rw [hr, e])
    have hunb : getVar (stP ll args).vars r = none := stP_other ll args r hrr hro
    intro nv hnv
    by_cases hmore : ll.npos < args.length
    · have hlen : 0 < (args.drop ll.npos).length := by simp; omega
      have hmin : min ll.npos args.length < args.length := by omega
      simp only [hlen, hmin, decide_true, if_true] at hnv ⊢
      rcases List.mem_append.mp hnv with h | h
      · rcases List.mem_append.mp h with h | h
        · refine front_values ll g d args (by omega) _ ?_ ?_ nv h
          · intro x a hx
            by_cases e : r = x
            · subst e; rw [hunb] at hx; cases hx
            · simp [e, hx]
          · intro p hp hx
            simp [hx, (hro p hp).symm]
        · simp only [List.mem_singleton] at h
          subst h
          exact final_bound ll _ _ _ hra (by simp)
      · simp only [bindAux, List.mem_map] at h
        obtain ⟨p, hp, rfl⟩ := h
        exact final_aux ll d _ p hp
    · have hlen : ¬ 0 < (args.drop ll.npos).length := by simp; omega
      simp only [hlen, decide_false, Bool.false_eq_true, if_false] at hnv ⊢
      rcases List.mem_append.mp hnv with h | h
      · rcases List.mem_append.mp h with h | h
        · exact front_values ll g d args (by omega) _ (fun _ _ h => h) (fun _ _ h => h) nv h
        · simp only [List.mem_singleton] at h
          subst h
          have hnil : args.drop ll.npos = [] := List.drop_eq_nil_of_le (by omega)
          have hf : (ll.opt.map pd ++ (restD ll ++ keysD ll)).find? (fun q => q.name = r) = some (mk r) := by
            rw [find_skip _ _ r (by intro q hq; obtain ⟨p, hp, rfl⟩ := List.mem_map.mp hq; exact hro p hp)]
            simp [restD, hr, List.find?, mk]
          have := final_default ll _ r (mk r) hra hunb hf
          simp only [hnil, Obj.ofList]
          exact this
      · simp only [bindAux, List.mem_map] at h
        obtain ⟨p, hp, rfl⟩ := h
        exact final_aux ll d _ p hp


theorem keyPairs_err_kind : ∀ (t : List Obj) (e : BindErr), keyPairs t = .error e → e = .oddKeys ∨ e = .badKey
  | [], e, h => by simp [keyPairs] at h
  | [a], e, h => by simp [keyPairs] at h; exact Or.inl h.symm
  | a :: v :: rest, e, h => by
    cases a with
    | kw k =>
      simp only [keyPairs] at h
      cases hr : keyPairs rest with
      | ok ps => simp [hr] at h
      | error e2 =>
        simp [hr] at h
        subst h
        exact keyPairs_err_kind rest e2 hr
    | nil => simp [keyPairs] at h; exact Or.inr h.symm
    | int i => simp [keyPairs] at h; exact Or.inr h.symm
    | sym s => simp [keyPairs] at h; exact Or.inr h.symm
    | str s => simp [keyPairs] at h; exact Or.inr h.symm
    | cons x y => simp [keyPairs] at h; exact Or.inr h.symm

theorem flatKV_length (ps : List (String × Obj)) : (flatKV ps).length = 2 * ps.length := by
  induction ps with
  | nil => rfl
  | cons p ps ih => obtain ⟨k, v⟩ := p; simp [flatKV, ih]; omega

/-- **call_refines_bind_key** — a lambda list with `&key` and without `&rest`: the key tail is
    walked in pairs; a missing value or a non-keyword in key position is rejected; every key
    parameter gets the value of the first pair with its keyword, else its default; keywords that
    name no key parameter bind nothing (slip: "the default and only option if &key is included is
    for :allow-other-keys to be true", hence `aok := true` on the model side). -/
theorem call_refines_bind_key (ll : LL) (g : Good ll) (hr : ll.rest = none) (hk : ll.hasKey = true)
    (args : List Obj) : Refines (call (docOf ll) args) (bind { ll with aok := true } args) := by
  have d := distinct_of_nodup ll g.nodup
  obtain ⟨ad, ds, hne⟩ : ∃ ad ds, (ll.keys.map pd ++ dAok ll) ++ dAux ll = ad :: ds := by
    rcases g.keyNonEmpty hk with h | h
    · cases hkk : ll.keys with
      | nil => exact absurd hkk h
      | cons p ps => exact ⟨pd p, ps.map pd ++ (dAok ll ++ dAux ll), by simp⟩
    · cases hkk : ll.keys with
      | nil => exact ⟨mk "&allow-other-keys", dAux ll, by simp [dAok, h]⟩
      | cons p ps => exact ⟨pd p, ps.map pd ++ (dAok ll ++ dAux ll), by simp⟩
  have hdR : dRest ll = mk "&key" :: ad :: ds := by
    simp only [dRest, dKey, hr, hk, if_true, List.nil_append, List.cons_append, ← hne, List.append_assoc]
  have hai := stP_ai ll args
  have hp1 := pass1_prefix (docOf ll) ll g args
  rw [hdR, pass1_setMode _ _ _ _ 3 "&key" _ (la1_keyMarker _ (modeAfterOpt_01 ll)),
    pass1_keys _ _ _ _ _ (by rw [hai]; omega), hai, drop_min] at hp1
  unfold call
  simp only [requiredCount_docOf ll g, LambdaCall.tooFew, LambdaCall.tooMany, LambdaCall.restLet,
    LambdaCall.startMode, LambdaCall.startAi, LambdaCall.pass2StartMode, Cmp.eval, hp1]
  unfold Lambda.bind
  by_cases hfew : args.length < ll.req.length
  · simp [hfew, Refines, ErrRel]
  · simp only [hfew, hr, hk, decide_false, if_false, if_true, Option.isSome_none, Bool.not_false, Bool.not_true,
      Bool.and_false, Bool.false_and, Bool.false_eq_true, bindRest, List.append_nil, bindKeys, Bool.true_or]
    simp only [LL.npos] at hai hp1 ⊢
    cases hkp : keyPairs (args.drop (ll.req.length + ll.opt.length)) with
    | error e =>
      obtain ⟨e', he', hkind⟩ := klSpec_err (docOf ll) _ (stP ll args) e hkp
      simp only [he', Refines]
      rcases keyPairs_err_kind _ e hkp with rfl | rfl <;> rcases hkind with rfl | rfl <;> trivial
    | ok ps =>
      have hflat := keyPairs_flatKV _ ps hkp
      have hlen : min (ll.req.length + ll.opt.length) args.length + 2 * ps.length = args.length := by
        have := congrArg List.length hflat
        rw [flatKV_length, List.length_drop] at this
        by_cases h : ll.req.length + ll.opt.length ≤ args.length
        · rw [Nat.min_eq_left h]; omega
        · rw [Nat.min_eq_right (by omega)]; omega
      rw [hflat, klSpec_flat]
      simp only [hai, hlen]
      rw [pass1_exhausted _ _ _ _ _ (by simp)]
      simp only [(stP_rest ll args).1, List.length_nil, Nat.lt_irrefl, gt_iff_lt, decide_false, Bool.false_eq_true,
        if_false, pass2_docOf ll g, Refines]
      intro nv hnv
      have hreqk : ∀ p ∈ ll.keys, ∀ a ∈ ll.req, a ≠ p.name := fun p hp a ha => d.req_keys a ha p hp
      rcases List.mem_append.mp hnv with h | h
      · rcases List.mem_append.mp h with h | h
        · refine front_values ll g d args (by omega) _ ?_ ?_ nv h
          · intro x a hx
            rw [getVar_bindPairs, hx]
          · intro p hp hx
            rw [getVar_bindPairs, hx]
            simp only
            rw [isKeyParam_docOf ll g p.name (g.opt p hp)]
            have : knownKey ll p.name = false := by
              simp only [knownKey, List.any_eq_false, decide_eq_true_eq]
              intro q hq e
              exact d.opt_keys p hp q hq e.symm
            simp [this]
        · simp only [List.mem_map] at h
          obtain ⟨p, hp, rfl⟩ := h
          have haux : ∀ q ∈ ll.aux, q.name ≠ p.name := fun q hq e => d.keys_aux p hp q hq e.symm
          have hunb : getVar (stP ll args).vars p.name = none :=
            stP_other ll args p.name (hreqk p hp) (fun q hq e => d.opt_keys q hq p hp e)
          have hknown : knownKey ll p.name = true := by
            simp only [knownKey, List.any_eq_true, decide_eq_true_eq]
            exact ⟨p, hp, rfl⟩
          have hv : getVar (bindPairs (docOf ll) ps (stP ll args).vars) p.name = firstVal p.name ps := by
            rw [getVar_bindPairs, hunb]
            simp [isKeyParam_docOf ll g p.name (g.keys p hp), hknown]
          unfold bindKey
          cases hfv : firstVal p.name ps with
          | some v =>
            simp only
            exact final_bound ll _ _ _ haux (by rw [hv, hfv])
          | none =>
            simp only
            have hf : (ll.opt.map pd ++ (restD ll ++ keysD ll)).find? (fun q => q.name = p.name) = some (pd p) := by
              rw [find_skip _ _ p.name (by
                intro q hq; obtain ⟨o, ho, rfl⟩ := List.mem_map.mp hq; exact d.opt_keys o ho p hp)]
              simp only [restD, hr, List.nil_append, keysD, hk, if_true]
              exact find_here (ll.keys.map pd) (dAok ll) (by rw [map_name_pd]; exact d.keys) (pd p)
                (List.mem_map.mpr ⟨p, hp, rfl⟩)
            exact final_default ll _ p.name (pd p) haux (by rw [hv, hfv]) hf
      · simp only [bindAux, List.mem_map] at h
        obtain ⟨p, hp, rfl⟩ := h
        exact final_aux ll d _ p hp

/-- **call_refines_bind** — `Lambda.Call` of lambda.go, as extracted on this run, refines the
    language-rule model for every lambda list that does not combine `&rest` with `&key` (that
    combination is the listed deviation, see `call_rest_key_split`) and every argument list. -/
theorem call_refines_bind (ll : LL) (g : Good ll) (hsplit : ll.rest = none ∨ ll.hasKey = false) (args : List Obj) :
    Refines (call (docOf ll) args) (bind { ll with aok := true } args) := by
  rcases Bool.eq_false_or_eq_true ll.hasKey with hk | hk
  · rcases hsplit with h | h
    · exact call_refines_bind_key ll g h hk args
    · rw [hk] at h; cases h
  · have hb : bind { ll with aok := true } args = bind ll args := by
      unfold Lambda.bind
      simp only [hk, LL.npos]
      rfl
    rw [hb]
    cases hr : ll.rest with
    | none => exact call_refines_bind_positional ll g hr hk args
    | some r => exact call_refines_bind_rest ll g r hr hk args


/-! ### `&rest` together with `&key`: the listed deviation, as a theorem about the code -/

def isKnownKw (ll : LL) : Obj → Bool
  | .kw k => knownKey ll k
  | _ => false

/-- what slip does with `&rest r &key …` (findings/C04.json `lambda shape=rest+key
    aspect=rest-split-at-first-known-key`, pinned by test/dynamic_test.go): the arguments after the
    positional parameters are cut in front of the first keyword — at any position — that names a key
    parameter; `r` gets the part before the cut, the part from the cut on is the key tail. -/
def splitBind (ll : LL) (r : String) (args : List Obj) : Except BindErr (List (String × Obj)) :=
  if args.length < ll.req.length then .error .tooFew
  else
    match keyPairs ((args.drop ll.npos).dropWhile (fun a => !isKnownKw ll a)) with
    | .error e => .error e
    | .ok ps =>
      .ok (ll.req.zip args ++ bindOpt ll.opt (args.drop ll.req.length)
            ++ [(r, Obj.ofList ((args.drop ll.npos).takeWhile (fun a => !isKnownKw ll a)))]
            ++ ll.keys.map (bindKey ps) ++ bindAux ll.aux)

theorem takeWhile_congr_mem {α} (p q : α → Bool) (l : List α) (h : ∀ a ∈ l, p a = q a) :
    l.takeWhile p = l.takeWhile q ∧ l.dropWhile p = l.dropWhile q := by
  induction l with
  | nil => exact ⟨rfl, rfl⟩
  | cons a l ih =>
    have ha := h a (by simp)
    have := ih (fun b hb => h b (by simp [hb]))
    simp only [List.takeWhile, List.dropWhile, ha]
    cases q a <;> simp [this.1, this.2]

theorem length_takeWhile_le_len {α} (p : α → Bool) (l : List α) : (l.takeWhile p).length ≤ l.length := by
  induction l with
  | nil => simp
  | cons a l ih =>
    simp only [List.takeWhile]
    cases p a <;> simp <;> omega

theorem dropWhile_eq_drop {α} (p : α → Bool) (l : List α) : l.dropWhile p = l.drop (l.takeWhile p).length := by
  induction l with
  | nil => rfl
  | cons a l ih =>
    simp only [List.takeWhile, List.dropWhile]
    cases p a <;> simp [ih]

theorem pass1_restStep (doc : List DocArg) (args : List Obj) (r : String) (ds : List DocArg) (st : St)
    (hle : st.ai ≤ args.length) :
    pass1 doc args (mk r :: ds) 2 st =
      pass1 doc args ds (restLoop doc args r 2 (args.length + 1) st).2 (restLoop doc args r 2 (args.length + 1) st).1 := by
  by_cases he : args.length ≤ st.ai
  · rw [pass1_exhausted doc args _ 2 st he]
    have hd : args.drop st.ai = [] := List.drop_eq_nil_of_le he
    rw [restLoop_split doc args r 2 _ st (by omega) hle]
    simp only [hd, List.takeWhile_nil, List.length_nil, Nat.add_zero, List.append_nil, if_true]
    exact (pass1_exhausted doc args ds 2 _ he).symm
  · simp [pass1, LambdaCall.loopExit, Cmp.eval, he, mk, la1_rest]

/-- **call_rest_key_split** — for a lambda list with both `&rest` and `&key` the extracted
    `Lambda.Call` computes exactly the listed split rule (`splitBind`), for every argument list
    whose keywords are ordinary lower-case names. Together with the correspondence run (slip =
    machine on every case inside this construct) this pins the known finding to one rule. -/
theorem call_rest_key_split (ll : LL) (g : Good ll) (r : String) (hr : ll.rest = some r) (hk : ll.hasKey = true)
    (args : List Obj) (hargs : ∀ k, Obj.kw k ∈ args → Plain k) :
    Refines (call (docOf ll) args) (splitBind ll r args) := by
  have d := distinct_of_nodup ll g.nodup
  obtain ⟨ad, ds, hne⟩ : ∃ ad ds, (ll.keys.map pd ++ dAok ll) ++ dAux ll = ad :: ds := by
    rcases g.keyNonEmpty hk with h | h
    · cases hkk : ll.keys with
      | nil => exact absurd hkk h
      | cons p ps => exact ⟨pd p, ps.map pd ++ (dAok ll ++ dAux ll), by simp⟩
    · cases hkk : ll.keys with
      | nil => exact ⟨mk "&allow-other-keys", dAux ll, by simp [dAok, h]⟩
      | cons p ps => exact ⟨pd p, ps.map pd ++ (dAok ll ++ dAux ll), by simp⟩
  have hdR : dRest ll = mk "&rest" :: mk r :: mk "&key" :: ad :: ds := by
    simp only [dRest, dKey, hr, hk, if_true, List.cons_append, List.nil_append, ← hne, List.append_assoc]
  have hai := stP_ai ll args
  -- the predicate of the loop is the predicate of the rule on the arguments of this call
  have hpred : ∀ a ∈ args.drop ll.npos, (!stopAt (docOf ll) a) = (!isKnownKw ll a) := by
    intro a ha
    have hmem : a ∈ args := List.mem_of_mem_drop ha
    cases a with
    | kw k => simp only [stopAt, isKnownKw, isKeyParam_docOf ll g k (hargs k hmem)]
    | nil => rfl
    | int i => rfl
    | sym x => rfl
    | str x => rfl
    | cons x y => rfl
  have htw := takeWhile_congr_mem _ _ _ hpred
  -- first pass
  have hp1 := pass1_prefix (docOf ll) ll g args
  rw [hdR, pass1_setMode _ _ _ _ 2 "&rest" _ (la1_restMarker _ (modeAfterOpt_01 ll)),
    pass1_restStep _ _ _ _ _ (by rw [hai]; omega),
    restLoop_split _ _ _ _ _ _ (by omega) (by rw [hai]; omega)] at hp1
  simp only [hai, drop_min, (stP_rest ll args).1, (stP_rest ll args).2, List.nil_append, if_true, htw.1] at hp1
  generalize hbefore : (args.drop ll.npos).takeWhile (fun a => !isKnownKw ll a) = before at hp1
  have hafter : (args.drop ll.npos).dropWhile (fun a => !isKnownKw ll a)
      = args.drop (min ll.npos args.length + before.length) := by
    rw [dropWhile_eq_drop, hbefore, ← drop_min args ll.npos, List.drop_drop]
  have hblen : min ll.npos args.length + before.length ≤ args.length := by
    have : before.length ≤ (args.drop ll.npos).length := by
      rw [← hbefore]; exact length_takeWhile_le_len _ _
    rw [List.length_drop] at this
    by_cases h : ll.npos ≤ args.length
    · rw [Nat.min_eq_left h]; omega
    · rw [Nat.min_eq_right (by omega)]; omega
  -- the step at `&key`: the key loop, or nothing when the arguments are used up
  have hkeystep : ∀ (m : Nat) (st : St), st.ai = min ll.npos args.length + before.length →
      (m = 3 ∨ args.length ≤ st.ai) →
      pass1 (docOf ll) args (mk "&key" :: ad :: ds) m st =
        match klSpec (docOf ll) (args.drop st.ai) st with
        | .ok st' => pass1 (docOf ll) args (ad :: ds) 3 st'
        | .error e => .error e := by
    intro m st hst hm
    rcases hm with rfl | hex
    · exact pass1_keys _ _ _ _ _ (by rw [hst]; exact hblen)
    · rw [pass1_exhausted _ _ _ _ _ hex, List.drop_eq_nil_of_le hex]
      simp only [klSpec]
      rw [pass1_exhausted _ _ _ _ _ hex]
  rw [hkeystep _ _ rfl (by
    by_cases hall : before.length = (args.drop ll.npos).length
    · right
      rw [List.length_drop] at hall
      simp only
      by_cases h : ll.npos ≤ args.length
      · rw [Nat.min_eq_left h]; omega
      · rw [Nat.min_eq_right (by omega)]; omega
    · left; simp only [hall, if_false])] at hp1
  simp only at hp1
  unfold call splitBind
  simp only [requiredCount_docOf ll g, LambdaCall.tooFew, LambdaCall.tooMany, LambdaCall.restLet,
    LambdaCall.startMode, LambdaCall.startAi, LambdaCall.pass2StartMode, Cmp.eval, hp1]
  by_cases hfew : args.length < ll.req.length
  · simp [hfew, Refines, ErrRel]
  · simp only [hfew, decide_false, if_false, Bool.false_eq_true, hbefore, hafter]
    cases hkp : keyPairs (args.drop (min ll.npos args.length + before.length)) with
    | error e =>
      obtain ⟨e', he', hkind⟩ := klSpec_err (docOf ll) _
        ({ ai := min ll.npos args.length + before.length, vars := (stP ll args).vars, rest := before,
           restSym := if before = [] then "" else r } : St) e hkp
      simp only [he', Refines]
      rcases keyPairs_err_kind _ e hkp with rfl | rfl <;> rcases hkind with rfl | rfl <;> trivial
    | ok ps =>
      have hflat := keyPairs_flatKV _ ps hkp
      have hlen : min ll.npos args.length + before.length + 2 * ps.length = args.length := by
        have := congrArg List.length hflat
        rw [flatKV_length, List.length_drop] at this
        omega
      rw [hflat, klSpec_flat]
      simp only [hlen]
      rw [pass1_exhausted _ _ _ _ _ (by simp)]
      simp only [Nat.lt_irrefl, gt_iff_lt, decide_false, Bool.false_eq_true, if_false, pass2_docOf ll g, Refines]
      have hrr : ∀ a ∈ ll.req, a ≠ r := fun a ha e => d.req_rest a ha (by rw [hr, e])
      have hro : ∀ p ∈ ll.opt, p.name ≠ r := fun p hp e => d.opt_rest p hp (by rw [hr, e])
      have hrk : ∀ p ∈ ll.keys, p.name ≠ r := fun p hp e => d.rest_keys p hp (by rw [hr, e])
      have hra : ∀ p ∈ ll.aux, p.name ≠ r := fun p hp e => d.rest_aux p hp (by rw [hr, e])
      have hreqk : ∀ p ∈ ll.keys, ∀ a ∈ ll.req, a ≠ p.name := fun p hp a ha => d.req_keys a ha p hp
      have hPr : Plain r := g.rest r hr
      have hunbR : getVar (bindPairs (docOf ll) ps (stP ll args).vars) r = none := by
        rw [getVar_bindPairs, stP_other ll args r hrr hro]
        simp only
        rw [isKeyParam_docOf ll g r hPr]
        have : knownKey ll r = false := by
          simp only [knownKey, List.any_eq_false, decide_eq_true_eq]
          exact fun q hq => hrk q hq
        simp [this]
      -- the bindings after the first pass, with or without the &rest variable
      generalize hv1 : (if decide (0 < before.length) = true then
          letVar (bindPairs (docOf ll) ps (stP ll args).vars) (if before = [] then "" else r) (Obj.ofList before)
        else bindPairs (docOf ll) ps (stP ll args).vars) = vars1
      have hother : ∀ x, x ≠ r → getVar vars1 x = getVar (bindPairs (docOf ll) ps (stP ll args).vars) x := by
        intro x hx
        rw [← hv1]
        by_cases hb : 0 < before.length
        · have hne : before ≠ [] := by intro e; simp [e] at hb
          simp [hb, hne, Ne.symm hx]
        · simp [hb]
      intro nv hnv
      rcases List.mem_append.mp hnv with h | h
      · rcases List.mem_append.mp h with h | h
        · rcases List.mem_append.mp h with h | h
          · refine front_values ll g d args (by omega) _ ?_ ?_ nv h
            · intro x a hx
              have hxr : x ≠ r := by
                intro e; subst e; rw [stP_other ll args _ hrr hro] at hx; cases hx
              rw [hother x hxr, getVar_bindPairs, hx]
            · intro p hp hx
              rw [hother _ (hro p hp), getVar_bindPairs, hx]
              simp only
              rw [isKeyParam_docOf ll g p.name (g.opt p hp)]
              have : knownKey ll p.name = false := by
                simp only [knownKey, List.any_eq_false, decide_eq_true_eq]
                intro q hq e
                exact d.opt_keys p hp q hq e.symm
              simp [this]
          · simp only [List.mem_singleton] at h
            subst h
            by_cases hb : 0 < before.length
            · have hne : before ≠ [] := by intro e; simp [e] at hb
              refine final_bound ll _ _ _ hra ?_
              rw [← hv1]
              simp [hb, hne]
            · have hnil : before = [] := by
                cases before with
                | nil => rfl
                | cons a l => simp at hb
              have hf : (ll.opt.map pd ++ (restD ll ++ keysD ll)).find? (fun q => q.name = r) = some (mk r) := by
                rw [find_skip _ _ r (by intro q hq; obtain ⟨p, hp, rfl⟩ := List.mem_map.mp hq; exact hro p hp)]
                simp [restD, hr, List.find?, mk]
              have hvr : getVar vars1 r = none := by
                rw [← hv1]; simp only [hb, if_false]; exact hunbR
              have := final_default ll vars1 r (mk r) hra hvr hf
              simp only [hnil, Obj.ofList]
              exact this
        · simp only [List.mem_map] at h
          obtain ⟨p, hp, rfl⟩ := h
          have haux : ∀ q ∈ ll.aux, q.name ≠ p.name := fun q hq e => d.keys_aux p hp q hq e.symm
          have hunb : getVar (stP ll args).vars p.name = none :=
            stP_other ll args p.name (hreqk p hp) (fun q hq e => d.opt_keys q hq p hp e)
          have hknown : knownKey ll p.name = true := by
            simp only [knownKey, List.any_eq_true, decide_eq_true_eq]
            exact ⟨p, hp, rfl⟩
          have hv : getVar vars1 p.name = firstVal p.name ps := by
            rw [hother _ (hrk p hp), getVar_bindPairs, hunb]
            simp [isKeyParam_docOf ll g p.name (g.keys p hp), hknown]
          unfold bindKey
          cases hfv : firstVal p.name ps with
          | some v =>
            simp only
            exact final_bound ll _ _ _ haux (by rw [hv, hfv])
          | none =>
            simp only
            have hf : (ll.opt.map pd ++ (restD ll ++ keysD ll)).find? (fun q => q.name = p.name) = some (pd p) := by
              rw [find_skip _ _ p.name (by
                intro q hq; obtain ⟨o, ho, rfl⟩ := List.mem_map.mp hq; exact d.opt_keys o ho p hp)]
              simp only [restD, hr]
              rw [find_skip _ _ p.name (by
                intro q hq; simp only [List.mem_singleton] at hq; subst hq; exact (hrk p hp).symm)]
              simp only [keysD, hk, if_true]
              exact find_here (ll.keys.map pd) (dAok ll) (by rw [map_name_pd]; exact d.keys) (pd p)
                (List.mem_map.mpr ⟨p, hp, rfl⟩)
            exact final_default ll _ p.name (pd p) haux (by rw [hv, hfv]) hf
      · simp only [bindAux, List.mem_map] at h
        obtain ⟨p, hp, rfl⟩ := h
        exact final_aux ll d _ p hp

example : call (docOf { req := ["a"], rest := some "r", hasKey := true, keys := [{ name := "k" }] })
            [.int 1, .int 2, .kw "zz", .kw "k", .int 3, .kw "k", .int 4]
          = .ok [("r", Obj.ofList [.int 2, .kw "zz"]), ("k", .int 3), ("a", .int 1)] := by decide

/-- the hypotheses are satisfiable by an ordinary lambda list (every kind but `&rest`) -/
example : Good { req := ["a"], opt := [{ name := "b", default := .int 5 }], hasKey := true,
                 keys := [{ name := "k" }], aux := [{ name := "x", default := .int 9 }] } := by
  constructor <;> simp [Plain, allNames, isForm] <;> decide

example : call (docOf { req := ["a"], opt := [{ name := "b", default := .int 5 }], hasKey := true,
                        keys := [{ name := "k" }], aux := [{ name := "x", default := .int 9 }] })
            [.int 1, .int 2, .kw "zz", .int 0, .kw "k", .int 3, .kw "k", .int 4]
          = .ok [("x", .int 9), ("k", .int 3), ("b", .int 2), ("a", .int 1)] := by decide

/-! ### DefLambda: the documented list of a written lambda list -/

theorem docArgOf_sym (n : String) : docArgOf (.sym n) = .ok (mk n) := rfl

theorem docArgOf_param (p : Param) :
    docArgOf (SlipVerif.Lemmas.LambdaParse.renderParam p) = .ok (pd p) := by
  unfold SlipVerif.Lemmas.LambdaParse.renderParam
  by_cases h : p.default = .nil
  · simp [h, docArgOf, pd]
  · simp [h, docArgOf, pd]

theorem docArgsOf_append (xs ys : List Obj) (a b : List DocArg)
    (h1 : docArgsOf xs = .ok a) (h2 : docArgsOf ys = .ok b) : docArgsOf (xs ++ ys) = .ok (a ++ b) := by
  induction xs generalizing a with
  | nil => simp [docArgsOf] at h1; subst h1; simpa using h2
  | cons x xs ih =>
    simp only [docArgsOf] at h1
    cases hx : docArgOf x with
    | error e => simp [hx] at h1
    | ok dx =>
      cases hxs : docArgsOf xs with
      | error e => simp [hx, hxs] at h1
      | ok dxs =>
        simp [hx, hxs] at h1
        subst h1
        simp [docArgsOf, hx, ih dxs hxs]

theorem docArgsOf_syms (ns : List String) : docArgsOf (ns.map Obj.sym) = .ok (ns.map mk) := by
  induction ns with
  | nil => rfl
  | cons n ns ih => simp [docArgsOf, docArgOf_sym, ih]

theorem docArgsOf_params (ps : List Param) :
    docArgsOf (ps.map SlipVerif.Lemmas.LambdaParse.renderParam) = .ok (ps.map pd) := by
  induction ps with
  | nil => rfl
  | cons p ps ih => simp [docArgsOf, docArgOf_param, ih]

theorem docArgsOf_marker (m : String) (es : List Obj) (ds : List DocArg) (h : docArgsOf es = .ok ds) :
    docArgsOf (.sym m :: es) = .ok (mk m :: ds) := by
  simp [docArgsOf, docArgOf_sym, h]

/-- **defLambda_render** — `DefLambda` (symbol → name, `(symbol default)` → name with the default
    stored as written, `(symbol nil)` like `symbol`) turns the written form of a lambda list into
    exactly the documented list the refinement theorems are about. -/
theorem defLambda_render (ll : LL) :
    defLambda (Obj.ofList (SlipVerif.Lemmas.LambdaParse.render ll)) = .ok (docOf ll) := by
  unfold defLambda
  rw [SlipVerif.Lemmas.LambdaParse.toList?_ofList]
  simp only
  unfold SlipVerif.Lemmas.LambdaParse.render docOf
  rw [List.append_assoc]
  apply docArgsOf_append _ _ _ _ (docArgsOf_syms ll.req)
  apply docArgsOf_append
  · unfold dOpt
    by_cases ho : ll.opt = []
    · simp [ho, docArgsOf]
    · simp only [ho, if_false]
      exact docArgsOf_marker _ _ _ (docArgsOf_params ll.opt)
  · unfold SlipVerif.Lemmas.LambdaParse.rRest dRest
    apply docArgsOf_append
    · cases ll.rest with
      | none => rfl
      | some r => rfl
    · unfold SlipVerif.Lemmas.LambdaParse.rKey dKey
      apply docArgsOf_append
      · cases ll.hasKey with
        | false => rfl
        | true =>
          simp only [if_true]
          apply docArgsOf_marker
          apply docArgsOf_append _ _ _ _ (docArgsOf_params ll.keys)
          unfold dAok
          cases ll.aok <;> rfl
      · unfold SlipVerif.Lemmas.LambdaParse.rAux dAux
        by_cases ha : ll.aux = []
        · simp [ha, docArgsOf]
        · simp only [ha, if_false]
          exact docArgsOf_marker _ _ _ (docArgsOf_params ll.aux)

/-- through DefLambda: the written lambda list, parsed by the model and stored by `DefLambda`,
    bound by the model and by the extracted `Lambda.Call`, agree -/
theorem written_call_refines_bind (ll : LL) (g : Good ll) (hsplit : ll.rest = none ∨ ll.hasKey = false)
    (args : List Obj) :
    ∃ doc, defLambda (Obj.ofList (SlipVerif.Lemmas.LambdaParse.render ll)) = .ok doc ∧
      Refines (call doc args) (bind { ll with aok := true } args) :=
  ⟨docOf ll, defLambda_render ll, call_refines_bind ll g hsplit args⟩

end SlipVerif.Theorems.C04Impl
