import SlipVerif.Gen.SeqKeywords
import SlipVerif.Gen.SeqLoops
import SlipVerif.Gen.SeqAlias
import SlipVerif.Theorems.C14Go
/-
  C14 — obligations over what `/verif/extract` regenerates from pkg/cl/*.go on every run.

  1. `Gen/SeqKeywords.lean` (extract/seqkw.go): file ↦ keyword literals accepted by its argument parser.
     Every keyword the model gives a function is accepted by the parser that function uses.
  2. `Gen/SeqLoops.lean` (extract/seqloops.go, a translator of the integer control skeleton of the scan
     loops): for every loop of delete(-if), delete-duplicates, count(-if), substitute(-if),
     position(-if), find(-if) on lists, strings and octets — first index, continuation test, step,
     keep-guard, branch (`:from-end` or not), reversal; the end defaulting statement; the window
     re-slicing of position / find and the index they answer; the argument order of every call of
     the `:test` function / predicate; the `sort.` function behind sort / stable-sort; the merge step;
     the defaults of the shared keyword parser and its acceptance test for `:start` / `:end`.
     The obligations say that each extracted skeleton is extensionally the reference skeleton
     (`GoLoop.IsDeleteFwd` … of Model/SeqGo.lean; comparisons are proved by `omega`, so `a <= b`
     rewritten as `!(b < a)` or a reordered disjunction stays silent, `<=` turned into `<` does not),
     uniformly for the list, string and octets branches, and instantiate the refinement theorems of
     Theorems/C14Go.lean with the extracted skeletons: the loops the code contains now compute
     `remove`, `count` and `position` for all in-range bounds, counts and both directions.

  3. `Gen/SeqAlias.lean` (extract/seqalias.go, a may-alias analysis over go/ast): the stores `x[i] = …`,
     `x.Set(…)`, `copy(x, …)`, `append(x[:k], …)`, `append(x, …)` whose target `x` may be storage of an
     argument, in the files of the functions that must not modify their arguments (the delete* loops are
     included because remove* shares them by embedding). The table must be empty: the model's functions are
     functions of their arguments, and the harness compares the arguments after every call of these functions.

  `:test-not` is required only where slip accepts it (the shared parser after fix 0013); its absence
  elsewhere is recorded as known findings (family=… keyword=test-not) and checked by the harness.
  A failure to build this module is reported as a broken proof obligation and the harness searches
  for a failing input.
-/
namespace SlipVerif.Seq.Gen
open SlipVerif.Gen.SeqKeywords

/-- parser file ↦ keywords the model's functions of that file take -/
def required : List (String × List String) := [
  ("seqfunvars.go", [":key", ":test", ":test-not", ":start", ":end", ":count", ":from-end"]),
  ("substitute.go", [":key", ":test", ":start", ":end", ":count", ":from-end"]),
  ("substitute-if.go", [":key", ":start", ":end", ":count", ":from-end"]),
  ("member.go", [":key", ":test"]),
  ("assoc.go", [":key", ":test"]),
  ("rassoc.go", [":key", ":test"]),
  ("search.go", [":key", ":test", ":start1", ":end1", ":start2", ":end2", ":from-end"]),
  ("mismatch.go", [":key", ":test", ":start1", ":end1", ":start2", ":end2", ":from-end"]),
  ("replace.go", [":start1", ":end1", ":start2", ":end2"]),
  ("fill.go", [":start", ":end"]),
  ("sort.go", [":key"]),
  ("stable-sort.go", [":key"]),
  ("merge.go", [":key"]),
  ("reduce.go", [":key", ":start", ":end", ":from-end", ":initial-value"]),
  ("set-difference.go", [":key", ":test"]),
  ("subsetp.go", [":key", ":test"])
]

def acceptedBy (file : String) : List String :=
  match accepted.lookup file with
  | some ks => ks
  | none => []

def covered : Bool :=
  required.all (fun fk => fk.2.all (fun k => (acceptedBy fk.1).contains k))

/-- every keyword the model gives a function is accepted by that function's parser in the code -/
theorem parsers_accept_model_keywords : covered = true := by decide

/-! ### three-way agreement per function: documented lambda list / keywords the code reads / keywords of the model -/

/-- function ↦ (the parser that reads its keywords, the keywords the model gives it (`Kw` and the
    bounds of the two-sequence functions; the harness generates exactly these)) -/
def modelKeywords : List (String × String × List String) := [
  ("find", "setKeysItem", [":key", ":test", ":test-not", ":start", ":end", ":from-end"]),
  ("position", "setKeysItem", [":key", ":test", ":test-not", ":start", ":end", ":from-end"]),
  ("count", "setKeysItem", [":key", ":test", ":test-not", ":start", ":end", ":from-end"]),
  ("remove", "setKeysItem", [":key", ":test", ":test-not", ":start", ":end", ":from-end", ":count"]),
  ("delete", "setKeysItem", [":key", ":test", ":test-not", ":start", ":end", ":from-end", ":count"]),
  ("remove-duplicates", "setKeysItem", [":key", ":test", ":start", ":end", ":from-end"]),
  ("delete-duplicates", "setKeysItem", [":key", ":test", ":start", ":end", ":from-end"]),
  ("find-if", "setKeysIf", [":key", ":start", ":end", ":from-end"]),
  ("position-if", "setKeysIf", [":key", ":start", ":end", ":from-end"]),
  ("count-if", "setKeysIf", [":key", ":start", ":end", ":from-end"]),
  ("remove-if", "setKeysIf", [":key", ":start", ":end", ":from-end", ":count"]),
  ("delete-if", "setKeysIf", [":key", ":start", ":end", ":from-end", ":count"]),
  ("substitute", "substitute.go", [":key", ":test", ":start", ":end", ":from-end", ":count"]),
  ("nsubstitute", "substitute.go", [":key", ":test", ":start", ":end", ":from-end", ":count"]),
  ("substitute-if", "substitute-if.go", [":key", ":start", ":end", ":from-end", ":count"]),
  ("nsubstitute-if", "substitute-if.go", [":key", ":start", ":end", ":from-end", ":count"]),
  ("member", "member.go", [":key", ":test"]),
  ("assoc", "assoc.go", [":key", ":test"]),
  ("rassoc", "rassoc.go", [":key", ":test"]),
  ("search", "search.go", [":key", ":test", ":start1", ":end1", ":start2", ":end2", ":from-end"]),
  ("mismatch", "mismatch.go", [":key", ":test", ":start1", ":end1", ":start2", ":end2", ":from-end"]),
  ("replace", "replace.go", [":start1", ":end1", ":start2", ":end2"]),
  ("fill", "fill.go", [":start", ":end"]),
  ("sort", "sort.go", [":key"]),
  ("stable-sort", "stable-sort.go", [":key"]),
  ("merge", "merge.go", [":key"]),
  ("reduce", "reduce.go", [":key", ":start", ":end", ":from-end", ":initial-value"]),
  ("set-difference", "set-difference.go", [":key", ":test"]),
  ("subsetp", "subsetp.go", [":key", ":test"])
]

def readBy (parser : String) : List String :=
  match acceptedByParser.lookup parser with
  | some ks => ks
  | none => acceptedBy parser

def docOf (fn : String) : List String :=
  match documented.lookup fn with
  | some ks => ks
  | none => []

def subset (a b : List String) : Bool := a.all (fun k => b.contains k)

/-- for every function: (1) every documented keyword is read by the code, (2) the model knows every
    documented keyword, (3) the model takes nothing that is not documented — except `:test-not`, the
    complement of the documented `:test`, which the language gives every function that takes `:test`
    (the shared parser reads it since fix 0013; elsewhere its absence is a known finding) —,
    (4) every keyword of the model is read by the code, and (5) the table covers every extracted function -/
theorem keywords_agree_three_ways :
    modelKeywords.all (fun (fn, parser, kws) =>
      subset (docOf fn) (readBy parser) &&
      subset (docOf fn) kws &&
      subset kws (":test-not" :: docOf fn) &&
      subset kws (readBy parser) &&
      !(docOf fn).isEmpty) = true ∧
    documented.all (fun d => modelKeywords.any (fun m => m.1 == d.1)) = true := by
  decide

/-! ## the loop skeletons translated from the Go source -/
open SlipVerif.Gen.SeqLoops

def toGo (L : IdxLoop) : GoLoop := ⟨L.init, L.cond, L.step, L.skip⟩
def toWin (W : Window) : GoWindow := ⟨W.early, W.cut, W.lo1, W.hi1, W.lo2⟩

/-- closes one field obligation: unfold the extracted definition, turn `decide a = decide b` into
    `a ↔ b`, and leave the integer comparison to `omega` -/
macro "skel" defs:Lean.Parser.Tactic.simpLemma,* : tactic =>
  `(tactic| (intros; simp only [toGo, toWin, $defs,*, decide_eq_decide, MaxInt] <;> (try omega)))

/-- delete.go, delete-if.go (remove, delete, remove-if, delete-if): the three forward loops of each
    file are the reference forward loop, stand in the branch without `:from-end`, nothing reversed -/
theorem delete_forward_loops : ∀ L ∈ deleteFwd, (toGo L).IsDeleteFwd ∧ L.branch = "!fromEnd" ∧ L.reversedAfter = false := by
  intro L hL
  simp only [deleteFwd, List.mem_cons, List.mem_nil_iff, or_false] at hL
  rcases hL with rfl | rfl | rfl | rfl | rfl | rfl <;>
    refine ⟨⟨?_, ?_, ?_, ?_⟩, by rfl, by rfl⟩ <;>
    skel delete_inList_loop2, delete_inString_loop2, delete_inOctets_loop2, delete_if_inList_loop2,
      delete_if_inString_loop2, delete_if_inOctets_loop2

/-- … and the three backward loops are the reference backward loop, in the `:from-end` branch, followed
    by the reversal of what they collected -/
theorem delete_backward_loops : ∀ L ∈ deleteBwd, (toGo L).IsDeleteBwd ∧ L.branch = "fromEnd" ∧ L.reversedAfter = true := by
  intro L hL
  simp only [deleteBwd, List.mem_cons, List.mem_nil_iff, or_false] at hL
  rcases hL with rfl | rfl | rfl | rfl | rfl | rfl <;>
    refine ⟨⟨?_, ?_, ?_, ?_⟩, by rfl, by rfl⟩ <;>
    skel delete_inList_loop1, delete_inString_loop1, delete_inOctets_loop1, delete_if_inList_loop1,
      delete_if_inString_loop1, delete_if_inOctets_loop1

/-- the end defaulting of delete.go / delete-if.go keeps an in-range end and turns an absent end into
    at least the number of elements (for strings: the byte length) -/
theorem delete_end_defaulting : ∀ N ∈ deleteNormEnds, IsNormEndAtLeast N.norm := by
  intro N hN
  simp only [deleteNormEnds, List.mem_cons, List.mem_nil_iff, or_false] at hN
  rcases hN with rfl | rfl | rfl | rfl | rfl | rfl <;>
    (intro n nb e hn hnb
     simp only [delete_inList_normEnd, delete_inString_normEnd, delete_inOctets_normEnd, delete_if_inList_normEnd,
       delete_if_inString_normEnd, delete_if_inOctets_normEnd]
     refine ⟨?_, fun h0 h1 => ?_⟩ <;> split <;> omega)

/-- uniformity: each of delete.go and delete-if.go has the list, string and octets branch -/
theorem delete_loops_cover_kinds :
    deleteFwd.map (fun L => (L.file, L.kind)) =
      [("delete.go", "list"), ("delete.go", "string"), ("delete.go", "octets"),
       ("delete-if.go", "list"), ("delete-if.go", "string"), ("delete-if.go", "octets")] ∧
    deleteBwd.map (fun L => (L.file, L.kind)) = deleteFwd.map (fun L => (L.file, L.kind)) ∧
    deleteNormEnds.map (fun N => (N.file, N.kind)) = deleteFwd.map (fun L => (L.file, L.kind)) := by
  decide

/-- **the loops delete.go contains now compute `remove`**: any forward loop, backward loop and end
    defaulting extracted from delete.go / delete-if.go, run as Go runs them (explicit index, element
    fetch that faults outside the slice), return exactly the specification's `remove` for every
    sequence, every in-range `:start`/`:end`, every `:count` and both directions -/
theorem delete_go_refines_remove {α : Type} :
    ∀ F ∈ deleteFwd, ∀ B ∈ deleteBwd, ∀ N ∈ deleteNormEnds,
    ∀ (p : α → Bool) (start : Nat) (stop : Option Nat) (count : Option Int) (fromEnd : Bool) (xs : List α)
      (nb : Int), (xs.length : Int) ≤ nb → (xs.length : Int) ≤ goMaxInt →
    ∀ s e, bounds start stop xs.length = .ok (s, e) →
      goDelete (toGo F) (toGo B) N.norm nb p start stop count fromEnd xs = some (remove p s e count fromEnd xs) := by
  intro F hF B hB N hN p start stop count fromEnd xs nb hnb hlen s e hbd
  exact goDelete_refines_remove _ _ _ (delete_forward_loops F hF).1 (delete_backward_loops B hB).1
    (delete_end_defaulting N hN) p start stop count fromEnd xs nb hnb hlen s e hbd

/-- count.go, count-if.go: `for i := start; i < end; i++` / `for i := end - 1; start <= i; i--` -/
theorem count_loops :
    (∀ L ∈ countFwd, (toGo L).IsRangeFwd ∧ L.branch = "!fromEnd") ∧
    (∀ L ∈ countBwd, (toGo L).IsRangeBwd ∧ L.branch = "fromEnd") := by
  constructor <;> intro L hL
  · simp only [countFwd, List.mem_cons, List.mem_nil_iff, or_false] at hL
    rcases hL with rfl | rfl | rfl | rfl <;> refine ⟨⟨?_, ?_, ?_⟩, by rfl⟩ <;>
      skel count_inList_loop2, count_inString_loop2, count_if_inList_loop2, count_if_inString_loop2
  · simp only [countBwd, List.mem_cons, List.mem_nil_iff, or_false] at hL
    rcases hL with rfl | rfl | rfl | rfl <;> refine ⟨⟨?_, ?_, ?_⟩, by rfl⟩ <;>
      skel count_inList_loop1, count_inString_loop1, count_if_inList_loop1, count_if_inString_loop1

/-- the end bounds the loop of count.go itself: an absent end must become exactly the number of
    elements (for a string the number of characters, not the byte length — fix 0019) -/
theorem count_end_defaulting : ∀ N ∈ countNormEnds, IsNormEnd N.norm := by
  intro N hN
  simp only [countNormEnds, List.mem_cons, List.mem_nil_iff, or_false] at hN
  rcases hN with rfl | rfl | rfl | rfl <;>
    (intro n nb e hn hnb
     simp only [count_inList_normEnd, count_inString_normEnd, count_if_inList_normEnd, count_if_inString_normEnd]
     refine ⟨?_, fun h0 h1 => ?_⟩ <;> split <;> omega)

/-- **the loops count.go contains now compute `count`**, without an index fault -/
theorem count_go_refines_count {α : Type} :
    ∀ F ∈ countFwd, ∀ B ∈ countBwd, ∀ N ∈ countNormEnds,
    ∀ (p : α → Bool) (start : Nat) (stop : Option Nat) (fromEnd : Bool) (xs : List α)
      (nb : Int), (xs.length : Int) ≤ nb →
    ∀ s e, bounds start stop xs.length = .ok (s, e) →
      goCount (toGo F) (toGo B) N.norm nb p start stop fromEnd xs = some (SlipVerif.Seq.count p s e xs) := by
  intro F hF B hB N hN p start stop fromEnd xs nb hnb s e hbd
  exact goCount_refines_count _ _ _ (count_loops.1 F hF).1 (count_loops.2 B hB).1 (count_end_defaulting N hN)
    p start stop fromEnd xs nb hnb s e hbd

/-- position(-if).go, find(-if).go: the forward loop visits every index of the window in ascending
    order (only without `:from-end`), the backward loop in descending order -/
theorem window_loops :
    (∀ L ∈ windowFwd, (toGo L).IsAllFwd ∧ L.branch = "!fromEnd") ∧
    (∀ L ∈ windowBwd, (toGo L).IsAllBwd ∧ (L.branch = "" ∨ L.branch = "fromEnd")) := by
  constructor <;> intro L hL
  · simp only [windowFwd, List.mem_cons, List.mem_nil_iff, or_false] at hL
    rcases hL with rfl | rfl | rfl | rfl | rfl | rfl | rfl | rfl | rfl | rfl | rfl | rfl <;>
      refine ⟨⟨?_, ?_, ?_⟩, by rfl⟩ <;>
      skel position_inList_loop1, position_inString_loop1, position_inOctets_loop1, position_if_inList_loop1,
        position_if_inString_loop1, position_if_inOctets_loop1, find_inList_loop1, find_inString_loop1,
        find_inOctets_loop1, find_if_inList_loop1, find_if_inString_loop1, find_if_inOctets_loop1
  · simp only [windowBwd, List.mem_cons, List.mem_nil_iff, or_false] at hL
    rcases hL with rfl | rfl | rfl | rfl | rfl | rfl | rfl | rfl | rfl | rfl | rfl | rfl <;>
      refine ⟨⟨?_, ?_, ?_⟩, by decide⟩ <;>
      skel position_inList_loop2, position_inString_loop2, position_inOctets_loop2, position_if_inList_loop2,
        position_if_inString_loop2, position_if_inOctets_loop2, find_inList_loop2, find_inString_loop2,
        find_inOctets_loop2, find_if_inList_loop2, find_if_inString_loop2, find_if_inOctets_loop2

/-- the window of position / find is `[start, end)`, an early nil only for an empty window, and a
    match at window index `i` is answered as `start + i` -/
theorem windows_are_ranges : ∀ W ∈ windows, (toWin W).IsRange ∧ ∀ r ∈ W.rets, ∀ i s, r i s = s + i := by
  intro W hW
  simp only [windows, List.mem_cons, List.mem_nil_iff, or_false] at hW
  rcases hW with rfl | rfl | rfl | rfl | rfl | rfl | rfl | rfl | rfl | rfl | rfl | rfl <;>
    refine ⟨⟨?_, ?_, ?_, ?_, ?_⟩, ?_⟩ <;>
    (try skel position_inList_window, position_inString_window, position_inOctets_window, position_if_inList_window,
        position_if_inString_window, position_if_inOctets_window, find_inList_window, find_inString_window,
        find_inOctets_window, find_if_inList_window, find_if_inString_window, find_if_inOctets_window) <;>
    (intro r hr i s
     simp only [position_inList_window, position_inString_window, position_inOctets_window, position_if_inList_window,
        position_if_inString_window, position_if_inOctets_window, find_inList_window, find_inString_window,
        find_inOctets_window, find_if_inList_window, find_if_inString_window, find_if_inOctets_window,
        List.mem_cons, List.mem_nil_iff, or_false, or_self, List.not_mem_nil] at hr <;>
     first
       | (subst hr; rfl)
       | (rcases hr with rfl | rfl <;> rfl))

/-- **the loops position.go contains now compute `position`** (find returns the element there) -/
theorem position_go_refines_position {α : Type} :
    ∀ W ∈ windows, ∀ F ∈ windowFwd, ∀ B ∈ windowBwd,
    ∀ (p : α → Bool) (start : Nat) (stop : Option Nat) (fromEnd : Bool) (xs : List α) s e,
      bounds start stop xs.length = .ok (s, e) →
      goPosition (toWin W) (toGo F) (toGo B) (fun i s => s + i) p start stop fromEnd xs
        = some ((position p s e fromEnd xs).map (fun k : Nat => (k : Int))) := by
  intro W hW F hF B hB p start stop fromEnd xs s e hbd
  exact goPosition_refines_position _ _ _ _ (windows_are_ranges W hW).1 (window_loops.1 F hF).1 (window_loops.2 B hB).1
    (fun _ _ => rfl) p start stop fromEnd xs s e hbd

/-- delete-duplicates.go (remove-duplicates, delete-duplicates): both loops visit every index, keep the
    elements outside `[start, end)` without a look; the ascending loop serves `:from-end` (the first
    of equal elements survives), the descending loop with reversal serves the default (the last survives) -/
theorem duplicates_loops :
    (∀ L ∈ dupsFwd, (toGo L).IsGuardFwd ∧ L.branch = "fromEnd" ∧ L.reversedAfter = false) ∧
    (∀ L ∈ dupsBwd, (toGo L).IsGuardBwd ∧ L.branch = "!fromEnd" ∧ L.reversedAfter = true) ∧
    (∀ N ∈ dupsNormEnds, IsNormEndAtLeast N.norm) := by
  refine ⟨?_, ?_, ?_⟩
  · intro L hL
    simp only [dupsFwd, List.mem_cons, List.mem_nil_iff, or_false] at hL
    rcases hL with rfl | rfl | rfl <;> refine ⟨⟨?_, ?_, ?_, ?_⟩, by rfl, by rfl⟩ <;>
      skel delete_duplicates_inList_loop1, delete_duplicates_inString_loop1, delete_duplicates_inOctets_loop1
  · intro L hL
    simp only [dupsBwd, List.mem_cons, List.mem_nil_iff, or_false] at hL
    rcases hL with rfl | rfl | rfl <;> refine ⟨⟨?_, ?_, ?_, ?_⟩, by rfl, by rfl⟩ <;>
      skel delete_duplicates_inList_loop2, delete_duplicates_inString_loop2, delete_duplicates_inOctets_loop2
  · intro N hN
    simp only [dupsNormEnds, List.mem_cons, List.mem_nil_iff, or_false] at hN
    rcases hN with rfl | rfl | rfl <;>
      (intro n nb e hn hnb
       simp only [delete_duplicates_inList_normEnd, delete_duplicates_inString_normEnd, delete_duplicates_inOctets_normEnd]
       refine ⟨?_, fun h0 h1 => ?_⟩ <;> split <;> omega)

/-- substitute.go, substitute-if.go (and the n-variants, which call them): the loops run over
    `[start, end)` ascending, descending with `:from-end`; an absent end is the number of elements -/
theorem substitute_loops :
    (∀ L ∈ substFwd, (toGo L).IsRangeFwd ∧ L.branch = "!fromEnd") ∧
    (∀ L ∈ substBwd, (toGo L).IsRangeBwd ∧ L.branch = "fromEnd") ∧
    (∀ N ∈ substNormEnds, IsNormEnd N.norm) := by
  refine ⟨?_, ?_, ?_⟩
  · intro L hL
    simp only [substFwd, List.mem_cons, List.mem_nil_iff, or_false] at hL
    rcases hL with rfl | rfl | rfl | rfl <;> refine ⟨⟨?_, ?_, ?_⟩, by rfl⟩ <;>
      skel substitute_replace_loop2, substitute_replaceBytes_loop2, substitute_if_replace_loop2, substitute_if_replaceBytes_loop2
  · intro L hL
    simp only [substBwd, List.mem_cons, List.mem_nil_iff, or_false] at hL
    rcases hL with rfl | rfl | rfl | rfl <;> refine ⟨⟨?_, ?_, ?_⟩, by rfl⟩ <;>
      skel substitute_replace_loop1, substitute_replaceBytes_loop1, substitute_if_replace_loop1, substitute_if_replaceBytes_loop1
  · intro N hN
    simp only [substNormEnds, List.mem_cons, List.mem_nil_iff, or_false] at hN
    rcases hN with rfl | rfl | rfl | rfl <;>
      (intro n nb e hn hnb
       simp only [substitute_replace_normEnd, substitute_replaceBytes_normEnd, substitute_if_replace_normEnd,
         substitute_if_replaceBytes_normEnd]
       refine ⟨?_, fun h0 h1 => ?_⟩ <;> split <;> omega)

/-! ## argument order of the test calls, sort functions, merge step, parser defaults -/

def argsOf (file : String) : List (List String) :=
  match testCallArgs.lookup file with
  | some l => l
  | none => []

/-- the `:test` function receives the item first and the (key of the) element second — the order the
    model's `Kw.matcher` uses; the predicate of an -if function receives the key of the element alone -/
theorem test_called_with_item_then_element :
    argsOf "delete.go" = [["sfv.item", "key"]] ∧ argsOf "count.go" = [["sfv.item", "key"]] ∧
    argsOf "find.go" = [["sfv.item", "key"]] ∧ argsOf "position.go" = [["sfv.item", "key"]] ∧
    argsOf "substitute.go" = [["sr.old", "v"]] ∧ argsOf "member.go" = [["item", "k"]] ∧
    argsOf "assoc.go" = [["item", "k"]] ∧ argsOf "rassoc.go" = [["item", "k"]] ∧
    argsOf "delete-if.go" = [["key"]] ∧ argsOf "count-if.go" = [["key"]] ∧ argsOf "find-if.go" = [["key"]] ∧
    argsOf "position-if.go" = [["key"]] ∧ argsOf "substitute-if.go" = [["v"]] ∧ argsOf "member-if.go" = [["k"]] ∧
    argsOf "assoc-if.go" = [["k"]] ∧ argsOf "rassoc-if.go" = [["k"]] := by
  decide

/-- two-sequence functions: the element of sequence-1 / list-1 comes first (`Kw.eqv a b` with `a`
    from the first sequence); sort and stable-sort call the predicate as `(pred x[i] x[j])` inside Go's
    `less(i, j)` -/
theorem test_called_with_first_sequence_first :
    argsOf "search.go" = [["last", "v2"], ["first", "v2"], ["v1", "seq2[i]"]] ∧
    argsOf "mismatch.go" = [["v1", "v2"]] ∧ argsOf "set-difference.go" = [["k1", "k2"]] ∧
    argsOf "subsetp.go" = [["k1", "k2"]] ∧ argsOf "intersection.go" = [["k1", "k2"]] ∧
    argsOf "sort.go" = [["vi", "vj"]] ∧ argsOf "stable-sort.go" = [["vi", "vj"]] := by
  decide

/-- stable-sort is Go's stable sort; sort may be any `sort.` function -/
theorem stable_sort_uses_a_stable_algorithm :
    (sortCalls.filter (fun c => c.1 == "stable-sort.go")).length ≥ 1 ∧
    (sortCalls.filter (fun c => c.1 == "stable-sort.go")).all (fun c => c.2 == "SliceStable") = true ∧
    (sortCalls.filter (fun c => c.1 == "sort.go")).length ≥ 1 := by
  decide

/-- merge takes from sequence-2 only when its head is strictly less than the head of sequence-1
    (`less = predicate(k2, k1)`), otherwise from sequence-1: ties keep sequence-1 first, as
    `merge_spec` states for the model's `List.merge … (leOf lt key)` -/
theorem merge_step_is_stable :
    mergeLessArgs = "k2 k1" ∧ mergeTakesWhenLess = "seq2" ∧ mergeTakesOtherwise = "seq1" ∧
    argsOf "merge.go" = [["k2", "k1"]] := by
  decide

/-- the shared keyword parser: `:end` defaults to "absent" (-1, resolved by the end defaulting above),
    `:count` to Go's largest int (no limit: `goCountArg`), for both the item and the -if parser -/
theorem parser_defaults :
    parserDefaults = [("setKeysItem", "end", -1), ("setKeysItem", "count", goMaxInt),
                      ("setKeysIf", "end", -1), ("setKeysIf", "count", goMaxInt)] := by
  decide

/-- every non-negative fixnum is accepted as `:start` / `:end` by both parsers (in-range bounds are never
    rejected at the parser; 0 in particular) -/
theorem parser_accepts_in_range_bounds : boundAccepts.length = 4 ∧ ∀ a ∈ boundAccepts, ∀ num : Int, 0 ≤ num → a num := by
  refine ⟨by rfl, ?_⟩
  intro a ha num hnum
  simp only [boundAccepts, List.mem_cons, List.mem_nil_iff, or_false] at ha
  rcases ha with rfl | rfl | rfl | rfl <;>
    simp only [accepts_setKeysItem_start, accepts_setKeysItem_end, accepts_setKeysIf_start, accepts_setKeysIf_end] <;> omega

/-- no function that must leave its arguments alone (find position count remove substitute
    remove-duplicates member assoc rassoc search mismatch subseq reverse reduce union intersection
    set-difference subsetp every some notany notevery map mapcar concatenate — and the delete* loops remove*
    runs) stores into storage that may belong to an argument -/
theorem non_destructive_functions_do_not_write_into_their_arguments :
    SlipVerif.Gen.SeqAlias.argumentWrites = [] := by
  decide

/-- the analysis saw the functions with the loops (a file that moved away would make the statement above empty) -/
theorem alias_analysis_covers_the_loops :
    ∀ f ∈ ["find.go", "find-if.go", "position.go", "position-if.go", "count.go", "count-if.go", "delete.go",
        "delete-if.go", "delete-duplicates.go", "substitute.go", "substitute-if.go", "member.go", "assoc.go", "rassoc.go",
        "search.go", "mismatch.go", "subseq.go", "reverse.go", "reduce.go", "union.go", "intersection.go",
        "set-difference.go", "subsetp.go", "every.go", "some.go", "map.go", "mapcar.go", "concatenate.go"],
      1 ≤ ((SlipVerif.Gen.SeqAlias.analysed.lookup f).getD 0) := by
  decide

end SlipVerif.Seq.Gen
