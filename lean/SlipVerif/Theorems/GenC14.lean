import SlipVerif.Gen.SeqKeywords
/-
  C14 — obligations over the regenerated table `SlipVerif.Gen.SeqKeywords.accepted`
  (file ↦ keyword literals accepted by the argument parser in that file, extracted from
  pkg/cl/*.go on every run by extract/seqkw.go).

  The model's keyword record (Model/Seq.lean `Kw` and the bounds of the two-sequence functions)
  has the fields start end key test test-not count from-end (start1 end1 start2 end2 for search,
  mismatch and replace; initial-value for reduce). The obligation: every keyword the model gives a
  function is accepted by the parser that function uses. `:test-not` is required only where slip
  accepts it (the shared parser after fix 0013); its absence elsewhere is recorded as known
  findings (family=… keyword=test-not) and checked by the correspondence harness.
  A keyword that disappears from a parser breaks this module: the check then reports a broken
  K-gen obligation next to the failing inputs the harness finds.
-/
namespace SlipVerif.Seq.Gen
open SlipVerif.Gen.SeqKeywords

/-- parser file ↦ keywords the model's functions of that file take -/
def required : List (String × List String) := [
  ("seqfunvars.go", [":key", ":test", ":test-not", ":start", ":end", ":count", ":from-end"]),
  ("substitute.go", [":key", ":test", ":start", ":end", ":count", ":from-end"]),
  ("substitute-if.go", [":key", ":start", ":end", ":count", ":from-end"]),
  ("member.go", [":key", ":test"]),
  ("assoc.go", [":key", ":test"]),
  ("rassoc.go", [":key", ":test"]),
  ("search.go", [":key", ":test", ":start1", ":end1", ":start2", ":end2", ":from-end"]),
  ("mismatch.go", [":key", ":test", ":start1", ":end1", ":start2", ":end2", ":from-end"]),
  ("replace.go", [":start1", ":end1", ":start2", ":end2"]),
  ("fill.go", [":start", ":end"]),
  ("sort.go", [":key"]),
  ("stable-sort.go", [":key"]),
  ("merge.go", [":key"]),
  ("reduce.go", [":key", ":start", ":end", ":from-end", ":initial-value"]),
  ("set-difference.go", [":key", ":test"]),
  ("subsetp.go", [":key", ":test"])
]

def acceptedBy (file : String) : List String :=
  match accepted.lookup file with
  | some ks => ks
  | none => []

def covered : Bool :=
  required.all (fun fk => fk.2.all (fun k => (acceptedBy fk.1).contains k))

/-- every keyword the model gives a function is accepted by that function's parser in the code -/
theorem parsers_accept_model_keywords : covered = true := by decide

end SlipVerif.Seq.Gen
