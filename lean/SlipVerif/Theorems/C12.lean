import SlipVerif.Model.Clos
namespace SlipVerif.Clos

theorem dedup_nil : dedup [] = [] := rfl

end SlipVerif.Clos
