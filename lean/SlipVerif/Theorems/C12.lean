import SlipVerif.Model.Clos
import SlipVerif.Lemmas.Clos
/-
  C12 — CLOS classes: precedence, slots and initialisation are order-independent.

  Property theorems about SlipVerif.Model.Clos (the model the compiled driver executes and the
  correspondence harness harness/cmd/vh/c12.go compares with pkg/clos). A *history* is any list of
  defclass forms `(name, definition)` evaluated left to right by `run` (a name may occur several
  times: redefinition); `lastDef h` is the class graph in force at the end; `spec D n c` is the
  inheritance list of `c` read off the graph `D` alone (fuel `n` only bounds the depth explored and
  never changes the answer: `spec_det`).
-/
namespace SlipVerif.Clos

/-! ## precedence: the state after any history is the specification of the final graph -/

/-- ready_eq_spec: after any history, every ready class carries exactly the inheritance list the
    rule "direct superclasses in the order written followed by theirs" assigns to it in the final
    class graph — whatever the order of the forms, forward references and redefinitions. -/
theorem ready_eq_spec (h : List (Name × ClassDef)) (c : Name) (l : List Name)
    (hr : inhOf (run h) c = some l) : ∃ n, spec (lastDef h) n c = some l := by
  have := run_sound h c l hr
  rwa [defOf_run] at this

/-- the converse: whenever the final graph determines a list for `c` (all ancestors defined), `c`
    is ready with that list: the readiness loop with fuel = number of classes reaches its fixed
    point. -/
theorem spec_eq_ready (h : List (Name × ClassDef)) (n : Nat) (c : Name) (l : List Name)
    (hs : spec (lastDef h) n c = some l) : inhOf (run h) c = some l := by
  have := fix_complete (run_sound h) (run_fix h) n c l
  rw [defOf_run] at this
  exact this hs

theorem inh_iff_spec (h : List (Name × ClassDef)) (c : Name) (l : List Name) :
    inhOf (run h) c = some l ↔ ∃ n, spec (lastDef h) n c = some l :=
  ⟨ready_eq_spec h c l, fun ⟨n, hn⟩ => spec_eq_ready h n c l hn⟩

/-- the unfolded rule for a ready class: its list is its direct superclasses in the order written
    followed by their lists, first occurrences kept -/
theorem ready_unfold (h : List (Name × ClassDef)) (c : Name) (l : List Name)
    (hr : inhOf (run h) c = some l) :
    ∃ d r, lastDef h c = some d ∧ collect (inhOf (run h)) d.supers = some r ∧
      l = dedup (d.supers ++ r) := by
  obtain ⟨n, hn⟩ := ready_eq_spec h c l hr
  cases n with
  | zero => simp [spec] at hn
  | succ n =>
    rw [spec] at hn
    cases hd : lastDef h c with
    | none => simp [hd] at hn
    | some d =>
      simp only [hd, mergeWith] at hn
      cases hc : collect (spec (lastDef h) n) d.supers with
      | none => simp [hc] at hn
      | some r =>
        simp only [hc, Option.map_some, Option.some.injEq] at hn
        refine ⟨d, r, rfl, ?_, hn.symm⟩
        exact collect_mono (fun x _ lx hlx => spec_eq_ready h n x lx hlx) hc

example : inhOf (run [(2, ⟨[1, 0], [], []⟩), (0, ⟨[], [], []⟩), (1, ⟨[0], [], []⟩)]) 2 = some [1, 0] := by decide

/-- all_ready_when_closed: once a class and, recursively, all its superclasses are defined
    (`Grounded`), the class is ready — after every history, in particular when the superclasses
    were defined after the class. -/
theorem all_ready_when_closed (h : List (Name × ClassDef)) (c : Name)
    (hg : Grounded (lastDef h) c) : ∃ l, inhOf (run h) c = some l := by
  obtain ⟨n, l, hs⟩ := spec_of_grounded hg
  exact ⟨l, spec_eq_ready h n c l hs⟩

/-- and only then: a ready class has all its ancestors defined -/
theorem grounded_of_ready (h : List (Name × ClassDef)) (c : Name) (l : List Name)
    (hr : inhOf (run h) c = some l) : Grounded (lastDef h) c := by
  obtain ⟨n, hn⟩ := ready_eq_spec h c l hr
  exact grounded_of_spec hn

example : Grounded (lastDef [(1, ⟨[0], [], []⟩), (0, ⟨[], [], []⟩)]) 1 :=
  Grounded.mk 1 ⟨[0], [], []⟩ (by decide) (fun x hx => by
    have : x = 0 := by simpa using hx
    subst this
    exact Grounded.mk 0 ⟨[], [], []⟩ (by decide) (fun y hy => by simp at hy))

/-- the precedence list has no duplicates -/
theorem prec_nodup (h : List (Name × ClassDef)) (c : Name) (l : List Name)
    (hr : inhOf (run h) c = some l) : l.Nodup := by
  obtain ⟨d, r, _, _, hl⟩ := ready_unfold h c l hr
  rw [hl]; exact dedup_nodup _

/-! ## order independence -/

/-- Two histories that leave the same definitions in force (for instance the same forms in another
    order, or with superseded forms anywhere) end in the same state: same definition, same
    readiness, same inheritance list for every class. -/
theorem order_independent_defs (h1 h2 : List (Name × ClassDef)) (hd : lastDef h1 = lastDef h2)
    (c : Name) : inhOf (run h1) c = inhOf (run h2) c ∧ defOf (run h1) c = defOf (run h2) c := by
  constructor
  · apply Option.ext
    intro l
    rw [inh_iff_spec, inh_iff_spec, hd]
  · rw [defOf_run, defOf_run, hd]

/-- order_independent: every permutation of a set of defclass forms (one form per class, forward
    references allowed) gives the same final state. -/
theorem order_independent (h1 h2 : List (Name × ClassDef)) (hp : h1.Perm h2)
    (hn : (h1.map Prod.fst).Nodup) (c : Name) :
    inhOf (run h1) c = inhOf (run h2) c ∧ defOf (run h1) c = defOf (run h2) c :=
  order_independent_defs h1 h2 (lastDef_perm hp hn) c

example : ([(2, (⟨[1, 0], [], []⟩ : ClassDef)), (0, ⟨[], [], []⟩), (1, ⟨[0], [], []⟩)] : List (Name × ClassDef)).Perm
    [(0, ⟨[], [], []⟩), (1, ⟨[0], [], []⟩), (2, ⟨[1, 0], [], []⟩)] ∧
    (([(2, (⟨[1, 0], [], []⟩ : ClassDef)), (0, ⟨[], [], []⟩), (1, ⟨[0], [], []⟩)] : List (Name × ClassDef)).map Prod.fst).Nodup := by
  decide

/-- … also with a redefinition of one class after them: every permutation of the original forms
    followed by the new form of `a` gives the same final state. -/
theorem order_independent_with_redefinition (h1 h2 : List (Name × ClassDef)) (hp : h1.Perm h2)
    (hn : (h1.map Prod.fst).Nodup) (a : Name) (d' : ClassDef) (c : Name) :
    inhOf (run (h1 ++ [(a, d')])) c = inhOf (run (h2 ++ [(a, d')])) c ∧
    defOf (run (h1 ++ [(a, d')])) c = defOf (run (h2 ++ [(a, d')])) c := by
  apply order_independent_defs
  rw [lastDef_append, lastDef_append, lastDef_perm hp hn]

/-- … and therefore the same observations: precedence list, typep, applicable methods and
    make-instance agree for the two histories. -/
theorem order_independent_observations (h1 h2 : List (Name × ClassDef))
    (hd : lastDef h1 = lastDef h2) (c : Name) :
    precOf (run h1) c = precOf (run h2) c ∧
    (∀ k, typep (run h1) c k = typep (run h2) c k) ∧
    (∀ ms, applicable (run h1) c ms = applicable (run h2) c ms) ∧
    (∀ args, makeInstance (run h1) c args = makeInstance (run h2) c args) := by
  have hi : inhOf (run h1) c = inhOf (run h2) c := (order_independent_defs h1 h2 hd c).1
  have hdf : ∀ k, defOf (run h1) k = defOf (run h2) k :=
    fun k => (order_independent_defs h1 h2 hd k).2
  have hp : precOf (run h1) c = precOf (run h2) c := by simp [precOf, hi]
  refine ⟨hp, fun k => by simp [typep, hp], fun ms => by simp [applicable, hp], fun args => ?_⟩
  unfold makeInstance
  rw [hp]
  have hdflt : defaultsOf (run h1) c = defaultsOf (run h2) c := by simp [defaultsOf, hdf c]
  cases precOf (run h2) c with
  | none => rfl
  | some p => simp only [slotDefsOf_congr hdf p, hdflt]

/-- order_independent_histories: order independence for histories WITH redefinitions. Two histories
    in which every class has the same forms in the same relative order (its definition and all its
    redefinitions), interleaved with the forms of the other classes in any way whatsoever — before or
    after its superclasses, with superclasses missing for any stretch, with super- and
    grand-superclasses redefined while a class waits — end in the same state and give the same
    observations. (`Perm` is implied by the hypothesis; the generator of the history families
    produces exactly such interleavings.) -/
theorem order_independent_histories (h1 h2 : List (Name × ClassDef))
    (hf : ∀ c, h1.filter (fun p => p.1 = c) = h2.filter (fun p => p.1 = c)) (c : Name) :
    inhOf (run h1) c = inhOf (run h2) c ∧ defOf (run h1) c = defOf (run h2) c ∧
    precOf (run h1) c = precOf (run h2) c ∧
    (∀ k, typep (run h1) c k = typep (run h2) c k) ∧
    (∀ ms, applicable (run h1) c ms = applicable (run h2) c ms) ∧
    (∀ args, makeInstance (run h1) c args = makeInstance (run h2) c args) := by
  have hd := lastDef_eq_of_filter h1 h2 hf
  exact ⟨(order_independent_defs h1 h2 hd c).1, (order_independent_defs h1 h2 hd c).2,
    order_independent_observations h1 h2 hd c⟩

-- two interleavings of: class 0 defined then redefined, class 1 (a subclass of 0 and of the late class 2), class 2
example : ∀ c, ([(1, (⟨[0, 2], [], []⟩ : ClassDef)), (0, ⟨[], [⟨0, [], some 1⟩], []⟩), (0, ⟨[], [⟨0, [], some 2⟩], []⟩), (2, ⟨[], [], []⟩)] :
      List (Name × ClassDef)).filter (fun p => p.1 = c) =
    ([(0, (⟨[], [⟨0, [], some 1⟩], []⟩ : ClassDef)), (2, ⟨[], [], []⟩), (0, ⟨[], [⟨0, [], some 2⟩], []⟩), (1, ⟨[0, 2], [], []⟩)] :
      List (Name × ClassDef)).filter (fun p => p.1 = c) := by
  intro c
  by_cases h0 : c = 0
  · subst h0; decide
  · by_cases h1 : c = 1
    · subst h1; decide
    · by_cases h2 : c = 2
      · subst h2; decide
      · have e0 : ¬ 0 = c := fun e => h0 e.symm
        have e1 : ¬ 1 = c := fun e => h1 e.symm
        have e2 : ¬ 2 = c := fun e => h2 e.symm
        simp [List.filter_cons, e0, e1, e2]

/-! ## redefinition -/

/-- redefine_propagates: after a class `a` is redefined (at the end of any history) the state is
    the specification of the *new* graph for every class — every subclass, at any depth, is merged
    again against the new definition — and every ready class below `a` has the new direct slots. -/
theorem redefine_propagates (h : List (Name × ClassDef)) (a : Name) (d' : ClassDef) :
    defOf (run (h ++ [(a, d')])) a = some d' ∧
    (∀ c l, inhOf (run (h ++ [(a, d')])) c = some l ↔
        ∃ n, spec (update (lastDef h) a d') n c = some l) ∧
    (∀ c l, inhOf (run (h ++ [(a, d')])) c = some l → a ∈ c :: l →
        ∀ sd ∈ d'.slots, sd ∈ slotDefsOf (run (h ++ [(a, d')])) (c :: l)) := by
  have hdef : defOf (run (h ++ [(a, d')])) a = some d' := by
    rw [defOf_run, lastDef_append]; simp [update]
  refine ⟨hdef, ?_, ?_⟩
  · intro c l
    rw [inh_iff_spec, lastDef_append]
  · intro c l _ ha sd hsd
    exact mem_slotDefsOf hdef hsd ha

/-- a class that does not inherit from the redefined class keeps its list -/
theorem redefine_frame (h : List (Name × ClassDef)) (a : Name) (d' : ClassDef) (c : Name)
    (l : List Name) (hr : inhOf (run h) c = some l) (hca : c ≠ a) (hal : a ∉ l) :
    inhOf (run (h ++ [(a, d')])) c = some l := by
  obtain ⟨n, hn⟩ := ready_eq_spec h c l hr
  apply spec_eq_ready _ n
  rw [lastDef_append]
  exact spec_update hn hal hca

example : inhOf (run ([(0, ⟨[], [], []⟩), (1, ⟨[0], [], []⟩), (2, ⟨[1], [], []⟩), (3, ⟨[], [], []⟩)] ++ [(0, ⟨[3], [], []⟩)])) 2
    = some [1, 0, 3] := by decide

-- hypotheses of redefine_frame: class 3 does not inherit from the redefined class 0
example : inhOf (run [(0, ⟨[], [], []⟩), (1, ⟨[0], [], []⟩), (3, ⟨[], [], []⟩)]) 3 = some [] ∧ (3 : Name) ≠ 0 ∧
    (0 : Name) ∉ ([] : List Name) := by decide

/-! ## typep, class-of and method applicability use the same list -/

/-- membership in the precedence list is reachability in the class graph: `k` is on the list of `c`
    exactly when `k` is `c` or a direct or indirect superclass of `c` -/
theorem mem_prec_iff_reach (h : List (Name × ClassDef)) (c k : Name) (p : List Name)
    (hp : precOf (run h) c = some p) : k ∈ p ↔ Reach (lastDef h) c k := by
  unfold precOf at hp
  cases hi : inhOf (run h) c with
  | none => simp [hi] at hp
  | some l =>
    simp only [hi, Option.map_some, Option.some.injEq] at hp
    subst hp
    obtain ⟨n, hn⟩ := ready_eq_spec h c l hi
    exact ⟨reach_of_mem_spec hn, fun hr => mem_spec_of_reach hr hn⟩

/-- typep_iff_mem_prec: `(typep instance-of-c k)` is true exactly when `k` is on the class
    precedence list of `c` … -/
theorem typep_iff_mem_prec (s : State) (c k : Name) (p : List Name) (hp : precOf s c = some p) :
    typep s c k = some true ↔ k ∈ p := by
  simp [typep, hp, isA_iff_mem]

/-- … i.e. exactly when `k` is `c` or an ancestor of `c` in the final class graph -/
theorem typep_iff_reach (h : List (Name × ClassDef)) (c k : Name) (p : List Name)
    (hp : precOf (run h) c = some p) : typep (run h) c k = some true ↔ Reach (lastDef h) c k := by
  rw [typep_iff_mem_prec _ c k p hp, mem_prec_iff_reach h c k p hp]

/-- the applicable methods are the classes of the precedence list that carry a method, in
    precedence order (a sublist of the list typep uses) -/
theorem applicable_spec (s : State) (c : Name) (ms p : List Name) (hp : precOf s c = some p) :
    ∃ a, applicable s c ms = some a ∧ a.Sublist p ∧ ∀ k, k ∈ a ↔ k ∈ p ∧ k ∈ ms := by
  refine ⟨p.filter (fun k => ms.contains k), by simp [applicable, hp], List.filter_sublist, ?_⟩
  intro k
  simp [List.mem_filter]

example : precOf (run [(0, ⟨[], [], []⟩), (1, ⟨[0], [], []⟩)]) 1 = some [1, 0] := by decide

/-! ## instance initialisation -/

/-- slot_init_spec: the instance built by the operational procedure (all effective slots unbound,
    supplied initargs left to right, then initforms for untouched slots) has exactly the effective
    slots, each holding: the value of the leftmost supplied initarg the slot declares in any class
    of the precedence list, otherwise its most specific initform, otherwise unbound. -/
theorem slot_init_spec (sds : List SlotDef) (args : List (Name × Val)) :
    build sds args = (slotNames sds).map (fun x => (x, valueSpec sds args x)) := by
  unfold build blank
  rw [applyArgs_map, List.map_map, List.map_map]
  apply List.map_congr_left
  intro x _
  exact formCell_spec sds args x

/-- read through getSlot: an effective slot holds its specified value, any other name is no slot -/
theorem slot_value_spec (sds : List SlotDef) (args : List (Name × Val)) (x : Name) :
    getSlot (build sds args) x =
      if x ∈ slotNames sds then some (valueSpec sds args x) else none := by
  rw [slot_init_spec]
  exact getSlot_map_self _ _ _

/-- the three cases of the rule, spelled out -/
theorem slot_init_initarg (sds : List SlotDef) (args : List (Name × Val)) (x k : Name) (v : Val)
    (hfirst : args.find? (fun a => (initargsFor sds x).contains a.1) = some (k, v)) :
    valueSpec sds args x = some v := by
  unfold valueSpec
  rw [hfirst]

theorem slot_init_initform (sds : List SlotDef) (args : List (Name × Val)) (x : Name)
    (hnone : ∀ a ∈ args, a.1 ∉ initargsFor sds x) :
    valueSpec sds args x = initformFor sds x := by
  have : args.find? (fun a => (initargsFor sds x).contains a.1) = none := by
    apply List.find?_eq_none.2
    intro a ha
    simpa using hnone a ha
  unfold valueSpec
  rw [this]

example : build [⟨0, [0], some 2⟩, ⟨1, [0, 1], none⟩, ⟨0, [2], some 1⟩] [(2, 7), (0, 8)]
    = [(0, some 7), (1, some 8)] := by decide

-- hypotheses of slot_init_initarg and slot_init_initform
example : ([(2, 7), (0, 8)] : List (Name × Val)).find?
    (fun a => (initargsFor [⟨0, [0], some 2⟩, ⟨1, [0, 1], none⟩, ⟨0, [2], some 1⟩] 0).contains a.1)
    = some (2, 7) := by decide
example : ∀ a ∈ ([(1, 7)] : List (Name × Val)),
    a.1 ∉ initargsFor [⟨0, [0], some 2⟩, ⟨1, [0, 1], none⟩] 0 := by decide

/-- make-instance of a ready class whose supplied initargs are all declared is that instance; the
    class's default initargs count as initargs supplied after the explicit ones -/
theorem makeInstance_spec (s : State) (c : Name) (p : List Name) (args : List (Name × Val))
    (hp : precOf s c = some p)
    (hv : args.all (fun a => validArg (slotDefsOf s p) a.1) = true) :
    makeInstance s c args =
      .ok ((slotNames (slotDefsOf s p)).map
        (fun x => (x, valueSpec (slotDefsOf s p) (args ++ defaultsOf s c) x))) := by
  simp only [makeInstance, hp, hv, if_true, slot_init_spec]

/-- default_initargs_spec: with default initargs a slot holds the value of the leftmost supplied
    initarg it declares, otherwise the value of the class's first default initarg it declares,
    otherwise its most specific initform, otherwise it is unbound — an explicit initarg always
    beats a default, a default always beats an initform. -/
theorem default_initargs_spec (sds : List SlotDef) (args dflt : List (Name × Val)) (x : Name) :
    valueSpec sds (args ++ dflt) x =
      match args.find? (fun a => (initargsFor sds x).contains a.1) with
      | some a => some a.2
      | none =>
        match dflt.find? (fun a => (initargsFor sds x).contains a.1) with
        | some a => some a.2
        | none => initformFor sds x := by
  unfold valueSpec
  rw [List.find?_append]
  cases args.find? (fun a => (initargsFor sds x).contains a.1) with
  | some a => rfl
  | none => rfl

example : build [⟨0, [0], some 2⟩, ⟨1, [1], some 3⟩, ⟨2, [2], some 4⟩] ([(0, 7)] ++ [(0, 8), (1, 9)])
    = [(0, some 7), (1, some 9), (2, some 4)] := by decide

example : precOf (run [(1, ⟨[0], [⟨1, [1], none⟩], []⟩), (0, ⟨[], [⟨0, [0], some 5⟩], []⟩)]) 1 = some [1, 0] ∧
    ([(0, 9)] : List (Name × Val)).all (fun a => validArg (slotDefsOf
      (run [(1, ⟨[0], [⟨1, [1], none⟩], []⟩), (0, ⟨[], [⟨0, [0], some 5⟩], []⟩)]) [1, 0]) a.1) = true := by
  decide

/-- a class that is not ready cannot be instantiated -/
theorem makeInstance_not_ready (s : State) (c : Name) (args : List (Name × Val))
    (hp : precOf s c = none) : makeInstance s c args = .error .notReady := by
  simp [makeInstance, hp]

/-! ## which initforms are evaluated, and the order of :after methods (extension round 4) -/

/-- initform_evaluated_iff: building an instance evaluates the initform `v` of slot `x` exactly when
    `x` is an effective slot, no supplied (or default) initarg reaches it, and `v` is its most
    specific initform — no other form is evaluated (no shadowed form, no form of a slot an initarg
    filled). -/
theorem initform_evaluated_iff (sds : List SlotDef) (args : List (Name × Val)) (x : Name) (v : Val) :
    (x, v) ∈ evaluated sds args ↔
      x ∈ slotNames sds ∧ (∀ a ∈ args, a.1 ∉ initargsFor sds x) ∧ initformFor sds x = some v := by
  rw [evaluated_eq, List.mem_filterMap]
  constructor
  · rintro ⟨y, hy, hf⟩
    cases hfind : args.find? (fun a => (initargsFor sds y).contains a.1) with
    | some a => rw [hfind] at hf; simp at hf
    | none =>
      rw [hfind] at hf
      cases hform : initformFor sds y with
      | none => simp [hform] at hf
      | some w =>
        simp only [hform, Option.map_some, Option.some.injEq, Prod.mk.injEq] at hf
        obtain ⟨rfl, rfl⟩ := hf
        refine ⟨hy, ?_, hform⟩
        intro a ha hmem
        have := List.find?_eq_none.1 hfind a ha
        simp [hmem] at this
  · rintro ⟨hx, hnone, hform⟩
    refine ⟨x, hx, ?_⟩
    have : args.find? (fun a => (initargsFor sds x).contains a.1) = none := by
      apply List.find?_eq_none.2
      intro a ha
      simpa using hnone a ha
    rw [this, hform]
    rfl

/-- the value of an evaluated form is what the slot holds afterwards -/
theorem evaluated_is_slot_value (sds : List SlotDef) (args : List (Name × Val)) (x : Name) (v : Val)
    (h : (x, v) ∈ evaluated sds args) : getSlot (build sds args) x = some (some v) := by
  obtain ⟨hx, hnone, hform⟩ := (initform_evaluated_iff sds args x v).1 h
  rw [slot_value_spec, if_pos hx, slot_init_initform sds args x hnone, hform]

/-- at most one initform per slot is evaluated -/
theorem evaluated_one_per_slot (sds : List SlotDef) (args : List (Name × Val)) :
    ((evaluated sds args).map Prod.fst).Nodup := by
  rw [evaluated_eq]
  apply List.Nodup.sublist _ (dedup_nodup (sds.map (·.name)))
  apply filterMap_fst_sublist
  intro x y hxy
  cases hfind : args.find? (fun a => (initargsFor sds x).contains a.1) with
  | some a => rw [hfind] at hxy; simp at hxy
  | none =>
    rw [hfind] at hxy
    cases hform : initformFor sds x with
    | none => simp [hform] at hxy
    | some w =>
      simp only [hform, Option.map_some, Option.some.injEq] at hxy
      rw [← hxy]

/-- initform_most_specific: the initform in force for slot `x` of a class with precedence list `p`
    is the one written in the FIRST class of `p` whose own definition of `x` carries an initform
    (`formOwner`): every class before it on the list has none. -/
theorem initform_most_specific (s : State) (p : List Name) (x : Name) (v : Val)
    (h : initformFor (slotDefsOf s p) x = some v) :
    ∃ k pre post, formOwner s p x = some k ∧ p = pre ++ k :: post ∧
      (∀ k' ∈ pre, initformFor (ownSlots s k') x = none) ∧
      initformFor (ownSlots s k) x = some v := by
  rw [initformFor_owner] at h
  cases ho : formOwner s p x with
  | none => simp [ho] at h
  | some k =>
    rw [ho] at h
    obtain ⟨pre, post, hp, hpre, _⟩ := formOwner_some s x p k ho
    exact ⟨k, pre, post, rfl, hp, hpre, h⟩

/-- … and a slot has no initform in force exactly when no class of the precedence list gives one -/
theorem initform_none_iff (s : State) (p : List Name) (x : Name) :
    initformFor (slotDefsOf s p) x = none ↔ ∀ k ∈ p, initformFor (ownSlots s k) x = none := by
  rw [initformFor_owner, ← formOwner_none]
  cases ho : formOwner s p x with
  | none => simp
  | some k =>
    obtain ⟨_, _, _, _, hk⟩ := formOwner_some s x p k ho
    cases hv : initformFor (ownSlots s k) x with
    | none => simp [hv] at hk
    | some v => simp [hv]

/-- what `(make-instance c …)` reports as evaluated: every reported form is owned by the first class
    of c's precedence list that has an initform for the slot, carries the value the slot then holds,
    and belongs to a slot no supplied or default initarg reached -/
theorem evaluatedBy_sound (s : State) (c : Name) (args : List (Name × Val)) (p : List Name)
    (l : List (Name × Name × Val)) (hp : precOf s c = some p) (h : evaluatedBy s c args = some l)
    (k x : Name) (v : Val) (hm : (k, x, v) ∈ l) :
    formOwner s p x = some k ∧ initformFor (ownSlots s k) x = some v ∧
      (∀ a ∈ args ++ defaultsOf s c, a.1 ∉ initargsFor (slotDefsOf s p) x) ∧
      makeInstance s c args = .ok (build (slotDefsOf s p) (args ++ defaultsOf s c)) ∧
      getSlot (build (slotDefsOf s p) (args ++ defaultsOf s c)) x = some (some v) := by
  unfold evaluatedBy at h
  rw [hp] at h
  simp only at h
  by_cases hv : (args.all (fun a => validArg (slotDefsOf s p) a.1)) = true
  · rw [if_pos hv] at h
    cases h
    obtain ⟨⟨x', v'⟩, hxv, hf⟩ := List.mem_filterMap.1 hm
    cases ho : formOwner s p x' with
    | none => simp [ho] at hf
    | some k' =>
      simp only [ho, Option.map_some, Option.some.injEq, Prod.mk.injEq] at hf
      obtain ⟨rfl, rfl, rfl⟩ := hf
      obtain ⟨_, hnone, hform⟩ := (initform_evaluated_iff _ _ _ _).1 hxv
      obtain ⟨k2, _, _, ho2, _, _, hown⟩ := initform_most_specific s p x' v' hform
      rw [ho] at ho2
      cases ho2
      refine ⟨ho, hown, hnone, ?_, evaluated_is_slot_value _ _ _ _ hxv⟩
      simp [makeInstance, hp, hv]
  · rw [if_neg hv] at h
    cases h

example : evaluatedBy (run [(1, ⟨[0], [⟨0, [1], none⟩, ⟨1, [], some 12⟩], []⟩),
      (0, ⟨[], [⟨0, [0], some 1⟩, ⟨1, [], some 2⟩, ⟨2, [2], some 3⟩], []⟩)]) 1 [(2, 9)]
    = some [(0, 0, 1), (1, 1, 12)] := by decide

/-- :after methods run least specific first: the applicable methods in reverse precedence order;
    the list is read off the same precedence list as everything else -/
theorem after_order_spec (s : State) (c : Name) (ms p : List Name) (hp : precOf s c = some p) :
    afterOrder s c ms = some ((p.filter (fun k => ms.contains k)).reverse) := by
  simp [afterOrder, applicable, hp]

/-- order independence of the initialisation protocol: histories that leave the same definitions in
    force (any order of the forms, any number of redefinitions and forward references on the way)
    evaluate the same initforms of the same owners and run the same :after methods in the same
    order -/
theorem order_independent_initialisation (h1 h2 : List (Name × ClassDef))
    (hd : lastDef h1 = lastDef h2) (c : Name) :
    (∀ args, evaluatedBy (run h1) c args = evaluatedBy (run h2) c args) ∧
    (∀ ms, afterOrder (run h1) c ms = afterOrder (run h2) c ms) := by
  obtain ⟨hp, _, happ, _⟩ := order_independent_observations h1 h2 hd c
  have hdf : ∀ k, defOf (run h1) k = defOf (run h2) k :=
    fun k => (order_independent_defs h1 h2 hd k).2
  refine ⟨fun args => ?_, fun ms => by simp [afterOrder, happ ms]⟩
  unfold evaluatedBy
  rw [hp]
  have hdflt : defaultsOf (run h1) c = defaultsOf (run h2) c := by simp [defaultsOf, hdf c]
  cases precOf (run h2) c with
  | none => rfl
  | some p =>
    simp only [slotDefsOf_congr hdf p, hdflt]
    have : ∀ x, formOwner (run h1) p x = formOwner (run h2) p x := fun x => formOwner_congr hdf x p
    simp only [this]

/-! ## readers, writers, accessors act on their slot only -/

/-- accessor_frame: a writer (or setf of an accessor / slot-value) leaves every other slot as it
    was … -/
theorem accessor_frame (i : Inst) (x y : Name) (v : Val) (h : y ≠ x) :
    getSlot (writeSlot i x v) y = getSlot i y :=
  getSlot_writeSlot_ne v h i

/-- … stores the value in its own slot when the instance has it, creates no slot … -/
theorem writer_sets (i : Inst) (x : Name) (v : Val) :
    getSlot (writeSlot i x v) x = (getSlot i x).map (fun _ => some v) :=
  getSlot_writeSlot_self x v i

theorem writer_keeps_slots (i : Inst) (x : Name) (v : Val) :
    (writeSlot i x v).map Prod.fst = i.map Prod.fst :=
  writeSlot_keys x v i

/-- … and slot-makunbound touches its slot only as well -/
theorem makunbound_frame (i : Inst) (x y : Name) (h : y ≠ x) :
    getSlot (unbindSlot i x) y = getSlot i y :=
  getSlot_unbindSlot_ne h i

example : getSlot (writeSlot [(0, some 1), (1, none), (2, some 3)] 1 9) 2 = some (some 3) := by decide

/-! ## instances that exist across a redefinition

  slip documents (defclass): "If the named class already exists it is over-written but existing
  objects continue to reference the original class." `World` adds class-object identity (name,
  generation) to the state; an `Obj` references the class object it was made from. -/

/-- the class table of the world is the state all the theorems above are about -/
theorem runW_st (h : List (Name × ClassDef)) : (runW h).st = run h := by
  rw [runW_eq, foldl_stepW_st, run_eq]
  rfl

/-- instance_coherent: at every point of any history and for every instance (new, of a redefined
    class, of a subclass of one): typep, the applicable methods and
    `(class-precedence (class-of i))` use one and the same list. -/
theorem instance_coherent (w : World) (o : Obj) (p : List Name) (hp : objPrec w o = some p)
    (k : Name) (ms : List Name) :
    (objTypep w o k = some true ↔ k ∈ p) ∧
    ∃ a, objApplicable w o ms = some a ∧ a.Sublist p ∧ ∀ j, j ∈ a ↔ j ∈ p ∧ j ∈ ms := by
  refine ⟨by simp [objTypep, hp, isA_iff_mem], p.filter (fun j => ms.contains j),
    by simp [objApplicable, hp], List.filter_sublist, ?_⟩
  intro j
  simp [List.mem_filter]

/-- a new instance references the registered class object and has the class's precedence list -/
theorem new_instance_is_current (w : World) (c : Name) (args : List (Name × Val)) (o : Obj)
    (h : makeObj w c args = .ok o) :
    o.cls = c ∧ objIsCurrent w o = true ∧ objPrec w o = precOf w.st c := by
  unfold makeObj at h
  cases hm : makeInstance w.st c args with
  | error e => simp [hm] at h
  | ok i =>
    simp only [hm, Except.ok.injEq] at h
    subst h
    simp [objIsCurrent, objPrec, objInh, precOf]

/-- an instance whose class object is still the registered one follows its class: with
    `redefine_propagates`, existing instances of the *subclasses* of a redefined class see the new
    precedence list (their class object is re-merged in place) -/
theorem live_instance_follows_class (w : World) (o : Obj) (h : objIsCurrent w o = true) :
    objPrec w o = precOf w.st o.cls := by
  have : o.gen = w.gens o.cls := by simpa [objIsCurrent] using h
  simp [objPrec, objInh, precOf, this]

/-- an instance of a superseded class object keeps that object's list through every later
    history, and never becomes "current" again -/
theorem superseded_instance_frozen (h0 h : List (Name × ClassDef)) (o : Obj)
    (ho : o.gen < (runW h0).gens o.cls) :
    objPrec (runW (h0 ++ h)) o = objPrec (runW h0) o ∧ objIsCurrent (runW (h0 ++ h)) o = false := by
  have e : runW (h0 ++ h) = h.foldl stepW (runW h0) := by
    rw [runW_eq, List.foldl_append]; rfl
  constructor
  · simp only [objPrec, e, foldl_objInh_of_old h ho]
  · have hmono : ∀ (h : List (Name × ClassDef)) (w : World), o.gen < w.gens o.cls →
        o.gen < (h.foldl stepW w).gens o.cls := by
      intro h
      induction h with
      | nil => intro w hw; exact hw
      | cons p h ih =>
        intro w hw
        exact ih _ (Nat.lt_of_lt_of_le hw (gens_mono w p.1 p.2 o.cls))
    have := hmono h (runW h0) ho
    rw [e]
    simp only [objIsCurrent, decide_eq_false_iff_not]
    omega

/-- existing_instance_keeps_class: when the class of an instance is redefined — and whatever is
    defined afterwards — the instance keeps the precedence list its class object had (so typep
    and method applicability of that instance do not change, by `instance_coherent`), while
    `class-of` is no longer the registered class of that name. -/
theorem existing_instance_keeps_class (h0 h : List (Name × ClassDef)) (o : Obj) (d : ClassDef)
    (hcur : objIsCurrent (runW h0) o = true) (hdef : (find (runW h0).st o.cls).isSome) :
    objPrec (runW (h0 ++ (o.cls, d) :: h)) o = objPrec (runW h0) o ∧
    objIsCurrent (runW (h0 ++ (o.cls, d) :: h)) o = false := by
  have hg : o.gen = (runW h0).gens o.cls := by simpa [objIsCurrent] using hcur
  have e1 : runW (h0 ++ [(o.cls, d)]) = defclassW (runW h0) o.cls d := by
    rw [runW_eq, List.foldl_append]; rfl
  have hlt : o.gen < (runW (h0 ++ [(o.cls, d)])).gens o.cls := by
    rw [e1]; simp [defclassW, hg]
  have hs := superseded_instance_frozen (h0 ++ [(o.cls, d)]) h o hlt
  have happ : h0 ++ [(o.cls, d)] ++ h = h0 ++ (o.cls, d) :: h := by simp
  rw [happ] at hs
  refine ⟨?_, hs.2⟩
  rw [hs.1, e1]
  simp only [objPrec, objInh_at_supersession hg hdef d]

example : (match makeObj (runW [(0, ⟨[], [], []⟩), (1, ⟨[0], [], []⟩)]) 1 [] with
    | .ok o => objPrec (runW ([(0, ⟨[], [], []⟩), (1, ⟨[0], [], []⟩)] ++ [(3, ⟨[], [], []⟩), (1, ⟨[3], [], []⟩)])) o
    | .error _ => none) = some [1, 0] := by decide

/-! ## two facts that tie the model's shape to the code's -/

/-- initarg_order_irrelevant: when no slot is reached by two of the supplied pairs, the order in
    which the pairs are supplied (slip walks a Go map of them) does not change any slot. -/
theorem initarg_order_irrelevant (sds : List SlotDef) (args1 args2 : List (Name × Val))
    (hp : args1.Perm args2) (hu : ∀ x ∈ slotNames sds, Unambiguous sds args1 x) :
    build sds args1 = build sds args2 := by
  rw [slot_init_spec, slot_init_spec]
  apply List.map_congr_left
  intro x hx
  rw [valueSpec_perm hp (hu x hx)]

example : ∀ x ∈ slotNames [⟨0, [0], some 2⟩, ⟨1, [1], none⟩],
    Unambiguous [⟨0, [0], some 2⟩, ⟨1, [1], none⟩] [(1, 7), (0, 8)] x := by
  unfold Unambiguous
  decide

/-- the model's `dedup` is the loop of mergeSupers: walk the candidates and append those that are
    not yet on the list -/
theorem dedup_is_append_loop (l : List Name) :
    dedup l = l.foldl (fun acc x => if x ∈ acc then acc else acc ++ [x]) [] :=
  dedup_eq_appendNew l

end SlipVerif.Clos
