import SlipVerif.Gen.C08Defs
/-!
C08 — obligations over facts regenerated from the sources on every run (`Gen/C08Defs.lean`, produced by
`extract/c08_defs.go` from function.go, package.go and pkg/cl/defun.go).

The model (`Model/Compile.lean`) has the property because every name has **one cell** that is patched in
place: `declare` keeps the arguments of a call to an unknown name, `define` overwrites the cell the name
already has (signature, `&aux`, body, captured variables), `undefine` turns that cell back into the
placeholder, `setVar` stores into the variable cell the name already has. The facts below are the places
in the code that make slip do the same; a change there is a reason to look for a failing input (the
correspondence check is run as the witness search), not yet a verdict.
-/
namespace SlipVerif.Theorems.GenC08
open SlipVerif.Gen.C08Defs

/-- `CompileList`: the creator registered for a call to an unknown name passes the call's arguments on
    (model: `resolve` keeps `args`; `compile_correct` needs it — defect 1 of the notes) -/
theorem placeholder_creator_keeps_args : placeholderCreators ≠ [] ∧ placeholderCreators.all id = true := by
  decide

/-- `Package.DefLambda` patches the registered Lambda in place: parameters/documentation, body forms,
    closure and the macro flag all come from the new definition (model: `define` overwrites `sig`, `aux`,
    `body` **and `env`** of the cell — `redefinition_takes_effect`, `closure_redefinition`) -/
theorem deflambda_patches_every_field :
    ∀ f ∈ ["Closure", "Doc", "Forms", "Macro"], f ∈ patchedFields := by
  decide

/-- `Package.Set` creates a new variable entry only when the name has none: otherwise the value goes
    into the entry that compiled function bodies point to (model: `setVar`, `assignment_takes_effect`) -/
theorem set_stores_into_the_existing_entry : setInternsOnlyWhenAbsent = true := by decide

/-- `Package.Undefine` keeps the Lambda of the name registered and resets it (model: `undefine` keeps the
    cell and makes it the placeholder — `undefine_takes_effect`, `undefine_then_define`) -/
theorem undefine_keeps_the_cell : undefineDeletesLambda = false ∧ undefineResetsLambda = true := by decide

/-- `defun` goes on with the Lambda shared by all calls of the name and sets the closure on that one
    (model: one cell per name; defect 2 of the notes and seeded mutant C08-4) -/
theorem defun_continues_with_the_shared_lambda : defunSharesLambda = true := by decide

end SlipVerif.Theorems.GenC08
