import SlipVerif.Model.Seq
import SlipVerif.Lemmas.Seq
/-
  C14 — sequence functions honour their keyword arguments on lists, vectors and strings.

  Property theorems about SlipVerif.Model.Seq, the model the correspondence harness
  (harness/cmd/vh/c14.go) runs against the implementation. Every statement quantifies over all
  sequences, bounds, tests and keys; `p` is the match predicate that `Kw.matcher` builds from
  item / :test / :test-not / :key / -if / -if-not. Helper lemmas: SlipVerif/Lemmas/Seq.lean.
-/
namespace SlipVerif.Seq
variable {α β : Type}

/-! ## the bounded part and the frame -/

/-- frame: elements before `start` are untouched -/
theorem onRange_take (s e : Nat) (f : List α → List α) (xs : List α) (hs : s ≤ xs.length) :
    (onRange s e f xs).take s = xs.take s := by
  unfold onRange
  rw [List.append_assoc, List.take_append_of_le_length (by simp; omega)]
  simp [List.take_take]

/-- frame: elements from `end` on are untouched (they follow the rewritten bounded part) -/
theorem onRange_drop (s e : Nat) (f : List α → List α) (xs : List α) (hs : s ≤ xs.length) :
    (onRange s e f xs).drop (s + (f (mid s e xs)).length) = xs.drop e := by
  unfold onRange
  have h1 : (xs.take s ++ f (mid s e xs)).length = s + (f (mid s e xs)).length := by
    simp; omega
  rw [← h1, List.drop_left]

/-! ## position / find / count -/

/-- `position` (forward): the least index in `[start, end)` whose element satisfies the test -/
theorem position_spec (p : α → Bool) (s e : Nat) (xs : List α) (i : Nat) :
    position p s e false xs = some i ↔
      s ≤ i ∧ i < e ∧ (∃ x, xs[i]? = some x ∧ p x = true) ∧
        ∀ j, s ≤ j → j < i → ∀ y, xs[j]? = some y → p y = false := by
  unfold position
  simp only [Bool.false_eq_true, if_false, Option.map_eq_some_iff, idxFirst_eq_some_iff, mid_getElem?]
  constructor
  · rintro ⟨k, ⟨⟨x, hx, hpx⟩, hall⟩, rfl⟩
    have hk : k < e - s := by
      by_cases h : k < e - s
      · exact h
      · simp [h] at hx
    simp only [hk, if_true] at hx
    refine ⟨by omega, by omega, ⟨x, by rw [Nat.add_comm]; exact hx, hpx⟩, ?_⟩
    intro j hsj hjk y hy
    have := hall (j - s) (by omega) y
    rw [if_pos (by omega)] at this
    exact this (by rw [show s + (j - s) = j by omega]; exact hy)
  · rintro ⟨hsi, hie, ⟨x, hx, hpx⟩, hall⟩
    refine ⟨i - s, ⟨⟨x, ?_, hpx⟩, ?_⟩, by omega⟩
    · rw [if_pos (by omega), show s + (i - s) = i by omega]; exact hx
    · intro j hj y hy
      have hj' : j < e - s := by omega
      rw [if_pos hj'] at hy
      exact hall (s + j) (by omega) (by omega) y hy

/-- `position` with `:from-end`: the greatest such index -/
theorem position_spec_from_end (p : α → Bool) (s e : Nat) (xs : List α) (i : Nat) :
    position p s e true xs = some i ↔
      s ≤ i ∧ i < e ∧ (∃ x, xs[i]? = some x ∧ p x = true) ∧
        ∀ j, i < j → j < e → ∀ y, xs[j]? = some y → p y = false := by
  unfold position
  simp only [if_true, Option.map_eq_some_iff, idxLast_eq_some_iff, mid_getElem?]
  constructor
  · rintro ⟨k, ⟨⟨x, hx, hpx⟩, hall⟩, rfl⟩
    have hk : k < e - s := by
      by_cases h : k < e - s
      · exact h
      · simp [h] at hx
    simp only [hk, if_true] at hx
    refine ⟨by omega, by omega, ⟨x, by rw [Nat.add_comm]; exact hx, hpx⟩, ?_⟩
    intro j hkj hje y hy
    have := hall (j - s) (by omega) y
    rw [if_pos (by omega)] at this
    exact this (by rw [show s + (j - s) = j by omega]; exact hy)
  · rintro ⟨hsi, hie, ⟨x, hx, hpx⟩, hall⟩
    refine ⟨i - s, ⟨⟨x, ?_, hpx⟩, ?_⟩, by omega⟩
    · rw [if_pos (by omega), show s + (i - s) = i by omega]; exact hx
    · intro j hj y hy
      by_cases hj' : j < e - s
      · rw [if_pos hj'] at hy
        exact hall (s + j) (by omega) (by omega) y hy
      · simp [hj'] at hy

/-- `position` answers `nil` exactly when no element of `[start, end)` satisfies the test -/
theorem position_none_iff (p : α → Bool) (s e : Nat) (fromEnd : Bool) (xs : List α) :
    position p s e fromEnd xs = none ↔ ∀ x ∈ mid s e xs, p x = false := by
  unfold position
  cases fromEnd <;> simp [idxFirst_eq_none_iff, idxLast_eq_none_iff]

/-- `find = nth ∘ position` -/
theorem find_eq_nth_position (p : α → Bool) (s e : Nat) (fromEnd : Bool) (xs : List α) :
    find p s e fromEnd xs = (position p s e fromEnd xs).bind (fun i => xs[i]?) := by
  unfold find position
  cases fromEnd
  · simp only [Bool.false_eq_true, if_false, find?_eq_getElem?_idxFirst]
    cases h : idxFirst p (mid s e xs) with
    | none => simp
    | some i =>
      have := (idxFirst_eq_some_iff p _ i).mp h
      obtain ⟨⟨x, hx, _⟩, _⟩ := this
      have hi : i < e - s := by
        by_cases hi : i < e - s
        · exact hi
        · simp [mid_getElem?, hi] at hx
      simp [mid_getElem?, hi, Nat.add_comm]
  · simp only [if_true, find?_reverse_eq_getElem?_idxLast]
    cases h : idxLast p (mid s e xs) with
    | none => simp
    | some i =>
      have := (idxLast_eq_some_iff p _ i).mp h
      obtain ⟨⟨x, hx, _⟩, _⟩ := this
      have hi : i < e - s := by
        by_cases hi : i < e - s
        · exact hi
        · simp [mid_getElem?, hi] at hx
      simp [mid_getElem?, hi, Nat.add_comm]

/-- `count = length ∘ filter` on the bounded part -/
theorem count_eq_length_filter (p : α → Bool) (s e : Nat) (xs : List α) :
    count p s e xs = ((mid s e xs).filter p).length := by
  unfold count
  exact List.countP_eq_length_filter

/-- nothing outside `[start, end)` is counted, everything inside is -/
theorem count_split (p : α → Bool) (s e : Nat) (xs : List α) (hse : s ≤ e) :
    xs.countP p = (xs.take s).countP p + count p s e xs + (xs.drop e).countP p := by
  unfold count
  conv => lhs; rw [← take_mid_drop s e xs hse]
  simp only [List.countP_append]

/-! ## remove / substitute -/

/-- `remove` (forward). Outside `[start, end)` nothing changes; inside, a prefix of the bounded part
    loses its matches and the remainder is kept whole, the prefix holding exactly
    `min count (matches)` matches: exactly the first `count` matches are dropped, order kept. -/
theorem remove_spec (p : α → Bool) (s e : Nat) (cnt : Option Int) (xs : List α) :
    ∃ k, k ≤ (mid s e xs).length ∧
      remove p s e cnt false xs =
        xs.take s ++ (((mid s e xs).take k).filter (fun x => !p x) ++ (mid s e xs).drop k) ++ xs.drop e ∧
      ((mid s e xs).take k).countP p = min (limit cnt (mid s e xs).length) ((mid s e xs).countP p) := by
  obtain ⟨k, hk, heq, hc⟩ := dropFirstN_spec p (limit cnt (mid s e xs).length) (mid s e xs)
  exact ⟨k, hk, by simp [remove, onRange, directed, heq], hc⟩

/-- `remove` with `:from-end`: a suffix of the bounded part loses its matches — exactly the last
    `count` matches are dropped. -/
theorem remove_spec_from_end (p : α → Bool) (s e : Nat) (cnt : Option Int) (xs : List α) :
    ∃ k, k ≤ (mid s e xs).length ∧
      remove p s e cnt true xs =
        xs.take s ++ ((mid s e xs).take k ++ ((mid s e xs).drop k).filter (fun x => !p x)) ++ xs.drop e ∧
      ((mid s e xs).drop k).countP p = min (limit cnt (mid s e xs).length) ((mid s e xs).countP p) := by
  obtain ⟨k, hk, heq, hc⟩ := dropFirstN_spec p (limit cnt (mid s e xs).length) (mid s e xs).reverse
  simp only [List.length_reverse] at hk
  refine ⟨(mid s e xs).length - k, by omega, ?_, ?_⟩
  · simp only [remove, onRange, directed, if_true, heq, List.reverse_append]
    rw [List.drop_reverse, List.take_reverse, List.reverse_reverse, List.filter_reverse,
      List.reverse_reverse]
  · rw [List.take_reverse, List.countP_reverse] at hc
    rw [hc, List.countP_reverse]

/-- without `:count` every match in the bounded part is dropped, whatever the direction -/
theorem remove_all (p : α → Bool) (s e : Nat) (fromEnd : Bool) (xs : List α) :
    remove p s e none fromEnd xs = xs.take s ++ (mid s e xs).filter (fun x => !p x) ++ xs.drop e := by
  have key : ∀ l : List α, dropFirstN p l.length l = l.filter (fun x => !p x) := by
    intro l
    obtain ⟨k, hk, heq, hc⟩ := dropFirstN_spec p l.length l
    have hle : l.countP p ≤ l.length := List.countP_le_length
    rw [Nat.min_eq_right hle] at hc
    -- the dropped suffix holds no match
    have hsplit : l.countP p = (l.take k).countP p + (l.drop k).countP p := by
      conv => lhs; rw [← List.take_append_drop k l]
      exact List.countP_append
    have hz : (l.drop k).countP p = 0 := by omega
    have hnone : (l.drop k).filter (fun x => !p x) = l.drop k := by
      rw [List.filter_eq_self]
      intro x hx
      have := List.countP_eq_zero.mp hz x hx
      simpa using this
    rw [heq]
    conv => rhs; rw [← List.take_append_drop k l, List.filter_append, hnone]
  cases fromEnd
  · simp [remove, onRange, directed, limit, key]
  · simp only [remove, onRange, directed, limit, if_true]
    have := key (mid s e xs).reverse
    rw [List.length_reverse] at this
    rw [this, List.filter_reverse, List.reverse_reverse]

/-- order is kept: the result is a subsequence of the input -/
theorem remove_sublist (p : α → Bool) (s e : Nat) (cnt : Option Int) (fromEnd : Bool) (xs : List α)
    (hse : s ≤ e) : (remove p s e cnt fromEnd xs).Sublist xs := by
  have hx := take_mid_drop s e xs hse
  cases fromEnd
  · obtain ⟨k, _, heq, _⟩ := remove_spec p s e cnt xs
    rw [heq]
    conv => rhs; rw [← hx]
    apply List.Sublist.append (List.Sublist.append (List.Sublist.refl _) _) (List.Sublist.refl _)
    conv => rhs; rw [← List.take_append_drop k (mid s e xs)]
    exact List.Sublist.append List.filter_sublist (List.Sublist.refl _)
  · obtain ⟨k, _, heq, _⟩ := remove_spec_from_end p s e cnt xs
    rw [heq]
    conv => rhs; rw [← hx]
    apply List.Sublist.append (List.Sublist.append (List.Sublist.refl _) _) (List.Sublist.refl _)
    conv => rhs; rw [← List.take_append_drop k (mid s e xs)]
    exact List.Sublist.append (List.Sublist.refl _) List.filter_sublist

/-- `substitute` (forward): same shape as `remove_spec`, the matches of the scanned prefix are
    replaced by the new item instead of dropped; the length never changes. -/
theorem substitute_spec (new : α) (p : α → Bool) (s e : Nat) (cnt : Option Int) (xs : List α) :
    ∃ k, k ≤ (mid s e xs).length ∧
      substitute new p s e cnt false xs =
        xs.take s ++ (((mid s e xs).take k).map (fun x => if p x then new else x) ++ (mid s e xs).drop k) ++
          xs.drop e ∧
      ((mid s e xs).take k).countP p = min (limit cnt (mid s e xs).length) ((mid s e xs).countP p) := by
  obtain ⟨k, hk, heq, hc⟩ := replFirstN_spec new p (limit cnt (mid s e xs).length) (mid s e xs)
  exact ⟨k, hk, by simp [substitute, onRange, directed, heq], hc⟩

theorem substitute_spec_from_end (new : α) (p : α → Bool) (s e : Nat) (cnt : Option Int) (xs : List α) :
    ∃ k, k ≤ (mid s e xs).length ∧
      substitute new p s e cnt true xs =
        xs.take s ++ ((mid s e xs).take k ++ ((mid s e xs).drop k).map (fun x => if p x then new else x)) ++
          xs.drop e ∧
      ((mid s e xs).drop k).countP p = min (limit cnt (mid s e xs).length) ((mid s e xs).countP p) := by
  obtain ⟨k, hk, heq, hc⟩ := replFirstN_spec new p (limit cnt (mid s e xs).length) (mid s e xs).reverse
  simp only [List.length_reverse] at hk
  refine ⟨(mid s e xs).length - k, by omega, ?_, ?_⟩
  · simp only [substitute, onRange, directed, if_true, heq, List.reverse_append]
    rw [List.drop_reverse, List.take_reverse, List.reverse_reverse, ← List.map_reverse,
      List.reverse_reverse]
  · rw [List.take_reverse, List.countP_reverse] at hc
    rw [hc, List.countP_reverse]

theorem substitute_length (new : α) (p : α → Bool) (s e : Nat) (cnt : Option Int) (fromEnd : Bool)
    (xs : List α) (hse : s ≤ e) : (substitute new p s e cnt fromEnd xs).length = xs.length := by
  have hx := congrArg List.length (take_mid_drop s e xs hse)
  simp only [List.length_append] at hx
  have hd : (directed fromEnd (replFirstN new p (limit cnt (mid s e xs).length)) (mid s e xs)).length
      = (mid s e xs).length := by
    cases fromEnd <;> simp [directed, replFirstN_length]
  simp only [substitute, onRange, List.length_append, hd]
  exact hx

/-! ## the transcribed Go loops compute the Spec -/

/-- position.go's loops compute `position` -/
theorem positionImpl_eq_position (p : α → Bool) (s e : Nat) (fromEnd : Bool) (xs : List α) :
    positionImpl p s e fromEnd xs = position p s e fromEnd xs := by
  unfold positionImpl position
  cases fromEnd
  · simp [positionFwdLoop_eq, mid]
  · simp [positionBwdLoop_eq, mid]

/-- count.go's loop computes `count` -/
theorem countImpl_eq_count (p : α → Bool) (s e : Nat) (xs : List α) :
    countImpl p s e xs = count p s e xs := by
  simp [countImpl, count, countLoop_eq, mid]

/-- delete.go's loops (forward scan; backward scan with countdown, then reversal) compute `remove`
    for every in-range `start`/`end`, every `:count` and both directions -/
theorem deleteImpl_eq_remove (p : α → Bool) (s e : Nat) (cnt : Option Int) (fromEnd : Bool) (xs : List α)
    (hse : s ≤ e) (he : e ≤ xs.length) :
    deleteImpl p s e cnt fromEnd xs = remove p s e cnt fromEnd xs := by
  have hml : (mid s e xs).length ≤ xs.length := by rw [mid_length s e xs he]; omega
  unfold deleteImpl remove onRange directed
  cases fromEnd
  · simp only [Bool.false_eq_true, if_false]
    rw [deleteFwdLoop_eq p s e _ xs hse, dropFirstN_limit p cnt (mid s e xs) xs.length hml]
  · simp only [if_true]
    rw [deleteBwdLoop_eq_fwd p s e _ xs.length 0 0 xs.reverse (by simp) he hse,
      deleteFwdLoop_eq p _ _ _ _ (by omega), mid_reverse s e xs hse he]
    simp only [List.reverse_append, List.append_assoc]
    rw [List.drop_reverse, List.take_reverse, List.reverse_reverse, List.reverse_reverse,
      show xs.length - (xs.length - s) = s by omega, show xs.length - (xs.length - e) = e by omega]
    congr 2
    have := dropFirstN_limit p cnt (mid s e xs).reverse xs.length (by simpa using hml)
    rw [List.length_reverse] at this
    rw [this]

/-! ## remove-duplicates -/

/-- which duplicate survives: the survivors are exactly the positions with no later match -/
theorem dedupKeepLast_eq_filter (eqv : α → α → Bool) (l : List α) :
    dedupKeepLast eqv l =
      (List.range l.length).filterMap (fun i =>
        match l[i]? with
        | some x => if (l.drop (i + 1)).any (fun y => eqv x y) then none else some x
        | none => none) := by
  induction l with
  | nil => rfl
  | cons a l ih =>
    unfold dedupKeepLast
    rw [List.length_cons, List.range_succ_eq_map, List.filterMap_cons, List.filterMap_map]
    simp only [List.getElem?_cons_zero, Nat.zero_add, List.drop_succ_cons, List.drop_zero]
    have : (fun i => match (a :: l)[i + 1]? with
        | some x => if ((a :: l).drop (i + 1 + 1)).any (fun y => eqv x y) then none else some x
        | none => none) = (fun i => match l[i]? with
        | some x => if (l.drop (i + 1)).any (fun y => eqv x y) then none else some x
        | none => none) := by
      funext i
      simp
    by_cases h : l.any (fun y => eqv a y) = true
    · simp only [h, if_true]
      rw [ih]
      congr 1
    · simp only [h, Bool.false_eq_true, if_false]
      rw [ih]
      congr 2

/-- `remove-duplicates`: outside `[start, end)` nothing changes; inside, the survivors are a
    subsequence of the bounded part in which no two elements match, and (for an equivalence) every
    element of the bounded part still has a representative -/
theorem remove_duplicates_spec (eqv : α → α → Bool) (s e : Nat) (fromEnd : Bool) (xs : List α) :
    ∃ r, removeDuplicates eqv s e fromEnd xs = xs.take s ++ r ++ xs.drop e ∧
      r.Sublist (mid s e xs) ∧ r.Pairwise (fun a b => eqv a b = false) ∧
      ((∀ a, eqv a a = true) → (∀ a b c, eqv a b = true → eqv b c = true → eqv a c = true) →
        (∀ a b, eqv a b = true → eqv b a = true) → ∀ x ∈ mid s e xs, ∃ y ∈ r, eqv x y = true) := by
  cases fromEnd
  · refine ⟨dedupKeepLast eqv (mid s e xs), by simp [removeDuplicates, onRange],
      dedupKeepLast_sublist _ _, dedupKeepLast_pairwise _ _, ?_⟩
    intro hr ht _
    exact dedupKeepLast_covers eqv hr ht _
  · refine ⟨dedupKeepFirst eqv (mid s e xs), by simp [removeDuplicates, onRange],
      dedupKeepFirst_sublist _ _, dedupKeepFirst_pairwise _ _, ?_⟩
    intro hr ht hs x hx
    obtain ⟨y, hy, hyx⟩ := dedupKeepFirst_covers eqv hr ht _ x hx
    exact ⟨y, hy, hs _ _ hyx⟩

/-! ## member / assoc / rassoc -/

/-- `member`: the list splits into a prefix without a match and the result, which starts with a match
    (or is empty when nothing matches) -/
theorem member_spec (p : α → Bool) (l : List α) :
    ∃ pre, l = pre ++ member p l ∧ (∀ x ∈ pre, p x = false) ∧
      (member p l = [] ∨ ∃ x t, member p l = x :: t ∧ p x = true) := by
  induction l with
  | nil => exact ⟨[], by simp [member], by simp, Or.inl rfl⟩
  | cons a l ih =>
    unfold member
    by_cases hp : p a = true
    · exact ⟨[], by simp [hp], by simp, Or.inr ⟨a, l, by simp [hp], hp⟩⟩
    · have hp' : p a = false := by simpa using hp
      obtain ⟨pre, h1, h2, h3⟩ := ih
      refine ⟨a :: pre, ?_, ?_, ?_⟩
      · simp only [hp', Bool.false_eq_true, if_false, List.cons_append]
        rw [← h1]
      · intro x hx
        rcases List.mem_cons.mp hx with rfl | hx
        · exact hp'
        · exact h2 x hx
      · simpa [hp'] using h3

/-- `assoc`: the first entry that is a pair whose car satisfies the test; `nil` entries are skipped -/
theorem assoc_spec (p : Obj → Bool) (alist : List Obj) (r : Obj) (h : assoc p alist = some r) :
    ∃ a d pre post, r = .cons a d ∧ p a = true ∧ alist = pre ++ r :: post ∧
      ∀ x ∈ pre, ∀ a' d', x = .cons a' d' → p a' = false := by
  unfold assoc at h
  obtain ⟨hr, pre, post, hsplit, hpre⟩ := List.find?_eq_some_iff_append.mp h
  cases r with
  | cons a d =>
    refine ⟨a, d, pre, post, rfl, by simpa using hr, hsplit, ?_⟩
    intro x hx a' d' hxe
    have := hpre x hx
    subst hxe
    simpa using this
  | _ => simp at hr

theorem assoc_none (p : Obj → Bool) (alist : List Obj) (h : assoc p alist = none) :
    ∀ a d, Obj.cons a d ∈ alist → p a = false := by
  unfold assoc at h
  intro a d hm
  have := List.find?_eq_none.mp h _ hm
  simpa using this

theorem rassoc_spec (p : Obj → Bool) (alist : List Obj) (r : Obj) (h : rassoc p alist = some r) :
    ∃ a d pre post, r = .cons a d ∧ p d = true ∧ alist = pre ++ r :: post ∧
      ∀ x ∈ pre, ∀ a' d', x = .cons a' d' → p d' = false := by
  unfold rassoc at h
  obtain ⟨hr, pre, post, hsplit, hpre⟩ := List.find?_eq_some_iff_append.mp h
  cases r with
  | cons a d =>
    refine ⟨a, d, pre, post, rfl, by simpa using hr, hsplit, ?_⟩
    intro x hx a' d' hxe
    have := hpre x hx
    subst hxe
    simpa using this
  | _ => simp at hr

/-! ## search / mismatch -/

/-- `search` (forward): the leftmost index of sequence-2's bounded part at which the bounded part of
    sequence-1 matches element-wise -/
theorem search_spec (eqv : α → α → Bool) (s1 e1 s2 e2 : Nat) (xs ys : List α) (i : Nat) :
    search eqv s1 e1 s2 e2 false xs ys = some i ↔
      s2 ≤ i ∧ i - s2 ≤ (mid s2 e2 ys).length ∧
        matchAt eqv (mid s1 e1 xs) ((mid s2 e2 ys).drop (i - s2)) = true ∧
        ∀ j, j < i - s2 → matchAt eqv (mid s1 e1 xs) ((mid s2 e2 ys).drop j) = false := by
  unfold search
  simp only [Bool.false_eq_true, if_false, Option.map_eq_some_iff, searchFirst_eq_some_iff]
  constructor
  · rintro ⟨k, ⟨h1, h2, h3⟩, rfl⟩
    simp only [Nat.add_sub_cancel]
    exact ⟨by omega, h1, h2, h3⟩
  · rintro ⟨h0, h1, h2, h3⟩
    exact ⟨i - s2, ⟨h1, h2, h3⟩, by omega⟩

/-- `search` with `:from-end`: the rightmost such index -/
theorem search_spec_from_end (eqv : α → α → Bool) (s1 e1 s2 e2 : Nat) (xs ys : List α) (i : Nat) :
    search eqv s1 e1 s2 e2 true xs ys = some i ↔
      s2 ≤ i ∧ i - s2 ≤ (mid s2 e2 ys).length ∧
        matchAt eqv (mid s1 e1 xs) ((mid s2 e2 ys).drop (i - s2)) = true ∧
        ∀ j, i - s2 < j → j ≤ (mid s2 e2 ys).length →
          matchAt eqv (mid s1 e1 xs) ((mid s2 e2 ys).drop j) = false := by
  unfold search
  simp only [if_true, Option.map_eq_some_iff, searchLast_eq_some_iff]
  constructor
  · rintro ⟨k, ⟨h1, h2, h3⟩, rfl⟩
    simp only [Nat.add_sub_cancel]
    exact ⟨by omega, h1, h2, h3⟩
  · rintro ⟨h0, h1, h2, h3⟩
    exact ⟨i - s2, ⟨h1, h2, h3⟩, by omega⟩

/-- `mismatch` (forward): `start1` plus the length of the longest matching prefix; `nil` iff the
    bounded parts match entirely. With `:from-end` the same on the reversed bounded parts, counted
    back from `end1` (one plus the index of the rightmost difference). -/
theorem mismatch_spec (eqv : α → α → Bool) (s1 e1 s2 e2 : Nat) (xs ys : List α) :
    mismatch eqv s1 e1 s2 e2 false xs ys = (mismatchFwd eqv (mid s1 e1 xs) (mid s2 e2 ys)).map (· + s1) ∧
    mismatch eqv s1 e1 s2 e2 true xs ys =
      (mismatchFwd eqv (mid s1 e1 xs).reverse (mid s2 e2 ys).reverse).map (fun k => e1 - k) ∧
    (∀ fromEnd, mismatch eqv s1 e1 s2 e2 fromEnd xs ys = none ↔
      (mid s1 e1 xs).length = (mid s2 e2 ys).length ∧
        ∀ (i : Nat) a b, (mid s1 e1 xs)[i]? = some a → (mid s2 e2 ys)[i]? = some b → eqv a b = true) := by
  refine ⟨by simp [mismatch], by simp [mismatch], ?_⟩
  intro fromEnd
  cases fromEnd
  · simp only [mismatch, Bool.false_eq_true, if_false, Option.map_eq_none_iff, mismatchFwd_eq_none_iff,
      matchAt_iff]
    constructor
    · rintro ⟨h1, _, h3⟩; exact ⟨h1, h3⟩
    · rintro ⟨h1, h3⟩; exact ⟨h1, by omega, h3⟩
  · simp only [mismatch, if_true, Option.map_eq_none_iff, mismatchFwd_eq_none_iff, matchAt_iff,
      List.length_reverse]
    constructor
    · rintro ⟨h1, _, h3⟩
      refine ⟨h1, ?_⟩
      intro i a b ha hb
      have hi : i < (mid s1 e1 xs).length := (List.getElem?_eq_some_iff.mp ha).1
      have hi2 : i < (mid s2 e2 ys).length := (List.getElem?_eq_some_iff.mp hb).1
      apply h3 ((mid s1 e1 xs).length - 1 - i) a b
      · rw [List.getElem?_reverse (by omega)]
        rw [show (mid s1 e1 xs).length - 1 - ((mid s1 e1 xs).length - 1 - i) = i by omega]; exact ha
      · rw [List.getElem?_reverse (by omega)]
        rw [show (mid s2 e2 ys).length - 1 - ((mid s1 e1 xs).length - 1 - i) = i by omega]; exact hb
    · rintro ⟨h1, h3⟩
      refine ⟨h1, by omega, ?_⟩
      intro i a b ha hb
      have hi : i < (mid s1 e1 xs).reverse.length := (List.getElem?_eq_some_iff.mp ha).1
      have hi2 : i < (mid s2 e2 ys).reverse.length := (List.getElem?_eq_some_iff.mp hb).1
      simp only [List.length_reverse] at hi hi2
      rw [List.getElem?_reverse hi] at ha
      rw [List.getElem?_reverse hi2] at hb
      rw [← h1] at hb
      exact h3 _ a b ha hb

/-! ## subseq / fill / replace / reverse -/

/-- `subseq`: `end - start` elements, the i-th being element `start + i` of the sequence -/
theorem subseq_spec (s e : Nat) (xs : List α) (he : e ≤ xs.length) :
    (subseq s e xs).length = e - s ∧ ∀ i, i < e - s → (subseq s e xs)[i]? = xs[s + i]? := by
  refine ⟨mid_length s e xs he, ?_⟩
  intro i hi
  simp [subseq, mid_getElem?, hi]

/-- `fill`: same length; positions in `[start, end)` hold the item, all others are unchanged -/
theorem fill_spec (item : α) (s e : Nat) (xs : List α) (hse : s ≤ e) (he : e ≤ xs.length) :
    (fill item s e xs).length = xs.length ∧
      ∀ i, i < xs.length → (fill item s e xs)[i]? = if s ≤ i ∧ i < e then some item else xs[i]? := by
  refine ⟨onRange_length s e _ xs hse (by simp), ?_⟩
  intro i hi
  have hml := mid_length s e xs he
  have hs : (List.take s xs).length = s := by simp; omega
  unfold fill onRange
  by_cases h1 : i < s
  · rw [List.append_assoc, List.getElem?_append_left (by omega)]
    rw [List.getElem?_take, if_pos h1, if_neg (by omega)]
  · by_cases h2 : i < e
    · rw [List.getElem?_append_left (by simp only [List.length_append, List.length_map, hs, hml]; omega),
        List.getElem?_append_right (by omega)]
      have : i - (List.take s xs).length < (mid s e xs).length := by rw [hs, hml]; omega
      rw [List.getElem?_map, List.getElem?_eq_getElem this, if_pos ⟨by omega, h2⟩]
      rfl
    · rw [List.getElem?_append_right (by simp only [List.length_append, List.length_map, hs, hml]; omega)]
      simp only [List.length_append, List.length_map, hs, hml, List.getElem?_drop]
      rw [if_neg (by omega)]
      congr 1
      omega

/-- `replace`: same length; `n = min (end1-start1) (end2-start2)` elements are copied from
    `start2…` of the source to `start1…` of the target, nothing else changes -/
theorem replace_spec (s1 e1 s2 e2 : Nat) (xs ys : List α) (h1 : s1 ≤ e1) (h1' : e1 ≤ xs.length)
    (h2' : e2 ≤ ys.length) :
    (replace s1 e1 s2 e2 xs ys).length = xs.length ∧
      ∀ i, i < xs.length → (replace s1 e1 s2 e2 xs ys)[i]? =
        if s1 ≤ i ∧ i < s1 + min (e1 - s1) (e2 - s2) then ys[s2 + (i - s1)]? else xs[i]? := by
  have hm := mid_length s2 e2 ys h2'
  have hlen : ((mid s2 e2 ys).take (min (e1 - s1) (e2 - s2))).length = min (e1 - s1) (e2 - s2) := by
    simp [hm]
  constructor
  · simp only [replace, List.length_append, hlen, List.length_take, List.length_drop]; omega
  · intro i hi
    unfold replace
    by_cases c1 : i < s1
    · have hs : (List.take s1 xs).length = s1 := by simp; omega
      rw [List.append_assoc, List.getElem?_append_left (by omega)]
      rw [List.getElem?_take, if_pos c1, if_neg (by omega)]
    · by_cases c2 : i < s1 + min (e1 - s1) (e2 - s2)
      · rw [List.getElem?_append_left (by simp only [List.length_append, hlen, List.length_take]; omega),
          List.getElem?_append_right (by simp; omega)]
        have hs : (List.take s1 xs).length = s1 := by simp; omega
        rw [hs, List.getElem?_take, if_pos (by omega), mid_getElem?, if_pos (by omega),
          if_pos ⟨by omega, c2⟩]
      · rw [List.getElem?_append_right (by simp only [List.length_append, hlen, List.length_take]; omega)]
        simp only [List.length_append, hlen, List.length_take, List.getElem?_drop]
        rw [if_neg (by omega)]
        congr 1
        omega

/-- `reverse`: element `i` of the result is element `length - 1 - i` of the sequence -/
theorem reverse_spec (xs : List α) (i : Nat) (hi : i < xs.length) :
    xs.reverse[i]? = xs[xs.length - 1 - i]? := List.getElem?_reverse hi

/-! ## reduce -/

/-- `reduce` is a left fold from the initial value -/
theorem reduce_foldl (f : α → α → α) (f0 z : α) (l : List α) :
    reduce f f0 (some z) false l = l.foldl f z := rfl

/-- with `:from-end` a right fold into the initial value -/
theorem reduce_foldr (f : α → α → α) (f0 z : α) (l : List α) :
    reduce f f0 (some z) true l = l.foldr f z := rfl

/-- the initial value is logically placed before the subsequence … -/
theorem reduce_init_left (f : α → α → α) (f0 z : α) (l : List α) :
    reduce f f0 (some z) false l = reduce f f0 none false (z :: l) := rfl

/-- … or after it when `:from-end` is true -/
theorem reduce_init_right (f : α → α → α) (f0 z : α) (l : List α) :
    reduce f f0 (some z) true l = reduce f f0 none true (l ++ [z]) := by
  simp only [reduce, List.reverse_append, List.reverse_cons, List.reverse_nil, List.nil_append,
    List.cons_append]
  rw [List.foldl_reverse]

/-- without an initial value: the first (last) element starts the fold; one element is returned as
    is; an empty subsequence yields the function's zero-argument value -/
theorem reduce_no_init (f : α → α → α) (f0 x : α) (l : List α) :
    reduce f f0 none false (x :: l) = l.foldl f x ∧
    reduce f f0 none true (l ++ [x]) = l.foldr f x ∧
    reduce f f0 none false [x] = x ∧ reduce f f0 none true [x] = x ∧
    reduce f f0 none false [] = f0 ∧ reduce f f0 none true [] = f0 := by
  refine ⟨rfl, ?_, rfl, rfl, rfl, rfl⟩
  simp only [reduce, List.reverse_append, List.reverse_cons, List.reverse_nil, List.nil_append,
    List.cons_append]
  rw [List.foldl_reverse]

/-! ## set functions -/

theorem mem_setDifference_iff (eqv : α → α → Bool) (xs ys : List α) (x : α) :
    x ∈ setDifference eqv xs ys ↔ x ∈ xs ∧ ∀ y ∈ ys, eqv x y = false := by
  simp [setDifference]

theorem mem_intersection_iff (eqv : α → α → Bool) (xs ys : List α) (x : α) :
    x ∈ intersection eqv xs ys ↔ x ∈ xs ∧ ∃ y ∈ ys, eqv x y = true := by
  simp [intersection]

theorem subsetp_iff (eqv : α → α → Bool) (xs ys : List α) :
    subsetp eqv xs ys = true ↔ ∀ x ∈ xs, ∃ y ∈ ys, eqv x y = true := by
  simp [subsetp]

/-- `union` as a set: nothing foreign, all of list-1, and every element of list-2 is there or
    represented by an element matching it -/
theorem union_spec (eqv : α → α → Bool) (xs ys : List α) :
    (∀ z ∈ union eqv xs ys, z ∈ xs ∨ z ∈ ys) ∧ (∀ x ∈ xs, x ∈ union eqv xs ys) ∧
      (∀ y ∈ ys, ∃ w ∈ union eqv xs ys, w = y ∨ eqv w y = true) :=
  union_foldl_spec eqv ys xs

section Checkers

variable [DecidableEq α]

/-- the set-difference checker accepts exactly the results that are set-difference as a set -/
theorem setDifferenceOk_iff (eqv : α → α → Bool) (xs ys r : List α) :
    setDifferenceOk eqv xs ys r = true ↔
      (∀ z ∈ r, z ∈ xs ∧ ∀ y ∈ ys, eqv z y = false) ∧
      (∀ x ∈ xs, (∀ y ∈ ys, eqv x y = false) → ∃ w ∈ r, w = x ∨ eqv w x = true) := by
  simp only [setDifferenceOk, Bool.and_eq_true, List.all_eq_true, decide_eq_true_eq, Bool.not_eq_true',
    List.any_eq_false, Bool.or_eq_true, List.any_eq_true, Bool.not_eq_true]
  constructor
  · rintro ⟨h1, h2⟩
    refine ⟨fun z hz => ⟨(h1 z hz).1, fun y hy => by simpa using (h1 z hz).2 y hy⟩, ?_⟩
    intro x hx hno
    rcases h2 x hx with ⟨y, hy, hxy⟩ | h
    · have := hno y hy; simp [hxy] at this
    · exact h
  · rintro ⟨h1, h2⟩
    refine ⟨fun z hz => ⟨(h1 z hz).1, fun y hy => by simpa using (h1 z hz).2 y hy⟩, ?_⟩
    intro x hx
    by_cases hm : ∃ y, y ∈ ys ∧ eqv x y = true
    · exact Or.inl hm
    · refine Or.inr (h2 x hx ?_)
      intro y hy
      by_cases hxy : eqv x y = true
      · exact absurd ⟨y, hy, hxy⟩ hm
      · simpa using hxy

/-- the model's own `set-difference` passes its checker -/
theorem setDifferenceOk_setDifference (eqv : α → α → Bool) (xs ys : List α) :
    setDifferenceOk eqv xs ys (setDifference eqv xs ys) = true := by
  rw [setDifferenceOk_iff]
  refine ⟨fun z hz => (mem_setDifference_iff eqv xs ys z).mp hz, ?_⟩
  intro x hx hno
  exact ⟨x, (mem_setDifference_iff eqv xs ys x).mpr ⟨hx, hno⟩, Or.inl rfl⟩

theorem intersectionOk_iff (eqv : α → α → Bool) (xs ys r : List α) :
    intersectionOk eqv xs ys r = true ↔
      (∀ z ∈ r, z ∈ xs ∧ ∃ y ∈ ys, eqv z y = true) ∧
      (∀ x ∈ xs, (∃ y ∈ ys, eqv x y = true) → ∃ w ∈ r, w = x ∨ eqv w x = true) := by
  simp only [intersectionOk, Bool.and_eq_true, List.all_eq_true, decide_eq_true_eq, List.any_eq_true,
    Bool.or_eq_true, Bool.not_eq_true', List.any_eq_false]
  constructor
  · rintro ⟨h1, h2⟩
    refine ⟨h1, ?_⟩
    rintro x hx ⟨y, hy, hxy⟩
    rcases h2 x hx with h | h
    · have := h y hy; simp [hxy] at this
    · exact h
  · rintro ⟨h1, h2⟩
    refine ⟨h1, ?_⟩
    intro x hx
    by_cases hm : ∃ y, y ∈ ys ∧ eqv x y = true
    · exact Or.inr (h2 x hx hm)
    · refine Or.inl ?_
      intro y hy
      by_cases hxy : eqv x y = true
      · exact absurd ⟨y, hy, hxy⟩ hm
      · simpa using hxy

theorem intersectionOk_intersection (eqv : α → α → Bool) (xs ys : List α) :
    intersectionOk eqv xs ys (intersection eqv xs ys) = true := by
  rw [intersectionOk_iff]
  refine ⟨fun z hz => (mem_intersection_iff eqv xs ys z).mp hz, ?_⟩
  intro x hx hm
  exact ⟨x, (mem_intersection_iff eqv xs ys x).mpr ⟨hx, hm⟩, Or.inl rfl⟩

theorem unionOk_iff (eqv : α → α → Bool) (xs ys r : List α) :
    unionOk eqv xs ys r = true ↔
      (∀ z ∈ r, z ∈ xs ∨ z ∈ ys) ∧ (∀ z, z ∈ xs ∨ z ∈ ys → ∃ w ∈ r, eqv w z = true) := by
  simp only [unionOk, Bool.and_eq_true, List.all_eq_true, List.mem_append, decide_eq_true_eq,
    List.any_eq_true]

/-- the model's own `union` passes its checker when the test is reflexive -/
theorem unionOk_union (eqv : α → α → Bool) (hrefl : ∀ a, eqv a a = true) (xs ys : List α) :
    unionOk eqv xs ys (union eqv xs ys) = true := by
  rw [unionOk_iff]
  obtain ⟨h1, h2, h3⟩ := union_spec eqv xs ys
  refine ⟨h1, ?_⟩
  rintro z (hz | hz)
  · exact ⟨z, h2 z hz, hrefl z⟩
  · obtain ⟨w, hw, hwz⟩ := h3 z hz
    rcases hwz with rfl | hwz
    · exact ⟨w, hw, hrefl w⟩
    · exact ⟨w, hw, hwz⟩

end Checkers

/-! ## sort / stable-sort / merge -/

/-- satisfiable: `<` on the integers (the harness's `'<`) is a strict weak order -/
example : StrictWeakOrder (fun a b : Int => decide (a < b)) where
  irrefl := by intro a; simp
  trans := by intro a b c h1 h2; simp at *; omega
  negTrans := by intro a b c h1 h2; simp at *; omega

/-- and so is the model's interpretation of `'<` on integer objects (non-trivially: 1 < 2) -/
example : Fn.lt.test2 (.int 1) (.int 2) = true ∧ Fn.lt.test2 (.int 2) (.int 1) = false := by decide

/-- `sort` / `stable-sort`: the result is a permutation of the input, ordered by the predicate on
    the keys (no later element is strictly less than an earlier one) -/
theorem sort_perm_sorted {lt : β → β → Bool} (h : StrictWeakOrder lt) (key : α → β) (xs : List α) :
    (stableSort lt key xs).Perm xs ∧
      (stableSort lt key xs).Pairwise (fun a b => lt (key b) (key a) = false) := by
  refine ⟨List.mergeSort_perm xs _, ?_⟩
  have := List.pairwise_mergeSort (le := leOf lt key) (leOf_trans h key) (leOf_total h key) xs
  exact this.imp (by intro a b hab; simpa [leOf] using hab)

/-- `stable-sort` keeps equal elements in their original order: if `a` precedes `b` in the input and
    `b` is not strictly less than `a`, then `a` precedes `b` in the result -/
theorem stable_sort_stable {lt : β → β → Bool} (h : StrictWeakOrder lt) (key : α → β) (xs : List α)
    (a b : α) (hab : lt (key b) (key a) = false) (hsub : [a, b].Sublist xs) :
    [a, b].Sublist (stableSort lt key xs) :=
  List.pair_sublist_mergeSort (le := leOf lt key) (leOf_trans h key) (leOf_total h key)
    (by simpa [leOf] using hab) hsub

/-- more generally every already ordered subsequence of the input survives as a subsequence -/
theorem stable_sort_sublist {lt : β → β → Bool} (h : StrictWeakOrder lt) (key : α → β) (xs ys : List α)
    (hys : ys.Pairwise (fun a b => lt (key b) (key a) = false)) (hsub : ys.Sublist xs) :
    ys.Sublist (stableSort lt key xs) :=
  List.sublist_mergeSort (le := leOf lt key) (leOf_trans h key) (leOf_total h key)
    (hys.imp (by intro a b hab; simpa [leOf] using hab)) hsub

/-- an ordered input is returned unchanged -/
theorem stable_sort_of_sorted (lt : β → β → Bool) (key : α → β) (xs : List α)
    (hxs : xs.Pairwise (fun a b => lt (key b) (key a) = false)) : stableSort lt key xs = xs :=
  List.mergeSort_of_pairwise (le := leOf lt key) (hxs.imp (by intro a b hab; simpa [leOf] using hab))

section SortCheck

variable [DecidableEq α]

/-- the relation the harness checks on `sort` results is exactly "permutation and ordered" -/
theorem sortOk_iff (lt : β → β → Bool) (key : α → β) (input result : List α) :
    sortOk lt key input result = true ↔
      result.Perm input ∧ result.Pairwise (fun a b => lt (key b) (key a) = false) := by
  simp only [sortOk, Bool.and_eq_true, List.isPerm_iff, pairwiseB_iff, leOf, Bool.not_eq_true']

/-- the checker is not vacuous: the model's own result passes it -/
theorem sortOk_stableSort {lt : β → β → Bool} (h : StrictWeakOrder lt) (key : α → β) (xs : List α) :
    sortOk lt key xs (stableSort lt key xs) = true :=
  (sortOk_iff lt key xs _).mpr (sort_perm_sorted h key xs)

end SortCheck

/-- `merge`: a permutation of both inputs together; each input keeps its own order; when both inputs
    are ordered so is the result; and on ties the element of sequence-1 comes first (for `x` in
    sequence-1 and `y` in sequence-2 with `y` not strictly less than `x`, `x` precedes `y`) -/
theorem merge_spec {lt : β → β → Bool} (h : StrictWeakOrder lt) (key : α → β) (xs ys : List α) :
    (merge lt key xs ys).Perm (xs ++ ys) ∧ xs.Sublist (merge lt key xs ys) ∧
      ys.Sublist (merge lt key xs ys) ∧
      (xs.Pairwise (fun a b => lt (key b) (key a) = false) →
        ys.Pairwise (fun a b => lt (key b) (key a) = false) →
        (merge lt key xs ys).Pairwise (fun a b => lt (key b) (key a) = false)) ∧
      (xs.Pairwise (fun a b => lt (key b) (key a) = false) →
        ∀ x ∈ xs, ∀ y ∈ ys, lt (key y) (key x) = false → [x, y].Sublist (merge lt key xs ys)) := by
  refine ⟨List.merge_perm_append _, left_sublist_merge _ xs ys, right_sublist_merge _ xs ys, ?_, ?_⟩
  · intro hx hy
    have := List.pairwise_merge (le := leOf lt key) (leOf_trans h key) (leOf_total h key) xs ys
      (hx.imp (by intro a b hab; simpa [leOf] using hab))
      (hy.imp (by intro a b hab; simpa [leOf] using hab))
    exact this.imp (by intro a b hab; simpa [leOf] using hab)
  · intro hx x hxm y hym hxy
    exact merge_pair (leOf lt key) (leOf_trans h key) xs ys
      (hx.imp (by intro a b hab; simpa [leOf] using hab)) x y hxm hym (by simpa [leOf] using hxy)

/-! ## argument tuples of every / some / map / mapcar -/

theorem tuples_one (l : List α) : tuples [l] = l.map (fun x => [x]) := rfl

theorem tuples_two (l1 l2 : List α) : tuples [l1, l2] = List.zipWith (fun x y => [x, y]) l1 l2 := by
  simp only [tuples, List.zipWith_map_right]

/-- two sequences: as many tuples as the shorter sequence has elements -/
theorem tuples_two_length (l1 l2 : List α) : (tuples [l1, l2]).length = min l1.length l2.length := by
  simp [tuples_two]

/-! ## keywords -/

/-- `:test-not` (and the -if-not variants) match exactly the elements `:test` (the -if variant) does
    not match -/
theorem matcher_negate (kw : Kw) (tg : Target) (y : Obj) :
    ({ kw with negate := !kw.negate } : Kw).matcher tg y = !(kw.matcher tg y) := by
  cases tg <;> simp [Kw.matcher] <;> cases kw.negate <;> simp

/-- `:key` is applied to the elements, never to the item -/
theorem matcher_item (kw : Kw) (x y : Obj) (h : kw.negate = false) :
    kw.matcher (.item x) y = kw.test x (kw.key y) := by
  simp [Kw.matcher, h]

/-- in-range bounding indices are accepted as given (`:end nil` = length); everything else rejected -/
theorem bounds_ok_iff (start : Nat) (stop : Option Nat) (len a b : Nat) :
    bounds start stop len = .ok (a, b) ↔
      a = start ∧ b = stop.getD len ∧ start ≤ stop.getD len ∧ stop.getD len ≤ len := by
  have key : ∀ e : Nat, (if start ≤ e ∧ e ≤ len then (Except.ok (start, e) : Except Err (Nat × Nat))
      else .error .bounds) = .ok (a, b) ↔ a = start ∧ b = e ∧ start ≤ e ∧ e ≤ len := by
    intro e
    split
    · rename_i h
      simp only [Except.ok.injEq, Prod.mk.injEq]
      constructor
      · rintro ⟨rfl, rfl⟩; exact ⟨rfl, rfl, h.1, h.2⟩
      · rintro ⟨rfl, rfl, _, _⟩; exact ⟨rfl, rfl⟩
    · rename_i h
      simp only [reduceCtorEq, false_iff]
      rintro ⟨_, _, h1, h2⟩
      exact h ⟨h1, h2⟩
  cases stop with
  | none => simpa [bounds] using key len
  | some e => simpa [bounds] using key e

/-! ## seq_type_uniform: vectors and strings are the list version conjugated by toList / ofList -/

/-- lists and vectors take any elements; strings only characters; octets vectors only integers 0..255 -/
theorem ofList_ok_iff (k : Kind) (l : List Obj) :
    (∃ r, Seq.ofList k l = .ok r) ↔ l.all (elemOk k) = true := by
  unfold Seq.ofList
  by_cases h : l.all (elemOk k) = false
  · simp [h]
  · have h' : l.all (elemOk k) = true := by simpa using h
    simp [h']

theorem ofList_string_iff (l : List Obj) : (∃ r, Seq.ofList .string l = .ok r) ↔ l.all isChr = true := by
  rw [ofList_ok_iff]
  simp [elemOk]

theorem ofList_octets_iff (l : List Obj) :
    (∃ r, Seq.ofList .octets l = .ok r) ↔ ∀ o ∈ l, ∃ i : Int, o = .int i ∧ 0 ≤ i ∧ i < 256 := by
  rw [ofList_ok_iff, List.all_eq_true]
  constructor
  · intro h o ho
    have := h o ho
    cases o <;> simp [elemOk, isOctet] at this
    exact ⟨_, rfl, this.1, this.2⟩
  · intro h o ho
    obtain ⟨i, rfl, h0, h1⟩ := h o ho
    simp [elemOk, isOctet, h0, h1]

theorem ofList_list_vector (l : List Obj) : Seq.ofList .list l = .ok ⟨.list, l⟩ ∧ Seq.ofList .vector l = .ok ⟨.vector, l⟩ := by
  constructor <;> simp [Seq.ofList, elemOk]

/-- `seq_type_uniform` for the sequence-valued functions: on a vector or a string (or a list) the
    result has the kind of the argument and its elements are what the list function yields on the
    elements of the argument — the vector/string version is the list version conjugated by
    `toList / ofList`. -/
theorem seq_type_uniform_remove (kw : Kw) (tg : Target) (s r : Seq) (h : removeS kw tg s = .ok r) :
    ∃ a b, bounds kw.start kw.stop s.toList.length = .ok (a, b) ∧ r.kind = s.kind ∧
      r.toList = remove (kw.matcher tg) a b kw.count kw.fromEnd s.toList := by
  unfold removeS at h
  cases hb : bounds kw.start kw.stop s.elems.length with
  | error e => simp [hb, bind, Except.bind] at h
  | ok ab =>
    obtain ⟨a, b⟩ := ab
    simp only [hb, bind, Except.bind] at h
    exact ⟨a, b, hb, ofList_ok _ _ _ h⟩

theorem seq_type_uniform_substitute (new : Obj) (kw : Kw) (tg : Target) (s r : Seq)
    (h : substituteS new kw tg s = .ok r) :
    ∃ a b, bounds kw.start kw.stop s.toList.length = .ok (a, b) ∧ r.kind = s.kind ∧
      r.toList = substitute new (kw.matcher tg) a b kw.count kw.fromEnd s.toList := by
  unfold substituteS at h
  cases hb : bounds kw.start kw.stop s.elems.length with
  | error e => simp [hb, bind, Except.bind] at h
  | ok ab =>
    obtain ⟨a, b⟩ := ab
    simp only [hb, bind, Except.bind] at h
    exact ⟨a, b, hb, ofList_ok _ _ _ h⟩

theorem seq_type_uniform_remove_duplicates (kw : Kw) (s r : Seq) (h : removeDuplicatesS kw s = .ok r) :
    ∃ a b, bounds kw.start kw.stop s.toList.length = .ok (a, b) ∧ r.kind = s.kind ∧
      r.toList = removeDuplicates kw.eqv a b kw.fromEnd s.toList := by
  unfold removeDuplicatesS at h
  cases hb : bounds kw.start kw.stop s.elems.length with
  | error e => simp [hb, bind, Except.bind] at h
  | ok ab =>
    obtain ⟨a, b⟩ := ab
    simp only [hb, bind, Except.bind] at h
    exact ⟨a, b, hb, ofList_ok _ _ _ h⟩

theorem seq_type_uniform_subseq (start : Nat) (stop : Option Nat) (s r : Seq)
    (h : subseqS start stop s = .ok r) :
    ∃ a b, bounds start stop s.toList.length = .ok (a, b) ∧ r.kind = s.kind ∧
      r.toList = subseq a b s.toList := by
  unfold subseqS at h
  cases hb : bounds start stop s.elems.length with
  | error e => simp [hb, bind, Except.bind] at h
  | ok ab =>
    obtain ⟨a, b⟩ := ab
    simp only [hb, bind, Except.bind] at h
    exact ⟨a, b, hb, ofList_ok _ _ _ h⟩

theorem seq_type_uniform_fill (item : Obj) (start : Nat) (stop : Option Nat) (s r : Seq)
    (h : fillS item start stop s = .ok r) :
    ∃ a b, bounds start stop s.toList.length = .ok (a, b) ∧ r.kind = s.kind ∧
      r.toList = fill item a b s.toList := by
  unfold fillS at h
  cases hb : bounds start stop s.elems.length with
  | error e => simp [hb, bind, Except.bind] at h
  | ok ab =>
    obtain ⟨a, b⟩ := ab
    simp only [hb, bind, Except.bind] at h
    exact ⟨a, b, hb, ofList_ok _ _ _ h⟩

theorem seq_type_uniform_reverse (s r : Seq) (h : reverseS s = .ok r) :
    r.kind = s.kind ∧ r.toList = s.toList.reverse := ofList_ok _ _ _ h

theorem seq_type_uniform_sort (lt : Obj → Obj → Bool) (key : Obj → Obj) (s r : Seq)
    (h : stableSortS lt key s = .ok r) :
    r.kind = s.kind ∧ r.toList = stableSort lt key s.toList := ofList_ok _ _ _ h

/-- `merge`, `map` and `concatenate` build the kind named by their result-type argument from the
    elements the list function yields, whatever the kinds of the arguments -/
theorem seq_type_uniform_merge (rt : Kind) (lt : Obj → Obj → Bool) (key : Obj → Obj) (s1 s2 r : Seq)
    (h : mergeS rt lt key s1 s2 = .ok r) :
    r.kind = rt ∧ r.toList = merge lt key s1.toList s2.toList := ofList_ok _ _ _ h

theorem seq_type_uniform_concatenate (rt : Kind) (ss : List Seq) (r : Seq)
    (h : concatenateS rt ss = .ok r) : r.kind = rt ∧ r.toList = ss.flatMap Seq.toList :=
  ofList_ok _ _ _ h

theorem seq_type_uniform_map (rt : Kind) (f : List Obj → Obj) (ss : List Seq) (r : Seq)
    (h : mapS rt f ss = .ok r) : r.kind = rt ∧ r.toList = (tuples (ss.map Seq.toList)).map f :=
  ofList_ok _ _ _ h

/-- `seq_type_uniform` for the object-valued functions: the answer depends on the elements only,
    not on whether they sit in a list, a vector or a string -/
theorem seq_type_uniform (kw : Kw) (tg : Target) (k k' : Kind) (l : List Obj) :
    positionS kw tg ⟨k, l⟩ = positionS kw tg ⟨k', l⟩ ∧ findS kw tg ⟨k, l⟩ = findS kw tg ⟨k', l⟩ ∧
      countS kw tg ⟨k, l⟩ = countS kw tg ⟨k', l⟩ ∧
      (∀ f f0 key init fe a b, reduceS f f0 key init fe a b ⟨k, l⟩ = reduceS f f0 key init fe a b ⟨k', l⟩) ∧
      (∀ s2 a1 b1 a2 b2, searchS kw a1 b1 a2 b2 ⟨k, l⟩ s2 = searchS kw a1 b1 a2 b2 ⟨k', l⟩ s2) ∧
      (∀ s2 a1 b1 a2 b2, mismatchS kw a1 b1 a2 b2 ⟨k, l⟩ s2 = mismatchS kw a1 b1 a2 b2 ⟨k', l⟩ s2) :=
  ⟨rfl, rfl, rfl, fun _ _ _ _ _ _ _ => rfl, fun _ _ _ _ _ => rfl, fun _ _ _ _ _ => rfl⟩

/-- and the object-valued functions are the list functions on the elements with the resolved bounds -/
theorem positionS_eq (kw : Kw) (tg : Target) (s : Seq) (a b : Nat)
    (hb : bounds kw.start kw.stop s.toList.length = .ok (a, b)) :
    positionS kw tg s = .ok (optNat (position (kw.matcher tg) a b kw.fromEnd s.toList)) ∧
      findS kw tg s = .ok (optObj (find (kw.matcher tg) a b kw.fromEnd s.toList)) ∧
      countS kw tg s = .ok (.int (count (kw.matcher tg) a b s.toList)) := by
  unfold positionS findS countS
  simp only [Seq.toList] at hb
  simp [hb, bind, Except.bind, pure, Except.pure]

/-! ## every / some / notany / notevery / mapcar -/

/-- `every` holds exactly when the predicate holds on every argument tuple (the i-th elements of
    all sequences, up to the shortest) -/
theorem every_iff (f : List Obj → Obj) (seqs : List (List Obj)) :
    truthy (every f seqs) = true ↔ ∀ tup ∈ tuples seqs, truthy (f tup) = true := by
  unfold every
  rw [truthy_ofBool, List.all_eq_true]

theorem some_iff (f : List Obj → Obj) (seqs : List (List Obj)) :
    truthy (some' f seqs) = true ↔ ∃ tup ∈ tuples seqs, truthy (f tup) = true := by
  unfold some'
  rw [truthy_firstTruthy, List.any_eq_true]

/-- `notany` is the complement of `some`, `notevery` the complement of `every` -/
theorem quantifier_duality (f : List Obj → Obj) (seqs : List (List Obj)) :
    notany f seqs = ofBool (!truthy (some' f seqs)) ∧ notevery f seqs = ofBool (!truthy (every f seqs)) := by
  unfold notany notevery some' every
  rw [truthy_firstTruthy, truthy_ofBool, List.not_any_eq_all_not, List.not_all_eq_any_not]
  exact ⟨rfl, rfl⟩

/-- `mapcar` applies the function to each argument tuple, in order -/
theorem mapcar_spec (f : List Obj → Obj) (lists : List (List Obj)) :
    (mapcar f lists).length = (tuples lists).length ∧
      ∀ i : Nat, (mapcar f lists)[i]? = ((tuples lists)[i]?).map f := by
  simp [mapcar]

/-! ## user functions that re-enter the call (`self=key|pred|fn|test|test1` of the driver)

  All theorems above quantify over arbitrary `p`, `key`, `eqv`, `lt`: they hold in particular when
  these are the recursively defined functions below, i.e. when a `:key` / `:test` / predicate re-enters
  the very call it is an argument of. The model is a pure function, so evaluating a call again,
  nested or later, gives the same answer; that the implementation does too (no state kept in
  function objects or package variables between or during calls) is what the harness checks by
  evaluating every call form three times inside one lambda. -/

theorem toList?_ofList (l : List Obj) : (Obj.ofList l).toList? = some l := by
  induction l with
  | nil => rfl
  | cons a l ih => simp [Obj.ofList, Obj.toList?, ih]

/-- on an atom the base function decides -/
theorem selfApply_atom (F : (Obj → Option Obj) → List Obj → Option Obj) (base : Obj → Option Obj)
    (n : Nat) (x : Obj) (h : atomic x = true) : selfApply F base n x = base x := by
  cases n <;> simp [selfApply, h]

/-- on a nested list the enclosing call runs again, with the same user function one level down -/
theorem selfApply_cons (F : (Obj → Option Obj) → List Obj → Option Obj) (base : Obj → Option Obj)
    (n : Nat) (a d : Obj) (l : List Obj) (h : (Obj.cons a d).toList? = some l) :
    selfApply F base (n + 1) (.cons a d) = F (selfApply F base n) l := by
  simp [selfApply, atomic, h]

theorem selfApply2_atom (F : (Obj → Obj → Option Obj) → List Obj → List Obj → Option Obj)
    (base : Obj → Obj → Option Obj) (n : Nat) (a b : Obj) (h : atomic a = true ∨ atomic b = true) :
    selfApply2 F base n a b = base a b := by
  cases n <;> rcases h with h | h <;> simp [selfApply2, h]

theorem selfApply2_cons (F : (Obj → Obj → Option Obj) → List Obj → List Obj → Option Obj)
    (base : Obj → Obj → Option Obj) (n : Nat) (a1 d1 a2 d2 : Obj) (la lb : List Obj)
    (ha : (Obj.cons a1 d1).toList? = some la) (hb : (Obj.cons a2 d2).toList? = some lb) :
    selfApply2 F base (n + 1) (.cons a1 d1) (.cons a2 d2) = F (selfApply2 F base n) la lb := by
  simp [selfApply2, atomic, ha, hb]

/-- the re-entering test of remove-duplicates is symmetric (hence usable as an equivalence test) -/
theorem selfApplyT_symm (F : (Obj → Obj → Option Obj) → List Obj → Option Obj) (n : Nat) (a b : Obj)
    (v : Obj) (h : selfApplyT F n a b = some v) : selfApplyT F n b a = some v := by
  cases n with
  | zero =>
    simp only [selfApplyT] at *
    by_cases hab : (atomic a || atomic b) = true
    · have hba : (atomic b || atomic a) = true := by simpa [Bool.or_comm] using hab
      simp only [hab, if_true] at h
      simp only [hba, if_true]
      rw [← h]
      congr 1
      by_cases e : a = b
      · subst e; rfl
      · have e' : ¬ b = a := fun h' => e h'.symm
        simp [ofBool, e, e']
    · simp [hab] at h
  | succ n =>
    simp only [selfApplyT] at *
    by_cases hab : (atomic a || atomic b) = true
    · have hba : (atomic b || atomic a) = true := by simpa [Bool.or_comm] using hab
      simp only [hab, if_true] at h
      simp only [hba, if_true]
      rw [← h]
      congr 1
      by_cases e : a = b
      · subst e; rfl
      · have e' : ¬ b = a := fun h' => e h'.symm
        simp [ofBool, e, e']
    · have hba : ¬ (atomic b || atomic a) = true := by simpa [Bool.or_comm] using hab
      simp only [hab, Bool.false_eq_true, if_false] at h
      simp only [hba, Bool.false_eq_true, if_false]
      cases ha : a.toList? with
      | none => simp [ha] at h
      | some la =>
        cases hb : b.toList? with
        | none => simp [ha, hb] at h
        | some lb =>
          simp only [ha, hb] at h ⊢
          cases hra : F (selfApplyT F n) la with
          | none => simp [hra] at h
          | some ra =>
            cases hrb : F (selfApplyT F n) lb with
            | none => simp [hra, hrb] at h
            | some rb =>
              simp only [hra, hrb, Option.some.injEq] at h ⊢
              rw [← h]
              by_cases e : ra = rb
              · subst e; rfl
              · have e' : ¬ rb = ra := fun h' => e h'.symm
                simp [ofBool, e, e']

/-! ## concrete instances: the hypotheses of the theorems above are satisfiable and the model
    computes the language's answers on small inputs (tests, therefore `example`) -/

-- in-range bounds `start ≤ end ≤ length` (hypotheses of deleteImpl_eq_remove, subseq_spec, fill_spec, replace_spec)
example : (1 : Nat) ≤ 4 ∧ 4 ≤ [1, 1, 2, 1, 1].length := by decide
example : bounds 1 (some 4) 5 = .ok (1, 4) ∧ bounds 1 none 5 = .ok (1, 5) ∧ bounds 3 (some 2) 5 = .error .bounds := by
  simp [bounds]
example : remove (fun x : Nat => x == 1) 1 4 (some 1) true [1, 1, 2, 1, 1] = [1, 1, 2, 1] := by decide
example : remove (fun x : Nat => x == 1) 1 4 (some 1) false [1, 1, 2, 1, 1] = [1, 2, 1, 1] := by decide
example : deleteImpl (fun x : Nat => x == 1) 1 4 (some 1) true [1, 1, 2, 1, 1] = [1, 1, 2, 1] := by decide
example : position (fun x : Nat => x == 1) 1 4 true [1, 1, 2, 1, 1] = some 3 := by decide
example : positionImpl (fun x : Nat => x == 1) 1 4 true [1, 1, 2, 1, 1] = some 3 := by decide
example : find (fun x : Nat => x == 1) 1 4 false [1, 1, 2, 1, 1] = some 1 := by decide
example : count (fun x : Nat => x == 1) 1 4 [1, 1, 2, 1, 1] = 2 := by decide
example : substitute 9 (fun x : Nat => x == 1) 0 5 (some 2) false [1, 1, 2, 1, 1] = [9, 9, 2, 1, 1] := by decide
example : substitute 9 (fun x : Nat => x == 1) 0 5 (some 0) false [1, 1, 2, 1, 1] = [1, 1, 2, 1, 1] := by decide
example : substitute 9 (fun x : Nat => x == 1) 0 5 (some (-3)) true [1, 1, 2, 1, 1] = [1, 1, 2, 1, 1] := by decide
-- the equivalence hypotheses of remove_duplicates_spec / unionOk_union: structural equality on Nat
example : (∀ a : Nat, (a == a) = true) ∧
    (∀ a b c : Nat, (a == b) = true → (b == c) = true → (a == c) = true) ∧
    (∀ a b : Nat, (a == b) = true → (b == a) = true) := by
  refine ⟨by simp, ?_, ?_⟩
  · intro a b c h1 h2; simp at *; omega
  · intro a b h; simp at *; omega
example : removeDuplicates (fun a b : Nat => a == b) 0 5 false [1, 2, 1, 3, 2] = [1, 3, 2] := by decide
example : removeDuplicates (fun a b : Nat => a == b) 0 5 true [1, 2, 1, 3, 2] = [1, 2, 3] := by decide
example : search (fun a b : Nat => a == b) 0 2 0 3 true [1, 2] [1, 2, 3] = some 0 := by decide
example : search (fun a b : Nat => a == b) 0 0 1 3 false [] [1, 2, 3] = some 1 := by decide
example : mismatch (fun a b : Nat => a == b) 0 3 0 3 true [1, 2, 3] [9, 2, 3] = some 1 := by decide
example : mismatch (fun a b : Nat => a == b) 0 4 0 3 true [0, 1, 2, 3] [2, 1, 3] = some 3 := by decide
example : replace 1 3 0 3 [1, 2, 3, 4] [7, 8, 9] = [1, 7, 8, 4] := by decide
example : fill 0 1 3 [1, 2, 3, 4] = [1, 0, 0, 4] := by decide
example : reduce (fun a b : Int => a - b) 0 none true [1, 2, 3, 4] = -2 := by decide
example : reduce (fun a b : Int => a - b) 0 (some 10) false [1, 2, 3] = 4 := by decide
example : union (fun a b : Nat => a == b) [1, 2] [2, 3] = [1, 2, 3] := by decide
example : merge (fun a b : Nat => decide (a < b)) (fun p : Nat × Nat => p.1) [(1, 0)] [(1, 1)] = [(1, 0), (1, 1)] := by
  simp [merge, leOf]
example : stableSort (fun a b : Nat => decide (a < b)) (fun p : Nat × Nat => p.1) [(1, 0), (0, 1), (1, 2), (0, 3)]
    = [(0, 1), (0, 3), (1, 0), (1, 2)] := by
  simp [stableSort, List.mergeSort, List.MergeSort.Internal.splitInTwo, leOf]

end SlipVerif.Seq
