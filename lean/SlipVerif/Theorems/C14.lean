import SlipVerif.Model.Seq
namespace SlipVerif.Seq

theorem mid_length_le {α : Type} (s e : Nat) (xs : List α) : (mid s e xs).length ≤ e - s := by
  simp [mid]; omega

end SlipVerif.Seq
